import OjgVerif.Sen.LemmasReset
import OjgVerif.Sen.LemmasKey
/-! sen.Tokenizer: a reused tokenizer answers what a fresh one answers (`call_tokenizer_ref`).

`Tokenizer.Parse`/`Load` reset `tmp`, `starts`, `noff`, `line`, `mode`, `mi` and (since f540857) `exkey`; they do not
reset `ri`, `rn`, the number accumulator and `quoteDelim`. These are dead on entry: every case of the tokenizer's
switch writes them before it reads them. The proof is a simulation with the relation `SameT`: two states agree on
everything except the scratch fields that are dead in the current mode (`numLive`, `strLive`, `uLive` of
Sen/LemmasReset.lean; which case occurs in which mode is read off the reference tables by kernel evaluation:
`live_facts`, `fin_n_live`) and the parser-only fields `lastKey`/`lastStrKey`, which the tokenizer never reads. -/
set_option linter.unusedSimpArgs false
set_option linter.unusedVariables false
set_option linter.unusedSectionVars false
namespace OjgVerif.Sen
open OjgVerif

/-- what matters to the tokenizer: everything except the scratch fields that are dead in the current mode and the
two key fields -/
structure SameT (a b : St) : Prop where
  mode : a.mode = b.mode
  starts : a.starts = b.starts
  stack : a.stack = b.stack
  docs : a.docs = b.docs
  evs : a.evs = b.evs
  exkey : a.exkey = b.exkey
  tmp : a.tmp = b.tmp
  plus : a.plus = b.plus
  feat : a.feat = b.feat
  num : numLive a.mode = true → a.num = b.num
  qd : strLive a.mode = true → a.quoteDelim = b.quoteDelim
  ri : uLive a.mode = true → a.ri = b.ri ∧ a.rn = b.rn

def R3T (r r' : Except ErrKind (St × Bool × Bool)) : Prop :=
  match r, r' with
  | .error e, .error e' => e = e'
  | .ok (a, c, n), .ok (a', c', n') => SameT a a' ∧ c = c' ∧ n = n'
  | _, _ => False

def RET (r r' : Except ErrKind St) : Prop :=
  match r, r' with
  | .error e, .error e' => e = e'
  | .ok a, .ok a' => SameT a a'
  | _, _ => False

theorem SameT.rfl' (a : St) : SameT a a :=
  ⟨rfl, rfl, rfl, rfl, rfl, rfl, rfl, rfl, rfl, fun _ => rfl, fun _ => rfl, fun _ => ⟨rfl, rfl⟩⟩

theorem addFeat_sameT (a b : St) (c : Char) (h : SameT a b) : SameT (a.addFeat c) (b.addFeat c) := by
  obtain ⟨h1, h2, h3, h4, h5, h6, h7, h8, h9, h10, h11, h12⟩ := h
  unfold St.addFeat
  rw [h9]
  split
  · exact ⟨h1, h2, h3, h4, h5, h6, h7, h8, h9, h10, h11, h12⟩
  · exact ⟨h1, h2, h3, h4, h5, h6, h7, h8, by simp [h9], h10, h11, h12⟩

set_option hygiene false in
macro "rT" : tactic => `(tactic| (
  obtain ⟨f1, f2, f3⟩ := live_facts a.mode b
  simp only [hact, needsNum, needsStr, forall_const, reduceCtorEq, false_implies] at f1 f2 f3
  obtain ⟨h1, h2, h3, h4, h5, h6, h7, h8, h9, h10, h11, h12⟩ := h
  unfold stepActT
  simp only [refTables, ← h1, hact, htk, Bool.false_eq_true, ↓reduceIte]
  first
    | rfl
    | (refine ⟨?_, rfl, rfl⟩; constructor <;> simp_all [Json.Num.reset])
    | (split <;> first | rfl | (refine ⟨?_, rfl, rfl⟩; constructor <;> simp_all [Json.Num.reset]))))

theorem relT_skipNewline (cfg : Cfg) (htk : cfg.tkOld = false) (a a' : St) (b : UInt8) (h : SameT a a')
    (hact : expected a.mode b = .skipNewline) : R3T (stepActT refTables cfg a b) (stepActT refTables cfg a' b) := by rT

theorem relT_cskipNewline (cfg : Cfg) (htk : cfg.tkOld = false) (a a' : St) (b : UInt8) (h : SameT a a')
    (hact : expected a.mode b = .cskipNewline) : R3T (stepActT refTables cfg a b) (stepActT refTables cfg a' b) := by rT

theorem relT_tokenStart (cfg : Cfg) (htk : cfg.tkOld = false) (a a' : St) (b : UInt8) (h : SameT a a')
    (hact : expected a.mode b = .tokenStart) : R3T (stepActT refTables cfg a b) (stepActT refTables cfg a' b) := by
  obtain ⟨f1, f2, f3⟩ := live_facts a.mode b
  simp only [hact, needsNum, needsStr, forall_const, reduceCtorEq, false_implies] at f1 f2 f3
  have hs := h
  obtain ⟨h1, h2, h3, h4, h5, h6, h7, h8, h9, h10, h11, h12⟩ := h
  unfold stepActT
  simp only [refTables, ← h1, hact, htk, Bool.false_eq_true, ↓reduceIte]
  by_cases hc : expected Mode.token b = Act.tokenOk
  · simp only [hc, ↓reduceIte]
    refine ⟨?_, rfl, rfl⟩
    constructor <;> simp_all
  · simp only [hc, ↓reduceIte]
    rfl

theorem relT_strOk (cfg : Cfg) (htk : cfg.tkOld = false) (a a' : St) (b : UInt8) (h : SameT a a')
    (hact : expected a.mode b = .strOk) : R3T (stepActT refTables cfg a b) (stepActT refTables cfg a' b) := by rT

theorem relT_colonColon (cfg : Cfg) (htk : cfg.tkOld = false) (a a' : St) (b : UInt8) (h : SameT a a')
    (hact : expected a.mode b = .colonColon) : R3T (stepActT refTables cfg a b) (stepActT refTables cfg a' b) := by rT

theorem relT_skipChar (cfg : Cfg) (htk : cfg.tkOld = false) (a a' : St) (b : UInt8) (h : SameT a a')
    (hact : expected a.mode b = .skipChar) : R3T (stepActT refTables cfg a b) (stepActT refTables cfg a' b) := by rT

theorem relT_cskipChar (cfg : Cfg) (htk : cfg.tkOld = false) (a a' : St) (b : UInt8) (h : SameT a a')
    (hact : expected a.mode b = .cskipChar) : R3T (stepActT refTables cfg a b) (stepActT refTables cfg a' b) := by rT

theorem relT_valDigit (cfg : Cfg) (htk : cfg.tkOld = false) (a a' : St) (b : UInt8) (h : SameT a a')
    (hact : expected a.mode b = .valDigit) : R3T (stepActT refTables cfg a b) (stepActT refTables cfg a' b) := by rT

theorem relT_valQuote (cfg : Cfg) (htk : cfg.tkOld = false) (a a' : St) (b : UInt8) (h : SameT a a')
    (hact : expected a.mode b = .valQuote) : R3T (stepActT refTables cfg a b) (stepActT refTables cfg a' b) := by rT

theorem relT_strSlash (cfg : Cfg) (htk : cfg.tkOld = false) (a a' : St) (b : UInt8) (h : SameT a a')
    (hact : expected a.mode b = .strSlash) : R3T (stepActT refTables cfg a b) (stepActT refTables cfg a' b) := by rT

theorem relT_escOk (cfg : Cfg) (htk : cfg.tkOld = false) (a a' : St) (b : UInt8) (h : SameT a a')
    (hact : expected a.mode b = .escOk) : R3T (stepActT refTables cfg a b) (stepActT refTables cfg a' b) := by rT

theorem relT_val0 (cfg : Cfg) (htk : cfg.tkOld = false) (a a' : St) (b : UInt8) (h : SameT a a')
    (hact : expected a.mode b = .val0) : R3T (stepActT refTables cfg a b) (stepActT refTables cfg a' b) := by rT

theorem relT_valNeg (cfg : Cfg) (htk : cfg.tkOld = false) (a a' : St) (b : UInt8) (h : SameT a a')
    (hact : expected a.mode b = .valNeg) : R3T (stepActT refTables cfg a b) (stepActT refTables cfg a' b) := by rT

theorem relT_escU (cfg : Cfg) (htk : cfg.tkOld = false) (a a' : St) (b : UInt8) (h : SameT a a')
    (hact : expected a.mode b = .escU) : R3T (stepActT refTables cfg a b) (stepActT refTables cfg a' b) := by rT

theorem relT_numDot (cfg : Cfg) (htk : cfg.tkOld = false) (a a' : St) (b : UInt8) (h : SameT a a')
    (hact : expected a.mode b = .numDot) : R3T (stepActT refTables cfg a b) (stepActT refTables cfg a' b) := by
  obtain ⟨f1, f2, f3⟩ := live_facts a.mode b
  simp only [hact, needsNum, needsStr, forall_const, reduceCtorEq, false_implies] at f1 f2 f3
  have hs := h
  obtain ⟨h1, h2, h3, h4, h5, h6, h7, h8, h9, h10, h11, h12⟩ := h
  unfold stepActT
  simp only [refTables, ← h1, hact, htk, Bool.false_eq_true, ↓reduceIte]
  have hn := h10 f1
  rw [← hn]
  by_cases hc : 0 < a.num.big.length
  · simp only [hc, ↓reduceIte]
    refine ⟨?_, rfl, rfl⟩
    constructor <;> simp_all
  · simp only [hc, ↓reduceIte]
    refine ⟨?_, rfl, rfl⟩
    constructor <;> simp_all

theorem relT_numFrac (cfg : Cfg) (htk : cfg.tkOld = false) (a a' : St) (b : UInt8) (h : SameT a a')
    (hact : expected a.mode b = .numFrac) : R3T (stepActT refTables cfg a b) (stepActT refTables cfg a' b) := by rT

theorem relT_fracE (cfg : Cfg) (htk : cfg.tkOld = false) (a a' : St) (b : UInt8) (h : SameT a a')
    (hact : expected a.mode b = .fracE) : R3T (stepActT refTables cfg a b) (stepActT refTables cfg a' b) := by rT

theorem relT_tokenOk (cfg : Cfg) (htk : cfg.tkOld = false) (a a' : St) (b : UInt8) (h : SameT a a')
    (hact : expected a.mode b = .tokenOk) : R3T (stepActT refTables cfg a b) (stepActT refTables cfg a' b) := by rT

theorem relT_numZero (cfg : Cfg) (htk : cfg.tkOld = false) (a a' : St) (b : UInt8) (h : SameT a a')
    (hact : expected a.mode b = .numZero) : R3T (stepActT refTables cfg a b) (stepActT refTables cfg a' b) := by rT

theorem relT_numDigit (cfg : Cfg) (htk : cfg.tkOld = false) (a a' : St) (b : UInt8) (h : SameT a a')
    (hact : expected a.mode b = .numDigit) : R3T (stepActT refTables cfg a b) (stepActT refTables cfg a' b) := by rT

theorem relT_negDigit (cfg : Cfg) (htk : cfg.tkOld = false) (a a' : St) (b : UInt8) (h : SameT a a')
    (hact : expected a.mode b = .negDigit) : R3T (stepActT refTables cfg a b) (stepActT refTables cfg a' b) := by rT

theorem relT_expSign (cfg : Cfg) (htk : cfg.tkOld = false) (a a' : St) (b : UInt8) (h : SameT a a')
    (hact : expected a.mode b = .expSign) : R3T (stepActT refTables cfg a b) (stepActT refTables cfg a' b) := by rT

theorem relT_expDigit (cfg : Cfg) (htk : cfg.tkOld = false) (a a' : St) (b : UInt8) (h : SameT a a')
    (hact : expected a.mode b = .expDigit) : R3T (stepActT refTables cfg a b) (stepActT refTables cfg a' b) := by rT

theorem relT_uOk (cfg : Cfg) (htk : cfg.tkOld = false) (a a' : St) (b : UInt8) (h : SameT a a')
    (hact : expected a.mode b = .uOk) : R3T (stepActT refTables cfg a b) (stepActT refTables cfg a' b) := by
  obtain ⟨f1, f2, f3⟩ := live_facts a.mode b
  simp only [hact, needsNum, needsStr, forall_const, reduceCtorEq, false_implies] at f1 f2 f3
  have hs := h
  obtain ⟨h1, h2, h3, h4, h5, h6, h7, h8, h9, h10, h11, h12⟩ := h
  unfold stepActT
  simp only [refTables, ← h1, hact, htk, Bool.false_eq_true, ↓reduceIte]
  obtain ⟨hri, hrn⟩ := h12 f3
  have hq := h11 f2
  rw [← hri, ← hrn, ← h7]
  refine ⟨?_, rfl, rfl⟩
  by_cases hc : a.ri + 1 = 4
  · simp only [hc, ↓reduceIte]
    constructor <;> simp_all
  · simp only [hc, ↓reduceIte]
    constructor <;> simp_all

theorem relT_commentStart (cfg : Cfg) (htk : cfg.tkOld = false) (a a' : St) (b : UInt8) (h : SameT a a')
    (hact : expected a.mode b = .commentStart) : R3T (stepActT refTables cfg a b) (stepActT refTables cfg a' b) := by rT

theorem relT_commentEnd (cfg : Cfg) (htk : cfg.tkOld = false) (a a' : St) (b : UInt8) (h : SameT a a')
    (hact : expected a.mode b = .commentEnd) : R3T (stepActT refTables cfg a b) (stepActT refTables cfg a' b) := by rT

theorem relT_ccommentStart (cfg : Cfg) (htk : cfg.tkOld = false) (a a' : St) (b : UInt8) (h : SameT a a')
    (hact : expected a.mode b = .ccommentStart) : R3T (stepActT refTables cfg a b) (stepActT refTables cfg a' b) := by rT

theorem relT_ccommentEnd (cfg : Cfg) (htk : cfg.tkOld = false) (a a' : St) (b : UInt8) (h : SameT a a')
    (hact : expected a.mode b = .ccommentEnd) : R3T (stepActT refTables cfg a b) (stepActT refTables cfg a' b) := by rT

theorem relT_valPlus (cfg : Cfg) (htk : cfg.tkOld = false) (a a' : St) (b : UInt8) (h : SameT a a')
    (hact : expected a.mode b = .valPlus) : R3T (stepActT refTables cfg a b) (stepActT refTables cfg a' b) := by
  have hs := h
  obtain ⟨h1, h2, h3, h4, h5, h6, h7, h8, h9, h10, h11, h12⟩ := h
  unfold stepActT
  simp only [refTables, ← h1, hact]
  exact ⟨addFeat_sameT a a' _ hs, rfl, rfl⟩

theorem relT_openParen (cfg : Cfg) (htk : cfg.tkOld = false) (a a' : St) (b : UInt8) (h : SameT a a')
    (hact : expected a.mode b = .openParen) : R3T (stepActT refTables cfg a b) (stepActT refTables cfg a' b) := by
  have hs := h
  obtain ⟨h1, h2, h3, h4, h5, h6, h7, h8, h9, h10, h11, h12⟩ := h
  unfold stepActT
  simp only [refTables, ← h1, hact]
  exact ⟨addFeat_sameT a a' _ hs, rfl, rfl⟩

theorem relT_closeParen (cfg : Cfg) (htk : cfg.tkOld = false) (a a' : St) (b : UInt8) (h : SameT a a')
    (hact : expected a.mode b = .closeParen) : R3T (stepActT refTables cfg a b) (stepActT refTables cfg a' b) := by
  have hs := h
  obtain ⟨h1, h2, h3, h4, h5, h6, h7, h8, h9, h10, h11, h12⟩ := h
  unfold stepActT
  simp only [refTables, ← h1, hact]
  exact ⟨addFeat_sameT a a' _ hs, rfl, rfl⟩

theorem relT_charErr (cfg : Cfg) (htk : cfg.tkOld = false) (a a' : St) (b : UInt8) (h : SameT a a')
    (hact : expected a.mode b = .charErr) : R3T (stepActT refTables cfg a b) (stepActT refTables cfg a' b) := by rT

theorem relT_unknown (cfg : Cfg) (htk : cfg.tkOld = false) (a a' : St) (b : UInt8) (h : SameT a a')
    (hact : expected a.mode b = .unknown) : R3T (stepActT refTables cfg a b) (stepActT refTables cfg a' b) := by rT

/-! ### the helpers of the tokenizer -/

theorem handleNumT_rel (a a' : St) (h : SameT a a') (hl : numLive a.mode = true) : RET a.handleNumT a'.handleNumT := by
  obtain ⟨h1, h2, h3, h4, h5, h6, h7, h8, h9, h10, h11, h12⟩ := h
  have hn := h10 hl
  unfold St.handleNumT St.emit
  rw [← h6]
  cases a.exkey with
  | true => rfl
  | false =>
    simp only [Bool.false_eq_true, ↓reduceIte, RET]
    constructor <;> simp_all

theorem addTokenT_rel (a a' : St) (t : Bytes) (h : SameT a a') : SameT (a.addTokenT t) (a'.addTokenT t) := by
  obtain ⟨h1, h2, h3, h4, h5, h6, h7, h8, h9, h10, h11, h12⟩ := h
  unfold St.addTokenT St.emit
  rw [← h6]
  cases a.exkey <;> simp only [Bool.false_eq_true, ↓reduceIte] <;> constructor <;> simp_all

theorem addStringT_rel (a a' : St) (t : Bytes) (h : SameT a a') : SameT (a.addStringT t) (a'.addStringT t) := by
  obtain ⟨h1, h2, h3, h4, h5, h6, h7, h8, h9, h10, h11, h12⟩ := h
  unfold St.addStringT St.emit
  rw [← h6]
  cases a.exkey <;> simp only [Bool.false_eq_true, ↓reduceIte] <;> constructor <;> simp_all

theorem flushT_rel (a a' : St) (h : SameT a a') : RET (a.flushT refTables) (a'.flushT refTables) := by
  unfold St.flushT
  rw [← h.mode, ← h.tmp]
  cases hfin : refTables.fin a.mode with
  | n => exact handleNumT_rel a a' h (fin_n_live a.mode hfin)
  | t => exact addTokenT_rel a a' _ h
  | _ => exact h

theorem flushCloseT_rel (a a' : St) (h : SameT a a') : RET (a.flushCloseT refTables) (a'.flushCloseT refTables) := by
  unfold St.flushCloseT
  rw [← h.mode, ← h.tmp]
  cases hfin : refTables.fin a.mode with
  | absent => rfl
  | n => exact handleNumT_rel a a' h (fin_n_live a.mode hfin)
  | t => exact addTokenT_rel a a' _ h
  | _ => exact h

theorem R3T_bind {x x' : Except ErrKind St} (h : RET x x') (F : St → Except ErrKind (St × Bool × Bool))
    (hF : ∀ a a', SameT a a' → R3T (F a) (F a')) : R3T (x >>= F) (x' >>= F) := by
  cases x with
  | error e =>
    cases x' with
    | error e' => exact h
    | ok a' => exact h.elim
  | ok a =>
    cases x' with
    | error e' => exact h.elim
    | ok a' => exact hF a a' h

/-! ### the cases of the switch that use them -/

section relHelpers
variable (cfg : Cfg) (htk : cfg.tkOld = false) (hmv : cfg.missingValue = false)

theorem relT_openObject (a a' : St) (b : UInt8) (h : SameT a a') (hact : expected a.mode b = .openObject) :
    R3T (stepActT refTables cfg a b) (stepActT refTables cfg a' b) := by
  unfold stepActT
  simp only [refTables, ← h.mode, hact]
  refine R3T_bind (flushT_rel a a' h) _ (fun x x' hx => ?_)
  obtain ⟨h1, h2, h3, h4, h5, h6, h7, h8, h9, h10, h11, h12⟩ := hx
  rw [← h6]
  cases x.exkey with
  | true => rfl
  | false =>
    simp only [Bool.false_eq_true, ↓reduceIte, pure, Except.pure, St.emit, R3T]
    refine ⟨?_, trivial, trivial⟩
    constructor <;> simp_all

theorem relT_openArray (a a' : St) (b : UInt8) (h : SameT a a') (hact : expected a.mode b = .openArray) :
    R3T (stepActT refTables cfg a b) (stepActT refTables cfg a' b) := by
  unfold stepActT
  simp only [refTables, ← h.mode, hact]
  refine R3T_bind (flushT_rel a a' h) _ (fun x x' hx => ?_)
  obtain ⟨h1, h2, h3, h4, h5, h6, h7, h8, h9, h10, h11, h12⟩ := hx
  rw [← h6]
  cases x.exkey with
  | true => rfl
  | false =>
    simp only [Bool.false_eq_true, ↓reduceIte, pure, Except.pure, St.emit, R3T]
    refine ⟨?_, trivial, trivial⟩
    constructor <;> simp_all

theorem relT_valSlash (a a' : St) (b : UInt8) (h : SameT a a') (hact : expected a.mode b = .valSlash) :
    R3T (stepActT refTables cfg a b) (stepActT refTables cfg a' b) := by
  unfold stepActT
  simp only [refTables, ← h.mode, hact]
  refine R3T_bind (flushT_rel a a' h) _ (fun x x' hx => ?_)
  obtain ⟨h1, h2, h3, h4, h5, h6, h7, h8, h9, h10, h11, h12⟩ := hx
  simp only [pure, Except.pure, R3T]
  refine ⟨?_, trivial, trivial⟩
  constructor <;> simp_all

include hmv in
theorem relT_closeObject (a a' : St) (b : UInt8) (h : SameT a a') (hact : expected a.mode b = .closeObject) :
    R3T (stepActT refTables cfg a b) (stepActT refTables cfg a' b) := by
  unfold stepActT
  simp only [refTables, ← h.mode, hact, ← h.starts]
  split
  · refine R3T_bind (flushT_rel a a' h) _ (fun x x' hx => ?_)
    obtain ⟨h1, h2, h3, h4, h5, h6, h7, h8, h9, h10, h11, h12⟩ := hx
    rw [← h6]
    cases x.exkey with
    | false => simp only [hmv, Bool.not_false, Bool.and_self, ↓reduceIte]; rfl
    | true =>
      simp only [Bool.not_true, Bool.false_and, Bool.false_eq_true, ↓reduceIte, pure, Except.pure, St.emit, R3T]
      refine ⟨?_, trivial, trivial⟩
      constructor <;> simp_all
  · rfl

theorem relT_closeArray (a a' : St) (b : UInt8) (h : SameT a a') (hact : expected a.mode b = .closeArray) :
    R3T (stepActT refTables cfg a b) (stepActT refTables cfg a' b) := by
  unfold stepActT
  simp only [refTables, ← h.mode, hact, ← h.starts]
  split
  · refine R3T_bind (flushCloseT_rel a a' h) _ (fun x x' hx => ?_)
    obtain ⟨h1, h2, h3, h4, h5, h6, h7, h8, h9, h10, h11, h12⟩ := hx
    simp only [pure, Except.pure, St.emit, R3T]
    refine ⟨?_, trivial, trivial⟩
    constructor <;> simp_all
  · rfl

theorem relT_numSpc (a a' : St) (b : UInt8) (h : SameT a a') (hact : expected a.mode b = .numSpc) :
    R3T (stepActT refTables cfg a b) (stepActT refTables cfg a' b) := by
  obtain ⟨f1, _, _⟩ := live_facts a.mode b
  simp only [hact, needsNum, forall_const] at f1
  unfold stepActT
  simp only [refTables, ← h.mode, hact]
  exact R3T_bind (handleNumT_rel a a' h f1) _ (fun x x' hx => ⟨hx, rfl, rfl⟩)

theorem relT_numNewline (a a' : St) (b : UInt8) (h : SameT a a') (hact : expected a.mode b = .numNewline) :
    R3T (stepActT refTables cfg a b) (stepActT refTables cfg a' b) := by
  obtain ⟨f1, _, _⟩ := live_facts a.mode b
  simp only [hact, needsNum, forall_const] at f1
  unfold stepActT
  simp only [refTables, ← h.mode, hact]
  refine R3T_bind (handleNumT_rel a a' h f1) _ (fun x x' hx => ?_)
  obtain ⟨h1, h2, h3, h4, h5, h6, h7, h8, h9, h10, h11, h12⟩ := hx
  simp only [pure, Except.pure, R3T]
  refine ⟨?_, trivial, trivial⟩
  constructor <;> simp_all

theorem relT_tokenSpc (a a' : St) (b : UInt8) (h : SameT a a') (hact : expected a.mode b = .tokenSpc) :
    R3T (stepActT refTables cfg a b) (stepActT refTables cfg a' b) := by
  unfold stepActT
  simp only [refTables, ← h.mode, hact, ← h.tmp]
  exact ⟨addTokenT_rel a a' _ h, rfl, rfl⟩

theorem relT_tokenNlColon (a a' : St) (b : UInt8) (h : SameT a a') (hact : expected a.mode b = .tokenNlColon) :
    R3T (stepActT refTables cfg a b) (stepActT refTables cfg a' b) := by
  unfold stepActT
  simp only [refTables, ← h.mode, hact, ← h.tmp]
  exact ⟨addTokenT_rel a a' _ h, rfl, rfl⟩

theorem relT_tokenColon (a a' : St) (b : UInt8) (h : SameT a a') (hact : expected a.mode b = .tokenColon) :
    R3T (stepActT refTables cfg a b) (stepActT refTables cfg a' b) := by
  unfold stepActT
  simp only [refTables, ← h.mode, hact, ← h.tmp]
  obtain ⟨h1, h2, h3, h4, h5, h6, h7, h8, h9, h10, h11, h12⟩ := addTokenT_rel a a' a.tmp.reverse h
  refine ⟨?_, rfl, rfl⟩
  constructor <;> simp_all

include htk in
theorem relT_strQuote (a a' : St) (b : UInt8) (h : SameT a a') (hact : expected a.mode b = .strQuote) :
    R3T (stepActT refTables cfg a b) (stepActT refTables cfg a' b) := by
  obtain ⟨_, f2, _⟩ := live_facts a.mode b
  simp only [hact, needsStr, forall_const] at f2
  have hq := h.qd f2
  unfold stepActT
  simp only [refTables, ← h.mode, hact, htk, Bool.false_eq_true, ↓reduceIte, ← hq, ← h.tmp]
  by_cases hb : b = a.quoteDelim
  · simp only [hb, ↓reduceIte]
    exact ⟨addStringT_rel a a' _ h, rfl, rfl⟩
  · simp only [hb, ↓reduceIte]
    obtain ⟨h1, h2, h3, h4, h5, h6, h7, h8, h9, h10, h11, h12⟩ := h
    refine ⟨?_, rfl, rfl⟩
    constructor <;> simp_all

end relHelpers

theorem stepActT_rel (cfg : Cfg) (htk : cfg.tkOld = false) (hmv : cfg.missingValue = false) (a a' : St) (b : UInt8)
    (h : SameT a a') : R3T (stepActT refTables cfg a b) (stepActT refTables cfg a' b) := by
  cases hact : expected a.mode b with
  | skipNewline => exact relT_skipNewline cfg htk a a' b h hact
  | cskipNewline => exact relT_cskipNewline cfg htk a a' b h hact
  | tokenStart => exact relT_tokenStart cfg htk a a' b h hact
  | strOk => exact relT_strOk cfg htk a a' b h hact
  | colonColon => exact relT_colonColon cfg htk a a' b h hact
  | skipChar => exact relT_skipChar cfg htk a a' b h hact
  | cskipChar => exact relT_cskipChar cfg htk a a' b h hact
  | openObject => exact relT_openObject cfg a a' b h hact
  | closeObject => exact relT_closeObject cfg hmv a a' b h hact
  | valDigit => exact relT_valDigit cfg htk a a' b h hact
  | valQuote => exact relT_valQuote cfg htk a a' b h hact
  | numSpc => exact relT_numSpc cfg a a' b h hact
  | strSlash => exact relT_strSlash cfg htk a a' b h hact
  | escOk => exact relT_escOk cfg htk a a' b h hact
  | val0 => exact relT_val0 cfg htk a a' b h hact
  | valNeg => exact relT_valNeg cfg htk a a' b h hact
  | escU => exact relT_escU cfg htk a a' b h hact
  | openArray => exact relT_openArray cfg a a' b h hact
  | closeArray => exact relT_closeArray cfg a a' b h hact
  | numDot => exact relT_numDot cfg htk a a' b h hact
  | numFrac => exact relT_numFrac cfg htk a a' b h hact
  | fracE => exact relT_fracE cfg htk a a' b h hact
  | tokenOk => exact relT_tokenOk cfg htk a a' b h hact
  | tokenSpc => exact relT_tokenSpc cfg a a' b h hact
  | tokenColon => exact relT_tokenColon cfg a a' b h hact
  | tokenNlColon => exact relT_tokenNlColon cfg a a' b h hact
  | valPlus => exact relT_valPlus cfg htk a a' b h hact
  | strQuote => exact relT_strQuote cfg htk a a' b h hact
  | numZero => exact relT_numZero cfg htk a a' b h hact
  | numDigit => exact relT_numDigit cfg htk a a' b h hact
  | negDigit => exact relT_negDigit cfg htk a a' b h hact
  | numNewline => exact relT_numNewline cfg a a' b h hact
  | expSign => exact relT_expSign cfg htk a a' b h hact
  | expDigit => exact relT_expDigit cfg htk a a' b h hact
  | uOk => exact relT_uOk cfg htk a a' b h hact
  | valSlash => exact relT_valSlash cfg a a' b h hact
  | commentStart => exact relT_commentStart cfg htk a a' b h hact
  | commentEnd => exact relT_commentEnd cfg htk a a' b h hact
  | ccommentStart => exact relT_ccommentStart cfg htk a a' b h hact
  | ccommentEnd => exact relT_ccommentEnd cfg htk a a' b h hact
  | openParen => exact relT_openParen cfg htk a a' b h hact
  | closeParen => exact relT_closeParen cfg htk a a' b h hact
  | charErr => exact relT_charErr cfg htk a a' b h hact
  | unknown => exact relT_unknown cfg htk a a' b h hact

/-! ### from the switch to the entry point (tokenizer profile) -/

def RFT (r r' : Except ErrKind (St × Fast × Bool)) : Prop :=
  match r, r' with
  | .error e, .error e' => e = e'
  | .ok (a, f, n), .ok (a', f', n') => SameT a a' ∧ f = f' ∧ n = n'
  | _, _ => False

theorem nextFast_relT (cfg : Cfg) (a a' : St) (b : UInt8) (f : Fast) (h : SameT a a') :
    nextFast cfg (refTables.act a.mode b) a.num.i f = nextFast cfg (refTables.act a'.mode b) a'.num.i f := by
  rw [← h.mode]
  by_cases hd : expected a.mode b = .numDigit
  · obtain ⟨f1, _, _⟩ := live_facts a.mode b
    simp only [hd, needsNum, forall_const] at f1
    rw [h.num f1]
  · have : refTables.act a.mode b = expected a.mode b := rfl
    rw [this]
    unfold nextFast
    cases hact : expected a.mode b <;> first | rfl | exact absurd hact hd

section chainT
variable (cfg : Cfg) (ht : cfg.tokenizer = true) (htk : cfg.tkOld = false) (hmv : cfg.missingValue = false)
include ht htk hmv

theorem deliver_relT (a a' : St) (h : SameT a a') :
    ∃ x x', deliver refTables cfg a = .ok x ∧ deliver refTables cfg a' = .ok x' ∧ SameT x x' := by
  unfold deliver
  simp only [ht, ↓reduceIte]
  rw [← h.starts, ← h.mode]
  split
  · refine ⟨_, _, rfl, rfl, ?_⟩
    obtain ⟨h1, h2, h3, h4, h5, h6, h7, h8, h9, h10, h11, h12⟩ := h
    cases cfg.onlyOne <;> (constructor <;> simp_all)
  · exact ⟨a, a', rfl, rfl, h⟩

theorem stepCore_relT (a a' : St) (f : Fast) (b : UInt8) (h : SameT a a') :
    RFT (stepCore refTables cfg a f b) (stepCore refTables cfg a' f b) := by
  have hA := stepActT_rel cfg htk hmv a a' b h
  unfold stepCore stepAct
  simp only [ht, ↓reduceIte]
  rw [← nextFast_relT cfg a a' b f h]
  cases h1 : stepActT refTables cfg a b with
  | error e =>
    cases h2 : stepActT refTables cfg a' b with
    | error e' => rw [h1, h2] at hA; exact hA
    | ok r' => rw [h1, h2] at hA; exact hA.elim
  | ok r =>
    cases h2 : stepActT refTables cfg a' b with
    | error e' => rw [h1, h2] at hA; exact hA.elim
    | ok r' =>
      rw [h1, h2] at hA
      obtain ⟨x, c, n⟩ := r
      obtain ⟨x', c', n'⟩ := r'
      obtain ⟨hx, rfl, rfl⟩ := hA
      simp only []
      cases c with
      | true => exact ⟨hx, rfl, rfl⟩
      | false =>
        simp only [Bool.false_eq_true, ↓reduceIte]
        obtain ⟨y, y', e1, e2, hy⟩ := deliver_relT cfg ht htk hmv x x' hx
        rw [e1, e2]
        exact ⟨hy, rfl, rfl⟩

theorem tokenEndFast_relT (a a' : St) (f : Fast) (b : UInt8) (h : SameT a a') :
    RFT (tokenEndFast refTables cfg a f b) (tokenEndFast refTables cfg a' f b) := by
  unfold tokenEndFast
  simp only [ht, Bool.not_true, Bool.and_false, Bool.false_eq_true, ↓reduceIte]
  rw [← h.tmp]
  obtain ⟨y, y', e1, e2, hy⟩ := deliver_relT cfg ht htk hmv _ _ (addTokenT_rel a a' a.tmp.reverse h)
  rw [e1, e2]
  exact stepCore_relT cfg ht htk hmv y y' _ b hy

theorem step_relT (a a' : St) (f : Fast) (b : UInt8) (l : Bool) (h : SameT a a') :
    RFT (step refTables cfg a f b l) (step refTables cfg a' f b l) := by
  unfold step
  rw [← h.mode]
  split
  · split
    · exact ⟨h, rfl, rfl⟩
    · exact ⟨addFeat_sameT a a' _ h, rfl, rfl⟩
  · split
    · exact tokenEndFast_relT cfg ht htk hmv a a' _ b h
    · split
      · exact stepCore_relT cfg ht htk hmv _ _ _ b (addFeat_sameT a a' _ h)
      · exact stepCore_relT cfg ht htk hmv a a' _ b h

def RBT (r r' : Except Err (St × Fast × Pos)) : Prop :=
  match r, r' with
  | .error e, .error e' => e.noKeys = e'.noKeys
  | .ok (a, f, p), .ok (a', f', p') => SameT a a' ∧ f = f' ∧ p = p'
  | _, _ => False

def RCT (r r' : Except Err (St × Pos)) : Prop :=
  match r, r' with
  | .error e, .error e' => e.noKeys = e'.noKeys
  | .ok (a, p), .ok (a', p') => SameT a a' ∧ p = p'
  | _, _ => False

omit ht htk hmv in
theorem cellFeat_relT (a a' : St) (b : UInt8) (h : SameT a a') :
    (cellFeat refTables cfg a b).feat = (cellFeat refTables cfg a' b).feat := by
  unfold cellFeat
  rw [← h.mode]
  split <;> (try split) <;> first | exact h.feat | exact (addFeat_sameT a a' _ h).feat

theorem runBytes_relT (bs : Bytes) : ∀ (a a' : St) (f : Fast) (p : Pos), SameT a a' →
    RBT (runBytes refTables cfg a f p bs) (runBytes refTables cfg a' f p bs) := by
  induction bs with
  | nil => intro a a' f p h; exact ⟨h, rfl, rfl⟩
  | cons b r ih =>
    intro a a' f p h
    have hS := step_relT cfg ht htk hmv a a' f b r.isEmpty h
    simp only [runBytes]
    cases h1 : step refTables cfg a f b r.isEmpty with
    | error e =>
      cases h2 : step refTables cfg a' f b r.isEmpty with
      | error e' =>
        rw [h1, h2] at hS
        have : e = e' := hS
        subst this
        simp only [RBT, Pos.err, Err.noKeys, cellFeat_relT cfg a a' b h, h.plus]
      | ok x' => rw [h1, h2] at hS; exact hS.elim
    | ok x =>
      cases h2 : step refTables cfg a' f b r.isEmpty with
      | error e' => rw [h1, h2] at hS; exact hS.elim
      | ok x' =>
        rw [h1, h2] at hS
        obtain ⟨y, f1, n⟩ := x
        obtain ⟨y', f1', n'⟩ := x'
        obtain ⟨hy, rfl, rfl⟩ := hS
        exact ih y y' f1 _ hy

theorem runChunks_relT (cs : List Bytes) : ∀ (a a' : St) (p : Pos), SameT a a' →
    RCT (runChunks refTables cfg a p cs) (runChunks refTables cfg a' p cs) := by
  induction cs with
  | nil => intro a a' p h; exact ⟨h, rfl⟩
  | cons c rest ih =>
    intro a a' p h
    have hB := runBytes_relT cfg ht htk hmv c a a' {} { p with off := 0 } h
    simp only [runChunks]
    cases h1 : runBytes refTables cfg a {} { p with off := 0 } c with
    | error e =>
      cases h2 : runBytes refTables cfg a' {} { p with off := 0 } c with
      | error e' => rw [h1, h2] at hB; exact hB
      | ok x' => rw [h1, h2] at hB; exact hB.elim
    | ok x =>
      cases h2 : runBytes refTables cfg a' {} { p with off := 0 } c with
      | error e' => rw [h1, h2] at hB; exact hB.elim
      | ok x' =>
        rw [h1, h2] at hB
        obtain ⟨y, f1, p1⟩ := x
        obtain ⟨y', f1', p1'⟩ := x'
        obtain ⟨hy, _, rfl⟩ := hB
        exact ih y y' p1 hy

theorem finish_relT (a a' : St) (p : Pos) (h : SameT a a') :
    answer (finish refTables cfg a p) = answer (finish refTables cfg a' p) := by
  unfold finish
  simp only [ht, ↓reduceIte]
  rw [← h.starts, ← h.mode, ← h.feat, ← h.plus, ← h.tmp, ← h.docs, ← h.evs]
  split
  · rfl
  · cases hfin : refTables.fin a.mode with
    | absent => rfl
    | n =>
      have hR := handleNumT_rel a a' h (fin_n_live a.mode hfin)
      simp only []
      cases e1 : a.handleNumT with
      | error e =>
        cases e2 : a'.handleNumT with
        | error e' => rw [e1, e2] at hR; have : e = e' := hR; subst this; rfl
        | ok y' => rw [e1, e2] at hR; exact hR.elim
      | ok y =>
        cases e2 : a'.handleNumT with
        | error e' => rw [e1, e2] at hR; exact hR.elim
        | ok y' =>
          rw [e1, e2] at hR
          have hy : SameT y y' := hR
          simp only [answer, Out.noKeys, hy.evs, hy.feat, hy.plus]
    | t =>
      have hy := addTokenT_rel a a' a.tmp.reverse h
      simp only [answer, Out.noKeys, hy.evs, hy.feat, hy.plus]
    | _ => rfl

/-- **a reused sen.Tokenizer answers what a fresh one answers** (the code as it is: `exkey` reset at entry): the
fields `Tokenizer.Parse`/`Load` do not reset — `ri`, `rn`, the number accumulator, `quoteDelim` — are dead on entry -/
theorem call_tokenizer_ref (hke : cfg.keepExkey = false) (hkp : cfg.keepPlus = false) (prev : St) (chunks : List Bytes) :
    answer (call refTables cfg prev chunks) = answer (call refTables cfg {} chunks) := by
  have he : SameT (prev.entry cfg) (({} : St).entry cfg) := by
    obtain ⟨m1, st1, sk1, d1, e1, x1, t1, ri1, rn1, n1, q1, p1, lk1, ls1, ft1⟩ := prev
    simp only [St.entry, hke, hkp, Bool.false_eq_true, ↓reduceIte]
    constructor <;> simp
  have tail : ∀ cs, answer (match runChunks refTables cfg (prev.entry cfg) {} cs with
        | .error e => (.error e : Except Err Out)
        | .ok (s, p) => finish refTables cfg s p) =
      answer (match runChunks refTables cfg (({} : St).entry cfg) {} cs with
        | .error e => (.error e : Except Err Out)
        | .ok (s, p) => finish refTables cfg s p) := by
    intro cs
    have hR := runChunks_relT cfg ht htk hmv cs _ _ {} he
    cases h1 : runChunks refTables cfg (prev.entry cfg) {} cs with
    | error e =>
      cases h2 : runChunks refTables cfg (({} : St).entry cfg) {} cs with
      | error e' => rw [h1, h2] at hR; simp only [answer]; exact congrArg _ hR
      | ok x' => rw [h1, h2] at hR; exact hR.elim
    | ok x =>
      cases h2 : runChunks refTables cfg (({} : St).entry cfg) {} cs with
      | error e' => rw [h1, h2] at hR; exact hR.elim
      | ok x' =>
        rw [h1, h2] at hR
        obtain ⟨y, p1⟩ := x
        obtain ⟨y', p1'⟩ := x'
        obtain ⟨hy, rfl⟩ := hR
        exact finish_relT cfg ht htk hmv y y' p1 hy
  rw [call_ref, call_ref]
  unfold callWith
  simp only []
  split
  · exact finish_relT cfg ht htk hmv _ _ _ he
  · split
    · rfl
    · exact tail _
    · exact tail _

end chainT

end OjgVerif.Sen
