import OjgVerif.Sen.WriterIndent
/-! # `Sort`: `tightSortObject` / `appendSortObject` write the members in the order of `sort.Strings(keys)`

Go compares strings byte-wise (`ltBytes`); the keys of a Go map are pairwise different, so every correct sort gives
the same order — the model sorts by insertion (`sortVal`, recursively). `senWriteSorted` = what `sen.String(v,
&ojg.Options{Sort: true, …})` writes for the map whose members are given in ANY order. -/
namespace OjgVerif.Sen
open OjgVerif

/-- `a < b` for Go strings: byte-wise lexicographic -/
def ltBytes : Bytes → Bytes → Bool
  | [], [] => false
  | [], _ :: _ => true
  | _ :: _, [] => false
  | a :: x, b :: y => if a < b then true else if b < a then false else ltBytes x y

def insertKV (kv : Bytes × JV) : List (Bytes × JV) → List (Bytes × JV)
  | [] => [kv]
  | h :: t => if ltBytes kv.1 h.1 then kv :: h :: t else h :: insertKV kv t

mutual
  /-- every object's members in ascending order of their names, at every level -/
  def sortVal : JV → JV
    | .arr xs => .arr (sortElems xs)
    | .obj kvs => .obj (sortMembers kvs)
    | .null => .null
    | .bool b => .bool b
    | .int i => .int i
    | .flt t => .flt t
    | .big t => .big t
    | .num t => .num t
    | .str s => .str s
  def sortElems : List JV → List JV
    | [] => []
    | x :: r => sortVal x :: sortElems r
  def sortMembers : List (Bytes × JV) → List (Bytes × JV)
    | [] => []
    | (k, v) :: r => insertKV (k, sortVal v) (sortMembers r)
end

/-- `sen.String(v, &ojg.Options{Sort: true, Indent, Tab, …})` -/
def senWriteSorted (o : WOpts) (io : IOpts) (v : JV) : Bytes := senWrite o io (sortVal v)

end OjgVerif.Sen
