import OjgVerif.Sen.Lemmas
import OjgVerif.Sen.Writer
import OjgVerif.Writer.LemmasStr
/-! Lemmas for C10: what the parser machine (over the reference tables) reads when it is given the
text `AppendSENString` writes — the quoted form, byte class by byte class, and the bare form. The two
generated tables (`Gen.Root.senMap` of the writer, `Gen.Sen.*` of the parser through `TablesOK`) are
tied by row-wise kernel-evaluated facts. -/
set_option linter.unusedSimpArgs false
namespace OjgVerif.Sen
open OjgVerif
open OjgVerif.Writer (utf8Decode runeError sanLoop sanitize fffd illFormedHead)

theorem utf8Enc_eq (r : Nat) : Json.utf8Enc r = Json.Spec.utf8Enc r := by
  unfold Json.utf8Enc Json.Spec.utf8Enc
  rfl

/-! ## facts about the writer's table `senMap` against the parser's reference transitions -/

/-- every byte the loop copies verbatim into a quoted string is taken by the parser's string mode as
itself: classes `o`, `0`, `x`, `h`, `8` are `strOk` bytes, or the single quote (which does not end a
double-quoted string) -/
theorem raw_in_string (b : UInt8)
    (h : senClass b = cO ∨ senClass b = c0 ∨ senClass b = cX ∨ senClass b = cH ∨ senClass b = c8) :
    expected .string b = .strOk ∨ b = 39 := by
  have := forall_byte (fun b => !(senClass b == cO || senClass b == c0 || senClass b == cX || senClass b == cH
      || senClass b == c8) || (expected .string b == .strOk || b == 39)) (by decide +kernel) b
  simp only [Bool.or_eq_true, Bool.not_eq_true', beq_iff_eq, beq_eq_false_iff_ne] at this
  rcases this with h1 | h2
  · exfalso
    rcases h with h | h | h | h | h <;> simp [h] at h1
  · rcases h2 with h2 | h2
    · exact Or.inl h2
    · exact Or.inr h2

/-- bytes from 0x80 up are `strOk` bytes and class `8`; bytes below are not class `8` -/
theorem high_strOk (b : UInt8) (h : 128 ≤ b) : expected .string b = .strOk := by
  have := forall_byte (fun b => !(decide (128 ≤ b)) || expected .string b == .strOk) (by decide +kernel) b
  simpa [h] using this

theorem class8_iff (b : UInt8) : senClass b = c8 ↔ 128 ≤ b := by
  have := forall_byte (fun b => (senClass b == c8) == decide (128 ≤ b)) (by decide +kernel) b
  simp only [beq_iff_eq] at this
  constructor
  · intro h; simp [h] at this; exact this
  · intro h; simp [h] at this; exact this

/-- class `.` (and `h`) bytes are ASCII: `\u00XX` decodes to the byte -/
theorem classDot_lt (b : UInt8) (h : senClass b = cDot ∨ senClass b = cH) : b < 128 := by
  have := forall_byte (fun b => !(senClass b == cDot || senClass b == cH) || decide (b < 128)) (by decide +kernel) b
  simp only [Bool.or_eq_true, Bool.not_eq_true', beq_iff_eq, decide_eq_true_eq] at this
  rcases this with h1 | h2
  · exfalso; rcases h with h | h <;> simp [h] at h1
  · exact h2

/-- every other class letter is a two-character escape the parser undoes: `\` then the letter gives the
byte back -/
theorem class_escape (b : UInt8)
    (h : ¬ (senClass b = cO ∨ senClass b = c0 ∨ senClass b = cX ∨ senClass b = cDot ∨ senClass b = cH ∨ senClass b = c8)) :
    expected .esc (senClass b) = .escOk ∧ unesc (senClass b) = b := by
  have := forall_byte (fun b => (senClass b == cO || senClass b == c0 || senClass b == cX || senClass b == cDot
      || senClass b == cH || senClass b == c8) || (expected .esc (senClass b) == .escOk && unesc (senClass b) == b))
    (by decide +kernel) b
  simp only [Bool.or_eq_true, Bool.and_eq_true, beq_iff_eq] at this
  rcases this with h1 | h2
  · exfalso; apply h
    rcases h1 with ((((h1 | h1) | h1) | h1) | h1) | h1 <;> simp [h1]
  · exact h2

/-- the two hex digits of `\u00XX` are hex digits for the parser and denote the byte -/
theorem hex_roundtrip (b : UInt8) :
    isHex (hexDigit ((b >>> 4) &&& 0x0f)) = true ∧ isHex (hexDigit (b &&& 0x0f)) = true ∧
      Json.hexDigitVal (hexDigit ((b >>> 4) &&& 0x0f)) * 16 + Json.hexDigitVal (hexDigit (b &&& 0x0f)) = b.toNat := by
  have := forall_byte (fun b => isHex (hexDigit ((b >>> 4) &&& 0x0f)) && isHex (hexDigit (b &&& 0x0f)) &&
      decide (Json.hexDigitVal (hexDigit ((b >>> 4) &&& 0x0f)) * 16 + Json.hexDigitVal (hexDigit (b &&& 0x0f)) = b.toNat))
    (by decide +kernel) b
  simpa [and_assoc] using this

theorem utf8Enc_ascii (b : UInt8) (h : b < 128) : Json.utf8Enc b.toNat = [b] := by
  have := forall_byte (fun b => !(decide (b < 128)) || Json.utf8Enc b.toNat == [b]) (by decide +kernel) b
  simpa [h] using this

/-! ## single steps of the parser machine (reference tables) -/

section steps
variable (cfg : Cfg) (hc : cfg.tokenizer = false)

/-- the fast-path record after a byte of a string, an escape or a token -/
def fS (f : Fast) : Fast := { inFast := false, tokFast := f.tokFast, nlSkipping := false }

theorem fS_idem (f : Fast) : fS (fS f) = fS f := rfl
theorem fS_nl (f : Fast) : (fS f).nlSkipping = false := rfl

include hc

theorem step_valQuote (st : St) (f : Fast) (l : Bool) (hm : st.mode = .value) :
    step refTables cfg st f 34 l = .ok ({ st with quoteDelim := 34, tmp := [], mode := .string }, fS f, false) := by
  simp [step, stepCore, stepAct, stepActP, nextFast, refTables, hm, hc, expected, fS, isSep, isBlank]

theorem step_strOk (st : St) (f : Fast) (b : UInt8) (l : Bool) (hm : st.mode = .string)
    (hb : expected .string b = .strOk) (hf : f.nlSkipping = false) :
    step refTables cfg st f b l = .ok ({ st with tmp := b :: st.tmp }, fS f, false) := by
  simp [step, stepCore, stepAct, stepActP, deliver, nextFast, refTables, hm, hb, hf, hc, expectedFin, fS]

theorem step_apos (st : St) (f : Fast) (l : Bool) (hm : st.mode = .string) (hq : st.quoteDelim = 34)
    (hf : f.nlSkipping = false) :
    step refTables cfg st f 39 l = .ok ({ st with tmp := 39 :: st.tmp }, fS f, false) := by
  simp [step, stepCore, stepAct, stepActP, deliver, nextFast, refTables, hm, hq, hf, hc, expected, expectedFin, fS]

/-- a byte the writer copies verbatim is appended to the pending string -/
theorem step_raw (st : St) (f : Fast) (b : UInt8) (l : Bool) (hm : st.mode = .string) (hq : st.quoteDelim = 34)
    (hf : f.nlSkipping = false) (hb : expected .string b = .strOk ∨ b = 39) :
    step refTables cfg st f b l = .ok ({ st with tmp := b :: st.tmp }, fS f, false) := by
  rcases hb with hb | hb
  · exact step_strOk cfg hc st f b l hm hb hf
  · subst hb; exact step_apos cfg hc st f l hm hq hf

theorem step_strSlash (st : St) (f : Fast) (l : Bool) (hm : st.mode = .string) (hf : f.nlSkipping = false) :
    step refTables cfg st f 92 l = .ok ({ st with mode := .esc }, fS f, false) := by
  simp [step, stepCore, stepAct, stepActP, nextFast, refTables, hm, hf, hc, expected, fS]

theorem step_escOk (st : St) (f : Fast) (c : UInt8) (l : Bool) (hm : st.mode = .esc)
    (hb : expected .esc c = .escOk) (hf : f.nlSkipping = false) :
    step refTables cfg st f c l = .ok ({ st with tmp := unesc c :: st.tmp, mode := .string }, fS f, false) := by
  simp [step, stepCore, stepAct, stepActP, nextFast, refTables, hm, hb, hf, hc, fS]

theorem step_escU (st : St) (f : Fast) (l : Bool) (hm : st.mode = .esc) (hf : f.nlSkipping = false) :
    step refTables cfg st f 117 l = .ok ({ st with mode := .u, rn := 0, ri := 0 }, fS f, false) := by
  simp [step, stepCore, stepAct, stepActP, nextFast, refTables, hm, hf, hc, expected, fS]

theorem step_uOk (st : St) (f : Fast) (b : UInt8) (l : Bool) (hm : st.mode = .u)
    (hb : isHex b = true) (hf : f.nlSkipping = false) :
    step refTables cfg st f b l =
      .ok ({ st with
              ri := st.ri + 1
              rn := st.rn * 16 + Json.hexDigitVal b
              tmp := (if st.ri + 1 = 4 then (Json.utf8Enc (st.rn * 16 + Json.hexDigitVal b)).reverse ++ st.tmp else st.tmp)
              mode := (if st.ri + 1 = 4 then Mode.string else st.mode) }, fS f, false) := by
  simp [step, stepCore, stepAct, stepActP, nextFast, refTables, hm, hb, hf, hc, expected, fS]

/-- the closing quote: `addString`, then the end-of-document test -/
theorem step_quoteEnd (hpf : cfg.plusFault = false) (st : St) (f : Fast) (l : Bool) (hm : st.mode = .string)
    (hq : st.quoteDelim = 34) (hf : f.nlSkipping = false) :
    step refTables cfg st f 34 l =
      (match st.addStringP st.tmp.reverse with
       | .error e => .error e
       | .ok s1 => match deliver refTables cfg s1 with
         | .error e => .error e
         | .ok s2 => .ok (s2, fS f, false)) := by
  simp [step, stepCore, stepAct, stepActP, nextFast, refTables, hm, hf, hc, hq, hpf, expected, fS]
  cases st.addStringP st.tmp.reverse with
  | error e => simp [Functor.map, Except.map]
  | ok a =>
    simp only [Functor.map, Except.map]
    generalize deliver _ cfg a = d
    cases d <;> rfl

theorem step_tokenStart (st : St) (f : Fast) (b : UInt8) (l : Bool) (hm : st.mode = .value)
    (hb : expected .value b = .tokenStart) (ht : expected .token b = .tokenOk) (hs : expected .space b ≠ .skipChar) :
    step refTables cfg st f b l =
      .ok ({ st with tmp := [b], mode := .token }, { inFast := false, tokFast := cfg.tokSlow, nlSkipping := false }, false) := by
  simp [step, stepCore, stepAct, stepActP, nextFast, refTables, hm, hb, ht, hs, hc]

theorem step_tokenOk (st : St) (f : Fast) (b : UInt8) (l : Bool) (hm : st.mode = .token)
    (hb : expected .token b = .tokenOk) (hf : f.nlSkipping = false) :
    step refTables cfg st f b l = .ok ({ st with tmp := b :: st.tmp }, fS f, false) := by
  simp [step, stepCore, stepAct, stepActP, deliver, nextFast, refTables, hm, hb, hf, hc, expectedFin, fS]

end steps

/-! ## runs -/

section runs
variable (cfg : Cfg) (hc : cfg.tokenizer = false)
include hc

omit hc in
/-- one successful step in front of a run -/
theorem runBytes_cons_ok {st st' : St} {f f' : Fast} {p : Pos} {b : UInt8} {r : Bytes} {nl : Bool}
    (h : ∀ l, step refTables cfg st f b l = .ok (st', f', nl)) :
    runBytes refTables cfg st f p (b :: r) = runBytes refTables cfg st' f' (p.next nl) r := by
  simp [runBytes, h]

/-- `\uXXXX` inside a string: the four hex digits are decoded and the character is appended -/
theorem run_uXXXX (st : St) (f : Fast) (p : Pos) (h1 h2 h3 h4 : UInt8) (rest : Bytes)
    (hm : st.mode = .string) (hf : f.nlSkipping = false)
    (x1 : isHex h1 = true) (x2 : isHex h2 = true) (x3 : isHex h3 = true) (x4 : isHex h4 = true) :
    ∃ p', runBytes refTables cfg st f p (92 :: 117 :: h1 :: h2 :: h3 :: h4 :: rest) =
      runBytes refTables cfg
        { st with
            ri := 4
            rn := ((Json.hexDigitVal h1 * 16 + Json.hexDigitVal h2) * 16 + Json.hexDigitVal h3) * 16 + Json.hexDigitVal h4
            tmp := (Json.utf8Enc (((Json.hexDigitVal h1 * 16 + Json.hexDigitVal h2) * 16 + Json.hexDigitVal h3) * 16 + Json.hexDigitVal h4)).reverse ++ st.tmp }
        (fS f) p' rest := by
  refine ⟨(((((p.next false).next false).next false).next false).next false).next false, ?_⟩
  rw [runBytes_cons_ok cfg (fun l => step_strSlash cfg hc st f l hm hf)]
  rw [runBytes_cons_ok cfg (fun l => step_escU cfg hc _ _ l rfl rfl)]
  rw [runBytes_cons_ok cfg (fun l => step_uOk cfg hc _ _ h1 l rfl x1 rfl)]
  rw [runBytes_cons_ok cfg (fun l => step_uOk cfg hc _ _ h2 l (by simp) x2 rfl)]
  rw [runBytes_cons_ok cfg (fun l => step_uOk cfg hc _ _ h3 l (by simp) x3 rfl)]
  rw [runBytes_cons_ok cfg (fun l => step_uOk cfg hc _ _ h4 l (by simp) x4 rfl)]
  simp [hm, fS]

end runs

/-! ## what the quoted text denotes -/

/-- the bytes the text `senBody` produces stands for (what the string reader gives back): every
escape undone, the three special characters re-encoded -/
def senDenote (html : Bool) : Nat → Bool → Bytes → Bytes
  | _, _, [] => []
  | skip+1, copy, b :: r =>
    if copy then b :: senDenote html skip copy r else senDenote html skip copy r
  | 0, _, b :: r =>
    if senClass b = c8 then
      if (utf8Decode (b :: r)).1 = 0x2028 then [0xE2, 0x80, 0xA8] ++ senDenote html ((utf8Decode (b :: r)).2 - 1) false r
      else if (utf8Decode (b :: r)).1 = 0x2029 then [0xE2, 0x80, 0xA9] ++ senDenote html ((utf8Decode (b :: r)).2 - 1) false r
      else if (utf8Decode (b :: r)).1 = runeError then fffd ++ senDenote html ((utf8Decode (b :: r)).2 - 1) false r
      else b :: senDenote html ((utf8Decode (b :: r)).2 - 1) true r
    else b :: senDenote html 0 true r

/-- the first `k` bytes are continuation-range bytes -/
def highPrefix : Nat → Bytes → Prop
  | 0, _ => True
  | _+1, [] => True
  | k+1, b :: r => 128 ≤ b ∧ highPrefix k r

/-- after a well-formed lead byte come `width - 1` bytes from 0x80 up -/
theorem decode_highPrefix (b : UInt8) (r : Bytes) (hb : 128 ≤ b) : highPrefix ((utf8Decode (b :: r)).2 - 1) r := by
  rcases Writer.decode_cases b r hb with h | ⟨b1, r', n, rfl, h1, hd, _⟩ | ⟨b1, b2, r', n, rfl, h1, h2, hd, _⟩ |
      ⟨b1, b2, b3, r', n, rfl, h1, h2, h3, hd, _⟩
  · rw [h]; simp [highPrefix]
  · rw [hd]; simp [highPrefix, h1]
  · rw [hd]; simp [highPrefix, h1, h2]
  · rw [hd]; simp [highPrefix, h1, h2, h3]

theorem senBody_c8 (html copy : Bool) (b : UInt8) (r : Bytes) (h4 : senClass b = c8) :
    senBody html 0 copy (b :: r) =
      if (utf8Decode (b :: r)).1 = 0x2028 then esc2028 ++ senBody html ((utf8Decode (b :: r)).2 - 1) false r
      else if (utf8Decode (b :: r)).1 = 0x2029 then esc2029 ++ senBody html ((utf8Decode (b :: r)).2 - 1) false r
      else if (utf8Decode (b :: r)).1 = runeError then escFFFD ++ senBody html ((utf8Decode (b :: r)).2 - 1) false r
      else b :: senBody html ((utf8Decode (b :: r)).2 - 1) true r := by
  simp only [senBody]
  simp [h4, c8, cO, c0, cX, cDot, cH]

theorem senDenote_c8 (html copy : Bool) (b : UInt8) (r : Bytes) (h4 : senClass b = c8) :
    senDenote html 0 copy (b :: r) =
      if (utf8Decode (b :: r)).1 = 0x2028 then [0xE2, 0x80, 0xA8] ++ senDenote html ((utf8Decode (b :: r)).2 - 1) false r
      else if (utf8Decode (b :: r)).1 = 0x2029 then [0xE2, 0x80, 0xA9] ++ senDenote html ((utf8Decode (b :: r)).2 - 1) false r
      else if (utf8Decode (b :: r)).1 = runeError then fffd ++ senDenote html ((utf8Decode (b :: r)).2 - 1) false r
      else b :: senDenote html ((utf8Decode (b :: r)).2 - 1) true r := by
  simp only [senDenote, h4, ↓reduceIte]

section body
variable (cfg : Cfg) (hc : cfg.tokenizer = false)
include hc

theorem run_special (st : St) (f : Fast) (p : Pos) (h1 h2 h3 h4 : UInt8) (n : Nat) (rest : Bytes)
    (hm : st.mode = .string) (hf : f.nlSkipping = false)
    (x1 : isHex h1 = true) (x2 : isHex h2 = true) (x3 : isHex h3 = true) (x4 : isHex h4 = true)
    (hn : ((Json.hexDigitVal h1 * 16 + Json.hexDigitVal h2) * 16 + Json.hexDigitVal h3) * 16 + Json.hexDigitVal h4 = n) :
    ∃ ri rn p', runBytes refTables cfg st f p ([92, 117, h1, h2, h3, h4] ++ rest) =
      runBytes refTables cfg { st with ri := ri, rn := rn, tmp := (Json.utf8Enc n).reverse ++ st.tmp } (fS f) p' rest := by
  obtain ⟨p', hp⟩ := run_uXXXX cfg hc st f p h1 h2 h3 h4 rest hm hf x1 x2 x3 x4
  refine ⟨4, n, p', ?_⟩
  simp only [List.cons_append, List.nil_append]
  rw [hp, hn]

theorem run_u00 (st : St) (f : Fast) (p : Pos) (b : UInt8) (rest : Bytes)
    (hm : st.mode = .string) (hf : f.nlSkipping = false) (hb : b < 128) :
    ∃ ri rn p', runBytes refTables cfg st f p (u00 b ++ rest) =
      runBytes refTables cfg { st with ri := ri, rn := rn, tmp := b :: st.tmp } (fS f) p' rest := by
  obtain ⟨x3, x4, hv⟩ := hex_roundtrip b
  have h0 : Json.hexDigitVal 48 = 0 := by decide
  obtain ⟨ri, rn, p', hp⟩ := run_special cfg hc st f p 48 48 _ _ b.toNat rest hm hf (by decide) (by decide) x3 x4
    (by rw [h0]; simpa using hv)
  refine ⟨ri, rn, p', ?_⟩
  rw [utf8Enc_ascii b hb] at hp
  simpa [u00] using hp

/-- **the string reader undoes the writer's loop**: from string mode (opened by `"`), the machine run
over the body the loop writes arrives, still in string mode, with exactly `senDenote` appended to the
pending string -/
theorem body_run (html : Bool) : ∀ (s : Bytes) (skip : Nat) (copy : Bool) (st : St) (f : Fast) (p : Pos) (rest : Bytes),
    st.mode = .string → st.quoteDelim = 34 → f.nlSkipping = false → f.inFast = false →
    (copy = true → highPrefix skip s) →
    ∃ ri rn p', runBytes refTables cfg st f p (senBody html skip copy s ++ rest) =
      runBytes refTables cfg { st with ri := ri, rn := rn, tmp := (senDenote html skip copy s).reverse ++ st.tmp } f p' rest := by
  intro s
  induction s with
  | nil =>
    intro skip copy st f p rest _ _ _ _ _
    exact ⟨st.ri, st.rn, p, by simp [senBody, senDenote]⟩
  | cons b r ih =>
    intro skip copy st f p rest hm hq hf hi hp
    have hfS : fS f = f := by cases f; simp_all [fS]
    -- one raw byte, then the rest
    have raw : ∀ (k : Nat) (c : Bool), (expected .string b = .strOk ∨ b = 39) → (c = true → highPrefix k r) →
        ∃ ri rn p', runBytes refTables cfg st f p (b :: (senBody html k c r ++ rest)) =
          runBytes refTables cfg { st with ri := ri, rn := rn, tmp := (b :: senDenote html k c r).reverse ++ st.tmp } f p' rest := by
      intro k c hb hk
      rw [runBytes_cons_ok cfg (fun l => step_raw cfg hc st f b l hm hq hf hb), hfS]
      obtain ⟨ri, rn, p', h⟩ := ih k c { st with tmp := b :: st.tmp } f (p.next false) rest hm hq hf hi hk
      exact ⟨ri, rn, p', by rw [h]; simp⟩
    cases skip with
    | succ k =>
      cases copy with
      | true =>
        have hp' := hp rfl
        simp only [highPrefix] at hp'
        simp only [senBody, senDenote, ↓reduceIte, List.cons_append]
        exact raw k true (Or.inl (high_strOk b hp'.1)) (fun _ => hp'.2)
      | false =>
        simp only [senBody, senDenote, Bool.false_eq_true, ↓reduceIte]
        exact ih k false st f p rest hm hq hf hi (by intro h; cases h)
    | zero =>
      by_cases h1 : senClass b = cO ∨ senClass b = c0 ∨ senClass b = cX
      · -- copied verbatim
        have hne8 : senClass b ≠ c8 := by rcases h1 with h | h | h <;> rw [h] <;> decide
        have hb : expected .string b = .strOk ∨ b = 39 := raw_in_string b (by
          rcases h1 with h | h | h
          · exact Or.inl h
          · exact Or.inr (Or.inl h)
          · exact Or.inr (Or.inr (Or.inl h)))
        have e1 : senBody html 0 copy (b :: r) = b :: senBody html 0 true r := by
          simp only [senBody]
          rcases h1 with h | h | h <;> simp [h, cO, c0, cX]
        have e2 : senDenote html 0 copy (b :: r) = b :: senDenote html 0 true r := by
          simp only [senDenote, hne8, ↓reduceIte]
        rw [e1, e2, List.cons_append]
        exact raw 0 true hb (fun _ => trivial)
      · have h1' : ¬ (senClass b = cO) ∧ ¬ (senClass b = c0) ∧ ¬ (senClass b = cX) := by
          refine ⟨fun h => h1 (Or.inl h), fun h => h1 (Or.inr (Or.inl h)), fun h => h1 (Or.inr (Or.inr h))⟩
        by_cases h2 : senClass b = cDot
        · -- \u00XX
          have hne8 : senClass b ≠ c8 := by rw [h2]; decide
          have e1 : senBody html 0 copy (b :: r) = u00 b ++ senBody html 0 true r := by
            simp only [senBody]; simp [h2, cO, c0, cX, cDot]
          have e2 : senDenote html 0 copy (b :: r) = b :: senDenote html 0 true r := by
            simp only [senDenote, hne8, ↓reduceIte]
          rw [e1, e2, List.append_assoc]
          obtain ⟨ri1, rn1, p1, hu⟩ := run_u00 cfg hc st f p b (senBody html 0 true r ++ rest) hm hf
            (classDot_lt b (Or.inl h2))
          rw [hu, hfS]
          obtain ⟨ri, rn, p', h⟩ := ih 0 true { st with ri := ri1, rn := rn1, tmp := b :: st.tmp } f p1 rest hm hq hf hi
            (fun _ => trivial)
          exact ⟨ri, rn, p', by rw [h]; simp⟩
        · by_cases h3 : senClass b = cH
          · have hne8 : senClass b ≠ c8 := by rw [h3]; decide
            have e2 : senDenote html 0 copy (b :: r) = b :: senDenote html 0 true r := by
              simp only [senDenote, hne8, ↓reduceIte]
            cases html with
            | true =>
              have e1 : senBody true 0 copy (b :: r) = u00 b ++ senBody true 0 true r := by
                simp only [senBody]; simp [h3, cO, c0, cX, cDot, cH]
              rw [e1, e2, List.append_assoc]
              obtain ⟨ri1, rn1, p1, hu⟩ := run_u00 cfg hc st f p b (senBody true 0 true r ++ rest) hm hf
                (classDot_lt b (Or.inr h3))
              rw [hu, hfS]
              obtain ⟨ri, rn, p', h⟩ := ih 0 true { st with ri := ri1, rn := rn1, tmp := b :: st.tmp } f p1 rest hm hq hf hi
                (fun _ => trivial)
              exact ⟨ri, rn, p', by rw [h]; simp⟩
            | false =>
              have e1 : senBody false 0 copy (b :: r) = b :: senBody false 0 true r := by
                simp only [senBody]; simp [h3, cO, c0, cX, cDot, cH]
              rw [e1, e2, List.cons_append]
              exact raw 0 true (raw_in_string b (Or.inr (Or.inr (Or.inr (Or.inl h3))))) (fun _ => trivial)
          · by_cases h4 : senClass b = c8
            · -- a multi-byte sequence
              have hb8 : 128 ≤ b := (class8_iff b).mp h4
              have hk := decode_highPrefix b r hb8
              have hraw : expected .string b = .strOk ∨ b = 39 := Or.inl (high_strOk b hb8)
              have hcls : ¬ (senClass b = cO ∨ senClass b = c0 ∨ senClass b = cX) := h1
              by_cases r1 : (utf8Decode (b :: r)).1 = 0x2028
              · have e1 : senBody html 0 copy (b :: r) = esc2028 ++ senBody html ((utf8Decode (b :: r)).2 - 1) false r := by
                  rw [senBody_c8 html copy b r h4, if_pos r1]
                have e2 : senDenote html 0 copy (b :: r) = [0xE2, 0x80, 0xA8] ++ senDenote html ((utf8Decode (b :: r)).2 - 1) false r := by
                  rw [senDenote_c8 html copy b r h4, if_pos r1]
                rw [e1, e2, List.append_assoc]
                obtain ⟨ri1, rn1, p1, hu⟩ := run_special cfg hc st f p 50 48 50 56 0x2028
                  (senBody html ((utf8Decode (b :: r)).2 - 1) false r ++ rest) hm hf (by decide) (by decide) (by decide) (by decide) (by decide)
                rw [show esc2028 = [92, 117, 50, 48, 50, 56] from rfl, hu, hfS]
                obtain ⟨ri, rn, p', h⟩ := ih _ false { st with ri := ri1, rn := rn1, tmp := (Json.utf8Enc 0x2028).reverse ++ st.tmp } f p1 rest
                  hm hq hf hi (by intro h; cases h)
                refine ⟨ri, rn, p', ?_⟩
                rw [h]
                have : Json.utf8Enc 0x2028 = [0xE2, 0x80, 0xA8] := by decide
                simp [this]
              · by_cases r2 : (utf8Decode (b :: r)).1 = 0x2029
                · have e1 : senBody html 0 copy (b :: r) = esc2029 ++ senBody html ((utf8Decode (b :: r)).2 - 1) false r := by
                    rw [senBody_c8 html copy b r h4, if_neg r1, if_pos r2]
                  have e2 : senDenote html 0 copy (b :: r) = [0xE2, 0x80, 0xA9] ++ senDenote html ((utf8Decode (b :: r)).2 - 1) false r := by
                    rw [senDenote_c8 html copy b r h4, if_neg r1, if_pos r2]
                  rw [e1, e2, List.append_assoc]
                  obtain ⟨ri1, rn1, p1, hu⟩ := run_special cfg hc st f p 50 48 50 57 0x2029
                    (senBody html ((utf8Decode (b :: r)).2 - 1) false r ++ rest) hm hf (by decide) (by decide) (by decide) (by decide) (by decide)
                  rw [show esc2029 = [92, 117, 50, 48, 50, 57] from rfl, hu, hfS]
                  obtain ⟨ri, rn, p', h⟩ := ih _ false { st with ri := ri1, rn := rn1, tmp := (Json.utf8Enc 0x2029).reverse ++ st.tmp } f p1 rest
                    hm hq hf hi (by intro h; cases h)
                  refine ⟨ri, rn, p', ?_⟩
                  rw [h]
                  have : Json.utf8Enc 0x2029 = [0xE2, 0x80, 0xA9] := by decide
                  simp [this]
                · by_cases r3 : (utf8Decode (b :: r)).1 = runeError
                  · have e1 : senBody html 0 copy (b :: r) = escFFFD ++ senBody html ((utf8Decode (b :: r)).2 - 1) false r := by
                      rw [senBody_c8 html copy b r h4, if_neg r1, if_neg r2, if_pos r3]
                    have e2 : senDenote html 0 copy (b :: r) = fffd ++ senDenote html ((utf8Decode (b :: r)).2 - 1) false r := by
                      rw [senDenote_c8 html copy b r h4, if_neg r1, if_neg r2, if_pos r3]
                    rw [e1, e2, List.append_assoc]
                    obtain ⟨ri1, rn1, p1, hu⟩ := run_special cfg hc st f p 102 102 102 100 0xFFFD
                      (senBody html ((utf8Decode (b :: r)).2 - 1) false r ++ rest) hm hf (by decide) (by decide) (by decide) (by decide) (by decide)
                    rw [show escFFFD = [92, 117, 102, 102, 102, 100] from rfl, hu, hfS]
                    obtain ⟨ri, rn, p', h⟩ := ih _ false { st with ri := ri1, rn := rn1, tmp := (Json.utf8Enc 0xFFFD).reverse ++ st.tmp } f p1 rest
                      hm hq hf hi (by intro h; cases h)
                    refine ⟨ri, rn, p', ?_⟩
                    rw [h]
                    have : Json.utf8Enc 0xFFFD = fffd := by decide
                    simp [this]
                  · have e1 : senBody html 0 copy (b :: r) = b :: senBody html ((utf8Decode (b :: r)).2 - 1) true r := by
                      rw [senBody_c8 html copy b r h4, if_neg r1, if_neg r2, if_neg r3]
                    have e2 : senDenote html 0 copy (b :: r) = b :: senDenote html ((utf8Decode (b :: r)).2 - 1) true r := by
                      rw [senDenote_c8 html copy b r h4, if_neg r1, if_neg r2, if_neg r3]
                    rw [e1, e2, List.cons_append]
                    exact raw _ true hraw (fun _ => hk)
            · -- a two-character escape
              have hesc := class_escape b (by
                intro h
                rcases h with h | h | h | h | h | h
                · exact h1'.1 h
                · exact h1'.2.1 h
                · exact h1'.2.2 h
                · exact h2 h
                · exact h3 h
                · exact h4 h)
              have e1 : senBody html 0 copy (b :: r) = [92, senClass b] ++ senBody html 0 true r := by
                simp only [senBody]
                simp [h1'.1, h1'.2.1, h1'.2.2, h2, h3, h4]
              have e2 : senDenote html 0 copy (b :: r) = b :: senDenote html 0 true r := by
                simp only [senDenote, h4, ↓reduceIte]
              rw [e1, e2]
              simp only [List.cons_append, List.nil_append]
              rw [runBytes_cons_ok cfg (fun l => step_strSlash cfg hc st f l hm hf)]
              rw [runBytes_cons_ok cfg (fun l => step_escOk cfg hc _ _ (senClass b) l rfl hesc.1 rfl)]
              rw [hesc.2]
              have hfS2 : fS (fS f) = f := by rw [fS_idem, hfS]
              rw [hfS2]
              obtain ⟨ri, rn, p', h⟩ := ih 0 true { st with tmp := b :: st.tmp, mode := .string } f _ rest rfl hq hf hi
                (fun _ => trivial)
              refine ⟨ri, rn, p', ?_⟩
              rw [h]
              simp [hm]

end body

/-! ## the denotation is the sanitised string -/

theorem sanLoop_ill (b : UInt8) (r : Bytes) (h : utf8Decode (b :: r) = (runeError, 1)) :
    sanLoop 0 (b :: r) = fffd ++ sanLoop 0 r := by
  simp [sanLoop, illFormedHead, h]

theorem sanLoop_ok (b : UInt8) (r : Bytes) (n w : Nat) (h : utf8Decode (b :: r) = (n, w)) (hw : w ≠ 1) :
    sanLoop 0 (b :: r) = b :: sanLoop (w - 1) r := by
  simp [sanLoop, illFormedHead, h, hw]

theorem denote_san (html : Bool) : ∀ (n : Nat) (s : Bytes), s.length ≤ n →
    (∀ c, senDenote html 0 c s = sanLoop 0 s) ∧ (∀ k, senDenote html k true s = sanLoop k s) := by
  intro n
  induction n with
  | zero =>
    intro s hs
    have : s = [] := List.eq_nil_of_length_eq_zero (by omega)
    subst this
    exact ⟨fun c => by simp [senDenote, sanLoop], fun k => by cases k <;> simp [senDenote, sanLoop]⟩
  | succ n ih =>
    intro s hs
    cases s with
    | nil => exact ⟨fun c => by simp [senDenote, sanLoop], fun k => by cases k <;> simp [senDenote, sanLoop]⟩
    | cons b r =>
      have hr : r.length ≤ n := by simp only [List.length_cons] at hs; omega
      have zero : ∀ c, senDenote html 0 c (b :: r) = sanLoop 0 (b :: r) := by
        intro c
        by_cases h8 : senClass b = c8
        · have hb8 : 128 ≤ b := (class8_iff b).mp h8
          rw [senDenote_c8 html c b r h8]
          rcases Writer.decode_cases b r hb8 with h | ⟨b1, r', m, rfl, _, hd, hm⟩ | ⟨b1, b2, r', m, rfl, _, _, hd, he⟩ |
              ⟨b1, b2, b3, r', m, rfl, _, _, _, hd, hm⟩
          · have e1 : (utf8Decode (b :: r)).1 = runeError := by rw [h]
            have e2 : (utf8Decode (b :: r)).2 = 1 := by rw [h]
            rw [sanLoop_ill b r h, if_neg (by rw [e1]; decide), if_neg (by rw [e1]; decide), if_pos e1, e2]
            simp [(ih r hr).1]
          · have e1 : (utf8Decode (b :: b1 :: r')).1 = m := by rw [hd]
            have e2 : (utf8Decode (b :: b1 :: r')).2 = 2 := by rw [hd]
            rw [sanLoop_ok b _ m 2 hd (by decide), if_neg (by rw [e1]; omega), if_neg (by rw [e1]; omega),
              if_neg (by rw [e1]; unfold runeError; omega), e2]
            simp [(ih _ hr).2]
          · have e1 : (utf8Decode (b :: b1 :: b2 :: r')).1 = m := by rw [hd]
            have e2 : (utf8Decode (b :: b1 :: b2 :: r')).2 = 3 := by rw [hd]
            rw [sanLoop_ok b _ m 3 hd (by decide), e2]
            have hr' : r'.length ≤ n := by simp only [List.length_cons] at hr; omega
            have skip2 : ∀ x : Bytes, x ++ senDenote html (3 - 1) false (b1 :: b2 :: r') = x ++ sanLoop 0 r' := by
              intro x; simp [senDenote, (ih r' hr').1]
            have copy2 : sanLoop (3 - 1) (b1 :: b2 :: r') = b1 :: b2 :: sanLoop 0 r' := by simp [sanLoop]
            rw [copy2]
            rw [← utf8Enc_eq] at he
            by_cases m1 : m = 0x2028
            · rw [if_pos (by rw [e1]; exact m1), skip2]
              subst m1
              have : Json.utf8Enc 0x2028 = [0xE2, 0x80, 0xA8] := by decide
              rw [this] at he
              simp only [List.cons.injEq, and_true] at he
              obtain ⟨rfl, rfl, rfl⟩ := he
              rfl
            · rw [if_neg (by rw [e1]; exact m1)]
              by_cases m2 : m = 0x2029
              · rw [if_pos (by rw [e1]; exact m2), skip2]
                subst m2
                have : Json.utf8Enc 0x2029 = [0xE2, 0x80, 0xA9] := by decide
                rw [this] at he
                simp only [List.cons.injEq, and_true] at he
                obtain ⟨rfl, rfl, rfl⟩ := he
                rfl
              · rw [if_neg (by rw [e1]; exact m2)]
                by_cases m3 : m = runeError
                · rw [if_pos (by rw [e1]; exact m3), skip2]
                  subst m3
                  have : Json.utf8Enc runeError = [0xEF, 0xBF, 0xBD] := by decide
                  rw [this] at he
                  simp only [List.cons.injEq, and_true] at he
                  obtain ⟨rfl, rfl, rfl⟩ := he
                  rfl
                · rw [if_neg (by rw [e1]; exact m3)]
                  simp [senDenote, (ih r' hr').1]
          · have e1 : (utf8Decode (b :: b1 :: b2 :: b3 :: r')).1 = m := by rw [hd]
            have e2 : (utf8Decode (b :: b1 :: b2 :: b3 :: r')).2 = 4 := by rw [hd]
            rw [sanLoop_ok b _ m 4 hd (by decide), if_neg (by rw [e1]; omega), if_neg (by rw [e1]; omega),
              if_neg (by rw [e1]; unfold runeError; omega), e2]
            simp [(ih _ hr).2]
        · have hlt : b < 128 := by
            have : ¬ 128 ≤ b := fun h => h8 ((class8_iff b).mpr h)
            simpa [UInt8.not_le] using this
          rw [Writer.san_ascii b r hlt]
          simp only [senDenote, h8, ↓reduceIte]
          rw [(ih r hr).1]
      refine ⟨zero, fun k => ?_⟩
      cases k with
      | zero => exact zero true
      | succ k => simp [senDenote, sanLoop, (ih r hr).2 k]

/-- **what the parser reads back from the quoted body is the sanitised string** -/
theorem senDenote_eq_sanitize (html : Bool) (s : Bytes) : senDenote html 0 true s = sanitize s :=
  (denote_san html s.length s (Nat.le_refl _)).1 true

/-! ## the bare form -/

/-- a byte the loop lets pass without asking for quotes -/
def bareByte (html : Bool) (b : UInt8) : Prop :=
  senClass b = cO ∨ senClass b = c0 ∨ (senClass b = cH ∧ html = false ∧ b ≠ 38) ∨ 128 ≤ b

/-- when the loop asks for no quotes it has copied the string unchanged, the string is well-formed
UTF-8 (sanitising changes nothing) and every byte is of a bare class -/
theorem force_false (html : Bool) : ∀ (s : Bytes) (k : Nat), highPrefix k s → senForce html k s = false →
    senBody html k true s = s ∧ sanLoop k s = s ∧ ∀ x ∈ s, bareByte html x := by
  intro s
  induction s with
  | nil => intro k _ _; cases k <;> simp [senBody, sanLoop]
  | cons b r ih =>
    intro k hk hf
    cases k with
    | succ k =>
      simp only [highPrefix] at hk
      simp only [senForce] at hf
      obtain ⟨h1, h2, h3⟩ := ih k hk.2 hf
      refine ⟨by simp [senBody, h1], by simp [sanLoop, h2], ?_⟩
      intro x hx
      rcases List.mem_cons.mp hx with rfl | hx
      · exact Or.inr (Or.inr (Or.inr hk.1))
      · exact h3 x hx
    | zero =>
      by_cases c1 : senClass b = cO ∨ senClass b = c0
      · have hne8 : senClass b ≠ c8 := by rcases c1 with h | h <;> rw [h] <;> decide
        have hlt : b < 128 := by
          have : ¬ 128 ≤ b := fun h => hne8 ((class8_iff b).mpr h)
          simpa [UInt8.not_le] using this
        have hf' : senForce html 0 r = false := by
          simp only [senForce] at hf
          rcases c1 with h | h <;> simpa [h, cO, c0] using hf
        obtain ⟨h1, h2, h3⟩ := ih 0 trivial hf'
        refine ⟨?_, by rw [Writer.san_ascii b r hlt, h2], ?_⟩
        · simp only [senBody]
          rcases c1 with h | h <;> simp [h, cO, c0, cX, h1]
        · intro x hx
          rcases List.mem_cons.mp hx with rfl | hx
          · rcases c1 with h | h
            · exact Or.inl h
            · exact Or.inr (Or.inl h)
          · exact h3 x hx
      · have c1' : ¬ senClass b = cO ∧ ¬ senClass b = c0 := ⟨fun h => c1 (Or.inl h), fun h => c1 (Or.inr h)⟩
        by_cases c2 : senClass b = cX
        · simp [senForce, c2, cO, c0, cX] at hf
        · by_cases c3 : senClass b = cDot
          · simp [senForce, c3, cO, c0, cX, cDot] at hf
          · by_cases c4 : senClass b = cH
            · have hne8 : senClass b ≠ c8 := by rw [c4]; decide
              have hlt : b < 128 := classDot_lt b (Or.inr c4)
              simp only [senForce] at hf
              simp only [c4, cH, cO, c0, cX, cDot, Bool.or_eq_false_iff] at hf
              have hf2 : (html = false ∧ ¬ b = 38) ∧ senForce html 0 r = false := by simpa using hf
              obtain ⟨h1, h2, h3⟩ := ih 0 trivial hf2.2
              refine ⟨?_, by rw [Writer.san_ascii b r hlt, h2], ?_⟩
              · have hh := hf2.1.1
                subst hh
                simp only [senBody]
                simp [c4, cH, cO, c0, cX, cDot, h1]
              · intro x hx
                rcases List.mem_cons.mp hx with rfl | hx
                · exact Or.inr (Or.inr (Or.inl ⟨c4, hf2.1.1, hf2.1.2⟩))
                · exact h3 x hx
            · by_cases c5 : senClass b = c8
              · have hb8 : 128 ≤ b := (class8_iff b).mp c5
                have hp := decode_highPrefix b r hb8
                simp only [senForce] at hf
                simp only [c5, c8, cO, c0, cX, cDot, cH] at hf
                have hf2 : ((utf8Decode (b :: r)).1 ≠ 0x2028 ∧ (utf8Decode (b :: r)).1 ≠ 0x2029 ∧
                    (utf8Decode (b :: r)).1 ≠ runeError) ∧ senForce html ((utf8Decode (b :: r)).2 - 1) r = false := by
                  by_cases hx : ((utf8Decode (b :: r)).1 = 0x2028 || (utf8Decode (b :: r)).1 = 0x2029 ||
                      (utf8Decode (b :: r)).1 = runeError) = true
                  · simp [hx] at hf
                  · simp only [hx] at hf
                    simp only [Bool.or_eq_true, decide_eq_true_eq, not_or] at hx
                    exact ⟨⟨hx.1.1, hx.1.2, hx.2⟩, by simpa using hf⟩
                obtain ⟨h1, h2, h3⟩ := ih _ hp hf2.2
                refine ⟨?_, ?_, ?_⟩
                · rw [senBody_c8 html true b r c5, if_neg hf2.1.1, if_neg hf2.1.2.1, if_neg hf2.1.2.2, h1]
                · have : illFormedHead (b :: r) = false := by
                    simp [illFormedHead, hf2.1.2.2]
                  simp [sanLoop, this, h2]
                · intro x hx
                  rcases List.mem_cons.mp hx with rfl | hx
                  · exact Or.inr (Or.inr (Or.inr hb8))
                  · exact h3 x hx
              · simp [senForce, c1'.1, c1'.2, c2, c3, c4, c5] at hf

/-- **every byte the writer leaves bare continues a parser token**: classes `o`, `0`, `h` without `&`, and
the bytes from 0x80 up, against `tokenMap` (row-wise over both regenerated tables; before 9fd0aeb the
cells of backtick and `|` made this false) -/
theorem bare_tokenOk (html : Bool) (b : UInt8) (h : bareByte html b) : expected .token b = .tokenOk := by
  have := forall_byte (fun b => !(senClass b == cO || senClass b == c0 || (senClass b == cH && b != 38) || decide (128 ≤ b)) ||
      expected .token b == .tokenOk) (by decide +kernel) b
  simp only [Bool.or_eq_true, Bool.and_eq_true, Bool.not_eq_true', beq_iff_eq, bne_iff_ne, decide_eq_true_eq] at this
  rcases this with h0 | h0
  · exfalso
    rcases h with h | h | h | h
    · simp [h] at h0
    · simp [h] at h0
    · simp [h.1, h.2.2] at h0
    · simp [h] at h0
  · exact h0

/-- a bare-class byte that may start a bare string, other than the signs, starts a token in value
position -/
theorem first_tokenStart (b : UInt8) (h : senClass b = cO ∨ senClass b = c8 ∨ (senClass b = cH ∧ b ≠ 38))
    (h1 : b ≠ 43) (h2 : b ≠ 45) :
    expected .value b = .tokenStart ∧ expected .token b = .tokenOk ∧ expected .space b ≠ .skipChar := by
  have := forall_byte (fun b => !(senClass b == cO || senClass b == c8 || (senClass b == cH && b != 38)) ||
      (b == 43 || b == 45) ||
      (expected .value b == .tokenStart && expected .token b == .tokenOk && expected .space b != .skipChar))
    (by decide +kernel) b
  simp only [Bool.or_eq_true, Bool.not_eq_true', Bool.and_eq_true, beq_iff_eq, bne_iff_ne] at this
  rcases this with (h0 | h0) | h0
  · exfalso
    rcases h with h | h | h
    · simp [h] at h0
    · simp [h] at h0
    · simp [h.1, h.2] at h0
  · rcases h0 with h0 | h0
    · exact absurd h0 h1
    · exact absurd h0 h2
  · exact ⟨h0.1.1, h0.1.2, h0.2⟩

/-- a bare byte of class `h` is not `&` -/
theorem bareByte_h (html : Bool) (b : UInt8) (hb : bareByte html b) (hh : senClass b = cH) : b ≠ 38 := by
  rcases hb with h | h | h | h
  · rw [hh] at h; exact absurd h (by decide)
  · rw [hh] at h; exact absurd h (by decide)
  · exact h.2.2
  · have := (class8_iff b).mpr h
    rw [hh] at this; exact absurd this (by decide)

section token
variable (cfg : Cfg) (hc : cfg.tokenizer = false)
include hc

/-- token bytes are collected -/
theorem token_run : ∀ (s : Bytes) (st : St) (f : Fast) (p : Pos) (rest : Bytes),
    st.mode = .token → f.nlSkipping = false → f.inFast = false → (∀ x ∈ s, expected .token x = .tokenOk) →
    ∃ p', runBytes refTables cfg st f p (s ++ rest) =
      runBytes refTables cfg { st with tmp := s.reverse ++ st.tmp } f p' rest := by
  intro s
  induction s with
  | nil => intro st f p rest _ _ _ _; exact ⟨p, by simp⟩
  | cons b r ih =>
    intro st f p rest hm hf hi hx
    have hfS : fS f = f := by cases f; simp_all [fS]
    rw [List.cons_append, runBytes_cons_ok cfg (fun l => step_tokenOk cfg hc st f b l hm (hx b List.mem_cons_self) hf), hfS]
    obtain ⟨p', h⟩ := ih { st with tmp := b :: st.tmp } f (p.next false) rest hm hf hi
      (fun x hx' => hx x (List.mem_cons_of_mem _ hx'))
    exact ⟨p', by rw [h]; simp⟩

end token

end OjgVerif.Sen
