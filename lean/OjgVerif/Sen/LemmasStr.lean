import OjgVerif.Sen.Lemmas
import OjgVerif.Sen.Writer
import OjgVerif.Writer.LemmasStr
/-! Lemmas for C10: what the parser machine (over the reference tables) reads when it is given the
text `AppendSENString` writes — the quoted form, byte class by byte class, and the bare form. The two
generated tables (`Gen.Root.senMap` of the writer, `Gen.Sen.*` of the parser through `TablesOK`) are
tied by row-wise kernel-evaluated facts. -/
set_option linter.unusedSimpArgs false
namespace OjgVerif.Sen
open OjgVerif
open OjgVerif.Writer (utf8Decode runeError sanLoop sanitize fffd illFormedHead)

theorem utf8Enc_eq (r : Nat) : Json.utf8Enc r = Json.Spec.utf8Enc r := by
  unfold Json.utf8Enc Json.Spec.utf8Enc
  rfl

/-! ## facts about the writer's table `senMap` against the parser's reference transitions -/

/-- every byte the loop copies verbatim into a quoted string is taken by the parser's string mode as
itself: classes `o`, `0`, `x`, `h`, `8` are `strOk` bytes, or the single quote (which does not end a
double-quoted string) -/
theorem raw_in_string (b : UInt8)
    (h : senClass b = cO ∨ senClass b = c0 ∨ senClass b = cX ∨ senClass b = cH ∨ senClass b = c8) :
    expected .string b = .strOk ∨ b = 39 := by
  have := forall_byte (fun b => !(senClass b == cO || senClass b == c0 || senClass b == cX || senClass b == cH
      || senClass b == c8) || (expected .string b == .strOk || b == 39)) (by decide +kernel) b
  simp only [Bool.or_eq_true, Bool.not_eq_true', beq_iff_eq, beq_eq_false_iff_ne] at this
  rcases this with h1 | h2
  · exfalso
    rcases h with h | h | h | h | h <;> simp [h] at h1
  · rcases h2 with h2 | h2
    · exact Or.inl h2
    · exact Or.inr h2

/-- bytes from 0x80 up are `strOk` bytes and class `8`; bytes below are not class `8` -/
theorem high_strOk (b : UInt8) (h : 128 ≤ b) : expected .string b = .strOk := by
  have := forall_byte (fun b => !(decide (128 ≤ b)) || expected .string b == .strOk) (by decide +kernel) b
  simpa [h] using this

theorem class8_iff (b : UInt8) : senClass b = c8 ↔ 128 ≤ b := by
  have := forall_byte (fun b => (senClass b == c8) == decide (128 ≤ b)) (by decide +kernel) b
  simp only [beq_iff_eq] at this
  constructor
  · intro h; simp [h] at this; exact this
  · intro h; simp [h] at this; exact this

/-- class `.` (and `h`) bytes are ASCII: `\u00XX` decodes to the byte -/
theorem classDot_lt (b : UInt8) (h : senClass b = cDot ∨ senClass b = cH) : b < 128 := by
  have := forall_byte (fun b => !(senClass b == cDot || senClass b == cH) || decide (b < 128)) (by decide +kernel) b
  simp only [Bool.or_eq_true, Bool.not_eq_true', beq_iff_eq, decide_eq_true_eq] at this
  rcases this with h1 | h2
  · exfalso; rcases h with h | h <;> simp [h] at h1
  · exact h2

/-- every other class letter is a two-character escape the parser undoes: `\` then the letter gives the
byte back -/
theorem class_escape (b : UInt8)
    (h : ¬ (senClass b = cO ∨ senClass b = c0 ∨ senClass b = cX ∨ senClass b = cDot ∨ senClass b = cH ∨ senClass b = c8)) :
    expected .esc (senClass b) = .escOk ∧ unesc (senClass b) = b := by
  have := forall_byte (fun b => (senClass b == cO || senClass b == c0 || senClass b == cX || senClass b == cDot
      || senClass b == cH || senClass b == c8) || (expected .esc (senClass b) == .escOk && unesc (senClass b) == b))
    (by decide +kernel) b
  simp only [Bool.or_eq_true, Bool.and_eq_true, beq_iff_eq] at this
  rcases this with h1 | h2
  · exfalso; apply h
    rcases h1 with ((((h1 | h1) | h1) | h1) | h1) | h1 <;> simp [h1]
  · exact h2

/-- the two hex digits of `\u00XX` are hex digits for the parser and denote the byte -/
theorem hex_roundtrip (b : UInt8) :
    isHex (hexDigit ((b >>> 4) &&& 0x0f)) = true ∧ isHex (hexDigit (b &&& 0x0f)) = true ∧
      Json.hexDigitVal (hexDigit ((b >>> 4) &&& 0x0f)) * 16 + Json.hexDigitVal (hexDigit (b &&& 0x0f)) = b.toNat := by
  have := forall_byte (fun b => isHex (hexDigit ((b >>> 4) &&& 0x0f)) && isHex (hexDigit (b &&& 0x0f)) &&
      decide (Json.hexDigitVal (hexDigit ((b >>> 4) &&& 0x0f)) * 16 + Json.hexDigitVal (hexDigit (b &&& 0x0f)) = b.toNat))
    (by decide +kernel) b
  simpa [and_assoc] using this

theorem utf8Enc_ascii (b : UInt8) (h : b < 128) : Json.utf8Enc b.toNat = [b] := by
  have := forall_byte (fun b => !(decide (b < 128)) || Json.utf8Enc b.toNat == [b]) (by decide +kernel) b
  simpa [h] using this

/-! ## single steps of the parser machine (reference tables) -/

section steps
variable (cfg : Cfg) (hc : cfg.tokenizer = false)

/-- the fast-path record after a byte of a string, an escape or a token -/
def fS (f : Fast) : Fast := { inFast := false, tokFast := f.tokFast, nlSkipping := false }

theorem fS_idem (f : Fast) : fS (fS f) = fS f := rfl
theorem fS_nl (f : Fast) : (fS f).nlSkipping = false := rfl

include hc

theorem step_valQuote (st : St) (f : Fast) (l : Bool) (hm : st.mode = .value) :
    step refTables cfg st f 34 l = .ok ({ st with quoteDelim := 34, tmp := [], mode := .string }, fS f, false) := by
  simp [step, stepCore, stepAct, stepActP, nextFast, refTables, hm, hc, expected, fS, isSep, isBlank]

theorem step_strOk (st : St) (f : Fast) (b : UInt8) (l : Bool) (hm : st.mode = .string)
    (hb : expected .string b = .strOk) (hf : f.nlSkipping = false) :
    step refTables cfg st f b l = .ok ({ st with tmp := b :: st.tmp }, fS f, false) := by
  simp [step, stepCore, stepAct, stepActP, deliver, nextFast, refTables, hm, hb, hf, hc, expectedFin, fS]

theorem step_apos (st : St) (f : Fast) (l : Bool) (hm : st.mode = .string) (hq : st.quoteDelim = 34)
    (hf : f.nlSkipping = false) :
    step refTables cfg st f 39 l = .ok ({ st with tmp := 39 :: st.tmp }, fS f, false) := by
  simp [step, stepCore, stepAct, stepActP, deliver, nextFast, refTables, hm, hq, hf, hc, expected, expectedFin, fS]

/-- a byte the writer copies verbatim is appended to the pending string -/
theorem step_raw (st : St) (f : Fast) (b : UInt8) (l : Bool) (hm : st.mode = .string) (hq : st.quoteDelim = 34)
    (hf : f.nlSkipping = false) (hb : expected .string b = .strOk ∨ b = 39) :
    step refTables cfg st f b l = .ok ({ st with tmp := b :: st.tmp }, fS f, false) := by
  rcases hb with hb | hb
  · exact step_strOk cfg hc st f b l hm hb hf
  · subst hb; exact step_apos cfg hc st f l hm hq hf

theorem step_strSlash (st : St) (f : Fast) (l : Bool) (hm : st.mode = .string) (hf : f.nlSkipping = false) :
    step refTables cfg st f 92 l = .ok ({ st with mode := .esc }, fS f, false) := by
  simp [step, stepCore, stepAct, stepActP, nextFast, refTables, hm, hf, hc, expected, fS]

theorem step_escOk (st : St) (f : Fast) (c : UInt8) (l : Bool) (hm : st.mode = .esc)
    (hb : expected .esc c = .escOk) (hf : f.nlSkipping = false) :
    step refTables cfg st f c l = .ok ({ st with tmp := unesc c :: st.tmp, mode := .string }, fS f, false) := by
  simp [step, stepCore, stepAct, stepActP, nextFast, refTables, hm, hb, hf, hc, fS]

theorem step_escU (st : St) (f : Fast) (l : Bool) (hm : st.mode = .esc) (hf : f.nlSkipping = false) :
    step refTables cfg st f 117 l = .ok ({ st with mode := .u, rn := 0, ri := 0 }, fS f, false) := by
  simp [step, stepCore, stepAct, stepActP, nextFast, refTables, hm, hf, hc, expected, fS]

theorem step_uOk (st : St) (f : Fast) (b : UInt8) (l : Bool) (hm : st.mode = .u)
    (hb : isHex b = true) (hf : f.nlSkipping = false) :
    step refTables cfg st f b l =
      .ok ({ st with
              ri := st.ri + 1
              rn := st.rn * 16 + Json.hexDigitVal b
              tmp := (if st.ri + 1 = 4 then (Json.utf8Enc (st.rn * 16 + Json.hexDigitVal b)).reverse ++ st.tmp else st.tmp)
              mode := (if st.ri + 1 = 4 then Mode.string else st.mode) }, fS f, false) := by
  simp [step, stepCore, stepAct, stepActP, nextFast, refTables, hm, hb, hf, hc, expected, fS]

/-- the closing quote: `addString`, then the end-of-document test -/
theorem step_quoteEnd (st : St) (f : Fast) (l : Bool) (hm : st.mode = .string) (hq : st.quoteDelim = 34)
    (hf : f.nlSkipping = false) :
    step refTables cfg st f 34 l =
      (match st.addStringP st.tmp.reverse with
       | .error e => .error e
       | .ok s1 => match deliver refTables cfg s1 with
         | .error e => .error e
         | .ok s2 => .ok (s2, fS f, false)) := by
  simp [step, stepCore, stepAct, stepActP, nextFast, refTables, hm, hf, hc, hq, expected, fS]
  cases st.addStringP st.tmp.reverse <;> simp [Functor.map, Except.map] <;> (split <;> rfl)

theorem step_tokenStart (st : St) (f : Fast) (b : UInt8) (l : Bool) (hm : st.mode = .value)
    (hb : expected .value b = .tokenStart) (ht : expected .token b = .tokenOk) (hs : expected .space b ≠ .skipChar) :
    step refTables cfg st f b l =
      .ok ({ st with tmp := [b], mode := .token }, { inFast := false, tokFast := cfg.tokSlow, nlSkipping := false }, false) := by
  simp [step, stepCore, stepAct, stepActP, nextFast, refTables, hm, hb, ht, hs, hc]

theorem step_tokenOk (st : St) (f : Fast) (b : UInt8) (l : Bool) (hm : st.mode = .token)
    (hb : expected .token b = .tokenOk) (hf : f.nlSkipping = false) :
    step refTables cfg st f b l = .ok ({ st with tmp := b :: st.tmp }, fS f, false) := by
  simp [step, stepCore, stepAct, stepActP, deliver, nextFast, refTables, hm, hb, hf, hc, expectedFin, fS]

end steps

/-! ## runs -/

section runs
variable (cfg : Cfg) (hc : cfg.tokenizer = false)
include hc

/-- one successful step in front of a run -/
theorem runBytes_cons_ok {st st' : St} {f f' : Fast} {p : Pos} {b : UInt8} {r : Bytes} {nl : Bool}
    (h : ∀ l, step refTables cfg st f b l = .ok (st', f', nl)) :
    runBytes refTables cfg st f p (b :: r) = runBytes refTables cfg st' f' (p.next nl) r := by
  simp [runBytes, h]

/-- `\uXXXX` inside a string: the four hex digits are decoded and the character is appended -/
theorem run_uXXXX (st : St) (f : Fast) (p : Pos) (h1 h2 h3 h4 : UInt8) (rest : Bytes)
    (hm : st.mode = .string) (hf : f.nlSkipping = false)
    (x1 : isHex h1 = true) (x2 : isHex h2 = true) (x3 : isHex h3 = true) (x4 : isHex h4 = true) :
    ∃ p', runBytes refTables cfg st f p (92 :: 117 :: h1 :: h2 :: h3 :: h4 :: rest) =
      runBytes refTables cfg
        { st with
            ri := 4
            rn := ((Json.hexDigitVal h1 * 16 + Json.hexDigitVal h2) * 16 + Json.hexDigitVal h3) * 16 + Json.hexDigitVal h4
            tmp := (Json.utf8Enc (((Json.hexDigitVal h1 * 16 + Json.hexDigitVal h2) * 16 + Json.hexDigitVal h3) * 16 + Json.hexDigitVal h4)).reverse ++ st.tmp }
        (fS f) p' rest := by
  refine ⟨_, ?_⟩
  rw [runBytes_cons_ok cfg hc (fun l => step_strSlash cfg hc st f l hm hf)]
  rw [runBytes_cons_ok cfg hc (fun l => step_escU cfg hc _ _ l rfl rfl)]
  rw [runBytes_cons_ok cfg hc (fun l => step_uOk cfg hc _ _ h1 l rfl x1 rfl)]
  rw [runBytes_cons_ok cfg hc (fun l => step_uOk cfg hc _ _ h2 l (by simp) x2 rfl)]
  rw [runBytes_cons_ok cfg hc (fun l => step_uOk cfg hc _ _ h3 l (by simp) x3 rfl)]
  rw [runBytes_cons_ok cfg hc (fun l => step_uOk cfg hc _ _ h4 l (by simp) x4 rfl)]
  simp [hm, fS]
  rfl

end runs

end OjgVerif.Sen
