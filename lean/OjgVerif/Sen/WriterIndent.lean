import OjgVerif.Sen.Writer
import OjgVerif.Gen.Sen
/-! # Model of the indented SEN writer (sen/writer.go: `appendArray`, `appendObject`, `appendSortObject`)

`sen.Writer` with `Tab` or `0 < Indent` (and `Color` off) writes every element and every member on a
line of its own: the separator in front of an element or member is `cs`, the one in front of the closing
bracket `is`, both slices of the package constants `spaces` / `tabs` (a newline followed by 128 spaces /
30 tabs, REGENERATED: `Gen.Sen.spaces`, `Gen.Sen.tabs`), clamped to the length of the constant:

```
is = spaces[0 : min(len(spaces), depth*Indent + 1)]         tabs[0 : min(len(tabs), depth + 1)]
cs = spaces[0 : min(len(spaces), (depth+1)*Indent + 1)]     tabs[0 : min(len(tabs), depth + 2)]
```

An empty array is `[]`; an object always writes `{`, its members, `is`, `}` (so the empty object is
`{` newline indentation `}`); a member is `cs key ": " value`. Members are passed over exactly as in the
tight writer (`omitted`). `appendObject` and `appendSortObject` differ in the order of the members only (the
model writes the members in the order given). Scalars are written by `appendSEN` as in the tight writer. -/
namespace OjgVerif.Sen
open OjgVerif

/-- `Tab`, `Indent` of `ojg.Options` -/
structure IOpts where
  tab : Bool := false
  indent : Nat := 0
  deriving Inhabited

/-- `spaces[0:x]` / `tabs[0:x]` with the clamp `if len(spaces) < x { x = len(spaces) }` (`List.take` clamps) -/
def indentSep (io : IOpts) (depth : Nat) : Bytes :=
  if io.tab then Gen.Sen.tabs.toList.take (depth + 1)
  else Gen.Sen.spaces.toList.take (depth * io.indent + 1)

/-- which `append…` functions `MustSEN` / `MustWrite` install (Color off): the indented ones iff
`wr.Tab || 0 < wr.Indent` -/
def usesIndented (io : IOpts) : Bool := io.tab || decide (0 < io.indent)

mutual
  /-- `wr.appendSEN(v, depth)` with the indented functions -/
  def indentVal (o : WOpts) (io : IOpts) (depth : Nat) : JV → Bytes
    | .null => [110, 117, 108, 108]
    | .bool true => [116, 114, 117, 101]
    | .bool false => [102, 97, 108, 115, 101]
    | .int i => fmtInt i
    | .flt t => t
    | .big t => t
    | .num t => t
    | .str s => senString s o.html
    | .arr [] => [91, 93]
    | .arr (x :: r) => 91 :: indentElems o io depth (x :: r)
    | .obj kvs => 123 :: indentMembers o io depth kvs
  /-- `cs` element … `is` `]` -/
  def indentElems (o : WOpts) (io : IOpts) (depth : Nat) : List JV → Bytes
    | [] => indentSep io depth ++ [93]
    | x :: r => indentSep io (depth + 1) ++ (indentVal o io (depth + 1) x ++ indentElems o io depth r)
  /-- `cs` key `: ` value … `is` `}` -/
  def indentMembers (o : WOpts) (io : IOpts) (depth : Nat) : List (Bytes × JV) → Bytes
    | [] => indentSep io depth ++ [125]
    | (k, v) :: r =>
      if omitted o v then indentMembers o io depth r
      else indentSep io (depth + 1) ++
        (senString k o.html ++ (58 :: 32 :: (indentVal o io (depth + 1) v ++ indentMembers o io depth r)))
end

/-- `sen.String(v, &ojg.Options{Indent, Tab, …})` on simple data, members in the order given -/
def senWrite (o : WOpts) (io : IOpts) (v : JV) : Bytes :=
  if usesIndented io then indentVal o io 0 v else tightVal o v

end OjgVerif.Sen
