import OjgVerif.Sen.LemmasSafe
/-! sen.Tokenizer profile: the machine never ends in a run-time fault or in the no-progress state. The
tokenizer has no build stack; the only run-time fault of its switch is `p.mode[256]` read without a length
test in `closeArray` (every mode table with that code has the 257th byte: `close_fin`), the only
no-progress outcome is a token start that is not a token byte (`tokenStart_tokenOk`). -/
set_option linter.unusedSimpArgs false
set_option linter.unusedSectionVars false
set_option linter.unusedVariables false
namespace OjgVerif.Sen
open OjgVerif

/-- not a run-time fault and not the no-progress state -/
def Quiet (r : Except ErrKind α) : Prop := ∀ e, r = .error e → e.isFault = false

theorem quiet_ok {α : Type} (a : α) : Quiet (.ok a : Except ErrKind α) := by
  intro e h; cases h

theorem quiet_err {α : Type} (k : ErrKind) (h : k.isFault = false) : Quiet (.error k : Except ErrKind α) := by
  intro e he; cases he; exact h

theorem quiet_bind {α β : Type} (x : Except ErrKind α) (f : α → Except ErrKind β)
    (hx : Quiet x) (hf : ∀ a, Quiet (f a)) : Quiet (x >>= f) := by
  cases x with
  | error e => intro k h; exact hx k (by simpa [bind, Except.bind] using h)
  | ok a => exact hf a

theorem handleNumT_quiet (s : St) : Quiet s.handleNumT := by
  unfold St.handleNumT
  split
  · exact quiet_err _ rfl
  · exact quiet_ok _

theorem flushT_quiet (s : St) : Quiet (s.flushT refTables) := by
  unfold St.flushT
  split
  · exact handleNumT_quiet s
  · exact quiet_ok _
  · exact quiet_ok _

theorem flushCloseT_quiet (s : St) (h : expectedFin s.mode ≠ .absent) : Quiet (s.flushCloseT refTables) := by
  unfold St.flushCloseT
  split
  · rename_i heq; exact absurd heq h
  · exact handleNumT_quiet s
  · exact quiet_ok _
  · exact quiet_ok _

theorem stepActT_quiet (cfg : Cfg) (s : St) (b : UInt8) : Quiet (stepActT refTables cfg s b) := by
  unfold stepActT
  cases hact : refTables.act s.mode b <;> simp only []
  case tokenStart =>
    have := tokenStart_tokenOk s.mode b hact
    simp only [refTables, this, ↓reduceIte]
    exact quiet_ok _
  case openObject =>
    refine quiet_bind _ _ (flushT_quiet s) (fun a => ?_)
    split
    · exact quiet_err _ rfl
    · exact quiet_ok _
  case openArray =>
    refine quiet_bind _ _ (flushT_quiet s) (fun a => ?_)
    split
    · exact quiet_err _ rfl
    · exact quiet_ok _
  case closeObject =>
    split
    · refine quiet_bind _ _ (flushT_quiet s) (fun a => ?_)
      split
      · exact quiet_err _ rfl
      · exact quiet_ok _
    · exact quiet_err _ rfl
  case closeArray =>
    have hfin := close_fin s.mode b (Or.inl hact)
    split
    · exact quiet_bind _ _ (flushCloseT_quiet s hfin) (fun a => quiet_ok _)
    · exact quiet_err _ rfl
  case numSpc => exact quiet_bind _ _ (handleNumT_quiet s) (fun a => quiet_ok _)
  case numNewline => exact quiet_bind _ _ (handleNumT_quiet s) (fun a => quiet_ok _)
  case valSlash => exact quiet_bind _ _ (flushT_quiet s) (fun a => quiet_ok _)
  case numDot => split <;> exact quiet_ok _
  case strQuote => split <;> (try split) <;> exact quiet_ok _
  case commentEnd => split <;> exact quiet_ok _
  case ccommentStart => split <;> exact quiet_ok _
  case ccommentEnd => split <;> exact quiet_ok _
  case cskipChar => split <;> exact quiet_ok _
  case cskipNewline => split <;> exact quiet_ok _
  case charErr => apply quiet_err; split <;> rfl
  all_goals exact quiet_ok _

section tokChain
variable (cfg : Cfg) (ht : cfg.tokenizer = true)
include ht

theorem deliverT_quiet (s : St) : Quiet (deliver refTables cfg s) := by
  unfold deliver
  simp only [ht, ↓reduceIte]
  split <;> exact quiet_ok _

theorem stepCoreT_quiet (s : St) (f : Fast) (b : UInt8) : Quiet (stepCore refTables cfg s f b) := by
  unfold stepCore stepAct
  simp only [ht, ↓reduceIte]
  have := stepActT_quiet cfg s b
  cases h1 : stepActT refTables cfg s b with
  | error e => exact quiet_err _ (this e h1)
  | ok r =>
    obtain ⟨s1, cont, nl⟩ := r
    simp only []
    split
    · exact quiet_ok _
    · have hd := deliverT_quiet cfg ht s1
      cases h2 : deliver refTables cfg s1 with
      | error e => exact quiet_err _ (hd e h2)
      | ok a => exact quiet_ok _

theorem tokenEndFastT_quiet (s : St) (f : Fast) (b : UInt8) : Quiet (tokenEndFast refTables cfg s f b) := by
  unfold tokenEndFast
  simp only [ht, Bool.not_true, Bool.and_false, Bool.false_eq_true, ↓reduceIte]
  have hd := deliverT_quiet cfg ht (s.addTokenT s.tmp.reverse)
  cases h2 : deliver refTables cfg (s.addTokenT s.tmp.reverse) with
  | error e => exact quiet_err _ (hd e h2)
  | ok a => exact stepCoreT_quiet cfg ht a _ b

theorem stepT_quiet (s : St) (f : Fast) (b : UInt8) (l : Bool) : Quiet (step refTables cfg s f b l) := by
  unfold step
  split
  · exact quiet_ok _
  · split
    · exact tokenEndFastT_quiet cfg ht s _ b
    · exact stepCoreT_quiet cfg ht _ _ b

theorem runBytesT_quiet (bs : Bytes) : ∀ (s : St) (f : Fast) (p : Pos) (e : Err),
    runBytes refTables cfg s f p bs = .error e → e.kind.isFault = false := by
  induction bs with
  | nil => intro s f p e h; cases h
  | cons b r ih =>
    intro s f p e h
    simp only [runBytes] at h
    have hs := stepT_quiet cfg ht s f b r.isEmpty
    cases h1 : step refTables cfg s f b r.isEmpty with
    | error k => rw [h1] at h; cases h; exact hs k h1
    | ok x => obtain ⟨s1, f1, nl⟩ := x; rw [h1] at h; exact ih _ _ _ e h

theorem runChunksT_quiet (cs : List Bytes) : ∀ (s : St) (p : Pos) (e : Err),
    runChunks refTables cfg s p cs = .error e → e.kind.isFault = false := by
  induction cs with
  | nil => intro s p e h; cases h
  | cons c rest ih =>
    intro s p e h
    simp only [runChunks] at h
    cases h1 : runBytes refTables cfg s {} { p with off := 0 } c with
    | error e' => rw [h1] at h; cases h; exact runBytesT_quiet cfg ht c _ _ _ _ h1
    | ok x => obtain ⟨s1, f1, p1⟩ := x; rw [h1] at h; exact ih _ _ e h

theorem finishT_quiet (s : St) (p : Pos) (e : Err) (h : finish refTables cfg s p = .error e) :
    e.kind.isFault = false := by
  unfold finish at h
  simp only [ht, ↓reduceIte] at h
  split at h
  · cases h; rfl
  · split at h
    · cases h; rfl
    · have := handleNumT_quiet s
      cases h1 : s.handleNumT with
      | error k => rw [h1] at h; cases h; exact this k h1
      | ok a => rw [h1] at h; cases h
    · cases h
    · cases h

/-- **the tokenizer machine never ends in a run-time fault or in the no-progress state**: every prior
instance state, every configuration of the tokenizer profile (old or repaired switch), input, chunking -/
theorem call_quiet_tok_ref (prev : St) (chunks : List Bytes) (e : Err)
    (h : call refTables cfg prev chunks = .error e) : e.kind.isFault = false := by
  have tail : ∀ cs e, (match runChunks refTables cfg (prev.entry cfg) {} cs with
        | .error e => (.error e : Except Err Out)
        | .ok (s, p) => finish refTables cfg s p) = .error e → e.kind.isFault = false := by
    intro cs e he
    cases h1 : runChunks refTables cfg (prev.entry cfg) {} cs with
    | error e' => rw [h1] at he; cases he; exact runChunksT_quiet cfg ht cs _ _ _ h1
    | ok x => obtain ⟨s1, p1⟩ := x; rw [h1] at he; exact finishT_quiet cfg ht s1 p1 e he
  rw [call_ref] at h
  unfold callWith at h
  simp only [] at h
  split at h
  · exact finishT_quiet cfg ht _ _ e h
  · split at h
    · cases h; rfl
    · exact tail _ e h
    · exact tail _ e h

end tokChain

end OjgVerif.Sen
