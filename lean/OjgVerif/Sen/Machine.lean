import OjgVerif.Json.Machine
/-! # Model of the table-driven SEN machines: `sen.Parser` (sen/parser.go) and `sen.Tokenizer`
(sen/tokenizer.go)

One Lean branch per Go `case`, one byte at a time. The tables are a parameter (`Tables`);
`OjgVerif.Sen.Tables` instantiates them with the regenerated `Gen.Sen` data. The number accumulator
is the shared model of `gen.Number` (`OjgVerif.Json.Num`).

The core machine (`step`) knows nothing about line/column: it answers, for every byte, the next state
and whether the byte was counted as a newline; `runBytes` keeps the position the way the Go code
does (`off` relative to the current read buffer, `noff` never rebased between buffers — the sen suite
pins that).

Fast paths of `parseBuffer`/`tokenizeBuffer` that are NOT equivalent to the byte-at-a-time reading
are carried explicitly (they only apply while the bytes are in the same read buffer, so they make
the outcome depend on the chunking; `Cfg` can switch each of them off, which gives the "repaired"
machine the chunk-independence theorem is about):

* `fastInt`  – the parser's integer loop goes over to text as soon as `BigLimit <= I`
               (19-digit integers from 9223372036854775800 up become `json.Number`; pinned by the suite);
* `tokSlow`  – a token that is complete inside one buffer is ended by `addTokenWith` and the ending
               byte is read AGAIN in the new mode; a token that straddles a buffer boundary is ended by
               the `tokenMap` action of the ending byte (`{a,:1}`, `[a:1]`, `{a}` differ);
* `nlSkip`   – (BEFORE 7b94de8; off now) after a newline the skip loop passed every byte that `spaceMap`
               skips, whatever the current mode was (`,` is not skipped in `colonMap`/`plusMap`: `{a\n,:1}`).

Run-time faults of the Go code (failed type assertion, index out of range, nil-map write) are the
error kind `fault`; a transition that would not consume input is `hang`. -/
namespace OjgVerif.Sen
open OjgVerif
open OjgVerif.Json (Num NumRes BigLimit hexDigitVal utf8Enc BomRes bomRule bomRuleReader topUp)

inductive Mode where
  | value | token | colon | neg | zero | digit | dot | frac | expSign | expZero | exp | string | esc | u
  | plus | space | commentStart | comment | ccomment | ccommentEnd
  deriving DecidableEq, Repr, Inhabited

def Mode.all : List Mode :=
  [.value, .token, .colon, .neg, .zero, .digit, .dot, .frac, .expSign, .expZero, .exp, .string, .esc, .u,
   .plus, .space, .commentStart, .comment, .ccomment, .ccommentEnd]

inductive Act where
  | skipChar | skipNewline | valSlash | openParen | valPlus | valNeg | val0 | valDigit | valQuote
  | tokenStart | openArray | openObject | closeArray | closeObject | closeParen | colonColon | numSpc
  | numNewline | numDot | tokenOk | numFrac | fracE | expSign | expDigit | strQuote | negDigit | strSlash
  | escOk | uOk | tokenSpc | tokenColon | tokenNlColon | numDigit | numZero | strOk | escU | commentStart
  | ccommentStart | ccommentEnd | cskipChar | cskipNewline | commentEnd | charErr | unknown
  deriving DecidableEq, Repr, Inhabited

/-- the 257th byte of a mode table -/
inductive EndMark where
  | absent        -- 256 entries: input may not end here
  | v | t | n | s | c | cc | other
  deriving DecidableEq, Repr, Inhabited

/-- the length tests of the byte-order-mark handling of one front-end (regenerated from the source) -/
structure BomBounds where
  readerLoop : Nat := 4     -- `cnt < 4` of the loop "a BOM has to be seen whole" (ParseReader / Load)
  readerDetect : Nat := 3   -- `3 < len(buf)` of the BOM test of the reader entry point
  bytesDetect : Nat := 3    -- `3 < len(buf)` of the BOM test of the `[]byte` entry point
  deriving DecidableEq, Repr, Inhabited

structure Tables where
  act : Mode → UInt8 → Act
  fin : Mode → EndMark
  escByte : UInt8 → UInt8
  bomP : BomBounds := {}    -- sen.Parser.Parse / ParseReader
  bomT : BomBounds := {}    -- sen.Tokenizer.Parse / Load

/-- entries of the parser's build stack `p.stack` -/
inductive Item where
  | val (v : JV)
  | key (k : Bytes)                    -- `gen.Key`
  | arrMark                            -- `emptySlice` placeholder of an open array
  | fnMark (name : Bytes)              -- the `TokenFunc` of an open token function (by name)
  | obj (kvs : List (Bytes × JV))      -- the map of an open object
  deriving Inhabited

/-- a stack entry seen as a value (`copy(n, p.stack[start:])`, `p.stack[0]`). A `gen.Key` that leaks
into a result is written `.num k` (rendered `N(..)`; the harness renders `gen.Key` the same way). -/
def Item.toJV : Item → JV
  | .val v => v
  | .key k => .num k
  | .arrMark => .arr []
  | .fnMark _ => .num []
  | .obj kvs => .obj kvs

/-- tokenizer callbacks -/
inductive Ev where
  | objStart | objEnd | arrStart | arrEnd
  | key (k : Bytes)
  | val (v : JV)
  deriving Inhabited

inductive ErrKind where
  | byte          -- "unexpected character"
  | colon         -- "expected a colon"
  | number        -- "invalid number"
  | strChar       -- "invalid JSON character"
  | escape        -- "invalid JSON escape character"
  | unicode       -- "invalid JSON unicode character"
  | extra         -- "extra characters after close"
  | objClose | arrClose | fnClose
  | notClosed | incomplete | expectedKey | bom
  | expectedValue   -- "expected a value": `}` while a member name waits for its value
  | plusNoString    -- "expected a string before '+'"
  | fault (what : String)
  | hang
  deriving DecidableEq, Repr, Inhabited

def ErrKind.isFault : ErrKind → Bool
  | .fault _ => true
  | .hang => true
  | _ => false

structure Err where
  line : Nat
  col : Int
  kind : ErrKind
  feat : List Char := []     -- the pinned deviations the run went through before it failed
  plus : Bool := false       -- the `plus` flag the Parser is left with
  lastStrKey : Bytes := []   -- and the key it would join to
  lastKey : Bytes := []      -- the last member name stored (a later `+` copies it into `lastStrKey`)
  deriving Repr, Inhabited

structure Cfg where
  tokenizer : Bool := false     -- sen.Tokenizer instead of sen.Parser
  onlyOne : Bool := true
  reader : Bool := false        -- io.Reader entry point
  /-- the registered token functions (`AddTokenFunc`); `none` = `defaultTokenFunc` -/
  fn : Bytes → Option (List JV → JV) := fun _ => none
  fastInt : Bool := true
  tokSlow : Bool := true
  -- the skip loop after a newline tested `spaceMap` whatever the mode (repaired by 7b94de8: it now tests
  -- the table of the current mode, which is what the byte-at-a-time reading does)
  nlSkip : Bool := false
  -- the code BEFORE a repair, kept for the `_before` witnesses (all off = the code as it is):
  keepPlus : Bool := false       -- before ece2934: Parse/ParseReader did not reset `plus` and `lastStrKey`
  plusFault : Bool := false      -- before 285bbf9: unchecked type assertions in the `+` branch of addString
  missingValue : Bool := false   -- before 546d576: `}` while a member name waits for its value was accepted
  tkOld : Bool := false          -- before f233b47: sen.Tokenizer had no quoteDelim, no C-comment cases, no
                                 -- `continue` in commentEnd
  keepExkey : Bool := false      -- before f540857: Tokenizer.Parse/Load did not reset `exkey`

structure St where
  mode : Mode := .value
  starts : List (Option Nat) := []   -- innermost first; `none` = object (-1), `some i` = `len(p.stack)` at '[' or '('
  stack : List Item := []            -- build stack, top first
  docs : List JV := []               -- values delivered so far, newest first
  evs : List Ev := []                -- tokenizer callbacks so far, newest first
  exkey : Bool := false              -- tokenizer: a member name is expected
  tmp : Bytes := []                  -- pending string/token bytes, newest first
  ri : Nat := 0
  rn : Nat := 0
  num : Num := {}
  quoteDelim : UInt8 := 0
  plus : Bool := false
  lastKey : Bytes := []
  lastStrKey : Bytes := []
  feat : List Char := []             -- which pinned deviations the run went through (for the harness)
  deriving Inhabited

/-- where the fast paths of `parseBuffer` stand; they end with the read buffer -/
structure Fast where
  inFast : Bool := false             -- inside the integer loop that `valDigit` starts
  tokFast : Bool := false            -- the pending token started in the current buffer
  nlSkipping : Bool := false         -- inside the skip loop after a newline
  deriving Inhabited, DecidableEq

def St.addFeat (s : St) (c : Char) : St :=
  if s.feat.contains c then s else { s with feat := c :: s.feat }

/-- what a bare token stands for (`switch s { case "null": … }`) -/
def tokenValue (t : Bytes) : JV :=
  if t = [110, 117, 108, 108] then .null
  else if t = [116, 114, 117, 101] then .bool true
  else if t = [102, 97, 108, 115, 101] then .bool false
  else .str t

def kvLookup (k : Bytes) : List (Bytes × JV) → Option JV
  | [] => none
  | (k', v) :: r => if k' = k then some v else kvLookup k r

variable (T : Tables) (cfg : Cfg)

def fault {α : Type} (w : String) : Except ErrKind α := .error (.fault w)

/-! ## sen.Parser helpers -/

/-- store `n` under the key on top of the stack (object context) -/
def St.setMember (s : St) (n : JV) : Except ErrKind St :=
  match s.stack with
  | .key k :: below =>
    match below with
    | .obj kvs :: rest => .ok { s with stack := .obj (kvInsert k n kvs) :: rest, lastKey := k }
    | [] => fault "index out of range"
    | _ => fault "assignment to entry in nil map"
  | _ => .error .expectedKey      -- not reached: callers test for the key first

def topIsKey : List Item → Bool
  | .key _ :: _ => true
  | _ => false

/-- `p.add(n, off)` -/
def St.add (s : St) (n : JV) : Except ErrKind St :=
  match s.starts with
  | none :: _ =>
    match s.stack with
    | [] => fault "index out of range"
    | _ =>
      if topIsKey s.stack then ({ s with mode := .value } : St).setMember n
      else .error .expectedKey
  | _ => .ok { s with mode := .value, stack := .val n :: s.stack }

/-- `_ = p.add(n, off)`: the error is dropped, a run-time fault is not -/
def St.addIgnore (s : St) (n : JV) : Except ErrKind St :=
  match s.add n with
  | .ok s' => .ok s'
  | .error e => if e.isFault then .error e else .ok { s with mode := .value }

/-- `p.addToken(off)` / `p.addTokenWith(s, off)` -/
def St.addTokenP (s : St) (tok : Bytes) : Except ErrKind St :=
  match s.starts with
  | none :: _ =>
    match s.stack with
    | [] => fault "index out of range"
    | _ =>
      if topIsKey s.stack then ({ s with mode := .value } : St).setMember (tokenValue tok)
      else .ok { s with mode := .colon, stack := .key tok :: s.stack }
  | _ => .ok { s with mode := .value, stack := .val (tokenValue tok) :: s.stack }

/-- `p.addString(s, off)`: after a `+` the previous value has to be a string ("expected a string before
'+'" otherwise; the flag is cleared first) -/
def St.addStringP (s : St) (str : Bytes) : Except ErrKind St :=
  match s.starts with
  | none :: _ =>
    if s.plus then
      match s.stack with
      | [] => fault "index out of range"
      | .obj kvs :: rest =>
        match kvLookup s.lastStrKey kvs with
        | some (.str prev) =>
          .ok { s with mode := .value, stack := .obj (kvInsert s.lastStrKey (.str (prev ++ str)) kvs) :: rest,
                       lastStrKey := [], plus := false }
        | _ => .error .plusNoString
      | _ => .error .plusNoString
    else
      match s.stack with
      | [] => fault "index out of range"
      | _ =>
        if topIsKey s.stack then ({ s with mode := .value } : St).setMember (.str str)
        else .ok { s with mode := .colon, stack := .key str :: s.stack }
  | _ =>
    if s.plus then
      match s.stack with
      | .val (.str prev) :: rest => .ok { s with mode := .value, stack := .val (.str (prev ++ str)) :: rest, plus := false }
      | _ => .error .plusNoString
    else .ok { s with mode := .value, stack := .val (.str str) :: s.stack }

/-- `p.addString(s, off)` BEFORE 285bbf9: unchecked type assertions after a `+` -/
def St.addStringPOld (s : St) (str : Bytes) : Except ErrKind St :=
  match s.starts with
  | none :: _ =>
    if s.plus then
      match s.stack with
      | [] => fault "index out of range"
      | .obj kvs :: rest =>
        match kvLookup s.lastStrKey kvs with
        | some (.str prev) =>
          .ok { s with mode := .value, stack := .obj (kvInsert s.lastStrKey (.str (prev ++ str)) kvs) :: rest,
                       lastStrKey := [], plus := false }
        | _ => fault "interface conversion: not a string (+ in an object)"
      | _ => fault "interface conversion: not a string (+ in an object)"
    else
      match s.stack with
      | [] => fault "index out of range"
      | _ =>
        if topIsKey s.stack then ({ s with mode := .value } : St).setMember (.str str)
        else .ok { s with mode := .colon, stack := .key str :: s.stack }
  | _ =>
    if s.plus then
      match s.stack with
      | [] => .ok { s with mode := .value, plus := false }
      | .val (.str prev) :: rest => .ok { s with mode := .value, stack := .val (.str (prev ++ str)) :: rest, plus := false }
      | _ => fault "interface conversion: not a string (+)"
    else .ok { s with mode := .value, stack := .val (.str str) :: s.stack }

/-- the pending number or token is added before a bracket, a brace or a comment
(`if 256 < len(p.mode) { switch p.mode[256] { case 'n': …; case 't': … } }`) -/
def St.flushP (s : St) : Except ErrKind St :=
  match T.fin s.mode with
  | .n => s.add s.num.asNum.toJV
  | .t => s.addTokenP s.tmp.reverse
  | _ => .ok s

/-- the same before `]` and `)`: `switch p.mode[256]` without the length test, the error of `add`
dropped -/
def St.flushCloseP (s : St) : Except ErrKind St :=
  match T.fin s.mode with
  | .absent => fault "index out of range [256]"
  | .n => s.addIgnore s.num.asNum.toJV
  | .t => s.addTokenP s.tmp.reverse
  | _ => .ok s

/-- `p.stack[start:]` (in document order), the entry at `start-1`, and `p.stack[0:start-1]` -/
def splitStack (stack : List Item) (idx : Nat) : Option (List JV × Item × List Item) :=
  if stack.length < idx + 1 then none
  else
    match stack.drop (stack.length - (idx + 1)) with
    | mark :: below => some (((stack.take (stack.length - (idx + 1))).map Item.toJV).reverse, mark, below)
    | [] => none

/-- `defaultTokenFunc` -/
def defaultFn (args : List JV) : JV :=
  match args with
  | a :: _ => a
  | [] => .null

/-- the document at the bottom of the stack goes to the result / the callback -/
def deliverP (s : St) : Except ErrKind St :=
  match s.stack.getLast? with
  | none => fault "index out of range [0]"
  | some it => .ok { s with docs := it.toJV :: s.docs, stack := [], mode := if cfg.onlyOne then .space else .value }

/-- A number or token that is complete at depth 0 but ended by `/`, `[` or `{` is pushed and NOT
delivered (these cases end with `continue` or leave a mode without end marker): it stays on the stack
below whatever follows, and only `p.stack[0]` is ever returned (`1[]` gives 1, `1//c` gives nil).
The model follows the code; the run is marked. -/
def St.undelivered (s : St) : St :=
  if s.starts.isEmpty && !s.stack.isEmpty then s.addFeat 's' else s

def startP (s : St) (idx : Nat) (m : Item) : St :=
  { s with starts := some idx :: s.starts, stack := m :: s.stack, mode := .value }

/-- the `switch p.mode[b]` of `sen.Parser.parseBuffer`. Result: next state, "the case ends with
`continue`", "the byte was counted as a newline". -/
def stepActP (s : St) (inFast : Bool) (b : UInt8) : Except ErrKind (St × Bool × Bool) :=
  match T.act s.mode b with
  | .skipNewline => .ok (s, true, true)
  | .cskipNewline => .ok ({ s with mode := .ccomment }, true, true)
  | .tokenStart =>
    if T.act .token b = .tokenOk then
      .ok ({ s with tmp := [b], mode := .token }, true, false)
    else .error .hang     -- `addTokenWith("")`, `off--`: the same byte again
  | .strOk => .ok ({ s with tmp := b :: s.tmp }, false, false)
  | .colonColon => .ok ({ s with mode := .value }, true, false)
  | .skipChar => .ok (s, true, false)
  | .cskipChar => .ok ({ s with mode := .ccomment }, true, false)
  | .openObject => do
    let s1 ← s.flushP T
    let s2 := s1.undelivered
    pure ({ s2 with starts := none :: s2.starts, stack := .obj [] :: s2.stack }, true, false)
  | .closeObject =>
    match s.starts with
    | none :: rest => do
      let s1 ← s.flushP T
      match s1.stack with
      | [] => fault "index out of range [-1]"
      | top :: below => do
        -- a member name without a value (`{a:}`) is "expected a value". BEFORE 546d576 the `gen.Key` on top
        -- was popped in place of the map and added as if it were the finished object (marked 'v')
        if topIsKey s1.stack && !cfg.missingValue then .error .expectedValue
        else do
          let s1' := if topIsKey s1.stack then s1.addFeat 'v' else s1
          let s2 ← ({ s1' with starts := rest, stack := below } : St).add top.toJV
          pure (s2, false, false)
    | _ => .error .objClose
  | .valDigit =>
    .ok ({ s with mode := .digit, num := { s.num.reset with i := (b - 48).toUInt64 } }, false, false)
  | .valQuote => .ok ({ s with quoteDelim := b, tmp := [], mode := .string }, true, false)
  | .numSpc => do
    let s1 ← s.add s.num.asNum.toJV
    pure (s1, false, false)
  | .strSlash => .ok ({ s with mode := .esc }, true, false)
  | .escOk => .ok ({ s with tmp := T.escByte b :: s.tmp, mode := .string }, true, false)
  | .val0 => .ok ({ s with mode := .zero, num := s.num.reset }, false, false)
  | .valNeg => .ok ({ s with mode := .neg, num := { s.num.reset with neg := true } }, true, false)
  | .escU => .ok ({ s with mode := .u, rn := 0, ri := 0 }, true, false)
  | .openArray => do
    let s1 ← s.flushP T
    let s2 := s1.undelivered
    pure (startP s2 s2.stack.length .arrMark, true, false)
  | .closeArray =>
    match s.starts with
    | some idx :: rest => do
      let s1 ← s.flushCloseP T
      match splitStack s1.stack idx with
      | none => fault "slice bounds out of range"
      | some (elems, _, below) => do
        let s2 ← ({ s1 with starts := rest, stack := below } : St).add (.arr elems)
        pure ({ s2 with mode := .value }, false, false)
    | _ => .error .arrClose
  | .numDot =>
    if 0 < s.num.big.length then
      .ok ({ s with num := { s.num with big := s.num.big ++ [b] }, mode := .dot }, true, false)
    else .ok ({ s with mode := .frac }, false, false)
  | .numFrac => .ok ({ s with num := s.num.addFrac b, mode := .frac }, false, false)
  | .fracE =>
    .ok ({ s with num := if 0 < s.num.big.length then { s.num with big := s.num.big ++ [b] } else s.num,
                  mode := .expSign }, true, false)
  | .tokenOk => .ok ({ s with tmp := b :: s.tmp }, false, false)
  | .tokenSpc => do
    let s1 ← s.addTokenP s.tmp.reverse
    pure (s1, false, false)
  | .tokenColon => do
    let s1 ← s.addTokenP s.tmp.reverse
    pure ({ s1 with mode := .value }, false, false)
  | .tokenNlColon => do
    let s1 ← s.addTokenP s.tmp.reverse
    pure (s1, false, true)
  | .valPlus =>
    .ok (({ s with mode := .plus, plus := true, lastStrKey := s.lastKey } : St).addFeat 'p', false, false)
  | .strQuote =>
    if b = s.quoteDelim then do
      let s1 ← (if cfg.plusFault then s.addStringPOld s.tmp.reverse else s.addStringP s.tmp.reverse)
      pure (s1, false, false)
    else .ok ({ s with tmp := b :: s.tmp }, false, false)
  | .numZero => .ok ({ s with mode := .zero }, false, false)
  | .numDigit =>
    -- inside the integer loop (digits after the first one in the same read buffer) the switch to text
    -- happens as soon as `BigLimit <= I`, one digit earlier than `AddDigit` would (pinned: the suite
    -- expects 9223372036854775807 as json.Number)
    .ok ({ s with
      num := if inFast then
               (if BigLimit ≤ s.num.i then s.num.fillBig.addDigit b
                else { s.num with i := s.num.i * 10 + (b - 48).toUInt64 })
             else s.num.addDigit b,
      feat := if inFast && BigLimit ≤ s.num.i && s.num.i.toNat * 10 + (b - 48).toNat ≤ 9223372036854775807
              then (s.addFeat 'i').feat else s.feat }, false, false)
  | .negDigit => .ok ({ s with num := s.num.addDigit b, mode := .digit }, false, false)
  | .numNewline => do
    let s1 ← s.add s.num.asNum.toJV
    pure ({ s1 with mode := .value }, false, true)
  | .expSign =>
    .ok ({ s with mode := .expZero,
                  num := { s.num with big := if 0 < s.num.big.length then s.num.big ++ [b] else s.num.big,
                                      negExp := s.num.negExp || b = 45 } }, true, false)
  | .expDigit => .ok ({ s with num := s.num.addExp b, mode := .exp }, false, false)
  | .uOk =>
    .ok ({ s with ri := s.ri + 1, rn := s.rn * 16 + hexDigitVal b,
                  tmp := if s.ri + 1 = 4 then (utf8Enc (s.rn * 16 + hexDigitVal b)).reverse ++ s.tmp else s.tmp,
                  mode := if s.ri + 1 = 4 then .string else s.mode }, true, false)
  | .valSlash => do
    let s1 ← s.flushP T
    let s2 := s1.undelivered
    pure ({ s2 with mode := .commentStart }, false, false)
  | .commentStart => .ok ({ s with mode := .comment }, false, false)
  | .commentEnd => .ok ({ s with mode := .value }, true, false)
  | .ccommentStart => .ok ({ s with mode := .ccomment }, false, false)
  | .ccommentEnd => .ok ({ s with mode := .ccommentEnd }, false, false)
  | .openParen =>
    .ok ((startP s s.stack.length (.fnMark s.tmp.reverse)).addFeat 'f', true, false)
  | .closeParen =>
    match s.starts with
    | some idx :: rest => do
      let s1 ← s.flushCloseP T
      match splitStack s1.stack idx with
      | none => fault "slice bounds out of range"
      | some (args, .fnMark name, below) =>
        let v := match cfg.fn name with
          | some f => f args
          | none => defaultFn args
        do
          let s2 ← ({ s1 with starts := rest, stack := below } : St).addIgnore v
          pure (({ s2 with mode := .value } : St).addFeat 'f', false, false)
      | some _ => .error .byte       -- `tf == nil`: "unexpected character ')'"
    | _ => .error .fnClose
  | .charErr =>
    .error (match s.mode with
      | .colon => .colon
      | .neg | .zero | .digit | .dot | .frac | .expSign | .expZero | .exp => .number
      | .string => .strChar
      | .esc => .escape
      | .u => .unicode
      | .space => .extra
      | _ => .byte)
  | .unknown => .ok (s, false, false)

/-! ## sen.Tokenizer helpers -/

def topIsObj : List (Option Nat) → Bool
  | none :: _ => true
  | _ => false

def St.emit (s : St) (e : Ev) : St := { s with evs := e :: s.evs }

/-- `t.handleNum(off)` -/
def St.handleNumT (s : St) : Except ErrKind St :=
  if s.exkey then .error .expectedKey
  else .ok (({ s with mode := .value, exkey := topIsObj s.starts } : St).emit (.val s.num.asNum.toJV))

/-- `t.addToken(s)` -/
def St.addTokenT (s : St) (tok : Bytes) : St :=
  if s.exkey then ({ s with mode := .colon, exkey := false } : St).emit (.key tok)
  else ({ s with mode := .value, exkey := topIsObj s.starts } : St).emit (.val (tokenValue tok))

/-- `t.addString(s)` -/
def St.addStringT (s : St) (str : Bytes) : St :=
  if s.exkey then ({ s with mode := .colon, exkey := false } : St).emit (.key str)
  else ({ s with mode := .value, exkey := topIsObj s.starts } : St).emit (.val (.str str))

def St.flushT (s : St) : Except ErrKind St :=
  match T.fin s.mode with
  | .n => s.handleNumT
  | .t => .ok (s.addTokenT s.tmp.reverse)
  | _ => .ok s

def St.flushCloseT (s : St) : Except ErrKind St :=
  match T.fin s.mode with
  | .absent => fault "index out of range [256]"
  | .n => s.handleNumT
  | .t => .ok (s.addTokenT s.tmp.reverse)
  | _ => .ok s

/-- the `switch t.mode[b]` of `sen.Tokenizer.tokenizeBuffer`. Table codes the switch has no `case`
for (`valPlus`, `openParen`, `closeParen`) fall through it: nothing happens. -/
def stepActT (s : St) (b : UInt8) : Except ErrKind (St × Bool × Bool) :=
  match T.act s.mode b with
  | .skipNewline => .ok (s, true, true)
  | .tokenStart =>
    if T.act .token b = .tokenOk then
      .ok ({ s with tmp := [b], mode := .token }, true, false)
    else .error .hang
  | .strOk => .ok ({ s with tmp := b :: s.tmp }, false, false)
  | .colonColon => .ok ({ s with mode := .value }, true, false)
  | .skipChar => .ok (s, true, false)
  | .openObject => do
    let s1 ← s.flushT T
    if s1.exkey then .error .expectedKey
    else pure (({ s1 with starts := none :: s1.starts, exkey := true } : St).emit .objStart, true, false)
  | .closeObject =>
    match s.starts with
    | none :: rest => do
      let s1 ← s.flushT T
      -- `{a:}`: a member name without a value is "expected a value" (accepted BEFORE 546d576, marked 'v')
      if !s1.exkey && !cfg.missingValue then .error .expectedValue
      else
        let s1' := if s1.exkey then s1 else s1.addFeat 'v'
        pure (({ s1' with starts := rest, exkey := topIsObj rest } : St).emit .objEnd, false, false)
    | _ => .error .objClose
  | .valDigit =>
    .ok ({ s with mode := .digit, num := { s.num.reset with i := (b - 48).toUInt64 } }, false, false)
  | .valQuote => .ok ({ s with quoteDelim := b, tmp := [], mode := .string }, true, false)
  | .numSpc => do
    let s1 ← s.handleNumT
    pure (s1, false, false)
  | .strSlash => .ok ({ s with mode := .esc }, true, false)
  | .escOk => .ok ({ s with tmp := T.escByte b :: s.tmp, mode := .string }, true, false)
  | .val0 => .ok ({ s with mode := .zero, num := s.num.reset }, false, false)
  | .valNeg => .ok ({ s with mode := .neg, num := { s.num.reset with neg := true } }, true, false)
  | .escU => .ok ({ s with mode := .u, rn := 0, ri := 0 }, true, false)
  | .openArray => do
    let s1 ← s.flushT T
    if s1.exkey then .error .expectedKey
    else pure (({ s1 with starts := some 0 :: s1.starts, mode := .value } : St).emit .arrStart, true, false)
  | .closeArray =>
    match s.starts with
    | some _ :: rest => do
      let s1 ← s.flushCloseT T
      pure (({ s1 with starts := rest, exkey := topIsObj rest, mode := .value } : St).emit .arrEnd, false, false)
    | _ => .error .arrClose
  | .numDot =>
    if 0 < s.num.big.length then
      .ok ({ s with num := { s.num with big := s.num.big ++ [b] }, mode := .dot }, true, false)
    else .ok ({ s with mode := .frac }, false, false)
  | .numFrac => .ok ({ s with num := s.num.addFrac b, mode := .frac }, false, false)
  | .fracE =>
    .ok ({ s with num := if 0 < s.num.big.length then { s.num with big := s.num.big ++ [b] } else s.num,
                  mode := .expSign }, true, false)
  | .tokenOk => .ok ({ s with tmp := b :: s.tmp }, false, false)
  | .tokenSpc => .ok (s.addTokenT s.tmp.reverse, false, false)
  | .tokenColon => .ok ({ (s.addTokenT s.tmp.reverse) with mode := .value }, false, false)
  | .tokenNlColon => .ok (s.addTokenT s.tmp.reverse, false, true)
  | .strQuote =>
    -- BEFORE f233b47 there was no `quoteDelim` in the tokenizer: either quote ended the string (marked 'q')
    if cfg.tkOld then .ok ((if b = s.quoteDelim then s else s.addFeat 'q').addStringT s.tmp.reverse, false, false)
    else if b = s.quoteDelim then .ok (s.addStringT s.tmp.reverse, false, false)
    else .ok ({ s with tmp := b :: s.tmp }, false, false)
  | .numZero => .ok ({ s with mode := .zero }, false, false)
  | .numDigit => .ok ({ s with num := s.num.addDigit b }, false, false)
  | .negDigit => .ok ({ s with num := s.num.addDigit b, mode := .digit }, false, false)
  | .numNewline => do
    let s1 ← s.handleNumT
    pure ({ s1 with mode := .value }, false, true)
  | .expSign =>
    .ok ({ s with mode := .expZero,
                  num := { s.num with big := if 0 < s.num.big.length then s.num.big ++ [b] else s.num.big,
                                      negExp := s.num.negExp || b = 45 } }, true, false)
  | .expDigit => .ok ({ s with num := s.num.addExp b, mode := .exp }, false, false)
  | .uOk =>
    .ok ({ s with ri := s.ri + 1, rn := s.rn * 16 + hexDigitVal b,
                  tmp := if s.ri + 1 = 4 then (utf8Enc (s.rn * 16 + hexDigitVal b)).reverse ++ s.tmp else s.tmp,
                  mode := if s.ri + 1 = 4 then .string else s.mode }, true, false)
  | .valSlash => do
    let s1 ← s.flushT T
    pure ({ s1 with mode := .commentStart }, false, false)
  | .commentStart => .ok ({ s with mode := .comment }, false, false)
  | .commentEnd =>
    -- BEFORE f233b47 there was no `continue`: the end-of-document test ran and, with OnlyOne, left value mode
    if cfg.tkOld then
      .ok ((if s.starts.isEmpty && cfg.onlyOne then ({ s with mode := .value } : St).addFeat 'e' else { s with mode := .value }),
           false, false)
    else .ok ({ s with mode := .value }, true, false)
  | .charErr =>
    .error (match s.mode with
      | .colon => .colon
      | .neg | .zero | .digit | .dot | .frac | .expSign | .expZero | .exp => .number
      | .string => .strChar
      | .esc => .escape
      | .u => .unicode
      | .space => .extra
      | _ => .byte)
  -- no `case` in tokenizeBuffer:
  | .valPlus => .ok (s.addFeat 'p', false, false)
  | .openParen => .ok (s.addFeat 'f', false, false)
  | .closeParen => .ok (s.addFeat 'f', false, false)
  -- the C-comment cases (no `case` BEFORE f233b47: they fell through the switch, marked 'c')
  | .ccommentStart => if cfg.tkOld then .ok (s.addFeat 'c', false, false) else .ok ({ s with mode := .ccomment }, false, false)
  | .ccommentEnd => if cfg.tkOld then .ok (s.addFeat 'c', false, false) else .ok ({ s with mode := .ccommentEnd }, false, false)
  | .cskipChar => if cfg.tkOld then .ok (s.addFeat 'c', false, false) else .ok ({ s with mode := .ccomment }, true, false)
  | .cskipNewline => if cfg.tkOld then .ok (s.addFeat 'c', false, false) else .ok ({ s with mode := .ccomment }, true, true)
  | .unknown => .ok (s, false, false)

/-! ## one byte -/

/-- after the switch: `if depth == 0 && 256 < len(p.mode) && p.mode[256] == 'v'` -/
def deliver (s : St) : Except ErrKind St :=
  if s.starts.isEmpty && T.fin s.mode = .v then
    if cfg.tokenizer then .ok { s with mode := if cfg.onlyOne then .space else .value }
    else deliverP cfg s
  else .ok s

def stepAct (s : St) (inFast : Bool) (b : UInt8) : Except ErrKind (St × Bool × Bool) :=
  if cfg.tokenizer then stepActT T cfg s b else stepActP T cfg s inFast b

/-- how the case taken moves the fast paths (`a` = the table action, `i` = `p.num.I` before the byte) -/
def nextFast (a : Act) (i : UInt64) (f : Fast) : Fast :=
  match a with
  | .skipNewline => { inFast := false, tokFast := f.tokFast, nlSkipping := cfg.nlSkip }
  | .tokenNlColon => { inFast := false, tokFast := f.tokFast, nlSkipping := cfg.nlSkip }
  | .numNewline => { inFast := false, tokFast := f.tokFast, nlSkipping := cfg.nlSkip }
  | .cskipNewline => { inFast := false, tokFast := f.tokFast, nlSkipping := cfg.nlSkip && !cfg.tokenizer }
  | .tokenStart => { inFast := false, tokFast := cfg.tokSlow, nlSkipping := false }
  | .valDigit => { inFast := cfg.fastInt && !cfg.tokenizer, tokFast := f.tokFast, nlSkipping := false }
  | .numDigit => { inFast := f.inFast && !(BigLimit ≤ i), tokFast := f.tokFast, nlSkipping := false }
  | _ => { inFast := false, tokFast := f.tokFast, nlSkipping := false }

/-- the switch, then the end-of-document test unless the case ended with `continue` -/
def stepCore (s : St) (f : Fast) (b : UInt8) : Except ErrKind (St × Fast × Bool) :=
  match stepAct T cfg s f.inFast b with
  | .error e => .error e
  | .ok (s1, cont, nl) =>
    if cont then .ok (s1, nextFast cfg (T.act s.mode b) s.num.i f, nl)
    else
      match deliver T cfg s1 with
      | .error e => .error e
      | .ok s2 => .ok (s2, nextFast cfg (T.act s.mode b) s.num.i f, nl)

def isWsNl (b : UInt8) : Bool := b = 32 || b = 9 || b = 13 || b = 10

/-- a token that is complete inside one read buffer: `addTokenWith`, the end-of-document test, and the
ending byte once more in the new mode (`off--`); `(` opens a token function -/
def tokenEndFast (s : St) (f : Fast) (b : UInt8) : Except ErrKind (St × Fast × Bool) :=
  if b = 40 && !cfg.tokenizer then
    .ok ((startP s s.stack.length (.fnMark s.tmp.reverse)).addFeat 'f', { f with tokFast := false }, false)
  else
    let r := if cfg.tokenizer then .ok (s.addTokenT s.tmp.reverse) else s.addTokenP s.tmp.reverse
    match r with
    | .error e => .error e
    | .ok s1 =>
      match deliver T cfg s1 with
      | .error e => .error e
      | .ok s2 => stepCore T cfg s2 { f with tokFast := false } b

/-- one byte of `parseBuffer` / `tokenizeBuffer`; `lastInBuf` = the byte is the last one of the read
buffer; the Boolean of the result is "counted as a newline" -/
def step (s : St) (f : Fast) (b : UInt8) (lastInBuf : Bool) : Except ErrKind (St × Fast × Bool) :=
  if f.nlSkipping && T.act .space b = .skipChar && !lastInBuf then
    -- `for i, b = range buf[off+1:] { if spaceMap[b] != skipChar { break } }; off += i`: when the loop
    -- runs to the end of the buffer its last byte is read again by the main loop
    .ok (if T.act s.mode b = .skipChar then s else s.addFeat 'm', f, false)
  else if s.mode = .token && T.act .token b ≠ .tokenOk && (f.tokFast || !cfg.tokSlow) then
    tokenEndFast T cfg s { f with nlSkipping := false } b
  else
    stepCore T cfg
      (if s.mode = .token && T.act .token b ≠ .tokenOk && !isWsNl b then s.addFeat 'k' else s)
      { f with nlSkipping := false } b

/-! ## positions, buffers, entry points -/

/-- `p.line`, `off` (relative to the current read buffer) and `p.noff` (never rebased) -/
structure Pos where
  line : Nat := 1
  off : Nat := 0
  noff : Int := -1
  deriving Repr, Inhabited

def Pos.err (p : Pos) (k : ErrKind) (feat : List Char := []) (plus : Bool := false) (lsk : Bytes := [])
    (lk : Bytes := []) : Err :=
  { line := p.line, col := (p.off : Int) - p.noff, kind := k, feat := feat, plus := plus, lastStrKey := lsk, lastKey := lk }

def Pos.next (p : Pos) (nl : Bool) : Pos :=
  if nl then { line := p.line + 1, off := p.off + 1, noff := p.off } else { p with off := p.off + 1 }

/-- deviations that show in the table cell alone (so that a run that fails on the very byte still
reports them) -/
def cellFeat (s : St) (b : UInt8) : St :=
  match T.act s.mode b with
  | .valPlus => s.addFeat 'p'
  | .openParen => s.addFeat 'f'
  | .closeParen => s.addFeat 'f'
  | .ccommentStart => if cfg.tokenizer && cfg.tkOld then s.addFeat 'c' else s
  | .ccommentEnd => if cfg.tokenizer && cfg.tkOld then s.addFeat 'c' else s
  | .cskipChar => if cfg.tokenizer && cfg.tkOld then s.addFeat 'c' else s
  | .cskipNewline => if cfg.tokenizer && cfg.tkOld then s.addFeat 'c' else s
  | _ => s

/-- the bytes of one read buffer -/
def runBytes (s : St) (f : Fast) (p : Pos) : Bytes → Except Err (St × Fast × Pos)
  | [] => .ok (s, f, p)
  | b :: r =>
    match step T cfg s f b r.isEmpty with
    | .error k => .error (p.err k (cellFeat T cfg s b).feat s.plus s.lastStrKey s.lastKey)
    | .ok (s', f', nl) => runBytes s' f' (p.next nl) r

/-- the read buffers one after the other: the fast paths end with the buffer, `off` restarts -/
def runChunks (s : St) (p : Pos) : List Bytes → Except Err (St × Pos)
  | [] => .ok (s, p)
  | c :: rest =>
    match runBytes T cfg s {} { p with off := 0 } c with
    | .error e => .error e
    | .ok (s', _, p') => runChunks s' p' rest

/-- what a call returns: documents (parser) or callbacks (tokenizer), the deviations met, and the
`plus` flag the Parser is left with -/
structure Out where
  docs : List JV
  evs : List Ev
  feat : List Char
  plus : Bool
  lastStrKey : Bytes := []
  lastKey : Bytes := []

/-- end of input (`last`). An error raised here carries the mark `z`: its column depends on a stale loop
variable of the Go fast paths and is not modelled (the harness compares kind and line only). -/
def finish (s : St) (p : Pos) : Except Err Out :=
  if !s.starts.isEmpty then .error (p.err .notClosed ('z' :: s.feat) s.plus s.lastStrKey s.lastKey)
  else
    match T.fin s.mode with
    | .absent => .error (p.err .incomplete ('z' :: s.feat) s.plus s.lastStrKey s.lastKey)
    | .n =>
      if cfg.tokenizer then
        match s.handleNumT with
        | .error k => .error (p.err k ('z' :: s.feat) s.plus s.lastStrKey s.lastKey)
        | .ok s' => .ok { docs := [], evs := s'.evs.reverse, feat := s'.feat, plus := s'.plus, lastStrKey := s'.lastStrKey, lastKey := s'.lastKey }
      else
        match s.addIgnore s.num.asNum.toJV with
        | .error k => .error (p.err k ('z' :: s.feat) s.plus s.lastStrKey s.lastKey)
        | .ok s' =>
          match s'.stack.getLast? with
          | none => .error (p.err (.fault "index out of range [0]") ('z' :: s.feat) s.plus s.lastStrKey s.lastKey)
          | some it => .ok { docs := (it.toJV :: s'.docs).reverse, evs := [], feat := s'.feat, plus := s'.plus, lastStrKey := s'.lastStrKey, lastKey := s'.lastKey }
    | .t =>
      if cfg.tokenizer then
        let s' := s.addTokenT s.tmp.reverse
        .ok { docs := [], evs := s'.evs.reverse, feat := s'.feat, plus := s'.plus, lastStrKey := s'.lastStrKey, lastKey := s'.lastKey }
      else
        match s.addTokenP s.tmp.reverse with
        | .error k => .error (p.err k ('z' :: s.feat) s.plus s.lastStrKey s.lastKey)
        | .ok s' =>
          match s'.stack.getLast? with
          | none => .error (p.err (.fault "index out of range [0]") ('z' :: s.feat) s.plus s.lastStrKey s.lastKey)
          | some it => .ok { docs := (it.toJV :: s'.docs).reverse, evs := [], feat := s'.feat, plus := s'.plus, lastStrKey := s'.lastStrKey, lastKey := s'.lastKey }
    | _ => .ok { docs := s.docs.reverse, evs := s.evs.reverse, feat := s.feat, plus := s.plus, lastStrKey := s.lastStrKey, lastKey := s.lastKey }

/-- The state a call starts from, given the state `prev` the previous call on the same instance left
behind: `Parse`/`ParseReader` (and `Tokenizer.Parse`/`Load`) reset `stack`, `tmp`, `starts`, `result`,
`noff`, `line`, `mode`, `mi`, and (since ece2934) `plus` and `lastStrKey` (and `cb`, `resultChan`, `OnlyOne`,
`num.Conv`, which are arguments of the call here), and (Tokenizer, since f540857) `exkey`; `ri`, `rn`, `num`,
`quoteDelim`, `lastKey` are NOT reset. -/
def St.entry (cfg : Cfg) (prev : St) : St :=
  { prev with mode := .value, starts := [], stack := [], docs := [], evs := [], tmp := [], feat := [],
              plus := if cfg.keepPlus then prev.plus else false,
              lastStrKey := if cfg.keepPlus then prev.lastStrKey else [],
              exkey := if cfg.keepExkey then prev.exkey else false }

/-- `for err == nil && 0 < cnt && cnt < n && buf[0] == 0xEF { read more }`: the reader entry points top the
first read up (`n` = 4 in the source: a BOM has to be seen whole) -/
def topUpAuxN (n : Nat) (acc : Bytes) : List Bytes → List Bytes
  | [] => [acc]
  | d :: rest =>
    if acc.length < n && acc.head? = some 0xEF then topUpAuxN n (acc ++ d) rest else acc :: d :: rest

def topUpN (n : Nat) : List Bytes → List Bytes
  | [] => []
  | c :: cs => topUpAuxN n c cs

/-- `if k < len(buf) && buf[0] == 0xEF && buf[1] == 0xBB && buf[2] == 0xBF { skip = 3 }` (reader entry points) -/
def bomRuleReaderN (k : Nat) (bs : Bytes) : BomRes :=
  match bs with
  | 0xEF :: 0xBB :: 0xBF :: r => if k < 3 + r.length then .strip r else .keep
  | _ => .keep

/-- `if k < len(buf) && buf[0] == 0xEF { if buf[1] == 0xBB && buf[2] == 0xBF { buf[3:] } else "expected BOM" }`
(`[]byte` entry points) -/
def bomRuleN (k : Nat) (bs : Bytes) : BomRes :=
  match bs with
  | 0xEF :: b1 :: b2 :: r =>
    if k < 3 + r.length then (if b1 = 0xBB && b2 = 0xBF then .strip r else .bad) else .keep
  | _ => .keep

/-- an entry point, given its BOM handling: `tu` tops the first read up, `brr` / `br` is the BOM test of
the reader / `[]byte` entry point -/
def callWith (tu : List Bytes → List Bytes) (brr br : Bytes → BomRes) (prev : St) (chunks : List Bytes) :
    Except Err Out :=
  let cs := if cfg.reader then tu (chunks.filter (!·.isEmpty)) else chunks
  match cs with
  | [] => finish T cfg (prev.entry cfg) {}
  | c :: rest =>
    match (if cfg.reader then brr c else br c) with
    | .bad => .error { line := 1, col := 3, kind := .bom }
    | .strip r =>
      match runChunks T cfg (prev.entry cfg) {} (r :: rest) with
      | .error e => .error e
      | .ok (s, p) => finish T cfg s p
    | .keep =>
      match runChunks T cfg (prev.entry cfg) {} (c :: rest) with
      | .error e => .error e
      | .ok (s, p) => finish T cfg s p

def Tables.bom (T : Tables) (cfg : Cfg) : BomBounds := if cfg.tokenizer then T.bomT else T.bomP

/-- entry point on an instance left in state `prev`: `chunks` are the successive read results (one
chunk for the `[]byte` entry points); the length tests of the BOM handling are the regenerated ones -/
def call (prev : St) (chunks : List Bytes) : Except Err Out :=
  callWith T cfg (topUpN (T.bom cfg).readerLoop) (bomRuleReaderN (T.bom cfg).readerDetect)
    (bomRuleN (T.bom cfg).bytesDetect) prev chunks

/-- a call on a fresh instance -/
def run (chunks : List Bytes) : Except Err Out := call T cfg {} chunks

end OjgVerif.Sen
