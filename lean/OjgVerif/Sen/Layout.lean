import OjgVerif.Sen.Writer
/-! # "The text is a white-space layout of the tree": an executable relation between a tree and a SEN text

`layVal o v t = some r`: a prefix of `t` is the token sequence the SEN writers produce for `v` under the options
`o` — the scalars as `appendSEN` writes them (`tightVal` on scalars: `null`, `true`, `false`, `strconv` integers, the
float text, `AppendSENString`), `[` … `]`, `{` name `:` value … `}`, members the writer passes over left out, in the
order given — with ANY amount of white space (blank, tab, newline, carriage return, comma: what `valueMap` skips)
after `[`, `{`, `:` and after every element or member, and AT LEAST ONE such byte between a scalar and the element
or member that follows it; `r` is what is left of `t`.

Every layout decision of a SEN writer (tight, indented by `Indent` or `Tab`, `pretty.SEN` with its width, depth and
alignment rules) only chooses that white space. The relation does not say HOW a writer chooses it: the
correspondence run asks for every text `pretty.SEN` / `pretty.WriteSEN` wrote whether it is such a layout
(driver op `laycheck`), and `Sen.C10_anylayout_partial` (Props/C10Layout.lean) proves that every such layout is read
back by `sen.Parser` as the document `nvVal o v`. -/
namespace OjgVerif.Sen
open OjgVerif

/-- the bytes `valueMap` skips: blank, tab, carriage return, comma (`skipChar`) and newline (`skipNewline`) -/
def isWsB (b : UInt8) : Bool := b = 32 || b = 9 || b = 13 || b = 44 || b = 10

def skipWs : Bytes → Bytes
  | [] => []
  | b :: r => if isWsB b then skipWs r else b :: r

def headWs : Bytes → Bool
  | [] => false
  | b :: _ => isWsB b

/-- `t` without the prefix `pre` -/
def stripPrefix : Bytes → Bytes → Option Bytes
  | [], t => some t
  | _ :: _, [] => none
  | a :: p, b :: t => if a = b then stripPrefix p t else none

/-- no member of the list is written -/
def allOmitted (o : WOpts) : List (Bytes × JV) → Bool
  | [] => true
  | (_, v) :: r => omitted o v && allOmitted o r

mutual
  def layVal (o : WOpts) : JV → Bytes → Option Bytes
    | .arr xs, t =>
      match t with
      | b :: r => if b = 91 then layElems o xs (skipWs r) else none
      | [] => none
    | .obj kvs, t =>
      match t with
      | b :: r => if b = 123 then layMembers o kvs (skipWs r) else none
      | [] => none
    | .null, t => stripPrefix [110, 117, 108, 108] t
    | .bool true, t => stripPrefix [116, 114, 117, 101] t
    | .bool false, t => stripPrefix [102, 97, 108, 115, 101] t
    | .int i, t => stripPrefix (fmtInt i) t
    | .flt x, t => stripPrefix x t
    | .big x, t => stripPrefix x t
    | .num x, t => stripPrefix x t
    | .str s, t => stripPrefix (senString s o.html) t
  /-- the elements and the closing bracket; the text stands at a byte that is not white space -/
  def layElems (o : WOpts) : List JV → Bytes → Option Bytes
    | [], t =>
      match t with
      | b :: r => if b = 93 then some r else none
      | [] => none
    | x :: xs, t =>
      match layVal o x t with
      | none => none
      | some r =>
        -- a scalar is followed by white space unless it is the last element
        if needSep x && !headWs r && !xs.isEmpty then none else layElems o xs (skipWs r)
  def layMembers (o : WOpts) : List (Bytes × JV) → Bytes → Option Bytes
    | [], t =>
      match t with
      | b :: r => if b = 125 then some r else none
      | [] => none
    | (k, v) :: kvs, t =>
      if omitted o v then layMembers o kvs t
      else
        match stripPrefix (senString k o.html) t with
        | none => none
        | some r1 =>
          match r1 with
          | c :: r2 =>
            if c = 58 then
              match layVal o v (skipWs r2) with
              | none => none
              | some r3 =>
                if needSep v && !headWs r3 && !allOmitted o kvs then none else layMembers o kvs (skipWs r3)
            else none
          | [] => none
end

/-- the whole text is a layout of the tree -/
def isLayout (o : WOpts) (v : JV) (t : Bytes) : Bool :=
  match layVal o v t with
  | some [] => true
  | _ => false

end OjgVerif.Sen
