import OjgVerif.Sen.Machine
import OjgVerif.Gen.Sen
import OjgVerif.Gen.SenFacts
/-! # The regenerated mode tables of `sen/maps.go` as `Tables`, and the readable reference
`expected` they are compared with (`TablesOK`). -/
namespace OjgVerif.Sen
open OjgVerif

/-- which `case` of the Go `switch` a table byte selects. The constants are the regenerated ones, so a
changed constant changes the decoding. (Go rejects duplicate constant cases, so the order is free.) -/
def decode (x : UInt8) : Act :=
  open OjgVerif.Gen.Sen in
  if x = skipChar then .skipChar
  else if x = skipNewline then .skipNewline
  else if x = valSlash then .valSlash
  else if x = openParen then .openParen
  else if x = valPlus then .valPlus
  else if x = valNeg then .valNeg
  else if x = val0 then .val0
  else if x = valDigit then .valDigit
  else if x = valQuote then .valQuote
  else if x = tokenStart then .tokenStart
  else if x = openArray then .openArray
  else if x = openObject then .openObject
  else if x = closeArray then .closeArray
  else if x = closeObject then .closeObject
  else if x = closeParen then .closeParen
  else if x = colonColon then .colonColon
  else if x = numSpc then .numSpc
  else if x = numNewline then .numNewline
  else if x = numDot then .numDot
  else if x = tokenOk then .tokenOk
  else if x = numFrac then .numFrac
  else if x = fracE then .fracE
  else if x = expSign then .expSign
  else if x = expDigit then .expDigit
  else if x = strQuote then .strQuote
  else if x = negDigit then .negDigit
  else if x = strSlash then .strSlash
  else if x = escOk then .escOk
  else if x = uOk then .uOk
  else if x = tokenSpc then .tokenSpc
  else if x = tokenColon then .tokenColon
  else if x = tokenNlColon then .tokenNlColon
  else if x = numDigit then .numDigit
  else if x = numZero then .numZero
  else if x = strOk then .strOk
  else if x = escU then .escU
  else if x = commentStart then .commentStart
  else if x = ccommentStart then .ccommentStart
  else if x = ccommentEnd then .ccommentEnd
  else if x = cskipChar then .cskipChar
  else if x = cskipNewline then .cskipNewline
  else if x = commentEnd then .commentEnd
  else if x = charErr then .charErr
  else .unknown

/-- the action codes are pairwise distinct (else the first matching `case` would shadow another) -/
def codeList : List UInt8 :=
  open OjgVerif.Gen.Sen in
  [skipChar, skipNewline, valSlash, openParen, valPlus, valNeg, val0, valDigit, valQuote, tokenStart,
   openArray, openObject, closeArray, closeObject, closeParen, colonColon, numSpc, numNewline, numDot,
   tokenOk, numFrac, fracE, expSign, expDigit, strQuote, negDigit, strSlash, escOk, uOk, tokenSpc,
   tokenColon, tokenNlColon, numDigit, numZero, strOk, escU, commentStart, ccommentStart, ccommentEnd,
   cskipChar, cskipNewline, commentEnd, charErr]

def decodeFin (t : Array UInt8) : EndMark :=
  if t.size ≤ 256 then .absent
  else
    let x := t.getD 256 0
    if x = 118 then .v else if x = 116 then .t else if x = 110 then .n else if x = 115 then .s
    else if x = 99 then .c else if x = 67 then .cc else .other

open OjgVerif.Gen in
def senTbl : Mode → Array UInt8
  | .value => Sen.valueMap | .token => Sen.tokenMap | .colon => Sen.colonMap | .neg => Sen.negMap
  | .zero => Sen.zeroMap | .digit => Sen.digitMap | .dot => Sen.dotMap | .frac => Sen.fracMap
  | .expSign => Sen.expSignMap | .expZero => Sen.expZeroMap | .exp => Sen.expMap
  | .string => Sen.stringMap | .esc => Sen.escMap | .u => Sen.uMap | .plus => Sen.plusMap
  | .space => Sen.spaceMap | .commentStart => Sen.commentStartMap | .comment => Sen.commentMap
  | .ccomment => Sen.ccommentMap | .ccommentEnd => Sen.ccommentEndMap

/-- the one bound the extractor found (0 = none or several: the source has a shape the model does not know) -/
def theBound : List Nat → Nat
  | [n] => n
  | _ => 0

/-- the machine over the regenerated `sen/maps.go` and the regenerated length tests of the BOM handling -/
def senTables : Tables where
  act m b := decode ((senTbl m).getD b.toNat 0)
  fin m := decodeFin (senTbl m)
  escByte b := OjgVerif.Gen.Sen.escByteMap.getD b.toNat 0
  bomP := { readerLoop := theBound OjgVerif.Gen.SenFacts.parserReaderBomLoop,
            readerDetect := theBound OjgVerif.Gen.SenFacts.parserReaderBomDetect,
            bytesDetect := theBound OjgVerif.Gen.SenFacts.parserParseBomDetect }
  bomT := { readerLoop := theBound OjgVerif.Gen.SenFacts.tokLoadBomLoop,
            readerDetect := theBound OjgVerif.Gen.SenFacts.tokLoadBomDetect,
            bytesDetect := theBound OjgVerif.Gen.SenFacts.tokParseBomDetect }

/-! ## The reference: transitions as byte predicates (no tables) -/

def isBlank (b : UInt8) : Bool := b = 32 || b = 9 || b = 13
/-- SEN treats the comma as white space -/
def isSep (b : UInt8) : Bool := isBlank b || b = 44
def isDigit (b : UInt8) : Bool := 48 ≤ b && b ≤ 57
def isDigit19 (b : UInt8) : Bool := 49 ≤ b && b ≤ 57
def isHex (b : UInt8) : Bool := (48 ≤ b && b ≤ 57) || (97 ≤ b && b ≤ 102) || (65 ≤ b && b ≤ 70)
def isE (b : UInt8) : Bool := b = 101 || b = 69
def isAlpha (b : UInt8) : Bool := (65 ≤ b && b ≤ 90) || (97 ≤ b && b ≤ 122)

/-- bytes that start a bare token: `$ * . < > ? @ A-Z ^ _ a-z ~` and everything from 0x80 up -/
def isTokenStart (b : UInt8) : Bool :=
  isAlpha b || b = 36 || b = 42 || b = 46 || b = 60 || b = 62 || b = 63 || b = 64 || b = 94 || b = 95
    || b = 126 || 128 ≤ b

/-- bytes that continue a bare token: the start bytes, `+`, `-` and the digits -/
def isTokenByte (b : UInt8) : Bool := isTokenStart b || b = 43 || b = 45 || isDigit b

/-- what ends a number besides white space -/
def expectedNumEnd (b : UInt8) : Act :=
  if isSep b then .numSpc
  else if b = 10 then .numNewline
  else if b = 41 then .closeParen
  else if b = 47 then .valSlash
  else if b = 91 then .openArray
  else if b = 93 then .closeArray
  else if b = 123 then .openObject
  else if b = 125 then .closeObject
  else .charErr

def expected (m : Mode) (b : UInt8) : Act :=
  match m with
  | .value =>
    if isSep b then .skipChar
    else if b = 10 then .skipNewline
    else if b = 34 || b = 39 then .valQuote
    else if b = 41 then .closeParen
    else if b = 43 then .valPlus
    else if b = 45 then .valNeg
    else if b = 47 then .valSlash
    else if b = 48 then .val0
    else if isDigit19 b then .valDigit
    else if b = 91 then .openArray
    else if b = 93 then .closeArray
    else if b = 123 then .openObject
    else if b = 125 then .closeObject
    else if isTokenStart b then .tokenStart
    else .charErr
  | .token =>
    if isSep b then .tokenSpc
    else if b = 10 then .tokenNlColon
    else if b = 40 then .openParen
    else if b = 41 then .closeParen
    else if b = 47 then .valSlash
    else if b = 58 then .tokenColon
    else if b = 91 then .openArray
    else if b = 93 then .closeArray
    else if b = 123 then .openObject
    else if b = 125 then .closeObject
    else if isTokenByte b then .tokenOk
    else .charErr
  | .colon =>
    if isBlank b then .skipChar
    else if b = 10 then .skipNewline
    else if b = 58 then .colonColon
    else .charErr
  | .neg => if b = 48 then .numZero else if isDigit19 b then .negDigit else .charErr
  | .zero => if b = 46 then .numDot else if isE b then .fracE else expectedNumEnd b
  | .digit =>
    if isDigit b then .numDigit else if b = 46 then .numDot else if isE b then .fracE else expectedNumEnd b
  | .dot => if isDigit b then .numFrac else .charErr
  | .frac => if isDigit b then .numFrac else if isE b then .fracE else expectedNumEnd b
  | .expSign => if b = 43 || b = 45 then .expSign else if isDigit b then .expDigit else .charErr
  | .expZero => if isDigit b then .expDigit else .charErr
  | .exp => if isDigit b then .expDigit else expectedNumEnd b
  | .string =>
    if b = 34 || b = 39 then .strQuote
    else if b = 92 then .strSlash
    else if b < 32 && b ≠ 9 && b ≠ 10 && b ≠ 13 then .charErr
    else .strOk
  | .esc =>
    if b = 34 || b = 39 || b = 47 || b = 92 || b = 98 || b = 102 || b = 110 || b = 114 || b = 116 then .escOk
    else if b = 117 then .escU
    else .charErr
  | .u => if isHex b then .uOk else .charErr
  | .plus =>
    if isBlank b then .skipChar
    else if b = 10 then .skipNewline
    else if b = 34 || b = 39 then .valQuote
    else .charErr
  | .space => if isSep b then .skipChar else if b = 10 then .skipNewline else .charErr
  | .commentStart => if b = 42 then .ccommentStart else if b = 47 then .commentStart else .charErr
  | .comment => if b = 10 then .commentEnd else if 32 ≤ b then .skipChar else .charErr
  | .ccomment =>
    if b = 10 then .skipNewline
    else if b = 42 then .ccommentEnd
    else if 32 ≤ b || b = 9 || b = 13 then .skipChar
    else .charErr
  | .ccommentEnd =>
    if b = 10 then .cskipNewline
    else if b = 47 then .commentEnd
    else if 32 ≤ b || b = 9 || b = 13 then .cskipChar
    else .charErr

def expectedFin : Mode → EndMark
  | .value => .v
  | .token => .t
  | .zero | .digit | .frac | .exp => .n
  | .space => .s
  | .comment => .c
  | .ccomment => .cc
  | _ => .absent

def unesc (b : UInt8) : UInt8 :=
  if b = 98 then 8 else if b = 102 then 12 else if b = 110 then 10 else if b = 114 then 13
  else if b = 116 then 9 else b

/-- the reference tables -/
def refTables : Tables where
  act := expected
  fin := expectedFin
  escByte := unesc

/-- a table set agrees with the reference wherever the machine reads it -/
structure TablesOK (T : Tables) : Prop where
  act : ∀ m b, T.act m b = expected m b
  fin : ∀ m, T.fin m = expectedFin m
  esc : ∀ b, expected .esc b = .escOk → T.escByte b = unesc b
  /-- the length tests of the BOM handling are 4 (read loop) and 3 (detection) for both front-ends -/
  bomP : T.bomP = {}
  bomT : T.bomT = {}

/-- cells where a table set differs from the reference (diagnostics for the runner) -/
def tableDiffs (T : Tables) : List (Mode × Nat × Act × Act) :=
  Mode.all.flatMap fun m =>
    (List.range 256).filterMap fun i =>
      let b := UInt8.ofNat i
      if T.act m b = expected m b then none else some (m, i, T.act m b, expected m b)

def finDiffs (T : Tables) : List (Mode × EndMark × EndMark) :=
  Mode.all.filterMap fun m => if T.fin m = expectedFin m then none else some (m, T.fin m, expectedFin m)

end OjgVerif.Sen
