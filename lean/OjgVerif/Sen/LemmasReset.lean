import OjgVerif.Sen.Lemmas
/-! Lemmas for C07 (SEN): the scratch fields a sen.Parser entry point does NOT reset — `ri`, `rn`,
`num`, `quoteDelim` (and `exkey`, which only the tokenizer uses) — are dead on entry: every branch of
the machine writes them before it reads them. Technique: `norm` forgets the scratch fields that are
dead in the current mode (`num` outside the number modes, `ri`/`rn` outside `u` mode, `quoteDelim`
outside string/esc/u mode, `exkey` always); every function of the machine commutes with `norm` up to
`norm` of its result. Which table action can occur in which mode is read off the reference tables by
kernel evaluation (`live_facts`, `flush_facts`); the helpers of `add`/`addToken`/`addString` neither
read nor write the scratch fields (frame lemmas) and leave a mode in which all of them are dead. -/
set_option linter.unusedSimpArgs false
set_option linter.unusedVariables false
set_option linter.unusedSectionVars false
namespace OjgVerif.Sen
open OjgVerif
def numLive : Mode → Bool
  | .neg | .zero | .digit | .dot | .frac | .expSign | .expZero | .exp => true
  | _ => false
def strLive : Mode → Bool
  | .string | .esc | .u => true
  | _ => false
def uLive : Mode → Bool
  | .u => true
  | _ => false

/-- the scratch fields of a parser -/
structure Scr where
  num : Json.Num
  ri : Nat
  rn : Nat
  qd : UInt8
  ex : Bool

def setScr (x : Scr) (s : St) : St := { s with num := x.num, ri := x.ri, rn := x.rn, quoteDelim := x.qd, exkey := x.ex }

/-- the scratch fields with the ones that are dead in mode `m` forgotten -/
def liveScr (m : Mode) (s : St) : Scr :=
  { num := if numLive m then s.num else {}, ri := if uLive m then s.ri else 0, rn := if uLive m then s.rn else 0,
    qd := if strLive m then s.quoteDelim else 0, ex := false }

/-- forget the scratch fields that are dead in the current mode -/
def norm (s : St) : St := setScr (liveScr s.mode s) s

def mapS (f : St → St) (r : Except ErrKind St) : Except ErrKind St :=
  match r with
  | .error e => .error e
  | .ok s => .ok (f s)

def nr3 (r : Except ErrKind (St × Bool × Bool)) : Except ErrKind (St × Bool × Bool) :=
  match r with
  | .error e => .error e
  | .ok (s, c, n) => .ok (norm s, c, n)

/-! frame lemmas: the helpers neither read nor write the scratch fields -/
theorem add_frame (x : Scr) (s : St) (n : JV) : (setScr x s).add n = mapS (setScr x) (s.add n) := by
  obtain ⟨mode, starts, stack, docs, evs, exkey, tmp, ri, rn, num, qd, plus, lk, lsk, feat⟩ := s
  unfold St.add St.setMember
  simp only [setScr, mapS]
  rcases starts with _ | ⟨_ | i, rest⟩ <;> try simp [fault]
  rcases stack with _ | ⟨it, below⟩ <;> try simp
  cases it <;> try simp [topIsKey]
  rcases below with _ | ⟨it2, r⟩ <;> try simp
  cases it2 <;> try simp

theorem addTokenP_frame (x : Scr) (s : St) (t : Bytes) : (setScr x s).addTokenP t = mapS (setScr x) (s.addTokenP t) := by
  obtain ⟨mode, starts, stack, docs, evs, exkey, tmp, ri, rn, num, qd, plus, lk, lsk, feat⟩ := s
  unfold St.addTokenP St.setMember
  simp only [setScr, mapS]
  rcases starts with _ | ⟨_ | i, rest⟩ <;> try simp [fault]
  rcases stack with _ | ⟨it, below⟩ <;> try simp
  cases it <;> try simp [topIsKey]
  rcases below with _ | ⟨it2, r⟩ <;> try simp
  cases it2 <;> try simp

theorem addStringP_frame (x : Scr) (s : St) (t : Bytes) : (setScr x s).addStringP t = mapS (setScr x) (s.addStringP t) := by
  obtain ⟨mode, starts, stack, docs, evs, exkey, tmp, ri, rn, num, qd, plus, lk, lsk, feat⟩ := s
  unfold St.addStringP St.setMember
  simp only [setScr, mapS]
  rcases starts with _ | ⟨_ | i, rest⟩ <;> cases plus <;> try simp [fault]
  all_goals (rcases stack with _ | ⟨it, below⟩ <;> try simp)
  all_goals (try (cases it <;> try simp [topIsKey]))
  all_goals (try (rcases below with _ | ⟨it2, r⟩ <;> try simp))
  all_goals (try (cases it2 <;> try simp))
  all_goals (try (split <;> try simp))

theorem addIgnore_frame (x : Scr) (s : St) (n : JV) : (setScr x s).addIgnore n = mapS (setScr x) (s.addIgnore n) := by
  unfold St.addIgnore
  rw [add_frame]
  cases s.add n <;> simp [mapS]
  split <;> simp [setScr]

def needsNum : Act → Bool
  | .numSpc | .numNewline | .numDot | .numFrac | .fracE | .numDigit | .negDigit | .numZero | .expSign | .expDigit => true
  | _ => false
def needsStr : Act → Bool
  | .strQuote | .strSlash | .escOk | .escU | .uOk => true
  | _ => false

theorem live_facts (m : Mode) (b : UInt8) :
    (needsNum (expected m b) = true → numLive m = true) ∧ (needsStr (expected m b) = true → strLive m = true) ∧
    (expected m b = .uOk → uLive m = true) := by
  have := forall_mode_byte (fun m b => (!needsNum (expected m b) || numLive m) && (!needsStr (expected m b) || strLive m)
    && (!(expected m b == .uOk) || uLive m)) (by decide +kernel) m b
  simp only [Bool.and_eq_true, Bool.or_eq_true, Bool.not_eq_true', beq_iff_eq] at this
  refine ⟨fun h => ?_, fun h => ?_, fun h => ?_⟩
  · rcases this.1.1 with h1 | h1
    · rw [h] at h1; cases h1
    · exact h1
  · rcases this.1.2 with h1 | h1
    · rw [h] at h1; cases h1
    · exact h1
  · rcases this.2 with h1 | h1
    · simp [h] at h1
    · exact h1

@[simp] theorem numLive_value : numLive .value = false := rfl
@[simp] theorem strLive_value : strLive .value = false := rfl
@[simp] theorem uLive_value : uLive .value = false := rfl
@[simp] theorem numLive_token : numLive .token = false := rfl
@[simp] theorem strLive_token : strLive .token = false := rfl
@[simp] theorem uLive_token : uLive .token = false := rfl
@[simp] theorem numLive_colon : numLive .colon = false := rfl
@[simp] theorem strLive_colon : strLive .colon = false := rfl
@[simp] theorem uLive_colon : uLive .colon = false := rfl
@[simp] theorem numLive_neg : numLive .neg = true := rfl
@[simp] theorem strLive_neg : strLive .neg = false := rfl
@[simp] theorem uLive_neg : uLive .neg = false := rfl
@[simp] theorem numLive_zero : numLive .zero = true := rfl
@[simp] theorem strLive_zero : strLive .zero = false := rfl
@[simp] theorem uLive_zero : uLive .zero = false := rfl
@[simp] theorem numLive_digit : numLive .digit = true := rfl
@[simp] theorem strLive_digit : strLive .digit = false := rfl
@[simp] theorem uLive_digit : uLive .digit = false := rfl
@[simp] theorem numLive_dot : numLive .dot = true := rfl
@[simp] theorem strLive_dot : strLive .dot = false := rfl
@[simp] theorem uLive_dot : uLive .dot = false := rfl
@[simp] theorem numLive_frac : numLive .frac = true := rfl
@[simp] theorem strLive_frac : strLive .frac = false := rfl
@[simp] theorem uLive_frac : uLive .frac = false := rfl
@[simp] theorem numLive_expSign : numLive .expSign = true := rfl
@[simp] theorem strLive_expSign : strLive .expSign = false := rfl
@[simp] theorem uLive_expSign : uLive .expSign = false := rfl
@[simp] theorem numLive_expZero : numLive .expZero = true := rfl
@[simp] theorem strLive_expZero : strLive .expZero = false := rfl
@[simp] theorem uLive_expZero : uLive .expZero = false := rfl
@[simp] theorem numLive_exp : numLive .exp = true := rfl
@[simp] theorem strLive_exp : strLive .exp = false := rfl
@[simp] theorem uLive_exp : uLive .exp = false := rfl
@[simp] theorem numLive_string : numLive .string = false := rfl
@[simp] theorem strLive_string : strLive .string = true := rfl
@[simp] theorem uLive_string : uLive .string = false := rfl
@[simp] theorem numLive_esc : numLive .esc = false := rfl
@[simp] theorem strLive_esc : strLive .esc = true := rfl
@[simp] theorem uLive_esc : uLive .esc = false := rfl
@[simp] theorem numLive_u : numLive .u = false := rfl
@[simp] theorem strLive_u : strLive .u = true := rfl
@[simp] theorem uLive_u : uLive .u = true := rfl
@[simp] theorem numLive_plus : numLive .plus = false := rfl
@[simp] theorem strLive_plus : strLive .plus = false := rfl
@[simp] theorem uLive_plus : uLive .plus = false := rfl
@[simp] theorem numLive_space : numLive .space = false := rfl
@[simp] theorem strLive_space : strLive .space = false := rfl
@[simp] theorem uLive_space : uLive .space = false := rfl
@[simp] theorem numLive_commentStart : numLive .commentStart = false := rfl
@[simp] theorem strLive_commentStart : strLive .commentStart = false := rfl
@[simp] theorem uLive_commentStart : uLive .commentStart = false := rfl
@[simp] theorem numLive_comment : numLive .comment = false := rfl
@[simp] theorem strLive_comment : strLive .comment = false := rfl
@[simp] theorem uLive_comment : uLive .comment = false := rfl
@[simp] theorem numLive_ccomment : numLive .ccomment = false := rfl
@[simp] theorem strLive_ccomment : strLive .ccomment = false := rfl
@[simp] theorem uLive_ccomment : uLive .ccomment = false := rfl
@[simp] theorem numLive_ccommentEnd : numLive .ccommentEnd = false := rfl
@[simp] theorem strLive_ccommentEnd : strLive .ccommentEnd = false := rfl
@[simp] theorem uLive_ccommentEnd : uLive .ccommentEnd = false := rfl

set_option hygiene false in
macro "g1" : tactic => `(tactic| (
  obtain ⟨f1, f2, f3⟩ := live_facts s.mode b
  simp only [hact, needsNum, needsStr, forall_const, reduceCtorEq, false_implies] at f1 f2 f3
  have hm : (norm s).mode = s.mode := rfl
  unfold stepActP
  simp only [refTables, hm, hact]
  try (cases hN : numLive s.mode <;> cases hS : strLive s.mode <;> cases hU : uLive s.mode <;>
    simp [nr3, norm, setScr, liveScr, St.addFeat, startP, Json.Num.reset, hN, hS, hU] at f1 f2 f3 ⊢ <;> (repeat' split) <;>
    simp_all [nr3, norm, setScr, liveScr, St.addFeat, startP, Json.Num.reset])))

theorem actP_skipNewline (cfg : Cfg) (s : St) (i : Bool) (b : UInt8) (hact : expected s.mode b = .skipNewline) :
    nr3 (stepActP refTables cfg s i b) = nr3 (stepActP refTables cfg (norm s) i b) := by g1

theorem actP_cskipNewline (cfg : Cfg) (s : St) (i : Bool) (b : UInt8) (hact : expected s.mode b = .cskipNewline) :
    nr3 (stepActP refTables cfg s i b) = nr3 (stepActP refTables cfg (norm s) i b) := by g1

theorem actP_strOk (cfg : Cfg) (s : St) (i : Bool) (b : UInt8) (hact : expected s.mode b = .strOk) :
    nr3 (stepActP refTables cfg s i b) = nr3 (stepActP refTables cfg (norm s) i b) := by g1

theorem actP_colonColon (cfg : Cfg) (s : St) (i : Bool) (b : UInt8) (hact : expected s.mode b = .colonColon) :
    nr3 (stepActP refTables cfg s i b) = nr3 (stepActP refTables cfg (norm s) i b) := by g1

theorem actP_skipChar (cfg : Cfg) (s : St) (i : Bool) (b : UInt8) (hact : expected s.mode b = .skipChar) :
    nr3 (stepActP refTables cfg s i b) = nr3 (stepActP refTables cfg (norm s) i b) := by g1

theorem actP_cskipChar (cfg : Cfg) (s : St) (i : Bool) (b : UInt8) (hact : expected s.mode b = .cskipChar) :
    nr3 (stepActP refTables cfg s i b) = nr3 (stepActP refTables cfg (norm s) i b) := by g1

theorem actP_valDigit (cfg : Cfg) (s : St) (i : Bool) (b : UInt8) (hact : expected s.mode b = .valDigit) :
    nr3 (stepActP refTables cfg s i b) = nr3 (stepActP refTables cfg (norm s) i b) := by g1

theorem actP_valQuote (cfg : Cfg) (s : St) (i : Bool) (b : UInt8) (hact : expected s.mode b = .valQuote) :
    nr3 (stepActP refTables cfg s i b) = nr3 (stepActP refTables cfg (norm s) i b) := by g1

theorem actP_strSlash (cfg : Cfg) (s : St) (i : Bool) (b : UInt8) (hact : expected s.mode b = .strSlash) :
    nr3 (stepActP refTables cfg s i b) = nr3 (stepActP refTables cfg (norm s) i b) := by g1

theorem actP_escOk (cfg : Cfg) (s : St) (i : Bool) (b : UInt8) (hact : expected s.mode b = .escOk) :
    nr3 (stepActP refTables cfg s i b) = nr3 (stepActP refTables cfg (norm s) i b) := by g1

theorem actP_val0 (cfg : Cfg) (s : St) (i : Bool) (b : UInt8) (hact : expected s.mode b = .val0) :
    nr3 (stepActP refTables cfg s i b) = nr3 (stepActP refTables cfg (norm s) i b) := by g1

theorem actP_valNeg (cfg : Cfg) (s : St) (i : Bool) (b : UInt8) (hact : expected s.mode b = .valNeg) :
    nr3 (stepActP refTables cfg s i b) = nr3 (stepActP refTables cfg (norm s) i b) := by g1

theorem actP_escU (cfg : Cfg) (s : St) (i : Bool) (b : UInt8) (hact : expected s.mode b = .escU) :
    nr3 (stepActP refTables cfg s i b) = nr3 (stepActP refTables cfg (norm s) i b) := by g1

theorem actP_numDot (cfg : Cfg) (s : St) (i : Bool) (b : UInt8) (hact : expected s.mode b = .numDot) :
    nr3 (stepActP refTables cfg s i b) = nr3 (stepActP refTables cfg (norm s) i b) := by
  obtain ⟨f1, _, _⟩ := live_facts s.mode b
  simp only [hact, needsNum, forall_const] at f1
  have hm : (norm s).mode = s.mode := rfl
  have hn : (norm s).num = s.num := by simp [norm, setScr, liveScr, f1]
  unfold stepActP
  simp only [refTables, hm, hact, hn]
  by_cases hb : 0 < s.num.big.length
  · simp only [hb, ↓reduceIte]
    simp [nr3, norm, setScr, liveScr, f1]
  · simp only [hb, ↓reduceIte]
    simp [nr3, norm, setScr, liveScr, f1]

theorem actP_numFrac (cfg : Cfg) (s : St) (i : Bool) (b : UInt8) (hact : expected s.mode b = .numFrac) :
    nr3 (stepActP refTables cfg s i b) = nr3 (stepActP refTables cfg (norm s) i b) := by g1

theorem actP_fracE (cfg : Cfg) (s : St) (i : Bool) (b : UInt8) (hact : expected s.mode b = .fracE) :
    nr3 (stepActP refTables cfg s i b) = nr3 (stepActP refTables cfg (norm s) i b) := by g1

theorem actP_tokenOk (cfg : Cfg) (s : St) (i : Bool) (b : UInt8) (hact : expected s.mode b = .tokenOk) :
    nr3 (stepActP refTables cfg s i b) = nr3 (stepActP refTables cfg (norm s) i b) := by g1

theorem actP_valPlus (cfg : Cfg) (s : St) (i : Bool) (b : UInt8) (hact : expected s.mode b = .valPlus) :
    nr3 (stepActP refTables cfg s i b) = nr3 (stepActP refTables cfg (norm s) i b) := by g1

theorem actP_numZero (cfg : Cfg) (s : St) (i : Bool) (b : UInt8) (hact : expected s.mode b = .numZero) :
    nr3 (stepActP refTables cfg s i b) = nr3 (stepActP refTables cfg (norm s) i b) := by g1

theorem actP_numDigit (cfg : Cfg) (s : St) (i : Bool) (b : UInt8) (hact : expected s.mode b = .numDigit) :
    nr3 (stepActP refTables cfg s i b) = nr3 (stepActP refTables cfg (norm s) i b) := by g1

theorem actP_negDigit (cfg : Cfg) (s : St) (i : Bool) (b : UInt8) (hact : expected s.mode b = .negDigit) :
    nr3 (stepActP refTables cfg s i b) = nr3 (stepActP refTables cfg (norm s) i b) := by g1

theorem actP_expSign (cfg : Cfg) (s : St) (i : Bool) (b : UInt8) (hact : expected s.mode b = .expSign) :
    nr3 (stepActP refTables cfg s i b) = nr3 (stepActP refTables cfg (norm s) i b) := by g1

theorem actP_expDigit (cfg : Cfg) (s : St) (i : Bool) (b : UInt8) (hact : expected s.mode b = .expDigit) :
    nr3 (stepActP refTables cfg s i b) = nr3 (stepActP refTables cfg (norm s) i b) := by g1

theorem actP_uOk (cfg : Cfg) (s : St) (i : Bool) (b : UInt8) (hact : expected s.mode b = .uOk) :
    nr3 (stepActP refTables cfg s i b) = nr3 (stepActP refTables cfg (norm s) i b) := by g1

theorem actP_commentStart (cfg : Cfg) (s : St) (i : Bool) (b : UInt8) (hact : expected s.mode b = .commentStart) :
    nr3 (stepActP refTables cfg s i b) = nr3 (stepActP refTables cfg (norm s) i b) := by g1

theorem actP_commentEnd (cfg : Cfg) (s : St) (i : Bool) (b : UInt8) (hact : expected s.mode b = .commentEnd) :
    nr3 (stepActP refTables cfg s i b) = nr3 (stepActP refTables cfg (norm s) i b) := by g1

theorem actP_ccommentStart (cfg : Cfg) (s : St) (i : Bool) (b : UInt8) (hact : expected s.mode b = .ccommentStart) :
    nr3 (stepActP refTables cfg s i b) = nr3 (stepActP refTables cfg (norm s) i b) := by g1

theorem actP_ccommentEnd (cfg : Cfg) (s : St) (i : Bool) (b : UInt8) (hact : expected s.mode b = .ccommentEnd) :
    nr3 (stepActP refTables cfg s i b) = nr3 (stepActP refTables cfg (norm s) i b) := by g1

theorem actP_openParen (cfg : Cfg) (s : St) (i : Bool) (b : UInt8) (hact : expected s.mode b = .openParen) :
    nr3 (stepActP refTables cfg s i b) = nr3 (stepActP refTables cfg (norm s) i b) := by g1

theorem actP_charErr (cfg : Cfg) (s : St) (i : Bool) (b : UInt8) (hact : expected s.mode b = .charErr) :
    nr3 (stepActP refTables cfg s i b) = nr3 (stepActP refTables cfg (norm s) i b) := by g1

theorem actP_unknown (cfg : Cfg) (s : St) (i : Bool) (b : UInt8) (hact : expected s.mode b = .unknown) :
    nr3 (stepActP refTables cfg s i b) = nr3 (stepActP refTables cfg (norm s) i b) := by g1

theorem actP_tokenStart (cfg : Cfg) (s : St) (i : Bool) (b : UInt8) (hact : expected s.mode b = .tokenStart) :
    nr3 (stepActP refTables cfg s i b) = nr3 (stepActP refTables cfg (norm s) i b) := by
  have hm : (norm s).mode = s.mode := rfl
  unfold stepActP
  simp only [refTables, hm, hact]
  by_cases ht : expected .token b = .tokenOk
  · simp only [ht, ↓reduceIte]
    simp [nr3, norm, setScr, liveScr]
  · simp only [ht, ↓reduceIte]

/-! post-conditions of the helpers: they leave a mode in which every scratch field is dead -/
def deadM (m : Mode) : Prop := numLive m = false ∧ strLive m = false ∧ uLive m = false

theorem deadM_value : deadM .value := ⟨rfl, rfl, rfl⟩
theorem deadM_colon : deadM .colon := ⟨rfl, rfl, rfl⟩

theorem norm_dead (a : St) (h : deadM a.mode) : norm a = setScr ⟨{}, 0, 0, 0, false⟩ a := by
  simp [norm, liveScr, h.1, h.2.1, h.2.2]

theorem norm_setScr_dead (X : Scr) (a : St) (h : deadM a.mode) : norm (setScr X a) = norm a := by
  have h' : deadM (setScr X a).mode := h
  rw [norm_dead _ h', norm_dead _ h]
  rfl

theorem setMember_mode {s a : St} {n : JV} (h : s.setMember n = .ok a) : a.mode = s.mode := by
  unfold St.setMember at h
  repeat' split at h
  all_goals simp_all [fault]
  all_goals (cases h; rfl)

theorem add_dead {s a : St} {n : JV} (h : s.add n = .ok a) : deadM a.mode := by
  unfold St.add at h
  repeat' split at h
  all_goals (try (simp_all [fault]; done))
  · rw [setMember_mode h]; exact deadM_value
  · cases h; exact deadM_value

theorem addTokenP_dead {s a : St} {t : Bytes} (h : s.addTokenP t = .ok a) : deadM a.mode := by
  unfold St.addTokenP at h
  repeat' split at h
  all_goals (try (simp_all [fault]; done))
  · rw [setMember_mode h]; exact deadM_value
  · cases h; exact deadM_colon
  · cases h; exact deadM_value

theorem addStringP_dead {s a : St} {t : Bytes} (h : s.addStringP t = .ok a) : deadM a.mode := by
  unfold St.addStringP at h
  repeat' split at h
  all_goals (try (simp_all [fault]; done))
  all_goals first
    | (rw [setMember_mode h]; exact deadM_value)
    | (cases h; first | exact deadM_value | exact deadM_colon)

theorem addIgnore_dead {s a : St} {n : JV} (h : s.addIgnore n = .ok a) : deadM a.mode := by
  unfold St.addIgnore at h
  split at h
  · cases h; exact add_dead (by assumption)
  · split at h
    · cases h
    · cases h; exact deadM_value

def flushAct : Act → Bool
  | .openObject | .closeObject | .openArray | .closeArray | .closeParen | .valSlash => true
  | _ => false

theorem flush_facts (m : Mode) (b : UInt8) (h : flushAct (expected m b) = true) :
    strLive m = false ∧ uLive m = false ∧ (numLive m = true → expectedFin m = .n) := by
  have := forall_mode_byte (fun m b => !flushAct (expected m b) ||
    (!strLive m && !uLive m && (!numLive m || expectedFin m == .n))) (by decide +kernel) m b
  simp only [h, Bool.not_true, Bool.false_or, Bool.and_eq_true, Bool.not_eq_true', Bool.or_eq_true, beq_iff_eq] at this
  refine ⟨this.1.1, this.1.2, fun hn => ?_⟩
  rcases this.2 with h1 | h1
  · rw [hn] at h1; cases h1
  · exact h1

theorem fin_n_live (m : Mode) (h : expectedFin m = .n) : numLive m = true := by
  cases m <;> simp_all [expectedFin]

theorem flushP_frame (s : St) :
    (norm s).flushP refTables = mapS (setScr (liveScr s.mode s)) (s.flushP refTables) := by
  unfold St.flushP
  have hm : (norm s).mode = s.mode := rfl
  rw [hm]
  cases hf : refTables.fin s.mode <;> simp only []
  case n =>
    have hl : numLive s.mode = true := fin_n_live _ hf
    have hn : (norm s).num = s.num := by simp [norm, setScr, liveScr, hl]
    rw [hn]; exact add_frame _ s _
  case t => exact addTokenP_frame _ s _
  all_goals rfl

theorem flushCloseP_frame (s : St) :
    (norm s).flushCloseP refTables = mapS (setScr (liveScr s.mode s)) (s.flushCloseP refTables) := by
  unfold St.flushCloseP
  have hm : (norm s).mode = s.mode := rfl
  rw [hm]
  cases hf : refTables.fin s.mode <;> simp only []
  case n =>
    have hl : numLive s.mode = true := fin_n_live _ hf
    have hn : (norm s).num = s.num := by simp [norm, setScr, liveScr, hl]
    rw [hn]; exact addIgnore_frame _ s _
  case t => exact addTokenP_frame _ s _
  all_goals rfl

theorem flushP_dead {s a : St} (hs : strLive s.mode = false ∧ uLive s.mode = false ∧ (numLive s.mode = true → expectedFin s.mode = .n))
    (h : s.flushP refTables = .ok a) : deadM a.mode := by
  unfold St.flushP at h
  cases hf : refTables.fin s.mode <;> rw [hf] at h <;> simp only [] at h
  case n => exact add_dead h
  case t => exact addTokenP_dead h
  all_goals
    cases h
    refine ⟨?_, hs.1, hs.2.1⟩
    cases hn : numLive s.mode
    · rfl
    · have := hs.2.2 hn
      have hf' : expectedFin s.mode = _ := hf
      rw [this] at hf'; cases hf'

theorem flushCloseP_dead {s a : St} (hs : strLive s.mode = false ∧ uLive s.mode = false ∧ (numLive s.mode = true → expectedFin s.mode = .n))
    (h : s.flushCloseP refTables = .ok a) : deadM a.mode := by
  unfold St.flushCloseP at h
  cases hf : refTables.fin s.mode <;> rw [hf] at h <;> simp only [] at h
  case n => exact addIgnore_dead h
  case t => exact addTokenP_dead h
  case absent => simp [fault] at h
  all_goals
    cases h
    refine ⟨?_, hs.1, hs.2.1⟩
    cases hn : numLive s.mode
    · rfl
    · have := hs.2.2 hn
      have hf' : expectedFin s.mode = _ := hf
      rw [this] at hf'; cases hf'

theorem norm_def (s : St) : norm s = setScr (liveScr s.mode s) s := rfl

section helperActs
variable (cfg : Cfg) (s : St) (i : Bool) (b : UInt8)

theorem actP_numSpc (hact : expected s.mode b = .numSpc) :
    nr3 (stepActP refTables cfg s i b) = nr3 (stepActP refTables cfg (norm s) i b) := by
  obtain ⟨f1, _, _⟩ := live_facts s.mode b
  simp only [hact, needsNum, forall_const] at f1
  have hm : (norm s).mode = s.mode := rfl
  have hn : (norm s).num = s.num := by simp [norm, setScr, liveScr, f1]
  unfold stepActP
  simp only [refTables, hm, hact, hn]
  rw [norm_def, add_frame]
  cases h : s.add s.num.asNum.toJV with
  | error e => simp [nr3, mapS, bind, Except.bind]
  | ok a =>
    simp only [nr3, mapS, bind, Except.bind, pure, Except.pure]
    rw [norm_setScr_dead _ a (add_dead h)]

theorem actP_numNewline (hact : expected s.mode b = .numNewline) :
    nr3 (stepActP refTables cfg s i b) = nr3 (stepActP refTables cfg (norm s) i b) := by
  obtain ⟨f1, _, _⟩ := live_facts s.mode b
  simp only [hact, needsNum, forall_const] at f1
  have hm : (norm s).mode = s.mode := rfl
  have hn : (norm s).num = s.num := by simp [norm, setScr, liveScr, f1]
  unfold stepActP
  simp only [refTables, hm, hact, hn]
  rw [norm_def, add_frame]
  cases h : s.add s.num.asNum.toJV with
  | error e => simp [nr3, mapS, bind, Except.bind]
  | ok a =>
    simp [nr3, mapS, bind, Except.bind, pure, Except.pure, norm, setScr, liveScr]

theorem actP_tokenSpc (hact : expected s.mode b = .tokenSpc) :
    nr3 (stepActP refTables cfg s i b) = nr3 (stepActP refTables cfg (norm s) i b) := by
  have hm : (norm s).mode = s.mode := rfl
  have ht : (norm s).tmp = s.tmp := rfl
  unfold stepActP
  simp only [refTables, hm, hact, ht]
  rw [norm_def, addTokenP_frame]
  cases h : s.addTokenP s.tmp.reverse with
  | error e => simp [nr3, mapS, bind, Except.bind]
  | ok a =>
    simp only [nr3, mapS, bind, Except.bind, pure, Except.pure]
    rw [norm_setScr_dead _ a (addTokenP_dead h)]

theorem actP_tokenNlColon (hact : expected s.mode b = .tokenNlColon) :
    nr3 (stepActP refTables cfg s i b) = nr3 (stepActP refTables cfg (norm s) i b) := by
  have hm : (norm s).mode = s.mode := rfl
  have ht : (norm s).tmp = s.tmp := rfl
  unfold stepActP
  simp only [refTables, hm, hact, ht]
  rw [norm_def, addTokenP_frame]
  cases h : s.addTokenP s.tmp.reverse with
  | error e => simp [nr3, mapS, bind, Except.bind]
  | ok a =>
    simp only [nr3, mapS, bind, Except.bind, pure, Except.pure]
    rw [norm_setScr_dead _ a (addTokenP_dead h)]

theorem actP_tokenColon (hact : expected s.mode b = .tokenColon) :
    nr3 (stepActP refTables cfg s i b) = nr3 (stepActP refTables cfg (norm s) i b) := by
  have hm : (norm s).mode = s.mode := rfl
  have ht : (norm s).tmp = s.tmp := rfl
  unfold stepActP
  simp only [refTables, hm, hact, ht]
  rw [norm_def, addTokenP_frame]
  cases h : s.addTokenP s.tmp.reverse with
  | error e => simp [nr3, mapS, bind, Except.bind]
  | ok a =>
    simp [nr3, mapS, bind, Except.bind, pure, Except.pure, norm, setScr, liveScr]

theorem actP_strQuote (hpf : cfg.plusFault = false) (hact : expected s.mode b = .strQuote) :
    nr3 (stepActP refTables cfg s i b) = nr3 (stepActP refTables cfg (norm s) i b) := by
  obtain ⟨_, f2, _⟩ := live_facts s.mode b
  simp only [hact, needsStr, forall_const] at f2
  have hm : (norm s).mode = s.mode := rfl
  have ht : (norm s).tmp = s.tmp := rfl
  have hq : (norm s).quoteDelim = s.quoteDelim := by simp [norm, setScr, liveScr, f2]
  unfold stepActP
  simp only [refTables, hm, hact, ht, hq, hpf, Bool.false_eq_true, ↓reduceIte]
  by_cases hb : b = s.quoteDelim
  · simp only [hb, ↓reduceIte]
    rw [norm_def, addStringP_frame]
    cases h : s.addStringP s.tmp.reverse with
    | error e => simp [nr3, mapS, bind, Except.bind]
    | ok a =>
      simp only [nr3, mapS, bind, Except.bind, pure, Except.pure]
      rw [norm_setScr_dead _ a (addStringP_dead h)]
  · simp only [hb, ↓reduceIte]
    cases hN : numLive s.mode <;> cases hU : uLive s.mode <;> simp [nr3, norm, setScr, liveScr, f2, hN, hU]

end helperActs

section flushActs
variable (cfg : Cfg) (s : St) (i : Bool) (b : UInt8)

theorem addFeat_setScr (X : Scr) (a : St) (c : Char) : (setScr X a).addFeat c = setScr X (a.addFeat c) := by
  unfold St.addFeat
  cases h : a.feat.contains c
  · have h' : (setScr X a).feat.contains c = false := h
    simp only [h, h', Bool.false_eq_true, ↓reduceIte]; rfl
  · have h' : (setScr X a).feat.contains c = true := h
    simp only [h, h', ↓reduceIte]

theorem addFeat_mode (a : St) (c : Char) : (a.addFeat c).mode = a.mode := by
  unfold St.addFeat
  cases h : a.feat.contains c <;> simp only [h, Bool.false_eq_true, ↓reduceIte]

theorem undelivered_setScr (X : Scr) (a : St) : (setScr X a).undelivered = setScr X a.undelivered := by
  unfold St.undelivered
  cases h : (a.starts.isEmpty && !a.stack.isEmpty)
  · have h' : ((setScr X a).starts.isEmpty && !(setScr X a).stack.isEmpty) = false := h
    simp only [h, h', Bool.false_eq_true, ↓reduceIte]
  · have h' : ((setScr X a).starts.isEmpty && !(setScr X a).stack.isEmpty) = true := h
    simp only [h, h', ↓reduceIte, addFeat_setScr]

theorem undelivered_mode (a : St) : a.undelivered.mode = a.mode := by
  unfold St.undelivered
  cases h : (a.starts.isEmpty && !a.stack.isEmpty) <;> simp only [h, Bool.false_eq_true, ↓reduceIte, addFeat_mode]

theorem actP_openObject (hact : expected s.mode b = .openObject) :
    nr3 (stepActP refTables cfg s i b) = nr3 (stepActP refTables cfg (norm s) i b) := by
  have hf := flush_facts s.mode b (by rw [hact]; rfl)
  have hm : (norm s).mode = s.mode := rfl
  unfold stepActP
  simp only [refTables, hm, hact]
  rw [show St.flushP { act := expected, fin := expectedFin, escByte := unesc } (norm s) = _ from flushP_frame s]
  cases h : St.flushP refTables s with
  | error e => simp [nr3, mapS, bind, Except.bind, refTables] at h ⊢; simp [h, nr3]
  | ok a =>
    have hd := flushP_dead hf h
    have h' : St.flushP { act := expected, fin := expectedFin, escByte := unesc } s = .ok a := h
    simp only [h', nr3, mapS, bind, Except.bind, pure, Except.pure, undelivered_setScr]
    have d1 : deadM ({ a.undelivered with starts := none :: a.undelivered.starts, stack := Item.obj [] :: a.undelivered.stack } : St).mode := by
      show deadM a.undelivered.mode; rw [undelivered_mode]; exact hd
    exact congrArg (fun x => Except.ok (x, true, false)) (norm_setScr_dead _ _ d1).symm

theorem actP_valSlash (hact : expected s.mode b = .valSlash) :
    nr3 (stepActP refTables cfg s i b) = nr3 (stepActP refTables cfg (norm s) i b) := by
  have hf := flush_facts s.mode b (by rw [hact]; rfl)
  have hm : (norm s).mode = s.mode := rfl
  unfold stepActP
  simp only [refTables, hm, hact]
  rw [show St.flushP { act := expected, fin := expectedFin, escByte := unesc } (norm s) = _ from flushP_frame s]
  cases h : St.flushP refTables s with
  | error e => simp [nr3, mapS, bind, Except.bind, refTables] at h ⊢; simp [h, nr3]
  | ok a =>
    have h' : St.flushP { act := expected, fin := expectedFin, escByte := unesc } s = .ok a := h
    simp only [h', nr3, mapS, bind, Except.bind, pure, Except.pure, undelivered_setScr]
    simp [norm, setScr, liveScr]

theorem actP_openArray (hact : expected s.mode b = .openArray) :
    nr3 (stepActP refTables cfg s i b) = nr3 (stepActP refTables cfg (norm s) i b) := by
  have hf := flush_facts s.mode b (by rw [hact]; rfl)
  have hm : (norm s).mode = s.mode := rfl
  unfold stepActP
  simp only [refTables, hm, hact]
  rw [show St.flushP { act := expected, fin := expectedFin, escByte := unesc } (norm s) = _ from flushP_frame s]
  cases h : St.flushP refTables s with
  | error e => simp [nr3, mapS, bind, Except.bind, refTables] at h ⊢; simp [h, nr3]
  | ok a =>
    have h' : St.flushP { act := expected, fin := expectedFin, escByte := unesc } s = .ok a := h
    simp only [h', nr3, mapS, bind, Except.bind, pure, Except.pure, undelivered_setScr]
    simp [norm, setScr, liveScr, startP]

theorem actP_closeObject (hmv : cfg.missingValue = false) (hact : expected s.mode b = .closeObject) :
    nr3 (stepActP refTables cfg s i b) = nr3 (stepActP refTables cfg (norm s) i b) := by
  have hf := flush_facts s.mode b (by rw [hact]; rfl)
  have hm : (norm s).mode = s.mode := rfl
  have hst : (norm s).starts = s.starts := rfl
  unfold stepActP
  simp only [refTables, hm, hact, hst]
  cases hs : s.starts with
  | nil => rfl
  | cons st rest =>
    cases st with
    | some k => rfl
    | none =>
      simp only []
      rw [show St.flushP { act := expected, fin := expectedFin, escByte := unesc } (norm s) = _ from flushP_frame s]
      cases h : St.flushP refTables s with
      | error e => simp [nr3, mapS, bind, Except.bind, refTables] at h ⊢; simp [h, nr3]
      | ok a =>
        have h' : St.flushP { act := expected, fin := expectedFin, escByte := unesc } s = .ok a := h
        simp only [h', nr3, mapS, bind, Except.bind, pure, Except.pure]
        have hk : (setScr (liveScr s.mode s) a).stack = a.stack := rfl
        rw [hk]
        cases a.stack with
        | nil => rfl
        | cons top below =>
          simp only [hmv, Bool.not_false, Bool.and_true]
          by_cases htk : topIsKey (top :: below) = true
          · simp only [htk, ↓reduceIte]
          simp only [htk, Bool.false_eq_true, ↓reduceIte]
          have e1 : ({ setScr (liveScr s.mode s) a with starts := rest, stack := below } : St) =
              setScr (liveScr s.mode s) { a with starts := rest, stack := below } := rfl
          rw [e1, add_frame]
          cases h2 : St.add { a with starts := rest, stack := below } top.toJV with
          | error e => simp [mapS]
          | ok a2 =>
            simp only [mapS]
            rw [norm_setScr_dead _ a2 (add_dead h2)]

theorem actP_closeArray (hact : expected s.mode b = .closeArray) :
    nr3 (stepActP refTables cfg s i b) = nr3 (stepActP refTables cfg (norm s) i b) := by
  have hm : (norm s).mode = s.mode := rfl
  have hst : (norm s).starts = s.starts := rfl
  unfold stepActP
  simp only [refTables, hm, hact, hst]
  cases hs : s.starts with
  | nil => rfl
  | cons st rest =>
    cases st with
    | none => rfl
    | some idx =>
      simp only []
      rw [show St.flushCloseP { act := expected, fin := expectedFin, escByte := unesc } (norm s) = _ from flushCloseP_frame s]
      cases h : St.flushCloseP refTables s with
      | error e => simp [nr3, mapS, bind, Except.bind, refTables] at h ⊢; simp [h, nr3]
      | ok a =>
        have h' : St.flushCloseP { act := expected, fin := expectedFin, escByte := unesc } s = .ok a := h
        simp only [h', nr3, mapS, bind, Except.bind, pure, Except.pure]
        have hk : (setScr (liveScr s.mode s) a).stack = a.stack := rfl
        rw [hk]
        cases splitStack a.stack idx with
        | none => rfl
        | some r =>
          obtain ⟨elems, mk, below⟩ := r
          simp only []
          have e1 : ({ setScr (liveScr s.mode s) a with starts := rest, stack := below } : St) =
              setScr (liveScr s.mode s) { a with starts := rest, stack := below } := rfl
          rw [e1, add_frame]
          cases h2 : St.add { a with starts := rest, stack := below } (JV.arr elems) with
          | error e => simp [mapS]
          | ok a2 => simp [mapS, norm, setScr, liveScr]

theorem actP_closeParen (hact : expected s.mode b = .closeParen) :
    nr3 (stepActP refTables cfg s i b) = nr3 (stepActP refTables cfg (norm s) i b) := by
  have hm : (norm s).mode = s.mode := rfl
  have hst : (norm s).starts = s.starts := rfl
  unfold stepActP
  simp only [refTables, hm, hact, hst]
  cases hs : s.starts with
  | nil => rfl
  | cons st rest =>
    cases st with
    | none => rfl
    | some idx =>
      simp only []
      rw [show St.flushCloseP { act := expected, fin := expectedFin, escByte := unesc } (norm s) = _ from flushCloseP_frame s]
      cases h : St.flushCloseP refTables s with
      | error e => simp [nr3, mapS, bind, Except.bind, refTables] at h ⊢; simp [h, nr3]
      | ok a =>
        have h' : St.flushCloseP { act := expected, fin := expectedFin, escByte := unesc } s = .ok a := h
        simp only [h', nr3, mapS, bind, Except.bind, pure, Except.pure]
        have hk : (setScr (liveScr s.mode s) a).stack = a.stack := rfl
        rw [hk]
        cases splitStack a.stack idx with
        | none => rfl
        | some r =>
          obtain ⟨args, mk, below⟩ := r
          cases mk with
          | fnMark name =>
            simp only []
            have e1 : ({ setScr (liveScr s.mode s) a with starts := rest, stack := below } : St) =
                setScr (liveScr s.mode s) { a with starts := rest, stack := below } := rfl
            rw [e1, addIgnore_frame]
            cases h2 : St.addIgnore { a with starts := rest, stack := below }
                (match cfg.fn name with | some f => f args | none => defaultFn args) with
            | error e => simp [mapS]
            | ok a2 =>
              simp only [mapS]
              have e2 : ({ setScr (liveScr s.mode s) a2 with mode := Mode.value } : St) =
                  setScr (liveScr s.mode s) { a2 with mode := Mode.value } := rfl
              rw [e2, addFeat_setScr]
              have d : deadM (St.addFeat { a2 with mode := Mode.value } 'f').mode := by
                rw [addFeat_mode]; exact deadM_value
              rw [norm_setScr_dead _ _ d]
          | val v => rfl
          | key k => rfl
          | arrMark => rfl
          | obj kvs => rfl

end flushActs

theorem stepActP_norm (cfg : Cfg) (hpf : cfg.plusFault = false) (hmv : cfg.missingValue = false) (s : St) (i : Bool)
    (b : UInt8) : nr3 (stepActP refTables cfg s i b) = nr3 (stepActP refTables cfg (norm s) i b) := by
  cases hact : expected s.mode b with
  | skipChar => exact actP_skipChar cfg s i b hact
  | skipNewline => exact actP_skipNewline cfg s i b hact
  | valSlash => exact actP_valSlash cfg s i b hact
  | openParen => exact actP_openParen cfg s i b hact
  | valPlus => exact actP_valPlus cfg s i b hact
  | valNeg => exact actP_valNeg cfg s i b hact
  | val0 => exact actP_val0 cfg s i b hact
  | valDigit => exact actP_valDigit cfg s i b hact
  | valQuote => exact actP_valQuote cfg s i b hact
  | tokenStart => exact actP_tokenStart cfg s i b hact
  | openArray => exact actP_openArray cfg s i b hact
  | openObject => exact actP_openObject cfg s i b hact
  | closeArray => exact actP_closeArray cfg s i b hact
  | closeObject => exact actP_closeObject cfg s i b hmv hact
  | closeParen => exact actP_closeParen cfg s i b hact
  | colonColon => exact actP_colonColon cfg s i b hact
  | numSpc => exact actP_numSpc cfg s i b hact
  | numNewline => exact actP_numNewline cfg s i b hact
  | numDot => exact actP_numDot cfg s i b hact
  | tokenOk => exact actP_tokenOk cfg s i b hact
  | numFrac => exact actP_numFrac cfg s i b hact
  | fracE => exact actP_fracE cfg s i b hact
  | expSign => exact actP_expSign cfg s i b hact
  | expDigit => exact actP_expDigit cfg s i b hact
  | strQuote => exact actP_strQuote cfg s i b hpf hact
  | negDigit => exact actP_negDigit cfg s i b hact
  | strSlash => exact actP_strSlash cfg s i b hact
  | escOk => exact actP_escOk cfg s i b hact
  | uOk => exact actP_uOk cfg s i b hact
  | tokenSpc => exact actP_tokenSpc cfg s i b hact
  | tokenColon => exact actP_tokenColon cfg s i b hact
  | tokenNlColon => exact actP_tokenNlColon cfg s i b hact
  | numDigit => exact actP_numDigit cfg s i b hact
  | numZero => exact actP_numZero cfg s i b hact
  | strOk => exact actP_strOk cfg s i b hact
  | escU => exact actP_escU cfg s i b hact
  | commentStart => exact actP_commentStart cfg s i b hact
  | ccommentStart => exact actP_ccommentStart cfg s i b hact
  | ccommentEnd => exact actP_ccommentEnd cfg s i b hact
  | cskipChar => exact actP_cskipChar cfg s i b hact
  | cskipNewline => exact actP_cskipNewline cfg s i b hact
  | commentEnd => exact actP_commentEnd cfg s i b hact
  | charErr => exact actP_charErr cfg s i b hact
  | unknown => exact actP_unknown cfg s i b hact

/-! ## from the switch to the entry point (parser profile) -/

def nrS (r : Except ErrKind St) : Except ErrKind St := mapS norm r

def nrF (r : Except ErrKind (St × Fast × Bool)) : Except ErrKind (St × Fast × Bool) :=
  match r with
  | .error e => .error e
  | .ok (s, f, n) => .ok (norm s, f, n)

theorem norm_idem (s : St) : norm (norm s) = norm s := by
  cases hN : numLive s.mode <;> cases hS : strLive s.mode <;> cases hU : uLive s.mode <;>
    simp [norm, setScr, liveScr, hN, hS, hU]

section chain
variable (cfg : Cfg) (hc : cfg.tokenizer = false) (hpf : cfg.plusFault = false) (hmv : cfg.missingValue = false)
include hc hpf hmv

theorem deliver_norm (s : St) : nrS (deliver refTables cfg s) = nrS (deliver refTables cfg (norm s)) := by
  have hm : (norm s).mode = s.mode := rfl
  have hst : (norm s).starts = s.starts := rfl
  have hk : (norm s).stack = s.stack := rfl
  unfold deliver deliverP
  simp only [hm, hst, hk, hc, Bool.false_eq_true, ↓reduceIte]
  by_cases h : (s.starts.isEmpty && refTables.fin s.mode = EndMark.v) = true
  · simp only [h, ↓reduceIte]
    cases s.stack.getLast? with
    | none => rfl
    | some it => cases cfg.onlyOne <;> simp [nrS, mapS, norm, setScr, liveScr]
  · simp only [h, Bool.false_eq_true, ↓reduceIte, nrS, mapS, norm_idem]

theorem nextFast_norm (s : St) (b : UInt8) (f : Fast) :
    nextFast cfg (refTables.act s.mode b) s.num.i f = nextFast cfg (refTables.act s.mode b) (norm s).num.i f := by
  obtain ⟨f1, _, _⟩ := live_facts s.mode b
  cases hact : refTables.act s.mode b <;> try rfl
  have hact' : expected s.mode b = .numDigit := hact
  simp only [hact', needsNum, forall_const] at f1
  have : (norm s).num = s.num := by simp [norm, setScr, liveScr, f1]
  rw [this]

theorem stepCore_norm (s : St) (f : Fast) (b : UInt8) :
    nrF (stepCore refTables cfg s f b) = nrF (stepCore refTables cfg (norm s) f b) := by
  have hA := stepActP_norm cfg hpf hmv s f.inFast b
  have hm : (norm s).mode = s.mode := rfl
  unfold stepCore stepAct
  simp only [hc, Bool.false_eq_true, ↓reduceIte, hm, ← nextFast_norm cfg hc hpf hmv s b f]
  cases h1 : stepActP refTables cfg s f.inFast b with
  | error e =>
    cases h2 : stepActP refTables cfg (norm s) f.inFast b with
    | error e' => rw [h1, h2] at hA; simp only [nr3, Except.error.injEq] at hA; simp [nrF, hA]
    | ok r => rw [h1, h2] at hA; obtain ⟨_, _, _⟩ := r; simp [nr3] at hA
  | ok r =>
    obtain ⟨s1, cont, nl⟩ := r
    cases h2 : stepActP refTables cfg (norm s) f.inFast b with
    | error e' => rw [h1, h2] at hA; simp [nr3] at hA
    | ok r' =>
      obtain ⟨s1', cont', nl'⟩ := r'
      rw [h1, h2] at hA
      simp only [nr3, Except.ok.injEq, Prod.mk.injEq] at hA
      obtain ⟨hs, rfl, rfl⟩ := hA
      simp only []
      cases cont with
      | true => simp [nrF, hs]
      | false =>
        simp only [Bool.false_eq_true, ↓reduceIte]
        have hd : nrS (deliver refTables cfg s1) = nrS (deliver refTables cfg s1') := by
          rw [deliver_norm cfg hc hpf hmv s1, deliver_norm cfg hc hpf hmv s1', hs]
        cases h3 : deliver refTables cfg s1 with
        | error e =>
          cases h4 : deliver refTables cfg s1' with
          | error e' => rw [h3, h4] at hd; simp only [nrS, mapS, Except.error.injEq] at hd; simp [nrF, hd]
          | ok a' => rw [h3, h4] at hd; simp [nrS, mapS] at hd
        | ok a =>
          cases h4 : deliver refTables cfg s1' with
          | error e' => rw [h3, h4] at hd; simp [nrS, mapS] at hd
          | ok a' => rw [h3, h4] at hd; simp only [nrS, mapS, Except.ok.injEq] at hd; simp [nrF, hd]

end chain

theorem startP_norm (s : St) (k : Nat) (m : Item) (c : Char) :
    norm ((startP s k m).addFeat c) = norm ((startP (norm s) k m).addFeat c) := by
  have d : ∀ a : St, deadM ((startP a k m).addFeat c).mode := by
    intro a; rw [addFeat_mode]; exact deadM_value
  rw [norm_dead _ (d s), norm_dead _ (d (norm s))]
  unfold St.addFeat startP
  have hf : (norm s).feat = s.feat := rfl
  simp only [hf]
  split <;> rfl

theorem addFeat_norm (s : St) (c : Char) : norm (s.addFeat c) = (norm s).addFeat c := by
  unfold St.addFeat
  have hf : (norm s).feat = s.feat := rfl
  rw [hf]
  cases h : s.feat.contains c <;> simp only [h, Bool.false_eq_true, ↓reduceIte] <;> rfl

section chain2
variable (cfg : Cfg) (hc : cfg.tokenizer = false) (hpf : cfg.plusFault = false) (hmv : cfg.missingValue = false)
include hc hpf hmv

/-- two states with the same normal form give the same (normalised) core step -/
theorem stepCore_congr (s s' : St) (h : norm s = norm s') (f : Fast) (b : UInt8) :
    nrF (stepCore refTables cfg s f b) = nrF (stepCore refTables cfg s' f b) := by
  rw [stepCore_norm cfg hc hpf hmv s, stepCore_norm cfg hc hpf hmv s', h]

theorem tokenEndFast_norm (s : St) (f : Fast) (b : UInt8) :
    nrF (tokenEndFast refTables cfg s f b) = nrF (tokenEndFast refTables cfg (norm s) f b) := by
  have hk : (norm s).stack = s.stack := rfl
  have ht : (norm s).tmp = s.tmp := rfl
  unfold tokenEndFast
  simp only [hc, Bool.not_false, Bool.and_true, Bool.false_eq_true, ↓reduceIte, hk, ht]
  by_cases hb : b = 40
  · simp only [hb, decide_true, ↓reduceIte, nrF]
    rw [startP_norm]
  · simp only [hb, decide_false, Bool.false_eq_true, ↓reduceIte]
    rw [norm_def, addTokenP_frame]
    cases h1 : s.addTokenP s.tmp.reverse with
    | error e => rfl
    | ok a =>
      simp only [mapS]
      have hd1 := addTokenP_dead h1
      have hn : norm (setScr (liveScr s.mode s) a) = norm a := norm_setScr_dead _ a hd1
      have hdl : nrS (deliver refTables cfg a) = nrS (deliver refTables cfg (setScr (liveScr s.mode s) a)) := by
        rw [deliver_norm cfg hc hpf hmv a, deliver_norm cfg hc hpf hmv (setScr (liveScr s.mode s) a), hn]
      cases h3 : deliver refTables cfg a with
      | error e =>
        cases h4 : deliver refTables cfg (setScr (liveScr s.mode s) a) with
        | error e' => rw [h3, h4] at hdl; simp only [nrS, mapS, Except.error.injEq] at hdl; simp [nrF, hdl]
        | ok a' => rw [h3, h4] at hdl; simp [nrS, mapS] at hdl
      | ok a2 =>
        cases h4 : deliver refTables cfg (setScr (liveScr s.mode s) a) with
        | error e' => rw [h3, h4] at hdl; simp [nrS, mapS] at hdl
        | ok a2' =>
          rw [h3, h4] at hdl
          simp only [nrS, mapS, Except.ok.injEq] at hdl
          exact stepCore_congr cfg hc hpf hmv a2 a2' hdl _ b

theorem step_norm (s : St) (f : Fast) (b : UInt8) (l : Bool) :
    nrF (step refTables cfg s f b l) = nrF (step refTables cfg (norm s) f b l) := by
  have hm : (norm s).mode = s.mode := rfl
  unfold step
  simp only [hm]
  split
  · split
    · simp [nrF, norm_idem]
    · simp only [nrF]
      rw [addFeat_norm, addFeat_norm, norm_idem]
  · split
    · exact tokenEndFast_norm cfg hc hpf hmv s _ b
    · split
      · exact stepCore_congr cfg hc hpf hmv _ _ (by rw [addFeat_norm, addFeat_norm, norm_idem]) _ b
      · exact stepCore_norm cfg hc hpf hmv s _ b

theorem step_congr (s s' : St) (h : norm s = norm s') (f : Fast) (b : UInt8) (l : Bool) :
    nrF (step refTables cfg s f b l) = nrF (step refTables cfg s' f b l) := by
  rw [step_norm cfg hc hpf hmv s, step_norm cfg hc hpf hmv s', h]

end chain2

def nrB (r : Except Err (St × Fast × Pos)) : Except Err (St × Fast × Pos) :=
  match r with
  | .error e => .error e
  | .ok (s, f, p) => .ok (norm s, f, p)

def nrC (r : Except Err (St × Pos)) : Except Err (St × Pos) :=
  match r with
  | .error e => .error e
  | .ok (s, p) => .ok (norm s, p)

theorem norm_fields {s s' : St} (h : norm s = norm s') :
    s.mode = s'.mode ∧ s.feat = s'.feat ∧ s.plus = s'.plus ∧ s.lastStrKey = s'.lastStrKey ∧ s.lastKey = s'.lastKey ∧
    s.starts = s'.starts ∧ s.stack = s'.stack ∧ s.docs = s'.docs ∧ s.evs = s'.evs ∧ s.tmp = s'.tmp :=
  ⟨show (norm s).mode = (norm s').mode by rw [h], show (norm s).feat = (norm s').feat by rw [h],
   show (norm s).plus = (norm s').plus by rw [h], show (norm s).lastStrKey = (norm s').lastStrKey by rw [h],
   show (norm s).lastKey = (norm s').lastKey by rw [h], show (norm s).starts = (norm s').starts by rw [h],
   show (norm s).stack = (norm s').stack by rw [h], show (norm s).docs = (norm s').docs by rw [h],
   show (norm s).evs = (norm s').evs by rw [h], show (norm s).tmp = (norm s').tmp by rw [h]⟩

section chain3
variable (cfg : Cfg) (hc : cfg.tokenizer = false) (hpf : cfg.plusFault = false) (hmv : cfg.missingValue = false)
include hc hpf hmv

theorem runBytes_congr (bs : Bytes) : ∀ (s s' : St) (h : norm s = norm s') (f : Fast) (p : Pos),
    nrB (runBytes refTables cfg s f p bs) = nrB (runBytes refTables cfg s' f p bs) := by
  induction bs with
  | nil => intro s s' h f p; simp [runBytes, nrB, h]
  | cons b r ih =>
    intro s s' h f p
    have hs := step_congr cfg hc hpf hmv s s' h f b r.isEmpty
    obtain ⟨hm, hf, hp, hl, hk, _⟩ := norm_fields h
    have hcf : (cellFeat refTables cfg s b).feat = (cellFeat refTables cfg s' b).feat := by
      unfold cellFeat St.addFeat
      rw [hm, hf]
      cases refTables.act s'.mode b <;> simp only [] <;> (repeat' split) <;> simp_all
    simp only [runBytes]
    cases h1 : step refTables cfg s f b r.isEmpty with
    | error e =>
      cases h2 : step refTables cfg s' f b r.isEmpty with
      | error e' =>
        rw [h1, h2] at hs; simp only [nrF, Except.error.injEq] at hs
        simp [nrB, hs, hcf, hp, hl, hk]
      | ok x => rw [h1, h2] at hs; obtain ⟨_, _, _⟩ := x; simp [nrF] at hs
    | ok x =>
      obtain ⟨s1, f1, nl⟩ := x
      cases h2 : step refTables cfg s' f b r.isEmpty with
      | error e' => rw [h1, h2] at hs; simp [nrF] at hs
      | ok x' =>
        obtain ⟨s1', f1', nl'⟩ := x'
        rw [h1, h2] at hs
        simp only [nrF, Except.ok.injEq, Prod.mk.injEq] at hs
        obtain ⟨hs1, rfl, rfl⟩ := hs
        exact ih s1 s1' hs1 f1 _

theorem runChunks_congr (cs : List Bytes) : ∀ (s s' : St) (h : norm s = norm s') (p : Pos),
    nrC (runChunks refTables cfg s p cs) = nrC (runChunks refTables cfg s' p cs) := by
  induction cs with
  | nil => intro s s' h p; simp [runChunks, nrC, h]
  | cons c rest ih =>
    intro s s' h p
    have hb := runBytes_congr cfg hc hpf hmv c s s' h {} { p with off := 0 }
    simp only [runChunks]
    cases h1 : runBytes refTables cfg s {} { p with off := 0 } c with
    | error e =>
      cases h2 : runBytes refTables cfg s' {} { p with off := 0 } c with
      | error e' => rw [h1, h2] at hb; simp only [nrB, Except.error.injEq] at hb; simp [nrC, hb]
      | ok x => rw [h1, h2] at hb; obtain ⟨_, _, _⟩ := x; simp [nrB] at hb
    | ok x =>
      obtain ⟨s1, f1, p1⟩ := x
      cases h2 : runBytes refTables cfg s' {} { p with off := 0 } c with
      | error e' => rw [h1, h2] at hb; simp [nrB] at hb
      | ok x' =>
        obtain ⟨s1', f1', p1'⟩ := x'
        rw [h1, h2] at hb
        simp only [nrB, Except.ok.injEq, Prod.mk.injEq] at hb
        obtain ⟨hs1, _, rfl⟩ := hb
        exact ih s1 s1' hs1 p1

theorem finish_norm (s : St) (p : Pos) : finish refTables cfg s p = finish refTables cfg (norm s) p := by
  have hm : (norm s).mode = s.mode := rfl
  have hst : (norm s).starts = s.starts := rfl
  have hf : (norm s).feat = s.feat := rfl
  have hp : (norm s).plus = s.plus := rfl
  have hl : (norm s).lastStrKey = s.lastStrKey := rfl
  have hk : (norm s).lastKey = s.lastKey := rfl
  have ht : (norm s).tmp = s.tmp := rfl
  have hd : (norm s).docs = s.docs := rfl
  have he : (norm s).evs = s.evs := rfl
  unfold finish
  simp only [hm, hst, hf, hp, hl, hk, ht, hd, he, hc, Bool.false_eq_true, ↓reduceIte]
  split
  · rfl
  · cases hfin : refTables.fin s.mode <;> simp only []
    case n =>
      have hl' : numLive s.mode = true := fin_n_live _ hfin
      have hn : (norm s).num = s.num := by simp [norm, setScr, liveScr, hl']
      rw [hn, norm_def, addIgnore_frame]
      cases s.addIgnore s.num.asNum.toJV with
      | error e => rfl
      | ok a => rfl
    case t =>
      rw [norm_def, addTokenP_frame]
      cases s.addTokenP s.tmp.reverse with
      | error e => rfl
      | ok a => rfl

theorem finish_congr (s s' : St) (h : norm s = norm s') (p : Pos) :
    finish refTables cfg s p = finish refTables cfg s' p := by
  rw [finish_norm cfg hc hpf hmv s, finish_norm cfg hc hpf hmv s', h]

end chain3

/-- tail of an entry-point call once the BOM decision is made -/
def tailCall (T : Tables) (cfg : Cfg) (s : St) (cs : List Bytes) : Except Err Out :=
  match runChunks T cfg s {} cs with
  | .error e => .error e
  | .ok (s', p) => finish T cfg s' p

section final
variable (cfg : Cfg) (hc : cfg.tokenizer = false) (hpf : cfg.plusFault = false) (hmv : cfg.missingValue = false)
include hc hpf hmv

theorem entry_norm (prev prev' : St) (h1 : cfg.keepPlus = true → prev.plus = prev'.plus) (h2 : prev.lastKey = prev'.lastKey)
    (h3 : cfg.keepPlus = true → prev.lastStrKey = prev'.lastStrKey) : norm (prev.entry cfg) = norm (prev'.entry cfg) := by
  cases prev; cases prev'
  cases hk : cfg.keepPlus <;> simp_all [St.entry, norm, setScr, liveScr]

theorem tailCall_congr (s s' : St) (he : norm s = norm s') (cs : List Bytes) :
    tailCall refTables cfg s cs = tailCall refTables cfg s' cs := by
  have hr := runChunks_congr cfg hc hpf hmv cs _ _ he {}
  unfold tailCall
  cases h1 : runChunks refTables cfg s {} cs with
  | error e =>
    cases h2 : runChunks refTables cfg s' {} cs with
    | error e' => rw [h1, h2] at hr; simp only [nrC, Except.error.injEq] at hr; simp [hr]
    | ok x => rw [h1, h2] at hr; obtain ⟨_, _⟩ := x; simp [nrC] at hr
  | ok x =>
    obtain ⟨s1, p1⟩ := x
    cases h2 : runChunks refTables cfg s' {} cs with
    | error e' => rw [h1, h2] at hr; simp [nrC] at hr
    | ok x' =>
      obtain ⟨s1', p1'⟩ := x'
      rw [h1, h2] at hr
      simp only [nrC, Except.ok.injEq, Prod.mk.injEq] at hr
      obtain ⟨hs, rfl⟩ := hr
      exact finish_congr cfg hc hpf hmv s1 s1' hs p1

/-- a parser call over the reference tables depends on the state the previous call left only through
`lastKey` — and, before ece2934 (`keepPlus`), `plus` and `lastStrKey` -/
theorem call_congr_ref (prev prev' : St) (h1 : cfg.keepPlus = true → prev.plus = prev'.plus) (h2 : prev.lastKey = prev'.lastKey)
    (h3 : cfg.keepPlus = true → prev.lastStrKey = prev'.lastStrKey) (chunks : List Bytes) :
    call refTables cfg prev chunks = call refTables cfg prev' chunks := by
  have he := entry_norm cfg hc hpf hmv prev prev' h1 h2 h3
  have hcall : ∀ pv : St, call refTables cfg pv chunks =
      match (if cfg.reader then Json.topUp (chunks.filter (!·.isEmpty)) else chunks) with
      | [] => finish refTables cfg (pv.entry cfg) {}
      | c :: rest =>
        match (if cfg.reader then Json.bomRuleReader c else Json.bomRule c) with
        | .bad => .error { line := 1, col := 3, kind := .bom }
        | .strip r => tailCall refTables cfg (pv.entry cfg) (r :: rest)
        | .keep => tailCall refTables cfg (pv.entry cfg) (c :: rest) := by
    intro pv
    rw [call_ref]
    unfold callWith tailCall
    rfl
  rw [hcall prev, hcall prev']
  split
  · exact finish_congr cfg hc hpf hmv _ _ he {}
  · split
    · rfl
    · exact tailCall_congr cfg hc hpf hmv _ _ he _
    · exact tailCall_congr cfg hc hpf hmv _ _ he _

end final

end OjgVerif.Sen
