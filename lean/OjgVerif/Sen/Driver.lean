import OjgVerif.Common.Driver
import OjgVerif.Sen.Tables
import OjgVerif.Sen.Writer
import OjgVerif.Sen.WriterIndent
import OjgVerif.Sen.Layout
import OjgVerif.Sen.WriterStream
import OjgVerif.Sen.WriterSort
import OjgVerif.Json.Spec
/-! Driver ops of the SEN family (C10, C03sen, C06sen, C07sen). -/
namespace OjgVerif.Sen
open OjgVerif

def ErrKind.name : ErrKind → String
  | .byte => "byte" | .colon => "colon" | .number => "number" | .strChar => "strchar" | .escape => "escape"
  | .unicode => "unicode" | .extra => "extra" | .objClose => "objclose" | .arrClose => "arrclose"
  | .fnClose => "fnclose" | .notClosed => "notclosed" | .incomplete => "incomplete"
  | .expectedKey => "expectedkey" | .bom => "bom" | .hang => "hang"
  | .expectedValue => "expectedvalue" | .plusNoString => "plusnostring"
  | .fault w => "fault:" ++ w.replace " " "_"

def Ev.render : Ev → String
  | .objStart => "{" | .objEnd => "}" | .arrStart => "[" | .arrEnd => "]"
  | .key k => "K(" ++ toHexF k ++ ")"
  | .val v => v.render

def featStr (f : List Char) : String :=
  if f.isEmpty then "-" else String.ofList (f.mergeSort (fun a b => a.toNat ≤ b.toNat))

/-- `ok <documents ;-separated | callbacks ,-separated>|<deviations met>|<plus left set>` or
`err <line> <col> <kind>|<deviations met>` -/
def renderOut (tok : Bool) : Except Err Out → String
  | .ok o =>
    "ok " ++ (if tok then String.intercalate "," (o.evs.map Ev.render) else String.intercalate ";" (o.docs.map JV.render))
      ++ "|" ++ featStr o.feat ++ "|" ++ (if o.plus then "1" else "0") ++ "|" ++ toHexF o.lastStrKey ++ "|" ++ toHexF o.lastKey
  | .error e => "err " ++ toString e.line ++ " " ++ toString e.col ++ " " ++ e.kind.name ++ "|" ++ featStr e.feat
      ++ "|" ++ (if e.plus then "1" else "0") ++ "|" ++ toHexF e.lastStrKey ++ "|" ++ toHexF e.lastKey

def tablesOf (t : String) : Option Tables :=
  if t = "sen" then some senTables
  else if t = "ref" then some refTables
  else none

/-- split the input into chunks of the given lengths; the rest is the last chunk -/
def splitChunks : Bytes → List Nat → List Bytes
  | bs, [] => if bs.isEmpty then [] else [bs]
  | bs, n :: ns => if bs.isEmpty then [] else bs.take n :: splitChunks (bs.drop n) ns

def parseChunks (s : String) : Option (List Nat) :=
  if s = "-" then some []
  else (s.splitOn ",").mapM (fun t => t.toNat?)

/-- the token functions the harness registers with option `F` -/
def harnessFn (name : Bytes) : Option (List JV → JV) :=
  if name = [99, 110, 116] then some fun args => .int args.length          -- cnt
  else if name = [108, 115, 116] then some fun args => .arr args           -- lst
  else if name = [110, 117, 108] then some fun _ => .null                  -- nul
  else none

def optChars : List Char := ['r', 'F', 'I', 'K', 'M', '+', 'x', '-']

/-! ### reading a tree (canonical text, members in the order given) -/

def takeParen : List Char → List Char → Option (List Char × List Char)
  | [], _ => none
  | c :: r, acc => if c = ')' then some (acc.reverse, r) else takeParen r (c :: acc)

def decOfChars (cs : List Char) : Option Int :=
  match cs with
  | '-' :: r => (String.ofList r).toNat?.map fun n => - (n : Int)
  | _ => (String.ofList cs).toNat?.map fun n => (n : Int)

def readElems (rv : List Char → Option (JV × List Char)) : Nat → List Char → List JV → Option (JV × List Char)
  | 0, _, _ => none
  | k+1, cs, acc =>
    match rv cs with
    | none => none
    | some (v, rest) =>
      match rest with
      | ',' :: r => readElems rv k r (v :: acc)
      | ']' :: r => some (.arr (v :: acc).reverse, r)
      | _ => none

def readMembers (rv : List Char → Option (JV × List Char)) : Nat → List Char → List (Bytes × JV) →
    Option (JV × List Char)
  | 0, _, _ => none
  | k+1, cs, acc =>
    match cs with
    | 'K' :: '(' :: r =>
      match takeParen r [] with
      | none => none
      | some (hx, r1) =>
        match ofHex (String.ofList hx), rv r1 with
        | some key, some (v, rest) =>
          match rest with
          | ',' :: r2 => readMembers rv k r2 ((key, v) :: acc)
          | '}' :: r2 => some (.obj ((key, v) :: acc).reverse, r2)
          | _ => none
        | _, _ => none
    | _ => none

def readTree : Nat → List Char → Option (JV × List Char)
  | 0, _ => none
  | f+1, cs =>
    match cs with
    | 'n' :: r => some (.null, r)
    | 't' :: r => some (.bool true, r)
    | 'f' :: r => some (.bool false, r)
    | 'I' :: '(' :: r =>
      match takeParen r [] with
      | some (d, r1) => (decOfChars d).map fun i => (.int i, r1)
      | none => none
    | 'F' :: '(' :: r =>
      match takeParen r [] with
      | some (h, r1) => (ofHex (String.ofList h)).map fun t => (.flt t, r1)
      | none => none
    | 'S' :: '(' :: r =>
      match takeParen r [] with
      | some (h, r1) => (ofHex (String.ofList h)).map fun t => (.str t, r1)
      | none => none
    | '[' :: ']' :: r => some (.arr [], r)
    | '[' :: r => readElems (readTree f) (r.length + 1) r []
    | '{' :: '}' :: r => some (.obj [], r)
    | '{' :: r => readMembers (readTree f) (r.length + 1) r []
    | _ => none

def parseTree (s : String) : Option JV :=
  match readTree (s.length + 1) s.toList with
  | some (v, []) => some v
  | _ => none

/-- `run <tables> <P|T> <single|multi> <opts> <chunk lengths> <hex input>`.
opts: `r` reader entry point, `F` the harness token functions are registered, `+` the instance was
left with `plus` set, `x` (tokenizer) the instance was left expecting a key (no effect since f540857: `exkey`
is reset at entry); `I`, `K` switch the
pinned fast-path deviations fastInt, tokSlow OFF (the repaired machine); `M` (nlSkip off) is accepted and
has no effect since 7b94de8: the flag is off in the model of the code as it is.

`senstr <0|1 htmlSafe> <hex>` = AppendSENString; `tight <opts n e h> <tree>` = the tight writer. -/
def handleRun (tb fe md opts chunks hx lsk lk : String) : String :=
  match ofHex hx, tablesOf tb, parseChunks chunks, ofHex lsk, ofHex lk with
  | some bs, some T, some ns, some lastStrKey, some lastKey =>
    if md ≠ "single" && md ≠ "multi" then "bad-op"
    else if fe ≠ "P" && fe ≠ "T" then "bad-op"
    else if opts.toList.any (fun c => !optChars.contains c) then "bad-op"
    else
      let cfg : Cfg := {
        tokenizer := fe = "T", onlyOne := md = "single", reader := opts.contains 'r',
        fn := if opts.contains 'F' then harnessFn else fun _ => none,
        fastInt := !opts.contains 'I', tokSlow := !opts.contains 'K' }
      let prev : St := { plus := opts.contains '+', exkey := opts.contains 'x', lastStrKey := lastStrKey, lastKey := lastKey }
      renderOut cfg.tokenizer (call T cfg prev (if ns.isEmpty then [bs] else splitChunks bs ns))
  | _, _, _, _, _ => "bad-op"

/-! ### layouts up to the order of members (driver only: the order a writer chose is read off its text, the answer
is certified by `isLayout` on the reordered tree, which is what `C10_anylayout_partial` needs) -/

/-- the member whose name is written next -/
def pickMember (o : WOpts) (t : Bytes) : List (Bytes × JV) → List (Bytes × JV) → Option ((Bytes × JV) × List (Bytes × JV))
  | _, [] => none
  | seen, (k, v) :: r =>
    if !omitted o v && (match stripPrefix (senString k o.html) t with | some (58 :: _) => true | _ => false)
    then some ((k, v), seen.reverse ++ r) else pickMember o t ((k, v) :: seen) r

def reorderElems (rv : JV → Bytes → Option (JV × Bytes)) : List JV → Bytes → List JV → Option (List JV × Bytes)
  | [], t, acc => match t with | 93 :: r => some (acc.reverse, r) | _ => none
  | x :: xs, t, acc =>
    match rv x t with
    | none => none
    | some (x', r) => reorderElems rv xs (skipWs r) (x' :: acc)

def reorderMembers (o : WOpts) (rv : JV → Bytes → Option (JV × Bytes)) :
    Nat → List (Bytes × JV) → Bytes → List (Bytes × JV) → Option (List (Bytes × JV) × Bytes)
  | 0, _, _, _ => none
  | n+1, rem, t, acc =>
    match t with
    | 125 :: r => some (acc.reverse ++ rem, r)
    | _ =>
      match pickMember o t [] rem with
      | none => none
      | some ((k, v), rem') =>
        match stripPrefix (senString k o.html) t with
        | some (58 :: r2) =>
          match rv v (skipWs r2) with
          | some (v', r3) => reorderMembers o rv n rem' (skipWs r3) ((k, v') :: acc)
          | none => none
        | _ => none

/-- the tree with the members of every object in the order the text has them -/
def reorder (o : WOpts) : Nat → JV → Bytes → Option (JV × Bytes)
  | 0, _, _ => none
  | n+1, .arr xs, t =>
    match t with
    | 91 :: r => (reorderElems (reorder o n) xs (skipWs r) []).map fun p => (.arr p.1, p.2)
    | _ => none
  | n+1, .obj kvs, t =>
    match t with
    | 123 :: r => (reorderMembers o (reorder o n) (kvs.length + 1) kvs (skipWs r) []).map fun p => (.obj p.1, p.2)
    | _ => none
  | _+1, v, t => (layVal o v t).map fun r => (v, r)

/-- rendering that does not depend on the order of members -/
def canonRender : Nat → JV → String
  | 0, _ => "?"
  | n+1, .arr xs => "[" ++ String.intercalate "," (xs.map (canonRender n)) ++ "]"
  | n+1, .obj kvs =>
    "{" ++ String.intercalate "," ((kvs.map fun kv => toHexF kv.1 ++ ":" ++ canonRender n kv.2).mergeSort (fun a b => a ≤ b)) ++ "}"
  | _+1, v => v.render

def handle : List String → String
  | ["run", tb, fe, md, opts, chunks, hx] => handleRun tb fe md opts chunks hx "-" "-"
  -- the same on an instance whose previous call left `lastStrKey` and `lastKey` behind
  | ["run", tb, fe, md, opts, chunks, hx, lsk, lk] => handleRun tb fe md opts chunks hx lsk lk
  | ["senstr", h, hx] =>
    match ofHex hx with
    | some bs => if h = "1" then toHexF (senString bs true) else if h = "0" then toHexF (senString bs false) else "bad-op"
    | none => "bad-op"
  | ["tight", opts, tree] =>
    match parseTree tree with
    | some v =>
      -- `s` = `Sort`: the members are sorted first (`sortVal`), whatever order the tree gives them in
      if opts.toList.any (fun c => c ≠ 'n' && c ≠ 'e' && c ≠ 'h' && c ≠ 's' && c ≠ '-') then "bad-op"
      else toHexF (tightVal { omitNil := opts.contains 'n', omitEmpty := opts.contains 'e', html := opts.contains 'h' }
        (if opts.contains 's' then sortVal v else v))
    | none => "bad-op"
  -- `indent <opts n e h> <tab 0|1> <Indent> <tree>` = sen.Writer with these options (the indented writer when
  -- `Tab || 0 < Indent`, the tight one otherwise: `senWrite`)
  | ["indent", opts, tab, ind, tree] =>
    match parseTree tree, ind.toNat? with
    | some v, some n =>
      if opts.toList.any (fun c => c ≠ 'n' && c ≠ 'e' && c ≠ 'h' && c ≠ 's' && c ≠ '-') then "bad-op"
      else if tab ≠ "0" && tab ≠ "1" then "bad-op"
      else toHexF (senWrite { omitNil := opts.contains 'n', omitEmpty := opts.contains 'e', html := opts.contains 'h' }
        { tab := tab = "1", indent := n } (if opts.contains 's' then sortVal v else v))
    | _, _ => "bad-op"
  -- `numadm <hex>`: is the text a complete number literal of the grammar of Props/C10Num.lean (`NumAdm`: RFC 8259
  -- number, integer part below 9223372036854775800)? `Spec.pNumber t = some (t, [])` is the hypothesis of
  -- `numAdm_of_pNumber`; the integer part is the digit run after the optional `-`
  | ["numadm", hx] =>
    match ofHex hx with
    | some t =>
      let ip := (Json.Spec.takeDigits (match t with | 45 :: r => r | _ => t)).1
      if Json.Spec.pNumber t == some (t, []) && decide (ip.foldl (fun a b => a * 10 + (b.toNat - 48)) 0 < 9223372036854775800)
      then "1" else "0"
    | none => "bad-op"
  -- `laycheck <opts n e h> <tree> <hex text>`: is the text a white-space layout of the tree (`Sen.isLayout`, the
  -- hypothesis of `C10_anylayout_partial`)?
  | ["laycheck", opts, tree, hx] =>
    match parseTree tree, ofHex hx with
    | some v, some t =>
      if opts.toList.any (fun c => c ≠ 'n' && c ≠ 'e' && c ≠ 'h' && c ≠ '-') then "bad-op"
      else
        let o : WOpts := { omitNil := opts.contains 'n', omitEmpty := opts.contains 'e', html := opts.contains 'h' }
        if isLayout o v t then "1"
        else
          -- the same members in another order (pretty with Align writes the members in the order of its column table)
          match reorder o (tree.length + 2) v t with
          | some (v', []) =>
            if isLayout o v' t && canonRender (tree.length + 2) v' == canonRender (tree.length + 2) v then "1r" else "0"
          | _ => "0"
    | _, _ => "bad-op"
  -- `swrite <opts n e h> <tab 0|1> <Indent> <WriteLimit> <tree>` = the chunks sen.Write hands to the io.Writer
  -- (`senWriteTo`), hex, comma separated; `panic` if an index went out of range
  | ["swrite", opts, tab, ind, lim, tree] =>
    match parseTree tree, ind.toNat?, lim.toNat? with
    | some v, some n, some l =>
      if opts.toList.any (fun c => c ≠ 'n' && c ≠ 'e' && c ≠ 'h' && c ≠ '-') then "bad-op"
      else if tab ≠ "0" && tab ≠ "1" then "bad-op"
      else
        match senWriteTo { omitNil := opts.contains 'n', omitEmpty := opts.contains 'e', html := opts.contains 'h' }
            { tab := tab = "1", indent := n } l v with
        | some cs => if cs.isEmpty then "-" else String.intercalate "," (cs.map toHexF)
        | none => "panic"
    | _, _, _ => "bad-op"
  | ["byteclass"] =>
    -- for every byte: its senMap class and what the parser tables do with it where a string or key
    -- written by AppendSENString can put it (the harness picks class representatives from this)
    String.intercalate "," ((List.range 256).map fun i =>
      let b := UInt8.ofNat i
      toString (senClass b).toNat ++ "." ++ reprStr (senTables.act .value b) ++ "." ++ reprStr (senTables.act .token b)
        ++ "." ++ reprStr (senTables.act .string b) ++ "." ++ reprStr (senTables.act .esc b))
  | _ => "bad-op"

end OjgVerif.Sen
