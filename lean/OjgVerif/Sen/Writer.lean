import OjgVerif.Writer.Utf8
import OjgVerif.Json.Number
import OjgVerif.Gen.Root
/-! # Model of `ojg.AppendSENString` (string.go) and of the tight SEN writer (sen/tight.go)

`AppendSENString` writes the opening quote, runs one loop over the bytes of the string that escapes
what has to be escaped and, on the way, decides whether the quotes are needed at all; if not, the
opening quote is removed again. The decision is read from the GENERATED table `senMap`, the first
byte, and `maxTokenLen`. The loop is split here into the text it produces (`senBody`) and the
decision it takes (`senForce`); both follow the Go `switch` case by case.

`utf8.DecodeRuneInString` is `Writer.utf8Decode` (shared with the C04 family; compared with the Go
standard library by the correspondence runs). -/
namespace OjgVerif.Sen
open OjgVerif
open OjgVerif.Writer (utf8Decode runeError)

/-- `senMap[b]` -/
def senClass (b : UInt8) : UInt8 := Gen.Root.senMap.getD b.toNat 0

/-- `hex[n]` -/
def hexDigit (n : UInt8) : UInt8 := Gen.Root.hex.getD n.toNat 0

/-- `\u00` followed by the two hex digits of the byte -/
def u00 (b : UInt8) : Bytes := [92, 117, 48, 48, hexDigit ((b >>> 4) &&& 0x0f), hexDigit (b &&& 0x0f)]

def esc2028 : Bytes := [92, 117, 50, 48, 50, 56]
def esc2029 : Bytes := [92, 117, 50, 48, 50, 57]
def escFFFD : Bytes := [92, 117, 102, 102, 102, 100]

/-- class letters of `senMap` -/
def cO : UInt8 := 111   -- 'o' bare-token byte
def c0 : UInt8 := 48    -- '0' digit: fine inside a token, not as its first byte
def cX : UInt8 := 120   -- 'x' needs quotes, no escape
def cDot : UInt8 := 46  -- '.' \u00XX
def cH : UInt8 := 104   -- 'h' \u00XX when htmlSafe
def c8 : UInt8 := 56    -- '8' start of a multi-byte sequence

/-- the text the loop produces between the quotes; `skip` = bytes of the current multi-byte sequence
still to pass over, `copy` = whether they are part of the verbatim run -/
def senBody (html : Bool) : Nat → Bool → Bytes → Bytes
  | _, _, [] => []
  | skip+1, copy, b :: r =>
    if copy then b :: senBody html skip copy r else senBody html skip copy r
  | 0, _, b :: r =>
    if senClass b = cO || senClass b = c0 || senClass b = cX then b :: senBody html 0 true r
    else if senClass b = cDot then u00 b ++ senBody html 0 true r
    else if senClass b = cH then
      if html then u00 b ++ senBody html 0 true r else b :: senBody html 0 true r
    else if senClass b = c8 then
      if (utf8Decode (b :: r)).1 = 0x2028 then esc2028 ++ senBody html ((utf8Decode (b :: r)).2 - 1) false r
      else if (utf8Decode (b :: r)).1 = 0x2029 then esc2029 ++ senBody html ((utf8Decode (b :: r)).2 - 1) false r
      else if (utf8Decode (b :: r)).1 = runeError then escFFFD ++ senBody html ((utf8Decode (b :: r)).2 - 1) false r
      else b :: senBody html ((utf8Decode (b :: r)).2 - 1) true r
    else [92, senClass b] ++ senBody html 0 true r

/-- whether some byte of the string sets `quote = true` in the loop -/
def senForce (html : Bool) : Nat → Bytes → Bool
  | _, [] => false
  | skip+1, _ :: r => senForce html skip r
  | 0, b :: r =>
    if senClass b = cO || senClass b = c0 then senForce html 0 r
    else if senClass b = cX then true
    else if senClass b = cDot then true
    else if senClass b = cH then html || b = 38 || senForce html 0 r     -- `&` is not a parser token byte (9fd0aeb)
    else if senClass b = c8 then
      if (utf8Decode (b :: r)).1 = 0x2028 || (utf8Decode (b :: r)).1 = 0x2029 || (utf8Decode (b :: r)).1 = runeError
      then true
      else senForce html ((utf8Decode (b :: r)).2 - 1) r
    else true

/-- `senForce` BEFORE 9fd0aeb: `&` did not ask for quotes when not htmlSafe -/
def senForceBefore (html : Bool) : Nat → Bytes → Bool
  | _, [] => false
  | skip+1, _ :: r => senForceBefore html skip r
  | 0, b :: r =>
    if senClass b = cO || senClass b = c0 then senForceBefore html 0 r
    else if senClass b = cX then true
    else if senClass b = cDot then true
    else if senClass b = cH then html || senForceBefore html 0 r
    else if senClass b = c8 then
      if (utf8Decode (b :: r)).1 = 0x2028 || (utf8Decode (b :: r)).1 = 0x2029 || (utf8Decode (b :: r)).1 = runeError
      then true
      else senForceBefore html ((utf8Decode (b :: r)).2 - 1) r
    else true

def maxTokenLen : Nat := Gen.Root.maxTokenLen_int.toNat

/-- the initial value of `quote`: too long for a token, or the first byte cannot start one -/
def firstForces (html : Bool) (s : Bytes) : Bool :=
  match s with
  | [] => false
  | b :: _ =>
    decide (maxTokenLen < s.length) ||
      (senClass b != cO && senClass b != c8 && !(!html && senClass b == cH))

/-- whether `AppendSENString` keeps the quotes -/
def senQuoted (s : Bytes) (html : Bool) : Bool := firstForces html s || senForce html 0 s

/-- `ojg.AppendSENString(nil, s, htmlSafe)` -/
def senString (s : Bytes) (html : Bool) : Bytes :=
  if s.isEmpty then [34, 34]
  else if senQuoted s html then 34 :: (senBody html 0 true s ++ [34])
  else senBody html 0 true s

/-- `AppendSENString` BEFORE 9fd0aeb (for the `_before` witness; the two `senMap` cells of that commit are
regenerated data and cannot be turned back here) -/
def senStringBefore (s : Bytes) (html : Bool) : Bytes :=
  if s.isEmpty then [34, 34]
  else if firstForces html s || senForceBefore html 0 s then 34 :: (senBody html 0 true s ++ [34])
  else senBody html 0 true s

/-! ## the tight writer (`Indent == 0`, no `Tab`): sen/tight.go over simple data -/

structure WOpts where
  omitNil : Bool := false
  omitEmpty : Bool := false
  html : Bool := false          -- `!wr.HTMLUnsafe`
  deriving Inhabited

/-- `strconv.AppendInt(buf, i, 10)` -/
def fmtInt (i : Int) : Bytes :=
  if i < 0 then 45 :: Json.fmtNat i.natAbs else Json.fmtNat i.natAbs

/-- members `tightObject` passes over -/
def omitted (o : WOpts) : JV → Bool
  | .null => o.omitNil
  | .str [] => o.omitEmpty
  | .arr [] => o.omitEmpty
  | .obj [] => o.omitEmpty
  | _ => false

/-- `wr.needSep` after `appendSEN(v)`: containers need no separator after them -/
def needSep : JV → Bool
  | .arr _ => false
  | .obj _ => false
  | _ => true

mutual
  /-- `wr.appendSEN(v, 0)` with the tight functions; objects are written in the order given (the order
  `tightSortObject` sorts into, or the iteration order of the Go map). A float is the text
  `strconv.AppendFloat(…, 'g', -1, 64)` produced, carried in `.flt`. -/
  def tightVal (o : WOpts) : JV → Bytes
    | .null => [110, 117, 108, 108]
    | .bool true => [116, 114, 117, 101]
    | .bool false => [102, 97, 108, 115, 101]
    | .int i => fmtInt i
    | .flt t => t
    | .big t => t
    | .num t => t
    | .str s => senString s o.html
    | .arr xs => 91 :: tightElems o xs
    | .obj kvs => 123 :: tightMembers o kvs true
  /-- the elements after `[`: a space after every scalar, nothing after a container, and `]` in place
  of the last space -/
  def tightElems (o : WOpts) : List JV → Bytes
    | [] => [93]
    | [x] => tightVal o x ++ [93]
    | x :: r => tightVal o x ++ (if needSep x then [32] else []) ++ tightElems o r
  /-- `key:value` pairs separated by one space, `}` at the end -/
  def tightMembers (o : WOpts) : List (Bytes × JV) → Bool → Bytes
    | [], _ => [125]
    | (k, v) :: r, first =>
      if omitted o v then tightMembers o r first
      else (if first then [] else [32]) ++ senString k o.html ++ [58] ++ tightVal o v ++ tightMembers o r false
end

end OjgVerif.Sen
