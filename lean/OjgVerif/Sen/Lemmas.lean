import OjgVerif.Sen.Tables
/-! Helper lemmas for the SEN machine family: the regenerated tables are the reference tables
(`TablesOK senTables`, kernel evaluation row by row), and the machine over any `TablesOK` table set is
the machine over the reference. -/
namespace OjgVerif.Sen
open OjgVerif

theorem Mode.mem_all (m : Mode) : m ∈ Mode.all := by
  cases m <;> decide

/-- a row-wise comparison of a table with a function gives every cell -/
theorem getD_of_rows {α β : Type} (a : Array α) (f : α → β) (g : Nat → β) (d : α)
    (h : (a.toList.take 256).map f = (List.range 256).map g) (i : Nat) (hi : i < 256) :
    f (a.getD i d) = g i := by
  have h1 : ((a.toList.take 256).map f)[i]? = ((List.range 256).map g)[i]? := by rw [h]
  simp only [List.getElem?_map, List.getElem?_take, hi, ↓reduceIte, List.getElem?_range, Option.map_some] at h1
  cases hx : a.toList[i]? with
  | none => rw [hx] at h1; simp at h1
  | some x =>
    rw [hx] at h1
    simp only [Option.map_some, Option.some.injEq] at h1
    have : a[i]? = some x := by simpa using hx
    have hlt : i < a.size := by
      rcases Nat.lt_or_ge i a.size with h | h
      · exact h
      · rw [Array.getElem?_eq_none h] at this; cases this
    rw [Array.getD, dif_pos hlt]
    rw [Array.getElem?_eq_getElem hlt] at this
    cases this
    exact h1

/-- lift a Boolean check over all modes and all 256 byte values to a universally quantified fact -/
theorem forall_mode_byte (P : Mode → UInt8 → Bool)
    (h : (Mode.all.all fun m => (List.range 256).all fun i => P m (UInt8.ofNat i)) = true) :
    ∀ m b, P m b = true := by
  intro m b
  simp only [List.all_eq_true, List.mem_range] at h
  have := h m (Mode.mem_all m) b.toNat b.toNat_lt
  simpa using this

/-- lift a Boolean check over all 256 byte values -/
theorem forall_byte (P : UInt8 → Bool) (h : ((List.range 256).all fun i => P (UInt8.ofNat i)) = true) :
    ∀ b, P b = true := by
  intro b
  simp only [List.all_eq_true, List.mem_range] at h
  have := h b.toNat b.toNat_lt
  simpa using this

/-- all 20 × 256 cells decode to the reference transition -/
def cellsOK (tbl : Mode → Array UInt8) : Bool :=
  Mode.all.all fun m =>
    ((tbl m).toList.take 256).map decode == (List.range 256).map fun i => expected m (UInt8.ofNat i)

/-- the end markers (257th byte, or its absence) are the reference ones -/
def finsOK (tbl : Mode → Array UInt8) : Bool :=
  Mode.all.all fun m => decodeFin (tbl m) == expectedFin m

/-- the nine bytes the reference sends to `escOk` -/
def escBytes : List UInt8 := [34, 39, 47, 92, 98, 102, 110, 114, 116]

theorem escOk_mem (b : UInt8) (h : expected .esc b = .escOk) : b ∈ escBytes := by
  have := forall_byte (fun b => !(expected .esc b == .escOk) || escBytes.contains b) (by decide +kernel) b
  simpa [h] using this

def escOK (esc : Array UInt8) : Bool :=
  escBytes.all fun b => esc.getD b.toNat 0 == unesc b

theorem escOk_only_in_esc (m : Mode) (b : UInt8) (h : expected m b = .escOk) : m = .esc := by
  have := forall_mode_byte (fun m b => !(expected m b == .escOk) || m == .esc) (by decide +kernel) m b
  simpa [h] using this

/-- **Every cell of the 20 regenerated `sen/maps.go` mode tables, every end marker and every consulted
unescape entry is the reference transition** (re-checked against `Gen.Sen` on every run) -/
theorem senTables_ok : TablesOK senTables where
  act := by
    intro m b
    have h1 : cellsOK senTbl = true := by decide +kernel
    simp only [cellsOK, List.all_eq_true, beq_iff_eq] at h1
    have := getD_of_rows (senTbl m) decode (fun i => expected m (UInt8.ofNat i)) 0 (h1 m (Mode.mem_all m)) b.toNat b.toNat_lt
    simpa [senTables] using this
  fin := by
    intro m
    have h2 : finsOK senTbl = true := by decide +kernel
    simp only [finsOK, List.all_eq_true, beq_iff_eq] at h2
    simpa [senTables] using h2 m (Mode.mem_all m)
  esc := by
    intro b hb
    have h3 : escOK Gen.Sen.escByteMap = true := by decide +kernel
    simp only [escOK, List.all_eq_true, beq_iff_eq] at h3
    simpa [senTables] using h3 b (escOk_mem b hb)
  -- the regenerated length tests of the BOM handling (`cnt < 4`, `3 < len(buf)`) of sen/parser.go …
  bomP := by decide
  -- … and of sen/tokenizer.go
  bomT := by decide

/-- the action codes of `sen/maps.go` are pairwise distinct -/
theorem codes_distinct : codeList.Nodup := by decide +kernel

section eqref
variable {T : Tables} (hT : TablesOK T) (cfg : Cfg)
include hT

theorem act_eq_ref : T.act = refTables.act :=
  funext fun m => funext fun b => hT.act m b

theorem fin_eq_ref : T.fin = refTables.fin :=
  funext fun m => hT.fin m

theorem flushP_eq_ref (s : St) : s.flushP T = s.flushP refTables := by
  unfold St.flushP; rw [fin_eq_ref hT]

theorem flushCloseP_eq_ref (s : St) : s.flushCloseP T = s.flushCloseP refTables := by
  unfold St.flushCloseP; rw [fin_eq_ref hT]

theorem flushT_eq_ref (s : St) : s.flushT T = s.flushT refTables := by
  unfold St.flushT; rw [fin_eq_ref hT]

theorem flushCloseT_eq_ref (s : St) : s.flushCloseT T = s.flushCloseT refTables := by
  unfold St.flushCloseT; rw [fin_eq_ref hT]

theorem stepActP_eq_ref (s : St) (i : Bool) (b : UInt8) : stepActP T cfg s i b = stepActP refTables cfg s i b := by
  unfold stepActP
  rw [act_eq_ref hT]
  cases hact : refTables.act s.mode b <;>
    simp only [flushP_eq_ref hT, flushCloseP_eq_ref hT]
  case escOk =>
    have hm := escOk_only_in_esc _ _ hact
    rw [hm] at hact
    rw [hT.esc b hact]
    rfl

theorem stepActT_eq_ref (s : St) (b : UInt8) : stepActT T cfg s b = stepActT refTables cfg s b := by
  unfold stepActT
  rw [act_eq_ref hT]
  cases hact : refTables.act s.mode b <;>
    simp only [flushT_eq_ref hT, flushCloseT_eq_ref hT]
  case escOk =>
    have hm := escOk_only_in_esc _ _ hact
    rw [hm] at hact
    rw [hT.esc b hact]
    rfl

theorem deliver_eq_ref (s : St) : deliver T cfg s = deliver refTables cfg s := by
  unfold deliver; rw [fin_eq_ref hT]

theorem stepCore_eq_ref (s : St) (f : Fast) (b : UInt8) : stepCore T cfg s f b = stepCore refTables cfg s f b := by
  unfold stepCore stepAct
  rw [stepActP_eq_ref hT, stepActT_eq_ref hT, act_eq_ref hT]
  simp only [deliver_eq_ref hT]

theorem tokenEndFast_eq_ref (s : St) (f : Fast) (b : UInt8) :
    tokenEndFast T cfg s f b = tokenEndFast refTables cfg s f b := by
  unfold tokenEndFast
  simp only [deliver_eq_ref hT, stepCore_eq_ref hT]

theorem step_eq_ref (s : St) (f : Fast) (b : UInt8) (l : Bool) : step T cfg s f b l = step refTables cfg s f b l := by
  unfold step
  rw [act_eq_ref hT]
  simp only [tokenEndFast_eq_ref hT, stepCore_eq_ref hT]

theorem cellFeat_eq_ref (s : St) (b : UInt8) : cellFeat T cfg s b = cellFeat refTables cfg s b := by
  unfold cellFeat; rw [act_eq_ref hT]

theorem runBytes_eq_ref (s : St) (f : Fast) (p : Pos) (bs : Bytes) :
    runBytes T cfg s f p bs = runBytes refTables cfg s f p bs := by
  induction bs generalizing s f p with
  | nil => rfl
  | cons b r ih =>
    simp only [runBytes, step_eq_ref hT, cellFeat_eq_ref hT]
    split
    · rfl
    · exact ih _ _ _

theorem runChunks_eq_ref (s : St) (p : Pos) (cs : List Bytes) :
    runChunks T cfg s p cs = runChunks refTables cfg s p cs := by
  induction cs generalizing s p with
  | nil => rfl
  | cons c r ih =>
    simp only [runChunks, runBytes_eq_ref hT]
    split
    · rfl
    · exact ih _ _

theorem finish_eq_ref (s : St) (p : Pos) : finish T cfg s p = finish refTables cfg s p := by
  unfold finish; rw [fin_eq_ref hT]

theorem bom_eq_ref : T.bom cfg = refTables.bom cfg := by
  unfold Tables.bom
  rw [hT.bomP, hT.bomT]
  rfl

/-- **The machine over a table set that passes `TablesOK` is the machine over the readable reference**:
same documents / callbacks, same error kind, line and column, same deviation marks, for the parser and
the tokenizer profile, every configuration, every prior instance state and every chunking. -/
theorem call_eq_ref (prev : St) (chunks : List Bytes) : call T cfg prev chunks = call refTables cfg prev chunks := by
  unfold call callWith
  rw [bom_eq_ref hT]
  simp only [runChunks_eq_ref hT, finish_eq_ref hT]

theorem run_eq_ref (chunks : List Bytes) : run T cfg chunks = run refTables cfg chunks :=
  call_eq_ref hT cfg {} chunks

end eqref

/-! ## the reference BOM handling is the one of the JSON machine (`Json.topUp`, `Json.bomRuleReader`, `Json.bomRule`) -/

theorem topUpAuxN_four (acc : Bytes) (cs : List Bytes) : topUpAuxN 4 acc cs = Json.topUpAux acc cs := by
  induction cs generalizing acc with
  | nil => rfl
  | cons d rest ih =>
    simp only [topUpAuxN, Json.topUpAux, ih]

theorem topUpN_four : topUpN 4 = Json.topUp := by
  funext cs
  cases cs with
  | nil => rfl
  | cons c r => exact topUpAuxN_four c r

theorem bomRuleReaderN_three : bomRuleReaderN 3 = Json.bomRuleReader := by
  funext bs
  unfold bomRuleReaderN
  split
  next r => cases r <;> simp [Json.bomRuleReader]
  next h =>
    unfold Json.bomRuleReader
    split
    next r => exact absurd rfl (h r)
    next => rfl

theorem bomRuleN_three : bomRuleN 3 = Json.bomRule := by
  funext bs
  unfold bomRuleN
  split
  next b1 b2 r => cases r <;> simp [Json.bomRule]
  next h =>
    unfold Json.bomRule
    split
    next b1 b2 r => exact absurd rfl (h b1 b2 r)
    next => rfl

/-- over the reference tables a call is the call with the BOM handling of the JSON machine -/
theorem call_ref (cfg : Cfg) (prev : St) (chunks : List Bytes) :
    call refTables cfg prev chunks = callWith refTables cfg Json.topUp Json.bomRuleReader Json.bomRule prev chunks := by
  unfold call
  have : refTables.bom cfg = {} := by unfold Tables.bom refTables; split <;> rfl
  rw [this, topUpN_four, bomRuleReaderN_three, bomRuleN_three]

end OjgVerif.Sen
