import OjgVerif.Sen.Lemmas
import OjgVerif.Json.FastSlow
/-! The machine as it is (integer fast loop and token-end fast path on) against the repaired machine:
`call_eq_repaired`. A call whose run takes no pinned fast-path deviation (`deviates`, a decidable predicate
of configuration, prior state, input and chunking: at some byte the integer fast loop reads a digit while the
accumulator equals `BigLimit`, or a bare token that did not start in the current read buffer is ended by a
byte other than space, tab, CR, LF) is the call of the machine with both fast paths switched off. Lock-step
simulation: the states are equal, only the fast-path record differs; the integer loop's digit step is
`AddDigit` unless the accumulator equals `BigLimit` (`Json.fast_digit_eq_slow`); the token-end case of the
switch on white space does what the fast path does (`wsTokenEnd`: add the token, the end-of-document test, the
same byte again in the new mode, where it is skipped — read off the reference tables by kernel evaluation). -/
set_option linter.unusedSimpArgs false
set_option linter.unusedVariables false
set_option linter.unusedSectionVars false
namespace OjgVerif.Sen
open OjgVerif
open OjgVerif.Json (BigLimit)

/-- the machine with the two pinned fast paths switched off -/
def Cfg.rep (cfg : Cfg) : Cfg := { cfg with fastInt := false, tokSlow := false }

/-- **this byte takes one of the two pinned fast-path deviations**: the integer fast loop reads a digit while
the accumulator equals `BigLimit` (the 19th digit after 922337203685477580), or a bare token that did not
start in the current read buffer is ended by a byte other than space, tab, CR, LF -/
def devStep (cfg : Cfg) (s : St) (f : Fast) (b : UInt8) : Bool :=
  (f.inFast && refTables.act s.mode b == .numDigit && s.num.i == BigLimit) ||
  (s.mode == .token && refTables.act .token b != .tokenOk && !f.tokFast && cfg.tokSlow && !isWsNl b)

/-- inside the integer fast loop the number is not in text form -/
def FastInv (cfg : Cfg) (s : St) (f : Fast) : Prop :=
  (f.inFast = true → cfg.tokenizer = false ∧ s.num.big = []) ∧ f.nlSkipping = false

theorem numDigit_isDigit (m : Mode) (b : UInt8) (h : expected m b = .numDigit) : Json.isDigitB b := by
  have := forall_mode_byte (fun m b => !(expected m b == .numDigit) || (48 ≤ b && b ≤ 57)) (by decide +kernel) m b
  simp only [h, beq_self_eq_true, Bool.not_true, Bool.false_or, Bool.and_eq_true, decide_eq_true_eq] at this
  have h1 := this.1; have h2 := this.2
  rw [UInt8.le_iff_toNat_le] at h1 h2
  exact ⟨by simpa using h1, by simpa using h2⟩

theorem ws_token (b : UInt8) (h : isWsNl b = true) :
    (b ≠ 10 → expected .token b = .tokenSpc) ∧ (b = 10 → expected .token b = .tokenNlColon) := by
  simp only [isWsNl, Bool.or_eq_true, decide_eq_true_eq] at h
  rcases h with ((h | h) | h) | h <;> subst h <;> exact ⟨fun h => by first | (exact absurd rfl h) | decide +kernel, fun h => by first | (exact absurd h (by decide)) | decide +kernel⟩

/-- white space and newline are skipped in the modes a finished token leaves -/
theorem ws_skip (m : Mode) (hm : m = .value ∨ m = .colon ∨ m = .space) (b : UInt8) (h : isWsNl b = true) :
    (b ≠ 10 → expected m b = .skipChar) ∧ (b = 10 → expected m b = .skipNewline) := by
  simp only [isWsNl, Bool.or_eq_true, decide_eq_true_eq] at h
  rcases hm with rfl | rfl | rfl <;> rcases h with ((h | h) | h) | h <;> subst h <;>
    exact ⟨fun h => by first | (exact absurd rfl h) | decide +kernel, fun h => by first | (exact absurd h (by decide)) | decide +kernel⟩

/-! ### the switch does not look at the two flags; the fast-loop argument matters for one digit value only -/

theorem stepAct_rep (cfg : Cfg) (s : St) (i : Bool) (b : UInt8) :
    stepAct refTables cfg.rep s i b = stepAct refTables cfg s i b := by
  unfold stepAct stepActP stepActT
  rfl

theorem deliver_rep (cfg : Cfg) (s : St) : deliver refTables cfg.rep s = deliver refTables cfg s := by
  unfold deliver deliverP
  rfl

theorem big_gt (x : UInt64) (h1 : BigLimit ≤ x) (h2 : x ≠ BigLimit) (d : Nat) :
    ¬ x.toNat * 10 + d ≤ 9223372036854775807 := by
  have hBL : BigLimit.toNat = 922337203685477580 := rfl
  have h1' : BigLimit.toNat ≤ x.toNat := by rwa [UInt64.le_iff_toNat_le] at h1
  have h2' : x.toNat ≠ BigLimit.toNat := fun h => h2 (UInt64.toNat_inj.mp h)
  omega

theorem stepActP_noFast (cfg : Cfg) (s : St) (b : UInt8) (hinv : s.num.big = [])
    (hnd : ¬ (expected s.mode b = .numDigit ∧ s.num.i = BigLimit)) :
    stepActP refTables cfg s true b = stepActP refTables cfg s false b := by
  by_cases hd : expected s.mode b = .numDigit
  · have hne : s.num.i ≠ BigLimit := fun h => hnd ⟨hd, h⟩
    have hb := numDigit_isDigit s.mode b hd
    unfold stepActP
    simp only [refTables, hd, ↓reduceIte, Bool.true_and, Bool.false_and, Bool.false_eq_true]
    have hnum := Json.fast_digit_eq_slow s.num b hinv hne hb
    rw [hnum]
    by_cases hle : BigLimit ≤ s.num.i
    · have := big_gt s.num.i hle hne (b - 48).toNat
      simp only [hle, decide_true, Bool.true_and, this, decide_false, Bool.false_eq_true, ↓reduceIte]
    · simp only [hle, decide_false, Bool.false_and, Bool.false_eq_true, ↓reduceIte]
  · unfold stepActP
    simp only [refTables]
    cases h : expected s.mode b <;> first | rfl | (exact absurd h hd)

theorem nextFast_rep (cfg : Cfg) (hnl : cfg.nlSkip = false) (a : Act) (i : UInt64) : nextFast cfg.rep a i {} = {} := by
  unfold nextFast
  cases a <;> simp [Cfg.rep, hnl]

def dropF (r : Except ErrKind (St × Fast × Bool)) : Except ErrKind (St × Fast × Bool) :=
  match r with
  | .error e => .error e
  | .ok (s, _, n) => .ok (s, {}, n)

section sim
variable (cfg : Cfg) (hnl : cfg.nlSkip = false)
include hnl

theorem stepCore_sim (s : St) (f : Fast) (b : UInt8) (hI : FastInv cfg s f)
    (hnd : ¬ (f.inFast = true ∧ expected s.mode b = .numDigit ∧ s.num.i = BigLimit)) :
    dropF (stepCore refTables cfg s f b) = stepCore refTables cfg.rep s {} b := by
  unfold stepCore
  rw [stepAct_rep]
  simp only [deliver_rep, nextFast_rep cfg hnl]
  have hA : stepAct refTables cfg s f.inFast b = stepAct refTables cfg s ({} : Fast).inFast b := by
    unfold stepAct
    split
    · rfl
    · cases hf : f.inFast with
      | false => rfl
      | true => exact stepActP_noFast cfg s b (hI.1 hf).2 (fun h => hnd ⟨hf, h.1, h.2⟩)
  rw [hA]
  cases stepAct refTables cfg s ({} : Fast).inFast b with
  | error e => rfl
  | ok r =>
    obtain ⟨s1, c, nl⟩ := r
    simp only []
    split
    · rfl
    · cases deliver refTables cfg s1 with
      | error e => rfl
      | ok s2 => rfl

end sim

theorem deliver_num (cfg : Cfg) (s a : St) (h : deliver refTables cfg s = .ok a) : a.num = s.num := by
  unfold deliver deliverP at h
  split at h
  · split at h
    · cases h; rfl
    · split at h
      · cases h
      · cases h; rfl
  · cases h; rfl

/-- the modes a finished token (and the end-of-document test after it) can leave -/
def afterTok (m : Mode) : Prop := m = .value ∨ m = .colon ∨ m = .space

theorem deliver_mode (cfg : Cfg) (s a : St) (hm : afterTok s.mode) (h : deliver refTables cfg s = .ok a) : afterTok a.mode := by
  unfold deliver deliverP at h
  split at h
  · split at h
    · cases h; show afterTok (if cfg.onlyOne = true then Mode.space else Mode.value)
      split
      · exact Or.inr (Or.inr rfl)
      · exact Or.inl rfl
    · split at h
      · cases h
      · cases h; show afterTok (if cfg.onlyOne = true then Mode.space else Mode.value)
        split
        · exact Or.inr (Or.inr rfl)
        · exact Or.inl rfl
  · cases h; exact hm

theorem setMember_mode (s a : St) (n : JV) (h : s.setMember n = .ok a) : a.mode = s.mode := by
  unfold St.setMember at h
  split at h
  · split at h
    · cases h; rfl
    · cases h
    · cases h
  · cases h

theorem addTokenP_mode (s a : St) (t : Bytes) (h : s.addTokenP t = .ok a) : afterTok a.mode := by
  unfold St.addTokenP at h
  split at h
  · split at h
    · cases h
    · split at h
      · have := setMember_mode ({ s with mode := .value } : St) a _ h
        exact Or.inl this
      · cases h; exact Or.inr (Or.inl rfl)
  · cases h; exact Or.inl rfl

theorem addTokenP_num (s a : St) (t : Bytes) (h : s.addTokenP t = .ok a) : a.num = s.num := by
  unfold St.addTokenP St.setMember at h
  repeat' split at h
  all_goals first | (cases h; rfl) | cases h

theorem addTokenT_mode (s : St) (t : Bytes) : afterTok (s.addTokenT t).mode := by
  unfold St.addTokenT St.emit
  split
  · exact Or.inr (Or.inl rfl)
  · exact Or.inl rfl

theorem numDigit_mode (m : Mode) (b : UInt8) (h : expected m b = .numDigit) : m = .digit := by
  have := forall_mode_byte (fun m b => !(expected m b == .numDigit) || m == .digit) (by decide +kernel) m b
  simpa [h] using this

theorem afterTok_noDigit (m : Mode) (hm : afterTok m) (b : UInt8) : expected m b ≠ .numDigit := by
  intro h
  have := numDigit_mode m b h
  rcases hm with h1 | h1 | h1 <;> rw [h1] at this <;> cases this

/-- a finished token and then white space: the token-end case of the switch (`tokenSpc`, `tokenNlColon`) does
what the fast path does (add the token, the end-of-document test, the same byte again in the new mode) -/
theorem wsTokenEnd (c : Cfg) (hc : c.nlSkip = false ∧ c.fastInt = false ∧ c.tokSlow = false) (s : St) (b : UInt8)
    (hm : s.mode = .token) (hw : isWsNl b = true) :
    stepCore refTables c s {} b = tokenEndFast refTables c s {} b := by
  have hb40 : b ≠ 40 := by
    intro h; subst h; revert hw; decide
  have hnf : ∀ (a : Act) (i : UInt64) (f0 : Fast), f0 = {} → nextFast c a i f0 = {} := by
    intro a i f0 h0; subst h0; unfold nextFast; cases a <;> simp [hc.1, hc.2.1, hc.2.2]
  have htok := ws_token b hw
  -- what the new mode does with the white space
  have skip : ∀ (s2 : St) (f0 : Fast), f0 = {} → afterTok s2.mode →
      stepCore refTables c s2 f0 b = .ok (s2, {}, decide (b = 10)) := by
    intro s2 f0 h0 h2
    have hs := ws_skip s2.mode h2 b hw
    unfold stepCore stepAct stepActP stepActT
    by_cases h10 : b = 10
    · have := hs.2 h10
      simp only [refTables, this, ite_self, ↓reduceIte, hnf _ _ f0 h0]
      simp [h10]
    · have := hs.1 h10
      simp only [refTables, this, ite_self, ↓reduceIte, hnf _ _ f0 h0]
      simp [h10]
  unfold tokenEndFast
  simp only [hb40, decide_false, Bool.false_and, Bool.false_eq_true, ↓reduceIte]
  by_cases htk : c.tokenizer = true
  · simp only [htk, ↓reduceIte]
    have hL : stepCore refTables c s {} b =
        (match deliver refTables c (s.addTokenT s.tmp.reverse) with
          | .error e => .error e
          | .ok s2 => .ok (s2, {}, decide (b = 10))) := by
      unfold stepCore stepAct stepActT
      simp only [htk, ↓reduceIte]
      by_cases h10 : b = 10
      · have ha : refTables.act s.mode b = .tokenNlColon := by rw [hm]; exact htok.2 h10
        simp only [ha, Bool.false_eq_true, ↓reduceIte, hnf _ _ {} rfl]
        cases deliver refTables c (s.addTokenT s.tmp.reverse) <;> simp [h10]
      · have ha : refTables.act s.mode b = .tokenSpc := by rw [hm]; exact htok.1 h10
        simp only [ha, Bool.false_eq_true, ↓reduceIte, hnf _ _ {} rfl]
        cases deliver refTables c (s.addTokenT s.tmp.reverse) <;> simp [h10]
    rw [hL]
    cases hd : deliver refTables c (s.addTokenT s.tmp.reverse) with
    | error e => rfl
    | ok s2 =>
      simp only []
      exact (skip s2 _ rfl (deliver_mode c _ _ (addTokenT_mode s _) hd)).symm
  · have htk' : c.tokenizer = false := by simpa using htk
    simp only [htk', Bool.false_eq_true, ↓reduceIte]
    have hL : stepCore refTables c s {} b =
        (match s.addTokenP s.tmp.reverse with
          | .error e => .error e
          | .ok s1 =>
            match deliver refTables c s1 with
            | .error e => .error e
            | .ok s2 => .ok (s2, {}, decide (b = 10))) := by
      unfold stepCore stepAct stepActP
      simp only [htk', Bool.false_eq_true, ↓reduceIte]
      by_cases h10 : b = 10
      · have ha : refTables.act s.mode b = .tokenNlColon := by rw [hm]; exact htok.2 h10
        simp only [ha, hnf _ _ {} rfl]
        cases s.addTokenP s.tmp.reverse with
        | error e => rfl
        | ok s1 =>
          simp only [bind, Except.bind, pure, Except.pure, Bool.false_eq_true, ↓reduceIte]
          cases deliver refTables c s1 <;> simp [h10]
      · have ha : refTables.act s.mode b = .tokenSpc := by rw [hm]; exact htok.1 h10
        simp only [ha, hnf _ _ {} rfl]
        cases s.addTokenP s.tmp.reverse with
        | error e => rfl
        | ok s1 =>
          simp only [bind, Except.bind, pure, Except.pure, Bool.false_eq_true, ↓reduceIte]
          cases deliver refTables c s1 <;> simp [h10]
    rw [hL]
    cases h1 : s.addTokenP s.tmp.reverse with
    | error e => rfl
    | ok s1 =>
      simp only []
      cases hd : deliver refTables c s1 with
      | error e => rfl
      | ok s2 =>
        simp only []
        exact (skip s2 _ rfl (deliver_mode c _ _ (addTokenP_mode s s1 _ h1) hd)).symm

/-! ### the invariant of the integer fast loop -/

theorem nextFast_nl (cfg : Cfg) (hnl : cfg.nlSkip = false) (a : Act) (i : UInt64) (f : Fast) :
    (nextFast cfg a i f).nlSkipping = false := by
  unfold nextFast; cases a <;> simp [hnl]

theorem nextFast_inFast (cfg : Cfg) (a : Act) (i : UInt64) (f : Fast) (h : (nextFast cfg a i f).inFast = true) :
    (a = .valDigit ∧ cfg.tokenizer = false) ∨ (a = .numDigit ∧ f.inFast = true) := by
  unfold nextFast at h
  cases a <;> simp at h
  · exact Or.inl ⟨rfl, h.2⟩
  · exact Or.inr ⟨rfl, h.1⟩

theorem stepCore_inv (cfg : Cfg) (hnl : cfg.nlSkip = false) (s : St) (f : Fast) (b : UInt8) (hI : FastInv cfg s f)
    (s1 : St) (f1 : Fast) (nl : Bool) (h : stepCore refTables cfg s f b = .ok (s1, f1, nl)) : FastInv cfg s1 f1 := by
  unfold stepCore at h
  cases hA : stepAct refTables cfg s f.inFast b with
  | error e => rw [hA] at h; cases h
  | ok r =>
    obtain ⟨a1, c, n1⟩ := r
    rw [hA] at h
    simp only [] at h
    -- the state after the switch has the number in integer form whenever the fast loop goes on
    have key : (nextFast cfg (refTables.act s.mode b) s.num.i f).inFast = true →
        cfg.tokenizer = false ∧ a1.num.big = [] := by
      intro hf
      rcases nextFast_inFast cfg _ _ f hf with ⟨ha, htk⟩ | ⟨ha, hfi⟩
      · unfold stepAct stepActP at hA
        simp only [htk, Bool.false_eq_true, ↓reduceIte, ha] at hA
        cases hA; exact ⟨htk, rfl⟩
      · obtain ⟨htk, hbig⟩ := hI.1 hfi
        unfold stepAct stepActP at hA
        simp only [htk, Bool.false_eq_true, ↓reduceIte, ha, hfi] at hA
        cases hA
        unfold nextFast at hf
        simp only [ha, hfi, Bool.true_and, Bool.not_eq_true', decide_eq_false_iff_not] at hf
        simp only [hf, ↓reduceIte]
        exact ⟨htk, hbig⟩
    split at h
    · cases h
      exact ⟨key, nextFast_nl cfg hnl _ _ _⟩
    · cases hd : deliver refTables cfg a1 with
      | error e => rw [hd] at h; cases h
      | ok a2 =>
        rw [hd] at h; cases h
        refine ⟨fun hf => ?_, nextFast_nl cfg hnl _ _ _⟩
        rw [deliver_num cfg a1 _ hd]
        exact key hf

theorem addTokenT_num (s : St) (t : Bytes) : (s.addTokenT t).num = s.num := by
  unfold St.addTokenT St.emit; split <;> rfl

theorem addFeat_num (s : St) (c : Char) : (s.addFeat c).num = s.num := by
  unfold St.addFeat; split <;> rfl

theorem Fast.nl_eq (f : Fast) (h : f.nlSkipping = false) : ({ f with nlSkipping := false } : Fast) = f := by
  cases f; simp_all

section sim2
variable (cfg : Cfg) (hnl : cfg.nlSkip = false)
include hnl

theorem tokenEndFast_sim (s : St) (f : Fast) (b : UInt8) (hI : FastInv cfg s f) :
    dropF (tokenEndFast refTables cfg s f b) = tokenEndFast refTables cfg.rep s {} b ∧
    ∀ s1 f1 nl, tokenEndFast refTables cfg s f b = .ok (s1, f1, nl) → FastInv cfg s1 f1 := by
  unfold tokenEndFast
  have htk : cfg.rep.tokenizer = cfg.tokenizer := rfl
  rw [htk]
  by_cases h40 : (b = 40 && !cfg.tokenizer) = true
  · simp only [h40, ↓reduceIte]
    refine ⟨rfl, ?_⟩
    intro s1 f1 nl h
    cases h
    refine ⟨fun hf => ?_, hI.2⟩
    have := hI.1 hf
    exact ⟨this.1, by rw [addFeat_num]; exact this.2⟩
  · simp only [h40, Bool.false_eq_true, ↓reduceIte]
    -- the token is added the same way; then the end-of-document test; then the byte in the new mode
    have inner : ∀ a : St, afterTok a.mode → a.num = s.num →
        (dropF (match deliver refTables cfg a with
          | .error e => (.error e : Except ErrKind (St × Fast × Bool))
          | .ok s2 => stepCore refTables cfg s2 { f with tokFast := false } b) =
         (match deliver refTables cfg.rep a with
          | .error e => (.error e : Except ErrKind (St × Fast × Bool))
          | .ok s2 => stepCore refTables cfg.rep s2 { ({} : Fast) with tokFast := false } b)) ∧
        ∀ s1 f1 nl, (match deliver refTables cfg a with
          | .error e => (.error e : Except ErrKind (St × Fast × Bool))
          | .ok s2 => stepCore refTables cfg s2 { f with tokFast := false } b) = .ok (s1, f1, nl) → FastInv cfg s1 f1 := by
      intro a ha hn
      rw [deliver_rep]
      cases hd : deliver refTables cfg a with
      | error e => exact ⟨rfl, fun _ _ _ h => by cases h⟩
      | ok s2 =>
        simp only []
        have hm2 := deliver_mode cfg a s2 ha hd
        have hI2 : FastInv cfg s2 { f with tokFast := false } := by
          refine ⟨fun hf => ?_, hI.2⟩
          have := hI.1 hf
          exact ⟨this.1, by rw [deliver_num cfg a s2 hd, hn]; exact this.2⟩
        exact ⟨stepCore_sim cfg hnl s2 _ b hI2 (fun h => afterTok_noDigit _ hm2 b h.2.1),
          fun s1 f1 nl h => stepCore_inv cfg hnl s2 _ b hI2 s1 f1 nl h⟩
    by_cases htz : cfg.tokenizer = true
    · simp only [htz, ↓reduceIte]
      exact inner _ (addTokenT_mode s _) (addTokenT_num s _)
    · have htz' : cfg.tokenizer = false := by simpa using htz
      simp only [htz', Bool.false_eq_true, ↓reduceIte]
      cases h1 : s.addTokenP s.tmp.reverse with
      | error e => exact ⟨rfl, fun _ _ _ h => by cases h⟩
      | ok a => exact inner a (addTokenP_mode s a _ h1) (addTokenP_num s a _ h1)

theorem step_sim (s : St) (f : Fast) (b : UInt8) (l : Bool) (hI : FastInv cfg s f) (hdev : devStep cfg s f b = false) :
    dropF (step refTables cfg s f b l) = step refTables cfg.rep s {} b l ∧
    ∀ s1 f1 nl, step refTables cfg s f b l = .ok (s1, f1, nl) → FastInv cfg s1 f1 := by
  unfold step
  have hf0 : f.nlSkipping = false := hI.2
  simp only [hf0, Bool.false_and, Bool.false_eq_true, ↓reduceIte, Fast.nl_eq f hf0]
  have hrts : cfg.rep.tokSlow = false := rfl
  simp only [hrts, Bool.not_false, Bool.or_true, Bool.and_true]
  have h0 : ({ ({} : Fast) with nlSkipping := false } : Fast) = {} := rfl
  rw [h0]
  simp only [devStep, Bool.or_eq_false_iff] at hdev
  obtain ⟨hd1, hd2⟩ := hdev
  have hnd : ¬ (f.inFast = true ∧ expected s.mode b = .numDigit ∧ s.num.i = BigLimit) := by
    intro ⟨h1, h2, h3⟩
    have : refTables.act s.mode b = .numDigit := h2
    simp [h1, this, h3] at hd1
  by_cases hte : (s.mode = .token && refTables.act .token b ≠ .tokenOk) = true
  · -- a token ends here
    have hmt : s.mode = .token := by
      simp only [Bool.and_eq_true, decide_eq_true_eq] at hte; exact hte.1
    simp only [hte, Bool.true_and, ↓reduceIte]
    by_cases hfast : (f.tokFast || !cfg.tokSlow) = true
    · simp only [hfast, ↓reduceIte]
      exact tokenEndFast_sim cfg hnl s f b hI
    · simp only [hfast, Bool.false_eq_true, ↓reduceIte]
      -- the slow path: the byte must be white space (otherwise it is a deviation)
      have hw : isWsNl b = true := by
        simp only [Bool.or_eq_true, Bool.not_eq_true', not_or, Bool.not_eq_true, Bool.not_eq_false] at hfast
        have hmt' : (s.mode == Mode.token) = true := by simp [hmt]
        have hne' : (refTables.act Mode.token b != Act.tokenOk) = true := by
          simp only [Bool.and_eq_true, decide_eq_true_eq] at hte
          simpa [bne_iff_ne] using hte.2
        simp only [hmt', hne', hfast.1, hfast.2, Bool.not_false, Bool.and_self, Bool.true_and, Bool.not_eq_false'] at hd2
        cases hh : isWsNl b with
        | true => rfl
        | false => simp [hh] at hd2
      simp only [hw, Bool.not_true, Bool.and_false, Bool.false_eq_true, ↓reduceIte]
      have hsim := stepCore_sim cfg hnl s f b hI hnd
      have hws := wsTokenEnd cfg.rep ⟨hnl, rfl, rfl⟩ s b hmt hw
      exact ⟨by rw [hsim, hws], fun s1 f1 nl h => stepCore_inv cfg hnl s f b hI s1 f1 nl h⟩
  · simp only [hte, Bool.false_and, Bool.false_eq_true, ↓reduceIte]
    exact ⟨stepCore_sim cfg hnl s f b hI hnd, fun s1 f1 nl h => stepCore_inv cfg hnl s f b hI s1 f1 nl h⟩

end sim2

/-! ### runs -/

/-- some byte of the buffer takes a pinned fast-path deviation -/
def devBytes (cfg : Cfg) (s : St) (f : Fast) : Bytes → Bool
  | [] => false
  | b :: r =>
    devStep cfg s f b ||
      match step refTables cfg s f b r.isEmpty with
      | .error _ => false
      | .ok (s', f', _) => devBytes cfg s' f' r

def devChunks (cfg : Cfg) (s : St) (p : Pos) : List Bytes → Bool
  | [] => false
  | c :: rest =>
    devBytes cfg s {} c ||
      match runBytes refTables cfg s {} { p with off := 0 } c with
      | .error _ => false
      | .ok (s', _, p') => devChunks cfg s' p' rest

/-- **the run of this call takes a pinned fast-path deviation** (a decidable predicate of configuration,
prior state, input and chunking): at some byte `devStep` holds -/
def deviates (cfg : Cfg) (prev : St) (chunks : List Bytes) : Bool :=
  let cs := if cfg.reader then Json.topUp (chunks.filter (!·.isEmpty)) else chunks
  match cs with
  | [] => false
  | c :: rest =>
    match (if cfg.reader then Json.bomRuleReader c else Json.bomRule c) with
    | .bad => false
    | .strip r => devChunks cfg (prev.entry cfg) {} (r :: rest)
    | .keep => devChunks cfg (prev.entry cfg) {} (c :: rest)

def dropFB (r : Except Err (St × Fast × Pos)) : Except Err (St × Fast × Pos) :=
  match r with
  | .error e => .error e
  | .ok (s, _, p) => .ok (s, {}, p)

theorem cellFeat_rep (cfg : Cfg) (s : St) (b : UInt8) : cellFeat refTables cfg.rep s b = cellFeat refTables cfg s b := by
  unfold cellFeat; rfl

theorem finish_rep (cfg : Cfg) (s : St) (p : Pos) : finish refTables cfg.rep s p = finish refTables cfg s p := by
  unfold finish; rfl

section sim3
variable (cfg : Cfg) (hnl : cfg.nlSkip = false)
include hnl

theorem runBytes_sim (bs : Bytes) : ∀ (s : St) (f : Fast) (p : Pos), FastInv cfg s f → devBytes cfg s f bs = false →
    dropFB (runBytes refTables cfg s f p bs) = runBytes refTables cfg.rep s {} p bs := by
  induction bs with
  | nil => intro s f p _ _; rfl
  | cons b r ih =>
    intro s f p hI hdev
    simp only [devBytes, Bool.or_eq_false_iff] at hdev
    obtain ⟨hd1, hd2⟩ := hdev
    obtain ⟨hS, hInv⟩ := step_sim cfg hnl s f b r.isEmpty hI hd1
    simp only [runBytes]
    rw [← hS, cellFeat_rep]
    cases h1 : step refTables cfg s f b r.isEmpty with
    | error e => rfl
    | ok x =>
      obtain ⟨s1, f1, nl⟩ := x
      rw [h1] at hd2
      simp only [dropF]
      exact ih s1 f1 _ (hInv s1 f1 nl h1) hd2

theorem runChunks_sim (cs : List Bytes) : ∀ (s : St) (p : Pos), devChunks cfg s p cs = false →
    runChunks refTables cfg s p cs = runChunks refTables cfg.rep s p cs := by
  induction cs with
  | nil => intro s p _; rfl
  | cons c rest ih =>
    intro s p hdev
    simp only [devChunks, Bool.or_eq_false_iff] at hdev
    obtain ⟨hd1, hd2⟩ := hdev
    have hI0 : FastInv cfg s {} := ⟨(fun h => by cases h), rfl⟩
    have hB := runBytes_sim cfg hnl c s {} { p with off := 0 } hI0 hd1
    simp only [runChunks]
    rw [← hB]
    cases h1 : runBytes refTables cfg s {} { p with off := 0 } c with
    | error e => rfl
    | ok x =>
      obtain ⟨s1, f1, p1⟩ := x
      rw [h1] at hd2
      simp only [dropFB]
      exact ih s1 p1 hd2

/-- **a call that takes no pinned fast-path deviation is the call of the repaired machine**: same documents
or callbacks, same error (kind, line, column), same marks, same state left -/
theorem call_eq_repaired (prev : St) (chunks : List Bytes) (h : deviates cfg prev chunks = false) :
    call refTables cfg prev chunks = call refTables cfg.rep prev chunks := by
  rw [call_ref, call_ref]
  unfold callWith
  unfold deviates at h
  have hr : cfg.rep.reader = cfg.reader := rfl
  have he : prev.entry cfg.rep = prev.entry cfg := rfl
  rw [hr, he]
  simp only [finish_rep] at h ⊢
  split
  · rfl
  · rename_i c rest heq
    rw [heq] at h
    simp only [] at h
    cases hb : (if cfg.reader = true then Json.bomRuleReader c else Json.bomRule c) with
    | bad => rfl
    | strip r =>
      rw [hb] at h
      simp only [] at h ⊢
      rw [runChunks_sim cfg hnl _ _ _ h]
    | keep =>
      rw [hb] at h
      simp only [] at h ⊢
      rw [runChunks_sim cfg hnl _ _ _ h]

end sim3

end OjgVerif.Sen

