import OjgVerif.Sen.Lemmas
/-! Lemmas for C06 (SEN): the stack-shape invariant of the sen.Parser machine and what follows from it.

`wf starts stack`: the build stack matches the container stack — an open object is its map with at
most one `gen.Key` above it; an open array or token function is its placeholder with only finished
values above it, and `p.starts` holds exactly the height of the stack below the placeholder; at depth 0
the stack holds only finished values. `SInv` adds: a pending `+` has been marked (`p`).

Every case of the `switch` keeps `SInv` and answers a run-time fault only if the mark is there
(`stepActP_safe`, one lemma per table action; which action can occur in which mode is read off the
reference tables by kernel evaluation); the same for the end-of-document delivery, the token fast path,
a buffer, a sequence of buffers, the end of input and the entry point (`call_safe_ref`). Separately:
the no-progress outcome `hang` is unreachable (`call_noHang_ref`). -/
set_option linter.unusedSimpArgs false
set_option linter.unusedSectionVars false
set_option linter.unusedVariables false
namespace OjgVerif.Sen
open OjgVerif

/-- entries that count as finished values of an array, a function call or the top level: values, and
maps whose `}` has been read (the `{a:}` path leaves one behind) -/
def isValue : Item → Bool
  | .val _ => true
  | .obj _ => true
  | _ => false

def isMark : Item → Bool
  | .arrMark => true
  | .fnMark _ => true
  | _ => false

def dropValues : List Item → List Item
  | [] => []
  | it :: r => if isValue it then dropValues r else it :: r

/-- the build stack matches the container stack -/
def wf : List (Option Nat) → List Item → Bool
  | [], stack => stack.all isValue
  | none :: rest, .key _ :: .obj _ :: below => wf rest below
  | none :: rest, .obj _ :: below => wf rest below
  | none :: _, _ => false
  | some idx :: rest, stack =>
    match dropValues stack with
    | mk :: below => isMark mk && idx == below.length && wf rest below
    | [] => false

theorem wf_push_val (starts : List (Option Nat)) (stack : List Item) (v : JV)
    (h : wf starts stack = true) (hs : topIsObj starts = false) : wf starts (.val v :: stack) = true := by
  cases starts with
  | nil => simpa [wf, isValue] using h
  | cons st rest =>
    cases st with
    | none => simp [topIsObj] at hs
    | some idx => simpa [wf, dropValues, isValue] using h

theorem add_safe (s a : St) (n : JV) (h : wf s.starts s.stack = true) :
    (∀ w, s.add n ≠ .error (.fault w)) ∧ (s.add n = .ok a → wf a.starts a.stack = true ∧ a.stack ≠ [] ∧ a.starts = s.starts) := by
  obtain ⟨mode, starts, stack, docs, evs, exkey, tmp, ri, rn, num, qd, plus, lk, lsk, feat⟩ := s
  unfold St.add St.setMember
  simp only at h ⊢
  rcases starts with _ | ⟨_ | idx, rest⟩
  · simp only []
    refine ⟨fun w => by simp, fun ha => ?_⟩
    cases ha
    exact ⟨by simpa [wf, isValue] using h, by simp, rfl⟩
  · rcases stack with _ | ⟨it, below⟩
    · simp [wf] at h
    · cases it with
      | key k =>
        rcases below with _ | ⟨it2, r⟩
        · simp [wf] at h
        · cases it2 <;> simp [wf] at h
          simp only [topIsKey, ↓reduceIte]
          refine ⟨fun w => by simp, fun ha => ?_⟩
          cases ha
          exact ⟨by simpa [wf] using h, by simp, rfl⟩
      | obj kvs =>
        simp only [topIsKey, Bool.false_eq_true, ↓reduceIte]
        exact ⟨fun w => by simp, fun ha => by cases ha⟩
      | val v => simp [wf] at h
      | arrMark => simp [wf] at h
      | fnMark nm => simp [wf] at h
  · simp only []
    refine ⟨fun w => by simp, fun ha => ?_⟩
    cases ha
    exact ⟨by simpa [wf, dropValues, isValue] using h, by simp, rfl⟩

/-- the invariant: the build stack matches the container stack, and a pending `+` has been marked -/
def SInv (s : St) : Prop := wf s.starts s.stack = true ∧ (s.plus = true → 'p' ∈ s.feat)

theorem addTokenP_safe (s a : St) (t : Bytes) (h : wf s.starts s.stack = true) :
    (∀ w, s.addTokenP t ≠ .error (.fault w)) ∧
    (s.addTokenP t = .ok a → wf a.starts a.stack = true ∧ a.stack ≠ [] ∧ a.starts = s.starts ∧ a.plus = s.plus ∧ a.feat = s.feat) := by
  obtain ⟨mode, starts, stack, docs, evs, exkey, tmp, ri, rn, num, qd, plus, lk, lsk, feat⟩ := s
  unfold St.addTokenP St.setMember
  simp only at h ⊢
  rcases starts with _ | ⟨_ | idx, rest⟩
  · simp only []
    refine ⟨fun w => by simp, fun ha => ?_⟩
    cases ha
    exact ⟨by simpa [wf, isValue] using h, by simp, rfl, rfl, rfl⟩
  · rcases stack with _ | ⟨it, below⟩
    · simp [wf] at h
    · cases it with
      | key k =>
        rcases below with _ | ⟨it2, r⟩
        · simp [wf] at h
        · cases it2 <;> simp [wf] at h
          simp only [topIsKey, ↓reduceIte]
          refine ⟨fun w => by simp, fun ha => ?_⟩
          cases ha
          exact ⟨by simpa [wf] using h, by simp, rfl, rfl, rfl⟩
      | obj kvs =>
        simp only [topIsKey, Bool.false_eq_true, ↓reduceIte]
        refine ⟨fun w => by simp, fun ha => ?_⟩
        cases ha
        exact ⟨by simpa [wf] using h, by simp, rfl, rfl, rfl⟩
      | val v => simp [wf] at h
      | arrMark => simp [wf] at h
      | fnMark nm => simp [wf] at h
  · simp only []
    refine ⟨fun w => by simp, fun ha => ?_⟩
    cases ha
    exact ⟨by simpa [wf, dropValues, isValue] using h, by simp, rfl, rfl, rfl⟩

theorem add_safe' (s a : St) (n : JV) (h : wf s.starts s.stack = true) (ha : s.add n = .ok a) :
    a.plus = s.plus ∧ a.feat = s.feat := by
  obtain ⟨mode, starts, stack, docs, evs, exkey, tmp, ri, rn, num, qd, plus, lk, lsk, feat⟩ := s
  unfold St.add St.setMember at ha
  simp only at h ha
  rcases starts with _ | ⟨_ | idx, rest⟩
  · cases ha; exact ⟨rfl, rfl⟩
  · rcases stack with _ | ⟨it, below⟩
    · simp [fault] at ha
    · cases it <;> simp [topIsKey, fault] at ha
      rcases below with _ | ⟨it2, r⟩
      · simp [fault] at ha
      · cases it2 <;> simp [fault] at ha
        cases ha; exact ⟨rfl, rfl⟩
  · cases ha; exact ⟨rfl, rfl⟩

/-- `addString` BEFORE 285bbf9: unchecked type assertions after a `+` -/
theorem addStringPOld_safe (s a : St) (t : Bytes) (h : SInv s) :
    (∀ w, s.addStringPOld t = .error (.fault w) → 'p' ∈ s.feat) ∧
    (s.addStringPOld t = .ok a → SInv a ∧ a.starts = s.starts ∧ a.feat = s.feat ∧ (a.stack ≠ [] ∨ 'p' ∈ s.feat)) := by
  obtain ⟨hw, hp⟩ := h
  obtain ⟨mode, starts, stack, docs, evs, exkey, tmp, ri, rn, num, qd, plus, lk, lsk, feat⟩ := s
  unfold St.addStringPOld St.setMember
  simp only at hw hp ⊢
  cases plus with
  | true =>
    have hpf : 'p' ∈ feat := hp rfl
    refine ⟨fun w _ => hpf, fun ha => ?_⟩
    rcases starts with _ | ⟨_ | idx, rest⟩
    · simp only [↓reduceIte] at ha
      rcases stack with _ | ⟨it, below⟩
      · cases ha; exact ⟨⟨hw, by simp⟩, rfl, rfl, Or.inr hpf⟩
      · cases it with
        | val v =>
          cases v <;> simp [fault] at ha
          cases ha
          exact ⟨⟨by simpa [wf, isValue] using hw, by simp⟩, rfl, rfl, Or.inr hpf⟩
        | _ => simp [fault] at ha
    · simp only [↓reduceIte] at ha
      rcases stack with _ | ⟨it, below⟩
      · simp [fault] at ha
      · cases it with
        | obj kvs =>
          simp only at ha
          split at ha
          · cases ha
            exact ⟨⟨by simpa [wf] using hw, by simp⟩, rfl, rfl, Or.inr hpf⟩
          · simp [fault] at ha
        | _ => simp [fault] at ha
    · simp only [↓reduceIte] at ha
      rcases stack with _ | ⟨it, below⟩
      · cases ha; exact ⟨⟨hw, by simp⟩, rfl, rfl, Or.inr hpf⟩
      · cases it with
        | val v =>
          cases v <;> simp [fault] at ha
          cases ha
          exact ⟨⟨by simpa [wf, dropValues, isValue] using hw, by simp⟩, rfl, rfl, Or.inr hpf⟩
        | _ => simp [fault] at ha
  | false =>
    simp only [Bool.false_eq_true, ↓reduceIte]
    rcases starts with _ | ⟨_ | idx, rest⟩
    · simp only []
      refine ⟨fun w hh => by simp at hh, fun ha => ?_⟩
      cases ha
      exact ⟨⟨by simpa [wf, isValue] using hw, by simp⟩, rfl, rfl, Or.inl (by simp)⟩
    · rcases stack with _ | ⟨it, below⟩
      · simp [wf] at hw
      · cases it with
        | key k =>
          rcases below with _ | ⟨it2, r⟩
          · simp [wf] at hw
          · cases it2 <;> simp [wf] at hw
            simp only [topIsKey, ↓reduceIte]
            refine ⟨fun w hh => by simp at hh, fun ha => ?_⟩
            cases ha
            exact ⟨⟨by simpa [wf] using hw, by simp⟩, rfl, rfl, Or.inl (by simp)⟩
        | obj kvs =>
          simp only [topIsKey, Bool.false_eq_true, ↓reduceIte]
          refine ⟨fun w hh => by simp at hh, fun ha => ?_⟩
          cases ha
          exact ⟨⟨by simpa [wf] using hw, by simp⟩, rfl, rfl, Or.inl (by simp)⟩
        | val v => simp [wf] at hw
        | arrMark => simp [wf] at hw
        | fnMark nm => simp [wf] at hw
    · simp only []
      refine ⟨fun w hh => by simp at hh, fun ha => ?_⟩
      cases ha
      exact ⟨⟨by simpa [wf, dropValues, isValue] using hw, by simp⟩, rfl, rfl, Or.inl (by simp)⟩

/-- `addString` since 285bbf9: no run-time fault at all, and it never leaves the build stack empty -/
theorem addStringP_safe (s a : St) (t : Bytes) (h : SInv s) :
    (∀ w, s.addStringP t ≠ .error (.fault w)) ∧
    (s.addStringP t = .ok a → SInv a ∧ a.starts = s.starts ∧ a.feat = s.feat ∧ a.stack ≠ []) := by
  obtain ⟨hw, hp⟩ := h
  obtain ⟨mode, starts, stack, docs, evs, exkey, tmp, ri, rn, num, qd, plus, lk, lsk, feat⟩ := s
  unfold St.addStringP St.setMember
  simp only at hw hp ⊢
  cases plus with
  | true =>
    rcases starts with _ | ⟨_ | idx, rest⟩
    · simp only [↓reduceIte]
      rcases stack with _ | ⟨it, below⟩
      · exact ⟨fun w hh => by simp at hh, fun ha => by simp at ha⟩
      · cases it with
        | val v =>
          cases v <;> simp only [] <;> refine ⟨fun w hh => by simp at hh, fun ha => ?_⟩ <;> (try (simp at ha; done))
          cases ha
          exact ⟨⟨by simpa [wf, isValue] using hw, by simp⟩, rfl, rfl, by simp⟩
        | _ => exact ⟨fun w hh => by simp at hh, fun ha => by simp at ha⟩
    · simp only [↓reduceIte]
      rcases stack with _ | ⟨it, below⟩
      · simp [wf] at hw
      · cases it with
        | obj kvs =>
          simp only []
          split
          · refine ⟨fun w hh => by simp at hh, fun ha => ?_⟩
            cases ha
            exact ⟨⟨by simpa [wf] using hw, by simp⟩, rfl, rfl, by simp⟩
          · exact ⟨fun w hh => by simp at hh, fun ha => by simp at ha⟩
        | _ => exact ⟨fun w hh => by simp at hh, fun ha => by simp at ha⟩
    · simp only [↓reduceIte]
      rcases stack with _ | ⟨it, below⟩
      · exact ⟨fun w hh => by simp at hh, fun ha => by simp at ha⟩
      · cases it with
        | val v =>
          cases v <;> simp only [] <;> refine ⟨fun w hh => by simp at hh, fun ha => ?_⟩ <;> (try (simp at ha; done))
          cases ha
          exact ⟨⟨by simpa [wf, dropValues, isValue] using hw, by simp⟩, rfl, rfl, by simp⟩
        | _ => exact ⟨fun w hh => by simp at hh, fun ha => by simp at ha⟩
  | false =>
    simp only [Bool.false_eq_true, ↓reduceIte]
    rcases starts with _ | ⟨_ | idx, rest⟩
    · simp only []
      refine ⟨fun w hh => by simp at hh, fun ha => ?_⟩
      cases ha
      exact ⟨⟨by simpa [wf, isValue] using hw, by simp⟩, rfl, rfl, by simp⟩
    · rcases stack with _ | ⟨it, below⟩
      · simp [wf] at hw
      · cases it with
        | key k =>
          rcases below with _ | ⟨it2, r⟩
          · simp [wf] at hw
          · cases it2 <;> simp [wf] at hw
            simp only [topIsKey, ↓reduceIte]
            refine ⟨fun w hh => by simp at hh, fun ha => ?_⟩
            cases ha
            exact ⟨⟨by simpa [wf] using hw, by simp⟩, rfl, rfl, by simp⟩
        | obj kvs =>
          simp only [topIsKey, Bool.false_eq_true, ↓reduceIte]
          refine ⟨fun w hh => by simp at hh, fun ha => ?_⟩
          cases ha
          exact ⟨⟨by simpa [wf] using hw, by simp⟩, rfl, rfl, by simp⟩
        | val v => simp [wf] at hw
        | arrMark => simp [wf] at hw
        | fnMark nm => simp [wf] at hw
    · simp only []
      refine ⟨fun w hh => by simp at hh, fun ha => ?_⟩
      cases ha
      exact ⟨⟨by simpa [wf, dropValues, isValue] using hw, by simp⟩, rfl, rfl, by simp⟩

theorem dropValues_spec : ∀ (stack : List Item) (mk : Item) (below : List Item),
    dropValues stack = mk :: below → ∃ seg, stack = seg ++ mk :: below := by
  intro stack
  induction stack with
  | nil => intro mk below h; simp [dropValues] at h
  | cons it r ih =>
    intro mk below h
    simp only [dropValues] at h
    split at h
    · obtain ⟨seg, hs⟩ := ih mk below h
      exact ⟨it :: seg, by rw [hs]; rfl⟩
    · cases h; exact ⟨[], rfl⟩

theorem splitStack_wf (rest : List (Option Nat)) (stack : List Item) (idx : Nat)
    (h : wf (some idx :: rest) stack = true) :
    ∃ elems mk below, splitStack stack idx = some (elems, mk, below) ∧ wf rest below = true := by
  simp only [wf] at h
  split at h
  · rename_i mk below hd
    simp only [Bool.and_eq_true, beq_iff_eq] at h
    obtain ⟨seg, hs⟩ := dropValues_spec stack mk below hd
    refine ⟨((stack.take (stack.length - (idx + 1))).map Item.toJV).reverse, mk, below, ?_, h.2⟩
    unfold splitStack
    have hl : stack.length = seg.length + (below.length + 1) := by rw [hs]; simp
    have hi : idx = below.length := h.1.2
    have h1 : ¬ stack.length < idx + 1 := by omega
    have h2 : stack.length - (idx + 1) = seg.length := by omega
    simp only [h1, ↓reduceIte, h2]
    rw [hs, List.drop_left]
  · cases h

theorem addIgnore_safe (s a : St) (n : JV) (h : wf s.starts s.stack = true) :
    (∀ w, s.addIgnore n ≠ .error (.fault w)) ∧
    (s.addIgnore n = .ok a → wf a.starts a.stack = true ∧ a.starts = s.starts ∧ a.plus = s.plus ∧ a.feat = s.feat ∧
      (topIsObj s.starts = false → a.stack ≠ [])) := by
  have hs := add_safe s
  unfold St.addIgnore
  cases h1 : s.add n with
  | ok a1 =>
    simp only []
    refine ⟨fun w => by simp, fun ha => ?_⟩
    cases ha
    obtain ⟨h2, h3, h4⟩ := (hs a n h).2 h1
    obtain ⟨h5, h6⟩ := add_safe' s a n h h1
    exact ⟨h2, h4, h5, h6, fun _ => h3⟩
  | error e =>
    simp only []
    have hnf : ∀ w, e ≠ .fault w := fun w he => (hs s n h).1 w (by rw [h1, he])
    by_cases hf : e.isFault = true
    · simp only [hf, ↓reduceIte]
      exact ⟨fun w he => hnf w (by simpa using he), fun ha => by cases ha⟩
    · simp only [hf, Bool.false_eq_true, ↓reduceIte]
      refine ⟨fun w => by simp, fun ha => ?_⟩
      cases ha
      refine ⟨h, rfl, rfl, rfl, fun ho => ?_⟩
      -- an error of `add` only arises in object context
      exfalso
      unfold St.add at h1
      rcases hst : s.starts with _ | ⟨_ | idx, rest⟩ <;> rw [hst] at h1 ho <;> simp [topIsObj] at h1 ho

/-! ## addFeat -/
theorem addFeat_stack (s : St) (c : Char) : (s.addFeat c).stack = s.stack := by
  unfold St.addFeat; split <;> rfl
theorem addFeat_starts (s : St) (c : Char) : (s.addFeat c).starts = s.starts := by
  unfold St.addFeat; split <;> rfl
theorem addFeat_plus (s : St) (c : Char) : (s.addFeat c).plus = s.plus := by
  unfold St.addFeat; split <;> rfl
theorem addFeat_mode' (s : St) (c : Char) : (s.addFeat c).mode = s.mode := by
  unfold St.addFeat; split <;> rfl
theorem addFeat_mem (s : St) (c d : Char) (h : d ∈ s.feat) : d ∈ (s.addFeat c).feat := by
  unfold St.addFeat; split
  · exact h
  · exact List.mem_cons_of_mem _ h
theorem addFeat_self (s : St) (c : Char) : c ∈ (s.addFeat c).feat := by
  unfold St.addFeat; split
  · rename_i h; simpa using h
  · exact List.mem_cons_self

theorem SInv_addFeat (s : St) (c : Char) (h : SInv s) : SInv (s.addFeat c) := by
  refine ⟨by rw [addFeat_starts, addFeat_stack]; exact h.1, fun hp => ?_⟩
  rw [addFeat_plus] at hp
  exact addFeat_mem s c 'p' (h.2 hp)

/-- the only way to a run-time fault: the code BEFORE 285bbf9 (`plusFault`) after a `+` read in value
position (mark `p`). For the code as it is (`plusFault = false`) this is `False`. -/
def Esc (cfg : Cfg) (feat : List Char) : Prop := cfg.plusFault = true ∧ 'p' ∈ feat

theorem Esc.mono {cfg : Cfg} {f g : List Char} (h : Esc cfg f) (hm : 'p' ∈ f → 'p' ∈ g) : Esc cfg g := ⟨h.1, hm h.2⟩

/-- what one `switch` case has to guarantee -/
def StepSafe (cfg : Cfg) (s : St) (r : Except ErrKind (St × Bool × Bool)) : Prop :=
  match r with
  | .error e => ∀ w, e = .fault w → Esc cfg s.feat
  | .ok (s1, cont, _) =>
    SInv s1 ∧ (cont = false → s1.starts = [] → expectedFin s1.mode = .v → s1.stack ≠ [] ∨ Esc cfg s.feat)

def keepsMode : Act → Bool
  | .strOk | .tokenOk | .numDigit | .strQuote | .unknown => true
  | _ => false

theorem keeps_facts (m : Mode) (b : UInt8) (h : keepsMode (expected m b) = true) : expectedFin m ≠ .v := by
  have := forall_mode_byte (fun m b => !keepsMode (expected m b) || expectedFin m != .v) (by decide +kernel) m b
  simpa [h] using this

set_option hygiene false in
macro "s1" : tactic => `(tactic| (
  unfold stepActP
  simp only [refTables, hact]
  try (simp only [StepSafe]; refine ⟨⟨hI.1, hI.2⟩, ?_⟩; intro _ _ hfin; simp [expectedFin] at hfin)))

section simpleSafe
variable (cfg : Cfg) (s : St) (i : Bool) (b : UInt8) (hI : SInv s)
include hI

theorem safeP_skipNewline (hact : expected s.mode b = .skipNewline) : StepSafe cfg s (stepActP refTables cfg s i b) := by
  unfold stepActP; simp only [refTables, hact, StepSafe]; exact ⟨hI, fun h => by cases h⟩
theorem safeP_skipChar (hact : expected s.mode b = .skipChar) : StepSafe cfg s (stepActP refTables cfg s i b) := by
  unfold stepActP; simp only [refTables, hact, StepSafe]; exact ⟨hI, fun h => by cases h⟩
theorem safeP_cskipNewline (hact : expected s.mode b = .cskipNewline) : StepSafe cfg s (stepActP refTables cfg s i b) := by
  unfold stepActP; simp only [refTables, hact, StepSafe]; exact ⟨hI, fun h => by cases h⟩
theorem safeP_colonColon (hact : expected s.mode b = .colonColon) : StepSafe cfg s (stepActP refTables cfg s i b) := by
  unfold stepActP; simp only [refTables, hact, StepSafe]; exact ⟨hI, fun h => by cases h⟩
theorem safeP_cskipChar (hact : expected s.mode b = .cskipChar) : StepSafe cfg s (stepActP refTables cfg s i b) := by
  unfold stepActP; simp only [refTables, hact, StepSafe]; exact ⟨hI, fun h => by cases h⟩
theorem safeP_valQuote (hact : expected s.mode b = .valQuote) : StepSafe cfg s (stepActP refTables cfg s i b) := by
  unfold stepActP; simp only [refTables, hact, StepSafe]; exact ⟨hI, fun h => by cases h⟩
theorem safeP_strSlash (hact : expected s.mode b = .strSlash) : StepSafe cfg s (stepActP refTables cfg s i b) := by
  unfold stepActP; simp only [refTables, hact, StepSafe]; exact ⟨hI, fun h => by cases h⟩
theorem safeP_escOk (hact : expected s.mode b = .escOk) : StepSafe cfg s (stepActP refTables cfg s i b) := by
  unfold stepActP; simp only [refTables, hact, StepSafe]; exact ⟨hI, fun h => by cases h⟩
theorem safeP_valNeg (hact : expected s.mode b = .valNeg) : StepSafe cfg s (stepActP refTables cfg s i b) := by
  unfold stepActP; simp only [refTables, hact, StepSafe]; exact ⟨hI, fun h => by cases h⟩
theorem safeP_escU (hact : expected s.mode b = .escU) : StepSafe cfg s (stepActP refTables cfg s i b) := by
  unfold stepActP; simp only [refTables, hact, StepSafe]; exact ⟨hI, fun h => by cases h⟩
theorem safeP_fracE (hact : expected s.mode b = .fracE) : StepSafe cfg s (stepActP refTables cfg s i b) := by
  unfold stepActP; simp only [refTables, hact, StepSafe]; exact ⟨hI, fun h => by cases h⟩
theorem safeP_expSign (hact : expected s.mode b = .expSign) : StepSafe cfg s (stepActP refTables cfg s i b) := by
  unfold stepActP; simp only [refTables, hact, StepSafe]; exact ⟨hI, fun h => by cases h⟩
theorem safeP_uOk (hact : expected s.mode b = .uOk) : StepSafe cfg s (stepActP refTables cfg s i b) := by
  unfold stepActP; simp only [refTables, hact, StepSafe]; exact ⟨hI, fun h => by cases h⟩
theorem safeP_commentEnd (hact : expected s.mode b = .commentEnd) : StepSafe cfg s (stepActP refTables cfg s i b) := by
  unfold stepActP; simp only [refTables, hact, StepSafe]; exact ⟨hI, fun h => by cases h⟩

end simpleSafe

section simpleSafe2
variable (cfg : Cfg) (s : St) (i : Bool) (b : UInt8) (hI : SInv s)
include hI

theorem safeP_valDigit (hact : expected s.mode b = .valDigit) : StepSafe cfg s (stepActP refTables cfg s i b) := by
  unfold stepActP; simp only [refTables, hact, StepSafe]
  exact ⟨hI, fun _ _ hf => by simp [expectedFin] at hf⟩

theorem safeP_val0 (hact : expected s.mode b = .val0) : StepSafe cfg s (stepActP refTables cfg s i b) := by
  unfold stepActP; simp only [refTables, hact, StepSafe]
  exact ⟨hI, fun _ _ hf => by simp [expectedFin] at hf⟩

theorem safeP_numFrac (hact : expected s.mode b = .numFrac) : StepSafe cfg s (stepActP refTables cfg s i b) := by
  unfold stepActP; simp only [refTables, hact, StepSafe]
  exact ⟨hI, fun _ _ hf => by simp [expectedFin] at hf⟩

theorem safeP_numZero (hact : expected s.mode b = .numZero) : StepSafe cfg s (stepActP refTables cfg s i b) := by
  unfold stepActP; simp only [refTables, hact, StepSafe]
  exact ⟨hI, fun _ _ hf => by simp [expectedFin] at hf⟩

theorem safeP_negDigit (hact : expected s.mode b = .negDigit) : StepSafe cfg s (stepActP refTables cfg s i b) := by
  unfold stepActP; simp only [refTables, hact, StepSafe]
  exact ⟨hI, fun _ _ hf => by simp [expectedFin] at hf⟩

theorem safeP_expDigit (hact : expected s.mode b = .expDigit) : StepSafe cfg s (stepActP refTables cfg s i b) := by
  unfold stepActP; simp only [refTables, hact, StepSafe]
  exact ⟨hI, fun _ _ hf => by simp [expectedFin] at hf⟩

theorem safeP_commentStart (hact : expected s.mode b = .commentStart) : StepSafe cfg s (stepActP refTables cfg s i b) := by
  unfold stepActP; simp only [refTables, hact, StepSafe]
  exact ⟨hI, fun _ _ hf => by simp [expectedFin] at hf⟩

theorem safeP_ccommentStart (hact : expected s.mode b = .ccommentStart) : StepSafe cfg s (stepActP refTables cfg s i b) := by
  unfold stepActP; simp only [refTables, hact, StepSafe]
  exact ⟨hI, fun _ _ hf => by simp [expectedFin] at hf⟩

theorem safeP_ccommentEnd (hact : expected s.mode b = .ccommentEnd) : StepSafe cfg s (stepActP refTables cfg s i b) := by
  unfold stepActP; simp only [refTables, hact, StepSafe]
  exact ⟨hI, fun _ _ hf => by simp [expectedFin] at hf⟩

theorem safeP_strOk (hact : expected s.mode b = .strOk) : StepSafe cfg s (stepActP refTables cfg s i b) := by
  have hk := keeps_facts s.mode b (by rw [hact]; rfl)
  unfold stepActP; simp only [refTables, hact, StepSafe]
  exact ⟨hI, fun _ _ hf => absurd hf hk⟩

theorem safeP_tokenOk (hact : expected s.mode b = .tokenOk) : StepSafe cfg s (stepActP refTables cfg s i b) := by
  have hk := keeps_facts s.mode b (by rw [hact]; rfl)
  unfold stepActP; simp only [refTables, hact, StepSafe]
  exact ⟨hI, fun _ _ hf => absurd hf hk⟩

theorem safeP_numDigit (hact : expected s.mode b = .numDigit) : StepSafe cfg s (stepActP refTables cfg s i b) := by
  have hk := keeps_facts s.mode b (by rw [hact]; rfl)
  unfold stepActP; simp only [refTables, hact, StepSafe]
  refine ⟨⟨hI.1, fun hp => ?_⟩, fun _ _ hf => absurd hf hk⟩
  have := hI.2 hp
  show 'p' ∈ (if (i && decide (Json.BigLimit ≤ s.num.i) && decide (s.num.i.toNat * 10 + (b - 48).toNat ≤ 9223372036854775807)) = true
    then (s.addFeat 'i').feat else s.feat)
  split
  · exact addFeat_mem s 'i' 'p' this
  · exact this

theorem safeP_numDot (hact : expected s.mode b = .numDot) : StepSafe cfg s (stepActP refTables cfg s i b) := by
  unfold stepActP; simp only [refTables, hact]
  split
  · exact ⟨hI, fun h => by cases h⟩
  · exact ⟨hI, fun _ _ hf => by simp [expectedFin] at hf⟩

theorem safeP_tokenStart (hact : expected s.mode b = .tokenStart) : StepSafe cfg s (stepActP refTables cfg s i b) := by
  unfold stepActP; simp only [refTables, hact]
  by_cases ht : expected Mode.token b = Act.tokenOk
  · simp only [ht, ↓reduceIte]; exact ⟨hI, fun h => by cases h⟩
  · simp only [ht, ↓reduceIte]; intro w hw; cases hw

theorem safeP_charErr (hact : expected s.mode b = .charErr) : StepSafe cfg s (stepActP refTables cfg s i b) := by
  unfold stepActP; simp only [refTables, hact, StepSafe]
  intro w hw
  split at hw <;> cases hw

theorem safeP_unknown (hact : expected s.mode b = .unknown) : StepSafe cfg s (stepActP refTables cfg s i b) := by
  have hk := keeps_facts s.mode b (by rw [hact]; rfl)
  unfold stepActP; simp only [refTables, hact, StepSafe]
  exact ⟨hI, fun _ _ hf => absurd hf hk⟩

theorem safeP_valPlus (hact : expected s.mode b = .valPlus) : StepSafe cfg s (stepActP refTables cfg s i b) := by
  unfold stepActP; simp only [refTables, hact, StepSafe]
  refine ⟨⟨?_, fun _ => addFeat_self _ 'p'⟩, fun _ _ hf => ?_⟩
  · rw [addFeat_starts, addFeat_stack]; exact hI.1
  · rw [addFeat_mode'] at hf; simp [expectedFin] at hf

theorem safeP_openParen (hact : expected s.mode b = .openParen) : StepSafe cfg s (stepActP refTables cfg s i b) := by
  unfold stepActP; simp only [refTables, hact, StepSafe]
  refine ⟨SInv_addFeat _ 'f' ⟨?_, hI.2⟩, fun h => by cases h⟩
  simp [startP, wf, dropValues, isValue, isMark, hI.1]

end simpleSafe2

/-! ## the cases that touch the stacks -/

theorem flushP_safe (s a : St) (h : wf s.starts s.stack = true) :
    (∀ w, s.flushP refTables ≠ .error (.fault w)) ∧
    (s.flushP refTables = .ok a → wf a.starts a.stack = true ∧ a.starts = s.starts ∧ a.plus = s.plus ∧ a.feat = s.feat) := by
  unfold St.flushP
  cases refTables.fin s.mode <;> simp only []
  case n =>
    refine ⟨(add_safe s a _ h).1, fun ha => ?_⟩
    obtain ⟨h1, _, h3⟩ := (add_safe s a _ h).2 ha
    obtain ⟨h4, h5⟩ := add_safe' s a _ h ha
    exact ⟨h1, h3, h4, h5⟩
  case t =>
    refine ⟨(addTokenP_safe s a _ h).1, fun ha => ?_⟩
    obtain ⟨h1, _, h3, h4, h5⟩ := (addTokenP_safe s a _ h).2 ha
    exact ⟨h1, h3, h4, h5⟩
  all_goals exact ⟨fun w => by simp, fun ha => by cases ha; exact ⟨h, rfl, rfl, rfl⟩⟩

theorem flushCloseP_safe (s a : St) (h : wf s.starts s.stack = true) (hf : expectedFin s.mode ≠ .absent) :
    (∀ w, s.flushCloseP refTables ≠ .error (.fault w)) ∧
    (s.flushCloseP refTables = .ok a → wf a.starts a.stack = true ∧ a.starts = s.starts ∧ a.plus = s.plus ∧ a.feat = s.feat) := by
  unfold St.flushCloseP
  have hf' : refTables.fin s.mode ≠ .absent := hf
  cases hfin : refTables.fin s.mode <;> simp only []
  case absent => exact absurd hfin hf'
  case n =>
    refine ⟨(addIgnore_safe s a _ h).1, fun ha => ?_⟩
    obtain ⟨h1, h3, h4, h5, _⟩ := (addIgnore_safe s a _ h).2 ha
    exact ⟨h1, h3, h4, h5⟩
  case t =>
    refine ⟨(addTokenP_safe s a _ h).1, fun ha => ?_⟩
    obtain ⟨h1, _, h3, h4, h5⟩ := (addTokenP_safe s a _ h).2 ha
    exact ⟨h1, h3, h4, h5⟩
  all_goals exact ⟨fun w => by simp, fun ha => by cases ha; exact ⟨h, rfl, rfl, rfl⟩⟩

theorem undelivered_fields (a : St) :
    a.undelivered.stack = a.stack ∧ a.undelivered.starts = a.starts ∧ a.undelivered.plus = a.plus ∧
    a.undelivered.mode = a.mode ∧ (∀ d, d ∈ a.feat → d ∈ a.undelivered.feat) := by
  unfold St.undelivered
  split
  · exact ⟨addFeat_stack _ _, addFeat_starts _ _, addFeat_plus _ _, addFeat_mode' _ _, fun d hd => addFeat_mem _ _ d hd⟩
  · exact ⟨rfl, rfl, rfl, rfl, fun _ hd => hd⟩

section stackSafe
variable (cfg : Cfg) (s : St) (i : Bool) (b : UInt8) (hI : SInv s)
include hI

theorem safeP_numSpc (hact : expected s.mode b = .numSpc) : StepSafe cfg s (stepActP refTables cfg s i b) := by
  unfold stepActP; simp only [refTables, hact]
  cases h : s.add s.num.asNum.toJV with
  | error e =>
    simp only [bind, Except.bind, StepSafe]
    intro w hw; subst hw
    exact absurd h ((add_safe s s _ hI.1).1 w)
  | ok a =>
    simp only [bind, Except.bind, pure, Except.pure, StepSafe]
    obtain ⟨h1, h2, _⟩ := (add_safe s a _ hI.1).2 h
    obtain ⟨h4, h5⟩ := add_safe' s a _ hI.1 h
    exact ⟨⟨h1, fun hp => by rw [h5]; exact hI.2 (by rw [← h4]; exact hp)⟩, fun _ _ _ => Or.inl h2⟩

theorem safeP_numNewline (hact : expected s.mode b = .numNewline) : StepSafe cfg s (stepActP refTables cfg s i b) := by
  unfold stepActP; simp only [refTables, hact]
  cases h : s.add s.num.asNum.toJV with
  | error e =>
    simp only [bind, Except.bind, StepSafe]
    intro w hw; subst hw
    exact absurd h ((add_safe s s _ hI.1).1 w)
  | ok a =>
    simp only [bind, Except.bind, pure, Except.pure, StepSafe]
    obtain ⟨h1, h2, _⟩ := (add_safe s a _ hI.1).2 h
    obtain ⟨h4, h5⟩ := add_safe' s a _ hI.1 h
    exact ⟨⟨h1, fun hp => by rw [h5]; exact hI.2 (by rw [← h4]; exact hp)⟩, fun _ _ _ => Or.inl h2⟩

theorem safeP_tokenSpc (hact : expected s.mode b = .tokenSpc) : StepSafe cfg s (stepActP refTables cfg s i b) := by
  unfold stepActP; simp only [refTables, hact]
  cases h : s.addTokenP s.tmp.reverse with
  | error e =>
    simp only [bind, Except.bind, StepSafe]
    intro w hw; subst hw
    exact absurd h ((addTokenP_safe s s _ hI.1).1 w)
  | ok a =>
    simp only [bind, Except.bind, pure, Except.pure, StepSafe]
    obtain ⟨h1, h2, _, h4, h5⟩ := (addTokenP_safe s a _ hI.1).2 h
    exact ⟨⟨h1, fun hp => by rw [h5]; exact hI.2 (by rw [← h4]; exact hp)⟩, fun _ _ _ => Or.inl h2⟩

theorem safeP_tokenColon (hact : expected s.mode b = .tokenColon) : StepSafe cfg s (stepActP refTables cfg s i b) := by
  unfold stepActP; simp only [refTables, hact]
  cases h : s.addTokenP s.tmp.reverse with
  | error e =>
    simp only [bind, Except.bind, StepSafe]
    intro w hw; subst hw
    exact absurd h ((addTokenP_safe s s _ hI.1).1 w)
  | ok a =>
    simp only [bind, Except.bind, pure, Except.pure, StepSafe]
    obtain ⟨h1, h2, _, h4, h5⟩ := (addTokenP_safe s a _ hI.1).2 h
    exact ⟨⟨h1, fun hp => by rw [h5]; exact hI.2 (by rw [← h4]; exact hp)⟩, fun _ _ _ => Or.inl h2⟩

theorem safeP_tokenNlColon (hact : expected s.mode b = .tokenNlColon) : StepSafe cfg s (stepActP refTables cfg s i b) := by
  unfold stepActP; simp only [refTables, hact]
  cases h : s.addTokenP s.tmp.reverse with
  | error e =>
    simp only [bind, Except.bind, StepSafe]
    intro w hw; subst hw
    exact absurd h ((addTokenP_safe s s _ hI.1).1 w)
  | ok a =>
    simp only [bind, Except.bind, pure, Except.pure, StepSafe]
    obtain ⟨h1, h2, _, h4, h5⟩ := (addTokenP_safe s a _ hI.1).2 h
    exact ⟨⟨h1, fun hp => by rw [h5]; exact hI.2 (by rw [← h4]; exact hp)⟩, fun _ _ _ => Or.inl h2⟩

theorem safeP_strQuote (hact : expected s.mode b = .strQuote) : StepSafe cfg s (stepActP refTables cfg s i b) := by
  have hk := keeps_facts s.mode b (by rw [hact]; rfl)
  unfold stepActP; simp only [refTables, hact]
  by_cases hb : b = s.quoteDelim
  · simp only [hb, ↓reduceIte]
    cases hpf : cfg.plusFault with
    | true =>
      simp only [↓reduceIte]
      cases h : s.addStringPOld s.tmp.reverse with
      | error e =>
        simp only [bind, Except.bind, StepSafe]
        intro w hw; subst hw
        exact ⟨hpf, (addStringPOld_safe s s _ hI).1 w h⟩
      | ok a =>
        simp only [bind, Except.bind, pure, Except.pure, StepSafe]
        obtain ⟨h1, _, _, h4⟩ := (addStringPOld_safe s a _ hI).2 h
        exact ⟨h1, fun _ _ _ => h4.imp id fun hp => ⟨hpf, hp⟩⟩
    | false =>
      simp only [Bool.false_eq_true, ↓reduceIte]
      cases h : s.addStringP s.tmp.reverse with
      | error e =>
        simp only [bind, Except.bind, StepSafe]
        intro w hw; subst hw
        exact absurd h ((addStringP_safe s s _ hI).1 w)
      | ok a =>
        simp only [bind, Except.bind, pure, Except.pure, StepSafe]
        obtain ⟨h1, _, _, h4⟩ := (addStringP_safe s a _ hI).2 h
        exact ⟨h1, fun _ _ _ => Or.inl h4⟩
  · simp only [hb, ↓reduceIte, StepSafe]
    exact ⟨hI, fun _ _ hf => absurd hf hk⟩

theorem safeP_valSlash (hact : expected s.mode b = .valSlash) : StepSafe cfg s (stepActP refTables cfg s i b) := by
  unfold stepActP; simp only [refTables, hact]
  cases h : St.flushP { act := expected, fin := expectedFin, escByte := unesc } s with
  | error e =>
    simp only [bind, Except.bind, StepSafe]
    intro w hw; subst hw
    exact absurd h ((flushP_safe s s hI.1).1 w)
  | ok a =>
    simp only [bind, Except.bind, pure, Except.pure, StepSafe]
    obtain ⟨h1, _, h4, h5⟩ := (flushP_safe s a hI.1).2 h
    obtain ⟨u1, u2, u3, _, u5⟩ := undelivered_fields a
    refine ⟨⟨by show wf a.undelivered.starts a.undelivered.stack = true; rw [u1, u2]; exact h1, fun hp => ?_⟩,
      fun _ _ hf => by simp [expectedFin] at hf⟩
    have hp' : a.undelivered.plus = true := hp
    rw [u3, h4] at hp'
    exact u5 'p' (by rw [h5]; exact hI.2 hp')

theorem safeP_openObject (hact : expected s.mode b = .openObject) : StepSafe cfg s (stepActP refTables cfg s i b) := by
  unfold stepActP; simp only [refTables, hact]
  cases h : St.flushP { act := expected, fin := expectedFin, escByte := unesc } s with
  | error e =>
    simp only [bind, Except.bind, StepSafe]
    intro w hw; subst hw
    exact absurd h ((flushP_safe s s hI.1).1 w)
  | ok a =>
    simp only [bind, Except.bind, pure, Except.pure, StepSafe]
    obtain ⟨h1, _, h4, h5⟩ := (flushP_safe s a hI.1).2 h
    obtain ⟨u1, u2, u3, _, u5⟩ := undelivered_fields a
    refine ⟨⟨?_, fun hp => ?_⟩, fun hc => by cases hc⟩
    · show wf (none :: a.undelivered.starts) (Item.obj [] :: a.undelivered.stack) = true
      rw [u1, u2]; simpa [wf] using h1
    · have hp' : a.undelivered.plus = true := hp
      rw [u3, h4] at hp'
      exact u5 'p' (by rw [h5]; exact hI.2 hp')

theorem safeP_openArray (hact : expected s.mode b = .openArray) : StepSafe cfg s (stepActP refTables cfg s i b) := by
  unfold stepActP; simp only [refTables, hact]
  cases h : St.flushP { act := expected, fin := expectedFin, escByte := unesc } s with
  | error e =>
    simp only [bind, Except.bind, StepSafe]
    intro w hw; subst hw
    exact absurd h ((flushP_safe s s hI.1).1 w)
  | ok a =>
    simp only [bind, Except.bind, pure, Except.pure, StepSafe]
    obtain ⟨h1, _, h4, h5⟩ := (flushP_safe s a hI.1).2 h
    obtain ⟨u1, u2, u3, _, u5⟩ := undelivered_fields a
    refine ⟨⟨?_, fun hp => ?_⟩, fun hc => by cases hc⟩
    · show wf (some a.undelivered.stack.length :: a.undelivered.starts) (Item.arrMark :: a.undelivered.stack) = true
      rw [u1, u2]; simp [wf, dropValues, isValue, isMark, h1]
    · have hp' : a.undelivered.plus = true := hp
      rw [u3, h4] at hp'
      exact u5 'p' (by rw [h5]; exact hI.2 hp')

end stackSafe

/-- `add` on a stack whose top is a finished map lying on a well-formed stack (what `}` leaves when a
member name had no value) -/
theorem add_safe_objTop (s a : St) (n : JV) (kvs : List (Bytes × JV)) (bl : List Item)
    (hk : s.stack = .obj kvs :: bl) (h : wf s.starts bl = true) :
    (∀ w, s.add n ≠ .error (.fault w)) ∧
    (s.add n = .ok a → wf a.starts a.stack = true ∧ a.stack ≠ [] ∧ a.starts = s.starts ∧ a.plus = s.plus ∧ a.feat = s.feat) := by
  obtain ⟨mode, starts, stack, docs, evs, exkey, tmp, ri, rn, num, qd, plus, lk, lsk, feat⟩ := s
  simp only at hk h
  subst hk
  unfold St.add St.setMember
  simp only
  rcases starts with _ | ⟨_ | idx, rest⟩
  · simp only []
    refine ⟨fun w => by simp, fun ha => ?_⟩
    cases ha
    exact ⟨by simpa [wf, isValue] using h, by simp, rfl, rfl, rfl⟩
  · simp only [topIsKey, Bool.false_eq_true, ↓reduceIte]
    exact ⟨fun w => by simp, fun ha => by cases ha⟩
  · simp only []
    refine ⟨fun w => by simp, fun ha => ?_⟩
    cases ha
    exact ⟨by simpa [wf, dropValues, isValue] using h, by simp, rfl, rfl, rfl⟩

section closeSafe
variable (cfg : Cfg) (s : St) (i : Bool) (b : UInt8) (hI : SInv s)
include hI

theorem safeP_closeObject (hact : expected s.mode b = .closeObject) : StepSafe cfg s (stepActP refTables cfg s i b) := by
  unfold stepActP; simp only [refTables, hact]
  rcases hs : s.starts with _ | ⟨_ | idx, rest⟩
  · simp only [StepSafe]; intro w hw; cases hw
  · simp only []
    cases h : St.flushP { act := expected, fin := expectedFin, escByte := unesc } s with
    | error e =>
      simp only [bind, Except.bind, StepSafe]
      intro w hw; subst hw
      exact absurd h ((flushP_safe s s hI.1).1 w)
    | ok a =>
      simp only [bind, Except.bind, pure, Except.pure]
      obtain ⟨h1, h3, h4, h5⟩ := (flushP_safe s a hI.1).2 h
      rw [hs] at h3
      rw [h3] at h1
      have hpa : ∀ x : St, x.plus = a.plus → x.feat = a.feat ∨ x.feat = (a.addFeat 'v').feat → x.plus = true → 'p' ∈ x.feat := by
        intro x hx hf hp
        have : 'p' ∈ a.feat := by rw [h5]; exact hI.2 (by rw [← h4, ← hx]; exact hp)
        rcases hf with hf | hf
        · rw [hf]; exact this
        · rw [hf]; exact addFeat_mem a 'v' 'p' this
      rcases hk : a.stack with _ | ⟨top, below⟩
      · rw [hk] at h1; simp [wf] at h1
      · simp only []
        rw [hk] at h1
        cases top with
        | obj kvs =>
          have hw' : wf rest below = true := by simpa [wf] using h1
          simp only [topIsKey, Bool.false_and, Bool.false_eq_true, ↓reduceIte]
          cases h2 : St.add { a with starts := rest, stack := below } (Item.obj kvs).toJV with
          | error e =>
            simp only [StepSafe]
            intro w hw; subst hw
            exact absurd h2 ((add_safe { a with starts := rest, stack := below } a _ hw').1 w)
          | ok a2 =>
            simp only [StepSafe]
            obtain ⟨g1, g2, _⟩ := (add_safe { a with starts := rest, stack := below } a2 _ hw').2 h2
            obtain ⟨g4, g5⟩ := add_safe' { a with starts := rest, stack := below } a2 _ hw' h2
            exact ⟨⟨g1, fun hp => hpa a2 g4 (Or.inl g5) hp⟩, fun _ _ _ => Or.inl g2⟩
        | key k =>
          rcases below with _ | ⟨it2, bl⟩
          · simp [wf] at h1
          · cases it2 <;> simp [wf] at h1
            rename_i kvs
            simp only [topIsKey, Bool.true_and, ↓reduceIte]
            cases hmv : cfg.missingValue with
            | false => simp only [Bool.not_false, ↓reduceIte, StepSafe]; intro w hw; cases hw
            | true =>
            simp only [Bool.not_true, Bool.false_eq_true, ↓reduceIte]
            have hst : ({ a.addFeat 'v' with starts := rest, stack := Item.obj kvs :: bl } : St).stack = Item.obj kvs :: bl := rfl
            cases h2 : St.add { a.addFeat 'v' with starts := rest, stack := Item.obj kvs :: bl } (Item.key k).toJV with
            | error e =>
              simp only [StepSafe]
              intro w hw; subst hw
              exact absurd h2 ((add_safe_objTop _ a _ kvs bl hst h1).1 w)
            | ok a2 =>
              simp only [StepSafe]
              obtain ⟨g1, g2, _, g4, g5⟩ := (add_safe_objTop _ a2 _ kvs bl hst h1).2 h2
              refine ⟨⟨g1, fun hp => hpa a2 ?_ (Or.inr g5) hp⟩, fun _ _ _ => Or.inl g2⟩
              rw [g4]; exact addFeat_plus a 'v'
        | val v => simp [wf] at h1
        | arrMark => simp [wf] at h1
        | fnMark nm => simp [wf] at h1
  · simp only [StepSafe]; intro w hw; cases hw

end closeSafe

theorem close_fin (m : Mode) (b : UInt8)
    (h : expected m b = .closeArray ∨ expected m b = .closeParen) : expectedFin m ≠ .absent := by
  have := forall_mode_byte (fun m b => !(expected m b == .closeArray || expected m b == .closeParen) ||
      expectedFin m != .absent) (by decide +kernel) m b
  simp only [Bool.or_eq_true, Bool.not_eq_true', beq_iff_eq, bne_iff_ne, ne_eq, Bool.or_eq_false_iff,
    beq_eq_false_iff_ne] at this
  rcases this with h1 | h2
  · rcases h with h | h
    · exact absurd h h1.1
    · exact absurd h h1.2
  · exact h2

section closeSafe2
variable (cfg : Cfg) (s : St) (i : Bool) (b : UInt8) (hI : SInv s)
include hI

theorem safeP_closeArray (hact : expected s.mode b = .closeArray) : StepSafe cfg s (stepActP refTables cfg s i b) := by
  have hfin := close_fin s.mode b (Or.inl hact)
  unfold stepActP; simp only [refTables, hact]
  rcases hs : s.starts with _ | ⟨_ | idx, rest⟩
  · simp only [StepSafe]; intro w hw; cases hw
  · simp only [StepSafe]; intro w hw; cases hw
  · simp only []
    cases h : St.flushCloseP { act := expected, fin := expectedFin, escByte := unesc } s with
    | error e =>
      simp only [bind, Except.bind, StepSafe]
      intro w hw; subst hw
      exact absurd h ((flushCloseP_safe s s hI.1 hfin).1 w)
    | ok a =>
      simp only [bind, Except.bind, pure, Except.pure]
      obtain ⟨h1, h3, h4, h5⟩ := (flushCloseP_safe s a hI.1 hfin).2 h
      rw [hs] at h3
      rw [h3] at h1
      obtain ⟨elems, mk, below, hsp, hwb⟩ := splitStack_wf rest a.stack idx h1
      rw [hsp]
      simp only []
      cases h2 : St.add { a with starts := rest, stack := below } (JV.arr elems) with
      | error e =>
        simp only [StepSafe]
        intro w hw; subst hw
        exact absurd h2 ((add_safe { a with starts := rest, stack := below } a _ hwb).1 w)
      | ok a2 =>
        simp only [StepSafe]
        obtain ⟨g1, g2, _⟩ := (add_safe { a with starts := rest, stack := below } a2 _ hwb).2 h2
        obtain ⟨g4, g5⟩ := add_safe' { a with starts := rest, stack := below } a2 _ hwb h2
        refine ⟨⟨g1, fun hp => ?_⟩, fun _ _ _ => Or.inl g2⟩
        have hp' : a2.plus = true := hp
        show 'p' ∈ a2.feat
        rw [g5]
        show 'p' ∈ a.feat
        rw [h5]; apply hI.2; rw [← h4]; rw [g4] at hp'; exact hp'

theorem safeP_closeParen (hact : expected s.mode b = .closeParen) : StepSafe cfg s (stepActP refTables cfg s i b) := by
  have hfin := close_fin s.mode b (Or.inr hact)
  unfold stepActP; simp only [refTables, hact]
  rcases hs : s.starts with _ | ⟨_ | idx, rest⟩
  · simp only [StepSafe]; intro w hw; cases hw
  · simp only [StepSafe]; intro w hw; cases hw
  · simp only []
    cases h : St.flushCloseP { act := expected, fin := expectedFin, escByte := unesc } s with
    | error e =>
      simp only [bind, Except.bind, StepSafe]
      intro w hw; subst hw
      exact absurd h ((flushCloseP_safe s s hI.1 hfin).1 w)
    | ok a =>
      simp only [bind, Except.bind, pure, Except.pure]
      obtain ⟨h1, h3, h4, h5⟩ := (flushCloseP_safe s a hI.1 hfin).2 h
      rw [hs] at h3
      rw [h3] at h1
      obtain ⟨args, mk, below, hsp, hwb⟩ := splitStack_wf rest a.stack idx h1
      rw [hsp]
      cases mk with
      | fnMark name =>
        simp only []
        cases h2 : St.addIgnore { a with starts := rest, stack := below }
            (match cfg.fn name with | some f => f args | none => defaultFn args) with
        | error e =>
          simp only [StepSafe]
          intro w hw; subst hw
          exact absurd h2 ((addIgnore_safe { a with starts := rest, stack := below } a _ hwb).1 w)
        | ok a2 =>
          simp only [StepSafe]
          obtain ⟨g1, g3, g4, g5, g6⟩ := (addIgnore_safe { a with starts := rest, stack := below } a2 _ hwb).2 h2
          refine ⟨SInv_addFeat _ 'f' ⟨g1, fun hp => ?_⟩, fun _ hst _ => ?_⟩
          · have hp' : a2.plus = true := hp
            show 'p' ∈ a2.feat
            rw [g5]
            show 'p' ∈ a.feat
            rw [h5]; apply hI.2; rw [← h4]; rw [g4] at hp'; exact hp'
          · rw [addFeat_starts] at hst
            rw [addFeat_stack]
            have hst' : a2.starts = [] := hst
            rw [g3] at hst'
            have hr : rest = [] := hst'
            exact Or.inl (g6 (by rw [show ({ a with starts := rest, stack := below } : St).starts = rest from rfl, hr]; rfl))
      | val v => simp only [StepSafe]; intro w hw; cases hw
      | key k => simp only [StepSafe]; intro w hw; cases hw
      | arrMark => simp only [StepSafe]; intro w hw; cases hw
      | obj kvs => simp only [StepSafe]; intro w hw; cases hw

end closeSafe2


theorem stepActP_safe (cfg : Cfg) (s : St) (i : Bool) (b : UInt8) (hI : SInv s) :
    StepSafe cfg s (stepActP refTables cfg s i b) := by
  cases hact : expected s.mode b with
  | skipChar => exact safeP_skipChar cfg s i b hI hact
  | skipNewline => exact safeP_skipNewline cfg s i b hI hact
  | valSlash => exact safeP_valSlash cfg s i b hI hact
  | openParen => exact safeP_openParen cfg s i b hI hact
  | valPlus => exact safeP_valPlus cfg s i b hI hact
  | valNeg => exact safeP_valNeg cfg s i b hI hact
  | val0 => exact safeP_val0 cfg s i b hI hact
  | valDigit => exact safeP_valDigit cfg s i b hI hact
  | valQuote => exact safeP_valQuote cfg s i b hI hact
  | tokenStart => exact safeP_tokenStart cfg s i b hI hact
  | openArray => exact safeP_openArray cfg s i b hI hact
  | openObject => exact safeP_openObject cfg s i b hI hact
  | closeArray => exact safeP_closeArray cfg s i b hI hact
  | closeObject => exact safeP_closeObject cfg s i b hI hact
  | closeParen => exact safeP_closeParen cfg s i b hI hact
  | colonColon => exact safeP_colonColon cfg s i b hI hact
  | numSpc => exact safeP_numSpc cfg s i b hI hact
  | numNewline => exact safeP_numNewline cfg s i b hI hact
  | numDot => exact safeP_numDot cfg s i b hI hact
  | tokenOk => exact safeP_tokenOk cfg s i b hI hact
  | numFrac => exact safeP_numFrac cfg s i b hI hact
  | fracE => exact safeP_fracE cfg s i b hI hact
  | expSign => exact safeP_expSign cfg s i b hI hact
  | expDigit => exact safeP_expDigit cfg s i b hI hact
  | strQuote => exact safeP_strQuote cfg s i b hI hact
  | negDigit => exact safeP_negDigit cfg s i b hI hact
  | strSlash => exact safeP_strSlash cfg s i b hI hact
  | escOk => exact safeP_escOk cfg s i b hI hact
  | uOk => exact safeP_uOk cfg s i b hI hact
  | tokenSpc => exact safeP_tokenSpc cfg s i b hI hact
  | tokenColon => exact safeP_tokenColon cfg s i b hI hact
  | tokenNlColon => exact safeP_tokenNlColon cfg s i b hI hact
  | numDigit => exact safeP_numDigit cfg s i b hI hact
  | numZero => exact safeP_numZero cfg s i b hI hact
  | strOk => exact safeP_strOk cfg s i b hI hact
  | escU => exact safeP_escU cfg s i b hI hact
  | commentStart => exact safeP_commentStart cfg s i b hI hact
  | ccommentStart => exact safeP_ccommentStart cfg s i b hI hact
  | ccommentEnd => exact safeP_ccommentEnd cfg s i b hI hact
  | cskipChar => exact safeP_cskipChar cfg s i b hI hact
  | cskipNewline => exact safeP_cskipNewline cfg s i b hI hact
  | commentEnd => exact safeP_commentEnd cfg s i b hI hact
  | charErr => exact safeP_charErr cfg s i b hI hact
  | unknown => exact safeP_unknown cfg s i b hI hact

/-! ## from the switch to the entry point -/

/-- what a whole step (and a run) has to guarantee: a fault only after a marked `+`, the invariant kept -/
def StepSafeF (cfg : Cfg) (s : St) (r : Except ErrKind (St × Fast × Bool)) : Prop :=
  match r with
  | .error e => ∀ w, e = .fault w → Esc cfg s.feat
  | .ok (s1, _, _) => SInv s1

section toEntry
variable (cfg : Cfg) (hc : cfg.tokenizer = false)
include hc

theorem deliver_safe (s : St) (hI : SInv s) :
    (∀ w, deliver refTables cfg s = .error (.fault w) → s.starts = [] ∧ expectedFin s.mode = .v ∧ s.stack = []) ∧
    (∀ a, deliver refTables cfg s = .ok a → SInv a) := by
  unfold deliver deliverP
  simp only [hc, Bool.false_eq_true, ↓reduceIte]
  by_cases h : (s.starts.isEmpty && refTables.fin s.mode = EndMark.v) = true
  · simp only [h, ↓reduceIte]
    have h' : s.starts = [] ∧ expectedFin s.mode = .v := by
      simp only [Bool.and_eq_true, List.isEmpty_iff, decide_eq_true_eq] at h
      exact ⟨h.1, h.2⟩
    rcases hk : s.stack.getLast? with _ | it
    · simp only []
      refine ⟨fun w _ => ⟨h'.1, h'.2, ?_⟩, fun a ha => by cases ha⟩
      exact List.getLast?_eq_none_iff.mp hk
    · simp only []
      refine ⟨fun w hw => (by cases hw), fun a ha => ?_⟩
      cases ha
      exact ⟨by show wf s.starts [] = true; rw [h'.1]; rfl, hI.2⟩
  · simp only [h, Bool.false_eq_true, ↓reduceIte]
    exact ⟨fun w hw => (by cases hw), fun a ha => (by cases ha; exact hI)⟩

theorem stepCore_safe (s : St) (f : Fast) (b : UInt8) (hI : SInv s) :
    StepSafeF cfg s (stepCore refTables cfg s f b) := by
  have hA := stepActP_safe cfg s f.inFast b hI
  unfold stepCore stepAct
  simp only [hc, Bool.false_eq_true, ↓reduceIte]
  cases h1 : stepActP refTables cfg s f.inFast b with
  | error e => rw [h1] at hA; exact hA
  | ok r =>
    obtain ⟨s1, cont, nl⟩ := r
    rw [h1] at hA
    obtain ⟨hI1, hne⟩ := hA
    simp only []
    cases cont with
    | true => exact hI1
    | false =>
      simp only [Bool.false_eq_true, ↓reduceIte]
      obtain ⟨d1, d2⟩ := deliver_safe cfg hc s1 hI1
      cases h2 : deliver refTables cfg s1 with
      | error e =>
        simp only [StepSafeF]
        intro w hw; subst hw
        obtain ⟨e1, e2, e3⟩ := d1 w h2
        rcases hne rfl e1 e2 with h | h
        · exact absurd e3 h
        · exact h
      | ok a => exact d2 a h2

end toEntry

section toEntry2
variable (cfg : Cfg) (hc : cfg.tokenizer = false)
include hc

theorem tokenEndFast_safe (s : St) (f : Fast) (b : UInt8) (hI : SInv s) :
    StepSafeF cfg s (tokenEndFast refTables cfg s f b) := by
  unfold tokenEndFast
  simp only [hc, Bool.not_false, Bool.and_true, Bool.false_eq_true, ↓reduceIte]
  by_cases hb : b = 40
  · simp only [hb, decide_true, ↓reduceIte, StepSafeF]
    refine SInv_addFeat _ 'f' ⟨?_, hI.2⟩
    simp [startP, wf, dropValues, isValue, isMark, hI.1]
  · simp only [hb, decide_false, Bool.false_eq_true, ↓reduceIte]
    cases h1 : s.addTokenP s.tmp.reverse with
    | error e =>
      simp only [StepSafeF]
      intro w hw; subst hw
      exact absurd h1 ((addTokenP_safe s s _ hI.1).1 w)
    | ok a =>
      simp only []
      obtain ⟨g1, g2, _, g4, g5⟩ := (addTokenP_safe s a _ hI.1).2 h1
      have hIa : SInv a := ⟨g1, fun hp => by rw [g5]; exact hI.2 (by rw [← g4]; exact hp)⟩
      obtain ⟨d1, d2⟩ := deliver_safe cfg hc a hIa
      cases h2 : deliver refTables cfg a with
      | error e =>
        simp only [StepSafeF]
        intro w hw; subst hw
        exact absurd (d1 w h2).2.2 g2
      | ok a2 =>
        simp only []
        have hI2 := d2 a2 h2
        have := stepCore_safe cfg hc a2 { f with tokFast := false } b hI2
        -- the marks of the state before the token end are kept
        have hfeat : ∀ d, d ∈ a2.feat → d ∈ s.feat := by
          intro d hd
          rw [← g5]
          unfold deliver deliverP at h2
          simp only [hc, Bool.false_eq_true, ↓reduceIte] at h2
          split at h2
          · split at h2
            · cases h2
            · cases h2; exact hd
          · cases h2; exact hd
        cases h3 : stepCore refTables cfg a2 { f with tokFast := false } b with
        | error e =>
          rw [h3] at this
          simp only [StepSafeF] at this ⊢
          intro w hw
          exact (this w hw).mono (hfeat 'p')
        | ok r => rw [h3] at this; obtain ⟨_, _, _⟩ := r; exact this

theorem step_safe (s : St) (f : Fast) (b : UInt8) (l : Bool) (hI : SInv s) :
    StepSafeF cfg s (step refTables cfg s f b l) := by
  unfold step
  split
  · split
    · exact hI
    · exact SInv_addFeat s 'm' hI
  · split
    · exact tokenEndFast_safe cfg hc s _ b hI
    · split
      · have := stepCore_safe cfg hc (s.addFeat 'k') { f with nlSkipping := false } b (SInv_addFeat s 'k' hI)
        cases h3 : stepCore refTables cfg (s.addFeat 'k') { f with nlSkipping := false } b with
        | error e =>
          rw [h3] at this
          simp only [StepSafeF] at this ⊢
          intro w hw
          refine ⟨(this w hw).1, ?_⟩
          have hp := (this w hw).2
          -- 'k' is not 'p'
          unfold St.addFeat at hp
          split at hp
          · exact hp
          · simpa using hp
        | ok r => rw [h3] at this; obtain ⟨_, _, _⟩ := r; exact this
      · exact stepCore_safe cfg hc s _ b hI

end toEntry2

theorem cellFeat_mem (T : Tables) (cfg : Cfg) (s : St) (b : UInt8) (d : Char) (h : d ∈ s.feat) :
    d ∈ (cellFeat T cfg s b).feat := by
  unfold cellFeat
  split <;> (try split) <;> first | exact h | exact addFeat_mem _ _ d h

/-- a run keeps the invariant, and if it stops with a run-time fault a `+` has been read in value
position before -/
def RunSafe (cfg : Cfg) (r : Except Err (St × Fast × Pos)) : Prop :=
  match r with
  | .error e => ∀ w, e.kind = .fault w → Esc cfg e.feat
  | .ok (s, _, _) => SInv s

def RunSafeC (cfg : Cfg) (r : Except Err (St × Pos)) : Prop :=
  match r with
  | .error e => ∀ w, e.kind = .fault w → Esc cfg e.feat
  | .ok (s, _) => SInv s

section toEntry3
variable (cfg : Cfg) (hc : cfg.tokenizer = false)
include hc

theorem runBytes_safe (bs : Bytes) : ∀ (s : St) (f : Fast) (p : Pos), SInv s → RunSafe cfg (runBytes refTables cfg s f p bs) := by
  induction bs with
  | nil => intro s f p hI; exact hI
  | cons b r ih =>
    intro s f p hI
    have hs := step_safe cfg hc s f b r.isEmpty hI
    simp only [runBytes]
    cases h1 : step refTables cfg s f b r.isEmpty with
    | error k =>
      rw [h1] at hs
      simp only [RunSafe, Pos.err]
      intro w hw
      exact (hs w hw).mono (cellFeat_mem _ _ _ _ 'p')
    | ok x =>
      obtain ⟨s1, f1, nl⟩ := x
      rw [h1] at hs
      exact ih s1 f1 _ hs

theorem runChunks_safe (cs : List Bytes) : ∀ (s : St) (p : Pos), SInv s → RunSafeC cfg (runChunks refTables cfg s p cs) := by
  induction cs with
  | nil => intro s p hI; exact hI
  | cons c rest ih =>
    intro s p hI
    have hb := runBytes_safe cfg hc c s {} { p with off := 0 } hI
    simp only [runChunks]
    cases h1 : runBytes refTables cfg s {} { p with off := 0 } c with
    | error e => rw [h1] at hb; exact hb
    | ok x =>
      obtain ⟨s1, f1, p1⟩ := x
      rw [h1] at hb
      exact ih s1 p1 hb

theorem finish_safe (s : St) (p : Pos) (hI : SInv s) :
    ∀ e, finish refTables cfg s p = .error e → ∀ w, e.kind ≠ .fault w := by
  intro e he w
  unfold finish at he
  simp only [hc, Bool.false_eq_true, ↓reduceIte] at he
  split at he
  · cases he; simp [Pos.err]
  · rename_i hst
    have hst' : s.starts = [] := by simpa using hst
    split at he
    · cases he; simp [Pos.err]
    · cases h1 : s.addIgnore s.num.asNum.toJV with
      | error k =>
        rw [h1] at he; cases he
        simp only [Pos.err]
        exact fun hk => (addIgnore_safe s s _ hI.1).1 w (by rw [h1, hk])
      | ok a =>
        rw [h1] at he
        simp only [] at he
        obtain ⟨_, _, _, _, g6⟩ := (addIgnore_safe s a _ hI.1).2 h1
        have hne : a.stack ≠ [] := g6 (by rw [hst']; rfl)
        split at he
        · rename_i hk; exact absurd (List.getLast?_eq_none_iff.mp hk) hne
        · cases he
    · cases h1 : s.addTokenP s.tmp.reverse with
      | error k =>
        rw [h1] at he; cases he
        simp only [Pos.err]
        exact fun hk => (addTokenP_safe s s _ hI.1).1 w (by rw [h1, hk])
      | ok a =>
        rw [h1] at he
        simp only [] at he
        obtain ⟨_, hne, _⟩ := (addTokenP_safe s a _ hI.1).2 h1
        split at he
        · rename_i hk; exact absurd (List.getLast?_eq_none_iff.mp hk) hne
        · cases he
    · cases he

/-- **a run-time fault of the parser machine needs the code before 285bbf9 and a `+` read in value
position**: on an instance that has no `+` pending (since ece2934: on every instance), if a call ends
in a fault (failed type assertion, index out of range, nil-map write) then `plusFault` is on and the run
has gone through the `valPlus` case before (mark `p`) -/
theorem call_safe_ref (prev : St) (hp : cfg.keepPlus = true → prev.plus = false) (chunks : List Bytes) :
    ∀ e, call refTables cfg prev chunks = .error e → ∀ w, e.kind = .fault w → Esc cfg e.feat := by
  have hI : SInv (prev.entry cfg) := by
    refine ⟨rfl, fun h => ?_⟩
    have h' : (if cfg.keepPlus = true then prev.plus else false) = true := h
    split at h'
    · rename_i hk; rw [hp hk] at h'; cases h'
    · cases h'
  have tail : ∀ cs e, (match runChunks refTables cfg (prev.entry cfg) {} cs with
        | .error e => (.error e : Except Err Out)
        | .ok (s, p) => finish refTables cfg s p) = .error e → ∀ w, e.kind = .fault w → Esc cfg e.feat := by
    intro cs e he w hw
    have hr := runChunks_safe cfg hc cs (prev.entry cfg) {} hI
    cases h1 : runChunks refTables cfg (prev.entry cfg) {} cs with
    | error e' => rw [h1] at he hr; cases he; exact hr w hw
    | ok x =>
      obtain ⟨s1, p1⟩ := x
      rw [h1] at he hr
      exact absurd hw (finish_safe cfg hc s1 p1 hr e he w)
  intro e he w hw
  rw [call_ref] at he
  unfold callWith at he
  simp only [] at he
  split at he
  · exact absurd hw (finish_safe cfg hc _ _ hI e he w)
  · split at he
    · cases he; cases hw
    · exact tail _ e he w hw
    · exact tail _ e he w hw

end toEntry3

/-! ## the no-progress outcome is unreachable -/

theorem setMember_noHang (s : St) (n : JV) : s.setMember n ≠ .error .hang := by
  unfold St.setMember
  repeat' split
  all_goals simp [fault]

theorem add_noHang (s : St) (n : JV) : s.add n ≠ .error .hang := by
  unfold St.add
  repeat' split
  all_goals first | exact setMember_noHang _ _ | simp [fault]

theorem addTokenP_noHang (s : St) (t : Bytes) : s.addTokenP t ≠ .error .hang := by
  unfold St.addTokenP
  repeat' split
  all_goals first | exact setMember_noHang _ _ | simp [fault]

theorem addStringP_noHang (s : St) (t : Bytes) : s.addStringP t ≠ .error .hang := by
  unfold St.addStringP
  repeat' split
  all_goals first | exact setMember_noHang _ _ | simp [fault]

theorem addStringPOld_noHang (s : St) (t : Bytes) : s.addStringPOld t ≠ .error .hang := by
  unfold St.addStringPOld
  repeat' split
  all_goals first | exact setMember_noHang _ _ | simp [fault]

theorem addIgnore_noHang (s : St) (n : JV) : s.addIgnore n ≠ .error .hang := by
  unfold St.addIgnore
  have := add_noHang s n
  cases h : s.add n with
  | ok a => simp
  | error e =>
    simp only []
    split
    · intro he; cases he; exact this (by rw [h])
    · simp

theorem flushP_noHang (s : St) : s.flushP refTables ≠ .error .hang := by
  unfold St.flushP
  split
  · exact add_noHang _ _
  · exact addTokenP_noHang _ _
  · simp

theorem flushCloseP_noHang (s : St) : s.flushCloseP refTables ≠ .error .hang := by
  unfold St.flushCloseP
  split
  · simp [fault]
  · exact addIgnore_noHang _ _
  · exact addTokenP_noHang _ _
  · simp

theorem bind_noHang {α β : Type} (x : Except ErrKind α) (f : α → Except ErrKind β)
    (hx : x ≠ .error .hang) (hf : ∀ a, f a ≠ .error .hang) : (x >>= f) ≠ .error .hang := by
  cases x with
  | error e => intro h; exact hx (by simpa [bind, Except.bind] using h)
  | ok a => exact hf a

theorem tokenStart_tokenOk (m : Mode) (b : UInt8) (h : expected m b = .tokenStart) : expected .token b = .tokenOk := by
  have := forall_mode_byte (fun m b => !(expected m b == .tokenStart) || expected .token b == .tokenOk)
    (by decide +kernel) m b
  simpa [h] using this

theorem stepActP_noHang (cfg : Cfg) (s : St) (i : Bool) (b : UInt8) :
    stepActP refTables cfg s i b ≠ .error .hang := by
  unfold stepActP
  cases hact : refTables.act s.mode b <;> simp only []
  case tokenStart =>
    have := tokenStart_tokenOk s.mode b hact
    simp [refTables, this]
  case openObject => exact bind_noHang _ _ (flushP_noHang s) (fun a => by simp [pure, Except.pure])
  case openArray => exact bind_noHang _ _ (flushP_noHang s) (fun a => by simp [pure, Except.pure])
  case valSlash => exact bind_noHang _ _ (flushP_noHang s) (fun a => by simp [pure, Except.pure])
  case numSpc => exact bind_noHang _ _ (add_noHang s _) (fun a => by simp [pure, Except.pure])
  case numNewline => exact bind_noHang _ _ (add_noHang s _) (fun a => by simp [pure, Except.pure])
  case tokenSpc => exact bind_noHang _ _ (addTokenP_noHang s _) (fun a => by simp [pure, Except.pure])
  case tokenColon => exact bind_noHang _ _ (addTokenP_noHang s _) (fun a => by simp [pure, Except.pure])
  case tokenNlColon => exact bind_noHang _ _ (addTokenP_noHang s _) (fun a => by simp [pure, Except.pure])
  case strQuote =>
    split
    · split
      · exact bind_noHang _ _ (addStringPOld_noHang s _) (fun a => by simp [pure, Except.pure])
      · exact bind_noHang _ _ (addStringP_noHang s _) (fun a => by simp [pure, Except.pure])
    · simp
  case closeObject =>
    split
    · refine bind_noHang _ _ (flushP_noHang s) (fun a => ?_)
      split
      · simp [fault]
      · split
        · simp
        · exact bind_noHang _ _ (add_noHang _ _) (fun a => by simp [pure, Except.pure])
    · simp
  case closeArray =>
    split
    · refine bind_noHang _ _ (flushCloseP_noHang s) (fun a => ?_)
      split
      · simp [fault]
      · exact bind_noHang _ _ (add_noHang _ _) (fun a => by simp [pure, Except.pure])
    · simp
  case closeParen =>
    split
    · refine bind_noHang _ _ (flushCloseP_noHang s) (fun a => ?_)
      split
      · simp [fault]
      · exact bind_noHang _ _ (addIgnore_noHang _ _) (fun a => by simp [pure, Except.pure])
      · simp
    · simp
  case numDot => split <;> simp
  case charErr => split <;> simp
  all_goals simp

section hangChain
variable (cfg : Cfg) (hc : cfg.tokenizer = false)
include hc

theorem deliver_noHang (s : St) : deliver refTables cfg s ≠ .error .hang := by
  unfold deliver deliverP
  simp only [hc, Bool.false_eq_true, ↓reduceIte]
  split
  · split <;> simp [fault]
  · simp

theorem stepCore_noHang (s : St) (f : Fast) (b : UInt8) : stepCore refTables cfg s f b ≠ .error .hang := by
  unfold stepCore stepAct
  simp only [hc, Bool.false_eq_true, ↓reduceIte]
  have := stepActP_noHang cfg s f.inFast b
  cases h1 : stepActP refTables cfg s f.inFast b with
  | error e => simp only []; intro he; cases he; exact this h1
  | ok r =>
    obtain ⟨s1, cont, nl⟩ := r
    simp only []
    split
    · simp
    · have hd := deliver_noHang cfg hc s1
      cases h2 : deliver refTables cfg s1 with
      | error e => simp only []; intro he; cases he; exact hd h2
      | ok a => simp

theorem tokenEndFast_noHang (s : St) (f : Fast) (b : UInt8) : tokenEndFast refTables cfg s f b ≠ .error .hang := by
  unfold tokenEndFast
  simp only [hc, Bool.not_false, Bool.and_true, Bool.false_eq_true, ↓reduceIte]
  split
  · simp
  · have ht := addTokenP_noHang s s.tmp.reverse
    cases h1 : s.addTokenP s.tmp.reverse with
    | error e => simp only []; intro he; cases he; exact ht h1
    | ok a =>
      simp only []
      have hd := deliver_noHang cfg hc a
      cases h2 : deliver refTables cfg a with
      | error e => simp only []; intro he; cases he; exact hd h2
      | ok a2 => exact stepCore_noHang cfg hc a2 _ b

theorem step_noHang (s : St) (f : Fast) (b : UInt8) (l : Bool) : step refTables cfg s f b l ≠ .error .hang := by
  unfold step
  split
  · simp
  · split
    · exact tokenEndFast_noHang cfg hc _ _ b
    · exact stepCore_noHang cfg hc _ _ b

theorem runBytes_noHang (bs : Bytes) : ∀ (s : St) (f : Fast) (p : Pos) (e : Err),
    runBytes refTables cfg s f p bs = .error e → e.kind ≠ .hang := by
  induction bs with
  | nil => intro s f p e h; cases h
  | cons b r ih =>
    intro s f p e h
    simp only [runBytes] at h
    have hs := step_noHang cfg hc s f b r.isEmpty
    cases h1 : step refTables cfg s f b r.isEmpty with
    | error k =>
      rw [h1] at h; cases h
      simp only [Pos.err]
      intro hk; subst hk; exact hs h1
    | ok x => obtain ⟨s1, f1, nl⟩ := x; rw [h1] at h; exact ih _ _ _ e h

theorem runChunks_noHang (cs : List Bytes) : ∀ (s : St) (p : Pos) (e : Err),
    runChunks refTables cfg s p cs = .error e → e.kind ≠ .hang := by
  induction cs with
  | nil => intro s p e h; cases h
  | cons c rest ih =>
    intro s p e h
    simp only [runChunks] at h
    cases h1 : runBytes refTables cfg s {} { p with off := 0 } c with
    | error e' => rw [h1] at h; cases h; exact runBytes_noHang cfg hc c _ _ _ _ h1
    | ok x => obtain ⟨s1, f1, p1⟩ := x; rw [h1] at h; exact ih _ _ e h

theorem finish_noHang (s : St) (p : Pos) (e : Err) (h : finish refTables cfg s p = .error e) : e.kind ≠ .hang := by
  unfold finish at h
  simp only [hc, Bool.false_eq_true, ↓reduceIte] at h
  split at h
  · cases h; simp [Pos.err]
  · split at h
    · cases h; simp [Pos.err]
    · have := addIgnore_noHang s s.num.asNum.toJV
      cases h1 : s.addIgnore s.num.asNum.toJV with
      | error k => rw [h1] at h; cases h; simp only [Pos.err]; intro hk; subst hk; exact this h1
      | ok a =>
        rw [h1] at h; simp only [] at h
        split at h
        · cases h; simp [Pos.err]
        · cases h
    · have := addTokenP_noHang s s.tmp.reverse
      cases h1 : s.addTokenP s.tmp.reverse with
      | error k => rw [h1] at h; cases h; simp only [Pos.err]; intro hk; subst hk; exact this h1
      | ok a =>
        rw [h1] at h; simp only [] at h
        split at h
        · cases h; simp [Pos.err]
        · cases h
    · cases h

/-- **the parser machine never reaches the no-progress state** -/
theorem call_noHang_ref (prev : St) (chunks : List Bytes) (e : Err)
    (h : call refTables cfg prev chunks = .error e) : e.kind ≠ .hang := by
  have tail : ∀ cs e, (match runChunks refTables cfg (prev.entry cfg) {} cs with
        | .error e => (.error e : Except Err Out)
        | .ok (s, p) => finish refTables cfg s p) = .error e → e.kind ≠ .hang := by
    intro cs e he
    cases h1 : runChunks refTables cfg (prev.entry cfg) {} cs with
    | error e' => rw [h1] at he; cases he; exact runChunks_noHang cfg hc cs _ _ _ h1
    | ok x => obtain ⟨s1, p1⟩ := x; rw [h1] at he; exact finish_noHang cfg hc s1 p1 e he
  rw [call_ref] at h
  unfold callWith at h
  simp only [] at h
  split at h
  · exact finish_noHang cfg hc _ _ e h
  · split at h
    · cases h; simp
    · exact tail _ e h
    · exact tail _ e h

end hangChain

end OjgVerif.Sen
