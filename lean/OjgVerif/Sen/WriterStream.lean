import OjgVerif.Sen.WriterIndent
/-! # Model of `sen.Write` (sen/writer.go `MustWrite`, `appendSEN`, sen/tight.go) with its buffer and `WriteLimit`

`sen.Write(w, data, opts)` builds the text in `wr.buf` and hands the buffer to the `io.Writer` whenever it has grown
beyond `WriteLimit` at the END of an `appendSEN` call (`if wr.w != nil && wr.WriteLimit < len(wr.buf)`), then empties
it; what is left goes out at the end of `MustWrite`. The tight functions finish a container by OVERWRITING the blank
they appended after the last element (`wr.buf[len(wr.buf)-1] = ']'`): an index into the buffer as it is after
whatever flushes happened in between. The model keeps the chunks handed out (`sent`), the buffer, and `bad` = "an
index out of range" (overwriting the last byte of an empty buffer panics in Go).

`Props/C10Stream.lean` proves that for every `WriteLimit` the chunks joined are exactly the text `Sen.senWrite`
(so every C10 theorem about `senWrite` is a theorem about what `sen.Write` writes) and that `bad` never happens. -/
namespace OjgVerif.Sen
open OjgVerif

structure WS where
  sent : List Bytes := []     -- the chunks handed to the io.Writer, newest first
  buf : Bytes := []
  bad : Bool := false
  deriving Inhabited

def WS.push (s : WS) (bs : Bytes) : WS := { s with buf := s.buf ++ bs }

/-- `wr.buf[len(wr.buf)-1] = c` -/
def WS.setLast (s : WS) (c : UInt8) : WS :=
  if s.buf.isEmpty then { s with bad := true } else { s with buf := s.buf.dropLast ++ [c] }

/-- `if wr.w != nil && wr.WriteLimit < len(wr.buf) { wr.w.Write(wr.buf); wr.buf = wr.buf[:0] }` -/
def WS.flush (lim : Nat) (s : WS) : WS :=
  if lim < s.buf.length then { s with sent := s.buf :: s.sent, buf := [] } else s

/-- everything written so far, in order -/
def WS.total (s : WS) : Bytes := s.sent.reverse.flatten ++ s.buf

mutual
  /-- `wr.appendSEN(v, depth)` with an `io.Writer` and `WriteLimit = lim` -/
  def wVal (o : WOpts) (io : IOpts) (lim : Nat) (depth : Nat) : JV → WS → WS
    | .arr [], s => (s.push [91, 93]).flush lim
    | .arr (x :: r), s =>
      (if usesIndented io then wIElems o io lim depth (x :: r) (s.push [91])
       else wTElems o io lim (x :: r) (s.push [91]) false).flush lim
    | .obj kvs, s =>
      (if usesIndented io then wIMembers o io lim depth kvs (s.push [123])
       else wTMembers o io lim kvs (s.push [123]) false).flush lim
    | .null, s => (s.push [110, 117, 108, 108]).flush lim
    | .bool true, s => (s.push [116, 114, 117, 101]).flush lim
    | .bool false, s => (s.push [102, 97, 108, 115, 101]).flush lim
    | .int i, s => (s.push (fmtInt i)).flush lim
    | .flt t, s => (s.push t).flush lim
    | .big t, s => (s.push t).flush lim
    | .num t, s => (s.push t).flush lim
    | .str x, s => (s.push (senString x o.html)).flush lim
  /-- the loop of `tightArray` and what follows it; `space` = a blank was appended after the last element -/
  def wTElems (o : WOpts) (io : IOpts) (lim : Nat) : List JV → WS → Bool → WS
    | [], s, space => if space then s.setLast 93 else s.push [93]
    | x :: r, s, _ =>
      if needSep x then wTElems o io lim r ((wVal o io lim 0 x s).push [32]) true
      else wTElems o io lim r (wVal o io lim 0 x s) false
  /-- the loop of `tightObject` / `tightSortObject`; `comma` = a member was written -/
  def wTMembers (o : WOpts) (io : IOpts) (lim : Nat) : List (Bytes × JV) → WS → Bool → WS
    | [], s, comma => if comma then s.setLast 125 else s.push [125]
    | (k, v) :: r, s, comma =>
      if omitted o v then wTMembers o io lim r s comma
      else wTMembers o io lim r ((wVal o io lim 0 v ((s.push (senString k o.html)).push [58])).push [32]) true
  /-- the loop of `appendArray`, then `is` and `]` -/
  def wIElems (o : WOpts) (io : IOpts) (lim : Nat) (depth : Nat) : List JV → WS → WS
    | [], s => (s.push (indentSep io depth)).push [93]
    | x :: r, s => wIElems o io lim depth r (wVal o io lim (depth + 1) x (s.push (indentSep io (depth + 1))))
  /-- the loop of `appendObject` / `appendSortObject`, then `is` and `}` -/
  def wIMembers (o : WOpts) (io : IOpts) (lim : Nat) (depth : Nat) : List (Bytes × JV) → WS → WS
    | [], s => (s.push (indentSep io depth)).push [125]
    | (k, v) :: r, s =>
      if omitted o v then wIMembers o io lim depth r s
      else wIMembers o io lim depth r
        (wVal o io lim (depth + 1) v (((s.push (indentSep io (depth + 1))).push (senString k o.html)).push [58, 32]))
end

/-- `sen.Write(w, v, &ojg.Options{WriteLimit: lim, …})`: the chunks `w.Write` receives, in order (`none` if an index
went out of range) -/
def senWriteTo (o : WOpts) (io : IOpts) (lim : Nat) (v : JV) : Option (List Bytes) :=
  let s := wVal o io lim 0 v {}
  if s.bad then none else some (if s.buf.isEmpty then s.sent.reverse else (s.buf :: s.sent).reverse)

end OjgVerif.Sen
