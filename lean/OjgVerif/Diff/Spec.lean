import OjgVerif.Common.Bytes
/-! # Specification of "two value trees differ exactly at these paths" (property C19)

Independent of the library source: value trees are `JV`, a path is a list of fragments (member
name, element index, wildcard), a fingerprint matches a target when every member of the
fingerprint is matched.

Formalisation choices (where the property text is silent):

* *Numbers.* `JV.int i` is an integer of any width holding `i`; `JV.flt t` is a floating-point
  number whose exact value is the decimal text `t` (`[-]digits[.digits]`, read by `decVal` as
  `m / 10^s`). "Equal up to numeric width" is equality of these exact values.
  `JV.big`/`JV.num` (numbers kept as text) are atoms compared by their text and equal to nothing
  else: numeric width is about machine numbers.
* *null versus absent.* Only for object members (`member k m` is `null` when `k` is absent). An
  array element that is absent on one side is a difference, even against `null`.
* *Length mismatch.* Arrays of different length differ at the single path `[min length]`; that is
  the only path by which a result made of paths can express it, and the tail elements beyond it are
  not separate differences.
* *A difference is located at its leaf.* `LeafDiff a b q`: following `q` in both trees reaches a
  pair that clashes directly (different kinds or different atoms), or `q` ends in the `[min length]`
  index of two arrays of different length.
* *Ignore paths.* An ignore path covers a path when it is non-empty, not longer than the path, and
  matches it fragment by fragment (wildcard matches anything). The empty ignore path covers
  nothing and the root can therefore never be ignored.
* *Duplicate member names* do not exist in the values modelled; on an association list the first
  occurrence is the member (`member`), later ones are invisible to every definition here. -/
namespace OjgVerif

-- nesting depth: atoms 0, a container one more than its deepest child
mutual
  def JV.depth : JV → Nat
    | .arr xs => JV.depthList xs + 1
    | .obj m => JV.depthKvs m + 1
    | _ => 0
  def JV.depthList : List JV → Nat
    | [] => 0
    | x :: r => max x.depth (JV.depthList r)
  def JV.depthKvs : List (Bytes × JV) → Nat
    | [] => 0
    | (_, v) :: r => max v.depth (JV.depthKvs r)
end

end OjgVerif

namespace OjgVerif.Diff
open OjgVerif

/-- one step of a path -/
inductive Frag where
  | key (k : Bytes)
  | idx (i : Int)
  | wild
  deriving DecidableEq, Repr, Inhabited

abbrev Path := List Frag

/-! ## exact decimals -/

/-- the exact decimal `m / 10^s` -/
structure Dec where
  m : Int
  s : Nat
  deriving Repr, Inhabited

/-- equality of values (cross multiplication) -/
def Dec.eq (a b : Dec) : Bool := a.m * (10 : Int) ^ b.s == b.m * (10 : Int) ^ a.s

def Dec.ofInt (i : Int) : Dec := ⟨i, 0⟩

/-- digits and at most one `.`; any other byte is skipped (the driver refuses such text) -/
def decLoop : Bytes → Bool → Dec → Dec
  | [], _, d => d
  | c :: r, dot, d =>
    if c = 46 then decLoop r true d
    else if 48 ≤ c ∧ c ≤ 57 then
      decLoop r dot ⟨d.m * 10 + ((c.toNat - 48 : Nat) : Int), if dot then d.s + 1 else d.s⟩
    else decLoop r dot d

/-- value of the decimal text `[-]digits[.digits]` -/
def decVal (t : Bytes) : Dec :=
  if t.head? = some 45 then ⟨- (decLoop t.tail false ⟨0, 0⟩).m, (decLoop t.tail false ⟨0, 0⟩).s⟩
  else decLoop t false ⟨0, 0⟩

/-- well-formed float text (what the driver accepts) -/
def decOK (t : Bytes) : Bool :=
  let u := if t.head? = some 45 then t.tail else t
  !u.isEmpty && u.all (fun c => c = 46 || (48 ≤ c && c ≤ 57)) && (u.filter (· = 46)).length ≤ 1
    && u.head? != some 46 && u.getLast? != some 46

/-! ## values -/

/-- the member called `k` (first occurrence), `null` when absent -/
def member (k : Bytes) : List (Bytes × JV) → JV
  | [] => .null
  | (k', v) :: r => if k' = k then v else member k r

def keysOf (m : List (Bytes × JV)) : List Bytes := m.map Prod.fst

/-- equality of two values that are not both arrays or both objects: same atom, numbers by exact
value; `false` whenever a container is involved -/
def atomEq : JV → JV → Bool
  | .null, .null => true
  | .bool a, .bool b => a == b
  | .str a, .str b => a == b
  | .big a, .big b => a == b
  | .num a, .num b => a == b
  | .int i, .int j => i == j
  | .int i, .flt t => (Dec.ofInt i).eq (decVal t)
  | .flt t, .int j => (decVal t).eq (Dec.ofInt j)
  | .flt t, .flt u => (decVal t).eq (decVal u)
  | _, _ => false

/-- the two values are not both arrays, not both objects, and not the same atom -/
def clash : JV → JV → Bool
  | .arr _, .arr _ => false
  | .obj _, .obj _ => false
  | a, b => !atomEq a b

/-- equal up to numeric width and null-versus-absent object members -/
inductive Equiv : JV → JV → Prop
  | atom {a b : JV} : atomEq a b = true → Equiv a b
  | arr {xs ys : List JV} : xs.length = ys.length →
      (∀ (i : Nat) (x y : JV), xs[i]? = some x → ys[i]? = some y → Equiv x y) → Equiv (.arr xs) (.arr ys)
  | obj {m0 m1 : List (Bytes × JV)} :
      (∀ k, Equiv (member k m0) (member k m1)) → Equiv (.obj m0) (.obj m1)

/-- `q` is the exact location of a difference between the two trees -/
inductive LeafDiff : JV → JV → Path → Prop
  | here {a b : JV} : clash a b = true → LeafDiff a b []
  | len {xs ys : List JV} : xs.length ≠ ys.length →
      LeafDiff (.arr xs) (.arr ys) [.idx (min xs.length ys.length : Nat)]
  | elem {xs ys : List JV} {i : Nat} {x y : JV} {q : Path} : xs[i]? = some x → ys[i]? = some y →
      LeafDiff x y q → LeafDiff (.arr xs) (.arr ys) (.idx i :: q)
  | member {m0 m1 : List (Bytes × JV)} {k : Bytes} {q : Path} :
      LeafDiff (member k m0) (member k m1) q → LeafDiff (.obj m0) (.obj m1) (.key k :: q)

/-- following `p` in both trees leads to a genuine difference (not necessarily a leaf) -/
inductive DiffersAt : JV → JV → Path → Prop
  | here {a b : JV} : ¬ Equiv a b → DiffersAt a b []
  | extra {xs ys : List JV} {i : Nat} : min xs.length ys.length ≤ i → i < max xs.length ys.length →
      DiffersAt (.arr xs) (.arr ys) [.idx i]
  | elem {xs ys : List JV} {i : Nat} {x y : JV} {q : Path} : xs[i]? = some x → ys[i]? = some y →
      DiffersAt x y q → DiffersAt (.arr xs) (.arr ys) (.idx i :: q)
  | member {m0 m1 : List (Bytes × JV)} {k : Bytes} {q : Path} :
      DiffersAt (member k m0) (member k m1) q → DiffersAt (.obj m0) (.obj m1) (.key k :: q)

/-! ## domain -/

/-- every integer leaf satisfies `P` -/
inductive AllInts (P : Int → Prop) : JV → Prop
  | null : AllInts P .null
  | bool (b : Bool) : AllInts P (.bool b)
  | int (i : Int) : P i → AllInts P (.int i)
  | flt (t : Bytes) : AllInts P (.flt t)
  | big (t : Bytes) : AllInts P (.big t)
  | num (t : Bytes) : AllInts P (.num t)
  | str (t : Bytes) : AllInts P (.str t)
  | arr (xs : List JV) : (∀ x, x ∈ xs → AllInts P x) → AllInts P (.arr xs)
  | obj (m : List (Bytes × JV)) : (∀ kv, kv ∈ m → AllInts P kv.2) → AllInts P (.obj m)

/-- an integer that a 64-bit signed machine integer can hold -/
def IsInt64 (i : Int) : Prop := -9223372036854775808 ≤ i ∧ i < 9223372036854775808

instance (i : Int) : Decidable (IsInt64 i) := by unfold IsInt64; infer_instance

/-- a tree whose integer leaves fit a 64-bit signed integer -/
abbrev Int64Tree (a : JV) : Prop := AllInts IsInt64 a

/-- an integer that some machine integer type holds: `int64` or `uint64` -/
def IsMachineInt (i : Int) : Prop := -9223372036854775808 ≤ i ∧ i < 18446744073709551616

instance (i : Int) : Decidable (IsMachineInt i) := by unfold IsMachineInt; infer_instance

/-- a tree whose integer leaves are machine integers (the values the property is about) -/
abbrev MachineTree (a : JV) : Prop := AllInts IsMachineInt a

/-! ## ignore paths -/

/-- pattern fragment against path fragment -/
def fragMatch : Frag → Frag → Bool
  | .wild, _ => true
  | .idx i, .idx j => i == j
  | .key a, .key b => a == b
  | _, _ => false

def matchPrefix : Path → Path → Bool
  | [], _ => true
  | _ :: _, [] => false
  | g :: gs, f :: fs => fragMatch g f && matchPrefix gs fs

/-- the ignore path `g` covers `p` -/
def covers (g p : Path) : Bool := !g.isEmpty && matchPrefix g p

def ignoredB (ign : List Path) (p : Path) : Bool := ign.any (covers · p)

def Ignored (ign : List Path) (p : Path) : Prop := ignoredB ign p = true

instance (ign : List Path) (p : Path) : Decidable (Ignored ign p) := by unfold Ignored; infer_instance

/-- equal once every ignored location is disregarded -/
def EquivModulo (ign : List Path) (a b : JV) : Prop := ∀ q, LeafDiff a b q → Ignored ign q

/-! ## fingerprints -/

/-- every member of the fingerprint is matched in the target: atoms by `atomEq`, arrays element by
element with equal length, objects member by member of the fingerprint (a `null` member matches an
absent one); extra members of the target do not matter -/
inductive FpMatch : JV → JV → Prop
  | atom {f t : JV} : atomEq f t = true → FpMatch f t
  | arr {xs ys : List JV} : xs.length = ys.length →
      (∀ (i : Nat) (x y : JV), xs[i]? = some x → ys[i]? = some y → FpMatch x y) → FpMatch (.arr xs) (.arr ys)
  | obj {m0 m1 : List (Bytes × JV)} :
      (∀ k, k ∈ keysOf m0 → FpMatch (member k m0) (member k m1)) → FpMatch (.obj m0) (.obj m1)

/-! ## executable oracle (used by the driver; tied to the relations above in `Lemmas`) -/

/-- all leaf differences, by fuel (`depth a + 1` suffices) -/
def leafDiffsF : Nat → JV → JV → List Path
  | 0, _, _ => []
  | n + 1, a, b =>
    match a, b with
    | .arr xs, .arr ys =>
      (List.range (min xs.length ys.length)).flatMap (fun i =>
          (leafDiffsF n (xs.getD i .null) (ys.getD i .null)).map (Frag.idx (i : Nat) :: ·))
        ++ (if xs.length = ys.length then [] else [[Frag.idx (min xs.length ys.length : Nat)]])
    | .obj m0, .obj m1 =>
      (keysOf m0 ++ keysOf m1).flatMap (fun k =>
          (leafDiffsF n (member k m0) (member k m1)).map (Frag.key k :: ·))
    | a, b => if clash a b then [[]] else []

def leafDiffs (a b : JV) : List Path := leafDiffsF (a.depth + 1) a b

/-- the differences that the ignore paths do not cover -/
def specDiffs (a b : JV) (ign : List Path) : List Path :=
  (leafDiffs a b).filter (fun p => !ignoredB ign p)

def fpMatchF : Nat → JV → JV → Bool
  | 0, _, _ => false
  | n + 1, f, t =>
    match f, t with
    | .arr xs, .arr ys =>
      xs.length == ys.length &&
        (List.range xs.length).all (fun i => fpMatchF n (xs.getD i .null) (ys.getD i .null))
    | .obj m0, .obj m1 => (keysOf m0).all (fun k => fpMatchF n (member k m0) (member k m1))
    | f, t => atomEq f t

def fpMatchB (f t : JV) : Bool := fpMatchF (f.depth + 1) f t

end OjgVerif.Diff
