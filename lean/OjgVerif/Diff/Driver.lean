import OjgVerif.Common.Driver
import OjgVerif.Diff.Model
/-! Driver ops of the `diff` family (line protocol, see `Common/Driver.lean`).

Values travel in the canonical text of `JV.render` (floats: `F(<hex of decimal text>)`), a path as
its fragments joined by `/` (`k<hex>` member, `i<int>` index, `w` wildcard; the empty path is `@`),
a list of paths joined by `;` (`-` when empty).

* `diff <s|g> <dev> <0|1> <v0> <v1> <ignores>` — model of Diff (`0`) / of the `one` mode (`1`);
  `<dev>` is `cur` (`Dev.current`), a subset of the letters `l f t g u` (`Dev` flags) or `-`
* `spec <v0> <v1> <ignores>` — specification: the leaf differences no ignore path covers
* `match <s|g> <dev> <fingerprint> <target>` — model of Match; `specmatch <f> <t>` — specification -/
namespace OjgVerif.Diff
open OjgVerif

/-! ## reading values -/

def spanClose : List Char → List Char → Option (List Char × List Char)
  | [], _ => none
  | c :: r, acc => if c = ')' then some (acc.reverse, r) else spanClose r (c :: acc)

def readInt (cs : List Char) : Option Int :=
  match cs with
  | '-' :: r => (String.ofList r).toNat?.map (fun n => - (n : Int))
  | _ => (String.ofList cs).toNat?.map (fun n => (n : Int))

def readHex (cs : List Char) : Option Bytes := ofHex (String.ofList cs)

/-- elements up to `]`, `p` reads one value -/
def pElems (p : List Char → Option (JV × List Char)) : Nat → List Char → List JV → Option (List JV × List Char)
  | 0, _, _ => none
  | n + 1, cs, acc =>
    match p cs with
    | none => none
    | some (v, ',' :: r) => pElems p n r (v :: acc)
    | some (v, ']' :: r) => some ((v :: acc).reverse, r)
    | some _ => none

def pMembers (p : List Char → Option (JV × List Char)) : Nat → List Char → List (Bytes × JV) → Option (List (Bytes × JV) × List Char)
  | 0, _, _ => none
  | n + 1, cs, acc =>
    match cs with
    | 'K' :: '(' :: r =>
      match spanClose r [] with
      | none => none
      | some (hx, r2) =>
        match readHex hx, p r2 with
        | some k, some (v, ',' :: r3) => pMembers p n r3 ((k, v) :: acc)
        | some k, some (v, '}' :: r3) => some (((k, v) :: acc).reverse, r3)
        | _, _ => none
    | _ => none

def pVal : Nat → List Char → Option (JV × List Char)
  | 0, _ => none
  | n + 1, cs =>
    match cs with
    | 'n' :: r => some (.null, r)
    | 't' :: r => some (.bool true, r)
    | 'f' :: r => some (.bool false, r)
    | '[' :: ']' :: r => some (.arr [], r)
    | '[' :: r => (pElems (pVal n) cs.length r []).map (fun (xs, r2) => (.arr xs, r2))
    | '{' :: '}' :: r => some (.obj [], r)
    | '{' :: r => (pMembers (pVal n) cs.length r []).map (fun (m, r2) => (.obj m, r2))
    | c :: '(' :: r =>
      match spanClose r [] with
      | none => none
      | some (body, r2) =>
        if c = 'I' then (readInt body).map (fun i => (.int i, r2))
        else if c = 'F' then
          match readHex body with
          | some t => if decOK t then some (.flt t, r2) else none
          | none => none
        else if c = 'B' then (readHex body).map (fun t => (.big t, r2))
        else if c = 'S' then (readHex body).map (fun t => (.str t, r2))
        else none
    | _ => none

def readJV (s : String) : Option JV :=
  match pVal (s.length + 1) s.toList with
  | some (v, []) => some v
  | _ => none

/-! ## paths -/

def readFrag (s : String) : Option Frag :=
  match s.toList with
  | ['w'] => some .wild
  | 'i' :: r => (readInt r).map Frag.idx
  | 'k' :: r => (readHex r).map Frag.key
  | _ => none

def readPath (s : String) : Option Path :=
  if s = "@" then some [] else (s.splitOn "/").mapM readFrag

def readPaths (s : String) : Option (List Path) :=
  if s = "-" then some [] else (s.splitOn ";").mapM readPath

def Frag.text : Frag → String
  | .wild => "w"
  | .idx i => "i" ++ toString i
  | .key k => "k" ++ toHexF k

def pathText (p : Path) : String :=
  if p.isEmpty then "@" else String.intercalate "/" (p.map Frag.text)

def pathsText (ps : List Path) : String :=
  if ps.isEmpty then "-" else String.intercalate ";" (ps.map pathText)

def readDev (s : String) : Option Dev :=
  if s = "cur" then some Dev.current
  else if s.toList.all (fun c => c = 'l' || c = 'f' || c = 't' || c = 'g' || c = 'u' || c = '-') then
    some ⟨s.contains 'l', s.contains 'f', s.contains 't', s.contains 'g', s.contains 'u'⟩
  else none

def readFlavour (s : String) : Option Flavour :=
  if s = "s" then some .simple else if s = "g" then some .gen else none

def boolText (b : Bool) : String := if b then "t" else "f"

def handle : List String → String
  | ["diff", fl, dev, one, a, b, ign] =>
    match readFlavour fl, readDev dev, readJV a, readJV b, readPaths ign with
    | some fl, some D, some a, some b, some ign =>
      if one = "0" then pathsText (diffTop D id fl false a b ign)
      else if one = "1" then pathsText (diffTop D id fl true a b ign)
      else "bad-op"
    | _, _, _, _, _ => "bad-op"
  | ["spec", a, b, ign] =>
    match readJV a, readJV b, readPaths ign with
    | some a, some b, some ign => pathsText (specDiffs a b ign)
    | _, _, _ => "bad-op"
  | ["match", fl, dev, f, t] =>
    match readFlavour fl, readDev dev, readJV f, readJV t with
    | some fl, some D, some f, some t => boolText (altMatch D fl f t)
    | _, _, _, _ => "bad-op"
  | ["specmatch", f, t] =>
    match readJV f, readJV t with
    | some f, some t => boolText (fpMatchB f t)
    | _, _ => "bad-op"
  | _ => "bad-op"

end OjgVerif.Diff
