import OjgVerif.Diff.Model
/-! Lemmas about the `diff` model: paths, ignore paths. -/
namespace OjgVerif.Diff
open OjgVerif

theorem norm_here : norm here = [] := by simp [norm]

theorem norm_addFrag (f : Frag) (hf : f ≠ .wild) (d : Path) : norm (addFrag f d) = f :: norm d := by
  unfold addFrag norm
  by_cases h : d = here
  · have : ([f] : Path) ≠ here := by
      intro h'; simp [here] at h'; exact hf h'
    simp [h, this]
  · have : (f :: d : Path) ≠ here := by
      intro h'; simp [here] at h'; exact hf h'.1
    simp [h, this]

/-- some one-fragment ignore path matches `f` -/
def headIgnored (f : Frag) : List Path → Bool
  | [] => false
  | g :: r =>
    (match g with
      | [g0] => fragMatch g0 f
      | _ => false) || headIgnored f r

/-- the tails of the longer ignore paths whose first fragment matches `f` -/
def tailIgnores (f : Frag) : List Path → List Path
  | [] => []
  | g :: r =>
    match g with
    | g0 :: g1 :: t => if fragMatch g0 f then (g1 :: t) :: tailIgnores f r else tailIgnores f r
    | _ => tailIgnores f r

theorem ignoredB_nil_path (ign : List Path) : ignoredB ign [] = false := by
  induction ign with
  | nil => rfl
  | cons g r ih =>
    simp only [ignoredB, List.any_cons] at ih ⊢
    rw [ih]
    cases g <;> simp [covers, matchPrefix]

theorem ignoredB_cons (f : Frag) (q : Path) (ign : List Path) :
    ignoredB ign (f :: q) = (headIgnored f ign || ignoredB (tailIgnores f ign) q) := by
  induction ign with
  | nil => rfl
  | cons g r ih =>
    simp only [ignoredB, List.any_cons] at ih ⊢
    rw [ih]
    match g with
    | [] => simp [covers, headIgnored, tailIgnores]
    | [g0] => simp [covers, matchPrefix, headIgnored, tailIgnores, Bool.or_assoc]
    | g0 :: g1 :: t =>
      simp only [headIgnored, tailIgnores]
      by_cases h : fragMatch g0 f = true
      · simp [covers, matchPrefix, h, Bool.or_left_comm]
      · simp [covers, matchPrefix, h]

theorem ignoreIndex_eq (i : Nat) (ign : List Path) : ignoreIndex i ign = headIgnored (.idx i) ign := by
  induction ign with
  | nil => rfl
  | cons g r ih =>
    simp only [ignoreIndex, headIgnored, ih]
    congr 1
    match g with
    | [] => rfl
    | [.wild] => rfl
    | [.idx j] => rfl
    | [.key k] => rfl
    | g0 :: _ :: _ => cases g0 <;> rfl

theorem ignoreKey_eq (k : Bytes) (ign : List Path) : ignoreKey k ign = headIgnored (.key k) ign := by
  induction ign with
  | nil => rfl
  | cons g r ih =>
    simp only [ignoreKey, headIgnored, ih]
    congr 1
    match g with
    | [] => rfl
    | [.wild] => rfl
    | [.idx j] => rfl
    | [.key k] => rfl
    | g0 :: _ :: _ => cases g0 <;> rfl

theorem mapChildIgnores_eq (k : Bytes) (ign : List Path) : mapChildIgnores k ign = tailIgnores (.key k) ign := by
  induction ign with
  | nil => rfl
  | cons g r ih =>
    match g with
    | [] => simp [mapChildIgnores, tailIgnores, ih]
    | [_] => simp [mapChildIgnores, tailIgnores, ih]
    | .wild :: _ :: _ => simp [mapChildIgnores, tailIgnores, ih, fragMatch]
    | .idx _ :: _ :: _ => simp [mapChildIgnores, tailIgnores, ih, fragMatch]
    | .key k' :: _ :: _ =>
      simp only [mapChildIgnores, tailIgnores, ih, fragMatch]
      by_cases h : k = k'
      · subst h; simp
      · have h' : ¬ k' = k := fun e => h e.symm
        simp [h, h']

theorem arrChildIgnoresAt_eq (i : Nat) (ign : List Path) : arrChildIgnoresAt i ign = tailIgnores (.idx i) ign := by
  induction ign with
  | nil => rfl
  | cons g r ih =>
    match g with
    | [] => simp [arrChildIgnoresAt, tailIgnores, ih]
    | [_] => simp [arrChildIgnoresAt, tailIgnores, ih]
    | .wild :: _ :: _ => simp [arrChildIgnoresAt, tailIgnores, ih, fragMatch]
    | .key _ :: _ :: _ => simp [arrChildIgnoresAt, tailIgnores, ih, fragMatch]
    | .idx j :: _ :: _ =>
      simp only [arrChildIgnoresAt, tailIgnores, ih, fragMatch]
      by_cases h : j = (i : Int) <;> simp [h]

theorem AllInts.elem {P : Int → Prop} {xs : List JV} {i : Nat} {x : JV}
    (h : AllInts P (.arr xs)) (hx : xs[i]? = some x) : AllInts P x := by
  cases h with
  | arr _ h => exact h x (List.mem_of_getElem? hx)

theorem allInts_member_aux {P : Int → Prop} (k : Bytes) : ∀ (m : List (Bytes × JV)),
    (∀ kv, kv ∈ m → AllInts P kv.2) → AllInts P (member k m)
  | [], _ => AllInts.null
  | (k', v) :: r, h => by
    simp only [member]
    split
    · exact h (k', v) (by simp)
    · exact allInts_member_aux k r (fun kv hkv => h kv (by simp [hkv]))

theorem AllInts.member {P : Int → Prop} {m : List (Bytes × JV)} (k : Bytes)
    (h : AllInts P (.obj m)) : AllInts P (member k m) := by
  cases h with
  | obj _ h => exact allInts_member_aux k m h

theorem depthList_getElem : ∀ (xs : List JV) (i : Nat) (x : JV), xs[i]? = some x → x.depth ≤ JV.depthList xs
  | [], i, x, h => by simp at h
  | y :: r, 0, x, h => by
    simp at h; subst h; simp [JV.depthList]; omega
  | y :: r, i + 1, x, h => by
    simp at h
    have := depthList_getElem r i x h
    simp [JV.depthList]; omega

theorem depth_elem {xs : List JV} {i : Nat} {x : JV} (h : xs[i]? = some x) : x.depth < (JV.arr xs).depth := by
  have := depthList_getElem xs i x h
  simp [JV.depth]; omega

theorem depthKvs_member (k : Bytes) : ∀ (m : List (Bytes × JV)), (member k m).depth ≤ JV.depthKvs m
  | [] => by simp [member, JV.depth]
  | (k', v) :: r => by
    simp only [member, JV.depthKvs]
    split
    · omega
    · have := depthKvs_member k r; omega

theorem depth_member (k : Bytes) (m : List (Bytes × JV)) : (member k m).depth < (JV.obj m).depth := by
  have := depthKvs_member k m
  simp [JV.depth]; omega

theorem member_of_not_mem (k : Bytes) : ∀ (m : List (Bytes × JV)), k ∉ keysOf m → member k m = .null
  | [], _ => rfl
  | (k', v) :: r, h => by
    simp [keysOf] at h
    simp only [member]
    have h1 : ¬ k' = k := fun e => h.1 e.symm
    simp [h1]
    exact member_of_not_mem k r (by simpa [keysOf] using h.2)

theorem mem_dedup (k : Bytes) : ∀ (l : List Bytes), k ∈ dedup l ↔ k ∈ l
  | [] => by simp [dedup]
  | a :: r => by
    simp only [dedup]
    split
    · rename_i h
      rw [mem_dedup k r]
      constructor
      · intro h'; exact List.mem_cons_of_mem _ h'
      · intro h'
        rcases List.mem_cons.1 h' with e | e
        · subst e; exact h
        · exact e
    · simp [mem_dedup k r]

theorem mem_unionKeys (k : Bytes) (m0 m1 : List (Bytes × JV)) :
    k ∈ unionKeys m0 m1 ↔ k ∈ keysOf m0 ∨ k ∈ keysOf m1 := by
  simp [unionKeys, mem_dedup]

/-! ## inversion of the specification relations -/

theorem leafDiff_arr_arr (xs ys : List JV) (p : Path) :
    LeafDiff (.arr xs) (.arr ys) p ↔
      (∃ (i : Nat) (x y : JV) (q : Path), xs[i]? = some x ∧ ys[i]? = some y ∧ LeafDiff x y q ∧ p = .idx i :: q)
      ∨ (xs.length ≠ ys.length ∧ p = [.idx (min xs.length ys.length : Nat)]) := by
  constructor
  · intro h
    cases h with
    | here h => simp [clash] at h
    | len h => exact Or.inr ⟨h, rfl⟩
    | elem h1 h2 h3 => exact Or.inl ⟨_, _, _, _, h1, h2, h3, rfl⟩
  · rintro (⟨i, x, y, q, h1, h2, h3, rfl⟩ | ⟨h, rfl⟩)
    · exact LeafDiff.elem h1 h2 h3
    · exact LeafDiff.len h

theorem leafDiff_obj_obj (m0 m1 : List (Bytes × JV)) (p : Path) :
    LeafDiff (.obj m0) (.obj m1) p ↔
      ∃ (k : Bytes) (q : Path), LeafDiff (member k m0) (member k m1) q ∧ p = .key k :: q := by
  constructor
  · intro h
    cases h with
    | here h => simp [clash] at h
    | member h => exact ⟨_, _, h, rfl⟩
  · rintro ⟨k, q, h, rfl⟩
    exact LeafDiff.member h

/-- not an array and not an object -/
def isAtom : JV → Bool
  | .arr _ => false
  | .obj _ => false
  | _ => true

theorem leafDiff_here_iff (a b : JV) (h : ∀ xs ys, ¬ (a = .arr xs ∧ b = .arr ys)) (h' : ∀ m0 m1, ¬ (a = .obj m0 ∧ b = .obj m1))
    (p : Path) : LeafDiff a b p ↔ p = [] ∧ clash a b = true := by
  constructor
  · intro hl
    cases hl with
    | here hc => exact ⟨rfl, hc⟩
    | len _ => exact absurd ⟨rfl, rfl⟩ (h _ _)
    | elem _ _ _ => exact absurd ⟨rfl, rfl⟩ (h _ _)
    | member _ => exact absurd ⟨rfl, rfl⟩ (h' _ _)
  · rintro ⟨rfl, hc⟩
    exact LeafDiff.here hc

theorem not_leafDiff_null (p : Path) : ¬ LeafDiff .null .null p := by
  intro h
  cases h with
  | here h => simp [clash, atomEq] at h

/-! ## the two loops (all paths, proposed-fix order of the length test) -/

theorem mem_mapLoop (d : JV → JV → List Path → List Path) (ign : List Path) (m0 m1 : List (Bytes × JV)) (p : Path) :
    ∀ ks, p ∈ mapLoop d false ign m0 m1 ks ↔
      ∃ k, k ∈ ks ∧ ignoreKey k ign = false ∧
        ∃ q, q ∈ d (member k m0) (member k m1) (mapChildIgnores k ign) ∧ p = addFrag (.key k) q
  | [] => by simp [mapLoop]
  | k :: ks => by
    simp only [mapLoop]
    by_cases hk : ignoreKey k ign = true
    · simp only [hk, if_true]
      rw [mem_mapLoop d ign m0 m1 p ks]
      constructor
      · rintro ⟨k', h1, h2, h3⟩; exact ⟨k', List.mem_cons_of_mem _ h1, h2, h3⟩
      · rintro ⟨k', h1, h2, h3⟩
        rcases List.mem_cons.1 h1 with e | e
        · subst e; rw [hk] at h2; cases h2
        · exact ⟨k', e, h2, h3⟩
    · have hk' : ignoreKey k ign = false := by simpa using hk
      simp only [hk', Bool.false_and, if_false, Bool.false_eq_true, List.mem_append, List.mem_map]
      rw [mem_mapLoop d ign m0 m1 p ks]
      constructor
      · rintro (⟨q, hq, rfl⟩ | ⟨k', h1, h2, h3⟩)
        · exact ⟨k, List.mem_cons_self, hk', q, hq, rfl⟩
        · exact ⟨k', List.mem_cons_of_mem _ h1, h2, h3⟩
      · rintro ⟨k', h1, h2, q, hq, rfl⟩
        rcases List.mem_cons.1 h1 with e | e
        · subst e; exact Or.inl ⟨q, hq, rfl⟩
        · exact Or.inr ⟨k', e, h2, q, hq, rfl⟩

theorem mem_arrLoop (D : Dev) (ht : D.tailSkip = false) (d : JV → JV → List Path → List Path) (ign : List Path)
    (ys : List JV) (p : Path) : ∀ (xs : List JV) (i0 : Nat), i0 ≤ ys.length →
    (p ∈ arrLoop D d false ign ys xs i0 ↔
      (∃ (j : Nat) (x y : JV) (q : Path), xs[j]? = some x ∧ ys[i0 + j]? = some y ∧ ignoreIndex (i0 + j) ign = false ∧
          q ∈ d x y (elemIgnores D (i0 + j) ign) ∧ p = addFrag (.idx ((i0 + j : Nat) : Int)) q)
      ∨ (i0 + xs.length ≠ ys.length ∧ ignoreIndex (min (i0 + xs.length) ys.length) ign = false ∧
          p = [.idx ((min (i0 + xs.length) ys.length : Nat) : Int)]))
  | [], i0, hi => by
    have hm : min i0 ys.length = i0 := Nat.min_eq_left hi
    simp only [arrLoop, List.length_nil, Nat.add_zero, hm]
    constructor
    · intro h
      split at h
      · rename_i hc
        simp at h; subst h
        exact Or.inr ⟨hc.1, hc.2, rfl⟩
      · simp at h
    · rintro (⟨j, x, y, q, h1, _⟩ | ⟨h1, h2, rfl⟩)
      · simp at h1
      · simp [h1, h2]
  | x :: xs, i0, hi => by
    simp only [arrLoop, ht, Bool.false_eq_true, if_false]
    cases hy : ys[i0]? with
    | none =>
      have hlen : ys.length ≤ i0 := by simpa using hy
      have he : i0 = ys.length := by omega
      have hm : min (i0 + (x :: xs).length) ys.length = i0 := by simp; omega
      simp only [hm]
      constructor
      · intro h
        split at h
        · simp at h
        · rename_i hc
          simp at h; subst h
          refine Or.inr ⟨by simp; omega, by simpa using hc, rfl⟩
      · rintro (⟨j, x', y, q, _, h2, _⟩ | ⟨_, h2, rfl⟩)
        · have : i0 + j < ys.length := by
            rcases Nat.lt_or_ge (i0 + j) ys.length with h | h
            · exact h
            · rw [List.getElem?_eq_none h] at h2; cases h2
          omega
        · simp [h2]
    | some y =>
      have hlt : i0 < ys.length := by
        rcases Nat.lt_or_ge i0 ys.length with h | h
        · exact h
        · rw [List.getElem?_eq_none h] at hy; cases hy
      have ih := mem_arrLoop D ht d ign ys p xs (i0 + 1) hlt
      have hlen : i0 + (x :: xs).length = i0 + 1 + xs.length := by simp; omega
      simp only [hlen]
      by_cases hig : ignoreIndex i0 ign = true
      · simp only [hig, if_true]
        rw [ih]
        constructor
        · rintro (⟨j, x', y', q, h1, h2, h3, h4, h5⟩ | h)
          · refine Or.inl ⟨j + 1, x', y', q, by simpa using h1, ?_, ?_, ?_, ?_⟩
            · rw [show i0 + (j + 1) = i0 + 1 + j by omega]; exact h2
            · rw [show i0 + (j + 1) = i0 + 1 + j by omega]; exact h3
            · rw [show i0 + (j + 1) = i0 + 1 + j by omega]; exact h4
            · rw [show i0 + (j + 1) = i0 + 1 + j by omega]; exact h5
          · exact Or.inr h
        · rintro (⟨j, x', y', q, h1, h2, h3, h4, h5⟩ | h)
          · cases j with
            | zero => simp at h3; rw [hig] at h3; cases h3
            | succ j =>
              refine Or.inl ⟨j, x', y', q, by simpa using h1, ?_, ?_, ?_, ?_⟩
              · rw [show i0 + 1 + j = i0 + (j + 1) by omega]; exact h2
              · rw [show i0 + 1 + j = i0 + (j + 1) by omega]; exact h3
              · rw [show i0 + 1 + j = i0 + (j + 1) by omega]; exact h4
              · rw [show i0 + 1 + j = i0 + (j + 1) by omega]; exact h5
          · exact Or.inr h
      · have hig' : ignoreIndex i0 ign = false := by simpa using hig
        simp only [hig', Bool.false_eq_true, if_false, Bool.false_and, List.mem_append, List.mem_map]
        rw [ih]
        constructor
        · rintro (⟨q, hq, rfl⟩ | ⟨j, x', y', q, h1, h2, h3, h4, h5⟩ | h)
          · exact Or.inl ⟨0, x, y, q, by simp, by simpa using hy, by simpa using hig', by simpa using hq, by simp⟩
          · refine Or.inl ⟨j + 1, x', y', q, by simpa using h1, ?_, ?_, ?_, ?_⟩
            · rw [show i0 + (j + 1) = i0 + 1 + j by omega]; exact h2
            · rw [show i0 + (j + 1) = i0 + 1 + j by omega]; exact h3
            · rw [show i0 + (j + 1) = i0 + 1 + j by omega]; exact h4
            · rw [show i0 + (j + 1) = i0 + 1 + j by omega]; exact h5
          · exact Or.inr h
        · rintro (⟨j, x', y', q, h1, h2, h3, h4, h5⟩ | h)
          · cases j with
            | zero =>
              simp at h1 h2 h4 h5
              subst h1
              rw [hy] at h2; cases h2
              exact Or.inl ⟨q, h4, h5.symm⟩
            | succ j =>
              refine Or.inr (Or.inl ⟨j, x', y', q, by simpa using h1, ?_, ?_, ?_, ?_⟩)
              · rw [show i0 + 1 + j = i0 + (j + 1) by omega]; exact h2
              · rw [show i0 + 1 + j = i0 + (j + 1) by omega]; exact h3
              · rw [show i0 + 1 + j = i0 + (j + 1) by omega]; exact h4
              · rw [show i0 + 1 + j = i0 + (j + 1) by omega]; exact h5
          · exact Or.inr (Or.inr h)

/-! ## atoms, and the main theorem for the fixed model -/

theorem pow10_pos (s : Nat) : (0 : Int) < (10 : Int) ^ s := Int.pow_pos (by decide)

theorem decInt?_iff (d : Dec) (q : Int) : decInt? d = some q ↔ d.m = q * (10 : Int) ^ d.s := by
  have hP0 : (10 : Int) ^ d.s ≠ 0 := Int.ne_of_gt (pow10_pos d.s)
  unfold decInt?
  constructor
  · intro h
    split at h
    · rename_i hc
      simp only [Option.some.injEq] at h
      rw [← h]
      exact (Int.ediv_mul_cancel (Int.dvd_of_emod_eq_zero hc)).symm
    · cases h
  · intro h
    have hdiv : d.m / (10 : Int) ^ d.s = q := by rw [h]; exact Int.mul_ediv_cancel _ hP0
    have hmod : d.m % (10 : Int) ^ d.s = 0 := by rw [h]; exact Int.mul_emod_left _ _
    rw [if_pos hmod, hdiv]

theorem asIntDec_iff (d : Dec) (i : Int) (hi : IsInt64 i) : asIntDec d = some i ↔ d.m = i * (10 : Int) ^ d.s := by
  unfold asIntDec
  constructor
  · intro h
    cases hq : decInt? d with
    | none => rw [hq] at h; cases h
    | some q =>
      rw [hq] at h
      simp only at h
      split at h
      · simp only [Option.some.injEq] at h; subst h; exact (decInt?_iff d q).1 hq
      · cases h
  · intro h
    rw [(decInt?_iff d i).2 h]
    have hr : inInt64 i = true := by simp [inInt64]; exact hi
    simp [hr]

theorem asIntDec_range {d : Dec} {q : Int} (h : asIntDec d = some q) : IsInt64 q := by
  unfold asIntDec at h
  cases hq : decInt? d with
  | none => rw [hq] at h; cases h
  | some q' =>
    rw [hq] at h
    simp only at h
    split at h
    · rename_i hr
      simp only [Option.some.injEq] at h; subst h
      simpa [inInt64, IsInt64] using hr
    · cases h

theorem Dec.eq_ofInt_left (i : Int) (d : Dec) : (Dec.ofInt i).eq d = true ↔ d.m = i * (10 : Int) ^ d.s := by
  simp only [Dec.eq, Dec.ofInt, Int.pow_zero, Int.mul_one, beq_iff_eq]
  exact eq_comm

theorem Dec.eq_ofInt_right (d : Dec) (i : Int) : d.eq (Dec.ofInt i) = true ↔ d.m = i * (10 : Int) ^ d.s := by
  simp only [Dec.eq, Dec.ofInt, Int.pow_zero, Int.mul_one, beq_iff_eq]

theorem wrap64_of_lt {i : Int} (h : i < 9223372036854775808) : wrap64 i = i := by
  unfold wrap64; rw [if_neg (by omega)]

theorem floatEqualM_fixed_int (f : Dec) (i : Int) (hi : IsMachineInt i) :
    floatEqualM Dev.fixed f (.int i) = f.eq (Dec.ofInt i) := by
  rw [Bool.eq_iff_iff, Dec.eq_ofInt_right]
  simp only [floatEqualM, Dev.fixed, Bool.not_false, Bool.true_and]
  by_cases ht : (9223372036854775808 : Int) ≤ i
  · have : isTop i = true := by simp [isTop, ht]
    simp only [this, if_true]
    constructor
    · intro h
      cases hq : decInt? f with
      | none => rw [hq] at h; cases h
      | some q =>
        rw [hq] at h
        simp only [Bool.and_eq_true, decide_eq_true_eq, beq_iff_eq] at h
        rw [← h.2]; exact (decInt?_iff f q).1 hq
    · intro h
      rw [(decInt?_iff f i).2 h]
      simp only [Bool.and_eq_true, decide_eq_true_eq, beq_iff_eq]
      exact ⟨⟨ht, hi.2⟩, trivial⟩
  · have : isTop i = false := by simp [isTop, ht]
    have hi64 : IsInt64 i := ⟨hi.1, by omega⟩
    simp only [this, Bool.false_eq_true, if_false, wrap64_of_lt hi64.2]
    constructor
    · intro h
      cases hq : asIntDec f with
      | none => rw [hq] at h; cases h
      | some q =>
        rw [hq] at h
        simp only [beq_iff_eq] at h
        subst h; exact (asIntDec_iff f q hi64).1 hq
    · intro h
      rw [(asIntDec_iff f i hi64).2 h]; simp

theorem intCase_fixed_int (i j : Int) : intCase Dev.fixed i (.int j) = (i == j) := by
  rw [Bool.eq_iff_iff]
  simp only [intCase, Dev.fixed, Bool.false_eq_true, if_false, isTop, wrap64, beq_iff_eq]
  by_cases hi : (9223372036854775808 : Int) ≤ i <;> by_cases hj : (9223372036854775808 : Int) ≤ j <;>
    simp [hi, hj] <;> omega

theorem intCase_fixed (i : Int) (hi : IsMachineInt i) (v : JV) : intCase Dev.fixed i v = atomEq (.int i) v := by
  cases v with
  | int j => rw [intCase_fixed_int]; simp [atomEq]
  | flt u =>
    have : intCase Dev.fixed i (.flt u) = floatEqualM Dev.fixed (decVal u) (.int i) := by
      simp [intCase, Dev.fixed]
    rw [this, floatEqualM_fixed_int _ _ hi, Bool.eq_iff_iff, Dec.eq_ofInt_right]
    simp only [atomEq, Dec.eq_ofInt_left]
  | null => simp [intCase, Dev.fixed, atomEq]
  | bool _ => simp [intCase, Dev.fixed, atomEq]
  | str _ => simp [intCase, Dev.fixed, atomEq]
  | big _ => simp [intCase, Dev.fixed, atomEq]
  | num _ => simp [intCase, Dev.fixed, atomEq]
  | arr _ => simp [intCase, Dev.fixed, atomEq]
  | obj _ => simp [intCase, Dev.fixed, atomEq]

theorem fltCase_fixed (t : Bytes) (v : JV) (hv : MachineTree v) :
    fltCase Dev.fixed (decVal t) v = atomEq (.flt t) v := by
  have h0 : fltCase Dev.fixed (decVal t) v = floatEqualM Dev.fixed (decVal t) v := by simp [fltCase, Dev.fixed]
  rw [h0]
  cases v with
  | int j =>
    have hj : IsMachineInt j := by cases hv with | int _ h => exact h
    rw [floatEqualM_fixed_int _ _ hj]; simp [atomEq]
  | flt u => simp [floatEqualM, atomEq]
  | null => simp [floatEqualM, atomEq]
  | bool _ => simp [floatEqualM, atomEq]
  | str _ => simp [floatEqualM, atomEq]
  | big _ => simp [floatEqualM, atomEq]
  | num _ => simp [floatEqualM, atomEq]
  | arr _ => simp [floatEqualM, atomEq]
  | obj _ => simp [floatEqualM, atomEq]

theorem diffF_atom (ord : List Bytes → List Bytes) (n : Nat) (one : Bool) (a b : JV) (ign : List Path)
    (ha : isAtom a = true) (hi : MachineTree a) (hb : MachineTree b) :
    diffF Dev.fixed ord (n + 1) one a b ign = if clash a b = true then [here] else [] := by
  cases a with
  | arr _ => simp [isAtom] at ha
  | obj _ => simp [isAtom] at ha
  | null => cases b <;> simp [diffF, clash, atomEq]
  | bool x => cases b <;> simp [diffF, clash, atomEq]
  | str x => cases b <;> simp [diffF, clash, atomEq]
  | big x => cases b <;> simp [diffF, clash, atomEq]
  | num x => cases b <;> simp [diffF, clash, atomEq]
  | flt x =>
    have hc : clash (.flt x) b = !atomEq (.flt x) b := by cases b <;> rfl
    simp only [diffF, fltCase_fixed x b hb, hc]
    cases atomEq (.flt x) b <;> simp
  | int i =>
    have hi' : IsMachineInt i := by cases hi with | int _ h => exact h
    have hc : clash (.int i) b = !atomEq (.int i) b := by cases b <;> rfl
    simp only [diffF, intCase_fixed i hi' b, hc]
    cases atomEq (.int i) b <;> simp

theorem leafDiff_atom {a : JV} (ha : isAtom a = true) (b : JV) (p : Path) :
    LeafDiff a b p ↔ p = [] ∧ clash a b = true := by
  apply leafDiff_here_iff
  · rintro xs ys ⟨rfl, _⟩; simp [isAtom] at ha
  · rintro m0 m1 ⟨rfl, _⟩; simp [isAtom] at ha

theorem norm_idx_single (i : Int) : norm [.idx i] = [.idx i] := by simp [norm, here]

theorem elemIgnores_fixed (i : Nat) (ign : List Path) : elemIgnores Dev.fixed i ign = tailIgnores (.idx i) ign := by
  simp [elemIgnores, Dev.fixed, arrChildIgnoresAt_eq]

theorem mem_ndiffF (ord : List Bytes → List Bytes) (hord : ∀ l k, k ∈ ord l ↔ k ∈ l) :
    ∀ (n : Nat) (a b : JV) (ign : List Path) (p : Path), a.depth < n → MachineTree a → MachineTree b →
      (p ∈ (diffF Dev.fixed ord n false a b ign).map norm ↔ LeafDiff a b p ∧ ignoredB ign p = false) := by
  intro n
  induction n with
  | zero => intro a b ign p h; omega
  | succ n ih =>
    intro a b ign p hd hi hb
    by_cases ha : isAtom a = true
    · rw [diffF_atom ord n false a b ign ha hi hb, leafDiff_atom ha]
      by_cases hc : clash a b = true
      · simp only [hc, if_true, List.map_cons, List.map_nil, norm_here, List.mem_singleton]
        constructor
        · rintro rfl; exact ⟨⟨rfl, trivial⟩, ignoredB_nil_path ign⟩
        · rintro ⟨⟨h, _⟩, _⟩; exact h
      · simp [hc]
    · cases a with
      | null => simp [isAtom] at ha
      | bool _ => simp [isAtom] at ha
      | int _ => simp [isAtom] at ha
      | flt _ => simp [isAtom] at ha
      | big _ => simp [isAtom] at ha
      | num _ => simp [isAtom] at ha
      | str _ => simp [isAtom] at ha
      | arr xs =>
        by_cases hb : ∃ ys, b = .arr ys
        · obtain ⟨ys, rfl⟩ := hb
          simp only [diffF, List.mem_map]
          constructor
          · rintro ⟨p0, hp0, rfl⟩
            rw [mem_arrLoop Dev.fixed rfl _ ign ys p0 xs 0 (Nat.zero_le _)] at hp0
            simp only [Nat.zero_add] at hp0
            rcases hp0 with ⟨j, x, y, q, h1, h2, h3, h4, rfl⟩ | ⟨h1, h2, rfl⟩
            · rw [norm_addFrag _ (by simp)]
              rw [elemIgnores_fixed] at h4
              have := (ih x y _ (norm q) (by have := depth_elem h1; simp [JV.depth] at this hd; omega) (hi.elem h1) (hb.elem h2)).1
                (List.mem_map.2 ⟨q, h4, rfl⟩)
              refine ⟨LeafDiff.elem h1 h2 this.1, ?_⟩
              rw [ignoredB_cons, ← ignoreIndex_eq, h3, this.2]; rfl
            · rw [norm_idx_single]
              refine ⟨LeafDiff.len h1, ?_⟩
              rw [ignoredB_cons, ← ignoreIndex_eq, h2, ignoredB_nil_path]; rfl
          · rintro ⟨hl, hig⟩
            rcases (leafDiff_arr_arr xs ys p).1 hl with ⟨i, x, y, q, h1, h2, h3, rfl⟩ | ⟨h1, rfl⟩
            · rw [ignoredB_cons, ← ignoreIndex_eq] at hig
              simp only [Bool.or_eq_false_iff] at hig
              have := (ih x y (tailIgnores (.idx i) ign) q (by have := depth_elem h1; simp [JV.depth] at this hd; omega) (hi.elem h1) (hb.elem h2)).2 ⟨h3, hig.2⟩
              obtain ⟨q0, hq0, rfl⟩ := List.mem_map.1 this
              refine ⟨addFrag (.idx i) q0, ?_, norm_addFrag _ (by simp) _⟩
              rw [mem_arrLoop Dev.fixed rfl _ ign ys _ xs 0 (Nat.zero_le _)]
              refine Or.inl ⟨i, x, y, q0, h1, by simpa using h2, by simpa using hig.1, ?_, by simp⟩
              rw [elemIgnores_fixed]; simpa using hq0
            · rw [ignoredB_cons, ← ignoreIndex_eq] at hig
              simp only [Bool.or_eq_false_iff] at hig
              refine ⟨_, ?_, norm_idx_single _⟩
              rw [mem_arrLoop Dev.fixed rfl _ ign ys _ xs 0 (Nat.zero_le _)]
              exact Or.inr ⟨by simpa using h1, by simpa using hig.1, by simp⟩
        · have hdf : diffF Dev.fixed ord (n + 1) false (.arr xs) b ign = [here] := by
            cases b <;> simp [diffF] at hb ⊢
          have hcl : clash (.arr xs) b = true := by
            cases b <;> simp [clash, atomEq] at hb ⊢
          rw [hdf, leafDiff_here_iff _ _ (by rintro xs' ys ⟨_, rfl⟩; exact hb ⟨ys, rfl⟩) (by rintro m0 m1 ⟨h, _⟩; cases h)]
          simp only [List.map_cons, List.map_nil, norm_here, List.mem_singleton]
          constructor
          · rintro rfl; exact ⟨⟨rfl, hcl⟩, ignoredB_nil_path ign⟩
          · rintro ⟨⟨h, _⟩, _⟩; exact h
      | obj m0 =>
        by_cases hb : ∃ m1, b = .obj m1
        · obtain ⟨m1, rfl⟩ := hb
          simp only [diffF, List.mem_map]
          constructor
          · rintro ⟨p0, hp0, rfl⟩
            rw [mem_mapLoop] at hp0
            obtain ⟨k, _, h2, q, h4, rfl⟩ := hp0
            rw [norm_addFrag _ (by simp)]
            rw [mapChildIgnores_eq] at h4
            have := (ih (member k m0) (member k m1) _ (norm q) (by have := depth_member k m0; simp [JV.depth] at this hd; omega) (hi.member k) (hb.member k)).1
              (List.mem_map.2 ⟨q, h4, rfl⟩)
            refine ⟨LeafDiff.member this.1, ?_⟩
            rw [ignoredB_cons, ← ignoreKey_eq, h2, this.2]; rfl
          · rintro ⟨hl, hig⟩
            obtain ⟨k, q, h3, rfl⟩ := (leafDiff_obj_obj m0 m1 p).1 hl
            rw [ignoredB_cons, ← ignoreKey_eq] at hig
            simp only [Bool.or_eq_false_iff] at hig
            have := (ih (member k m0) (member k m1) (tailIgnores (.key k) ign) q (by have := depth_member k m0; simp [JV.depth] at this hd; omega) (hi.member k) (hb.member k)).2 ⟨h3, hig.2⟩
            obtain ⟨q0, hq0, rfl⟩ := List.mem_map.1 this
            refine ⟨addFrag (.key k) q0, ?_, norm_addFrag _ (by simp) _⟩
            rw [mem_mapLoop]
            refine ⟨k, ?_, hig.1, q0, by rw [mapChildIgnores_eq]; exact hq0, rfl⟩
            rw [hord, mem_unionKeys]
            by_cases hk0 : k ∈ keysOf m0
            · exact Or.inl hk0
            · by_cases hk1 : k ∈ keysOf m1
              · exact Or.inr hk1
              · rw [member_of_not_mem k m0 hk0, member_of_not_mem k m1 hk1] at h3
                exact absurd h3 (not_leafDiff_null _)
        · have hdf : diffF Dev.fixed ord (n + 1) false (.obj m0) b ign = [here] := by
            cases b <;> simp [diffF] at hb ⊢
          have hcl : clash (.obj m0) b = true := by
            cases b <;> simp [clash, atomEq] at hb ⊢
          rw [hdf, leafDiff_here_iff _ _ (by rintro xs ys ⟨h, _⟩; cases h) (by rintro m0' m1 ⟨_, rfl⟩; exact hb ⟨m1, rfl⟩)]
          simp only [List.map_cons, List.map_nil, norm_here, List.mem_singleton]
          constructor
          · rintro rfl; exact ⟨⟨rfl, hcl⟩, ignoredB_nil_path ign⟩
          · rintro ⟨⟨h, _⟩, _⟩; exact h

/-! ## the `one` mode returns the first path of the full result -/

theorem take_one_append_of_ne_nil {α : Type} (l r : List α) (h : l ≠ []) : (l ++ r).take 1 = l.take 1 := by
  cases l with
  | nil => exact absurd rfl h
  | cons a t => simp

theorem arrLoop_one (D : Dev) (d1 d0 : JV → JV → List Path → List Path)
    (hd : ∀ x y ig, d1 x y ig = (d0 x y ig).take 1) (ign : List Path) (ys : List JV) :
    ∀ (xs : List JV) (i : Nat), arrLoop D d1 true ign ys xs i = (arrLoop D d0 false ign ys xs i).take 1
  | [], i => by
    simp only [arrLoop]
    split <;> simp
  | x :: xs, i => by
    have ih := arrLoop_one D d1 d0 hd ign ys xs (i + 1)
    simp only [arrLoop, hd, Bool.true_and, Bool.false_and, Bool.false_eq_true, if_false]
    have key : ∀ (l : List Path) (f : Frag),
        (if (!((l.take 1).map (addFrag f)).isEmpty) = true then ((l.take 1).map (addFrag f)).take 1
          else (l.take 1).map (addFrag f) ++ arrLoop D d1 true ign ys xs (i + 1))
        = (l.map (addFrag f) ++ arrLoop D d0 false ign ys xs (i + 1)).take 1 := by
      intro l f
      cases l with
      | nil => simp [ih]
      | cons a t => simp
    split
    · split
      · exact ih
      · split
        · simp
        · exact key _ _
    · split
      · split <;> simp
      · split
        · exact ih
        · exact key _ _

theorem mapLoop_one (d1 d0 : JV → JV → List Path → List Path)
    (hd : ∀ x y ig, d1 x y ig = (d0 x y ig).take 1) (ign : List Path) (m0 m1 : List (Bytes × JV)) :
    ∀ (ks : List Bytes), mapLoop d1 true ign m0 m1 ks = (mapLoop d0 false ign m0 m1 ks).take 1
  | [] => by simp [mapLoop]
  | k :: ks => by
    have ih := mapLoop_one d1 d0 hd ign m0 m1 ks
    simp only [mapLoop, hd, Bool.true_and, Bool.false_and, Bool.false_eq_true, if_false]
    split
    · exact ih
    · generalize d0 (member k m0) (member k m1) (mapChildIgnores k ign) = l
      cases l with
      | nil => simp [ih]
      | cons a t => simp

theorem diffF_one (D : Dev) (ord : List Bytes → List Bytes) :
    ∀ (n : Nat) (a b : JV) (ign : List Path), diffF D ord n true a b ign = (diffF D ord n false a b ign).take 1 := by
  intro n
  induction n with
  | zero => intro a b ign; simp [diffF]
  | succ n ih =>
    intro a b ign
    cases a with
    | null => cases b <;> simp [diffF]
    | bool x => cases b <;> simp [diffF] <;> split <;> simp
    | int x =>
      simp only [diffF]
      split <;> simp
    | flt x =>
      simp only [diffF]
      split <;> simp
    | str x => cases b <;> simp [diffF] <;> split <;> simp
    | big x => cases b <;> simp [diffF] <;> split <;> simp
    | num x => cases b <;> simp [diffF] <;> split <;> simp
    | arr xs =>
      cases b <;> simp [diffF]
      exact arrLoop_one D _ _ (fun x y ig => ih x y ig) ign _ xs 0
    | obj m0 =>
      cases b <;> simp [diffF]
      exact mapLoop_one _ _ (fun x y ig => ih x y ig) ign m0 _ _

/-! ## `Equiv` against `LeafDiff` and `DiffersAt` -/

theorem atomEq_false_of_clash {a b : JV} (h : clash a b = true) : atomEq a b = false := by
  cases a <;> cases b <;> simp_all [clash, atomEq]

theorem not_equiv_of_clash {a b : JV} (h : clash a b = true) : ¬ Equiv a b := by
  intro he
  cases he with
  | atom h' => rw [atomEq_false_of_clash h] at h'; cases h'
  | arr _ _ => simp [clash] at h
  | obj _ => simp [clash] at h

theorem leafDiff_not_equiv {a b : JV} {q : Path} (h : LeafDiff a b q) : ¬ Equiv a b := by
  induction h with
  | here hc => exact not_equiv_of_clash hc
  | len hl =>
    intro he
    cases he with
    | atom h' => simp [atomEq] at h'
    | arr h1 _ => exact hl h1
  | elem h1 h2 _ ih =>
    intro he
    cases he with
    | atom h' => simp [atomEq] at h'
    | arr _ h3 => exact ih (h3 _ _ _ h1 h2)
  | member _ ih =>
    intro he
    cases he with
    | atom h' => simp [atomEq] at h'
    | obj h3 => exact ih (h3 _)

theorem equiv_of_no_leafDiff : ∀ (n : Nat) (a b : JV), a.depth < n → (∀ q, ¬ LeafDiff a b q) → Equiv a b := by
  intro n
  induction n with
  | zero => intro a b h; omega
  | succ n ih =>
    intro a b hd h
    have hc : clash a b = false := by
      cases hcl : clash a b with
      | false => rfl
      | true => exact absurd (LeafDiff.here hcl) (h [])
    by_cases hab : (∃ xs ys, a = .arr xs ∧ b = .arr ys)
    · obtain ⟨xs, ys, rfl, rfl⟩ := hab
      refine Equiv.arr ?_ ?_
      · rcases Nat.lt_or_ge xs.length ys.length with hl | hl
        · exact absurd (LeafDiff.len (Nat.ne_of_lt hl)) (h _)
        · rcases Nat.lt_or_ge ys.length xs.length with hl' | hl'
          · exact absurd (LeafDiff.len (Nat.ne_of_gt hl')) (h _)
          · omega
      · intro i x y h1 h2
        refine ih x y (by have := depth_elem h1; simp [JV.depth] at this hd; omega) ?_
        intro q hq
        exact h _ (LeafDiff.elem h1 h2 hq)
    · by_cases hab' : (∃ m0 m1, a = .obj m0 ∧ b = .obj m1)
      · obtain ⟨m0, m1, rfl, rfl⟩ := hab'
        refine Equiv.obj ?_
        intro k
        refine ih _ _ (by have := depth_member k m0; simp [JV.depth] at this hd; omega) ?_
        intro q hq
        exact h _ (LeafDiff.member hq)
      · refine Equiv.atom ?_
        cases a <;> cases b <;> simp_all [clash]

/-- equal up to numeric width and null-versus-absent members ⇔ no difference anywhere -/
theorem equiv_iff_no_leafDiff (a b : JV) : Equiv a b ↔ ∀ q, ¬ LeafDiff a b q :=
  ⟨fun he _ hq => leafDiff_not_equiv hq he, equiv_of_no_leafDiff (a.depth + 1) a b (Nat.lt_succ_self _)⟩

theorem leafDiff_differsAt {a b : JV} {q : Path} (h : LeafDiff a b q) : DiffersAt a b q := by
  induction h with
  | here hc => exact DiffersAt.here (not_equiv_of_clash hc)
  | len hl => exact DiffersAt.extra (Nat.le_refl _) (by omega)
  | elem h1 h2 _ ih => exact DiffersAt.elem h1 h2 ih
  | member _ ih => exact DiffersAt.member ih

theorem differsAt_not_equiv {a b : JV} {p : Path} (h : DiffersAt a b p) : ¬ Equiv a b := by
  induction h with
  | here hn => exact hn
  | extra h1 h2 =>
    intro he
    cases he with
    | atom h' => simp [atomEq] at h'
    | arr h3 _ => omega
  | elem h1 h2 _ ih =>
    intro he
    cases he with
    | atom h' => simp [atomEq] at h'
    | arr _ h3 => exact ih (h3 _ _ _ h1 h2)
  | member _ ih =>
    intro he
    cases he with
    | atom h' => simp [atomEq] at h'
    | obj h3 => exact ih (h3 _)

/-! ## Match -/

theorem matchElems_iff (p : JV → JV → Bool) : ∀ (xs ys : List JV), xs.length = ys.length →
    (matchElems p xs ys = true ↔ ∀ (i : Nat) (x y : JV), xs[i]? = some x → ys[i]? = some y → p x y = true)
  | [], [], _ => by simp [matchElems]
  | [], _ :: _, h => by simp at h
  | _ :: _, [], h => by simp at h
  | x :: xs, y :: ys, h => by
    have ih := matchElems_iff p xs ys (by simpa using h)
    simp only [matchElems, Bool.and_eq_true, ih]
    constructor
    · rintro ⟨h0, h1⟩ i x' y' hx hy
      cases i with
      | zero => simp at hx hy; subst hx; subst hy; exact h0
      | succ i => exact h1 i x' y' (by simpa using hx) (by simpa using hy)
    · intro hh
      exact ⟨hh 0 x y (by simp) (by simp), fun i x' y' hx hy => hh (i + 1) x' y' (by simpa using hx) (by simpa using hy)⟩

theorem matchF_atom (n : Nat) (f t : JV) (ha : isAtom f = true) (hi : MachineTree f) (ht : MachineTree t) :
    matchF Dev.fixed (n + 1) f t = atomEq f t := by
  cases f with
  | arr _ => simp [isAtom] at ha
  | obj _ => simp [isAtom] at ha
  | null => cases t <;> simp [matchF, atomEq]
  | bool x => cases t <;> simp [matchF, atomEq]
  | str x => cases t <;> simp [matchF, atomEq]
  | big x => cases t <;> simp [matchF, atomEq]
  | num x => cases t <;> simp [matchF, atomEq]
  | flt x => simp only [matchF, fltCase_fixed x t ht]
  | int i =>
    have hi' : IsMachineInt i := by cases hi with | int _ h => exact h
    simp only [matchF, intCase_fixed i hi' t]

theorem fpMatch_atom {f : JV} (ha : isAtom f = true) (t : JV) : FpMatch f t ↔ atomEq f t = true := by
  constructor
  · intro h
    cases h with
    | atom h => exact h
    | arr _ _ => simp [isAtom] at ha
    | obj _ => simp [isAtom] at ha
  · exact FpMatch.atom

theorem fpMatch_arr (xs : List JV) (t : JV) : FpMatch (.arr xs) t ↔
    ∃ ys, t = .arr ys ∧ xs.length = ys.length ∧
      ∀ (i : Nat) (x y : JV), xs[i]? = some x → ys[i]? = some y → FpMatch x y := by
  constructor
  · intro h
    cases h with
    | atom h => simp [atomEq] at h
    | arr h1 h2 => exact ⟨_, rfl, h1, h2⟩
  · rintro ⟨ys, rfl, h1, h2⟩; exact FpMatch.arr h1 h2

theorem fpMatch_obj (m0 : List (Bytes × JV)) (t : JV) : FpMatch (.obj m0) t ↔
    ∃ m1, t = .obj m1 ∧ ∀ k, k ∈ keysOf m0 → FpMatch (member k m0) (member k m1) := by
  constructor
  · intro h
    cases h with
    | atom h => simp [atomEq] at h
    | obj h1 => exact ⟨_, rfl, h1⟩
  · rintro ⟨m1, rfl, h1⟩; exact FpMatch.obj h1

theorem matchF_iff : ∀ (n : Nat) (f t : JV), f.depth < n → MachineTree f → MachineTree t →
    (matchF Dev.fixed n f t = true ↔ FpMatch f t) := by
  intro n
  induction n with
  | zero => intro f t h; omega
  | succ n ih =>
    intro f t hd hi ht
    by_cases ha : isAtom f = true
    · rw [matchF_atom n f t ha hi ht, fpMatch_atom ha]
    · cases f with
      | null => simp [isAtom] at ha
      | bool _ => simp [isAtom] at ha
      | int _ => simp [isAtom] at ha
      | flt _ => simp [isAtom] at ha
      | big _ => simp [isAtom] at ha
      | num _ => simp [isAtom] at ha
      | str _ => simp [isAtom] at ha
      | arr xs =>
        rw [fpMatch_arr]
        cases t with
        | arr ys =>
          simp only [matchF, Bool.and_eq_true, beq_iff_eq]
          constructor
          · rintro ⟨hl, hm⟩
            refine ⟨ys, rfl, hl, ?_⟩
            intro i x y hx hy
            exact (ih x y (by have := depth_elem hx; simp [JV.depth] at this hd; omega) (hi.elem hx) (ht.elem hy)).1
              ((matchElems_iff _ xs ys hl).1 hm i x y hx hy)
          · rintro ⟨ys', he, hl, hm⟩
            cases he
            refine ⟨hl, (matchElems_iff _ xs ys hl).2 ?_⟩
            intro i x y hx hy
            exact (ih x y (by have := depth_elem hx; simp [JV.depth] at this hd; omega) (hi.elem hx) (ht.elem hy)).2 (hm i x y hx hy)
        | null => simp [matchF]
        | bool _ => simp [matchF]
        | int _ => simp [matchF]
        | flt _ => simp [matchF]
        | big _ => simp [matchF]
        | num _ => simp [matchF]
        | str _ => simp [matchF]
        | obj _ => simp [matchF]
      | obj m0 =>
        rw [fpMatch_obj]
        cases t with
        | obj m1 =>
          simp only [matchF, List.all_eq_true, mem_dedup]
          constructor
          · intro h
            refine ⟨m1, rfl, fun k hk => ?_⟩
            exact (ih _ _ (by have := depth_member k m0; simp [JV.depth] at this hd; omega) (hi.member k) (ht.member k)).1 (h k hk)
          · rintro ⟨m1', he, h⟩
            cases he
            intro k hk
            exact (ih _ _ (by have := depth_member k m0; simp [JV.depth] at this hd; omega) (hi.member k) (ht.member k)).2 (h k hk)
        | null => simp [matchF]
        | bool _ => simp [matchF]
        | int _ => simp [matchF]
        | flt _ => simp [matchF]
        | big _ => simp [matchF]
        | num _ => simp [matchF]
        | str _ => simp [matchF]
        | arr _ => simp [matchF]

/-! ## where the deviations of the current code do not show -/

theorem mem_tailIgnores {f : Frag} {g' : Path} : ∀ {ign : List Path}, g' ∈ tailIgnores f ign →
    ∃ g0 g1 t, g' = g1 :: t ∧ g0 :: g1 :: t ∈ ign
  | [], h => by simp [tailIgnores] at h
  | g :: r, h => by
    match g, h with
    | [], h =>
      simp only [tailIgnores] at h
      obtain ⟨g0, g1, t, h1, h2⟩ := mem_tailIgnores h
      exact ⟨g0, g1, t, h1, List.mem_cons_of_mem _ h2⟩
    | [_], h =>
      simp only [tailIgnores] at h
      obtain ⟨g0, g1, t, h1, h2⟩ := mem_tailIgnores h
      exact ⟨g0, g1, t, h1, List.mem_cons_of_mem _ h2⟩
    | a :: b :: t, h =>
      simp only [tailIgnores] at h
      split at h
      · rcases List.mem_cons.1 h with e | e
        · exact ⟨a, b, t, e, List.mem_cons_self⟩
        · obtain ⟨g0, g1, t', h1, h2⟩ := mem_tailIgnores e
          exact ⟨g0, g1, t', h1, List.mem_cons_of_mem _ h2⟩
      · obtain ⟨g0, g1, t', h1, h2⟩ := mem_tailIgnores h
        exact ⟨g0, g1, t', h1, List.mem_cons_of_mem _ h2⟩

theorem NoInnerIdx.tail {ign : List Path} (h : NoInnerIdx ign) (f : Frag) : NoInnerIdx (tailIgnores f ign) := by
  intro g' hg'
  obtain ⟨g0, g1, t, rfl, hm⟩ := mem_tailIgnores hg'
  have := h _ hm
  simp only [innerIdxFree, Bool.and_eq_true] at this
  exact this.2

theorem NoFinalIdx.tail {ign : List Path} (h : NoFinalIdx ign) (f : Frag) : NoFinalIdx (tailIgnores f ign) := by
  intro g' hg'
  obtain ⟨g0, g1, t, rfl, hm⟩ := mem_tailIgnores hg'
  have := h _ hm
  simpa only [finalIdxFree] using this

theorem arrLastIndex_of_noInner : ∀ (ign : List Path) (ii : Int), NoInnerIdx ign → arrLastIndex ign ii = ii
  | [], _, _ => rfl
  | g :: r, ii, h => by
    have hr : NoInnerIdx r := fun g' hg' => h g' (List.mem_cons_of_mem _ hg')
    have hg := h g List.mem_cons_self
    match g, hg with
    | [], _ => simp only [arrLastIndex]; exact arrLastIndex_of_noInner r ii hr
    | [_], _ => simp only [arrLastIndex]; exact arrLastIndex_of_noInner r ii hr
    | .wild :: _ :: _, _ => simp only [arrLastIndex]; exact arrLastIndex_of_noInner r ii hr
    | .key _ :: _ :: _, _ => simp only [arrLastIndex]; exact arrLastIndex_of_noInner r ii hr
    | .idx _ :: _ :: _, hg => simp [innerIdxFree] at hg

theorem arrChildIgnores_of_noInner (i : Nat) : ∀ (ign : List Path), NoInnerIdx ign →
    arrChildIgnores ign = arrChildIgnoresAt i ign
  | [], _ => rfl
  | g :: r, h => by
    have hr : NoInnerIdx r := fun g' hg' => h g' (List.mem_cons_of_mem _ hg')
    have hg := h g List.mem_cons_self
    have ih := arrChildIgnores_of_noInner i r hr
    match g, hg with
    | [], _ => simp only [arrChildIgnores, arrChildIgnoresAt]; exact ih
    | [_], _ => simp only [arrChildIgnores, arrChildIgnoresAt]; exact ih
    | .wild :: _ :: _, _ => simp only [arrChildIgnores, arrChildIgnoresAt, ih]
    | .key _ :: _ :: _, _ => simp only [arrChildIgnores, arrChildIgnoresAt]; exact ih
    | .idx _ :: _ :: _, hg => simp [innerIdxFree] at hg

theorem tailIgnores_length_le (f : Frag) : ∀ (ign : List Path), (tailIgnores f ign).length ≤ (ign.filter isLong).length
  | [] => by simp [tailIgnores]
  | g :: r => by
    have ih := tailIgnores_length_le f r
    match g with
    | [] => simpa [tailIgnores, isLong] using ih
    | [_] => simpa [tailIgnores, isLong] using ih
    | a :: b :: t =>
      simp only [tailIgnores, List.filter_cons, isLong, if_true, List.length_cons]
      split
      · simp only [List.length_cons]; omega
      · omega

theorem AtMostOneLong.tail {ign : List Path} (h : AtMostOneLong ign) (f : Frag) : AtMostOneLong (tailIgnores f ign) := by
  refine ⟨?_, ?_⟩
  · have h1 := tailIgnores_length_le f ign
    have h2 := List.length_filter_le isLong (tailIgnores f ign)
    have := h.1
    omega
  · intro g' hg'
    obtain ⟨g0, g1, t, rfl, hm⟩ := mem_tailIgnores hg'
    have := h.2 _ hm
    simp only [innerIdxNonneg, Bool.and_eq_true] at this
    exact this.2

theorem IdxSafe.tail {ign : List Path} (h : IdxSafe ign) (f : Frag) : IdxSafe (tailIgnores f ign) := by
  rcases h with h | h
  · exact Or.inl (h.tail f)
  · exact Or.inr (h.tail f)

theorem arr_fns_of_noLong : ∀ (r : List Path), (r.filter isLong).length = 0 →
    (∀ ii, arrLastIndex r ii = ii) ∧ arrChildIgnores r = [] ∧ ∀ i, arrChildIgnoresAt i r = []
  | [], _ => ⟨fun _ => rfl, rfl, fun _ => rfl⟩
  | g :: r, h => by
    match g, h with
    | [], h =>
      have ih := arr_fns_of_noLong r (by simpa [isLong] using h)
      exact ⟨fun ii => by simp only [arrLastIndex]; exact ih.1 ii, by simp only [arrChildIgnores]; exact ih.2.1,
        fun i => by simp only [arrChildIgnoresAt]; exact ih.2.2 i⟩
    | [_], h =>
      have ih := arr_fns_of_noLong r (by simpa [isLong] using h)
      exact ⟨fun ii => by simp only [arrLastIndex]; exact ih.1 ii, by simp only [arrChildIgnores]; exact ih.2.1,
        fun i => by simp only [arrChildIgnoresAt]; exact ih.2.2 i⟩
    | _ :: _ :: _, h => simp [isLong] at h

theorem elemIgnores_cur_of_oneLong (i : Nat) : ∀ (ign : List Path), AtMostOneLong ign →
    (if arrLastIndex ign (-1) = (i : Int) ∨ arrLastIndex ign (-1) < 0 then arrChildIgnores ign else [])
      = arrChildIgnoresAt i ign
  | [], _ => by simp [arrLastIndex, arrChildIgnores, arrChildIgnoresAt]
  | g :: r, h => by
    have hr : AtMostOneLong r := by
      refine ⟨?_, fun g' hg' => h.2 g' (List.mem_cons_of_mem _ hg')⟩
      have := h.1
      simp only [List.filter_cons] at this
      split at this
      · simp only [List.length_cons] at this; omega
      · exact this
    match g, h with
    | [], _ => simp only [arrLastIndex, arrChildIgnores, arrChildIgnoresAt]; exact elemIgnores_cur_of_oneLong i r hr
    | [_], _ => simp only [arrLastIndex, arrChildIgnores, arrChildIgnoresAt]; exact elemIgnores_cur_of_oneLong i r hr
    | g0 :: g1 :: t, h =>
      have h0 : (r.filter isLong).length = 0 := by
        have := h.1
        simp only [List.filter_cons, isLong, if_true, List.length_cons] at this
        omega
      obtain ⟨e1, e2, e3⟩ := arr_fns_of_noLong r h0
      have hn := h.2 _ List.mem_cons_self
      cases g0 with
      | wild => simp [arrLastIndex, arrChildIgnores, arrChildIgnoresAt, e1, e2, e3]
      | key k => simp [arrLastIndex, arrChildIgnores, arrChildIgnoresAt, e1, e2, e3]
      | idx j =>
        simp only [innerIdxNonneg, Bool.and_eq_true, decide_eq_true_eq] at hn
        have hj : ¬ j < 0 := by omega
        simp only [arrLastIndex, arrChildIgnores, arrChildIgnoresAt, e1, e2, e3, hj, or_false]

theorem elemIgnores_eq (D : Dev) (i : Nat) (ign : List Path) (h : D.lastIndex = true → IdxSafe ign) :
    elemIgnores D i ign = tailIgnores (.idx i) ign := by
  rw [← arrChildIgnoresAt_eq]
  unfold elemIgnores
  cases hl : D.lastIndex with
  | false => simp
  | true =>
    rcases h hl with hn | hn
    · rw [arrLastIndex_of_noInner ign (-1) hn, ← arrChildIgnores_of_noInner i ign hn]
      simp
    · simp only [if_true]
      exact elemIgnores_cur_of_oneLong i ign hn

theorem ignoreIndex_all_of_noFinal (i j : Nat) : ∀ (ign : List Path), NoFinalIdx ign →
    ignoreIndex i ign = true → ignoreIndex j ign = true
  | [], _, h => by simp [ignoreIndex] at h
  | g :: r, hn, h => by
    have hr : NoFinalIdx r := fun g' hg' => hn g' (List.mem_cons_of_mem _ hg')
    have hg := hn g List.mem_cons_self
    simp only [ignoreIndex, Bool.or_eq_true] at h ⊢
    rcases h with h | h
    · left
      match g, hg, h with
      | [.wild], _, _ => rfl
      | [.idx _], hg, _ => simp [finalIdxFree] at hg
    · exact Or.inr (ignoreIndex_all_of_noFinal i j r hr h)

theorem arrLoop_all_ignored (D : Dev) (ht : D.tailSkip = true) (d : JV → JV → List Path → List Path) (one : Bool)
    (ign : List Path) (ys : List JV) (h : ∀ j, ignoreIndex j ign = true) :
    ∀ (xs : List JV) (i : Nat), arrLoop D d one ign ys xs i = []
  | [], i => by simp [arrLoop, h i]
  | x :: xs, i => by
    simp only [arrLoop, ht, if_true, h i]
    exact arrLoop_all_ignored D ht d one ign ys h xs (i + 1)

theorem arrLoop_congr (D : Dev) (d d' : JV → JV → List Path → List Path) (one : Bool) (ign : List Path) (ys : List JV)
    (h1 : D.lastIndex = true → IdxSafe ign) (h2 : D.tailSkip = true → NoFinalIdx ign)
    :
    ∀ (xs : List JV) (i : Nat),
      (∀ x y i, x ∈ xs → y ∈ ys → d x y (tailIgnores (.idx i) ign) = d' x y (tailIgnores (.idx i) ign)) →
      arrLoop D d one ign ys xs i = arrLoop Dev.fixed d' one ign ys xs i
  | [], i, _ => by simp [arrLoop]
  | x :: xs, i, hd' => by
    have hd : ∀ y i, y ∈ ys → d x y (tailIgnores (.idx i) ign) = d' x y (tailIgnores (.idx i) ign) :=
      fun y i hy => hd' x y i List.mem_cons_self hy
    have ih := arrLoop_congr D d d' one ign ys h1 h2 xs (i + 1)
      (fun x' y i hx' hy => hd' x' y i (List.mem_cons_of_mem _ hx') hy)
    have hf : Dev.fixed.tailSkip = false := rfl
    simp only [arrLoop, hf, Bool.false_eq_true, if_false, elemIgnores_eq D i ign h1,
      elemIgnores_eq Dev.fixed i ign (by intro h; cases h)]
    cases ht : D.tailSkip with
    | false =>
      simp only [Bool.false_eq_true, if_false]
      cases hy : ys[i]? with
      | none => rfl
      | some y => simp only [hd y i (List.mem_of_getElem? hy), ih]
    | true =>
      simp only [if_true]
      cases hig : ignoreIndex i ign with
      | true =>
        simp only [if_true]
        cases hy : ys[i]? with
        | none =>
          exact arrLoop_all_ignored D ht d one ign ys (fun j => ignoreIndex_all_of_noFinal i j ign (h2 ht) hig) xs (i + 1)
        | some y => exact ih
      | false =>
        simp only [Bool.false_eq_true, if_false]
        cases hy : ys[i]? with
        | none => rfl
        | some y => simp only [hd y i (List.mem_of_getElem? hy), ih]

theorem mapLoop_congr (d d' : JV → JV → List Path → List Path) (one : Bool) (ign : List Path) (m0 m1 : List (Bytes × JV))
    (hd : ∀ k, d (member k m0) (member k m1) (tailIgnores (.key k) ign) = d' (member k m0) (member k m1) (tailIgnores (.key k) ign)) :
    ∀ (ks : List Bytes), mapLoop d one ign m0 m1 ks = mapLoop d' one ign m0 m1 ks
  | [] => rfl
  | k :: ks => by
    have ih := mapLoop_congr d d' one ign m0 m1 hd ks
    simp only [mapLoop, mapChildIgnores_eq, hd k, ih]

/-- an integer that `float64` holds exactly -/
theorem roundF64_exact {i : Int} (h : IsFloatExact i) : roundF64 i = i := by
  unfold roundF64
  have h' : i.natAbs < 2 ^ 53 := h
  simp only []
  rw [if_pos h']

theorem floatEqualM_congr (D : Dev) (h : D.uintWrap = false) (f : Dec) (v : JV) :
    floatEqualM D f v = floatEqualM Dev.fixed f v := by
  cases v <;> simp [floatEqualM, h, Dev.fixed]

theorem isTop_of_int64 {i : Int} (h : IsInt64 i) : isTop i = false := by
  have := h.2
  simp [isTop]; omega

theorem floatEqualM_eq (D : Dev) (f : Dec) (v : JV) (hu : D.uintWrap = true → Int64Tree v) :
    floatEqualM D f v = floatEqualM Dev.fixed f v := by
  cases hw : D.uintWrap with
  | false => exact floatEqualM_congr D hw f v
  | true =>
    cases v with
    | int j =>
      have hj : IsInt64 j := by cases hu hw with | int _ h => exact h
      simp [floatEqualM, hw, Dev.fixed, isTop_of_int64 hj]
    | _ => simp [floatEqualM]

theorem intCase_eq (D : Dev) (i : Int) (v : JV) (hu : D.uintWrap = true → IsInt64 i ∧ Int64Tree v) :
    intCase D i v = intCase Dev.fixed i v := by
  cases hw : D.uintWrap with
  | false =>
    cases v <;> simp [intCase, hw, Dev.fixed]
    exact floatEqualM_congr D hw _ _
  | true =>
    obtain ⟨hi, hv⟩ := hu hw
    cases v with
    | int j =>
      have hj : IsInt64 j := by cases hv with | int _ h => exact h
      simp [intCase, hw, Dev.fixed, asInt, isTop_of_int64 hi, isTop_of_int64 hj]
    | flt u =>
      simp only [intCase, hw, if_true, Dev.fixed, Bool.false_eq_true, if_false, asInt, floatEqualM, Bool.not_false,
        Bool.true_and, isTop_of_int64 hi]
      cases asIntDec (decVal u) with
      | none => rfl
      | some q => rw [Bool.eq_iff_iff]; simp only [beq_iff_eq]; exact eq_comm
    | null => simp [intCase, hw, Dev.fixed, asInt]
    | bool _ => simp [intCase, hw, Dev.fixed, asInt]
    | str _ => simp [intCase, hw, Dev.fixed, asInt]
    | big _ => simp [intCase, hw, Dev.fixed, asInt]
    | num _ => simp [intCase, hw, Dev.fixed, asInt]
    | arr _ => simp [intCase, hw, Dev.fixed, asInt]
    | obj _ => simp [intCase, hw, Dev.fixed, asInt]

theorem machine_of_floatExact {j : Int} (h : IsFloatExact j) : IsMachineInt j := by
  have h' : j.natAbs < 2 ^ 53 := h
  constructor <;> omega

theorem fltCase_eq (D : Dev) (f : Dec) (v : JV) (hf : D.floatRound = true → AllInts IsFloatExact v)
    (hu : D.uintWrap = true → Int64Tree v) : fltCase D f v = fltCase Dev.fixed f v := by
  have hfix : fltCase Dev.fixed f v = floatEqualM Dev.fixed f v := by simp [fltCase, Dev.fixed]
  cases hr : D.floatRound with
  | false =>
    rw [hfix]
    simp only [fltCase, hr, Bool.false_eq_true, if_false]
    exact floatEqualM_eq D f v hu
  | true =>
    rw [hfix]
    simp only [fltCase, hr, if_true]
    cases v with
    | int j =>
      have hj : IsFloatExact j := by cases hf hr with | int _ h => exact h
      rw [floatEqualM_fixed_int _ _ (machine_of_floatExact hj)]
      simp [asFloat, roundF64_exact hj, Dec.ofInt]
    | flt u => simp [asFloat, floatEqualM]
    | null => simp [asFloat, floatEqualM]
    | bool _ => simp [asFloat, floatEqualM]
    | str _ => simp [asFloat, floatEqualM]
    | big _ => simp [asFloat, floatEqualM]
    | num _ => simp [asFloat, floatEqualM]
    | arr _ => simp [asFloat, floatEqualM]
    | obj _ => simp [asFloat, floatEqualM]

theorem allInts_mem {P : Int → Prop} {ys : List JV} {y : JV} (h : AllInts P (.arr ys)) (hy : y ∈ ys) : AllInts P y := by
  cases h with
  | arr _ h => exact h y hy

theorem diffF_eq_fixed (D : Dev) (ord : List Bytes → List Bytes) :
    ∀ (n : Nat) (one : Bool) (a b : JV) (ign : List Path),
      (D.lastIndex = true → IdxSafe ign) → (D.tailSkip = true → NoFinalIdx ign) →
      (D.floatRound = true → AllInts IsFloatExact b) →
      (D.uintWrap = true → Int64Tree a ∧ Int64Tree b) →
      diffF D ord n one a b ign = diffF Dev.fixed ord n one a b ign := by
  intro n
  induction n with
  | zero => intros; rfl
  | succ n ih =>
    intro one a b ign h1 h2 h3 h5
    cases a with
    | null => rfl
    | bool _ => rfl
    | str _ => rfl
    | big _ => rfl
    | num _ => rfl
    | int i =>
      simp only [diffF]
      rw [intCase_eq D i b (fun h => ⟨by cases (h5 h).1 with | int _ hh => exact hh, (h5 h).2⟩)]
    | flt t =>
      simp only [diffF]
      rw [fltCase_eq D _ b h3 (fun h => (h5 h).2)]
    | arr xs =>
      cases b with
      | arr ys =>
        simp only [diffF]
        apply arrLoop_congr D _ _ one ign ys h1 h2
        intro x y i hx hy
        exact ih one x y _ (fun h => (h1 h).tail _) (fun h => (h2 h).tail _) (fun h => allInts_mem (h3 h) hy)
          (fun h => ⟨allInts_mem (h5 h).1 hx, allInts_mem (h5 h).2 hy⟩)
      | _ => rfl
    | obj m0 =>
      cases b with
      | obj m1 =>
        simp only [diffF]
        apply mapLoop_congr
        intro k
        exact ih one _ _ _ (fun h => (h1 h).tail _) (fun h => (h2 h).tail _) (fun h => (h3 h).member k)
          (fun h => ⟨(h5 h).1.member k, (h5 h).2.member k⟩)
      | _ => rfl

theorem matchElems_congr (p p' : JV → JV → Bool) : ∀ (xs ys : List JV), (∀ x y, x ∈ xs → y ∈ ys → p x y = p' x y) →
    matchElems p xs ys = matchElems p' xs ys
  | [], _, _ => by simp [matchElems]
  | _ :: _, [], _ => by simp [matchElems]
  | x :: xs, y :: ys, h => by
    simp only [matchElems, h x y List.mem_cons_self List.mem_cons_self,
      matchElems_congr p p' xs ys (fun x' y' hx' hy' => h x' y' (List.mem_cons_of_mem _ hx') (List.mem_cons_of_mem _ hy'))]

theorem matchF_eq_fixed (D : Dev) : ∀ (n : Nat) (f t : JV), (D.floatRound = true → AllInts IsFloatExact t) →
    (D.uintWrap = true → Int64Tree f ∧ Int64Tree t) →
    matchF D n f t = matchF Dev.fixed n f t := by
  intro n
  induction n with
  | zero => intros; rfl
  | succ n ih =>
    intro f t h3 h5
    cases f with
    | null => rfl
    | bool _ => rfl
    | str _ => rfl
    | big _ => rfl
    | num _ => rfl
    | int i =>
      simp only [matchF]
      exact intCase_eq D i t (fun h => ⟨by cases (h5 h).1 with | int _ hh => exact hh, (h5 h).2⟩)
    | flt x =>
      simp only [matchF]
      exact fltCase_eq D _ t h3 (fun h => (h5 h).2)
    | arr xs =>
      cases t with
      | arr ys =>
        simp only [matchF]
        rw [matchElems_congr _ _ xs ys (fun x y hx hy => ih x y (fun h => allInts_mem (h3 h) hy)
          (fun h => ⟨allInts_mem (h5 h).1 hx, allInts_mem (h5 h).2 hy⟩))]
      | _ => rfl
    | obj m0 =>
      cases t with
      | obj m1 =>
        simp only [matchF]
        congr 1
        funext k
        exact ih _ _ (fun h => (h3 h).member k) (fun h => ⟨(h5 h).1.member k, (h5 h).2.member k⟩)
      | _ => rfl

/-! ## generic data -/

theorem diffF_here_of_gate (D : Dev) (ord : List Bytes → List Bytes) (n : Nat) (one : Bool) (a b : JV) (ign : List Path)
    (hg : genGate D a b = false) (hm : D.genRoot = true → numKindMix a b = false) :
    diffF Dev.fixed ord (n + 1) one a b ign = [here] := by
  cases a <;> cases b <;> simp_all [genGate, sameGoType, numKindMix, diffF, intCase, fltCase, floatEqualM, Dev.fixed]

theorem matchF_false_of_gate (D : Dev) (n : Nat) (f t : JV)
    (hg : genGate D f t = false) (hm : D.genRoot = true → numKindMix f t = false) :
    matchF Dev.fixed (n + 1) f t = false := by
  cases f <;> cases t <;> simp_all [genGate, sameGoType, numKindMix, matchF, intCase, fltCase, floatEqualM, Dev.fixed]

/-- away from the named exclusions the current code computes what the fixed code computes on plain data -/
theorem diffTop_eq_fixed (D : Dev) (ord : List Bytes → List Bytes) (fl : Flavour) (one : Bool) (a b : JV) (ign : List Path)
    (h1 : D.lastIndex = true → IdxSafe ign) (h2 : D.tailSkip = true → NoFinalIdx ign)
    (h3 : D.floatRound = true → AllInts IsFloatExact b)
    (h4 : D.genRoot = true → fl = .gen → numKindMix a b = false)
    (h5 : D.uintWrap = true → Int64Tree a ∧ Int64Tree b) :
    diffTop D ord fl one a b ign = diffTop Dev.fixed ord .simple one a b ign := by
  cases fl with
  | simple => exact diffF_eq_fixed D ord _ one a b ign h1 h2 h3 h5
  | gen =>
    simp only [diffTop]
    cases hg : genGate D a b with
    | true => simp only [if_true]; exact diffF_eq_fixed D ord _ one a b ign h1 h2 h3 h5
    | false =>
      simp only [Bool.false_eq_true, if_false]
      exact (diffF_here_of_gate D ord _ one a b ign hg (fun h => h4 h rfl)).symm

theorem altMatch_eq_fixed (D : Dev) (fl : Flavour) (f t : JV)
    (h3 : D.floatRound = true → AllInts IsFloatExact t)
    (h4 : D.genRoot = true → fl = .gen → numKindMix f t = false)
    (h5 : D.uintWrap = true → Int64Tree f ∧ Int64Tree t) :
    altMatch D fl f t = altMatch Dev.fixed .simple f t := by
  cases fl with
  | simple => exact matchF_eq_fixed D _ f t h3 h5
  | gen =>
    simp only [altMatch]
    cases hg : genGate D f t with
    | true => simp only [if_true]; exact matchF_eq_fixed D _ f t h3 h5
    | false =>
      simp only [Bool.false_eq_true, if_false]
      exact (matchF_false_of_gate D _ f t hg (fun h => h4 h rfl)).symm

/-! ## the executable oracle of the specification computes the relations -/

theorem leafDiffsF_other (n : Nat) (a b : JV) (h1 : ¬ ∃ xs ys, a = .arr xs ∧ b = .arr ys)
    (h2 : ¬ ∃ m0 m1, a = .obj m0 ∧ b = .obj m1) :
    leafDiffsF (n + 1) a b = if clash a b = true then [[]] else [] := by
  cases a <;> cases b <;> simp_all [leafDiffsF]

theorem getD_of_getElem? {xs : List JV} {i : Nat} {x : JV} (h : xs[i]? = some x) : xs.getD i .null = x := by
  simp [List.getD, h]

theorem mem_leafDiffsF : ∀ (n : Nat) (a b : JV) (p : Path), a.depth < n → (p ∈ leafDiffsF n a b ↔ LeafDiff a b p) := by
  intro n
  induction n with
  | zero => intro a b p h; omega
  | succ n ih =>
    intro a b p hd
    by_cases hab : ∃ xs ys, a = .arr xs ∧ b = .arr ys
    · obtain ⟨xs, ys, rfl, rfl⟩ := hab
      rw [leafDiff_arr_arr]
      simp only [leafDiffsF, List.mem_append, List.mem_flatMap, List.mem_range, List.mem_map]
      constructor
      · rintro (⟨i, hi, q, hq, rfl⟩ | h)
        · have hx : xs[i]? = some (xs.getD i .null) := by
            have : i < xs.length := by omega
            simp [List.getD, List.getElem?_eq_getElem this]
          have hy : ys[i]? = some (ys.getD i .null) := by
            have : i < ys.length := by omega
            simp [List.getD, List.getElem?_eq_getElem this]
          exact Or.inl ⟨i, _, _, q, hx, hy,
            (ih _ _ q (by have := depth_elem hx; omega)).1 hq, rfl⟩
        · split at h
          · simp at h
          · rename_i hne
            simp at h
            exact Or.inr ⟨hne, h⟩
      · rintro (⟨i, x, y, q, hx, hy, hq, rfl⟩ | ⟨hne, rfl⟩)
        · have h1 : i < xs.length := by
            rcases Nat.lt_or_ge i xs.length with h | h
            · exact h
            · rw [List.getElem?_eq_none h] at hx; cases hx
          have h2 : i < ys.length := by
            rcases Nat.lt_or_ge i ys.length with h | h
            · exact h
            · rw [List.getElem?_eq_none h] at hy; cases hy
          refine Or.inl ⟨i, by omega, q, ?_, rfl⟩
          rw [getD_of_getElem? hx, getD_of_getElem? hy]
          exact (ih _ _ q (by have := depth_elem hx; omega)).2 hq
        · right
          simp [hne]
    · by_cases hab' : ∃ m0 m1, a = .obj m0 ∧ b = .obj m1
      · obtain ⟨m0, m1, rfl, rfl⟩ := hab'
        rw [leafDiff_obj_obj]
        simp only [leafDiffsF, List.mem_flatMap, List.mem_append, List.mem_map]
        constructor
        · rintro ⟨k, _, q, hq, rfl⟩
          exact ⟨k, q, (ih _ _ q (by have := depth_member k m0; omega)).1 hq, rfl⟩
        · rintro ⟨k, q, hq, rfl⟩
          refine ⟨k, ?_, q, (ih _ _ q (by have := depth_member k m0; omega)).2 hq, rfl⟩
          by_cases hk0 : k ∈ keysOf m0
          · exact Or.inl hk0
          · by_cases hk1 : k ∈ keysOf m1
            · exact Or.inr hk1
            · rw [member_of_not_mem k m0 hk0, member_of_not_mem k m1 hk1] at hq
              exact absurd hq (not_leafDiff_null _)
      · rw [leafDiffsF_other n a b hab hab',
          leafDiff_here_iff a b (fun xs ys h => hab ⟨xs, ys, h⟩) (fun m0 m1 h => hab' ⟨m0, m1, h⟩)]
        by_cases hc : clash a b = true
        · simp [hc]
        · simp [hc]

/-- `leafDiffs` lists exactly the leaf differences -/
theorem mem_leafDiffs (a b : JV) (p : Path) : p ∈ leafDiffs a b ↔ LeafDiff a b p :=
  mem_leafDiffsF _ a b p (Nat.lt_succ_self _)

/-- `specDiffs` lists exactly the leaf differences that no ignore path covers -/
theorem mem_specDiffs (a b : JV) (ign : List Path) (p : Path) :
    p ∈ specDiffs a b ign ↔ LeafDiff a b p ∧ ¬ Ignored ign p := by
  simp [specDiffs, mem_leafDiffs, Ignored]

theorem fpMatchF_other (n : Nat) (f t : JV) (h1 : ¬ ∃ xs ys, f = .arr xs ∧ t = .arr ys)
    (h2 : ¬ ∃ m0 m1, f = .obj m0 ∧ t = .obj m1) : fpMatchF (n + 1) f t = atomEq f t := by
  cases f <;> cases t <;> simp_all [fpMatchF]

theorem fpMatchF_iff : ∀ (n : Nat) (f t : JV), f.depth < n → (fpMatchF n f t = true ↔ FpMatch f t) := by
  intro n
  induction n with
  | zero => intro f t h; omega
  | succ n ih =>
    intro f t hd
    by_cases hab : ∃ xs ys, f = .arr xs ∧ t = .arr ys
    · obtain ⟨xs, ys, rfl, rfl⟩ := hab
      rw [fpMatch_arr]
      simp only [fpMatchF, Bool.and_eq_true, beq_iff_eq, List.all_eq_true, List.mem_range]
      constructor
      · rintro ⟨hl, h⟩
        refine ⟨ys, rfl, hl, ?_⟩
        intro i x y hx hy
        have h1 : i < xs.length := by
          rcases Nat.lt_or_ge i xs.length with h | h
          · exact h
          · rw [List.getElem?_eq_none h] at hx; cases hx
        have := h i h1
        rw [getD_of_getElem? hx, getD_of_getElem? hy] at this
        exact (ih x y (by have := depth_elem hx; omega)).1 this
      · rintro ⟨ys', he, hl, h⟩
        cases he
        refine ⟨hl, ?_⟩
        intro i hi
        have hx : xs[i]? = some (xs.getD i .null) := by
          simp [List.getD, List.getElem?_eq_getElem hi]
        have hy : ys[i]? = some (ys.getD i .null) := by
          have : i < ys.length := by omega
          simp [List.getD, List.getElem?_eq_getElem this]
        exact (ih _ _ (by have := depth_elem hx; omega)).2 (h i _ _ hx hy)
    · by_cases hab' : ∃ m0 m1, f = .obj m0 ∧ t = .obj m1
      · obtain ⟨m0, m1, rfl, rfl⟩ := hab'
        rw [fpMatch_obj]
        simp only [fpMatchF, List.all_eq_true]
        constructor
        · intro h
          exact ⟨m1, rfl, fun k hk => (ih _ _ (by have := depth_member k m0; omega)).1 (h k hk)⟩
        · rintro ⟨m1', he, h⟩
          cases he
          intro k hk
          exact (ih _ _ (by have := depth_member k m0; omega)).2 (h k hk)
      · rw [fpMatchF_other n f t hab hab']
        constructor
        · exact FpMatch.atom
        · intro h
          cases h with
          | atom h => exact h
          | arr _ _ => exact absurd ⟨_, _, rfl, rfl⟩ hab
          | obj _ => exact absurd ⟨_, _, rfl, rfl⟩ hab'

/-- `fpMatchB` decides the fingerprint relation -/
theorem fpMatchB_iff (f t : JV) : fpMatchB f t = true ↔ FpMatch f t :=
  fpMatchF_iff _ f t (Nat.lt_succ_self _)

end OjgVerif.Diff
