import OjgVerif.Diff.Model
/-! Lemmas about the `diff` model: paths, ignore paths. -/
namespace OjgVerif.Diff
open OjgVerif

theorem norm_here : norm here = [] := by simp [norm]

theorem norm_addFrag (f : Frag) (hf : f ≠ .wild) (d : Path) : norm (addFrag f d) = f :: norm d := by
  unfold addFrag norm
  by_cases h : d = here
  · have : ([f] : Path) ≠ here := by
      intro h'; simp [here] at h'; exact hf h'
    simp [h, this]
  · have : (f :: d : Path) ≠ here := by
      intro h'; simp [here] at h'; exact hf h'.1
    simp [h, this]

/-- some one-fragment ignore path matches `f` -/
def headIgnored (f : Frag) : List Path → Bool
  | [] => false
  | g :: r =>
    (match g with
      | [g0] => fragMatch g0 f
      | _ => false) || headIgnored f r

/-- the tails of the longer ignore paths whose first fragment matches `f` -/
def tailIgnores (f : Frag) : List Path → List Path
  | [] => []
  | g :: r =>
    match g with
    | g0 :: g1 :: t => if fragMatch g0 f then (g1 :: t) :: tailIgnores f r else tailIgnores f r
    | _ => tailIgnores f r

theorem ignoredB_nil_path (ign : List Path) : ignoredB ign [] = false := by
  induction ign with
  | nil => rfl
  | cons g r ih =>
    simp only [ignoredB, List.any_cons] at ih ⊢
    rw [ih]
    cases g <;> simp [covers, matchPrefix]

theorem ignoredB_cons (f : Frag) (q : Path) (ign : List Path) :
    ignoredB ign (f :: q) = (headIgnored f ign || ignoredB (tailIgnores f ign) q) := by
  induction ign with
  | nil => rfl
  | cons g r ih =>
    simp only [ignoredB, List.any_cons] at ih ⊢
    rw [ih]
    match g with
    | [] => simp [covers, headIgnored, tailIgnores]
    | [g0] => simp [covers, matchPrefix, headIgnored, tailIgnores, Bool.or_assoc]
    | g0 :: g1 :: t =>
      simp only [headIgnored, tailIgnores]
      by_cases h : fragMatch g0 f = true
      · simp [covers, matchPrefix, h, Bool.or_left_comm]
      · simp [covers, matchPrefix, h]

theorem ignoreIndex_eq (i : Nat) (ign : List Path) : ignoreIndex i ign = headIgnored (.idx i) ign := by
  induction ign with
  | nil => rfl
  | cons g r ih =>
    simp only [ignoreIndex, headIgnored, ih]
    congr 1
    match g with
    | [] => rfl
    | [.wild] => rfl
    | [.idx j] => rfl
    | [.key k] => rfl
    | g0 :: _ :: _ => cases g0 <;> rfl

theorem ignoreKey_eq (k : Bytes) (ign : List Path) : ignoreKey k ign = headIgnored (.key k) ign := by
  induction ign with
  | nil => rfl
  | cons g r ih =>
    simp only [ignoreKey, headIgnored, ih]
    congr 1
    match g with
    | [] => rfl
    | [.wild] => rfl
    | [.idx j] => rfl
    | [.key k] => rfl
    | g0 :: _ :: _ => cases g0 <;> rfl

theorem mapChildIgnores_eq (k : Bytes) (ign : List Path) : mapChildIgnores k ign = tailIgnores (.key k) ign := by
  induction ign with
  | nil => rfl
  | cons g r ih =>
    match g with
    | [] => simp [mapChildIgnores, tailIgnores, ih]
    | [_] => simp [mapChildIgnores, tailIgnores, ih]
    | .wild :: _ :: _ => simp [mapChildIgnores, tailIgnores, ih, fragMatch]
    | .idx _ :: _ :: _ => simp [mapChildIgnores, tailIgnores, ih, fragMatch]
    | .key k' :: _ :: _ =>
      simp only [mapChildIgnores, tailIgnores, ih, fragMatch]
      by_cases h : k = k'
      · subst h; simp
      · have h' : ¬ k' = k := fun e => h e.symm
        simp [h, h']

theorem arrChildIgnoresAt_eq (i : Nat) (ign : List Path) : arrChildIgnoresAt i ign = tailIgnores (.idx i) ign := by
  induction ign with
  | nil => rfl
  | cons g r ih =>
    match g with
    | [] => simp [arrChildIgnoresAt, tailIgnores, ih]
    | [_] => simp [arrChildIgnoresAt, tailIgnores, ih]
    | .wild :: _ :: _ => simp [arrChildIgnoresAt, tailIgnores, ih, fragMatch]
    | .key _ :: _ :: _ => simp [arrChildIgnoresAt, tailIgnores, ih, fragMatch]
    | .idx j :: _ :: _ =>
      simp only [arrChildIgnoresAt, tailIgnores, ih, fragMatch]
      by_cases h : j = (i : Int) <;> simp [h]

theorem AllInts.elem {P : Int → Prop} {xs : List JV} {i : Nat} {x : JV}
    (h : AllInts P (.arr xs)) (hx : xs[i]? = some x) : AllInts P x := by
  cases h with
  | arr _ h => exact h x (List.mem_of_getElem? hx)

theorem allInts_member_aux {P : Int → Prop} (k : Bytes) : ∀ (m : List (Bytes × JV)),
    (∀ kv, kv ∈ m → AllInts P kv.2) → AllInts P (member k m)
  | [], _ => AllInts.null
  | (k', v) :: r, h => by
    simp only [member]
    split
    · exact h (k', v) (by simp)
    · exact allInts_member_aux k r (fun kv hkv => h kv (by simp [hkv]))

theorem AllInts.member {P : Int → Prop} {m : List (Bytes × JV)} (k : Bytes)
    (h : AllInts P (.obj m)) : AllInts P (member k m) := by
  cases h with
  | obj _ h => exact allInts_member_aux k m h

theorem depthList_getElem : ∀ (xs : List JV) (i : Nat) (x : JV), xs[i]? = some x → x.depth ≤ JV.depthList xs
  | [], i, x, h => by simp at h
  | y :: r, 0, x, h => by
    simp at h; subst h; simp [JV.depthList]; omega
  | y :: r, i + 1, x, h => by
    simp at h
    have := depthList_getElem r i x h
    simp [JV.depthList]; omega

theorem depth_elem {xs : List JV} {i : Nat} {x : JV} (h : xs[i]? = some x) : x.depth < (JV.arr xs).depth := by
  have := depthList_getElem xs i x h
  simp [JV.depth]; omega

theorem depthKvs_member (k : Bytes) : ∀ (m : List (Bytes × JV)), (member k m).depth ≤ JV.depthKvs m
  | [] => by simp [member, JV.depth]
  | (k', v) :: r => by
    simp only [member, JV.depthKvs]
    split
    · omega
    · have := depthKvs_member k r; omega

theorem depth_member (k : Bytes) (m : List (Bytes × JV)) : (member k m).depth < (JV.obj m).depth := by
  have := depthKvs_member k m
  simp [JV.depth]; omega

theorem member_of_not_mem (k : Bytes) : ∀ (m : List (Bytes × JV)), k ∉ keysOf m → member k m = .null
  | [], _ => rfl
  | (k', v) :: r, h => by
    simp [keysOf] at h
    simp only [member]
    have h1 : ¬ k' = k := fun e => h.1 e.symm
    simp [h1]
    exact member_of_not_mem k r (by simpa [keysOf] using h.2)

theorem mem_dedup (k : Bytes) : ∀ (l : List Bytes), k ∈ dedup l ↔ k ∈ l
  | [] => by simp [dedup]
  | a :: r => by
    simp only [dedup]
    split
    · rename_i h
      rw [mem_dedup k r]
      constructor
      · intro h'; exact List.mem_cons_of_mem _ h'
      · intro h'
        rcases List.mem_cons.1 h' with e | e
        · subst e; exact h
        · exact e
    · simp [mem_dedup k r]

theorem mem_unionKeys (k : Bytes) (m0 m1 : List (Bytes × JV)) :
    k ∈ unionKeys m0 m1 ↔ k ∈ keysOf m0 ∨ k ∈ keysOf m1 := by
  simp [unionKeys, mem_dedup]

/-! ## inversion of the specification relations -/

theorem leafDiff_arr_arr (xs ys : List JV) (p : Path) :
    LeafDiff (.arr xs) (.arr ys) p ↔
      (∃ (i : Nat) (x y : JV) (q : Path), xs[i]? = some x ∧ ys[i]? = some y ∧ LeafDiff x y q ∧ p = .idx i :: q)
      ∨ (xs.length ≠ ys.length ∧ p = [.idx (min xs.length ys.length : Nat)]) := by
  constructor
  · intro h
    cases h with
    | here h => simp [clash] at h
    | len h => exact Or.inr ⟨h, rfl⟩
    | elem h1 h2 h3 => exact Or.inl ⟨_, _, _, _, h1, h2, h3, rfl⟩
  · rintro (⟨i, x, y, q, h1, h2, h3, rfl⟩ | ⟨h, rfl⟩)
    · exact LeafDiff.elem h1 h2 h3
    · exact LeafDiff.len h

theorem leafDiff_obj_obj (m0 m1 : List (Bytes × JV)) (p : Path) :
    LeafDiff (.obj m0) (.obj m1) p ↔
      ∃ (k : Bytes) (q : Path), LeafDiff (member k m0) (member k m1) q ∧ p = .key k :: q := by
  constructor
  · intro h
    cases h with
    | here h => simp [clash] at h
    | member h => exact ⟨_, _, h, rfl⟩
  · rintro ⟨k, q, h, rfl⟩
    exact LeafDiff.member h

/-- not an array and not an object -/
def isAtom : JV → Bool
  | .arr _ => false
  | .obj _ => false
  | _ => true

theorem leafDiff_here_iff (a b : JV) (h : ∀ xs ys, ¬ (a = .arr xs ∧ b = .arr ys)) (h' : ∀ m0 m1, ¬ (a = .obj m0 ∧ b = .obj m1))
    (p : Path) : LeafDiff a b p ↔ p = [] ∧ clash a b = true := by
  constructor
  · intro hl
    cases hl with
    | here hc => exact ⟨rfl, hc⟩
    | len _ => exact absurd ⟨rfl, rfl⟩ (h _ _)
    | elem _ _ _ => exact absurd ⟨rfl, rfl⟩ (h _ _)
    | member _ => exact absurd ⟨rfl, rfl⟩ (h' _ _)
  · rintro ⟨rfl, hc⟩
    exact LeafDiff.here hc

theorem not_leafDiff_null (p : Path) : ¬ LeafDiff .null .null p := by
  intro h
  cases h with
  | here h => simp [clash, atomEq] at h

/-! ## the two loops (all paths, proposed-fix order of the length test) -/

theorem mem_mapLoop (d : JV → JV → List Path → List Path) (ign : List Path) (m0 m1 : List (Bytes × JV)) (p : Path) :
    ∀ ks, p ∈ mapLoop d false ign m0 m1 ks ↔
      ∃ k, k ∈ ks ∧ ignoreKey k ign = false ∧
        ∃ q, q ∈ d (member k m0) (member k m1) (mapChildIgnores k ign) ∧ p = addFrag (.key k) q
  | [] => by simp [mapLoop]
  | k :: ks => by
    simp only [mapLoop]
    by_cases hk : ignoreKey k ign = true
    · simp only [hk, if_true]
      rw [mem_mapLoop d ign m0 m1 p ks]
      constructor
      · rintro ⟨k', h1, h2, h3⟩; exact ⟨k', List.mem_cons_of_mem _ h1, h2, h3⟩
      · rintro ⟨k', h1, h2, h3⟩
        rcases List.mem_cons.1 h1 with e | e
        · subst e; rw [hk] at h2; cases h2
        · exact ⟨k', e, h2, h3⟩
    · have hk' : ignoreKey k ign = false := by simpa using hk
      simp only [hk', Bool.false_and, if_false, Bool.false_eq_true, List.mem_append, List.mem_map]
      rw [mem_mapLoop d ign m0 m1 p ks]
      constructor
      · rintro (⟨q, hq, rfl⟩ | ⟨k', h1, h2, h3⟩)
        · exact ⟨k, List.mem_cons_self, hk', q, hq, rfl⟩
        · exact ⟨k', List.mem_cons_of_mem _ h1, h2, h3⟩
      · rintro ⟨k', h1, h2, q, hq, rfl⟩
        rcases List.mem_cons.1 h1 with e | e
        · subst e; exact Or.inl ⟨q, hq, rfl⟩
        · exact Or.inr ⟨k', e, h2, q, hq, rfl⟩

theorem mem_arrLoop (D : Dev) (ht : D.tailSkip = false) (d : JV → JV → List Path → List Path) (ign : List Path)
    (ys : List JV) (p : Path) : ∀ (xs : List JV) (i0 : Nat), i0 ≤ ys.length →
    (p ∈ arrLoop D d false ign ys xs i0 ↔
      (∃ (j : Nat) (x y : JV) (q : Path), xs[j]? = some x ∧ ys[i0 + j]? = some y ∧ ignoreIndex (i0 + j) ign = false ∧
          q ∈ d x y (elemIgnores D (i0 + j) ign) ∧ p = addFrag (.idx ((i0 + j : Nat) : Int)) q)
      ∨ (i0 + xs.length ≠ ys.length ∧ ignoreIndex (min (i0 + xs.length) ys.length) ign = false ∧
          p = [.idx ((min (i0 + xs.length) ys.length : Nat) : Int)]))
  | [], i0, hi => by
    have hm : min i0 ys.length = i0 := Nat.min_eq_left hi
    simp only [arrLoop, List.length_nil, Nat.add_zero, hm]
    constructor
    · intro h
      split at h
      · rename_i hc
        simp at h; subst h
        exact Or.inr ⟨hc.1, hc.2, rfl⟩
      · simp at h
    · rintro (⟨j, x, y, q, h1, _⟩ | ⟨h1, h2, rfl⟩)
      · simp at h1
      · simp [h1, h2]
  | x :: xs, i0, hi => by
    simp only [arrLoop, ht, Bool.false_eq_true, if_false]
    cases hy : ys[i0]? with
    | none =>
      have hlen : ys.length ≤ i0 := by simpa using hy
      have he : i0 = ys.length := by omega
      have hm : min (i0 + (x :: xs).length) ys.length = i0 := by simp; omega
      simp only [hm]
      constructor
      · intro h
        split at h
        · simp at h
        · rename_i hc
          simp at h; subst h
          refine Or.inr ⟨by simp; omega, by simpa using hc, rfl⟩
      · rintro (⟨j, x', y, q, _, h2, _⟩ | ⟨_, h2, rfl⟩)
        · have : i0 + j < ys.length := by
            rcases Nat.lt_or_ge (i0 + j) ys.length with h | h
            · exact h
            · rw [List.getElem?_eq_none h] at h2; cases h2
          omega
        · simp [h2]
    | some y =>
      have hlt : i0 < ys.length := by
        rcases Nat.lt_or_ge i0 ys.length with h | h
        · exact h
        · rw [List.getElem?_eq_none h] at hy; cases hy
      have ih := mem_arrLoop D ht d ign ys p xs (i0 + 1) hlt
      have hlen : i0 + (x :: xs).length = i0 + 1 + xs.length := by simp; omega
      simp only [hlen]
      by_cases hig : ignoreIndex i0 ign = true
      · simp only [hig, if_true]
        rw [ih]
        constructor
        · rintro (⟨j, x', y', q, h1, h2, h3, h4, h5⟩ | h)
          · refine Or.inl ⟨j + 1, x', y', q, by simpa using h1, ?_, ?_, ?_, ?_⟩
            · rw [show i0 + (j + 1) = i0 + 1 + j by omega]; exact h2
            · rw [show i0 + (j + 1) = i0 + 1 + j by omega]; exact h3
            · rw [show i0 + (j + 1) = i0 + 1 + j by omega]; exact h4
            · rw [show i0 + (j + 1) = i0 + 1 + j by omega]; exact h5
          · exact Or.inr h
        · rintro (⟨j, x', y', q, h1, h2, h3, h4, h5⟩ | h)
          · cases j with
            | zero => simp at h3; rw [hig] at h3; cases h3
            | succ j =>
              refine Or.inl ⟨j, x', y', q, by simpa using h1, ?_, ?_, ?_, ?_⟩
              · rw [show i0 + 1 + j = i0 + (j + 1) by omega]; exact h2
              · rw [show i0 + 1 + j = i0 + (j + 1) by omega]; exact h3
              · rw [show i0 + 1 + j = i0 + (j + 1) by omega]; exact h4
              · rw [show i0 + 1 + j = i0 + (j + 1) by omega]; exact h5
          · exact Or.inr h
      · have hig' : ignoreIndex i0 ign = false := by simpa using hig
        simp only [hig', Bool.false_eq_true, if_false, Bool.false_and, List.mem_append, List.mem_map]
        rw [ih]
        constructor
        · rintro (⟨q, hq, rfl⟩ | ⟨j, x', y', q, h1, h2, h3, h4, h5⟩ | h)
          · exact Or.inl ⟨0, x, y, q, by simp, by simpa using hy, by simpa using hig', by simpa using hq, by simp⟩
          · refine Or.inl ⟨j + 1, x', y', q, by simpa using h1, ?_, ?_, ?_, ?_⟩
            · rw [show i0 + (j + 1) = i0 + 1 + j by omega]; exact h2
            · rw [show i0 + (j + 1) = i0 + 1 + j by omega]; exact h3
            · rw [show i0 + (j + 1) = i0 + 1 + j by omega]; exact h4
            · rw [show i0 + (j + 1) = i0 + 1 + j by omega]; exact h5
          · exact Or.inr h
        · rintro (⟨j, x', y', q, h1, h2, h3, h4, h5⟩ | h)
          · cases j with
            | zero =>
              simp at h1 h2 h4 h5
              subst h1
              rw [hy] at h2; cases h2
              exact Or.inl ⟨q, h4, h5.symm⟩
            | succ j =>
              refine Or.inr (Or.inl ⟨j, x', y', q, by simpa using h1, ?_, ?_, ?_, ?_⟩)
              · rw [show i0 + 1 + j = i0 + (j + 1) by omega]; exact h2
              · rw [show i0 + 1 + j = i0 + (j + 1) by omega]; exact h3
              · rw [show i0 + 1 + j = i0 + (j + 1) by omega]; exact h4
              · rw [show i0 + 1 + j = i0 + (j + 1) by omega]; exact h5
          · exact Or.inr (Or.inr h)

/-! ## atoms, and the main theorem for the fixed model -/

theorem pow10_pos (s : Nat) : (0 : Int) < (10 : Int) ^ s := Int.pow_pos (by decide)

theorem asInt_flt (i : Int) (hi : IsInt64 i) (t : Bytes) :
    asInt (.flt t) = some i ↔ (Dec.ofInt i).eq (decVal t) = true := by
  have hP := pow10_pos (decVal t).s
  have hP0 : (10 : Int) ^ (decVal t).s ≠ 0 := Int.ne_of_gt hP
  simp only [asInt, Dec.eq, Dec.ofInt, Int.pow_zero, Int.mul_one, beq_iff_eq]
  constructor
  · intro h
    split at h
    · rename_i hc
      simp only [Option.some.injEq] at h
      rw [← h]
      exact Int.ediv_mul_cancel (Int.dvd_of_emod_eq_zero hc.1)
    · cases h
  · intro h
    have hdiv : (decVal t).m / (10 : Int) ^ (decVal t).s = i := by
      rw [← h]; exact Int.mul_ediv_cancel _ hP0
    have hmod : (decVal t).m % (10 : Int) ^ (decVal t).s = 0 := by
      rw [← h]; exact Int.mul_emod_left _ _
    have hr : inInt64 i = true := by
      simp [inInt64]; exact hi
    rw [if_pos ⟨hmod, by rw [hdiv]; exact hr⟩, hdiv]

theorem asInt_int (i : Int) : asInt (.int i) = some i := rfl


theorem diffF_atom (ord : List Bytes → List Bytes) (n : Nat) (one : Bool) (a b : JV) (ign : List Path)
    (ha : isAtom a = true) (hi : Int64Tree a) :
    diffF Dev.fixed ord (n + 1) one a b ign = if clash a b = true then [here] else [] := by
  cases a with
  | arr _ => simp [isAtom] at ha
  | obj _ => simp [isAtom] at ha
  | null => cases b <;> simp [diffF, clash, atomEq]
  | bool x => cases b <;> simp [diffF, clash, atomEq]
  | str x => cases b <;> simp [diffF, clash, atomEq]
  | big x => cases b <;> simp [diffF, clash, atomEq]
  | num x => cases b <;> simp [diffF, clash, atomEq]
  | flt x =>
    cases b <;> simp [diffF, clash, atomEq, asFloat, Dev.fixed, Dec.ofInt]
    · split <;> simp_all
    · split <;> simp_all
  | int i =>
    have hi' : IsInt64 i := by cases hi with | int _ h => exact h
    cases b with
    | flt t =>
      simp only [diffF]
      by_cases h : (Dec.ofInt i).eq (decVal t) = true
      · rw [(asInt_flt i hi' t).2 h]; simp [clash, atomEq, h]
      · cases hj : asInt (.flt t) with
        | none => simp [clash, atomEq, h]
        | some j =>
          have : ¬ i = j := by
            intro e; subst e; exact h ((asInt_flt i hi' t).1 hj)
          simp [clash, atomEq, h, this]
    | int j => simp [diffF, clash, atomEq, asInt]
    | null => simp [diffF, clash, atomEq, asInt]
    | bool _ => simp [diffF, clash, atomEq, asInt]
    | str _ => simp [diffF, clash, atomEq, asInt]
    | big _ => simp [diffF, clash, atomEq, asInt]
    | num _ => simp [diffF, clash, atomEq, asInt]
    | arr _ => simp [diffF, clash, atomEq, asInt]
    | obj _ => simp [diffF, clash, atomEq, asInt]


theorem leafDiff_atom {a : JV} (ha : isAtom a = true) (b : JV) (p : Path) :
    LeafDiff a b p ↔ p = [] ∧ clash a b = true := by
  apply leafDiff_here_iff
  · rintro xs ys ⟨rfl, _⟩; simp [isAtom] at ha
  · rintro m0 m1 ⟨rfl, _⟩; simp [isAtom] at ha

theorem norm_idx_single (i : Int) : norm [.idx i] = [.idx i] := by simp [norm, here]

theorem elemIgnores_fixed (i : Nat) (ign : List Path) : elemIgnores Dev.fixed i ign = tailIgnores (.idx i) ign := by
  simp [elemIgnores, Dev.fixed, arrChildIgnoresAt_eq]

theorem mem_ndiffF (ord : List Bytes → List Bytes) (hord : ∀ l k, k ∈ ord l ↔ k ∈ l) :
    ∀ (n : Nat) (a b : JV) (ign : List Path) (p : Path), a.depth < n → Int64Tree a →
      (p ∈ (diffF Dev.fixed ord n false a b ign).map norm ↔ LeafDiff a b p ∧ ignoredB ign p = false) := by
  intro n
  induction n with
  | zero => intro a b ign p h; omega
  | succ n ih =>
    intro a b ign p hd hi
    by_cases ha : isAtom a = true
    · rw [diffF_atom ord n false a b ign ha hi, leafDiff_atom ha]
      by_cases hc : clash a b = true
      · simp only [hc, if_true, List.map_cons, List.map_nil, norm_here, List.mem_singleton]
        constructor
        · rintro rfl; exact ⟨⟨rfl, trivial⟩, ignoredB_nil_path ign⟩
        · rintro ⟨⟨h, _⟩, _⟩; exact h
      · simp [hc]
    · cases a with
      | null => simp [isAtom] at ha
      | bool _ => simp [isAtom] at ha
      | int _ => simp [isAtom] at ha
      | flt _ => simp [isAtom] at ha
      | big _ => simp [isAtom] at ha
      | num _ => simp [isAtom] at ha
      | str _ => simp [isAtom] at ha
      | arr xs =>
        by_cases hb : ∃ ys, b = .arr ys
        · obtain ⟨ys, rfl⟩ := hb
          simp only [diffF, List.mem_map]
          constructor
          · rintro ⟨p0, hp0, rfl⟩
            rw [mem_arrLoop Dev.fixed rfl _ ign ys p0 xs 0 (Nat.zero_le _)] at hp0
            simp only [Nat.zero_add] at hp0
            rcases hp0 with ⟨j, x, y, q, h1, h2, h3, h4, rfl⟩ | ⟨h1, h2, rfl⟩
            · rw [norm_addFrag _ (by simp)]
              rw [elemIgnores_fixed] at h4
              have := (ih x y _ (norm q) (by have := depth_elem h1; simp [JV.depth] at this hd; omega) (hi.elem h1)).1
                (List.mem_map.2 ⟨q, h4, rfl⟩)
              refine ⟨LeafDiff.elem h1 h2 this.1, ?_⟩
              rw [ignoredB_cons, ← ignoreIndex_eq, h3, this.2]; rfl
            · rw [norm_idx_single]
              refine ⟨LeafDiff.len h1, ?_⟩
              rw [ignoredB_cons, ← ignoreIndex_eq, h2, ignoredB_nil_path]; rfl
          · rintro ⟨hl, hig⟩
            rcases (leafDiff_arr_arr xs ys p).1 hl with ⟨i, x, y, q, h1, h2, h3, rfl⟩ | ⟨h1, rfl⟩
            · rw [ignoredB_cons, ← ignoreIndex_eq] at hig
              simp only [Bool.or_eq_false_iff] at hig
              have := (ih x y (tailIgnores (.idx i) ign) q (by have := depth_elem h1; simp [JV.depth] at this hd; omega) (hi.elem h1)).2 ⟨h3, hig.2⟩
              obtain ⟨q0, hq0, rfl⟩ := List.mem_map.1 this
              refine ⟨addFrag (.idx i) q0, ?_, norm_addFrag _ (by simp) _⟩
              rw [mem_arrLoop Dev.fixed rfl _ ign ys _ xs 0 (Nat.zero_le _)]
              refine Or.inl ⟨i, x, y, q0, h1, by simpa using h2, by simpa using hig.1, ?_, by simp⟩
              rw [elemIgnores_fixed]; simpa using hq0
            · rw [ignoredB_cons, ← ignoreIndex_eq] at hig
              simp only [Bool.or_eq_false_iff] at hig
              refine ⟨_, ?_, norm_idx_single _⟩
              rw [mem_arrLoop Dev.fixed rfl _ ign ys _ xs 0 (Nat.zero_le _)]
              exact Or.inr ⟨by simpa using h1, by simpa using hig.1, by simp⟩
        · have hdf : diffF Dev.fixed ord (n + 1) false (.arr xs) b ign = [here] := by
            cases b <;> simp [diffF] at hb ⊢
          have hcl : clash (.arr xs) b = true := by
            cases b <;> simp [clash, atomEq] at hb ⊢
          rw [hdf, leafDiff_here_iff _ _ (by rintro xs' ys ⟨_, rfl⟩; exact hb ⟨ys, rfl⟩) (by rintro m0 m1 ⟨h, _⟩; cases h)]
          simp only [List.map_cons, List.map_nil, norm_here, List.mem_singleton]
          constructor
          · rintro rfl; exact ⟨⟨rfl, hcl⟩, ignoredB_nil_path ign⟩
          · rintro ⟨⟨h, _⟩, _⟩; exact h
      | obj m0 =>
        by_cases hb : ∃ m1, b = .obj m1
        · obtain ⟨m1, rfl⟩ := hb
          simp only [diffF, List.mem_map]
          constructor
          · rintro ⟨p0, hp0, rfl⟩
            rw [mem_mapLoop] at hp0
            obtain ⟨k, _, h2, q, h4, rfl⟩ := hp0
            rw [norm_addFrag _ (by simp)]
            rw [mapChildIgnores_eq] at h4
            have := (ih (member k m0) (member k m1) _ (norm q) (by have := depth_member k m0; simp [JV.depth] at this hd; omega) (hi.member k)).1
              (List.mem_map.2 ⟨q, h4, rfl⟩)
            refine ⟨LeafDiff.member this.1, ?_⟩
            rw [ignoredB_cons, ← ignoreKey_eq, h2, this.2]; rfl
          · rintro ⟨hl, hig⟩
            obtain ⟨k, q, h3, rfl⟩ := (leafDiff_obj_obj m0 m1 p).1 hl
            rw [ignoredB_cons, ← ignoreKey_eq] at hig
            simp only [Bool.or_eq_false_iff] at hig
            have := (ih (member k m0) (member k m1) (tailIgnores (.key k) ign) q (by have := depth_member k m0; simp [JV.depth] at this hd; omega) (hi.member k)).2 ⟨h3, hig.2⟩
            obtain ⟨q0, hq0, rfl⟩ := List.mem_map.1 this
            refine ⟨addFrag (.key k) q0, ?_, norm_addFrag _ (by simp) _⟩
            rw [mem_mapLoop]
            refine ⟨k, ?_, hig.1, q0, by rw [mapChildIgnores_eq]; exact hq0, rfl⟩
            rw [hord, mem_unionKeys]
            by_cases hk0 : k ∈ keysOf m0
            · exact Or.inl hk0
            · by_cases hk1 : k ∈ keysOf m1
              · exact Or.inr hk1
              · rw [member_of_not_mem k m0 hk0, member_of_not_mem k m1 hk1] at h3
                exact absurd h3 (not_leafDiff_null _)
        · have hdf : diffF Dev.fixed ord (n + 1) false (.obj m0) b ign = [here] := by
            cases b <;> simp [diffF] at hb ⊢
          have hcl : clash (.obj m0) b = true := by
            cases b <;> simp [clash, atomEq] at hb ⊢
          rw [hdf, leafDiff_here_iff _ _ (by rintro xs ys ⟨h, _⟩; cases h) (by rintro m0' m1 ⟨_, rfl⟩; exact hb ⟨m1, rfl⟩)]
          simp only [List.map_cons, List.map_nil, norm_here, List.mem_singleton]
          constructor
          · rintro rfl; exact ⟨⟨rfl, hcl⟩, ignoredB_nil_path ign⟩
          · rintro ⟨⟨h, _⟩, _⟩; exact h

/-! ## the `one` mode returns the first path of the full result -/

theorem take_one_append_of_ne_nil {α : Type} (l r : List α) (h : l ≠ []) : (l ++ r).take 1 = l.take 1 := by
  cases l with
  | nil => exact absurd rfl h
  | cons a t => simp

theorem arrLoop_one (D : Dev) (d1 d0 : JV → JV → List Path → List Path)
    (hd : ∀ x y ig, d1 x y ig = (d0 x y ig).take 1) (ign : List Path) (ys : List JV) :
    ∀ (xs : List JV) (i : Nat), arrLoop D d1 true ign ys xs i = (arrLoop D d0 false ign ys xs i).take 1
  | [], i => by
    simp only [arrLoop]
    split <;> simp
  | x :: xs, i => by
    have ih := arrLoop_one D d1 d0 hd ign ys xs (i + 1)
    simp only [arrLoop, hd, Bool.true_and, Bool.false_and, Bool.false_eq_true, if_false]
    have key : ∀ (l : List Path) (f : Frag),
        (if (!((l.take 1).map (addFrag f)).isEmpty) = true then ((l.take 1).map (addFrag f)).take 1
          else (l.take 1).map (addFrag f) ++ arrLoop D d1 true ign ys xs (i + 1))
        = (l.map (addFrag f) ++ arrLoop D d0 false ign ys xs (i + 1)).take 1 := by
      intro l f
      cases l with
      | nil => simp [ih]
      | cons a t => simp
    split
    · split
      · exact ih
      · split
        · simp
        · exact key _ _
    · split
      · split <;> simp
      · split
        · exact ih
        · exact key _ _

theorem mapLoop_one (d1 d0 : JV → JV → List Path → List Path)
    (hd : ∀ x y ig, d1 x y ig = (d0 x y ig).take 1) (ign : List Path) (m0 m1 : List (Bytes × JV)) :
    ∀ (ks : List Bytes), mapLoop d1 true ign m0 m1 ks = (mapLoop d0 false ign m0 m1 ks).take 1
  | [] => by simp [mapLoop]
  | k :: ks => by
    have ih := mapLoop_one d1 d0 hd ign m0 m1 ks
    simp only [mapLoop, hd, Bool.true_and, Bool.false_and, Bool.false_eq_true, if_false]
    split
    · exact ih
    · generalize d0 (member k m0) (member k m1) (mapChildIgnores k ign) = l
      cases l with
      | nil => simp [ih]
      | cons a t => simp

theorem diffF_one (D : Dev) (ord : List Bytes → List Bytes) :
    ∀ (n : Nat) (a b : JV) (ign : List Path), diffF D ord n true a b ign = (diffF D ord n false a b ign).take 1 := by
  intro n
  induction n with
  | zero => intro a b ign; simp [diffF]
  | succ n ih =>
    intro a b ign
    cases a with
    | null => cases b <;> simp [diffF]
    | bool x => cases b <;> simp [diffF] <;> split <;> simp
    | int x =>
      simp only [diffF]
      split
      · split <;> simp
      · simp
    | flt x =>
      simp only [diffF]
      split
      · split <;> simp
      · simp
    | str x => cases b <;> simp [diffF] <;> split <;> simp
    | big x => cases b <;> simp [diffF] <;> split <;> simp
    | num x => cases b <;> simp [diffF] <;> split <;> simp
    | arr xs =>
      cases b <;> simp [diffF]
      exact arrLoop_one D _ _ (fun x y ig => ih x y ig) ign _ xs 0
    | obj m0 =>
      cases b <;> simp [diffF]
      exact mapLoop_one _ _ (fun x y ig => ih x y ig) ign m0 _ _

/-! ## `Equiv` against `LeafDiff` and `DiffersAt` -/

theorem atomEq_false_of_clash {a b : JV} (h : clash a b = true) : atomEq a b = false := by
  cases a <;> cases b <;> simp_all [clash, atomEq]

theorem not_equiv_of_clash {a b : JV} (h : clash a b = true) : ¬ Equiv a b := by
  intro he
  cases he with
  | atom h' => rw [atomEq_false_of_clash h] at h'; cases h'
  | arr _ _ => simp [clash] at h
  | obj _ => simp [clash] at h

theorem leafDiff_not_equiv {a b : JV} {q : Path} (h : LeafDiff a b q) : ¬ Equiv a b := by
  induction h with
  | here hc => exact not_equiv_of_clash hc
  | len hl =>
    intro he
    cases he with
    | atom h' => simp [atomEq] at h'
    | arr h1 _ => exact hl h1
  | elem h1 h2 _ ih =>
    intro he
    cases he with
    | atom h' => simp [atomEq] at h'
    | arr _ h3 => exact ih (h3 _ _ _ h1 h2)
  | member _ ih =>
    intro he
    cases he with
    | atom h' => simp [atomEq] at h'
    | obj h3 => exact ih (h3 _)

theorem equiv_of_no_leafDiff : ∀ (n : Nat) (a b : JV), a.depth < n → (∀ q, ¬ LeafDiff a b q) → Equiv a b := by
  intro n
  induction n with
  | zero => intro a b h; omega
  | succ n ih =>
    intro a b hd h
    have hc : clash a b = false := by
      cases hcl : clash a b with
      | false => rfl
      | true => exact absurd (LeafDiff.here hcl) (h [])
    by_cases hab : (∃ xs ys, a = .arr xs ∧ b = .arr ys)
    · obtain ⟨xs, ys, rfl, rfl⟩ := hab
      refine Equiv.arr ?_ ?_
      · rcases Nat.lt_or_ge xs.length ys.length with hl | hl
        · exact absurd (LeafDiff.len (Nat.ne_of_lt hl)) (h _)
        · rcases Nat.lt_or_ge ys.length xs.length with hl' | hl'
          · exact absurd (LeafDiff.len (Nat.ne_of_gt hl')) (h _)
          · omega
      · intro i x y h1 h2
        refine ih x y (by have := depth_elem h1; simp [JV.depth] at this hd; omega) ?_
        intro q hq
        exact h _ (LeafDiff.elem h1 h2 hq)
    · by_cases hab' : (∃ m0 m1, a = .obj m0 ∧ b = .obj m1)
      · obtain ⟨m0, m1, rfl, rfl⟩ := hab'
        refine Equiv.obj ?_
        intro k
        refine ih _ _ (by have := depth_member k m0; simp [JV.depth] at this hd; omega) ?_
        intro q hq
        exact h _ (LeafDiff.member hq)
      · refine Equiv.atom ?_
        cases a <;> cases b <;> simp_all [clash]

/-- equal up to numeric width and null-versus-absent members ⇔ no difference anywhere -/
theorem equiv_iff_no_leafDiff (a b : JV) : Equiv a b ↔ ∀ q, ¬ LeafDiff a b q :=
  ⟨fun he _ hq => leafDiff_not_equiv hq he, equiv_of_no_leafDiff (a.depth + 1) a b (Nat.lt_succ_self _)⟩

theorem leafDiff_differsAt {a b : JV} {q : Path} (h : LeafDiff a b q) : DiffersAt a b q := by
  induction h with
  | here hc => exact DiffersAt.here (not_equiv_of_clash hc)
  | len hl => exact DiffersAt.extra (Nat.le_refl _) (by omega)
  | elem h1 h2 _ ih => exact DiffersAt.elem h1 h2 ih
  | member _ ih => exact DiffersAt.member ih

theorem differsAt_not_equiv {a b : JV} {p : Path} (h : DiffersAt a b p) : ¬ Equiv a b := by
  induction h with
  | here hn => exact hn
  | extra h1 h2 =>
    intro he
    cases he with
    | atom h' => simp [atomEq] at h'
    | arr h3 _ => omega
  | elem h1 h2 _ ih =>
    intro he
    cases he with
    | atom h' => simp [atomEq] at h'
    | arr _ h3 => exact ih (h3 _ _ _ h1 h2)
  | member _ ih =>
    intro he
    cases he with
    | atom h' => simp [atomEq] at h'
    | obj h3 => exact ih (h3 _)

/-! ## Match -/

theorem matchElems_iff (p : JV → JV → Bool) : ∀ (xs ys : List JV), xs.length = ys.length →
    (matchElems p xs ys = true ↔ ∀ (i : Nat) (x y : JV), xs[i]? = some x → ys[i]? = some y → p x y = true)
  | [], [], _ => by simp [matchElems]
  | [], _ :: _, h => by simp at h
  | _ :: _, [], h => by simp at h
  | x :: xs, y :: ys, h => by
    have ih := matchElems_iff p xs ys (by simpa using h)
    simp only [matchElems, Bool.and_eq_true, ih]
    constructor
    · rintro ⟨h0, h1⟩ i x' y' hx hy
      cases i with
      | zero => simp at hx hy; subst hx; subst hy; exact h0
      | succ i => exact h1 i x' y' (by simpa using hx) (by simpa using hy)
    · intro hh
      exact ⟨hh 0 x y (by simp) (by simp), fun i x' y' hx hy => hh (i + 1) x' y' (by simpa using hx) (by simpa using hy)⟩

theorem matchF_atom (n : Nat) (f t : JV) (ha : isAtom f = true) (hi : Int64Tree f) :
    matchF Dev.fixed (n + 1) f t = atomEq f t := by
  cases f with
  | arr _ => simp [isAtom] at ha
  | obj _ => simp [isAtom] at ha
  | null => cases t <;> simp [matchF, atomEq]
  | bool x => cases t <;> simp [matchF, atomEq]
  | str x => cases t <;> simp [matchF, atomEq]
  | big x => cases t <;> simp [matchF, atomEq]
  | num x => cases t <;> simp [matchF, atomEq]
  | flt x => cases t <;> simp [matchF, atomEq, asFloat, Dev.fixed, Dec.ofInt]
  | int i =>
    have hi' : IsInt64 i := by cases hi with | int _ h => exact h
    cases t with
    | flt t =>
      simp only [matchF, atomEq]
      by_cases h : (Dec.ofInt i).eq (decVal t) = true
      · rw [(asInt_flt i hi' t).2 h]; simp [h]
      · cases hj : asInt (.flt t) with
        | none => simp [h]
        | some j =>
          have : ¬ i = j := by
            intro e; subst e; exact h ((asInt_flt i hi' t).1 hj)
          simp [h, this]
    | int j => simp [matchF, atomEq, asInt]
    | null => simp [matchF, atomEq, asInt]
    | bool _ => simp [matchF, atomEq, asInt]
    | str _ => simp [matchF, atomEq, asInt]
    | big _ => simp [matchF, atomEq, asInt]
    | num _ => simp [matchF, atomEq, asInt]
    | arr _ => simp [matchF, atomEq, asInt]
    | obj _ => simp [matchF, atomEq, asInt]

theorem fpMatch_atom {f : JV} (ha : isAtom f = true) (t : JV) : FpMatch f t ↔ atomEq f t = true := by
  constructor
  · intro h
    cases h with
    | atom h => exact h
    | arr _ _ => simp [isAtom] at ha
    | obj _ => simp [isAtom] at ha
  · exact FpMatch.atom

theorem fpMatch_arr (xs : List JV) (t : JV) : FpMatch (.arr xs) t ↔
    ∃ ys, t = .arr ys ∧ xs.length = ys.length ∧
      ∀ (i : Nat) (x y : JV), xs[i]? = some x → ys[i]? = some y → FpMatch x y := by
  constructor
  · intro h
    cases h with
    | atom h => simp [atomEq] at h
    | arr h1 h2 => exact ⟨_, rfl, h1, h2⟩
  · rintro ⟨ys, rfl, h1, h2⟩; exact FpMatch.arr h1 h2

theorem fpMatch_obj (m0 : List (Bytes × JV)) (t : JV) : FpMatch (.obj m0) t ↔
    ∃ m1, t = .obj m1 ∧ ∀ k, k ∈ keysOf m0 → FpMatch (member k m0) (member k m1) := by
  constructor
  · intro h
    cases h with
    | atom h => simp [atomEq] at h
    | obj h1 => exact ⟨_, rfl, h1⟩
  · rintro ⟨m1, rfl, h1⟩; exact FpMatch.obj h1

theorem matchF_iff : ∀ (n : Nat) (f t : JV), f.depth < n → Int64Tree f →
    (matchF Dev.fixed n f t = true ↔ FpMatch f t) := by
  intro n
  induction n with
  | zero => intro f t h; omega
  | succ n ih =>
    intro f t hd hi
    by_cases ha : isAtom f = true
    · rw [matchF_atom n f t ha hi, fpMatch_atom ha]
    · cases f with
      | null => simp [isAtom] at ha
      | bool _ => simp [isAtom] at ha
      | int _ => simp [isAtom] at ha
      | flt _ => simp [isAtom] at ha
      | big _ => simp [isAtom] at ha
      | num _ => simp [isAtom] at ha
      | str _ => simp [isAtom] at ha
      | arr xs =>
        rw [fpMatch_arr]
        cases t with
        | arr ys =>
          simp only [matchF, Bool.and_eq_true, beq_iff_eq]
          constructor
          · rintro ⟨hl, hm⟩
            refine ⟨ys, rfl, hl, ?_⟩
            intro i x y hx hy
            exact (ih x y (by have := depth_elem hx; simp [JV.depth] at this hd; omega) (hi.elem hx)).1
              ((matchElems_iff _ xs ys hl).1 hm i x y hx hy)
          · rintro ⟨ys', he, hl, hm⟩
            cases he
            refine ⟨hl, (matchElems_iff _ xs ys hl).2 ?_⟩
            intro i x y hx hy
            exact (ih x y (by have := depth_elem hx; simp [JV.depth] at this hd; omega) (hi.elem hx)).2 (hm i x y hx hy)
        | null => simp [matchF]
        | bool _ => simp [matchF]
        | int _ => simp [matchF]
        | flt _ => simp [matchF]
        | big _ => simp [matchF]
        | num _ => simp [matchF]
        | str _ => simp [matchF]
        | obj _ => simp [matchF]
      | obj m0 =>
        rw [fpMatch_obj]
        cases t with
        | obj m1 =>
          simp only [matchF, List.all_eq_true, mem_dedup]
          constructor
          · intro h
            refine ⟨m1, rfl, fun k hk => ?_⟩
            exact (ih _ _ (by have := depth_member k m0; simp [JV.depth] at this hd; omega) (hi.member k)).1 (h k hk)
          · rintro ⟨m1', he, h⟩
            cases he
            intro k hk
            exact (ih _ _ (by have := depth_member k m0; simp [JV.depth] at this hd; omega) (hi.member k)).2 (h k hk)
        | null => simp [matchF]
        | bool _ => simp [matchF]
        | int _ => simp [matchF]
        | flt _ => simp [matchF]
        | big _ => simp [matchF]
        | num _ => simp [matchF]
        | str _ => simp [matchF]
        | arr _ => simp [matchF]

/-! ## where the deviations of the current code do not show -/

theorem mem_tailIgnores {f : Frag} {g' : Path} : ∀ {ign : List Path}, g' ∈ tailIgnores f ign →
    ∃ g0 g1 t, g' = g1 :: t ∧ g0 :: g1 :: t ∈ ign
  | [], h => by simp [tailIgnores] at h
  | g :: r, h => by
    match g, h with
    | [], h =>
      simp only [tailIgnores] at h
      obtain ⟨g0, g1, t, h1, h2⟩ := mem_tailIgnores h
      exact ⟨g0, g1, t, h1, List.mem_cons_of_mem _ h2⟩
    | [_], h =>
      simp only [tailIgnores] at h
      obtain ⟨g0, g1, t, h1, h2⟩ := mem_tailIgnores h
      exact ⟨g0, g1, t, h1, List.mem_cons_of_mem _ h2⟩
    | a :: b :: t, h =>
      simp only [tailIgnores] at h
      split at h
      · rcases List.mem_cons.1 h with e | e
        · exact ⟨a, b, t, e, List.mem_cons_self⟩
        · obtain ⟨g0, g1, t', h1, h2⟩ := mem_tailIgnores e
          exact ⟨g0, g1, t', h1, List.mem_cons_of_mem _ h2⟩
      · obtain ⟨g0, g1, t', h1, h2⟩ := mem_tailIgnores h
        exact ⟨g0, g1, t', h1, List.mem_cons_of_mem _ h2⟩

theorem NoInnerIdx.tail {ign : List Path} (h : NoInnerIdx ign) (f : Frag) : NoInnerIdx (tailIgnores f ign) := by
  intro g' hg'
  obtain ⟨g0, g1, t, rfl, hm⟩ := mem_tailIgnores hg'
  have := h _ hm
  simp only [innerIdxFree, Bool.and_eq_true] at this
  exact this.2

theorem NoFinalIdx.tail {ign : List Path} (h : NoFinalIdx ign) (f : Frag) : NoFinalIdx (tailIgnores f ign) := by
  intro g' hg'
  obtain ⟨g0, g1, t, rfl, hm⟩ := mem_tailIgnores hg'
  have := h _ hm
  simpa only [finalIdxFree] using this

theorem arrLastIndex_of_noInner : ∀ (ign : List Path) (ii : Int), NoInnerIdx ign → arrLastIndex ign ii = ii
  | [], _, _ => rfl
  | g :: r, ii, h => by
    have hr : NoInnerIdx r := fun g' hg' => h g' (List.mem_cons_of_mem _ hg')
    have hg := h g List.mem_cons_self
    match g, hg with
    | [], _ => simp only [arrLastIndex]; exact arrLastIndex_of_noInner r ii hr
    | [_], _ => simp only [arrLastIndex]; exact arrLastIndex_of_noInner r ii hr
    | .wild :: _ :: _, _ => simp only [arrLastIndex]; exact arrLastIndex_of_noInner r ii hr
    | .key _ :: _ :: _, _ => simp only [arrLastIndex]; exact arrLastIndex_of_noInner r ii hr
    | .idx _ :: _ :: _, hg => simp [innerIdxFree] at hg

theorem arrChildIgnores_of_noInner (i : Nat) : ∀ (ign : List Path), NoInnerIdx ign →
    arrChildIgnores ign = arrChildIgnoresAt i ign
  | [], _ => rfl
  | g :: r, h => by
    have hr : NoInnerIdx r := fun g' hg' => h g' (List.mem_cons_of_mem _ hg')
    have hg := h g List.mem_cons_self
    have ih := arrChildIgnores_of_noInner i r hr
    match g, hg with
    | [], _ => simp only [arrChildIgnores, arrChildIgnoresAt]; exact ih
    | [_], _ => simp only [arrChildIgnores, arrChildIgnoresAt]; exact ih
    | .wild :: _ :: _, _ => simp only [arrChildIgnores, arrChildIgnoresAt, ih]
    | .key _ :: _ :: _, _ => simp only [arrChildIgnores, arrChildIgnoresAt]; exact ih
    | .idx _ :: _ :: _, hg => simp [innerIdxFree] at hg

theorem tailIgnores_length_le (f : Frag) : ∀ (ign : List Path), (tailIgnores f ign).length ≤ (ign.filter isLong).length
  | [] => by simp [tailIgnores]
  | g :: r => by
    have ih := tailIgnores_length_le f r
    match g with
    | [] => simpa [tailIgnores, isLong] using ih
    | [_] => simpa [tailIgnores, isLong] using ih
    | a :: b :: t =>
      simp only [tailIgnores, List.filter_cons, isLong, if_true, List.length_cons]
      split
      · simp only [List.length_cons]; omega
      · omega

theorem AtMostOneLong.tail {ign : List Path} (h : AtMostOneLong ign) (f : Frag) : AtMostOneLong (tailIgnores f ign) := by
  refine ⟨?_, ?_⟩
  · have h1 := tailIgnores_length_le f ign
    have h2 := List.length_filter_le isLong (tailIgnores f ign)
    have := h.1
    omega
  · intro g' hg'
    obtain ⟨g0, g1, t, rfl, hm⟩ := mem_tailIgnores hg'
    have := h.2 _ hm
    simp only [innerIdxNonneg, Bool.and_eq_true] at this
    exact this.2

theorem IdxSafe.tail {ign : List Path} (h : IdxSafe ign) (f : Frag) : IdxSafe (tailIgnores f ign) := by
  rcases h with h | h
  · exact Or.inl (h.tail f)
  · exact Or.inr (h.tail f)

theorem arr_fns_of_noLong : ∀ (r : List Path), (r.filter isLong).length = 0 →
    (∀ ii, arrLastIndex r ii = ii) ∧ arrChildIgnores r = [] ∧ ∀ i, arrChildIgnoresAt i r = []
  | [], _ => ⟨fun _ => rfl, rfl, fun _ => rfl⟩
  | g :: r, h => by
    match g, h with
    | [], h =>
      have ih := arr_fns_of_noLong r (by simpa [isLong] using h)
      exact ⟨fun ii => by simp only [arrLastIndex]; exact ih.1 ii, by simp only [arrChildIgnores]; exact ih.2.1,
        fun i => by simp only [arrChildIgnoresAt]; exact ih.2.2 i⟩
    | [_], h =>
      have ih := arr_fns_of_noLong r (by simpa [isLong] using h)
      exact ⟨fun ii => by simp only [arrLastIndex]; exact ih.1 ii, by simp only [arrChildIgnores]; exact ih.2.1,
        fun i => by simp only [arrChildIgnoresAt]; exact ih.2.2 i⟩
    | _ :: _ :: _, h => simp [isLong] at h

theorem elemIgnores_cur_of_oneLong (i : Nat) : ∀ (ign : List Path), AtMostOneLong ign →
    (if arrLastIndex ign (-1) = (i : Int) ∨ arrLastIndex ign (-1) < 0 then arrChildIgnores ign else [])
      = arrChildIgnoresAt i ign
  | [], _ => by simp [arrLastIndex, arrChildIgnores, arrChildIgnoresAt]
  | g :: r, h => by
    have hr : AtMostOneLong r := by
      refine ⟨?_, fun g' hg' => h.2 g' (List.mem_cons_of_mem _ hg')⟩
      have := h.1
      simp only [List.filter_cons] at this
      split at this
      · simp only [List.length_cons] at this; omega
      · exact this
    match g, h with
    | [], _ => simp only [arrLastIndex, arrChildIgnores, arrChildIgnoresAt]; exact elemIgnores_cur_of_oneLong i r hr
    | [_], _ => simp only [arrLastIndex, arrChildIgnores, arrChildIgnoresAt]; exact elemIgnores_cur_of_oneLong i r hr
    | g0 :: g1 :: t, h =>
      have h0 : (r.filter isLong).length = 0 := by
        have := h.1
        simp only [List.filter_cons, isLong, if_true, List.length_cons] at this
        omega
      obtain ⟨e1, e2, e3⟩ := arr_fns_of_noLong r h0
      have hn := h.2 _ List.mem_cons_self
      cases g0 with
      | wild => simp [arrLastIndex, arrChildIgnores, arrChildIgnoresAt, e1, e2, e3]
      | key k => simp [arrLastIndex, arrChildIgnores, arrChildIgnoresAt, e1, e2, e3]
      | idx j =>
        simp only [innerIdxNonneg, Bool.and_eq_true, decide_eq_true_eq] at hn
        have hj : ¬ j < 0 := by omega
        simp only [arrLastIndex, arrChildIgnores, arrChildIgnoresAt, e1, e2, e3, hj, or_false]

theorem elemIgnores_eq (D : Dev) (i : Nat) (ign : List Path) (h : D.lastIndex = true → IdxSafe ign) :
    elemIgnores D i ign = tailIgnores (.idx i) ign := by
  rw [← arrChildIgnoresAt_eq]
  unfold elemIgnores
  cases hl : D.lastIndex with
  | false => simp
  | true =>
    rcases h hl with hn | hn
    · rw [arrLastIndex_of_noInner ign (-1) hn, ← arrChildIgnores_of_noInner i ign hn]
      simp
    · simp only [if_true]
      exact elemIgnores_cur_of_oneLong i ign hn

theorem ignoreIndex_all_of_noFinal (i j : Nat) : ∀ (ign : List Path), NoFinalIdx ign →
    ignoreIndex i ign = true → ignoreIndex j ign = true
  | [], _, h => by simp [ignoreIndex] at h
  | g :: r, hn, h => by
    have hr : NoFinalIdx r := fun g' hg' => hn g' (List.mem_cons_of_mem _ hg')
    have hg := hn g List.mem_cons_self
    simp only [ignoreIndex, Bool.or_eq_true] at h ⊢
    rcases h with h | h
    · left
      match g, hg, h with
      | [.wild], _, _ => rfl
      | [.idx _], hg, _ => simp [finalIdxFree] at hg
    · exact Or.inr (ignoreIndex_all_of_noFinal i j r hr h)

theorem arrLoop_all_ignored (D : Dev) (ht : D.tailSkip = true) (d : JV → JV → List Path → List Path) (one : Bool)
    (ign : List Path) (ys : List JV) (h : ∀ j, ignoreIndex j ign = true) :
    ∀ (xs : List JV) (i : Nat), arrLoop D d one ign ys xs i = []
  | [], i => by simp [arrLoop, h i]
  | x :: xs, i => by
    simp only [arrLoop, ht, if_true, h i]
    exact arrLoop_all_ignored D ht d one ign ys h xs (i + 1)

theorem arrLoop_congr (D : Dev) (d d' : JV → JV → List Path → List Path) (one : Bool) (ign : List Path) (ys : List JV)
    (h1 : D.lastIndex = true → IdxSafe ign) (h2 : D.tailSkip = true → NoFinalIdx ign)
    (hd : ∀ x y i, y ∈ ys → d x y (tailIgnores (.idx i) ign) = d' x y (tailIgnores (.idx i) ign)) :
    ∀ (xs : List JV) (i : Nat), arrLoop D d one ign ys xs i = arrLoop Dev.fixed d' one ign ys xs i
  | [], i => by simp [arrLoop]
  | x :: xs, i => by
    have ih := arrLoop_congr D d d' one ign ys h1 h2 hd xs (i + 1)
    have hf : Dev.fixed.tailSkip = false := rfl
    simp only [arrLoop, hf, Bool.false_eq_true, if_false, elemIgnores_eq D i ign h1,
      elemIgnores_eq Dev.fixed i ign (by intro h; cases h)]
    cases ht : D.tailSkip with
    | false =>
      simp only [Bool.false_eq_true, if_false]
      cases hy : ys[i]? with
      | none => rfl
      | some y => simp only [hd x y i (List.mem_of_getElem? hy), ih]
    | true =>
      simp only [if_true]
      cases hig : ignoreIndex i ign with
      | true =>
        simp only [if_true]
        cases hy : ys[i]? with
        | none =>
          exact arrLoop_all_ignored D ht d one ign ys (fun j => ignoreIndex_all_of_noFinal i j ign (h2 ht) hig) xs (i + 1)
        | some y => exact ih
      | false =>
        simp only [Bool.false_eq_true, if_false]
        cases hy : ys[i]? with
        | none => rfl
        | some y => simp only [hd x y i (List.mem_of_getElem? hy), ih]

theorem mapLoop_congr (d d' : JV → JV → List Path → List Path) (one : Bool) (ign : List Path) (m0 m1 : List (Bytes × JV))
    (hd : ∀ k, d (member k m0) (member k m1) (tailIgnores (.key k) ign) = d' (member k m0) (member k m1) (tailIgnores (.key k) ign)) :
    ∀ (ks : List Bytes), mapLoop d one ign m0 m1 ks = mapLoop d' one ign m0 m1 ks
  | [] => rfl
  | k :: ks => by
    have ih := mapLoop_congr d d' one ign m0 m1 hd ks
    simp only [mapLoop, mapChildIgnores_eq, hd k, ih]

theorem roundF64_exact {i : Int} (h : IsFloatExact i) : roundF64 i = i := by
  unfold roundF64
  have h' : i.natAbs < 2 ^ 53 := h
  simp only []
  rw [if_pos h']

theorem asFloat_eq (D : Dev) (b : JV) (h : D.floatRound = true → AllInts IsFloatExact b) :
    asFloat D b = asFloat Dev.fixed b := by
  cases b with
  | int i =>
    cases hf : D.floatRound with
    | false => simp [asFloat, hf, Dev.fixed]
    | true =>
      have : IsFloatExact i := by cases h hf with | int _ h => exact h
      simp [asFloat, hf, Dev.fixed, roundF64_exact this]
  | _ => rfl

theorem allInts_mem {P : Int → Prop} {ys : List JV} {y : JV} (h : AllInts P (.arr ys)) (hy : y ∈ ys) : AllInts P y := by
  cases h with
  | arr _ h => exact h y hy

theorem diffF_eq_fixed (D : Dev) (ord : List Bytes → List Bytes) :
    ∀ (n : Nat) (one : Bool) (a b : JV) (ign : List Path),
      (D.lastIndex = true → IdxSafe ign) → (D.tailSkip = true → NoFinalIdx ign) →
      (D.floatRound = true → AllInts IsFloatExact b) →
      diffF D ord n one a b ign = diffF Dev.fixed ord n one a b ign := by
  intro n
  induction n with
  | zero => intros; rfl
  | succ n ih =>
    intro one a b ign h1 h2 h3
    cases a with
    | null => rfl
    | bool _ => rfl
    | int _ => rfl
    | str _ => rfl
    | big _ => rfl
    | num _ => rfl
    | flt t => simp only [diffF, asFloat_eq D b h3]
    | arr xs =>
      cases b with
      | arr ys =>
        simp only [diffF]
        apply arrLoop_congr D _ _ one ign ys h1 h2
        intro x y i hy
        exact ih one x y _ (fun h => (h1 h).tail _) (fun h => (h2 h).tail _) (fun h => allInts_mem (h3 h) hy)
      | _ => rfl
    | obj m0 =>
      cases b with
      | obj m1 =>
        simp only [diffF]
        apply mapLoop_congr
        intro k
        exact ih one _ _ _ (fun h => (h1 h).tail _) (fun h => (h2 h).tail _) (fun h => (h3 h).member k)
      | _ => rfl

theorem matchElems_congr (p p' : JV → JV → Bool) : ∀ (xs ys : List JV), (∀ x y, y ∈ ys → p x y = p' x y) →
    matchElems p xs ys = matchElems p' xs ys
  | [], _, _ => by simp [matchElems]
  | _ :: _, [], _ => by simp [matchElems]
  | x :: xs, y :: ys, h => by
    simp only [matchElems, h x y List.mem_cons_self,
      matchElems_congr p p' xs ys (fun x' y' hy' => h x' y' (List.mem_cons_of_mem _ hy'))]

theorem matchF_eq_fixed (D : Dev) : ∀ (n : Nat) (f t : JV), (D.floatRound = true → AllInts IsFloatExact t) →
    matchF D n f t = matchF Dev.fixed n f t := by
  intro n
  induction n with
  | zero => intros; rfl
  | succ n ih =>
    intro f t h3
    cases f with
    | null => rfl
    | bool _ => rfl
    | int _ => rfl
    | str _ => rfl
    | big _ => rfl
    | num _ => rfl
    | flt x => simp only [matchF, asFloat_eq D t h3]
    | arr xs =>
      cases t with
      | arr ys =>
        simp only [matchF]
        rw [matchElems_congr _ _ xs ys (fun x y hy => ih x y (fun h => allInts_mem (h3 h) hy))]
      | _ => rfl
    | obj m0 =>
      cases t with
      | obj m1 =>
        simp only [matchF]
        congr 1
        funext k
        exact ih _ _ (fun h => (h3 h).member k)
      | _ => rfl

/-! ## generic data -/

theorem diffF_here_of_gate (D : Dev) (ord : List Bytes → List Bytes) (n : Nat) (one : Bool) (a b : JV) (ign : List Path)
    (hg : genGate D a b = false) (hm : D.genRoot = true → numKindMix a b = false) :
    diffF Dev.fixed ord (n + 1) one a b ign = [here] := by
  cases a <;> cases b <;> simp_all [genGate, sameGoType, numKindMix, diffF, asInt, asFloat]

theorem matchF_false_of_gate (D : Dev) (n : Nat) (f t : JV)
    (hg : genGate D f t = false) (hm : D.genRoot = true → numKindMix f t = false) :
    matchF Dev.fixed (n + 1) f t = false := by
  cases f <;> cases t <;> simp_all [genGate, sameGoType, numKindMix, matchF, asInt, asFloat]

/-- away from the named exclusions the current code computes what the fixed code computes on plain data -/
theorem diffTop_eq_fixed (D : Dev) (ord : List Bytes → List Bytes) (fl : Flavour) (one : Bool) (a b : JV) (ign : List Path)
    (h1 : D.lastIndex = true → IdxSafe ign) (h2 : D.tailSkip = true → NoFinalIdx ign)
    (h3 : D.floatRound = true → AllInts IsFloatExact b)
    (h4 : D.genRoot = true → fl = .gen → numKindMix a b = false) :
    diffTop D ord fl one a b ign = diffTop Dev.fixed ord .simple one a b ign := by
  cases fl with
  | simple => exact diffF_eq_fixed D ord _ one a b ign h1 h2 h3
  | gen =>
    simp only [diffTop]
    cases hg : genGate D a b with
    | true => simp only [if_true]; exact diffF_eq_fixed D ord _ one a b ign h1 h2 h3
    | false =>
      simp only [Bool.false_eq_true, if_false]
      exact (diffF_here_of_gate D ord _ one a b ign hg (fun h => h4 h rfl)).symm

theorem altMatch_eq_fixed (D : Dev) (fl : Flavour) (f t : JV)
    (h3 : D.floatRound = true → AllInts IsFloatExact t)
    (h4 : D.genRoot = true → fl = .gen → numKindMix f t = false) :
    altMatch D fl f t = altMatch Dev.fixed .simple f t := by
  cases fl with
  | simple => exact matchF_eq_fixed D _ f t h3
  | gen =>
    simp only [altMatch]
    cases hg : genGate D f t with
    | true => simp only [if_true]; exact matchF_eq_fixed D _ f t h3
    | false =>
      simp only [Bool.false_eq_true, if_false]
      exact (matchF_false_of_gate D _ f t hg (fun h => h4 h rfl)).symm

/-! ## the executable oracle of the specification computes the relations -/

theorem leafDiffsF_other (n : Nat) (a b : JV) (h1 : ¬ ∃ xs ys, a = .arr xs ∧ b = .arr ys)
    (h2 : ¬ ∃ m0 m1, a = .obj m0 ∧ b = .obj m1) :
    leafDiffsF (n + 1) a b = if clash a b = true then [[]] else [] := by
  cases a <;> cases b <;> simp_all [leafDiffsF]

theorem getD_of_getElem? {xs : List JV} {i : Nat} {x : JV} (h : xs[i]? = some x) : xs.getD i .null = x := by
  simp [List.getD, h]

theorem mem_leafDiffsF : ∀ (n : Nat) (a b : JV) (p : Path), a.depth < n → (p ∈ leafDiffsF n a b ↔ LeafDiff a b p) := by
  intro n
  induction n with
  | zero => intro a b p h; omega
  | succ n ih =>
    intro a b p hd
    by_cases hab : ∃ xs ys, a = .arr xs ∧ b = .arr ys
    · obtain ⟨xs, ys, rfl, rfl⟩ := hab
      rw [leafDiff_arr_arr]
      simp only [leafDiffsF, List.mem_append, List.mem_flatMap, List.mem_range, List.mem_map]
      constructor
      · rintro (⟨i, hi, q, hq, rfl⟩ | h)
        · have hx : xs[i]? = some (xs.getD i .null) := by
            have : i < xs.length := by omega
            simp [List.getD, List.getElem?_eq_getElem this]
          have hy : ys[i]? = some (ys.getD i .null) := by
            have : i < ys.length := by omega
            simp [List.getD, List.getElem?_eq_getElem this]
          exact Or.inl ⟨i, _, _, q, hx, hy,
            (ih _ _ q (by have := depth_elem hx; omega)).1 hq, rfl⟩
        · split at h
          · simp at h
          · rename_i hne
            simp at h
            exact Or.inr ⟨hne, h⟩
      · rintro (⟨i, x, y, q, hx, hy, hq, rfl⟩ | ⟨hne, rfl⟩)
        · have h1 : i < xs.length := by
            rcases Nat.lt_or_ge i xs.length with h | h
            · exact h
            · rw [List.getElem?_eq_none h] at hx; cases hx
          have h2 : i < ys.length := by
            rcases Nat.lt_or_ge i ys.length with h | h
            · exact h
            · rw [List.getElem?_eq_none h] at hy; cases hy
          refine Or.inl ⟨i, by omega, q, ?_, rfl⟩
          rw [getD_of_getElem? hx, getD_of_getElem? hy]
          exact (ih _ _ q (by have := depth_elem hx; omega)).2 hq
        · right
          simp [hne]
    · by_cases hab' : ∃ m0 m1, a = .obj m0 ∧ b = .obj m1
      · obtain ⟨m0, m1, rfl, rfl⟩ := hab'
        rw [leafDiff_obj_obj]
        simp only [leafDiffsF, List.mem_flatMap, List.mem_append, List.mem_map]
        constructor
        · rintro ⟨k, _, q, hq, rfl⟩
          exact ⟨k, q, (ih _ _ q (by have := depth_member k m0; omega)).1 hq, rfl⟩
        · rintro ⟨k, q, hq, rfl⟩
          refine ⟨k, ?_, q, (ih _ _ q (by have := depth_member k m0; omega)).2 hq, rfl⟩
          by_cases hk0 : k ∈ keysOf m0
          · exact Or.inl hk0
          · by_cases hk1 : k ∈ keysOf m1
            · exact Or.inr hk1
            · rw [member_of_not_mem k m0 hk0, member_of_not_mem k m1 hk1] at hq
              exact absurd hq (not_leafDiff_null _)
      · rw [leafDiffsF_other n a b hab hab',
          leafDiff_here_iff a b (fun xs ys h => hab ⟨xs, ys, h⟩) (fun m0 m1 h => hab' ⟨m0, m1, h⟩)]
        by_cases hc : clash a b = true
        · simp [hc]
        · simp [hc]

/-- `leafDiffs` lists exactly the leaf differences -/
theorem mem_leafDiffs (a b : JV) (p : Path) : p ∈ leafDiffs a b ↔ LeafDiff a b p :=
  mem_leafDiffsF _ a b p (Nat.lt_succ_self _)

/-- `specDiffs` lists exactly the leaf differences that no ignore path covers -/
theorem mem_specDiffs (a b : JV) (ign : List Path) (p : Path) :
    p ∈ specDiffs a b ign ↔ LeafDiff a b p ∧ ¬ Ignored ign p := by
  simp [specDiffs, mem_leafDiffs, Ignored]

theorem fpMatchF_other (n : Nat) (f t : JV) (h1 : ¬ ∃ xs ys, f = .arr xs ∧ t = .arr ys)
    (h2 : ¬ ∃ m0 m1, f = .obj m0 ∧ t = .obj m1) : fpMatchF (n + 1) f t = atomEq f t := by
  cases f <;> cases t <;> simp_all [fpMatchF]

theorem fpMatchF_iff : ∀ (n : Nat) (f t : JV), f.depth < n → (fpMatchF n f t = true ↔ FpMatch f t) := by
  intro n
  induction n with
  | zero => intro f t h; omega
  | succ n ih =>
    intro f t hd
    by_cases hab : ∃ xs ys, f = .arr xs ∧ t = .arr ys
    · obtain ⟨xs, ys, rfl, rfl⟩ := hab
      rw [fpMatch_arr]
      simp only [fpMatchF, Bool.and_eq_true, beq_iff_eq, List.all_eq_true, List.mem_range]
      constructor
      · rintro ⟨hl, h⟩
        refine ⟨ys, rfl, hl, ?_⟩
        intro i x y hx hy
        have h1 : i < xs.length := by
          rcases Nat.lt_or_ge i xs.length with h | h
          · exact h
          · rw [List.getElem?_eq_none h] at hx; cases hx
        have := h i h1
        rw [getD_of_getElem? hx, getD_of_getElem? hy] at this
        exact (ih x y (by have := depth_elem hx; omega)).1 this
      · rintro ⟨ys', he, hl, h⟩
        cases he
        refine ⟨hl, ?_⟩
        intro i hi
        have hx : xs[i]? = some (xs.getD i .null) := by
          simp [List.getD, List.getElem?_eq_getElem hi]
        have hy : ys[i]? = some (ys.getD i .null) := by
          have : i < ys.length := by omega
          simp [List.getD, List.getElem?_eq_getElem this]
        exact (ih _ _ (by have := depth_elem hx; omega)).2 (h i _ _ hx hy)
    · by_cases hab' : ∃ m0 m1, f = .obj m0 ∧ t = .obj m1
      · obtain ⟨m0, m1, rfl, rfl⟩ := hab'
        rw [fpMatch_obj]
        simp only [fpMatchF, List.all_eq_true]
        constructor
        · intro h
          exact ⟨m1, rfl, fun k hk => (ih _ _ (by have := depth_member k m0; omega)).1 (h k hk)⟩
        · rintro ⟨m1', he, h⟩
          cases he
          intro k hk
          exact (ih _ _ (by have := depth_member k m0; omega)).2 (h k hk)
      · rw [fpMatchF_other n f t hab hab']
        constructor
        · exact FpMatch.atom
        · intro h
          cases h with
          | atom h => exact h
          | arr _ _ => exact absurd ⟨_, _, rfl, rfl⟩ hab
          | obj _ => exact absurd ⟨_, _, rfl, rfl⟩ hab'

/-- `fpMatchB` decides the fingerprint relation -/
theorem fpMatchB_iff (f t : JV) : fpMatchB f t = true ↔ FpMatch f t :=
  fpMatchF_iff _ f t (Nat.lt_succ_self _)

end OjgVerif.Diff
