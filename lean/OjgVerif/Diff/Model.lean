import OjgVerif.Diff.Spec
/-! # Model of `alt/diff.go` (Diff, Compare, Match, diff, asInt, asFloat, ignoreIndex, ignoreKey)

One Lean function per Go function, one branch per Go branch, over `JV`:

* `JV.int i` stands for a Go integer of any kind (`int … uint64`, `gen.Int`) holding `i`, so
  -2^63 ≤ i < 2^64 (`IsMachineInt`); a value ≥ 2^63 is a `uint`/`uint64` (plain data only). `JV.flt t` is a `float32`/`float64`/`gen.Float` whose exact value is the
  decimal text `t` (NaN and ±Inf are not values of the model). `JV.big t` is a `json.Number`
  (reaches the `default` branch, is reflected to its string, compares by text); `JV.num` is treated
  the same way and never generated. `time.Time`, structs, `Simplifier`s other than the `gen` types
  and mixed simple/generic pairs are outside the model.
* A Go path is a `Path`; `nil` is `Frag.wild`, so `Path{nil}` — "the difference is here" — is
  `here = [wild]`. `norm` turns a returned path into the specification's (`here ↦ []`).
* Go map iteration order is the parameter `ord` (any reordering of the union of the member names).
* Recursion is by fuel on the depth of `v0` (`depth v0 + 1` suffices: the recursion only ever
  descends into `v0`, an absent member being `nil`).

The deviations of the unchanged code from property C19 are carried explicitly, one flag each
(`Dev`): `Dev.pinned` is the code as it was pinned, `Dev.fixed` the code with the fixes of
`notes/proposed_fixes/C19_*.md`, `Dev.current` the code as it is now (all four are applied, so it
equals `Dev.fixed`; the flags stay so that a scratch tree without a fix can still be modelled). -/
namespace OjgVerif.Diff
open OjgVerif

/-- which of the known deviations the model reproduces -/
structure Dev where
  /-- C19-multi-index-ignore: the `[]any` branch remembers only the last indexed ignore path (`ii`)
  and hands the tails of *all* indexed and wildcard paths to that one element, none to the others
  (a negative index counts as "no index": the tails go to every element) -/
  lastIndex : Bool
  /-- C19-int-float-2p53: a float on the left is compared with `float64(int)` of an integer on the right -/
  floatRound : Bool
  /-- C19-ignored-length-index: the ignore test precedes the "second array is shorter" test -/
  tailSkip : Bool
  /-- C19-gen-root-number: a `gen.Int` root and a `gen.Float` root have different dynamic types
  and are reported different whatever their values -/
  genRoot : Bool
  /-- C19-uint64-wrap: `asInt` turns a `uint`/`uint64` into `int64(tv)`; a value above `MaxInt64`
  is compared as the negative `int64` with the same bits -/
  uintWrap : Bool
  deriving DecidableEq, Repr

/-- the code as it is now: every deviation is repaired in the repository — lastIndex (c0c8224),
tailSkip (2f372fe), genRoot (36b721b), floatRound (23c2317), uintWrap (d149f2d). `Props/C19.lean`
proves that the deviation set read off the regenerated source facts (`Gen/AltDiff.lean`) is this one. -/
def Dev.current : Dev := ⟨false, false, false, false, false⟩
/-- the pinned code (d4b55cf), before the repairs -/
def Dev.pinned : Dev := ⟨true, true, true, true, true⟩
def Dev.fixed : Dev := ⟨false, false, false, false, false⟩

/-! ## asInt, asFloat -/

def inInt64 (i : Int) : Bool := decide (-9223372036854775808 ≤ i) && decide (i < 9223372036854775808)

/-- `float64(i)` for an `int64`/`uint64` `i`: nearest, ties to even, 53-bit significand -/
def roundF64 (i : Int) : Int :=
  let n := i.natAbs
  if n < 2 ^ 53 then i
  else
    let e := Nat.log2 n - 52
    let q := n / 2 ^ e
    let r := n % 2 ^ e
    let h := 2 ^ (e - 1)
    let q' := if h < r ∨ (r = h ∧ q % 2 = 1) then q + 1 else q
    if i < 0 then -((q' * 2 ^ e : Nat) : Int) else ((q' * 2 ^ e : Nat) : Int)

/-- `int64(tv)` of a `uint64`: the top half wraps to the negative numbers -/
def wrap64 (i : Int) : Int := if 9223372036854775808 ≤ i then i - 18446744073709551616 else i

/-- the integral value of a decimal, if it is integral -/
def decInt? (d : Dec) : Option Int :=
  if d.m % (10 : Int) ^ d.s = 0 then some (d.m / (10 : Int) ^ d.s) else none

/-- `asInt` on a float: only if `float64(int64(f)) == f`, i.e. `f` is integral and in the `int64`
range (out of range the conversion yields `math.MinInt64` on amd64, whose float is not `f`) -/
def asIntDec (d : Dec) : Option Int :=
  match decInt? d with
  | some q => if inInt64 q = true then some q else none
  | none => none

/-- `asInt`: every integer kind, converted with `int64(tv)` (a `uint64` above `MaxInt64` wraps);
a float only if it is integral and in the `int64` range -/
def asInt : JV → Option Int
  | .int i => some (wrap64 i)
  | .flt t => asIntDec (decVal t)
  | _ => none

/-- `asFloat`: floats as they are, integers through `float64(tv)` -/
def asFloat : JV → Option Dec
  | .flt t => some (decVal t)
  | .int i => some ⟨roundF64 i, 0⟩
  | _ => none

/-- `asBigUint`: an unsigned value that no `int64` holds -/
def isTop (i : Int) : Bool := decide (9223372036854775808 ≤ i)

/-- `floatEqual(f, v)` (23c2317): floats by value; an integer as an integer — `f` integral, in
range, and its conversion equal to the integer. With the uint64 fix the top half of `uint64` is
compared through `uint64(f)`, before it through `asInt` like every other integer. -/
def floatEqualM (D : Dev) (f : Dec) : JV → Bool
  | .flt u => f.eq (decVal u)
  | .int i =>
    if !D.uintWrap && isTop i then
      match decInt? f with
      | some q => decide (9223372036854775808 ≤ q) && decide (q < 18446744073709551616) && q == i
      | none => false
    else
      match asIntDec f with
      | some q => q == wrap64 i
      | none => false
  | _ => false

/-- the float cases of `diff` and `Match`: is the float `f` (left) equal to `v` (right)?
Before 23c2317 through `asFloat`, since then through `floatEqual`. -/
def fltCase (D : Dev) (f : Dec) (v : JV) : Bool :=
  if D.floatRound then
    match asFloat v with
    | some g => f.eq g
    | none => false
  else floatEqualM D f v

/-- the integer cases of `diff` and `Match`: is the integer `i` (left) equal to `v` (right)?
As written: `i0, _ := asInt(v0); i1, ok := asInt(v1); ok && i0 == i1`. With the uint64 fix
(`intEqual`): a float on the right goes to `floatEqual`, two integers are equal when both or
neither are in the top half of `uint64` and the 64 bits agree. -/
def intCase (D : Dev) (i : Int) (v : JV) : Bool :=
  if D.uintWrap then
    match asInt v with
    | some j => wrap64 i == j
    | none => false
  else
    match v with
    | .flt u => floatEqualM D (decVal u) (.int i)
    | .int j => if isTop i || isTop j then isTop i && isTop j && i == j else wrap64 i == wrap64 j
    | _ => false

/-! ## paths -/

/-- `Path{nil}` -/
def here : Path := [.wild]

/-- `if len(d) == 1 && d[0] == nil { d[0] = i } else { d = append(Path{i}, d...) }` -/
def addFrag (f : Frag) (d : Path) : Path := if d = here then [f] else f :: d

/-- a returned path in the specification's form -/
def norm (p : Path) : Path := if p = here then [] else p

/-- `ignoreIndex` -/
def ignoreIndex (i : Nat) : List Path → Bool
  | [] => false
  | ign :: r =>
    (match ign with
      | [.wild] => true
      | [.idx ii] => ii == (i : Int)
      | _ => false) || ignoreIndex i r

/-- `ignoreKey` -/
def ignoreKey (k : Bytes) : List Path → Bool
  | [] => false
  | ign :: r =>
    (match ign with
      | [.wild] => true
      | [.key ik] => ik == k
      | _ => false) || ignoreKey k r

/-- the `childIgnores` loop of the `map[string]any` branch -/
def mapChildIgnores (k : Bytes) : List Path → List Path
  | [] => []
  | ign :: r =>
    match ign with
    | .wild :: f :: t => (f :: t) :: mapChildIgnores k r
    | .key ti :: f :: t => if k = ti then (f :: t) :: mapChildIgnores k r else mapChildIgnores k r
    | _ => mapChildIgnores k r

/-- the `childIgnores` of the `[]any` branch as the code builds it: tails of every wildcard or
indexed path, whatever the index -/
def arrChildIgnores : List Path → List Path
  | [] => []
  | ign :: r =>
    match ign with
    | .wild :: f :: t => (f :: t) :: arrChildIgnores r
    | .idx _ :: f :: t => (f :: t) :: arrChildIgnores r
    | _ => arrChildIgnores r

/-- `ii`: the index of the last indexed ignore path of length > 1, `-1` if there is none -/
def arrLastIndex : List Path → Int → Int
  | [], ii => ii
  | ign :: r, ii =>
    match ign with
    | .idx ti :: _ :: _ => arrLastIndex r ti
    | _ => arrLastIndex r ii

/-- the proposed fix: the tails of the wildcard paths and of the paths whose index is `i` -/
def arrChildIgnoresAt (i : Nat) : List Path → List Path
  | [] => []
  | ign :: r =>
    match ign with
    | .wild :: f :: t => (f :: t) :: arrChildIgnoresAt i r
    | .idx ti :: f :: t => if ti = (i : Int) then (f :: t) :: arrChildIgnoresAt i r else arrChildIgnoresAt i r
    | _ => arrChildIgnoresAt i r

/-- the ignore paths handed to element `i` -/
def elemIgnores (D : Dev) (i : Nat) (ign : List Path) : List Path :=
  if D.lastIndex then
    (if arrLastIndex ign (-1) = (i : Int) ∨ arrLastIndex ign (-1) < 0 then arrChildIgnores ign else [])
  else arrChildIgnoresAt i ign

/-! ## diff -/

/-- the element loop of the `[]any` branch followed by the length test; `d` is the recursive call,
`i` the current index, the list the rest of `t0`, `ys` the whole of `t1` -/
def arrLoop (D : Dev) (d : JV → JV → List Path → List Path) (one : Bool) (ign : List Path)
    (ys : List JV) : List JV → Nat → List Path
  | [], i =>
    -- `if len(t0) != len(t1) && !ignoreIndex(len(t0), ignores)`
    if i ≠ ys.length ∧ ignoreIndex i ign = false then [[.idx i]] else []
  | x :: xs, i =>
    if D.tailSkip then
      -- as written: ignore test first, then `if len(t1) <= i { append Path{i}; return }`
      if ignoreIndex i ign then arrLoop D d one ign ys xs (i + 1)
      else
        match ys[i]? with
        | none => [[.idx i]]
        | some y =>
          if one && !((d x y (elemIgnores D i ign)).map (addFrag (.idx i))).isEmpty then
            ((d x y (elemIgnores D i ign)).map (addFrag (.idx i))).take 1
          else (d x y (elemIgnores D i ign)).map (addFrag (.idx i)) ++ arrLoop D d one ign ys xs (i + 1)
    else
      -- proposed fix: the length test first, and it honours the ignore paths
      match ys[i]? with
      | none => if ignoreIndex i ign then [] else [[.idx i]]
      | some y =>
        if ignoreIndex i ign then arrLoop D d one ign ys xs (i + 1)
        else if one && !((d x y (elemIgnores D i ign)).map (addFrag (.idx i))).isEmpty then
          ((d x y (elemIgnores D i ign)).map (addFrag (.idx i))).take 1
        else (d x y (elemIgnores D i ign)).map (addFrag (.idx i)) ++ arrLoop D d one ign ys xs (i + 1)

/-- the `for k := range keys` loop of the `map[string]any` branch over the keys in the given order -/
def mapLoop (d : JV → JV → List Path → List Path) (one : Bool) (ign : List Path)
    (m0 m1 : List (Bytes × JV)) : List Bytes → List Path
  | [] => []
  | k :: ks =>
    if ignoreKey k ign then mapLoop d one ign m0 m1 ks
    else if one && !((d (member k m0) (member k m1) (mapChildIgnores k ign)).map (addFrag (.key k))).isEmpty then
      ((d (member k m0) (member k m1) (mapChildIgnores k ign)).map (addFrag (.key k))).take 1
    else (d (member k m0) (member k m1) (mapChildIgnores k ign)).map (addFrag (.key k))
      ++ mapLoop d one ign m0 m1 ks

/-- each name once -/
def dedup : List Bytes → List Bytes
  | [] => []
  | k :: r => if k ∈ r then dedup r else k :: dedup r

/-- the `keys` set of the map branch -/
def unionKeys (m0 m1 : List (Bytes × JV)) : List Bytes := dedup (keysOf m0 ++ keysOf m1)

/-- `diff(v0, v1, one, ignores...)` -/
def diffF (D : Dev) (ord : List Bytes → List Bytes) : Nat → Bool → JV → JV → List Path → List Path
  | 0, _, _, _, _ => []
  | n + 1, one, v0, v1, ign =>
    match v0 with
    | .null => match v1 with
      | .null => []
      | _ => [here]
    | .bool b => match v1 with
      | .bool c => if b = c then [] else [here]
      | _ => [here]
    | .int i => if intCase D i v1 then [] else [here]
    | .flt t => if fltCase D (decVal t) v1 then [] else [here]
    | .str s => match v1 with
      | .str u => if s = u then [] else [here]
      | _ => [here]
    | .big s => match v1 with        -- default branch: same type, reflected to strings
      | .big u => if s = u then [] else [here]
      | _ => [here]
    | .num s => match v1 with
      | .num u => if s = u then [] else [here]
      | _ => [here]
    | .arr xs => match v1 with
      | .arr ys => arrLoop D (diffF D ord n one) one ign ys xs 0
      | _ => [here]
    | .obj m0 => match v1 with
      | .obj m1 => mapLoop (diffF D ord n one) one ign m0 m1 (ord (unionKeys m0 m1))
      | _ => [here]

/-! ## Match -/

def matchElems (p : JV → JV → Bool) : List JV → List JV → Bool
  | x :: xs, y :: ys => p x y && matchElems p xs ys
  | _, _ => true

/-- `Match(fingerprint, target)` -/
def matchF (D : Dev) : Nat → JV → JV → Bool
  | 0, _, _ => false
  | n + 1, fp, t =>
    match fp with
    | .null => match t with
      | .null => true
      | _ => false
    | .bool b => match t with
      | .bool c => b == c
      | _ => false
    | .int i => intCase D i t
    | .flt x => fltCase D (decVal x) t
    | .str s => match t with
      | .str u => s == u
      | _ => false
    | .big s => match t with
      | .big u => s == u
      | _ => false
    | .num s => match t with
      | .num u => s == u
      | _ => false
    | .arr xs => match t with
      | .arr ys => xs.length == ys.length && matchElems (matchF D n) xs ys
      | _ => false
    | .obj m0 => match t with
      | .obj m1 => (dedup (keysOf m0)).all (fun k => matchF D n (member k m0) (member k m1))
      | _ => false

/-! ## entry points -/

/-- plain (`map[string]any`, `[]any`, …) or generic (`gen.Object`, `gen.Array`, …) data -/
inductive Flavour where
  | simple
  | gen
  deriving DecidableEq, Repr

/-- same dynamic Go type (for generic data: same `gen` type) -/
def sameGoType : JV → JV → Bool
  | .null, .null => true
  | .bool _, .bool _ => true
  | .int _, .int _ => true
  | .flt _, .flt _ => true
  | .big _, .big _ => true
  | .num _, .num _ => true
  | .str _, .str _ => true
  | .arr _, .arr _ => true
  | .obj _, .obj _ => true
  | _, _ => false

/-- a generic value other than `nil` is not named by any `case` and reaches the `default` branch:
the dynamic types must be equal, then both sides are simplified and compared as plain data (the
proposed fix names `gen.Int` and `gen.Float` in the integer and float cases) -/
def genGate (D : Dev) (v0 v1 : JV) : Bool :=
  match v0 with
  | .null => true
  | .int _ => !D.genRoot || sameGoType v0 v1
  | .flt _ => !D.genRoot || sameGoType v0 v1
  | _ => sameGoType v0 v1

def diffTop (D : Dev) (ord : List Bytes → List Bytes) (fl : Flavour) (one : Bool) (v0 v1 : JV)
    (ign : List Path) : List Path :=
  match fl with
  | .simple => diffF D ord (v0.depth + 1) one v0 v1 ign
  | .gen => if genGate D v0 v1 then diffF D ord (v0.depth + 1) one v0 v1 ign else [here]

/-- `Diff(v0, v1, ignores...)` -/
def diff (D : Dev) (ord : List Bytes → List Bytes) (fl : Flavour) (v0 v1 : JV) (ign : List Path) : List Path :=
  diffTop D ord fl false v0 v1 ign

/-- `Compare(v0, v1, ignores...)`: `none` is the nil path -/
def compare (D : Dev) (ord : List Bytes → List Bytes) (fl : Flavour) (v0 v1 : JV) (ign : List Path) : Option Path :=
  (diffTop D ord fl true v0 v1 ign).head?

/-- `Match(fingerprint, target)` -/
def altMatch (D : Dev) (fl : Flavour) (fp t : JV) : Bool :=
  match fl with
  | .simple => matchF D (fp.depth + 1) fp t
  | .gen => if genGate D fp t then matchF D (fp.depth + 1) fp t else false

/-! ## the inputs on which a deviation can show (named exclusions of the partial theorems) -/

/-- no index before the last fragment -/
def innerIdxFree : Path → Bool
  | [] => true
  | [_] => true
  | f :: g :: r => (match f with | .idx _ => false | _ => true) && innerIdxFree (g :: r)

/-- the last fragment is not an index -/
def finalIdxFree : Path → Bool
  | [] => true
  | [f] => (match f with | .idx _ => false | _ => true)
  | _ :: g :: r => finalIdxFree (g :: r)

/-- no ignore path has an index before its last fragment -/
def NoInnerIdx (ign : List Path) : Prop := ∀ g, g ∈ ign → innerIdxFree g = true

/-- more than one fragment -/
def isLong : Path → Bool
  | _ :: _ :: _ => true
  | _ => false

/-- the indexes before the last fragment are not negative -/
def innerIdxNonneg : Path → Bool
  | [] => true
  | [_] => true
  | f :: g :: r => (match f with | .idx i => decide (0 ≤ i) | _ => true) && innerIdxNonneg (g :: r)

/-- at most one ignore path has more than one fragment, and no index before its last fragment is
negative (the documented use: one path through an array index) -/
def AtMostOneLong (ign : List Path) : Prop :=
  (ign.filter isLong).length ≤ 1 ∧ ∀ g, g ∈ ign → innerIdxNonneg g = true

/-- the ignore sets that C19-multi-index-ignore cannot touch -/
def IdxSafe (ign : List Path) : Prop := NoInnerIdx ign ∨ AtMostOneLong ign

/-- no ignore path ends in an index (the predicate that excludes C19-ignored-length-index) -/
def NoFinalIdx (ign : List Path) : Prop := ∀ g, g ∈ ign → finalIdxFree g = true

/-- an integer that `float64` holds exactly -/
def IsFloatExact (i : Int) : Prop := i.natAbs < 2 ^ 53

instance (i : Int) : Decidable (IsFloatExact i) := by unfold IsFloatExact; infer_instance

/-- the roots are an integer and a float, in either order (the pairs that C19-gen-root-number is about) -/
def numKindMix : JV → JV → Bool
  | .int _, .flt _ => true
  | .flt _, .int _ => true
  | _, _ => false

end OjgVerif.Diff
