import OjgVerif.JPText.Expr
/-! # JSONPath text family (C14): the printers

`Expr.Append` (jp/expr.go) with the `Append` method of every fragment, `jp.AppendString`
(jp/string.go), `Script.Append`/`appendOp`/`appendValue` (jp/script.go) and `Equation.Append`
(jp/equation.go), one Lean branch per Go branch, for the tree with the C14 repairs e6c1ad4 (Equation
parentheses per operand), d27ad83 (right operand of equal precedence), c107b3b (`\\xHH` for undecodable
bytes), bc70af1 (descent text), 4af356a (union members escaped, Nth by `AppendInt`), b3b14ce (`.0` for
integral floats).

Deviation still carried (marked `DEVIATION (C14-…)`): with the `/` delimiter (regex constants)
`AppendString` drops the backslash of an escape letter and does not escape `/` (C14-regex-text).
-/
namespace OjgVerif.JPText
open OjgVerif

/-! ## `jp.AppendString` -/

/-- the body of `AppendString` (between the delimiters). `fuel` ≥ length of the input. -/
def appendStrBody (delim : UInt8) : Nat → Bytes → Bytes
  | 0, _ => []
  | _, [] => []
  | f+1, b :: r =>
    if jCls b = 111 then b :: appendStrBody delim f r                       -- 'o': copied
    else if jCls b = 46 then                                                 -- '.': \u00XX
      92 :: 117 :: 48 :: 48 :: hexDigit (b >>> 4 &&& 15) :: hexDigit (b &&& 15) :: appendStrBody delim f r
    else if jCls b = 56 then                                                 -- '8': multi-byte
      if (decodeRune (b :: r)).1 = 0x2028 then
        92 :: 117 :: 50 :: 48 :: 50 :: 56 :: appendStrBody delim f (r.drop ((decodeRune (b :: r)).2 - 1))
      else if (decodeRune (b :: r)).1 = 0x2029 then
        92 :: 117 :: 50 :: 48 :: 50 :: 57 :: appendStrBody delim f (r.drop ((decodeRune (b :: r)).2 - 1))
      else if (decodeRune (b :: r)).1 = runeError then
        if (decodeRune (b :: r)).2 = 1 then                                  -- not UTF-8: \xHH (since c107b3b)
          92 :: 120 :: hexDigit (b >>> 4 &&& 15) :: hexDigit (b &&& 15) :: appendStrBody delim f r
        else
          92 :: 117 :: 102 :: 102 :: 102 :: 100 :: appendStrBody delim f (r.drop ((decodeRune (b :: r)).2 - 1))
      else
        b :: (r.take ((decodeRune (b :: r)).2 - 1) ++ appendStrBody delim f (r.drop ((decodeRune (b :: r)).2 - 1)))
    else if delim ≠ 47 then 92 :: jCls b :: appendStrBody delim f r          -- escape letter after a backslash
    else jCls b :: appendStrBody delim f r       -- DEVIATION (C14-regex-text): the letter alone, `/` not escaped

/-- `AppendString(buf, s, delim)` -/
def appendString (s : Bytes) (delim : UInt8) : Bytes :=
  delim :: (appendStrBody delim s.length s ++ [delim])

/-! ## fragments -/

/-- `Child.Append` -/
def childPrint (br first : Bool) (k : Bytes) : Bytes :=
  if br || !tokenOk k then 91 :: (appendString k 39 ++ [93])
  else if first then k else 46 :: k

/-- `Nth.Append`: `strconv.AppendInt` between brackets (since 4af356a) -/
def nthPrint (i : Int) : Bytes := 91 :: (fmtInt i ++ [93])

def sliceStart (n : Int) : Bytes := if n ≠ 0 then fmtInt n else []
def sliceEnd (n : Int) : Bytes := if n ≠ maxEnd then fmtInt n else []

/-- `Slice.Append` -/
def slicePrint : List Int → Bytes
  | [] => [91, 58, 93]
  | [a] => 91 :: (sliceStart a ++ [58, 93])
  | [a, b] => 91 :: (sliceStart a ++ 58 :: (sliceEnd b ++ [93]))
  | a :: b :: c :: _ => 91 :: (sliceStart a ++ 58 :: (sliceEnd b ++ 58 :: (fmtInt c ++ [93])))

def umemPrint : UMem → Bytes
  | .key s => appendString s 39          -- escaped like a child key (since 4af356a)
  | .idx i => fmtInt i

def umemsPrint : List UMem → Bytes
  | [] => []
  | [m] => umemPrint m
  | m :: r => umemPrint m ++ 44 :: umemsPrint r

/-- `Union.Append` -/
def unionPrint (ms : List UMem) : Bytes := 91 :: (umemsPrint ms ++ [93])

/-! ## `Script.Append` -/

/-- an element of the print stack: a value already rendered (`appendValue` never parenthesises a
plain value) or a `*precBuf` -/
inductive SItem where
  | txt (b : Bytes)
  | pb (prec : Nat) (b : Bytes)
deriving Inhabited

/-- `appendValue(buf, v, prec)` for a stack slot; a missing slot is nil -/
def SItem.app (prec : Nat) : Option SItem → Bytes
  | none => [110, 117, 108, 108]
  | some (.txt b) => b
  | some (.pb p b) => if prec < p then 40 :: (b ++ [41]) else b

/-- the right operand of an infix operator: a `precBuf` of EQUAL precedence keeps its parentheses too
(since d27ad83: equal precedence is read left-associated) -/
def SItem.appRight (prec : Nat) : Option SItem → Bytes
  | some (.pb p b) => if p = prec then 40 :: (b ++ [41]) else SItem.app prec (some (.pb p b))
  | x => SItem.app prec x

/-- `Script.appendOp` -/
def appendOp (o : Op) (left right : Option SItem) : Bytes :=
  if isCode o Gen.JpOps.op_not then o.name ++ SItem.app o.prec left
  else if isCode o Gen.JpOps.op_group then SItem.app o.prec left
  else if isCode o Gen.JpOps.op_length || isCode o Gen.JpOps.op_count then
    o.name ++ 40 :: (SItem.app o.prec left ++ [41])
  else if isCode o Gen.JpOps.op_match || isCode o Gen.JpOps.op_search then
    o.name ++ 40 :: (SItem.app o.prec left ++ 44 :: 32 :: (SItem.app o.prec right ++ [41]))
  else if o.code = Gen.Jp.userOpCode then
    o.name ++ 40 :: (SItem.app o.prec left ++
      ((if 1 < o.cnt then 44 :: 32 :: SItem.app o.prec right else []) ++ [41]))
  else SItem.app o.prec left ++ 32 :: (o.name ++ 32 :: SItem.appRight o.prec right)

/-- one step of the right-to-left scan of `Script.Append` over an operator: the operator and its
`cnt` operands are replaced by one `precBuf` (for a template in which every operator has its
operands this is what the in-place `copy` leaves in the live part of the stack) -/
def stepOp (o : Op) (tail : List SItem) : List SItem :=
  .pb o.prec (appendOp o tail[0]? tail[1]?) :: tail.drop o.cnt

/-- `appendFloat` (since b3b14ce): the `FormatFloat` text, with `.0` when it has no `.`, `e`, `N`, `I` -/
def floatPrint (t : Bytes) : Bytes :=
  if t.any (fun b => b = 46 || b = 101 || b = 78 || b = 73) then t else t ++ [46, 48]

def bNull : Bytes := [110, 117, 108, 108]
def bNothing : Bytes := [78, 111, 116, 104, 105, 110, 103]
def bTrue : Bytes := [116, 114, 117, 101]
def bFalse : Bytes := [102, 97, 108, 115, 101]

mutual
  /-- `Frag.Append(buf, bracket, first)` -/
  def Frag.print (br first : Bool) : Frag → Bytes
    | .root => [36]
    | .at => [64]
    | .child k => childPrint br first k
    | .nth i => nthPrint i
    | .wild h => if br || h then [91, 42, 93] else if first then [42] else [46, 42]
    | .descent => if br then [91, 46, 46, 93] else [46]      -- the second dot is written by `Expr.Append`
    | .union ms => unionPrint ms
    | .slice ns => slicePrint ns
    | .filter t =>
      91 :: 63 :: 40 :: ((match Item.run t with
        | .txt b :: _ => b
        | .pb _ b :: _ => b
        | [] => []) ++ [41, 93])
  /-- the fragment loop of `Expr.Append` (since bc70af1): after a Descent in dot form (`aD`) the second dot
  is written here and the next fragment is appended like a first one; a last Descent gets it at the end -/
  def Frag.printL (br first aD : Bool) : List Frag → Bytes
    | [] => if aD then [46] else []
    | f :: r =>
      (if aD then [46] else []) ++ (f.print br (first || aD) ++ Frag.printL br false (f.isDescent && !br) r)
  /-- `appendValue` of jp/script.go and jp/equation.go for a constant -/
  def Val.print : Val → Bytes
    | .null => bNull
    | .nothing => bNothing
    | .bool b => if b then bTrue else bFalse
    | .int i => fmtInt i
    | .flt t => floatPrint t
    | .str s => appendString s 39
    | .list vs => 91 :: (Val.printL vs ++ [93])
    | .expr x => Frag.printL false true false x
    | .regex src => appendString src 47
  def Val.printL : List Val → Bytes
    | [] => []
    | [v] => v.print
    | v :: r => v.print ++ 44 :: Val.printL r
  /-- the right-to-left scan of `Script.Append` -/
  def Item.run : List Item → List SItem
    | [] => []
    | .val v :: r => .txt v.print :: Item.run r
    | .op o :: r => stepOp o (Item.run r)
end

/-- `Expr.Append(buf, bracket)` / `String()` / `BracketString()` -/
def exprPrint (br : Bool) (x : Expr) : Bytes := Frag.printL br true false x

/-- `Script.Append` -/
def scriptPrint (t : List Item) : Bytes :=
  40 :: ((match Item.run t with
    | .txt b :: _ => b
    | .pb _ b :: _ => b
    | [] => []) ++ [41])

/-- `Filter.String` -/
def filterPrint (t : List Item) : Bytes := 91 :: 63 :: (scriptPrint t ++ [93])

/-! ## `Equation.Append` -/

def noParensCode (o : Op) : Bool :=
  isCode o Gen.JpOps.op_not || isCode o Gen.JpOps.op_length || isCode o Gen.JpOps.op_count ||
  isCode o Gen.JpOps.op_match || isCode o Gen.JpOps.op_search || isCode o Gen.JpOps.op_group

/-- `Equation.infix`: written as left, operator, right -/
def Eqn.infixPrec? : Eqn → Option Nat
  | .val _ => none
  | .un o _ => if noParensCode o || isCode o Gen.JpOps.op_get then none else some o.prec
  | .bin o _ _ => if noParensCode o || isCode o Gen.JpOps.op_get then none else some o.prec

def Eqn.isInfix (e : Eqn) : Bool := e.infixPrec?.isSome

/-- parentheses of the left operand: infix and binding less tightly -/
def leftParens (o : Op) (l : Eqn) : Bool :=
  match l.infixPrec? with
  | none => false
  | some p => decide (o.prec < p)

/-- parentheses of the right operand: infix and not binding more tightly (since e6c1ad4 from the right
operand itself) -/
def rightParens (o : Op) (r : Eqn) : Bool :=
  match r.infixPrec? with
  | none => false
  | some p => decide (o.prec ≤ p)

def wrapParens (p : Bool) (b : Bytes) : Bytes := if p then 40 :: (b ++ [41]) else b

/-- `Equation.Append(buf, parens)`; `none` where the Go code dereferences a nil right operand
(`match(x)` written with one argument) -/
def Eqn.print : Eqn → Bool → Option Bytes
  | .val v, p => some (wrapParens p v.print)
  | .un o l, p =>
    (if isCode o Gen.JpOps.op_not then (l.print l.isInfix).map (33 :: ·)
     else if isCode o Gen.JpOps.op_get then some l.resultOf.print
     else if isCode o Gen.JpOps.op_length || isCode o Gen.JpOps.op_count then
       some (o.name ++ 40 :: (l.resultOf.print ++ [41]))
     else if isCode o Gen.JpOps.op_match || isCode o Gen.JpOps.op_search then none
     else if isCode o Gen.JpOps.op_group then l.print l.isInfix
     else (l.print (leftParens o l)).map (· ++ 32 :: (o.name ++ [32]))).map
      (wrapParens (p && !noParensCode o))
  | .bin o l r, p =>
    (if isCode o Gen.JpOps.op_not then (l.print l.isInfix).map (33 :: ·)
     else if isCode o Gen.JpOps.op_get then some l.resultOf.print
     else if isCode o Gen.JpOps.op_length || isCode o Gen.JpOps.op_count then
       some (o.name ++ 40 :: (l.resultOf.print ++ [41]))
     else if isCode o Gen.JpOps.op_match || isCode o Gen.JpOps.op_search then
       match l.print false, r.print false with
       | some a, some b => some (o.name ++ 40 :: (a ++ 44 :: 32 :: (b ++ [41])))
       | _, _ => none
     else if isCode o Gen.JpOps.op_group then l.print l.isInfix
     else
       match l.print (leftParens o l), r.print (rightParens o r) with
       | some a, some b => some (a ++ 32 :: (o.name ++ 32 :: b))
       | _, _ => none).map (wrapParens (p && !noParensCode o))

/-- `Equation.String` -/
def eqnString (e : Eqn) : Option Bytes := e.print true

end OjgVerif.JPText
