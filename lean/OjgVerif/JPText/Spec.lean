import OjgVerif.JPText.Print
import OjgVerif.JPText.Parse
/-! # JSONPath text family (C14): what "round trip" means, and who is excused

C14: for every expression `x` buildable from the public constructors, `Parse(x.String())` (and the
same for `BracketString`) succeeds, prints identically and evaluates identically; the same for
`Equation`, `Script`, `Filter` text.

*Evaluates identically* is stated structurally: the re-parsed object equals the original up to the
normalisations `norm` below, each of which is invisible to every evaluator of jp/get.go, jp/script.go:

* a `Wildcard` remembers whether it was read from `[*]` (`'#'`) — used by `Append` only;
* `Slice{}`, `Slice{a}`, `Slice{a,b,c,d…}` are read by the evaluators as `{0,maxEnd}`, `{a,maxEnd}`,
  `{a,b,c}` (*formalisation choice*: these are what the parser builds for the printed text);
* a `group` operator in a script template (kept by the parser where it read a parenthesis it did not
  prove redundant) evaluates to its operand.

Formalisation choices on "constructible" (`Constructible*` below): the `Bracket` flag fragment is not a
constructor of `Frag` (the parser never builds it); API-built expressions with flags are `Option Frag` lists in
`Bracket.lean` (top level of an expression only; round 3), with their own deviations; no `Proc`; operands of equation constructors are not nil; integers are `int64`; a list
constant holds nil, Nothing, bool, int64, float64, string and lists of these (what the evaluator
compares); a float constant is carried as its `FormatFloat(f,'g',-1,64)` text and a regex constant
as a source text that compiles.

The pinned tree violated C14 in thirteen ways; eleven are repaired in /repo (e6c1ad4 d27ad83 9a26786
cd355fe 32b7b46 fe63c88 c107b3b bc70af1 4af356a b3b14ce; known_findings.json `fixed`). Two remain and
have no repair: `Dev` names them, `devsExpr`/`devsEqn`/… decide them on the object (they are the
predicates of the `known` entries `C14-no-text-form`, `C14-regex-text`; the harness asks the driver).
-/
namespace OjgVerif.JPText
open OjgVerif

/-! ## normal form and canonical encoding -/

def normSlice : List Int → List Int
  | [] => [0, maxEnd]
  | [a] => [a, maxEnd]
  | [a, b] => [a, b]
  | a :: b :: c :: _ => [a, b, c]

mutual
  def Frag.norm : Frag → Frag
    | .wild _ => .wild false
    | .slice ns => .slice (normSlice ns)
    | .filter t => .filter (Item.normL t)
    | .root => .root
    | .at => .at
    | .child k => .child k
    | .nth i => .nth i
    | .descent => .descent
    | .union ms => .union ms
  def Frag.normL : List Frag → List Frag
    | [] => []
    | f :: r => f.norm :: Frag.normL r
  def Item.normL : List Item → List Item
    | [] => []
    | .op o :: r => if isCode o Gen.JpOps.op_group then Item.normL r else .op o :: Item.normL r
    | .val v :: r => .val v.norm :: Item.normL r
  def Val.norm : Val → Val
    | .list vs => .list (Val.normL vs)
    | .expr x => .expr (Frag.normL x)
    | .null => .null
    | .nothing => .nothing
    | .bool b => .bool b
    | .int i => .int i
    | .flt t => .flt (floatPrint t)     -- `2` (built) and `2.0` (read) are the same float64
    | .str s => .str s
    | .regex s => .regex s
  def Val.normL : List Val → List Val
    | [] => []
    | v :: r => v.norm :: Val.normL r
end

def encBytes (b : Bytes) : Bytes := digits b.length ++ 58 :: b
def encInt (i : Int) : Bytes := fmtInt i ++ [59]

def UMem.enc : UMem → Bytes
  | .key s => 75 :: encBytes s
  | .idx i => 73 :: encInt i

def encInts : List Int → Bytes
  | [] => []
  | i :: r => encInt i ++ encInts r

def encUMems : List UMem → Bytes
  | [] => []
  | m :: r => m.enc ++ encUMems r

mutual
  /-- an injective rendering, used to compare objects (the nested types have no derived equality) -/
  def Frag.enc : Frag → Bytes
    | .root => [82]
    | .at => [65]
    | .child k => 67 :: encBytes k
    | .nth i => 78 :: encInt i
    | .wild h => if h then [72] else [87]
    | .descent => [68]
    | .union ms => 85 :: (encUMems ms ++ [59])
    | .slice ns => 83 :: (encInts ns ++ [59])
    | .filter t => 70 :: (Item.encL t ++ [59])
  def Frag.encL : List Frag → Bytes
    | [] => []
    | f :: r => f.enc ++ Frag.encL r
  def Item.encL : List Item → Bytes
    | [] => []
    | .op o :: r => 111 :: (encBytes o.name ++ o.code :: Item.encL r)
    | .val v :: r => 118 :: (v.enc ++ Item.encL r)
  def Val.enc : Val → Bytes
    | .null => [110]
    | .nothing => [48]
    | .bool b => if b then [116] else [102]
    | .int i => 105 :: encInt i
    | .flt t => 100 :: encBytes t
    | .str s => 115 :: encBytes s
    | .list vs => 108 :: (Val.encL vs ++ [59])
    | .expr x => 120 :: (Frag.encL x ++ [59])
    | .regex s => 114 :: encBytes s
  def Val.encL : List Val → Bytes
    | [] => []
    | v :: r => v.enc ++ Val.encL r
end

/-- same expression up to the normalisations -/
def sameExpr (x y : Expr) : Bool := Frag.encL (Frag.normL x) == Frag.encL (Frag.normL y)
/-- same script template up to the normalisations (evaluation order is the template) -/
def sameTemplate (s t : List Item) : Bool := Item.encL (Item.normL s) == Item.encL (Item.normL t)

/-! ## the property, on the model -/

/-- C14 for one expression and one of the two text forms -/
def roundTripsExpr (br : Bool) (x : Expr) : Bool :=
  match parseExpr (exprPrint br x) with
  | none => false
  | some y => exprPrint br y == exprPrint br x && sameExpr y x

/-- C14 for `Equation.Script().String()` read by `NewScript` -/
def roundTripsScript (e : Eqn) : Bool :=
  match parseScript (scriptPrint e.script) with
  | none => false
  | some t => scriptPrint t == scriptPrint e.script && sameTemplate t e.script

/-- C14 for `Equation.Filter().String()` read by `NewFilter` -/
def roundTripsFilter (e : Eqn) : Bool :=
  match parseFilter (filterPrint e.build) with
  | none => false
  | some t => filterPrint t == filterPrint e.build && sameTemplate t e.build

/-- C14 for `Equation.String()` read by `MustParseEquation` -/
def roundTripsEqn (e : Eqn) : Bool :=
  match eqnString e with
  | none => false
  | some s =>
    match parseEquation s with
    | none => false
    | some e' => eqnString e' == some s && sameTemplate e'.build e.build

/-! ## the deviations that remain -/

inductive Dev where
  | noTextForm     -- Root/At after the first position, operand path not starting with them, union of < 2 members, NaN/Inf
  | regexText      -- regex constant whose source `AppendString(…,'/')` rewrites, or which contains `/`
deriving DecidableEq, Repr

def Dev.name : Dev → String
  | .noTextForm => "no-text-form" | .regexText => "regex-text"

/-- no byte sequence of `s` is decoded as RuneError with width 1 (`s` is valid UTF-8); no longer a
hypothesis of anything since c107b3b, kept for the examples -/
def validUtf8 : Nat → Bytes → Bool
  | 0, _ => true
  | _, [] => true
  | f+1, b :: r =>
    if (decodeRune (b :: r)).1 = runeError && (decodeRune (b :: r)).2 ≤ 1 then false
    else validUtf8 f (r.drop ((decodeRune (b :: r)).2 - 1))

def utf8Ok (s : Bytes) : Bool := validUtf8 s.length s

def Frag.isRootAt : Frag → Bool
  | .root => true
  | .at => true
  | _ => false

def devRootAtL : List Frag → Bool
  | [] => false
  | _ :: r => r.any Frag.isRootAt

def startsRootAt : List Frag → Bool
  | [] => false
  | f :: _ => f.isRootAt

/-- NaN/±Inf -/
def floatNoForm (t : Bytes) : Bool := t.any fun b => b = 78 || b = 73      -- N, I

def regexDev (src : Bytes) : Bool :=
  appendStrBody 47 src.length src != src ||
    (match readRegex (src.length + 2) (src ++ [47]) with
     | some (s, []) => s != src
     | _ => true)

def addIf (c : Bool) (d : Dev) (l : List Dev) : List Dev := if c then d :: l else l

mutual
  /-- deviations of a fragment by itself -/
  def Frag.devs : Frag → List Dev
    | .union ms => addIf (ms.length < 2) .noTextForm []
    | .filter t => Item.devsL t
    | _ => []
  def Frag.devsL : List Frag → List Dev
    | [] => []
    | f :: r => f.devs ++ Frag.devsL r
  def Item.devsL : List Item → List Dev
    | [] => []
    | .val v :: r => v.devs ++ Item.devsL r
    | .op _ :: r => Item.devsL r
  def Val.devs : Val → List Dev
    | .flt t => addIf (floatNoForm t) .noTextForm []
    | .regex s => addIf (regexDev s) .regexText []
    | .list vs => Val.devsL vs
    | .expr x => addIf (devRootAtL x || !startsRootAt x) .noTextForm (Frag.devsL x)
    | _ => []
  def Val.devsL : List Val → List Dev
    | [] => []
    | v :: r => v.devs ++ Val.devsL r
end

/-- the deviations that excuse `x.String()` / `x.BracketString()` from C14 (the same for both forms now) -/
def devsExpr (_br : Bool) (x : Expr) : List Dev := addIf (devRootAtL x) .noTextForm (Frag.devsL x)

/-- … `e.Filter().String()` -/
def devsFilter (e : Eqn) : List Dev := Item.devsL e.build

/-- … `e.Script().String()` -/
def devsScript (e : Eqn) : List Dev := Item.devsL e.script

/-- … `e.String()` -/
def devsEqn (e : Eqn) : List Dev := Item.devsL e.build

/-! ## constructible objects -/

def UMem.ok : UMem → Bool
  | .key _ => true
  | .idx i => inInt64 i

/-- the grammar of `strconv.FormatFloat(f, 'g', -1, 64)`: `-?d+(.d+)?(e[+-]dd+)?`, `NaN`, `+Inf`, `-Inf` -/
def floatTextOk (t : Bytes) : Bool :=
  t = [78, 97, 78] || t = [43, 73, 110, 102] || t = [45, 73, 110, 102] ||
  (match (takeDigits (if t.head? = some 45 then t.drop 1 else t)).1,
         (takeDigits (if t.head? = some 45 then t.drop 1 else t)).2 with
   | [], _ => false
   | _ :: _, [] => true
   | _ :: _, c :: r =>
     if c = 46 then
       (match (takeDigits r).1, (takeDigits r).2 with
        | [], _ => false
        | _ :: _, [] => true
        | _ :: _, e :: r2 =>
          e = 101 && (match r2 with
                      | s :: ds => (s = 43 || s = 45) && decide (2 ≤ ds.length) && ds.all isDigit
                      | [] => false))
     else
       c = 101 && (match r with
                   | s :: ds => (s = 43 || s = 45) && decide (2 ≤ ds.length) && ds.all isDigit
                   | [] => false))

mutual
  def Frag.ok : Frag → Bool
    | .nth i => inInt64 i
    | .union ms => ms.all UMem.ok
    | .slice ns => ns.all inInt64
    | .filter t => Item.okL t
    | .wild h => !h                       -- the constructors give `Wildcard('*')`
    | _ => true
  def Frag.okL : List Frag → Bool
    | [] => true
    | f :: r => f.ok && Frag.okL r
  def Item.okL : List Item → Bool
    | [] => true
    | .op _ :: r => Item.okL r
    | .val v :: r => v.ok && Item.okL r
  def Val.ok : Val → Bool
    | .int i => inInt64 i
    | .flt t => floatTextOk t
    | .list vs => Val.okL vs
    | .expr x => Frag.okL x
    | _ => true
  def Val.okL : List Val → Bool
    | [] => true
    | v :: r => v.ok && (match v with
                         | .expr _ => false
                         | .regex _ => false
                         | _ => true) && Val.okL r
end

/-- operators of the binary constructors `Eq … Regex`, `Match`, `Search` -/
def binOps : List Op :=
  [Gen.JpOps.op_eq, Gen.JpOps.op_neq, Gen.JpOps.op_lt, Gen.JpOps.op_gt, Gen.JpOps.op_lte, Gen.JpOps.op_gte,
   Gen.JpOps.op_or, Gen.JpOps.op_and, Gen.JpOps.op_add, Gen.JpOps.op_sub, Gen.JpOps.op_mult,
   Gen.JpOps.op_divide, Gen.JpOps.op_in, Gen.JpOps.op_empty, Gen.JpOps.op_has, Gen.JpOps.op_exists,
   Gen.JpOps.op_rx, Gen.JpOps.op_match, Gen.JpOps.op_search]

/-- an equation the public constructors of jp/equation.go build from non-nil arguments -/
def Eqn.ok : Eqn → Bool
  | .val v => v.ok && (match v with
                       | .expr _ => false     -- a path enters through `Get`
                       | _ => true)
  | .un o l =>
    if o = Gen.JpOps.op_not then l.ok
    else if o = Gen.JpOps.op_get || o = Gen.JpOps.op_length || o = Gen.JpOps.op_count then
      (match l with
       | .val (.expr x) => Frag.okL x
       | _ => false)
    else false
  | .bin o l r => binOps.contains o && l.ok && r.ok

end OjgVerif.JPText
