import OjgVerif.JPText.Trees
/-! C14: kernel evaluation of the model round trip over one part of the small-tree space. -/
namespace OjgVerif.JPText
open OjgVerif

def triplesATrees : List Shape := (Shape.uns unOps (sh2 unOps levelOps) ++ Shape.bins levelOps (sh1 unOps levelOps) (sh1 unOps levelOps))

set_option maxRecDepth 100000 in
theorem triplesA_exact : (triplesATrees.all fun s => devsExact s.eqn) = true := by decide +kernel

set_option maxRecDepth 100000 in
/-- every text form of every tree of this part round-trips -/
theorem triplesA_all : (triplesATrees.all fun s => roundTripsEqn s.eqn && roundTripsScript s.eqn && roundTripsFilter s.eqn) = true := by
  decide +kernel

end OjgVerif.JPText
