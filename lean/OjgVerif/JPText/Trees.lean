import OjgVerif.JPText.Spec
/-! # C14: the finite space of small equation trees

Every equation tree with at most three operator nodes (the "every ordered pair and triple of operators
in every nesting shape" of the property), as lists the kernel can run the printers, the parser and
the deviation predicates over. -/
namespace OjgVerif.JPText
open OjgVerif

inductive Shape where
  | leaf
  | un (o : Op) (s : Shape)
  | bin (o : Op) (l r : Shape)

def Shape.uns (us : List Op) (ss : List Shape) : List Shape := us.flatMap fun o => ss.map (.un o)
def Shape.bins (bs : List Op) (ls rs : List Shape) : List Shape :=
  bs.flatMap fun o => ls.flatMap fun l => rs.map fun r => .bin o l r

/-- trees with exactly 0, 1, 2 operator nodes over the unary operators `us` and the binary ones `bs` -/
def sh0 : List Shape := [.leaf]
def sh1 (us bs : List Op) : List Shape := Shape.uns us sh0 ++ Shape.bins bs sh0 sh0
def sh2 (us bs : List Op) : List Shape :=
  Shape.uns us (sh1 us bs) ++ Shape.bins bs sh0 (sh1 us bs) ++ Shape.bins bs (sh1 us bs) sh0

/-- leaves are the integer constants 1, 2, 3, … from left to right -/
def Shape.inst : Shape → Nat → Eqn × Nat
  | .leaf, n => (.val (.int (n + 1)), n + 1)
  | .un o s, n => (.un o (s.inst n).1, (s.inst n).2)
  | .bin o l r, n => (.bin o (l.inst n).1 (r.inst (l.inst n).2).1, (r.inst (l.inst n).2).2)

def Shape.eqn (s : Shape) : Eqn := (s.inst 0).1

/-- on this equation, each of the three text forms round-trips (in the model) exactly when Spec.lean
names no deviation for that form -/
def devsExact (e : Eqn) : Bool :=
  (devsEqn e).isEmpty == roundTripsEqn e && (devsScript e).isEmpty == roundTripsScript e &&
    (devsFilter e).isEmpty == roundTripsFilter e

/-- `Not` -/
def unOps : List Op := [Gen.JpOps.op_not]

/-- one binary constructor per precedence level, the two that do not commute at one level, a function -/
def levelOps : List Op :=
  [Gen.JpOps.op_mult, Gen.JpOps.op_add, Gen.JpOps.op_sub, Gen.JpOps.op_eq, Gen.JpOps.op_and, Gen.JpOps.op_match]

end OjgVerif.JPText
