import OjgVerif.JPText.LemmasPrec
import OjgVerif.JPText.LemmasReadEq
/-! # C14 lemmas: `Equation.String` is read back by `MustParseEquation`, for equations of ANY size

`Eqn.paren e` puts a `group` node wherever `Equation.Append` writes a parenthesis. Then, by induction on
`e` (no enumeration):

* `print_paren` — `Equation.Append` writes `Eqn.text` of that tree;
* `pd_paren`, `readable_paren` — the tree is properly parenthesised and its flattening is covered by the
  reader lemma `readEq_text` (LemmasReadEq), so with `precCorrect_chainify` (LemmasPrec)
  `parseEquation_text`: the text is parsed to the tree less its outermost parentheses
  (`reduceGroups_paren`: every other parenthesis the printer wrote is kept);
* `print_paren_self`, `normL_build_paren` — the result prints identically and has the same template up to
  `group` operators;
* `roundTripsEqn_okS` — C14 for `Equation.String`, all equations over `Not`, the 19 binary constructors and
  simple constants. -/
namespace OjgVerif.JPText
open OjgVerif

/-- the `group` nodes `Equation.Append` writes as parentheses -/
def Eqn.paren : Eqn → Eqn
  | .val v => .val v
  | .un o l => .un o (grp l.isInfix l.paren)
  | .bin o l r =>
    if isCall o then .bin o l.paren r.paren
    else .bin o (grp (leftParens o l) l.paren) (grp (rightParens o r) r.paren)

/-- equations in the form the reader builds them: `!`, the 19 binary operators, `length`/`count` of a path,
over constants in the reader's form (`Val.simple`: scalars, finite floats with `.`/exponent, regexes
`AppendString` leaves alone, flat lists, filter-free paths). The constructors' equations (`Eqn.okC`, with
`Get(path)` nodes, any float text, any slice/wildcard form in paths) are mapped into this class by
`Eqn.leafy` without changing any text or template (LemmasLeafy). -/
def Eqn.okS : Eqn → Bool
  | .val v => v.simple
  | .un o l => (o == Gen.JpOps.op_not && l.okS) || ((o == Gen.JpOps.op_length || o == Gen.JpOps.op_count) && l.isPathVal)
  | .bin o l r => binOps.contains o && (l.okS && r.okS)

theorem isPathVal_iff {l : Eqn} (h : l.isPathVal = true) : ∃ x, l = .val (.expr x) ∧ pathLeaf x = true := by
  cases l with
  | val v => cases v <;> simp [Eqn.isPathVal] at h; exact ⟨_, rfl, h⟩
  | un o l => simp [Eqn.isPathVal] at h
  | bin o l r => simp [Eqn.isPathVal] at h

/-- the two kinds of unary nodes of the class -/
theorem okS_un_cases {o : Op} {l : Eqn} (h : (Eqn.un o l).okS = true) :
    (o = Gen.JpOps.op_not ∧ l.okS = true) ∨
    ((o = Gen.JpOps.op_length ∨ o = Gen.JpOps.op_count) ∧ ∃ x, l = .val (.expr x) ∧ pathLeaf x = true) := by
  simp only [Eqn.okS, Bool.or_eq_true, Bool.and_eq_true, beq_iff_eq] at h
  rcases h with h | h
  · exact Or.inl h
  · exact Or.inr ⟨h.1, isPathVal_iff h.2⟩

theorem len_facts : ∀ o : Op, (o = Gen.JpOps.op_length ∨ o = Gen.JpOps.op_count) →
    isCode o Gen.JpOps.op_not = false ∧ isCode o Gen.JpOps.op_get = false ∧ isCode o Gen.JpOps.op_group = false ∧
    (isCode o Gen.JpOps.op_length || isCode o Gen.JpOps.op_count) = true ∧ o.prec = 0 ∧ noParensCode o = true ∧
    isCall o = false ∧ o.isInfix = false ∧ o.cnt = 1 := by
  intro o h
  rcases h with h | h <;> subst h <;> decide

/-- facts about the 19 binary constructors, from the regenerated table -/
theorem binOps_facts : (binOps.all fun o =>
    (o.isInfix == !(noParensCode o || isCode o Gen.JpOps.op_get)) &&
    (isCall o == (isCode o Gen.JpOps.op_match || isCode o Gen.JpOps.op_search)) &&
    (isCall o == !o.isInfix) && (isCall o == (o.prec == 0)) &&
    !isCode o Gen.JpOps.op_not && !isCode o Gen.JpOps.op_get && !isCode o Gen.JpOps.op_length &&
    !isCode o Gen.JpOps.op_count && !isCode o Gen.JpOps.op_group &&
    (isCall o == (o == Gen.JpOps.op_match || o == Gen.JpOps.op_search)) &&
    (noParensCode o == isCall o) && (lookupOp o.name == some o) && (o.cnt == 2)) = true := by
  decide +kernel

theorem binOps_fact {o : Op} (h : binOps.contains o = true) :
    (o.isInfix = !(noParensCode o || isCode o Gen.JpOps.op_get)) ∧
    (isCall o = (isCode o Gen.JpOps.op_match || isCode o Gen.JpOps.op_search)) ∧
    (isCall o = !o.isInfix) ∧ (isCall o = (o.prec == 0)) ∧
    isCode o Gen.JpOps.op_not = false ∧ isCode o Gen.JpOps.op_get = false ∧ isCode o Gen.JpOps.op_length = false ∧
    isCode o Gen.JpOps.op_count = false ∧ isCode o Gen.JpOps.op_group = false ∧
    (isCall o = (o == Gen.JpOps.op_match || o == Gen.JpOps.op_search)) ∧
    (noParensCode o = isCall o) ∧ lookupOp o.name = some o ∧ o.cnt = 2 := by
  have h1 := List.all_eq_true.1 binOps_facts o (by simpa using h)
  simp only [Bool.and_eq_true, beq_iff_eq, Bool.not_eq_true'] at h1
  obtain ⟨⟨⟨⟨⟨⟨⟨⟨⟨⟨⟨⟨a, b⟩, c⟩, d⟩, e⟩, f⟩, g⟩, h⟩, i⟩, j⟩, k⟩, l⟩, m⟩ := h1
  exact ⟨a, b, c, d, e, f, g, h, i, j, k, l, m⟩


theorem not_facts : isCode Gen.JpOps.op_not Gen.JpOps.op_group = false ∧ Gen.JpOps.op_not.prec = 0 ∧
    Gen.JpOps.op_group.prec = 0 ∧ isCode Gen.JpOps.op_group Gen.JpOps.op_group = true ∧
    isCode Gen.JpOps.op_not Gen.JpOps.op_not = true ∧ Gen.JpOps.op_not.name = [33] ∧
    isCode Gen.JpOps.op_not Gen.JpOps.op_length = false ∧ isCode Gen.JpOps.op_not Gen.JpOps.op_count = false ∧
    noParensCode Gen.JpOps.op_not = true ∧ noParensCode Gen.JpOps.op_group = true ∧
    isCode Gen.JpOps.op_group Gen.JpOps.op_not = false ∧ isCode Gen.JpOps.op_group Gen.JpOps.op_get = false ∧
    isCode Gen.JpOps.op_group Gen.JpOps.op_length = false ∧ isCode Gen.JpOps.op_group Gen.JpOps.op_count = false ∧
    isCode Gen.JpOps.op_group Gen.JpOps.op_match = false ∧ isCode Gen.JpOps.op_group Gen.JpOps.op_search = false := by
  decide

/-- `e.isInfix` for the constructors' equations -/
theorem isInfix_okS : ∀ e : Eqn, e.okS = true → e.isInfix = (match e with | .bin o _ _ => o.isInfix | _ => false) := by
  intro e h
  cases e with
  | val v => rfl
  | un o l =>
    rcases okS_un_cases h with h | ⟨h, _⟩
    · simp [Eqn.isInfix, Eqn.infixPrec?, h.1, not_facts]
    · simp [Eqn.isInfix, Eqn.infixPrec?, (len_facts o h).2.2.2.2.2.1]
  | bin o l r =>
    simp only [Eqn.okS, Bool.and_eq_true] at h
    have hb := binOps_fact h.1
    simp only [Eqn.isInfix, Eqn.infixPrec?, hb.1]
    cases noParensCode o || isCode o Gen.JpOps.op_get <;> rfl

theorem infixPrec_okS : ∀ e : Eqn, e.okS = true → e.infixPrec? = if e.isInfix then some (topPrec e.paren) else none := by
  intro e h
  cases e with
  | val v => rfl
  | un o l =>
    rcases okS_un_cases h with h | ⟨h, _⟩
    · simp [Eqn.isInfix, Eqn.infixPrec?, h.1, not_facts]
    · simp [Eqn.isInfix, Eqn.infixPrec?, (len_facts o h).2.2.2.2.2.1]
  | bin o l r =>
    simp only [Eqn.okS, Bool.and_eq_true] at h
    simp only [Eqn.isInfix, Eqn.infixPrec?]
    by_cases hq : (noParensCode o || isCode o Gen.JpOps.op_get) = true
    · simp [hq]
    · have : topPrec (Eqn.bin o l r).paren = o.prec := by
        simp only [Eqn.paren]; split <;> simp [topPrec, Eqn.op?]
      simp [hq, this]

theorem topPrec_paren_noninfix : ∀ e : Eqn, e.okS = true → e.isInfix = false → topPrec e.paren = 0 := by
  intro e h hi
  cases e with
  | val v => rfl
  | un o l =>
    rcases okS_un_cases h with h | ⟨h, _⟩
    · simp [Eqn.paren, topPrec, Eqn.op?, h.1, not_facts]
    · simp [Eqn.paren, topPrec, Eqn.op?, (len_facts o h).2.2.2.2.1]
  | bin o l r =>
    have hi2 : (Eqn.bin o l r).isInfix = o.isInfix := isInfix_okS _ h
    simp only [Eqn.okS, Bool.and_eq_true] at h
    have hb := binOps_fact h.1
    rw [hi] at hi2
    have hc : isCall o = true := by rw [hb.2.2.1, ← hi2]; rfl
    have hp : o.prec = 0 := by have := hb.2.2.2.1; rw [hc] at this; simpa using this.symm
    simp [Eqn.paren, hc, topPrec, Eqn.op?, hp]

theorem leftParens_eq (o : Op) (l : Eqn) (h : l.okS = true) :
    leftParens o l = (l.isInfix && decide (o.prec < topPrec l.paren)) := by
  simp only [leftParens, infixPrec_okS l h]
  cases l.isInfix <;> simp

theorem rightParens_eq (o : Op) (r : Eqn) (h : r.okS = true) :
    rightParens o r = (r.isInfix && decide (o.prec ≤ topPrec r.paren)) := by
  simp only [rightParens, infixPrec_okS r h]
  cases r.isInfix <;> simp

def Eqn.isVal : Eqn → Bool
  | .val _ => true
  | _ => false

theorem text_grp (p : Bool) (t : Eqn) : (grp p t).text = wrapParens p t.text := by
  cases p <;> simp [grp, wrapParens, Eqn.text, not_facts]

/-- **`Equation.Append` writes the text of the tree with its parentheses as `group` nodes** -/
theorem print_paren : ∀ (e : Eqn), e.okS = true → ∀ p : Bool,
    e.print p = some (grp (p && (e.isInfix || e.isVal)) e.paren).text := by
  intro e
  induction e with
  | val v =>
    intro h p
    simp only [Eqn.okS] at h
    cases p <;> simp [Eqn.print, Eqn.isVal, grp, wrapParens, Eqn.paren, Eqn.text, not_facts]
  | un o l ih =>
    intro h p
    have hi := isInfix_okS _ h
    rcases okS_un_cases h with ⟨ho, hl⟩ | ⟨ho, x, hx, _⟩
    · subst ho
      simp only at hi
      simp only [hi, Eqn.isVal, Bool.or_self, Bool.and_false, grp, Bool.false_eq_true, if_false, Eqn.paren, Eqn.text, not_facts, Eqn.print, if_true,
        ih hl, Option.map_some, Bool.not_true, wrapParens]
      cases l.isInfix <;> simp
    · subst hx
      have lf := len_facts o ho
      simp only at hi
      simp [Eqn.isVal, grp, Eqn.paren, Eqn.text, Eqn.print, lf.1, lf.2.1, lf.2.2.1, lf.2.2.2.1, lf.2.2.2.2.2.1,
        Eqn.resultOf, Eqn.isInfix, Eqn.infixPrec?, wrapParens]
  | bin o l r ihl ihr =>
    intro h p
    have hi := isInfix_okS _ h
    simp only [Eqn.okS, Bool.and_eq_true] at h
    obtain ⟨ho, hl, hr⟩ := h
    have hb := binOps_fact ho
    simp only at hi
    simp only [Eqn.isVal, Bool.or_false]
    simp only [Eqn.print, hb.2.2.2.2.1, hb.2.2.2.2.2.1, hb.2.2.2.2.2.2.1, hb.2.2.2.2.2.2.2.1, hb.2.2.2.2.2.2.2.2.1,
      Bool.false_eq_true, if_false, Bool.or_self, ← hb.2.1]
    cases hc : isCall o
    · have hinf : o.isInfix = true := by have := hb.2.2.1; rw [hc] at this; simpa using this.symm
      have hnp : noParensCode o = false := by rw [hb.2.2.2.2.2.2.2.2.2.2.1, hc]
      simp only [Bool.false_eq_true, if_false, ihl hl, ihr hr, hi, hinf, Bool.and_true, Option.map_some, hnp, Bool.not_false,
        Eqn.paren, hc, text_grp, Eqn.text]
      have e1 : (leftParens o l && (l.isInfix || l.isVal)) = leftParens o l := by rw [leftParens_eq o l hl]; cases l.isInfix <;> simp
      have e2 : (rightParens o r && (r.isInfix || r.isVal)) = rightParens o r := by rw [rightParens_eq o r hr]; cases r.isInfix <;> simp
      rw [e1, e2]
    · have hinf : o.isInfix = false := by have := hb.2.2.1; rw [hc] at this; simpa using this.symm
      have hnp : noParensCode o = true := by rw [hb.2.2.2.2.2.2.2.2.2.2.1, hc]
      simp only [if_true, ihl hl, ihr hr, Bool.false_and, grp, Bool.false_eq_true, if_false, Option.map_some, hnp, Bool.not_true,
        Bool.and_false, wrapParens, hi, hinf, Eqn.paren, hc, Eqn.text]

/-! ## the parenthesised tree is properly parenthesised, readable, and kept by `reduceGroups` -/

theorem pd_grp (p : Bool) (t : Eqn) (h : t.pd = true) : (grp p t).pd = true := by
  cases p <;> simp [grp, Eqn.pd, h, not_facts]

theorem topPrec_grp (p : Bool) (t : Eqn) : topPrec (grp p t) = if p then 0 else topPrec t := by
  cases p <;> simp [grp, topPrec, Eqn.op?, not_facts]

theorem topPrec_paren_infix (o : Op) (l r : Eqn) : topPrec (Eqn.bin o l r).paren = o.prec := by
  simp only [Eqn.paren]; split <;> simp [topPrec, Eqn.op?]

theorem pd_paren : ∀ e : Eqn, e.okS = true → e.paren.pd = true := by
  intro e
  induction e with
  | val v => intro _; rfl
  | un o l ih =>
    intro h
    rcases okS_un_cases h with h | ⟨ho, x, hx, _⟩
    · simp [Eqn.paren, Eqn.pd, h.1, not_facts, pd_grp _ _ (ih h.2)]
    · subst hx
      simp [Eqn.paren, Eqn.pd, (len_facts o ho).2.2.2.2.1, grp, Eqn.isInfix, Eqn.infixPrec?]
  | bin o l r ihl ihr =>
    intro h
    simp only [Eqn.okS, Bool.and_eq_true] at h
    obtain ⟨ho, hl, hr⟩ := h
    have hb := binOps_fact ho
    cases hc : isCall o
    · have hinf : o.isInfix = true := by have := hb.2.2.1; rw [hc] at this; simpa using this.symm
      simp only [Eqn.paren, hc, Bool.false_eq_true, if_false]
      refine (pd_infix hinf).2 ⟨?_, ?_, pd_grp _ _ (ihl hl), pd_grp _ _ (ihr hr)⟩
      · rw [topPrec_grp, leftParens_eq o l hl]
        cases hli : l.isInfix
        · simp [topPrec_paren_noninfix l hl hli]
        · by_cases hlt : o.prec < topPrec l.paren <;> simp [hlt]; omega
      · have h1 := ((isInfix_iff o).1 hinf).1
        rw [topPrec_grp, rightParens_eq o r hr]
        cases hri : r.isInfix
        · simp [topPrec_paren_noninfix r hr hri]; omega
        · by_cases hlt : o.prec ≤ topPrec r.paren <;> simp [hlt] <;> omega
    · have hp : o.prec = 0 := by have := hb.2.2.2.1; rw [hc] at this; simpa using this.symm
      simp [Eqn.paren, hc, Eqn.pd, hp, ihl hl, ihr hr]

/-! ### `text` of the flattening -/

theorem text_appendChain : ∀ (c : Eqn) (o : Op) (d : Eqn), isCall o = false →
    (appendChain c o d).text = c.text ++ 32 :: (o.name ++ 32 :: d.text) := by
  intro c
  induction c with
  | val v => intro o d ho; simp [appendChain, Eqn.text, ho]
  | un co cl _ => intro o d ho; simp [appendChain, Eqn.text, ho]
  | bin co cl cr _ ihr =>
    intro o d ho
    simp only [appendChain]
    split
    · rename_i hco
      have := ((isInfix_iff co).1 hco).2
      simp [Eqn.text, this, ihr o d ho]
    · simp [Eqn.text, ho]

theorem text_chainify : ∀ g : Eqn, (chainify g).text = g.text := by
  intro g
  induction g with
  | val v => rfl
  | un o l ih => simp [chainify, Eqn.text, ih]
  | bin o l r ihl ihr =>
    simp only [chainify]
    split
    · rename_i ho
      have := ((isInfix_iff o).1 ho).2
      rw [text_appendChain _ _ _ this, ihl, ihr]; simp [Eqn.text, this]
    · rename_i ho
      have hc : isCall o = true ∨ o.prec = 0 := by
        simp only [Op.isInfix, Bool.and_eq_true, decide_eq_true_eq, Bool.not_eq_true', not_and, Bool.not_eq_false] at ho
        by_cases h1 : 1 ≤ o.prec
        · exact Or.inl (ho h1)
        · exact Or.inr (by omega)
      simp [Eqn.text, ihl, ihr]

/-! ### the flattening is what the reader lemma covers -/

/-- trees (with `group` nodes) whose text the reader lemma covers -/
def Eqn.readable : Eqn → Bool
  | .val v => v.simple
  | .un o l => (o == Gen.JpOps.op_not && (l.isAtom && l.readable)) || (o == Gen.JpOps.op_group && l.readable) ||
      ((o == Gen.JpOps.op_length || o == Gen.JpOps.op_count) && l.isPathVal)
  | .bin o l r => binOps.contains o && (l.readable && r.readable)

theorem isAtom_chainify (g : Eqn) (h : g.isAtom = true) : (chainify g).isAtom = true := by
  cases g with
  | val v => rfl
  | un o l => rfl
  | bin o l r =>
    have : o.isInfix = false := by simpa [Eqn.isAtom] using h
    simp [chainify, this, Eqn.isAtom]

theorem raw_appendChain : ∀ (c : Eqn) (o : Op) (d : Eqn), binOps.contains o = true → o.isInfix = true →
    c.raw = true → d.raw = true → (appendChain c o d).raw = true := by
  intro c
  induction c with
  | val v => intro o d ho hi hc hd; simp only [appendChain, Eqn.raw, ho, hi, hd, Eqn.isAtom, if_true,
      Bool.true_and, Bool.and_true]; exact hc
  | un co cl _ => intro o d ho hi hc hd; simp only [appendChain, Eqn.raw, ho, hi, hd, Eqn.isAtom, if_true,
      Bool.true_and, Bool.and_true]; exact hc
  | bin co cl cr _ ihr =>
    intro o d ho hi hc hd
    simp only [appendChain]
    split
    · rename_i hco
      simp only [Eqn.raw, hco, if_true, Bool.and_eq_true] at hc ⊢
      exact ⟨hc.1, hc.2.1, hc.2.2.1, ihr o d ho hi hc.2.2.2 hd⟩
    · rename_i hco
      simp only [Eqn.raw, ho, hi, hd, Eqn.isAtom, hco, if_true, Bool.true_and, Bool.and_true]
      first | exact hc | simpa [Eqn.raw, hco] using hc

theorem raw_chainify : ∀ g : Eqn, g.readable = true → (chainify g).raw = true := by
  intro g
  induction g with
  | val v => intro h; exact h
  | un o l ih =>
    intro h
    simp only [Eqn.readable, Bool.or_eq_true, Bool.and_eq_true, beq_iff_eq] at h
    simp only [chainify, Eqn.raw, Bool.or_eq_true, Bool.and_eq_true, beq_iff_eq]
    rcases h with (h | h) | h
    · exact Or.inl (Or.inl ⟨h.1, isAtom_chainify l h.2.1, ih h.2.2⟩)
    · exact Or.inl (Or.inr ⟨h.1, ih h.2⟩)
    · obtain ⟨x, hx, hp⟩ := isPathVal_iff h.2
      subst hx
      exact Or.inr ⟨h.1, by simpa [chainify, Eqn.isPathVal] using hp⟩
  | bin o l r ihl ihr =>
    intro h
    simp only [Eqn.readable, Bool.and_eq_true] at h
    have hb := binOps_fact h.1
    simp only [chainify]
    split
    · rename_i hi
      exact raw_appendChain _ o _ h.1 hi (ihl h.2.1) (ihr h.2.2)
    · rename_i hi
      have hc : isCall o = true := by rw [hb.2.2.1]; simpa using hi
      have := hb.2.2.2.2.2.2.2.2.2.1
      rw [hc] at this
      simp only [Eqn.raw, hi, Bool.false_eq_true, if_false, ← this, ihl h.2.1, ihr h.2.2, Bool.and_self]

theorem isAtom_paren (e : Eqn) (h : e.okS = true) (hi : e.isInfix = false) : e.paren.isAtom = true := by
  cases e with
  | val v => rfl
  | un o l => rfl
  | bin o l r =>
    have hi2 : (Eqn.bin o l r).isInfix = o.isInfix := isInfix_okS _ h
    rw [hi] at hi2
    simp only [Eqn.paren]
    split <;> simp [Eqn.isAtom, ← hi2]

theorem readable_grp (p : Bool) (t : Eqn) (h : t.readable = true) : (grp p t).readable = true := by
  cases p <;> simp [grp, Eqn.readable, h]

theorem readable_paren : ∀ e : Eqn, e.okS = true → e.paren.readable = true := by
  intro e
  induction e with
  | val v => intro h; exact h
  | un o l ih =>
    intro h
    rcases okS_un_cases h with h | ⟨ho, x, hx, hp⟩
    · simp only [Eqn.paren, Eqn.readable, h.1, beq_self_eq_true, Bool.true_and, readable_grp _ _ (ih h.2), Bool.and_true,
        Bool.or_eq_true]
      left; left
      cases hi : l.isInfix
      · simpa [grp] using isAtom_paren l h.2 hi
      · simp [grp, Eqn.isAtom]
    · subst hx
      simp only [Eqn.paren, Eqn.readable, Bool.or_eq_true, Bool.and_eq_true, beq_iff_eq]
      right
      exact ⟨ho, by simpa [grp, Eqn.isInfix, Eqn.infixPrec?, Eqn.paren, Eqn.isPathVal] using hp⟩
  | bin o l r ihl ihr =>
    intro h
    simp only [Eqn.okS, Bool.and_eq_true] at h
    simp only [Eqn.paren]
    split <;> simp only [Eqn.readable, h.1, ihl h.2.1, ihr h.2.2, readable_grp, Bool.and_self]

/-! ### `reduceGroups` keeps every parenthesis the printer wrote (but the outermost) -/

theorem op_paren (e : Eqn) : e.paren.op? = e.op? := by
  cases e with
  | val v => rfl
  | un o l => rfl
  | bin o l r => simp only [Eqn.paren]; split <;> rfl

theorem reduceGroups_grp (p : Bool) (X : Eqn) (par : Op) (h1 : ∀ po, reduceGroups X po = X)
    (h2 : p = true → par.prec ≤ topPrec X) : reduceGroups (grp p X) (some par) = grp p X := by
  cases p with
  | false => exact h1 _
  | true =>
    have h3 := h2 rfl
    simp only [grp, if_true, reduceGroups, dropGroup, not_facts, Bool.true_and]
    cases hop : X.op? with
    | none => simp [h1]
    | some lo =>
      simp only [topPrec, hop] at h3
      have : ¬ lo.prec < par.prec := by omega
      simp [this, h1]

theorem reduceGroups_paren : ∀ e : Eqn, e.okS = true → ∀ po, reduceGroups e.paren po = e.paren := by
  intro e
  induction e with
  | val v => intro _ po; rfl
  | un o l ih =>
    intro h po
    rcases okS_un_cases h with ⟨ho, hl⟩ | ⟨ho, x, hx, _⟩
    · subst ho
      simp only [Eqn.paren, reduceGroups, dropGroup, not_facts, Bool.false_and, Bool.false_eq_true, if_false]
      rw [reduceGroups_grp _ _ _ (ih hl) (by intro _; simp [not_facts])]
    · subst hx
      simp [Eqn.paren, reduceGroups, dropGroup, (len_facts o ho).2.2.1, grp, Eqn.isInfix, Eqn.infixPrec?]
  | bin o l r ihl ihr =>
    intro h po
    simp only [Eqn.okS, Bool.and_eq_true] at h
    obtain ⟨ho, hl, hr⟩ := h
    have hb := binOps_fact ho
    simp only [Eqn.paren]
    split
    · simp only [reduceGroups, dropGroup, hb.2.2.2.2.2.2.2.2.1, Bool.false_and, Bool.false_eq_true, if_false, ihl hl, ihr hr]
    · simp only [reduceGroups, dropGroup, hb.2.2.2.2.2.2.2.2.1, Bool.false_and, Bool.false_eq_true, if_false]
      rw [reduceGroups_grp _ _ _ (ihl hl) (by
            intro hp; rw [leftParens_eq o l hl] at hp
            simp only [Bool.and_eq_true, decide_eq_true_eq] at hp; omega),
          reduceGroups_grp _ _ _ (ihr hr) (by
            intro hp; rw [rightParens_eq o r hr] at hp
            simp only [Bool.and_eq_true, decide_eq_true_eq] at hp; omega)]

/-! ### the re-parsed equation prints identically -/

theorem infixPrec_paren (e : Eqn) : e.paren.infixPrec? = e.infixPrec? := by
  cases e with
  | val v => rfl
  | un o l => rfl
  | bin o l r => simp only [Eqn.paren]; split <;> rfl

theorem isInfix_paren (e : Eqn) : e.paren.isInfix = e.isInfix := by simp [Eqn.isInfix, infixPrec_paren]

theorem print_group (X : Eqn) : (Eqn.un Gen.JpOps.op_group X).print false = X.print X.isInfix := by
  simp only [Eqn.print, not_facts, Bool.false_eq_true, if_false, if_true, Bool.false_and]
  cases X.print X.isInfix <;> rfl

theorem leftParens_group (o : Op) (X : Eqn) : leftParens o (.un Gen.JpOps.op_group X) = false := by
  simp [leftParens, Eqn.infixPrec?, not_facts]
theorem rightParens_group (o : Op) (X : Eqn) : rightParens o (.un Gen.JpOps.op_group X) = false := by
  simp [rightParens, Eqn.infixPrec?, not_facts]

/-- printing a `grp` operand at the flag the printer computes for it gives what the original operand gave -/
theorem print_grp (q : Bool) (l : Eqn) (hq : q = true → l.isInfix = true) (ih : ∀ p, l.paren.print p = l.print p)
    (flag : Bool) (hflag : flag = if q then false else q) :
    (grp q l.paren).print flag = l.print q := by
  cases q with
  | false => subst hflag; simp [grp, ih]
  | true => subst hflag; simp only [grp, if_true, print_group, isInfix_paren, ih, hq rfl]

theorem paren_path (o : Op) (v : Val) : (Eqn.un o (.val v)).paren = .un o (.val v) := by
  simp [Eqn.paren, grp, Eqn.isInfix, Eqn.infixPrec?]

theorem print_paren_self : ∀ e : Eqn, e.okS = true → ∀ p, e.paren.print p = e.print p := by
  intro e
  induction e with
  | val v => intro _ p; rfl
  | un o l ih =>
    intro h p
    rcases (okS_un_cases h).symm with ⟨ho, x, hx, _⟩ | ⟨ho, hl⟩
    · subst hx; rw [paren_path]
    subst ho
    simp only [Eqn.paren, Eqn.print, not_facts, if_true]
    have : (grp l.isInfix l.paren).isInfix = false ∨ l.isInfix = false := by
      cases hi : l.isInfix
      · exact Or.inr rfl
      · left; simp [grp, Eqn.isInfix, Eqn.infixPrec?, not_facts]
    have hflag : (grp l.isInfix l.paren).isInfix = if l.isInfix then false else l.isInfix := by
      cases hi : l.isInfix
      · simp [grp, isInfix_paren, hi]
      · simp [grp, Eqn.isInfix, Eqn.infixPrec?, not_facts]
    rw [print_grp l.isInfix l (fun h => h) (ih hl) _ hflag]
  | bin o l r ihl ihr =>
    intro h p
    simp only [Eqn.okS, Bool.and_eq_true] at h
    obtain ⟨ho, hl, hr⟩ := h
    have hb := binOps_fact ho
    simp only [Eqn.paren]
    split
    · rename_i hc
      simp only [Eqn.print, ihl hl, ihr hr, hb.2.2.2.2.1, hb.2.2.2.2.2.1, hb.2.2.2.2.2.2.1, hb.2.2.2.2.2.2.2.1,
        hb.2.2.2.2.2.2.2.2.1, Bool.false_eq_true, if_false, Bool.or_self, ← hb.2.1, hc, if_true]
    · rename_i hc
      have hL : (grp (leftParens o l) l.paren).print (leftParens o (grp (leftParens o l) l.paren)) = l.print (leftParens o l) := by
        apply print_grp _ l _ (ihl hl)
        · cases hq : leftParens o l
          · simp [grp, leftParens, infixPrec_paren] at hq ⊢; simpa [leftParens] using hq
          · simp [grp, leftParens_group]
        · intro hq; rw [leftParens_eq o l hl] at hq; simp only [Bool.and_eq_true] at hq; exact hq.1
      have hR : (grp (rightParens o r) r.paren).print (rightParens o (grp (rightParens o r) r.paren)) = r.print (rightParens o r) := by
        apply print_grp _ r _ (ihr hr)
        · cases hq : rightParens o r
          · simp [grp, rightParens, infixPrec_paren] at hq ⊢; simpa [rightParens] using hq
          · simp [grp, rightParens_group]
        · intro hq; rw [rightParens_eq o r hr] at hq; simp only [Bool.and_eq_true] at hq; exact hq.1
      simp only [Eqn.print, hL, hR, hb.2.2.2.2.1, hb.2.2.2.2.2.1, hb.2.2.2.2.2.2.1, hb.2.2.2.2.2.2.2.1,
        hb.2.2.2.2.2.2.2.2.1, Bool.false_eq_true, if_false, Bool.or_self, ← hb.2.1, hc]

/-! ### … and has the same template up to `group` operators -/

theorem normL_append : ∀ a b : List Item, Item.normL (a ++ b) = Item.normL a ++ Item.normL b := by
  intro a
  induction a with
  | nil => intro b; simp [Item.normL]
  | cons x a ih =>
    intro b
    cases x with
    | op o => simp only [List.cons_append, Item.normL, ih]; split <;> simp
    | val v => simp [Item.normL, ih]

theorem normL_build_grp (p : Bool) (X : Eqn) : Item.normL (grp p X).build = Item.normL X.build := by
  cases p <;> simp [grp, Eqn.build, not_facts, Item.normL]

theorem normL_build_paren : ∀ e : Eqn, e.okS = true → Item.normL e.paren.build = Item.normL e.build := by
  intro e
  induction e with
  | val v => intro _; rfl
  | un o l ih =>
    intro h
    rcases (okS_un_cases h).symm with ⟨ho, x, hx, _⟩ | ⟨ho, hl⟩
    · subst hx; rw [paren_path]
    subst ho
    have : isCode Gen.JpOps.op_not Gen.JpOps.op_get = false := by decide
    simp [Eqn.paren, Eqn.build, this, not_facts, Item.normL, normL_build_grp, ih hl]
  | bin o l r ihl ihr =>
    intro h
    simp only [Eqn.okS, Bool.and_eq_true] at h
    obtain ⟨ho, hl, hr⟩ := h
    have hb := binOps_fact ho
    simp only [Eqn.paren]
    split <;>
      simp [Eqn.build, hb.2.2.2.2.1, hb.2.2.2.2.2.1, hb.2.2.2.2.2.2.1, hb.2.2.2.2.2.2.2.1, hb.2.2.2.2.2.2.2.2.1, Item.normL,
        normL_append, normL_build_grp, ihl hl, ihr hr]

/-! ## `Equation.String` read by `MustParseEquation`, any size -/

theorem eqFollow_nil : eqFollow [] = true := by decide

/-- a tree (with `group` nodes) that is readable and properly parenthesised: its text is parsed to
itself less the outermost parentheses -/
theorem parseEquation_text (G : Eqn) (hr : G.readable = true) (hp : G.pd = true) :
    parseEquation G.text = some (reduceGroups G none) := by
  have h1 := readEq_text_len (chainify G) (raw_chainify G hr) [] eqFollow_nil
  rw [text_chainify] at h1
  simp only [List.append_nil] at h1
  simp only [parseEquation, h1, precCorrect_chainify G hp]

theorem parseEquation_print (e : Eqn) (h : e.okS = true) :
    ∃ s, eqnString e = some s ∧ parseEquation s = some e.paren := by
  refine ⟨_, print_paren e h true, ?_⟩
  rw [parseEquation_text _ (readable_grp _ _ (readable_paren e h)) (pd_grp _ _ (pd_paren e h))]
  cases (true && (e.isInfix || e.isVal))
  · simp [grp, reduceGroups_paren e h]
  · simp only [grp, if_true, reduceGroups, dropGroup, not_facts, Bool.true_and, if_true, reduceGroups_paren e h]

theorem sameTemplate_of_normL {s t : List Item} (h : Item.normL s = Item.normL t) : sameTemplate s t = true := by
  simp [sameTemplate, h]

theorem roundTripsEqn_okS (e : Eqn) (h : e.okS = true) : roundTripsEqn e = true := by
  obtain ⟨s, h1, h2⟩ := parseEquation_print e h
  have h3 : eqnString e.paren = some s := by rw [← h1]; exact print_paren_self e h true
  simp only [roundTripsEqn, h1, h2, h3, beq_self_eq_true, Bool.true_and]
  exact sameTemplate_of_normL (normL_build_paren e h)
end OjgVerif.JPText
