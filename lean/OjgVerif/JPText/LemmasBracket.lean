import OjgVerif.JPText.Bracket
import OjgVerif.JPText.LemmasExpr
/-! # C14 lemmas: expressions with `Bracket` flag fragments

* `bexprPrint_true` — `BracketString()` does not see the flags (all expressions, by induction);
* `roundTripsBExpr_true` — hence C14 for `BracketString()` of every filter-free constructible expression
  with flags anywhere;
* `bracketBox_exact` — for `String()`: every sequence of at most four fragments over Root, At, a token-like
  and a quoted child, an index, a wildcard, a descent, a union, a slice and the flag (the flag at every
  position: first, middle, directly after a descent, last, repeated): the round trip holds exactly when no
  deviation is named (`devsExpr` of the flag-free expression, `bracketReprint`). Kernel evaluation. -/
namespace OjgVerif.JPText
open OjgVerif

theorem print_true_first (f : Frag) (a b : Bool) : f.print true a = f.print true b := by
  cases f <;> simp [Frag.print, childPrint]

theorem printL_true_first : ∀ (x : List Frag) (a b aD : Bool), Frag.printL true a aD x = Frag.printL true b aD x := by
  intro x a b aD
  cases x with
  | nil => rfl
  | cons f r => simp only [Frag.printL]; rw [print_true_first f (a || aD) (b || aD)]

/-- in bracket notation the flags change nothing -/
theorem bprintL_true : ∀ (x : BExpr) (first aD : Bool), bprintL true first aD x = Frag.printL true first aD (stripB x) := by
  intro x
  induction x with
  | nil => intro first aD; simp [bprintL, stripB, Frag.printL]
  | cons f r ih =>
    intro first aD
    cases f with
    | none => simp only [bprintL, stripB, ih]; exact printL_true_first _ _ _ _
    | some f => simp [bprintL, stripB, Frag.printL, ih]

theorem bexprPrint_true (x : BExpr) : bexprPrint true x = exprPrint true (stripB x) := bprintL_true x true false

theorem roundTripsBExpr_true (x : BExpr) : roundTripsBExpr true x = roundTripsExpr true (stripB x) := by
  unfold roundTripsBExpr roundTripsExpr
  rw [bexprPrint_true]
  cases parseExpr (exprPrint true (stripB x)) <;> rfl

theorem printL_stripBH_true : ∀ (x : BExpr) (first aD : Bool),
    Frag.printL true first aD (stripBH true x) = Frag.printL true first aD (stripB x) := by
  intro x
  induction x with
  | nil => intro first aD; rfl
  | cons f r ih =>
    intro first aD
    cases f with
    | none => exact ih first aD
    | some f => cases f <;> simp [stripBH, stripB, Frag.printL, Frag.print, Frag.isDescent, ih]

theorem bracketReprint_true (x : BExpr) : bracketReprint true x = false := by
  simp [bracketReprint, bexprPrint_true, exprPrint, printL_stripBH_true]

/-! ## `String()`: the small box -/

def boxAlphabet : List (Option Frag) :=
  [some .root, some .at, some (.child [97]), some (.child [97, 32, 98]), some (.nth 0), some (.wild false),
   some .descent, some (.union [.key [97], .idx 1]), some (.slice [0, 2]), none]

def boxSeqs : Nat → List BExpr
  | 0 => [[]]
  | n+1 => boxAlphabet.flatMap fun a => (boxSeqs n).map fun r => a :: r

/-- the round trip of `String()` holds exactly when no deviation is named -/
def bexact (x : BExpr) : Bool :=
  roundTripsBExpr false x == ((devsExpr false (stripB x)).isEmpty && !bracketReprint false x)

set_option maxRecDepth 100000 in
theorem bracketBox_exact3 : ((boxSeqs 1 ++ boxSeqs 2 ++ boxSeqs 3).all bexact) = true := by decide +kernel

/-- four fragments, the flag among them (at least once) -/
def boxSeqs4 : List BExpr := (boxSeqs 4).filter fun x => x.any Option.isNone

set_option maxRecDepth 100000 in
theorem bracketBox_exact4 : (boxSeqs4.all bexact) = true := by decide +kernel

/-- `R().D().B().C("a b")` — the expression of the seeded change C14-m7: the descent is written as one dot
before the flag, the second dot is still written after it -/
theorem descent_flag_text :
    bexprPrint false [some .root, some .descent, none, some (.child [97, 32, 98])] =
      [36, 46, 46, 91, 39, 97, 32, 98, 39, 93] ∧
    roundTripsBExpr false [some .root, some .descent, none, some (.child [97, 32, 98])] = true := by
  decide +kernel

end OjgVerif.JPText
