import OjgVerif.JPText.Trees
/-! C14: kernel evaluation of the model round trip over one part of the small-tree space. -/
namespace OjgVerif.JPText
open OjgVerif

def pairsBTrees : List Shape := (Shape.bins binOps (sh1 unOps binOps) sh0)

set_option maxRecDepth 100000 in
theorem pairsB_exact : (pairsBTrees.all fun s => devsExact s.eqn) = true := by decide +kernel

set_option maxRecDepth 100000 in
/-- every text form of every tree of this part round-trips -/
theorem pairsB_all : (pairsBTrees.all fun s => roundTripsEqn s.eqn && roundTripsScript s.eqn && roundTripsFilter s.eqn) = true := by
  decide +kernel

end OjgVerif.JPText
