import OjgVerif.JPText.Trees
/-! C14: kernel evaluation of the model round trip over one part of the small-tree space. -/
namespace OjgVerif.JPText
open OjgVerif

def pairsBTrees : List Shape := (Shape.bins binOps (sh1 unOps binOps) sh0)

set_option maxRecDepth 100000 in
theorem pairsB_exact : (pairsBTrees.all fun s => devsExact s.eqn) = true := by decide +kernel

end OjgVerif.JPText
