import OjgVerif.JPText.LemmasEqn
import OjgVerif.JPText.LemmasScript
/-! # C14 lemmas: from the constructors' equations to the reader's form

The general theorems of LemmasEqn / LemmasScript are about equations in the form the READER builds them
(`Eqn.okS`). An equation built with the public constructors (`Eqn.okC`) differs from that form in ways no
printer and no evaluator sees: `Get(path)` is a node of its own (the parser has the bare path), a float
constant is carried as its `FormatFloat` text (`2`; written and read back as `2.0`), a path may hold
`Slice{}`/`Slice{a}`/`Slice{a,b,c,d}`. `Eqn.leafy` maps the one to the other; `print_leafy`, `build_leafy`,
`script_leafy`: same texts, same templates up to the normal form of the constants; `okS_leafy`: the result is
in the reader's class. Hence `roundTrips*_okC`. -/
namespace OjgVerif.JPText
open OjgVerif

/-! ## constants: the constructors' form and the form the reader builds -/

def Val.imgS : Val → Val
  | .flt t => .flt (floatPrint t)
  | v => v

/-- what the reader builds for the text of a constant: a float keeps its text as written (`2` is written
`2.0`), a path gets the parser's fragment forms -/
def Val.imgV : Val → Val
  | .list vs => .list (vs.map Val.imgS)
  | .expr x => .expr (imgL false x)
  | v => v.imgS

def Val.scalarC : Val → Bool
  | .int i => inInt64 i
  | .bool _ => true
  | .null => true
  | .nothing => true
  | .str _ => true
  | .flt t => floatTextOk t && !floatNoForm t
  | _ => false

/-- constructible constants covered: scalars (floats: the `FormatFloat` grammar `floatTextOk`, finite), regexes whose source `AppendString` leaves
alone, flat lists of scalars -/
def Val.okC : Val → Bool
  | .list vs => vs.all Val.scalarC
  | .regex s => !regexDev s
  | .expr _ => false
  | v => v.scalarC

/-- a constant or a path operand -/
def Val.okLeaf : Val → Bool
  | .expr x => cleanPath x
  | v => v.okC

def Item.imgI : Item → Item
  | .op o => .op o
  | .val v => .val v.imgV

def Item.okI : Item → Bool
  | .op _ => true
  | .val v => v.okLeaf

theorem floatPrint_idem (t : Bytes) : floatPrint (floatPrint t) = floatPrint t := by
  unfold floatPrint
  by_cases h : (t.any fun b => b = 46 || b = 101 || b = 78 || b = 73) = true
  · simp [h]
  · simp only [h, Bool.false_eq_true, if_false]
    have : ((t ++ [46, 48]).any fun b => b = 46 || b = 101 || b = 78 || b = 73) = true := by simp
    simp [this]

theorem print_imgS (v : Val) : v.imgS.print = v.print := by
  cases v <;> simp [Val.imgS, Val.print, floatPrint_idem]

theorem printL_imgS : ∀ vs : List Val, Val.printL (vs.map Val.imgS) = Val.printL vs := by
  intro vs
  induction vs with
  | nil => rfl
  | cons v r ih =>
    cases r with
    | nil => simp [Val.printL, print_imgS]
    | cons w r => simp only [List.map_cons, Val.printL, print_imgS] at ih ⊢; rw [ih]

theorem cleanExpr_of_cleanPath {x : List Frag} (h : cleanPath x = true) : cleanExpr x = true := by
  cases x with
  | nil => simp [cleanPath] at h
  | cons f r =>
    simp only [cleanPath, Bool.and_eq_true] at h
    simp [cleanExpr, h.1, h.2]

/-- the reader's form of a constant is written like the constant -/
theorem print_imgV (v : Val) (h : v.okLeaf = true) : v.imgV.print = v.print := by
  cases v with
  | list vs => simp [Val.imgV, Val.print, printL_imgS]
  | expr x =>
    have := exprPrint_imgL false x (cleanExpr_of_cleanPath h)
    simpa [Val.imgV, Val.print, exprPrint] using this
  | flt t => simp [Val.imgV, Val.imgS, Val.print, floatPrint_idem]
  | _ => rfl

theorem norm_imgS (v : Val) : v.imgS.norm = v.norm := by
  cases v <;> simp [Val.imgS, Val.norm, floatPrint_idem]

theorem normL_imgS : ∀ vs : List Val, Val.normL (vs.map Val.imgS) = Val.normL vs := by
  intro vs
  induction vs with
  | nil => rfl
  | cons v r ih => simp [Val.normL, norm_imgS, ih]

/-- … and is the same constant up to the normal form -/
theorem norm_imgV (v : Val) : v.imgV.norm = v.norm := by
  cases v with
  | list vs => simp [Val.imgV, Val.norm, normL_imgS]
  | expr x => simp [Val.imgV, Val.norm, imgL_normL]
  | flt t => simp [Val.imgV, Val.imgS, Val.norm, floatPrint_idem]
  | _ => rfl

theorem normL_imgI : ∀ t : List Item, Item.normL (t.map Item.imgI) = Item.normL t := by
  intro t
  induction t with
  | nil => rfl
  | cons x r ih =>
    cases x with
    | op o => simp only [List.map_cons, Item.imgI, Item.normL, ih]
    | val v => simp [Item.imgI, Item.normL, norm_imgV, ih]

theorem run_imgI : ∀ t : List Item, t.all Item.okI = true → Item.run (t.map Item.imgI) = Item.run t := by
  intro t
  induction t with
  | nil => intro _; rfl
  | cons x r ih =>
    intro h
    simp only [List.all_cons, Bool.and_eq_true] at h
    cases x with
    | op o => simp only [List.map_cons, Item.imgI, Item.run, ih h.2]
    | val v => simp [Item.imgI, Item.run, ih h.2, print_imgV v h.1]

theorem scriptPrint_imgI (t : List Item) (h : t.all Item.okI = true) : scriptPrint (t.map Item.imgI) = scriptPrint t := by
  simp [scriptPrint, run_imgI t h]

theorem sameTemplate_imgI (s t : List Item) : sameTemplate s (t.map Item.imgI) = sameTemplate s t := by
  simp [sameTemplate, normL_imgI]


/-! ## the constructors' equations and their reader's form -/

def Eqn.isCleanPath : Eqn → Bool
  | .val (.expr x) => cleanPath x
  | _ => false

/-- equations of the public constructors covered by the general theorems: `Not`, the 19 binary constructors,
`Get`/`Length`/`Count` of a filter-free path that starts with Root or At, over the constants of `Val.okC` -/
def Eqn.okC : Eqn → Bool
  | .val v => v.okC
  | .un o l => (o == Gen.JpOps.op_not && l.okC) ||
      ((o == Gen.JpOps.op_get || o == Gen.JpOps.op_length || o == Gen.JpOps.op_count) && l.isCleanPath)
  | .bin o l r => binOps.contains o && (l.okC && r.okC)

/-- the equation in the reader's form: `Get(path)` is the path, constants in the reader's form -/
def Eqn.leafy : Eqn → Eqn
  | .val v => .val v.imgV
  | .un o l =>
    if o == Gen.JpOps.op_get then .val l.resultOf.imgV
    else if o == Gen.JpOps.op_length || o == Gen.JpOps.op_count then .un o (.val l.resultOf.imgV)
    else .un o l.leafy
  | .bin o l r => .bin o l.leafy r.leafy

theorem isCleanPath_iff {l : Eqn} (h : l.isCleanPath = true) : ∃ x, l = .val (.expr x) ∧ cleanPath x = true := by
  cases l with
  | val v => cases v <;> simp [Eqn.isCleanPath] at h; exact ⟨_, rfl, h⟩
  | un o l => simp [Eqn.isCleanPath] at h
  | bin o l r => simp [Eqn.isCleanPath] at h

theorem okC_un_cases {o : Op} {l : Eqn} (h : (Eqn.un o l).okC = true) :
    (o = Gen.JpOps.op_not ∧ l.okC = true) ∨
    ((o = Gen.JpOps.op_get ∨ o = Gen.JpOps.op_length ∨ o = Gen.JpOps.op_count) ∧
      ∃ x, l = .val (.expr x) ∧ cleanPath x = true) := by
  simp only [Eqn.okC, Bool.or_eq_true, Bool.and_eq_true, beq_iff_eq] at h
  rcases h with h | h
  · exact Or.inl h
  · refine Or.inr ⟨?_, isCleanPath_iff h.2⟩
    rcases h.1 with (h1 | h1) | h1
    · exact Or.inl h1
    · exact Or.inr (Or.inl h1)
    · exact Or.inr (Or.inr h1)

theorem infixPrec_leafy : ∀ e : Eqn, e.leafy.infixPrec? = e.infixPrec? := by
  intro e
  cases e with
  | val v => rfl
  | un o l =>
    simp only [Eqn.leafy]
    split
    · rename_i h; simp only [beq_iff_eq] at h; subst h; rfl
    · split <;> rfl
  | bin o l r => rfl

theorem isInfix_leafy (e : Eqn) : e.leafy.isInfix = e.isInfix := by simp [Eqn.isInfix, infixPrec_leafy]
theorem leftParens_leafy (o : Op) (e : Eqn) : leftParens o e.leafy = leftParens o e := by simp [leftParens, infixPrec_leafy]
theorem rightParens_leafy (o : Op) (e : Eqn) : rightParens o e.leafy = rightParens o e := by simp [rightParens, infixPrec_leafy]

theorem okLeaf_of_okC {v : Val} (h : v.okC = true) : v.okLeaf = true := by
  cases v <;> simp_all [Val.okC, Val.okLeaf]

/-- **`Equation.Append` writes the same text for the equation and for its reader's form** -/
theorem print_leafy : ∀ e : Eqn, e.okC = true → ∀ p, e.leafy.print p = e.print p := by
  intro e
  induction e with
  | val v => intro h p; simp [Eqn.leafy, Eqn.print, print_imgV v (okLeaf_of_okC h)]
  | un o l ih =>
    intro h p
    rcases okC_un_cases h with ⟨ho, hl⟩ | ⟨ho, x, hx, hc⟩
    · subst ho
      have : (Gen.JpOps.op_not == Gen.JpOps.op_get) = false ∧ (Gen.JpOps.op_not == Gen.JpOps.op_length) = false ∧
          (Gen.JpOps.op_not == Gen.JpOps.op_count) = false := by decide
      simp only [Eqn.leafy, this, Bool.false_eq_true, if_false, Bool.or_self, Eqn.print, not_facts, if_true, ih hl,
        isInfix_leafy]
    · subst hx
      have hp : (Val.expr x).imgV.print = (Val.expr x).print := print_imgV _ hc
      rcases ho with ho | ho | ho <;> subst ho
      · have c : isCode Gen.JpOps.op_get Gen.JpOps.op_not = false ∧ isCode Gen.JpOps.op_get Gen.JpOps.op_get = true ∧
          noParensCode Gen.JpOps.op_get = false := by decide
        simp [Eqn.leafy, Eqn.print, Eqn.resultOf, hp, c]
      · have : (Gen.JpOps.op_length == Gen.JpOps.op_get) = false := by decide
        have c : isCode Gen.JpOps.op_length Gen.JpOps.op_not = false ∧ isCode Gen.JpOps.op_length Gen.JpOps.op_get = false ∧
          isCode Gen.JpOps.op_length Gen.JpOps.op_length = true := by decide
        simp [Eqn.leafy, this, Eqn.print, c, Eqn.resultOf, hp]
      · have : (Gen.JpOps.op_count == Gen.JpOps.op_get) = false ∧ (Gen.JpOps.op_count == Gen.JpOps.op_length) = false := by decide
        have c : isCode Gen.JpOps.op_count Gen.JpOps.op_not = false ∧ isCode Gen.JpOps.op_count Gen.JpOps.op_get = false ∧
          isCode Gen.JpOps.op_count Gen.JpOps.op_count = true := by decide
        simp [Eqn.leafy, this, Eqn.print, c, Eqn.resultOf, hp]
  | bin o l r ihl ihr =>
    intro h p
    simp only [Eqn.okC, Bool.and_eq_true] at h
    simp only [Eqn.leafy, Eqn.print, ihl h.2.1, ihr h.2.2, isInfix_leafy, leftParens_leafy, rightParens_leafy]
    have hb := binOps_fact h.1
    simp [hb.2.2.2.2.2.1, hb.2.2.2.2.2.2.1, hb.2.2.2.2.2.2.2.1]

theorem build_leafy : ∀ e : Eqn, e.okC = true → e.leafy.build = e.build.map Item.imgI ∧ e.build.all Item.okI = true := by
  intro e
  induction e with
  | val v => intro h; simp [Eqn.leafy, Eqn.build, Item.imgI, Item.okI, okLeaf_of_okC h]
  | un o l ih =>
    intro h
    rcases okC_un_cases h with ⟨ho, hl⟩ | ⟨ho, x, hx, hc⟩
    · subst ho
      have : (Gen.JpOps.op_not == Gen.JpOps.op_get) = false ∧ (Gen.JpOps.op_not == Gen.JpOps.op_length) = false ∧
          (Gen.JpOps.op_not == Gen.JpOps.op_count) = false ∧ isCode Gen.JpOps.op_not Gen.JpOps.op_get = false := by decide
      simp [Eqn.leafy, this, Eqn.build, not_facts, Item.imgI, Item.okI, ih hl]
    · subst hx
      rcases ho with ho | ho | ho <;> subst ho
      · have c : isCode Gen.JpOps.op_get Gen.JpOps.op_get = true := by decide
        simp [Eqn.leafy, Eqn.build, c, Eqn.resultOf, Item.imgI, Item.okI, Val.okLeaf, hc]
      · have : (Gen.JpOps.op_length == Gen.JpOps.op_get) = false := by decide
        have c : isCode Gen.JpOps.op_length Gen.JpOps.op_get = false ∧ isCode Gen.JpOps.op_length Gen.JpOps.op_length = true := by decide
        simp [Eqn.leafy, this, Eqn.build, c, Eqn.resultOf, Item.imgI, Item.okI, Val.okLeaf, hc]
      · have : (Gen.JpOps.op_count == Gen.JpOps.op_get) = false ∧ (Gen.JpOps.op_count == Gen.JpOps.op_length) = false := by decide
        have c : isCode Gen.JpOps.op_count Gen.JpOps.op_get = false ∧ isCode Gen.JpOps.op_count Gen.JpOps.op_count = true := by decide
        simp [Eqn.leafy, this, Eqn.build, c, Eqn.resultOf, Item.imgI, Item.okI, Val.okLeaf, hc]
  | bin o l r ihl ihr =>
    intro h
    simp only [Eqn.okC, Bool.and_eq_true] at h
    have hb := binOps_fact h.1
    simp [Eqn.leafy, Eqn.build, hb.2.2.2.2.1, hb.2.2.2.2.2.1, hb.2.2.2.2.2.2.1, hb.2.2.2.2.2.2.2.1, hb.2.2.2.2.2.2.2.2.1,
      Item.imgI, Item.okI, (ihl h.2.1).1, (ihr h.2.2).1, (ihl h.2.1).2, (ihr h.2.2).2, List.all_append]

/-! ## the reader's form is in the class of the reader lemma -/

theorem floatNoForm_floatPrint (t : Bytes) : floatNoForm (floatPrint t) = floatNoForm t := by
  unfold floatPrint
  split
  · rfl
  · simp [floatNoForm, List.any_append]

/-- the text `appendFloat` writes for a finite float of the `FormatFloat` grammar is in the reader's class -/
theorem floatLeaf_floatPrint (t : Bytes) (h1 : floatTextOk t = true) (h2 : floatNoForm t = false) :
    floatLeaf (floatPrint t) = true := by
  simp only [floatLeaf, floatNoForm_floatPrint, h2, floatPrint_idem, Bool.not_false, beq_self_eq_true, Bool.and_self,
    Bool.and_true]
  by_cases hany : (t.any fun b => b = 46 || b = 101 || b = 78 || b = 73) = true
  · simp [floatPrint, hany, h1]
  · have hfp : floatPrint t = t ++ [46, 48] := by simp [floatPrint, hany]
    rw [hfp]
    have hno : ∀ b ∈ t, b ≠ 46 ∧ b ≠ 101 ∧ b ≠ 78 ∧ b ≠ 73 := by
      intro b hb
      simp only [List.any_eq_true, not_exists, not_and, Bool.or_eq_true, decide_eq_true_eq, not_or] at hany
      have := hany b hb
      exact ⟨this.1.1.1, this.1.1.2, this.1.2, this.2⟩
    -- shape of t: an optional '-' and digits
    unfold floatTextOk at h1
    have hN : t ≠ [78, 97, 78] := by intro e; subst e; exact (hno 78 (by simp)).2.2.1 rfl
    have hP : t ≠ [43, 73, 110, 102] := by intro e; subst e; exact (hno 73 (by simp)).2.2.2 rfl
    have hM : t ≠ [45, 73, 110, 102] := by intro e; subst e; exact (hno 73 (by simp)).2.2.2 rfl
    simp only [hN, hP, hM, decide_false, Bool.false_or] at h1
    generalize hs : (if t.head? = some 45 then t.drop 1 else t) = s at h1
    have hsub : ∀ b ∈ s, b ∈ t := by
      intro b hb; rw [← hs] at hb
      split at hb
      · exact List.mem_of_mem_drop hb
      · exact hb
    obtain ⟨e1, e2, e3⟩ := takeDigits_spec s
    have hrest : (takeDigits s).2 = [] ∧ (takeDigits s).1 ≠ [] := by
      cases hd : (takeDigits s).1 with
      | nil => rw [hd] at h1; simp at h1
      | cons d ds =>
        cases hr : (takeDigits s).2 with
        | nil => simp
        | cons c r =>
          exfalso
          rw [hd, hr] at h1
          have hc : c ∈ t := hsub c (by rw [e1, hr]; simp)
          have := hno c hc
          simp only at h1
          split at h1
          · exact this.1 (by assumption)
          · simp only [Bool.and_eq_true, decide_eq_true_eq] at h1; exact this.2.1 h1.1
    have hsd : s = (takeDigits s).1 := by rw [hrest.1] at e1; simpa using e1
    have hsne : s ≠ [] := by rw [hsd]; exact hrest.2
    have htne : t ≠ [] := by
      intro e; subst e; simp at hs; exact hsne hs
    -- the new text
    have hhead : (t ++ [46, 48]).head? = t.head? := by
      cases t with
      | nil => exact absurd rfl htne
      | cons a r => rfl
    have hs' : (if (t ++ [46, 48]).head? = some 45 then (t ++ [46, 48]).drop 1 else t ++ [46, 48]) = s ++ [46, 48] := by
      rw [hhead, ← hs]
      split
      · cases t with
        | nil => exact absurd rfl htne
        | cons a r => simp
      · rfl
    have htd : takeDigits (s ++ [46, 48]) = (s, [46, 48]) :=
      takeDigits_append s [46, 48] (by rw [hsd]; exact e2) (by simp [takeDigits, isDigit])
    unfold floatTextOk
    rw [hs', htd]
    cases hsc : s with
    | nil => exact absurd hsc hsne
    | cons d ds => simp [takeDigits, isDigit]

theorem scalar_imgS {v : Val} (h : v.scalarC = true) : v.imgS.scalar = true := by
  cases v with
  | flt t =>
    simp only [Val.scalarC, Bool.and_eq_true, Bool.not_eq_true'] at h
    exact floatLeaf_floatPrint t h.1 h.2
  | _ => simp_all [Val.scalarC, Val.imgS, Val.scalar]

theorem inInt64_bounds : inInt64 0 = true ∧ inInt64 maxEnd = true := by decide

theorem clean_img {f : Frag} (h : f.clean = true) : (f.img false).clean = true ∧ (f.img false).selfImg = true := by
  cases f with
  | slice ns =>
    simp only [Frag.clean] at h
    match ns, h with
    | [], _ => simp [Frag.img, normSlice, Frag.clean, Frag.selfImg, inInt64_bounds]
    | [a], h => simp [Frag.img, normSlice, Frag.clean, Frag.selfImg, inInt64_bounds] at h ⊢; exact h
    | [a, b], h => simp [Frag.img, normSlice, Frag.clean, Frag.selfImg] at h ⊢; exact h
    | a :: b :: c :: r, h => simp [Frag.img, normSlice, Frag.clean, Frag.selfImg] at h ⊢; exact ⟨h.1, h.2.1, h.2.2.1⟩
  | wild hh => simp [Frag.img, Frag.clean, Frag.selfImg]
  | root => simp [Frag.clean] at h
  | «at» => simp [Frag.clean] at h
  | filter t => simp [Frag.clean] at h
  | child k => exact ⟨h, rfl⟩
  | nth i => exact ⟨h, rfl⟩
  | descent => exact ⟨h, rfl⟩
  | union ms => exact ⟨h, rfl⟩

theorem cleanTail_imgL : ∀ r : List Frag, cleanTail r = true →
    cleanTail (imgL false r) = true ∧ (imgL false r).all Frag.selfImg = true := by
  intro r
  induction r with
  | nil => intro _; exact ⟨rfl, rfl⟩
  | cons f r ih =>
    intro h
    simp only [cleanTail, Bool.and_eq_true] at h
    have h1 := clean_img h.1
    have h2 := ih h.2
    simp [imgL, cleanTail, h1.1, h1.2, h2.1, h2.2]

theorem pathLeaf_imgL {x : List Frag} (h : cleanPath x = true) : pathLeaf (imgL false x) = true := by
  cases x with
  | nil => simp [cleanPath] at h
  | cons f r =>
    simp only [cleanPath, Bool.and_eq_true] at h
    have h2 := cleanTail_imgL r h.2
    have hf : f.img false = f ∧ f.selfImg = true := by cases f <;> simp [Frag.isRootAt] at h <;> exact ⟨rfl, rfl⟩
    simp [pathLeaf, imgL, cleanPath, hf.1, hf.2, h.1, h2.1, h2.2]

theorem simple_imgV {v : Val} (h : v.okC = true) : v.imgV.simple = true := by
  cases v with
  | list vs =>
    simp only [Val.okC] at h
    simp only [Val.imgV, Val.simple, List.all_map]
    rw [List.all_eq_true] at h ⊢
    intro w hw
    exact scalar_imgS (h w hw)
  | expr x => simp [Val.okC] at h
  | regex s => simpa [Val.okC, Val.imgV, Val.imgS, Val.simple] using h
  | flt t => simpa [Val.okC, Val.imgV, Val.simple, Val.imgS, Val.scalar, Val.scalarC] using (scalar_imgS (v := .flt t) h)
  | null => rfl
  | nothing => rfl
  | bool b => rfl
  | int i => exact h
  | str s => rfl

theorem okS_leafy : ∀ e : Eqn, e.okC = true → e.leafy.okS = true := by
  intro e
  induction e with
  | val v => intro h; exact simple_imgV h
  | un o l ih =>
    intro h
    rcases okC_un_cases h with ⟨ho, hl⟩ | ⟨ho, x, hx, hc⟩
    · subst ho
      have : (Gen.JpOps.op_not == Gen.JpOps.op_get) = false ∧ (Gen.JpOps.op_not == Gen.JpOps.op_length) = false ∧
          (Gen.JpOps.op_not == Gen.JpOps.op_count) = false := by decide
      simp [Eqn.leafy, this, Eqn.okS, ih hl]
    · subst hx
      have hp := pathLeaf_imgL hc
      rcases ho with ho | ho | ho <;> subst ho
      · simp [Eqn.leafy, Eqn.okS, Eqn.resultOf, Val.imgV, Val.simple, hp]
      · have : (Gen.JpOps.op_length == Gen.JpOps.op_get) = false := by decide
        simp [Eqn.leafy, this, Eqn.okS, Eqn.resultOf, Val.imgV, Eqn.isPathVal, hp]
      · have : (Gen.JpOps.op_count == Gen.JpOps.op_get) = false ∧ (Gen.JpOps.op_count == Gen.JpOps.op_length) = false := by decide
        simp [Eqn.leafy, this, Eqn.okS, Eqn.resultOf, Val.imgV, Eqn.isPathVal, hp]
  | bin o l r ihl ihr =>
    intro h
    simp only [Eqn.okC, Bool.and_eq_true] at h
    simp only [Eqn.leafy, Eqn.okS, h.1, ihl h.2.1, ihr h.2.2, Bool.and_self]

/-! ## `Equation.Script` -/

theorem script_un (o : Op) (l : Eqn) (hg : isCode o Gen.JpOps.op_get = false) : (Eqn.un o l).script = (Eqn.un o l).build := by
  cases l with
  | val v => cases v <;> simp [Eqn.script, hg]
  | un _ _ => rfl
  | bin _ _ _ => rfl

theorem script_bin (o : Op) (l r : Eqn) (hg : isCode o Gen.JpOps.op_get = false) :
    (Eqn.bin o l r).script = (Eqn.bin o l r).build := by
  cases l with
  | val v => cases v <;> simp [Eqn.script, hg]
  | un _ _ => rfl
  | bin _ _ _ => rfl

theorem script_leafy (e : Eqn) (h : e.okC = true) :
    e.leafy.script = e.script.map Item.imgI ∧ e.script.all Item.okI = true := by
  cases e with
  | val v =>
    have hb := build_leafy _ h
    cases v <;> first | (simp [Eqn.okC, Val.okC] at h; done) | exact hb
  | un o l =>
    rcases okC_un_cases h with ⟨ho, hl⟩ | ⟨ho, x, hx, hc⟩
    · subst ho
      have c : isCode Gen.JpOps.op_not Gen.JpOps.op_get = false := by decide
      have hb := build_leafy _ h
      have e1 : (Eqn.un Gen.JpOps.op_not l).leafy = .un Gen.JpOps.op_not l.leafy := by
        have : (Gen.JpOps.op_not == Gen.JpOps.op_get) = false ∧ (Gen.JpOps.op_not == Gen.JpOps.op_length) = false ∧
          (Gen.JpOps.op_not == Gen.JpOps.op_count) = false := by decide
        simp [Eqn.leafy, this]
      rw [script_un _ _ c]
      rw [e1, script_un _ _ c, ← e1]
      exact hb
    · subst hx
      rcases ho with ho | ho | ho <;> subst ho
      · have c : isCode Gen.JpOps.op_get Gen.JpOps.op_get = true ∧ isCode Gen.JpOps.op_exists Gen.JpOps.op_get = false ∧
          isCode Gen.JpOps.op_exists Gen.JpOps.op_not = false ∧ isCode Gen.JpOps.op_exists Gen.JpOps.op_length = false ∧
          isCode Gen.JpOps.op_exists Gen.JpOps.op_count = false ∧ isCode Gen.JpOps.op_exists Gen.JpOps.op_group = false := by decide
        simp [Eqn.leafy, Eqn.script, Eqn.resultOf, Val.imgV, c, Eqn.build, Item.imgI, Val.imgS, Item.okI, Val.okLeaf, hc,
          Val.okC, Val.scalarC]
      · have c : isCode Gen.JpOps.op_length Gen.JpOps.op_get = false := by decide
        have hb := build_leafy _ h
        have e1 : (Eqn.un Gen.JpOps.op_length (.val (.expr x))).leafy = .un Gen.JpOps.op_length (.val (.expr (imgL false x))) := by
          have : (Gen.JpOps.op_length == Gen.JpOps.op_get) = false := by decide
          simp [Eqn.leafy, this, Eqn.resultOf, Val.imgV]
        rw [script_un _ _ c]
        rw [e1, script_un _ _ c, ← e1]
        exact hb
      · have c : isCode Gen.JpOps.op_count Gen.JpOps.op_get = false := by decide
        have hb := build_leafy _ h
        have e1 : (Eqn.un Gen.JpOps.op_count (.val (.expr x))).leafy = .un Gen.JpOps.op_count (.val (.expr (imgL false x))) := by
          have : (Gen.JpOps.op_count == Gen.JpOps.op_get) = false ∧ (Gen.JpOps.op_count == Gen.JpOps.op_length) = false := by decide
          simp [Eqn.leafy, this, Eqn.resultOf, Val.imgV]
        rw [script_un _ _ c]
        rw [e1, script_un _ _ c, ← e1]
        exact hb
  | bin o l r =>
    have hb := build_leafy _ h
    simp only [Eqn.okC, Bool.and_eq_true] at h
    have c := (binOps_fact h.1).2.2.2.2.2.1
    rw [script_bin _ _ _ c]
    have e1 : (Eqn.bin o l r).leafy = .bin o l.leafy r.leafy := rfl
    rw [e1, script_bin _ _ _ c, ← e1]
    exact hb

/-! ## the three round trips do not see the difference -/

theorem roundTripsEqn_leafy (e : Eqn) (h : e.okC = true) : roundTripsEqn e = roundTripsEqn e.leafy := by
  unfold roundTripsEqn eqnString
  rw [print_leafy e h true, (build_leafy e h).1]
  simp only [sameTemplate_imgI]

theorem roundTripsScript_leafy (e : Eqn) (h : e.okC = true) : roundTripsScript e = roundTripsScript e.leafy := by
  unfold roundTripsScript
  rw [(script_leafy e h).1, scriptPrint_imgI _ (script_leafy e h).2]
  simp only [sameTemplate_imgI]

theorem roundTripsFilter_leafy (e : Eqn) (h : e.okC = true) : roundTripsFilter e = roundTripsFilter e.leafy := by
  unfold roundTripsFilter filterPrint
  rw [(build_leafy e h).1, scriptPrint_imgI _ (build_leafy e h).2]
  simp only [sameTemplate_imgI]

/-! ## C14 for the constructors' equations, any size -/

theorem roundTripsEqn_okC (e : Eqn) (h : e.okC = true) : roundTripsEqn e = true := by
  rw [roundTripsEqn_leafy e h]; exact roundTripsEqn_okS _ (okS_leafy e h)

theorem roundTripsScript_okC (e : Eqn) (h : e.okC = true) : roundTripsScript e = true := by
  rw [roundTripsScript_leafy e h]; exact roundTripsScript_okS _ (okS_leafy e h)

theorem roundTripsFilter_okC (e : Eqn) (h : e.okC = true) : roundTripsFilter e = true := by
  rw [roundTripsFilter_leafy e h]; exact roundTripsFilter_okS _ (okS_leafy e h)

/-! ## the class in the words of Spec.lean -/

def Val.notList : Val → Bool
  | .list _ => false
  | _ => true

/-- no list constant inside a list constant -/
def Val.flat : Val → Bool
  | .list vs => vs.all Val.notList
  | _ => true

/-- path operands carry no filter, list constants are flat -/
def Eqn.shallow : Eqn → Bool
  | .val (.expr x) => noFilter x
  | .val v => v.flat
  | .un _ l => l.shallow
  | .bin _ l r => l.shallow && r.shallow

theorem devsL_append : ∀ a b : List Item, Item.devsL (a ++ b) = Item.devsL a ++ Item.devsL b := by
  intro a
  induction a with
  | nil => intro b; simp [Item.devsL]
  | cons x a ih => intro b; cases x <;> simp [Item.devsL, ih]

def Val.plain : Val → Bool
  | .expr _ => false
  | .regex _ => false
  | _ => true

theorem scalarC_of_spec (v : Val) (hok : v.ok = true) (hdev : v.devs = []) (h1 : v.notList = true)
    (h2 : v.plain = true) : v.scalarC = true := by
  cases v with
  | flt t =>
    simp only [Val.devs] at hdev
    simp [Val.scalarC, (addIf_nil hdev).1]
    exact hok
  | int i => exact hok
  | list vs => simp [Val.notList] at h1
  | expr x => simp [Val.plain] at h2
  | regex s => simp [Val.plain] at h2
  | _ => rfl

theorem scalars_of_spec : ∀ vs : List Val, Val.okL vs = true → Val.devsL vs = [] → vs.all Val.notList = true →
    vs.all Val.scalarC = true := by
  intro vs
  induction vs with
  | nil => intros; rfl
  | cons v r ih =>
    intro hok hdev hfl
    simp only [Val.okL, Bool.and_eq_true] at hok
    simp only [Val.devsL, List.append_eq_nil_iff] at hdev
    simp only [List.all_cons, Bool.and_eq_true] at hfl ⊢
    have hp : v.plain = true := by have := hok.1.2; cases v <;> simp_all [Val.plain]
    exact ⟨scalarC_of_spec v hok.1.1 hdev.1 hfl.1 hp, ih hok.2 hdev.2 hfl.2⟩

theorem cleanPath_of_spec (x : List Frag) (hok : Frag.okL x = true) (hnf : noFilter x = true)
    (hdev : (Val.expr x).devs = []) : cleanPath x = true := by
  simp only [Val.devs] at hdev
  obtain ⟨h1, h2⟩ := addIf_nil hdev
  simp only [Bool.or_eq_false_iff, Bool.not_eq_false'] at h1
  cases x with
  | nil => simp [startsRootAt] at h1
  | cons f r =>
    simp only [startsRootAt, devRootAtL] at h1
    simp only [Frag.okL, Bool.and_eq_true] at hok
    simp only [Frag.devsL, List.append_eq_nil_iff] at h2
    simp only [cleanPath, h1.2, Bool.true_and]
    exact cleanTail_of_spec r hok.2 (noFilter_cons f r hnf).2 h1.1 h2.2

/-- **the class of the general theorems is: constructible (`Eqn.ok`), no deviation named by Spec.lean
(`devsEqn e = []`), and shallow (no filter inside a path operand, no list inside a list)** -/
theorem okC_of_spec : ∀ e : Eqn, e.ok = true → devsEqn e = [] → e.shallow = true → e.okC = true := by
  intro e
  induction e with
  | val v =>
    intro hok hdev hsh
    simp only [devsEqn, Eqn.build, Item.devsL, List.append_nil] at hdev
    simp only [Eqn.ok, Bool.and_eq_true] at hok
    cases v with
    | list vs =>
      simp only [Eqn.shallow, Val.flat] at hsh
      simp only [Val.ok] at hok
      simp only [Val.devs] at hdev
      simpa [Eqn.okC, Val.okC] using List.all_eq_true.1 (scalars_of_spec vs hok.1 hdev hsh)
    | expr x => simp at hok
    | regex s => simp only [Val.devs] at hdev; simp [Eqn.okC, Val.okC, (addIf_nil hdev).1]
    | flt t => exact scalarC_of_spec (.flt t) hok.1 hdev rfl rfl
    | int i => exact hok.1
    | null => rfl
    | nothing => rfl
    | bool b => rfl
    | str s => rfl
  | un o l ih =>
    intro hok hdev hsh
    simp only [Eqn.ok] at hok
    by_cases hn : o = Gen.JpOps.op_not
    · subst hn
      simp only [if_true] at hok
      have hb : (Eqn.un Gen.JpOps.op_not l).build = .op Gen.JpOps.op_not :: l.build := by
        have : isCode Gen.JpOps.op_not Gen.JpOps.op_get = false := by decide
        simp [Eqn.build, this, not_facts]
      simp only [devsEqn, hb, Item.devsL] at hdev
      simp only [Eqn.shallow] at hsh
      simp [Eqn.okC, ih hok hdev hsh]
    · simp only [hn, if_false] at hok
      split at hok
      · rename_i hg0
        have hg : (o = Gen.JpOps.op_get ∨ o = Gen.JpOps.op_length) ∨ o = Gen.JpOps.op_count := by simpa using hg0
        cases l with
        | val v =>
          cases v with
          | expr x =>
            simp only at hok
            simp only [Eqn.shallow] at hsh
            have hd : (Val.expr x).devs = [] := by
              have c1 : Gen.JpOps.op_length.code ≠ Gen.JpOps.op_get.code ∧ Gen.JpOps.op_count.code ≠ Gen.JpOps.op_get.code := by
                decide
              rcases hg with (hg | hg) | hg <;> subst hg <;>
                simpa [devsEqn, Eqn.build, Eqn.resultOf, Item.devsL, isCode, c1.1, c1.2] using hdev
            have hc := cleanPath_of_spec x hok hsh hd
            simp only [Eqn.okC, Bool.or_eq_true, Bool.and_eq_true, beq_iff_eq, Eqn.isCleanPath, hc, and_true]
            right; exact hg
          | _ => simp at hok
        | un _ _ => simp at hok
        | bin _ _ _ => simp at hok
      · simp at hok
  | bin o l r ihl ihr =>
    intro hok hdev hsh
    simp only [Eqn.ok, Bool.and_eq_true] at hok
    have hb := binOps_fact hok.1.1
    have hbuild : (Eqn.bin o l r).build = .op o :: (l.build ++ r.build) := by
      simp [Eqn.build, hb.2.2.2.2.1, hb.2.2.2.2.2.1, hb.2.2.2.2.2.2.1, hb.2.2.2.2.2.2.2.1, hb.2.2.2.2.2.2.2.2.1]
    simp only [devsEqn, hbuild, Item.devsL, devsL_append, List.append_eq_nil_iff] at hdev
    simp only [Eqn.shallow, Bool.and_eq_true] at hsh
    simp only [Eqn.okC, hok.1.1, ihl hok.1.2 hdev.1 hsh.1, ihr hok.2 hdev.2 hsh.2, Bool.and_self]


end OjgVerif.JPText
