import OjgVerif.JPText.LemmasEqn
/-! # C14 lemmas: `Script.String` / `Filter.String` are read back by `NewScript` / `NewFilter`, any size

`Script.Append` (model `Item.run`, a stack machine over the template scanned right to left) writes
parentheses like `Equation.Append` except that the arguments of `match`/`search` go through
`appendValue(…, 0)`: an INFIX argument is parenthesised (`match((1 + 2), 3)`). `Eqn.parenS e` puts a
`group` node wherever `Script.Append` writes a parenthesis for the template of `e`. By induction on `e`:

* `run_build` — the stack machine, run on the template of a tree, pushes ONE element, `sitem` of the tree;
* `bytes_sitem` — for the constructors' equations its bytes are `Eqn.text` of `e.parenS`;
* `sitem_parenS` — the template of `e.parenS` prints identically;
* `pd_parenS`, `readable_parenS`, `reduceGroups_parenS`, `normL_build_parenS` — as for `Eqn.paren`;
* `roundTripsScript_okS`, `roundTripsFilter_okS` — C14 for `Script.String`/`Filter.String`, all equations
  of the class `Eqn.okS` (`Not`, the 19 binary constructors, `length`/`count` of a path, constants in the
  reader's form including path leaves). `Equation.Script` turns a bare path into `path exists true`
  (`Eqn.scriptEqn`, `script_okS`); every other equation of the class has `script = build`. -/
namespace OjgVerif.JPText
open OjgVerif

/-- the `group` nodes `Script.Append` writes as parentheses -/
def Eqn.parenS : Eqn → Eqn
  | .val v => .val v
  | .un o l => .un o (grp l.isInfix l.parenS)
  | .bin o l r =>
    if isCall o then .bin o (grp l.isInfix l.parenS) (grp r.isInfix r.parenS)
    else .bin o (grp (leftParens o l) l.parenS) (grp (rightParens o r) r.parenS)

/-! ## S0: `Equation.Script` is the plain template unless a path is in the first position -/

theorem script_of (e : Eqn) (h0 : ∀ x, e ≠ .val (.expr x))
    (h1 : ∀ o x, e = .un o (.val (.expr x)) → isCode o Gen.JpOps.op_get = false)
    (h2 : ∀ o x r, e = .bin o (.val (.expr x)) r → isCode o Gen.JpOps.op_get = false) : e.script = e.build := by
  unfold Eqn.script
  split
  · exact absurd rfl (h0 _)
  · simp [h1 _ _ rfl]
  · simp [h2 _ _ _ rfl]
  · rfl

/-- the equation whose plain template `Equation.Script` returns: `path exists true` for a bare path -/
def Eqn.scriptEqn : Eqn → Eqn
  | .val (.expr x) => .bin Gen.JpOps.op_exists (.val (.expr x)) (.val (.bool true))
  | e => e

theorem s_exists_facts : binOps.contains Gen.JpOps.op_exists = true ∧ isCode Gen.JpOps.op_exists Gen.JpOps.op_get = false := by
  decide

theorem okS_scriptEqn (e : Eqn) (h : e.okS = true) : e.scriptEqn.okS = true := by
  cases e with
  | val v =>
    cases v with
    | expr x =>
      have hx : pathLeaf x = true := h
      simp only [Eqn.scriptEqn, Eqn.okS, s_exists_facts.1, Bool.true_and, Bool.and_eq_true]
      exact ⟨hx, rfl⟩
    | _ => exact h
  | un o l => exact h
  | bin o l r => exact h

/-- `Equation.Script` of an equation of the class (a bare path becomes `path exists true`) -/
theorem script_okS (e : Eqn) (h : e.okS = true) : e.script = e.scriptEqn.build := by
  cases e with
  | val v => cases v <;> rfl
  | un o l =>
    apply script_of
    · intro x hx; cases hx
    · intro o' x hx
      cases hx
      rcases okS_un_cases h with ⟨ho, _⟩ | ⟨ho, _⟩
      · subst ho; decide
      · exact (len_facts _ ho).2.1
    · intro o' x r hx; cases hx
  | bin o l r =>
    simp only [Eqn.okS, Bool.and_eq_true] at h
    apply script_of
    · intro x hx; cases hx
    · intro o' x hx; cases hx
    · intro o' x r' hx
      cases hx
      exact (binOps_fact h.1).2.2.2.2.2.1

theorem script_readable (e : Eqn) (h : e.readable = true) (h0 : ∀ x, e ≠ .val (.expr x)) : e.script = e.build := by
  apply script_of _ h0
  · intro o x hx; subst hx
    simp only [Eqn.readable, Bool.or_eq_true, Bool.and_eq_true, beq_iff_eq] at h
    rcases h with (h | h) | h
    · rw [h.1]; decide
    · rw [h.1]; decide
    · exact (len_facts _ h.1).2.1
  · intro o x r hx; subst hx
    simp only [Eqn.readable, Bool.and_eq_true] at h
    exact (binOps_fact h.1).2.2.2.2.2.1

/-! ## S1: the stack machine pushes one element per tree -/

/-- what `Script.Append` leaves on the print stack for the template of a tree -/
def sitem : Eqn → SItem
  | .val v => .txt v.print
  | .un o l => .pb o.prec (appendOp o (some (sitem l)) none)
  | .bin o l r => .pb o.prec (appendOp o (some (sitem l)) (some (sitem r)))

/-- trees over `!`, `group`, `length`, `count` and the 19 binary operators (any constants) -/
def Eqn.mach : Eqn → Bool
  | .val _ => true
  | .un o l => (o == Gen.JpOps.op_not || o == Gen.JpOps.op_group || o == Gen.JpOps.op_length || o == Gen.JpOps.op_count) && l.mach
  | .bin o l r => binOps.contains o && (l.mach && r.mach)

theorem un_facts : isCode Gen.JpOps.op_not Gen.JpOps.op_get = false ∧ isCode Gen.JpOps.op_group Gen.JpOps.op_get = false ∧
    Gen.JpOps.op_not.cnt = 1 ∧ Gen.JpOps.op_group.cnt = 1 := by
  decide

theorem run_build : ∀ (G : Eqn), G.mach = true → ∀ rest : List Item,
    Item.run (G.build ++ rest) = sitem G :: Item.run rest := by
  intro G
  induction G with
  | val v => intro _ rest; simp [Eqn.build, Item.run, sitem]
  | un o l ih =>
    intro h rest
    simp only [Eqn.mach, Bool.and_eq_true, Bool.or_eq_true, beq_iff_eq] at h
    obtain ⟨ho, hl⟩ := h
    rcases ho with ((ho | ho) | ho) | ho
    · subst ho; simp [Eqn.build, un_facts, not_facts, Item.run, stepOp, ih hl, sitem, appendOp]
    · subst ho; simp [Eqn.build, un_facts, not_facts, Item.run, stepOp, ih hl, sitem, appendOp]
    · have lf := len_facts o (Or.inl ho)
      simp [Eqn.build, lf.1, lf.2.1, lf.2.2.1, lf.2.2.2.1, lf.2.2.2.2.2.2.2.2, Item.run, stepOp, ih hl, sitem, appendOp]
    · have lf := len_facts o (Or.inr ho)
      simp [Eqn.build, lf.1, lf.2.1, lf.2.2.1, lf.2.2.2.1, lf.2.2.2.2.2.2.2.2, Item.run, stepOp, ih hl, sitem, appendOp]
  | bin o l r ihl ihr =>
    intro h rest
    simp only [Eqn.mach, Bool.and_eq_true] at h
    obtain ⟨ho, hl, hr⟩ := h
    have hb := binOps_fact ho
    simp [Eqn.build, hb.2.2.2.2.1, hb.2.2.2.2.2.1, hb.2.2.2.2.2.2.1, hb.2.2.2.2.2.2.2.1, hb.2.2.2.2.2.2.2.2.1,
      Item.run, stepOp, List.append_assoc, ihl hl, ihr hr, sitem, hb.2.2.2.2.2.2.2.2.2.2.2.2]

/-! ## S2: the bytes on the stack are the text of `parenS` -/

def SItem.bytes : SItem → Bytes
  | .txt b => b
  | .pb _ b => b

def SItem.prec : SItem → Nat
  | .txt _ => 0
  | .pb p _ => p

theorem app_some (p : Nat) (s : SItem) :
    SItem.app p (some s) = wrapParens (decide (p < s.prec)) s.bytes := by
  cases s with
  | txt b => simp [SItem.app, SItem.prec, SItem.bytes, wrapParens]
  | pb q b => by_cases h : p < q <;> simp [SItem.app, SItem.prec, SItem.bytes, wrapParens, h]

theorem bytes_pb (p : Nat) (b : Bytes) : (SItem.pb p b).bytes = b := rfl
theorem prec_pb (p : Nat) (b : Bytes) : (SItem.pb p b).prec = p := rfl

theorem appRight_some (p : Nat) (s : SItem) (hp : 1 ≤ p) :
    SItem.appRight p (some s) = wrapParens (decide (p ≤ s.prec)) s.bytes := by
  cases s with
  | txt b =>
    have : ¬ p ≤ 0 := by omega
    simp [SItem.appRight, SItem.app, SItem.prec, SItem.bytes, wrapParens, this]
  | pb q b =>
    simp only [SItem.appRight, SItem.app, SItem.prec, SItem.bytes, wrapParens]
    by_cases h1 : q = p
    · subst h1; simp
    · by_cases h2 : p < q
      · have : p ≤ q := by omega
        simp [h1, h2, this]
      · have : ¬ p ≤ q := by omega
        simp [h1, h2, this]

theorem prec_sitem (e : Eqn) : (sitem e).prec = topPrec e := by cases e <;> rfl

theorem isInfix_topPrec (e : Eqn) (h : e.okS = true) : e.isInfix = decide (0 < topPrec e) := by
  rw [isInfix_okS e h]
  cases e with
  | val v => rfl
  | un o l =>
    rcases okS_un_cases h with h | ⟨h, _⟩
    · simp [topPrec, Eqn.op?, h.1, not_facts]
    · simp [topPrec, Eqn.op?, (len_facts o h).2.2.2.2.1]
  | bin o l r =>
    simp only [Eqn.okS, Bool.and_eq_true] at h
    have hb := binOps_fact h.1
    have h1 := hb.2.2.1
    have h2 := hb.2.2.2.1
    simp only [topPrec, Eqn.op?]
    cases hi : o.isInfix
    · rw [hi] at h1; rw [h1] at h2
      have : o.prec = 0 := by simpa using h2.symm
      simp [this]
    · rw [hi] at h1; rw [h1] at h2
      have : ¬ o.prec = 0 := by simpa using h2.symm
      have : 0 < o.prec := by omega
      simp [this]

theorem op_parenS (e : Eqn) : e.parenS.op? = e.op? := by
  cases e with
  | val v => rfl
  | un o l => rfl
  | bin o l r => simp only [Eqn.parenS]; split <;> rfl

theorem parenS_path (o : Op) (v : Val) : (Eqn.un o (.val v)).parenS = .un o (.val v) := by
  simp [Eqn.parenS, grp, Eqn.isInfix, Eqn.infixPrec?]

theorem topPrec_parenS (e : Eqn) : topPrec e.parenS = topPrec e := by simp [topPrec, op_parenS]
theorem topPrec_paren (e : Eqn) : topPrec e.paren = topPrec e := by simp [topPrec, op_paren]

theorem leftParens_eqS (o : Op) (l : Eqn) (h : l.okS = true) : leftParens o l = decide (o.prec < topPrec l) := by
  rw [leftParens_eq o l h, isInfix_topPrec l h, topPrec_paren]
  by_cases h1 : o.prec < topPrec l
  · have : 0 < topPrec l := by omega
    simp [h1, this]
  · simp [h1]

theorem rightParens_eqS (o : Op) (r : Eqn) (h : r.okS = true) (ho : 1 ≤ o.prec) :
    rightParens o r = decide (o.prec ≤ topPrec r) := by
  rw [rightParens_eq o r h, isInfix_topPrec r h, topPrec_paren]
  by_cases h1 : o.prec ≤ topPrec r
  · have : 0 < topPrec r := by omega
    simp [h1, this]
  · simp [h1]

theorem bytes_sitem : ∀ e : Eqn, e.okS = true → (sitem e).bytes = e.parenS.text := by
  intro e
  induction e with
  | val v => intro _; rfl
  | un o l ih =>
    intro h
    rcases (okS_un_cases h).symm with ⟨ho, x, hx, hpx⟩ | ⟨ho, hl⟩
    · subst hx
      have lf := len_facts o ho
      simp [parenS_path, sitem, bytes_pb, appendOp, lf.1, lf.2.2.1, lf.2.2.2.1, SItem.app, Eqn.text]
    subst ho
    simp only [sitem, bytes_pb, appendOp, not_facts, if_true, app_some, prec_sitem, ih hl, Eqn.parenS, Eqn.text,
      Bool.false_eq_true, if_false, text_grp, isInfix_topPrec l hl, Bool.or_self]
  | bin o l r ihl ihr =>
    intro h
    simp only [Eqn.okS, Bool.and_eq_true] at h
    obtain ⟨ho, hl, hr⟩ := h
    have hb := binOps_fact ho
    cases hc : isCall o
    · have hinf : o.isInfix = true := by have := hb.2.2.1; rw [hc] at this; simpa using this.symm
      have h1 := ((isInfix_iff o).1 hinf).1
      have hu : ¬ o.code = Gen.Jp.userOpCode := by
        intro hu; simp [isCall, hu] at hc
      simp only [sitem, bytes_pb, appendOp, hb.2.2.2.2.1, hb.2.2.2.2.2.2.1, hb.2.2.2.2.2.2.2.1, hb.2.2.2.2.2.2.2.2.1,
        Bool.false_eq_true, if_false, Bool.or_self, ← hb.2.1, hc, hu, app_some, appRight_some _ _ h1, prec_sitem, ihl hl, ihr hr,
        Eqn.parenS, Eqn.text, text_grp, leftParens_eqS o l hl, rightParens_eqS o r hr h1]
    · have hp : o.prec = 0 := by have := hb.2.2.2.1; rw [hc] at this; simpa using this.symm
      simp only [sitem, bytes_pb, appendOp, hb.2.2.2.2.1, hb.2.2.2.2.2.2.1, hb.2.2.2.2.2.2.2.1, hb.2.2.2.2.2.2.2.2.1,
        Bool.false_eq_true, if_false, Bool.or_self, ← hb.2.1, hc, if_true, app_some, prec_sitem, ihl hl, ihr hr, hp,
        Eqn.parenS, Eqn.text, text_grp, isInfix_topPrec l hl, isInfix_topPrec r hr]

/-! ## S3: the template of `parenS` prints identically -/

theorem sitem_grp (q : Bool) (X : Eqn) :
    sitem (grp q X) = if q then .pb 0 (SItem.app 0 (some (sitem X))) else sitem X := by
  cases q <;> simp [grp, sitem, appendOp, not_facts]

theorem app_grp (p : Nat) (q : Bool) (X : Eqn) (h : q = true → p < (sitem X).prec) :
    SItem.app p (some (sitem (grp q X))) = SItem.app p (some (sitem X)) := by
  cases q with
  | false => simp [sitem_grp]
  | true =>
    have h1 := h rfl
    have h2 : 0 < (sitem X).prec := by omega
    simp [sitem_grp, app_some, prec_pb, bytes_pb, h1, h2, wrapParens]

theorem appRight_grp (p : Nat) (q : Bool) (X : Eqn) (hp : 1 ≤ p) (h : q = true → p ≤ (sitem X).prec) :
    SItem.appRight p (some (sitem (grp q X))) = SItem.appRight p (some (sitem X)) := by
  cases q with
  | false => simp [sitem_grp]
  | true =>
    have h1 := h rfl
    have h2 : 0 < (sitem X).prec := by omega
    have h3 : ¬ p ≤ 0 := by omega
    simp [sitem_grp, app_some, appRight_some _ _ hp, prec_pb, bytes_pb, h1, h2, h3, wrapParens]

theorem sitem_parenS : ∀ e : Eqn, e.okS = true → sitem e.parenS = sitem e := by
  intro e
  induction e with
  | val v => intro _; rfl
  | un o l ih =>
    intro h
    rcases (okS_un_cases h).symm with ⟨ho, x, hx, hpx⟩ | ⟨ho, hl⟩
    · subst hx
      rw [parenS_path]
    subst ho
    have := app_grp 0 l.isInfix l.parenS (by
      intro hq; rw [isInfix_topPrec l hl] at hq; rw [ih hl, prec_sitem]; simpa using hq)
    simp only [Eqn.parenS, sitem, appendOp, not_facts, if_true, this, ih hl]
  | bin o l r ihl ihr =>
    intro h
    simp only [Eqn.okS, Bool.and_eq_true] at h
    obtain ⟨ho, hl, hr⟩ := h
    have hb := binOps_fact ho
    cases hc : isCall o
    · have hinf : o.isInfix = true := by have := hb.2.2.1; rw [hc] at this; simpa using this.symm
      have h1 := ((isInfix_iff o).1 hinf).1
      have hu : ¬ o.code = Gen.Jp.userOpCode := by
        intro hu; simp [isCall, hu] at hc
      have e1 := app_grp o.prec (leftParens o l) l.parenS (by
        intro hq; rw [leftParens_eqS o l hl] at hq; rw [ihl hl, prec_sitem]; simpa using hq)
      have e2 := appRight_grp o.prec (rightParens o r) r.parenS h1 (by
        intro hq; rw [rightParens_eqS o r hr h1] at hq; rw [ihr hr, prec_sitem]; simpa using hq)
      simp only [Eqn.parenS, hc, Bool.false_eq_true, if_false, sitem, appendOp, hb.2.2.2.2.1, hb.2.2.2.2.2.2.1, hb.2.2.2.2.2.2.2.1,
        hb.2.2.2.2.2.2.2.2.1, Bool.or_self, ← hb.2.1, hu, e1, e2, ihl hl, ihr hr]
    · have hp : o.prec = 0 := by have := hb.2.2.2.1; rw [hc] at this; simpa using this.symm
      have e1 := app_grp 0 l.isInfix l.parenS (by
        intro hq; rw [isInfix_topPrec l hl] at hq; rw [ihl hl, prec_sitem]; simpa using hq)
      have e2 := app_grp 0 r.isInfix r.parenS (by
        intro hq; rw [isInfix_topPrec r hr] at hq; rw [ihr hr, prec_sitem]; simpa using hq)
      simp only [Eqn.parenS, hc, if_true, sitem, appendOp, hb.2.2.2.2.1, hb.2.2.2.2.2.2.1, hb.2.2.2.2.2.2.2.1,
        hb.2.2.2.2.2.2.2.2.1, Bool.false_eq_true, if_false, Bool.or_self, ← hb.2.1, hp, e1, e2, ihl hl, ihr hr]

/-! ## S4: `parenS` is properly parenthesised, readable, kept by `reduceGroups`, same template -/

theorem pd_parenS : ∀ e : Eqn, e.okS = true → e.parenS.pd = true := by
  intro e
  induction e with
  | val v => intro _; rfl
  | un o l ih =>
    intro h
    rcases (okS_un_cases h).symm with ⟨ho, x, hx, hpx⟩ | h
    · subst hx
      simp [parenS_path, Eqn.pd, (len_facts o ho).2.2.2.2.1]
    simp [Eqn.parenS, Eqn.pd, h.1, not_facts, pd_grp _ _ (ih h.2)]
  | bin o l r ihl ihr =>
    intro h
    simp only [Eqn.okS, Bool.and_eq_true] at h
    obtain ⟨ho, hl, hr⟩ := h
    have hb := binOps_fact ho
    cases hc : isCall o
    · have hinf : o.isInfix = true := by have := hb.2.2.1; rw [hc] at this; simpa using this.symm
      have h1 := ((isInfix_iff o).1 hinf).1
      simp only [Eqn.parenS, hc, Bool.false_eq_true, if_false]
      refine (pd_infix hinf).2 ⟨?_, ?_, pd_grp _ _ (ihl hl), pd_grp _ _ (ihr hr)⟩
      · rw [topPrec_grp, leftParens_eqS o l hl, topPrec_parenS]
        by_cases hlt : o.prec < topPrec l <;> simp [hlt]; omega
      · rw [topPrec_grp, rightParens_eqS o r hr h1, topPrec_parenS]
        by_cases hlt : o.prec ≤ topPrec r <;> simp [hlt] <;> omega
    · have hp : o.prec = 0 := by have := hb.2.2.2.1; rw [hc] at this; simpa using this.symm
      simp [Eqn.parenS, hc, Eqn.pd, hp, pd_grp _ _ (ihl hl), pd_grp _ _ (ihr hr)]

theorem isAtom_parenS (e : Eqn) (h : e.okS = true) (hi : e.isInfix = false) : e.parenS.isAtom = true := by
  cases e with
  | val v => rfl
  | un o l => rfl
  | bin o l r =>
    have hi2 : (Eqn.bin o l r).isInfix = o.isInfix := isInfix_okS _ h
    rw [hi] at hi2
    simp only [Eqn.parenS]
    split <;> simp [Eqn.isAtom, ← hi2]

theorem readable_parenS : ∀ e : Eqn, e.okS = true → e.parenS.readable = true := by
  intro e
  induction e with
  | val v => intro h; exact h
  | un o l ih =>
    intro h
    rcases (okS_un_cases h).symm with ⟨ho, x, hx, hpx⟩ | h
    · subst hx
      simp only [parenS_path, Eqn.readable, Bool.or_eq_true, Bool.and_eq_true, beq_iff_eq]
      right
      exact ⟨ho, hpx⟩
    simp only [Eqn.parenS, Eqn.readable, h.1, beq_self_eq_true, Bool.true_and, readable_grp _ _ (ih h.2), Bool.and_true,
      Bool.or_eq_true]
    left; left
    cases hi : l.isInfix
    · simpa [grp] using isAtom_parenS l h.2 hi
    · simp [grp, Eqn.isAtom]
  | bin o l r ihl ihr =>
    intro h
    simp only [Eqn.okS, Bool.and_eq_true] at h
    simp only [Eqn.parenS]
    split <;> simp only [Eqn.readable, h.1, ihl h.2.1, ihr h.2.2, readable_grp, Bool.and_self]

theorem reduceGroups_parenS : ∀ e : Eqn, e.okS = true → ∀ po, reduceGroups e.parenS po = e.parenS := by
  intro e
  induction e with
  | val v => intro _ po; rfl
  | un o l ih =>
    intro h po
    rcases (okS_un_cases h).symm with ⟨ho, x, hx, hpx⟩ | ⟨ho, hl⟩
    · subst hx
      simp [parenS_path, reduceGroups, dropGroup, (len_facts o ho).2.2.1]
    subst ho
    simp only [Eqn.parenS, reduceGroups, dropGroup, not_facts, Bool.false_and, Bool.false_eq_true, if_false]
    rw [reduceGroups_grp _ _ _ (ih hl) (by intro _; simp [not_facts])]
  | bin o l r ihl ihr =>
    intro h po
    simp only [Eqn.okS, Bool.and_eq_true] at h
    obtain ⟨ho, hl, hr⟩ := h
    have hb := binOps_fact ho
    cases hc : isCall o
    · have hinf : o.isInfix = true := by have := hb.2.2.1; rw [hc] at this; simpa using this.symm
      have h1 := ((isInfix_iff o).1 hinf).1
      simp only [Eqn.parenS, hc, Bool.false_eq_true, if_false, reduceGroups, dropGroup, hb.2.2.2.2.2.2.2.2.1, Bool.false_and]
      rw [reduceGroups_grp _ _ _ (ihl hl) (by
            intro hp; rw [leftParens_eqS o l hl] at hp; rw [topPrec_parenS]
            simp only [decide_eq_true_eq] at hp; omega),
          reduceGroups_grp _ _ _ (ihr hr) (by
            intro hp; rw [rightParens_eqS o r hr h1] at hp; rw [topPrec_parenS]
            simp only [decide_eq_true_eq] at hp; omega)]
    · have hp : o.prec = 0 := by have := hb.2.2.2.1; rw [hc] at this; simpa using this.symm
      simp only [Eqn.parenS, hc, if_true, reduceGroups, dropGroup, hb.2.2.2.2.2.2.2.2.1, Bool.false_and, Bool.false_eq_true, if_false]
      rw [reduceGroups_grp _ _ _ (ihl hl) (by intro _; omega), reduceGroups_grp _ _ _ (ihr hr) (by intro _; omega)]

theorem normL_build_parenS : ∀ e : Eqn, e.okS = true → Item.normL e.parenS.build = Item.normL e.build := by
  intro e
  induction e with
  | val v => intro _; rfl
  | un o l ih =>
    intro h
    rcases (okS_un_cases h).symm with ⟨ho, x, hx, hpx⟩ | ⟨ho, hl⟩
    · subst hx
      rw [parenS_path]
    subst ho
    simp [Eqn.parenS, Eqn.build, un_facts, not_facts, Item.normL, normL_build_grp, ih hl]
  | bin o l r ihl ihr =>
    intro h
    simp only [Eqn.okS, Bool.and_eq_true] at h
    obtain ⟨ho, hl, hr⟩ := h
    have hb := binOps_fact ho
    simp only [Eqn.parenS]
    split <;>
      simp [Eqn.build, hb.2.2.2.2.1, hb.2.2.2.2.2.1, hb.2.2.2.2.2.2.1, hb.2.2.2.2.2.2.2.1, hb.2.2.2.2.2.2.2.2.1, Item.normL,
        normL_append, normL_build_grp, ihl hl, ihr hr]

/-! ## S5: `Script.String` read by `NewScript`, `Filter.String` read by `NewFilter`, any size -/

theorem mach_grp (p : Bool) (t : Eqn) (h : t.mach = true) : (grp p t).mach = true := by
  cases p <;> simp [grp, Eqn.mach, h]

theorem mach_okS : ∀ e : Eqn, e.okS = true → e.mach = true := by
  intro e
  induction e with
  | val v => intro _; rfl
  | un o l ih =>
    intro h
    rcases (okS_un_cases h).symm with ⟨ho, x, hx, hpx⟩ | h
    · subst hx
      rcases ho with ho | ho <;> subst ho <;> simp [Eqn.mach]
    simp [Eqn.mach, h.1, ih h.2]
  | bin o l r ihl ihr =>
    intro h
    simp only [Eqn.okS, Bool.and_eq_true] at h
    simp only [Eqn.mach, h.1, ihl h.2.1, ihr h.2.2, Bool.and_self]

theorem mach_parenS : ∀ e : Eqn, e.okS = true → e.parenS.mach = true := by
  intro e
  induction e with
  | val v => intro _; rfl
  | un o l ih =>
    intro h
    rcases (okS_un_cases h).symm with ⟨ho, x, hx, hpx⟩ | h
    · subst hx
      rcases ho with ho | ho <;> subst ho <;> simp [parenS_path, Eqn.mach]
    simp [Eqn.parenS, Eqn.mach, h.1, mach_grp _ _ (ih h.2)]
  | bin o l r ihl ihr =>
    intro h
    simp only [Eqn.okS, Bool.and_eq_true] at h
    simp only [Eqn.parenS]
    split <;> simp only [Eqn.mach, h.1, mach_grp _ _ (ihl h.2.1), mach_grp _ _ (ihr h.2.2), Bool.and_self]

/-- `Script.Append` on the template of a tree over `!`, `group`, the 19 binary operators -/
theorem scriptPrint_build (G : Eqn) (h : G.mach = true) : scriptPrint G.build = 40 :: ((sitem G).bytes ++ [41]) := by
  have h1 := run_build G h []
  simp only [List.append_nil, Item.run] at h1
  simp only [scriptPrint, h1]
  cases sitem G <;> rfl

/-- **`Script.Append` writes the text of the tree with its parentheses as `group` nodes** -/
theorem scriptPrint_okS (e : Eqn) (h : e.okS = true) :
    scriptPrint e.build = (Eqn.un Gen.JpOps.op_group e.parenS).text := by
  rw [scriptPrint_build e (mach_okS e h), bytes_sitem e h]
  simp [Eqn.text, not_facts]

/-- the template of the re-parsed script prints identically -/
theorem scriptPrint_parenS (e : Eqn) (h : e.okS = true) : scriptPrint e.parenS.build = scriptPrint e.build := by
  rw [scriptPrint_build _ (mach_parenS e h), scriptPrint_build e (mach_okS e h), sitem_parenS e h]

theorem parseEquation_scriptPrint (e : Eqn) (h : e.okS = true) :
    parseEquation (scriptPrint e.build) = some e.parenS := by
  rw [scriptPrint_okS e h, parseEquation_text (.un Gen.JpOps.op_group e.parenS)
    (by simp [Eqn.readable, readable_parenS e h]) (by simp [Eqn.pd, not_facts, pd_parenS e h])]
  simp only [reduceGroups, dropGroup, not_facts, Bool.true_and, if_true, reduceGroups_parenS e h]

theorem s_parenS_scriptEqn_ne (e : Eqn) : ∀ x, e.scriptEqn.parenS ≠ .val (.expr x) := by
  intro x
  cases e with
  | val v => cases v <;> simp [Eqn.scriptEqn, Eqn.parenS] <;> split <;> simp
  | un o l => simp [Eqn.scriptEqn, Eqn.parenS]
  | bin o l r => simp only [Eqn.scriptEqn, Eqn.parenS]; split <;> simp

/-- **`NewScript(e.Script().String())`** is the template of `e` (of `path exists true` for a bare path `e`, as
`Equation.Script` builds it) with a `group` operator where the text has a parenthesis (but the outermost) -/
theorem parseScript_print (e : Eqn) (h : e.okS = true) :
    parseScript (scriptPrint e.script) = some e.scriptEqn.parenS.build := by
  rw [script_okS e h, parseScript, parseEquation_scriptPrint _ (okS_scriptEqn e h), Option.map_some,
    script_readable _ (readable_parenS _ (okS_scriptEqn e h)) (s_parenS_scriptEqn_ne e)]

/-- `scriptEqn` changes a bare path only -/
theorem s_scriptEqn_self (e : Eqn) (h0 : ∀ x, e ≠ .val (.expr x)) : e.scriptEqn = e := by
  unfold Eqn.scriptEqn
  split
  · exact absurd rfl (h0 _)
  · rfl

theorem parseFilter_brackets (s : Bytes) (hs : s ≠ []) :
    parseFilter (91 :: 63 :: (s ++ [93])) = (parseEquation s).map Eqn.build := by
  have : ¬ (s.length + 1 + 1 + 1 ≤ 3) := by
    cases s with
    | nil => exact absurd rfl hs
    | cons a t => simp
  simp [parseFilter, this]

/-- **`NewFilter(e.Filter().String())`** -/
theorem parseFilter_print (e : Eqn) (h : e.okS = true) :
    parseFilter (filterPrint e.build) = some e.parenS.build := by
  rw [filterPrint, parseFilter_brackets _ (by simp [scriptPrint]), parseEquation_scriptPrint e h, Option.map_some]

theorem roundTripsScript_okS (e : Eqn) (h : e.okS = true) : roundTripsScript e = true := by
  have h1 := parseScript_print e h
  have h2 := okS_scriptEqn e h
  simp only [roundTripsScript, h1]
  rw [script_okS e h, scriptPrint_parenS _ h2]
  simp only [beq_self_eq_true, Bool.true_and]
  exact sameTemplate_of_normL (normL_build_parenS _ h2)

theorem roundTripsFilter_okS (e : Eqn) (h : e.okS = true) : roundTripsFilter e = true := by
  have h1 := parseFilter_print e h
  simp only [roundTripsFilter, h1]
  simp only [filterPrint, scriptPrint_parenS e h, beq_self_eq_true, Bool.true_and]
  exact sameTemplate_of_normL (normL_build_parenS e h)

end OjgVerif.JPText
