import OjgVerif.JPText.Chain
/-! # C14 lemmas: `precedentCorrect` on the reader's output, for trees of ANY size

`readEq` builds a right-nested chain whatever the operators are; `precedentCorrect` (model: `precCorrect`,
with fuel) regroups it by precedence. Proved here by induction (no enumeration):

* `pc_idem` — a properly parenthesised tree is left as it is;
* `pc_insert` — the rotation step: `T o X` with `X` done goes down the left spine of `X`;
* `pc_chain` — a chain of operands and infix operators is turned into a properly parenthesised tree with
  the same operands and operators in the same order, with fuel linear in the size;
* `pd_unique` — a properly parenthesised tree is determined by its operands and operators in order;
* `precCorrect_chainify` — hence `precCorrect (chainify g) = g` for every properly parenthesised `g`,
  with the fuel `precFuel` the entry points use. -/
namespace OjgVerif.JPText
open OjgVerif

theorem pc_val (f : Nat) (v : Val) : precCorrect (f+1) (.val v) = some (.val v) := by
  simp [precCorrect]

theorem pc_un (f : Nat) (o : Op) (l l' : Eqn) (h : precCorrect f l = some l') :
    precCorrect (f+1) (.un o l) = some (.un o l') := by
  simp [precCorrect, h]

theorem pc_bin_val (f : Nat) (o : Op) (l l' : Eqn) (v : Val) (h : precCorrect f l = some l') :
    precCorrect (f+1) (.bin o l (.val v)) = some (.bin o l' (.val v)) := by
  simp [precCorrect, h]

/-- right operand with an operator `ro`, no rotation, corrected to `r'` whose top does not call for a rotation either -/
theorem pc_bin_keep (f : Nat) (o : Op) (l l' r r' : Eqn) (hl : precCorrect f l = some l')
    (hr : precCorrect f r = some r') (h1 : isCall o = true ∨ (topPrec r < o.prec ∧ topPrec r' < o.prec)) :
    precCorrect (f+1) (.bin o l r) = some (.bin o l' r') := by
  cases r with
  | val v =>
    cases f with
    | zero => simp [precCorrect] at hr
    | succ f => simp [precCorrect] at hr; subst hr; simp [precCorrect, hl]
  | un ro rl =>
    rcases h1 with h1 | ⟨h1, h2⟩
    · simp [precCorrect, hl, h1, hr]
    · cases hc : isCall o
      · simp only [topPrec, Eqn.op?] at h1
        have : ¬ o.prec ≤ ro.prec := by omega
        simp only [precCorrect, hl, hc, this, hr]
        cases hop : r'.op? with
        | none => simp
        | some ro2 =>
          simp only [topPrec, hop] at h2
          have : ¬ o.prec ≤ ro2.prec := by omega
          simp [this]
      · simp [precCorrect, hl, hc, hr]
  | bin ro rl rr =>
    rcases h1 with h1 | ⟨h1, h2⟩
    · simp [precCorrect, hl, h1, hr]
    · cases hc : isCall o
      · simp only [topPrec, Eqn.op?] at h1
        have : ¬ o.prec ≤ ro.prec := by omega
        simp only [precCorrect, hl, hc, this, hr]
        cases hop : r'.op? with
        | none => simp
        | some ro2 =>
          simp only [topPrec, hop] at h2
          have : ¬ o.prec ≤ ro2.prec := by omega
          simp [this]
      · simp [precCorrect, hl, hc, hr]

theorem pc_bin_rot (f : Nat) (o ro : Op) (l l' rl rr : Eqn) (hl : precCorrect f l = some l')
    (hc : isCall o = false) (h : o.prec ≤ ro.prec) :
    precCorrect (f+1) (.bin o l (.bin ro rl rr)) = precCorrect f (.bin ro (.bin o l' rl) rr) := by
  simp [precCorrect, hl, hc, h]

/-- right operand corrected to `r'`, whose top operator then calls for a rotation -/
theorem pc_bin_again (f : Nat) (o ro : Op) (l l' rl rr r' : Eqn) (hl : precCorrect f l = some l')
    (hc : isCall o = false) (h : ¬ o.prec ≤ ro.prec) (hr : precCorrect f (.bin ro rl rr) = some r')
    (h2 : 1 ≤ o.prec) (h3 : o.prec ≤ topPrec r') :
    precCorrect (f+1) (.bin o l (.bin ro rl rr)) = precCorrect f (.bin o l' r') := by
  simp only [precCorrect, hl, hc, h, hr]
  cases hop : r'.op? with
  | none => simp [topPrec, hop] at h3; omega
  | some ro2 => simp only [topPrec, hop] at h3; simp [h3]

theorem eqnSize_pos (t : Eqn) : 1 ≤ eqnSize t := by cases t <;> simp [eqnSize] <;> omega

theorem isInfix_iff (o : Op) : o.isInfix = true ↔ 1 ≤ o.prec ∧ isCall o = false := by
  simp [Op.isInfix]

/-- `precedentCorrect` leaves a properly parenthesised tree as it is -/
theorem pc_idem : ∀ t : Eqn, t.pd = true → ∀ f, eqnSize t ≤ f → precCorrect f t = some t := by
  intro t
  induction t with
  | val v => intro _ f hf; cases f with
    | zero => simp [eqnSize] at hf
    | succ f => exact pc_val f v
  | un o l ih =>
    intro hp f hf
    simp only [Eqn.pd, Bool.and_eq_true] at hp
    cases f with
    | zero => simp [eqnSize] at hf
    | succ f => exact pc_un f o l l (ih hp.2 f (by simp [eqnSize] at hf; omega))
  | bin o l r ihl ihr =>
    intro hp f hf
    cases f with
    | zero => simp [eqnSize] at hf
    | succ f =>
      simp only [eqnSize] at hf
      cases hc : isCall o
      · simp only [Eqn.pd, hc, Bool.false_eq_true, if_false, Bool.and_eq_true, decide_eq_true_eq] at hp
        exact pc_bin_keep f o l l r r (ihl hp.2.2.2.1 f (by omega)) (ihr hp.2.2.2.2 f (by omega))
          (Or.inr ⟨hp.2.2.1, hp.2.2.1⟩)
      · simp only [Eqn.pd, hc, if_true, Bool.and_eq_true] at hp
        exact pc_bin_keep f o l l r r (ihl hp.2.1 f (by omega)) (ihr hp.2.2 f (by omega)) (Or.inl hc)

/-- `T o X` for a properly parenthesised `X`: `T o` goes down the left spine of `X` past every operator
that binds at least as loosely as `o` -/
def insertLeft (T : Eqn) (o : Op) : Eqn → Eqn
  | .bin xo xl xr => if o.prec ≤ xo.prec then .bin xo (insertLeft T o xl) xr else .bin o T (.bin xo xl xr)
  | x => .bin o T x

inductive Tok where
  | atom (e : Eqn)
  | op (o : Op)

/-- operands and infix operators from left to right; `!x`, `(x)`, `f(x, y)` are operands -/
def inorder : Eqn → List Tok
  | .bin o l r => if o.isInfix then inorder l ++ .op o :: inorder r else [.atom (.bin o l r)]
  | .un o l => [.atom (.un o l)]
  | .val v => [.atom (.val v)]

theorem inorder_atom (t : Eqn) (h : topPrec t = 0) : inorder t = [.atom t] := by
  cases t with
  | val v => rfl
  | un o l => rfl
  | bin o l r =>
    simp only [topPrec, Eqn.op?] at h
    simp [inorder, Op.isInfix, h]

theorem topPrec_insertLeft (T : Eqn) (o : Op) (X : Eqn) :
    topPrec (insertLeft T o X) = o.prec ∨ topPrec (insertLeft T o X) = topPrec X := by
  cases X with
  | val v => simp [insertLeft, topPrec, Eqn.op?]
  | un xo xl => simp [insertLeft, topPrec, Eqn.op?]
  | bin xo xl xr =>
    simp only [insertLeft]
    split <;> simp [topPrec, Eqn.op?]

theorem pd_infix {o : Op} {l r : Eqn} (ho : o.isInfix = true) :
    (Eqn.bin o l r).pd = true ↔ topPrec l ≤ o.prec ∧ topPrec r < o.prec ∧ l.pd = true ∧ r.pd = true := by
  rw [isInfix_iff] at ho
  simp [Eqn.pd, ho.2, ho.1]

theorem pd_bin_cases {o : Op} {l r : Eqn} (h : (Eqn.bin o l r).pd = true) :
    (o.isInfix = true ∧ topPrec l ≤ o.prec ∧ topPrec r < o.prec ∧ l.pd = true ∧ r.pd = true) ∨
    (o.isInfix = false ∧ isCall o = true ∧ o.prec = 0 ∧ l.pd = true ∧ r.pd = true) := by
  cases hc : isCall o
  · left
    simp only [Eqn.pd, hc, Bool.false_eq_true, if_false, Bool.and_eq_true, decide_eq_true_eq] at h
    refine ⟨by simp [Op.isInfix, hc, h.1], h.2.1, h.2.2.1, h.2.2.2.1, h.2.2.2.2⟩
  · right
    simp only [Eqn.pd, hc, if_true, Bool.and_eq_true, beq_iff_eq] at h
    exact ⟨by simp [Op.isInfix, hc], rfl, h.1, h.2.1, h.2.2⟩

theorem pd_topPrec_atom {t : Eqn} (hp : t.pd = true) (h : t.isAtom = true) : topPrec t = 0 := by
  cases t with
  | val v => rfl
  | un o l => simp only [Eqn.pd, Bool.and_eq_true, beq_iff_eq] at hp; simp [topPrec, Eqn.op?, hp.1]
  | bin o l r =>
    rcases pd_bin_cases hp with h1 | h1
    · simp [Eqn.isAtom, h1.1] at h
    · simp [topPrec, Eqn.op?, h1.2.2.1]

/-- the step of `precedentCorrect` at an infix node whose left operand is done and whose right operand is
properly parenthesised already -/
theorem pc_insert (T : Eqn) (o : Op) (hT : T.pd = true) (ho : o.isInfix = true) (hTo : topPrec T ≤ o.prec) :
    ∀ X : Eqn, X.pd = true → ∀ f, eqnSize T + 2 * eqnSize X + 1 ≤ f →
      precCorrect f (.bin o T X) = some (insertLeft T o X) ∧ (insertLeft T o X).pd = true ∧
      eqnSize (insertLeft T o X) = 1 + eqnSize T + eqnSize X ∧
      inorder (insertLeft T o X) = inorder T ++ .op o :: inorder X := by
  have ho' := (isInfix_iff o).1 ho
  intro X
  induction X with
  | val v =>
    intro _ f hf
    cases f with
    | zero => omega
    | succ f =>
      refine ⟨pc_bin_val f o T T v (pc_idem T hT f (by omega)), ?_, by simp [insertLeft, eqnSize],
        by simp [insertLeft, inorder, ho]⟩
      exact (pd_infix ho).2 ⟨hTo, by simp [topPrec, Eqn.op?]; omega, hT, rfl⟩
  | un xo xl _ =>
    intro hX f hf
    cases f with
    | zero => omega
    | succ f =>
      have hx0 : xo.prec = 0 := by simp only [Eqn.pd, Bool.and_eq_true, beq_iff_eq] at hX; exact hX.1
      have htx : topPrec (.un xo xl) < o.prec := by simp [topPrec, Eqn.op?, hx0]; omega
      refine ⟨pc_bin_keep f o T T _ _ (pc_idem T hT f (by omega)) (pc_idem _ hX f (by omega)) (Or.inr ⟨htx, htx⟩),
        ?_, by simp [insertLeft, eqnSize], by simp [insertLeft, inorder, ho]⟩
      simp only [insertLeft, pd_infix ho]; exact ⟨hTo, htx, hT, hX⟩
  | bin xo xl xr ihl _ =>
    intro hX f hf
    cases f with
    | zero => omega
    | succ f =>
      simp only [eqnSize] at hf
      by_cases hle : o.prec ≤ xo.prec
      · -- rotation
        have hxo : xo.isInfix = true := by
          rcases pd_bin_cases hX with h1 | h1
          · exact h1.1
          · omega
        have hX' := (pd_infix hxo).1 hX
        cases f with
        | zero => omega
        | succ f =>
          have ih := ihl hX'.2.2.1 f (by omega)
          have hL : topPrec (insertLeft T o xl) ≤ xo.prec := by
            rcases topPrec_insertLeft T o xl with h | h <;> rw [h] <;> omega
          have hpd : (Eqn.bin xo (insertLeft T o xl) xr).pd = true := (pd_infix hxo).2 ⟨hL, hX'.2.1, ih.2.1, hX'.2.2.2⟩
          have hxoc := ((isInfix_iff xo).1 hxo).2
          refine ⟨?_, by simpa [insertLeft, hle] using hpd, by simp [insertLeft, hle, eqnSize, ih.2.2.1]; omega,
            by simp [insertLeft, hle, inorder, hxo, ih.2.2.2]⟩
          rw [pc_bin_rot (f+1) o xo T T xl xr (pc_idem T hT _ (by omega)) ho'.2 hle]
          simp only [insertLeft, hle, if_true]
          have hr := pc_idem xr hX'.2.2.2 f (by omega)
          exact pc_bin_keep f xo _ _ xr xr ih.1 hr (Or.inr ⟨hX'.2.1, hX'.2.1⟩)
      · have htx : topPrec (.bin xo xl xr) < o.prec := by simp [topPrec, Eqn.op?]; omega
        have hk := pc_bin_keep f o T T _ _ (pc_idem T hT f (by omega))
          (pc_idem _ hX f (by simp [eqnSize]; omega)) (Or.inr ⟨htx, htx⟩)
        refine ⟨by simpa [insertLeft, hle] using hk, ?_, by simp [insertLeft, hle, eqnSize], by simp [insertLeft, hle, inorder, ho]⟩
        simp only [insertLeft, hle, if_false, pd_infix ho]; exact ⟨hTo, htx, hT, hX⟩

/-- an operand of a chain and what `precedentCorrect` makes of it -/
structure AtomFix (a a' : Eqn) : Prop where
  fix : ∀ f, 3 * eqnSize a ≤ f → precCorrect f a = some a'
  size : eqnSize a' = eqnSize a
  pd : a'.pd = true
  top : topPrec a = 0
  top' : topPrec a' = 0

/-- `R` is a right-nested chain of operands and infix operators; `toks`: the corrected operands and the
operators, from left to right -/
inductive Chain : Eqn → List Tok → Prop
  | atom (a a' : Eqn) : AtomFix a a' → Chain a [.atom a']
  | cons (ro : Op) (a a' rr : Eqn) (toks : List Tok) : ro.isInfix = true → AtomFix a a' → Chain rr toks →
      Chain (.bin ro a rr) (.atom a' :: .op ro :: toks)

theorem pc_bin_atom (f : Nat) (o : Op) (T T' a a' : Eqn) (hT : precCorrect f T = some T')
    (ha : precCorrect f a = some a') (top : topPrec a = 0) (top' : topPrec a' = 0) (ho : o.isInfix = true) :
    precCorrect (f+1) (.bin o T a) = some (.bin o T' a') := by
  have ho' := (isInfix_iff o).1 ho
  exact pc_bin_keep f o T T' a a' hT ha (Or.inr ⟨by omega, by omega⟩)

theorem pc_chain : ∀ (R : Eqn) (toks : List Tok), Chain R toks → ∀ (T T' : Eqn) (o : Op) (nT : Nat),
    (∀ f, nT ≤ f → precCorrect f T = some T') → eqnSize T ≤ nT → eqnSize T' = eqnSize T → T'.pd = true →
    topPrec T' ≤ o.prec → o.isInfix = true →
    ∃ t', (∀ f, nT + 3 * eqnSize R + 2 ≤ f → precCorrect f (.bin o T R) = some t') ∧ t'.pd = true ∧
      eqnSize t' = 1 + eqnSize T + eqnSize R ∧ inorder t' = inorder T' ++ .op o :: toks ∧ 1 ≤ topPrec t' := by
  intro R toks hch
  induction hch with
  | atom a a' ha =>
    intro T T' o nT hT hn hs hp hTo ho
    have ho' := (isInfix_iff o).1 ho
    refine ⟨.bin o T' a', ?_, (pd_infix ho).2 ⟨hTo, by rw [ha.top']; omega, hp, ha.pd⟩,
      by simp [eqnSize, hs, ha.size], by simp [inorder, ho, inorder_atom a' ha.top'], by simp [topPrec, Eqn.op?]; omega⟩
    intro f hf
    cases f with
    | zero => omega
    | succ f => exact pc_bin_atom f o T T' a a' (hT f (by omega)) (ha.fix f (by omega)) ha.top ha.top' ho
  | cons ro a a' rr toks hro ha _ ih =>
    intro T T' o nT hT hn hs hp hTo ho
    have ho' := (isInfix_iff o).1 ho
    have hro' := (isInfix_iff ro).1 hro
    by_cases hle : o.prec ≤ ro.prec
    · -- rotation: `(T o a) ro rr`
      have hT2 : ∀ f, nT + 3 * eqnSize a + 1 ≤ f → precCorrect f (.bin o T' a) = some (.bin o T' a') := by
        intro f hf
        cases f with
        | zero => omega
        | succ f =>
          exact pc_bin_atom f o T' T' a a' (pc_idem T' hp f (by omega)) (ha.fix f (by omega)) ha.top ha.top' ho
      have hp2 : (Eqn.bin o T' a').pd = true := (pd_infix ho).2 ⟨hTo, by rw [ha.top']; omega, hp, ha.pd⟩
      obtain ⟨t', h1, h2, h3, h4, h5⟩ := ih (.bin o T' a) (.bin o T' a') ro (nT + 3 * eqnSize a + 1) hT2
        (by simp only [eqnSize]; have := eqnSize_pos a; omega) (by simp [eqnSize, ha.size]) hp2
        (by simpa [topPrec, Eqn.op?] using hle) hro
      refine ⟨t', ?_, h2, by rw [h3]; simp only [eqnSize]; omega, by simp [h4, inorder, ho, inorder_atom a' ha.top'], h5⟩
      intro f hf
      cases f with
      | zero => omega
      | succ f =>
        simp only [eqnSize] at hf
        rw [pc_bin_rot f o ro T T' a rr (hT f (by omega)) ho'.2 hle]
        exact h1 f (by omega)
    · -- the rest first, then `T o` goes down its left spine
      obtain ⟨r', h1, h2, h3, h4, h5⟩ := ih a a' ro (3 * eqnSize a) ha.fix (by omega) ha.size ha.pd (by rw [ha.top']; omega) hro
      have hins := pc_insert T' o hp ho hTo r' h2
      refine ⟨insertLeft T' o r', ?_, ?_, ?_, ?_, ?_⟩
      · intro f hf
        cases f with
        | zero => omega
        | succ f =>
          simp only [eqnSize] at hf
          have hr : precCorrect f (.bin ro a rr) = some r' := h1 f (by omega)
          by_cases h6 : o.prec ≤ topPrec r'
          · rw [pc_bin_again f o ro T T' a rr r' (hT f (by omega)) ho'.2 hle hr ho'.1 h6]
            exact (hins f (by rw [h3, hs]; omega)).1
          · have hk := pc_bin_keep f o T T' _ r' (hT f (by omega)) hr
              (Or.inr ⟨by simp [topPrec, Eqn.op?]; omega, by omega⟩)
            rw [hk]
            cases r' with
            | val v => rfl
            | un xo xl => rfl
            | bin xo xl xr =>
              simp only [topPrec, Eqn.op?] at h6
              simp [insertLeft, h6]
      · exact (hins _ (Nat.le_refl _)).2.1
      · rw [(hins _ (Nat.le_refl _)).2.2.1, h3, hs]; rfl
      · rw [(hins _ (Nat.le_refl _)).2.2.2, h4, inorder_atom a' ha.top']; simp
      · rcases topPrec_insertLeft T' o r' with h | h <;> rw [h] <;> omega

/-! ## a properly parenthesised tree is determined by its operands and operators in order -/

def Tok.isOp : Tok → Option Op
  | .op o => some o
  | .atom _ => none

theorem inorder_ne_nil (t : Eqn) : inorder t ≠ [] := by
  cases t with
  | val v => simp [inorder]
  | un o l => simp [inorder]
  | bin o l r => simp only [inorder]; split <;> simp

theorem ops_le_top : ∀ t : Eqn, t.pd = true → ∀ o', Tok.op o' ∈ inorder t → o'.prec ≤ topPrec t := by
  intro t
  induction t with
  | val v => intro _ o' h; simp [inorder] at h
  | un o l _ => intro _ o' h; simp [inorder] at h
  | bin o l r ihl ihr =>
    intro hp o' h
    rcases pd_bin_cases hp with h1 | h1
    · simp only [inorder, h1.1, if_true, List.mem_append, List.mem_cons] at h
      simp only [topPrec, Eqn.op?]
      rcases h with h | h | h
      · have := ihl h1.2.2.2.1 o' h; omega
      · cases h; omega
      · have := ihr h1.2.2.2.2 o' h; omega
    · simp [inorder, h1.1] at h

theorem pd_unique : ∀ t1 : Eqn, t1.pd = true → ∀ t2 : Eqn, t2.pd = true → inorder t1 = inorder t2 → t1 = t2 := by
  intro t1
  induction t1 with
  | val v =>
    intro _ t2 _ h
    cases t2 with
    | val v2 => simpa [inorder] using h
    | un o l => simp [inorder] at h
    | bin o l r =>
      simp only [inorder] at h
      split at h
      · have := congrArg List.length h; have := inorder_ne_nil l; cases hl : inorder l <;> simp_all
      · simp at h
  | un o l _ =>
    intro _ t2 _ h
    cases t2 with
    | val v2 => simp [inorder] at h
    | un o2 l2 => simpa [inorder] using h
    | bin o2 l2 r2 =>
      simp only [inorder] at h
      split at h
      · have := inorder_ne_nil l2; cases hl : inorder l2 <;> simp_all
      · simp at h
  | bin o l r ihl ihr =>
    intro hp t2 hp2 h
    rcases pd_bin_cases hp with h1 | h1
    · -- infix
      cases t2 with
      | val v2 => simp only [inorder, h1.1, if_true] at h; have := inorder_ne_nil l; cases hl : inorder l <;> simp_all
      | un o2 l2 => simp only [inorder, h1.1, if_true] at h; have := inorder_ne_nil l; cases hl : inorder l <;> simp_all
      | bin o2 l2 r2 =>
        rcases pd_bin_cases hp2 with h2 | h2
        · simp only [inorder, h1.1, h2.1, if_true] at h
          rcases List.append_eq_append_iff.1 h with ⟨m, hm1, hm2⟩ | ⟨m, hm1, hm2⟩
          · cases m with
            | nil =>
              simp only [List.append_nil, List.nil_append, List.cons.injEq, Tok.op.injEq] at hm1 hm2
              rw [ihl h1.2.2.2.1 l2 h2.2.2.2.1 hm1.symm, ihr h1.2.2.2.2 r2 h2.2.2.2.2 hm2.2, hm2.1]
            | cons x m =>
              simp only [List.cons_append, List.cons.injEq] at hm2
              -- o occurs in l2, o2 occurs in r
              have e1 : Tok.op o ∈ inorder l2 := by rw [hm1, ← hm2.1]; simp
              have e2 : Tok.op o2 ∈ inorder r := by rw [hm2.2]; simp
              have := ops_le_top l2 h2.2.2.2.1 o e1
              have := ops_le_top r h1.2.2.2.2 o2 e2
              omega
          · cases m with
            | nil =>
              simp only [List.append_nil, List.nil_append, List.cons.injEq, Tok.op.injEq] at hm1 hm2
              rw [ihl h1.2.2.2.1 l2 h2.2.2.2.1 hm1, ihr h1.2.2.2.2 r2 h2.2.2.2.2 hm2.2.symm, hm2.1]
            | cons x m =>
              simp only [List.cons_append, List.cons.injEq] at hm2
              have e1 : Tok.op o2 ∈ inorder l := by rw [hm1, ← hm2.1]; simp
              have e2 : Tok.op o ∈ inorder r2 := by rw [hm2.2]; simp
              have := ops_le_top l h1.2.2.2.1 o2 e1
              have := ops_le_top r2 h2.2.2.2.2 o e2
              omega
        · simp only [inorder, h1.1, h2.1, if_true] at h
          have := inorder_ne_nil l; cases hl : inorder l <;> simp_all
    · cases t2 with
      | val v2 => simp [inorder, h1.1] at h
      | un o2 l2 => simp [inorder, h1.1] at h
      | bin o2 l2 r2 =>
        rcases pd_bin_cases hp2 with h2 | h2
        · simp only [inorder, h1.1, h2.1, if_true] at h
          have := inorder_ne_nil l2; cases hl : inorder l2 <;> simp_all
        · simpa [inorder, h1.1, h2.1] using h

/-! ## `precedentCorrect` undoes the flattening -/

theorem eqnSize_appendChain : ∀ (c : Eqn) (o : Op) (d : Eqn), eqnSize (appendChain c o d) = 1 + eqnSize c + eqnSize d := by
  intro c
  induction c with
  | val v => intro o d; simp [appendChain, eqnSize]
  | un co cl _ => intro o d; simp [appendChain, eqnSize]
  | bin co cl cr _ ihr =>
    intro o d
    simp only [appendChain]
    split
    · simp only [eqnSize, ihr]; omega
    · simp [eqnSize]

theorem eqnSize_chainify : ∀ g : Eqn, eqnSize (chainify g) = eqnSize g := by
  intro g
  induction g with
  | val v => rfl
  | un o l ih => simp [chainify, eqnSize, ih]
  | bin o l r ihl ihr =>
    simp only [chainify]
    split
    · rw [eqnSize_appendChain, ihl, ihr]; rfl
    · simp [eqnSize, ihl, ihr]

theorem chain_append {c d : Eqn} {tc td : List Tok} (o : Op) (ho : o.isInfix = true) (hc : Chain c tc) (hd : Chain d td) :
    Chain (appendChain c o d) (tc ++ .op o :: td) := by
  induction hc with
  | atom a a' ha =>
    cases a with
    | val v => exact Chain.cons o _ a' d td ho ha hd
    | un co cl => exact Chain.cons o _ a' d td ho ha hd
    | bin co cl cr =>
      have h0 := ha.top
      simp only [topPrec, Eqn.op?] at h0
      have : co.isInfix = false := by simp [Op.isInfix, h0]
      simp only [appendChain, this, Bool.false_eq_true, if_false]
      exact Chain.cons o _ a' d td ho ha hd
  | cons ro a a' rr toks hro ha _ ih =>
    simp only [appendChain, hro, if_true]
    exact Chain.cons ro a a' _ _ hro ha ih

/-- with fuel at least three times the size, `precedentCorrect` turns the flattened `g` back into `g` -/
def FixG (g : Eqn) : Prop := ∀ f, 3 * eqnSize g ≤ f → precCorrect f (chainify g) = some g

theorem atomFix_of (g : Eqn) (hp : g.pd = true) (ha : g.isAtom = true) (hfix : FixG g) : AtomFix (chainify g) g := by
  refine ⟨by intro f hf; exact hfix f (by rw [eqnSize_chainify] at hf; exact hf), (eqnSize_chainify g).symm, hp, ?_,
    pd_topPrec_atom hp ha⟩
  have h0 := pd_topPrec_atom hp ha
  cases g with
  | val v => rfl
  | un o l => simpa [chainify, topPrec, Eqn.op?] using h0
  | bin o l r =>
    have : o.isInfix = false := by simpa [Eqn.isAtom] using ha
    simpa [chainify, this, topPrec, Eqn.op?] using h0

theorem chainOf (n : Nat) (H : ∀ a : Eqn, eqnSize a ≤ n → a.pd = true → FixG a) :
    ∀ g : Eqn, eqnSize g ≤ n → g.pd = true → Chain (chainify g) (inorder g) := by
  intro g
  induction g with
  | val v => intro hn hp; exact Chain.atom _ _ (atomFix_of _ hp rfl (H _ hn hp))
  | un o l _ => intro hn hp; exact Chain.atom _ _ (atomFix_of _ hp rfl (H _ hn hp))
  | bin o l r ihl ihr =>
    intro hn hp
    rcases pd_bin_cases hp with h1 | h1
    · simp only [eqnSize] at hn
      simp only [chainify, inorder, h1.1, if_true]
      exact chain_append o h1.1 (ihl (by omega) h1.2.2.2.1) (ihr (by omega) h1.2.2.2.2)
    · have hi : (Eqn.bin o l r).isAtom = true := by simp [Eqn.isAtom, h1.1]
      have := Chain.atom _ _ (atomFix_of _ hp hi (H _ hn hp))
      simpa [inorder, h1.1] using this

theorem fixG_all : ∀ (n : Nat) (g : Eqn), eqnSize g ≤ n → g.pd = true → FixG g := by
  intro n
  induction n with
  | zero => intro g hn; have := eqnSize_pos g; omega
  | succ n ih =>
    intro g hn hp f hf
    cases f with
    | zero => have := eqnSize_pos g; omega
    | succ f =>
      cases g with
      | val v => exact pc_val f v
      | un o l =>
        simp only [eqnSize] at hn hf
        simp only [Eqn.pd, Bool.and_eq_true] at hp
        exact pc_un f o _ l (ih l (by omega) hp.2 f (by omega))
      | bin o l r =>
        simp only [eqnSize] at hn hf
        rcases pd_bin_cases hp with h1 | h1
        · -- infix: a chain
          have hc : Chain (chainify (.bin o l r)) (inorder (.bin o l r)) := by
            simp only [chainify, inorder, h1.1, if_true]
            exact chain_append o h1.1 (chainOf n ih l (by omega) h1.2.2.2.1) (chainOf n ih r (by omega) h1.2.2.2.2)
          have hsz := eqnSize_chainify (.bin o l r)
          generalize hcg : chainify (.bin o l r) = t at hc hsz
          generalize hin : inorder (.bin o l r) = toks at hc
          cases hc with
          | atom a a' ha =>
            simp only [inorder, h1.1, if_true] at hin
            have := inorder_ne_nil l
            cases hl : inorder l <;> simp_all
          | cons ro a a' rr toks' hro ha hrr =>
            obtain ⟨t', h2, h3, _, h5, _⟩ := pc_chain rr toks' hrr a a' ro (3 * eqnSize a) ha.fix (by omega) ha.size ha.pd
              (by rw [ha.top']; omega) hro
            have : t' = .bin o l r := by
              apply pd_unique t' h3 _ hp
              rw [h5, inorder_atom a' ha.top', hin]; rfl
            rw [← this]
            simp only [eqnSize] at hsz
            exact h2 (f+1) (by omega)
        · simp only [chainify, h1.1, Bool.false_eq_true, if_false]
          exact pc_bin_keep f o _ l _ r (ih l (by omega) h1.2.2.2.1 f (by omega)) (ih r (by omega) h1.2.2.2.2 f (by omega))
            (Or.inl h1.2.1)

/-- **`precedentCorrect` is a left inverse of the reader's flattening, for trees of any size**: for every
properly parenthesised tree `g` (any operators, any operands) the right-nested chain `chainify g` that
`readEq` builds for the text of `g` is turned back into `g`, with the fuel the entry points give
(`precFuel`: size² + 16, the square standing for the unbounded Go recursion). -/
theorem precCorrect_chainify (g : Eqn) (hp : g.pd = true) :
    precCorrect (precFuel (chainify g)) (chainify g) = some g := by
  apply fixG_all (eqnSize g) g (Nat.le_refl _) hp
  rw [precFuel, eqnSize_chainify]
  have : eqnSize g * 3 ≤ eqnSize g * eqnSize g + 9 := by
    rcases Nat.lt_or_ge (eqnSize g) 3 with h | h
    · have : eqnSize g * 3 ≤ 9 := by omega
      omega
    · have := Nat.mul_le_mul_left (eqnSize g) h; omega
  omega
end OjgVerif.JPText
