import OjgVerif.JPText.Spec
/-! # C14: the `Bracket` flag fragment (`jp.B()`, `Expr.B()`)

`jp.Bracket` is not a selector: `Expr.Append` (jp/expr.go) writes nothing for it and switches to the
bracket notation for the fragments that follow; the evaluators pass over it. The parser never builds it,
so the `Frag` type of the model does not have it; an API-built expression with flags is a list of
`Option Frag` here (`none`: the flag). `bprintL` is the loop of `Expr.Append` with the flag: the index
test `i == 0` counts the flag (a fragment after a leading flag is not "first", which no fragment looks at
in bracket notation), the flag leaves `afterDescent` as it is (so `R().D().B().C("a b")` is `$..['a b']`:
the descent was written as one dot, the second dot is still due).

Two deviations from C14 remain for expressions WITH the flag (both named, both decided on the object):

* `bracketReprint` (known finding C14-bracket-flag): the grammar has no text for the flag. The text is
  accepted and read as the expression without the flags, which re-prints in dot notation wherever a
  fragment has one — `R().B().C("a")`: `$['a']`, read back, prints `$.a`. Exactly when the text with the
  flags differs from the text without them (a wildcard excepted: `[*]` is read as `Wildcard('#')`, which
  prints `[*]` again — `stripBH`).
* `bracketLast` (known finding C14-bracket-last): the evaluators of jp/get.go … test "last fragment" by
  position, so a trailing flag makes the fragment before it a non-last one, which drops scalar results
  (`R().C("a").B()` on `{"a":1}` gives nothing; the re-parsed `$.a` gives 1; `B()` alone gives the whole
  document, its text `` read back gives nothing). -/
namespace OjgVerif.JPText
open OjgVerif

abbrev BExpr := List (Option Frag)

/-- the fragment loop of `Expr.Append` over an expression with `Bracket` flags -/
def bprintL (br first aD : Bool) : BExpr → Bytes
  | [] => if aD then [46] else []
  | none :: r => bprintL true false aD r
  | some f :: r =>
    (if aD then [46] else []) ++ (f.print br (first || aD) ++ bprintL br false (f.isDescent && !br) r)

/-- `Expr.Append(buf, bracket)` for an API-built expression -/
def bexprPrint (br : Bool) (x : BExpr) : Bytes := bprintL br true false x

/-- the expression without its flags (what every evaluator sees, but for the "last fragment" test) -/
def stripB : BExpr → Expr
  | [] => []
  | none :: r => stripB r
  | some f :: r => f :: stripB r

/-- without flags this is `Expr.Append` of Print.lean -/
theorem bprintL_some (br : Bool) : ∀ (x : Expr) (first aD : Bool),
    bprintL br first aD (x.map some) = Frag.printL br first aD x := by
  intro x
  induction x with
  | nil => intro first aD; simp [bprintL, Frag.printL]
  | cons f r ih => intro first aD; simp [bprintL, Frag.printL, ih]

theorem bexprPrint_some (br : Bool) (x : Expr) : bexprPrint br (x.map some) = exprPrint br x :=
  bprintL_some br x true false

/-- C14 for an API-built expression with flags: the text is accepted, the result prints as the text, and
is the expression without the flags up to the normal form -/
def roundTripsBExpr (br : Bool) (x : BExpr) : Bool :=
  match parseExpr (bexprPrint br x) with
  | none => false
  | some y => exprPrint br y == bexprPrint br x && sameExpr y (stripB x)

/-- the expression without its flags as the parser can remember it: a wildcard written `[*]` is read back
as `Wildcard('#')`, which prints `[*]` again (`br`: bracket notation is on) -/
def stripBH (br : Bool) : BExpr → Expr
  | [] => []
  | none :: r => stripBH true r
  | some (.wild h) :: r => .wild (h || br) :: stripBH br r
  | some f :: r => f :: stripBH br r

/-- the flags change the text in a way the parser does not remember (C14-bracket-flag) -/
def bracketReprint (br : Bool) (x : BExpr) : Bool := bexprPrint br x != exprPrint br (stripBH br x)

def endsWithFlag : BExpr → Bool
  | [] => false
  | [none] => true
  | [some _] => false
  | _ :: r => endsWithFlag r

/-- a trailing flag (C14-bracket-last); also an expression of flags only: `jp.B().Get(d)` is `[d]`, its text
is empty and the empty expression gives nothing -/
def bracketLast (x : BExpr) : Bool := endsWithFlag x

end OjgVerif.JPText
