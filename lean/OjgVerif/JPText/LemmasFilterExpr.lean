import OjgVerif.JPText.LemmasLeafy
import OjgVerif.JPText.LemmasLoop
/-! # C14 lemmas: EXPRESSIONS that carry filter fragments, any size

`x = R().Child(…)…Filter(e)…` where every filter equation `e` is in the class of the general equation
theorems (`Eqn.okC`: any size, path operands filter-free). `readFilter_text`: the filter reader on the text
`Script.Append` writes; `filterRT`: so a filter fragment is read back to the template of `(leafy e).parenS`,
which prints identically and is the same template up to `group` operators and the normal form of constants;
`readExprLoop_gen` (LemmasLoop) then carries the fragment loop over them. -/
namespace OjgVerif.JPText
open OjgVerif

theorem readFilter_text (G : Eqn) (hr : G.readable = true) (hp : G.pd = true) (f : Nat) (hf : eqnSize G + 1 ≤ f)
    (T : Bytes) : readFilter (readEq f) (G.text ++ 93 :: T) = some ((reduceGroups G none).build, T) := by
  have hfol : eqFollow (93 :: T) = true := by simp [eqFollow, dropSpaces, peek]
  have h1 := (readEq_text (chainify G) (raw_chainify G hr) f (93 :: T) (by rw [eqnSize_chainify]; exact hf) hfol).1
  rw [text_chainify] at h1
  cases hb : G.text ++ 93 :: T with
  | nil => simp at hb
  | cons b r =>
    rw [hb] at h1
    simp [readFilter, h1, precCorrect_chainify G hp, dropSpaces]

/-- the tree `Script.Append` writes for the filter of `e` -/
def Eqn.filterTree (e : Eqn) : Eqn := .un Gen.JpOps.op_group e.leafy.parenS

theorem filter_print (br fl : Bool) (t : List Item) : Frag.print br fl (.filter t) = 91 :: 63 :: (scriptPrint t ++ [93]) := by
  simp [Frag.print, scriptPrint]

theorem scriptPrint_leafy_build (e : Eqn) (h : e.okC = true) : scriptPrint e.leafy.build = scriptPrint e.build := by
  rw [(build_leafy e h).1, scriptPrint_imgI _ (build_leafy e h).2]

theorem filterTree_facts (e : Eqn) (h : e.okC = true) :
    e.filterTree.readable = true ∧ e.filterTree.pd = true ∧ reduceGroups e.filterTree none = e.leafy.parenS ∧
    e.filterTree.text = scriptPrint e.build := by
  have hs := okS_leafy e h
  refine ⟨by simp [Eqn.filterTree, Eqn.readable, readable_parenS _ hs],
    by simp [Eqn.filterTree, Eqn.pd, not_facts, pd_parenS _ hs], ?_, ?_⟩
  · simp only [Eqn.filterTree, reduceGroups, dropGroup, not_facts, Bool.true_and, if_true, reduceGroups_parenS _ hs]
  · rw [← scriptPrint_leafy_build e h, scriptPrint_okS _ hs]; rfl

/-- a filter fragment of the class is read back by the filter reader of enough fuel -/
theorem filterRT (e : Eqn) (h : e.okC = true) (F : Nat) (hF : eqnSize e.filterTree + 1 ≤ F) :
    FilterRT (readFilter (readEq F)) e.build e.leafy.parenS.build := by
  have hs := okS_leafy e h
  obtain ⟨h1, h2, h3, h4⟩ := filterTree_facts e h
  refine ⟨scriptPrint e.build, fun br fl => filter_print br fl _, fun br fl => ?_, fun T => ⟨?_, by simp [scriptPrint]⟩⟩
  · rw [filter_print, scriptPrint_parenS _ hs, scriptPrint_leafy_build e h]
  · rw [← h4, readFilter_text _ h1 h2 F hF T, h3]

/-! ## expressions -/

/-- `f'` is what the parser builds for the printed fragment `f` -/
inductive FragImg (br : Bool) : Frag → Frag → Prop
  | clean (f : Frag) : f.clean = true → FragImg br f (f.img br)
  | filt (e : Eqn) : e.okC = true → FragImg br (.filter e.build) (.filter e.leafy.parenS.build)

inductive FragsImg (br : Bool) : List Frag → List Frag → Prop
  | nil : FragsImg br [] []
  | cons (f f' : Frag) (r r' : List Frag) : FragImg br f f' → FragsImg br r r' → FragsImg br (f :: r) (f' :: r')

theorem fragImg_facts {br : Bool} {f f' : Frag} (h : FragImg br f f') :
    (∀ fl, f'.print br fl = f.print br fl) ∧ f'.norm = f.norm ∧ f'.isDescent = f.isDescent := by
  cases h with
  | clean f hc => exact ⟨fun fl => img_print br fl f (Or.inl hc), img_norm br f, img_isDescent_eq br f⟩
  | filt e he =>
    have hs := okS_leafy e he
    refine ⟨fun fl => ?_, ?_, rfl⟩
    · rw [filter_print, filter_print, scriptPrint_parenS _ hs, scriptPrint_leafy_build e he]
    · simp only [Frag.norm]
      rw [normL_build_parenS _ hs, (build_leafy e he).1, normL_imgI]

theorem fragsImg_printL {br : Bool} : ∀ {r r' : List Frag}, FragsImg br r r' → ∀ fl aD,
    Frag.printL br fl aD r' = Frag.printL br fl aD r ∧ Frag.normL r' = Frag.normL r := by
  intro r r' h
  induction h with
  | nil => intro fl aD; exact ⟨rfl, rfl⟩
  | cons f f' r r' hf _ ih =>
    intro fl aD
    obtain ⟨h1, h2, h3⟩ := fragImg_facts hf
    simp [Frag.printL, h1, h2, h3, (ih false (f.isDescent && !br)).1, (ih false false).2, Frag.normL]

theorem filterTree_size (e : Eqn) (h : e.okC = true) : eqnSize e.filterTree ≤ (scriptPrint e.build).length := by
  obtain ⟨h1, _, _, h4⟩ := filterTree_facts e h
  have := eqnSize_le_text (chainify e.filterTree) (raw_chainify _ h1)
  rw [eqnSize_chainify, text_chainify, h4] at this
  exact this

/-- with the fuel the entry point gives (length of the text + 1) every filter fragment is read back -/
theorem fragsRT_of_img {br : Bool} : ∀ {r r' : List Frag}, FragsImg br r r' → ∀ (F : Nat) (fl aD : Bool),
    (Frag.printL br fl aD r).length < F → FragsRT (readFilter (readEq F)) br r r' := by
  intro r r' h
  induction h with
  | nil => intro F fl aD _; exact FragsRT.nil
  | cons f f' r r' hf _ ih =>
    intro F fl aD hlen
    simp only [Frag.printL, List.length_append] at hlen
    have htail := ih F false (f.isDescent && !br) (by omega)
    cases hf with
    | clean f hc => exact FragsRT.clean f r r' hc htail
    | filt e he =>
      refine FragsRT.filt _ _ r r' (filterRT e he F ?_) htail
      have h1 := filterTree_size e he
      rw [filter_print] at hlen
      simp only [List.length_cons, List.length_append, List.length_nil] at hlen
      omega

theorem fragsImg_exists (br : Bool) : ∀ r : List Frag, (∀ g ∈ r, g.clean = true ∨ ∃ e : Eqn, e.okC = true ∧ g = .filter e.build) →
    ∃ r', FragsImg br r r' := by
  intro r
  induction r with
  | nil => intro _; exact ⟨[], FragsImg.nil⟩
  | cons f r ih =>
    intro h
    obtain ⟨r', hr⟩ := ih (fun g hg => h g (by simp [hg]))
    rcases h f (by simp) with hc | ⟨e, he, hf⟩
    · exact ⟨f.img br :: r', FragsImg.cons _ _ _ _ (FragImg.clean f hc) hr⟩
    · subst hf; exact ⟨_ :: r', FragsImg.cons _ _ _ _ (FragImg.filt e he) hr⟩

/-- the fragments after an optional leading Root/At are clean or filters of the class -/
def ExprOKF (x : List Frag) : Prop :=
  match x with
  | [] => True
  | f :: r =>
    (f.isRootAt = true ∨ f.clean = true ∨ ∃ e : Eqn, e.okC = true ∧ f = .filter e.build) ∧
      ∀ g ∈ r, g.clean = true ∨ ∃ e : Eqn, e.okC = true ∧ g = .filter e.build

/-- **expressions with filter fragments are read back** -/
theorem parseExpr_filter (br : Bool) (x : List Frag) (h : ExprOKF x) :
    ∃ y, parseExpr (exprPrint br x) = some y ∧ exprPrint br y = exprPrint br x ∧ sameExpr y x = true := by
  cases x with
  | nil => exact ⟨[], by simp [exprPrint, Frag.printL, parseExpr, readExpr, readExprLoop, nextFrag], rfl, by decide⟩
  | cons f r =>
    obtain ⟨hf, hr⟩ := h
    by_cases hra : f.isRootAt = true
    · obtain ⟨r', hr'⟩ := fragsImg_exists br r hr
      have hd : f.isDescent = false := by cases f <;> simp [Frag.isRootAt] at hra <;> rfl
      have hpl := fun fl aD => fragsImg_printL hr' fl aD
      have e : exprPrint br (f :: r) = f.print br true ++ restText br false false r := by
        rw [exprPrint_eq_restText]; simp [restText, hd, printL_noDescent]
      refine ⟨f :: r', ?_, ?_, ?_⟩
      · have hrt := fragsRT_of_img hr' ((exprPrint br (f :: r)).length + 1) false false (by
          rw [e, printL_noDescent]; simp only [List.length_append]; omega)
        have h3 := readExprLoop_gen _ br [] rfl r r' hrt false false ((restText br false false r).length + 1) (by omega)
        simp only [List.append_nil] at h3
        have hn : ∀ pf : P (List Item), nextFrag pf true false (f.print br true ++ restText br false false r) =
            some (some f, restText br false false r) := by
          intro pf; cases f <;> simp [Frag.isRootAt] at hra <;> simp [Frag.print, nextFrag]
        have hl : (f.print br true ++ restText br false false r).length + 1 =
            ((restText br false false r).length + 1) + 1 := by
          cases f <;> simp [Frag.isRootAt] at hra <;> simp [Frag.print]
        have key : readExpr (readFilter (readEq ((exprPrint br (f :: r)).length + 1))) (exprPrint br (f :: r)) =
            some (f :: r', []) := by
          generalize readFilter (readEq ((exprPrint br (f :: r)).length + 1)) = pf at h3 ⊢
          unfold readExpr
          rw [e, hl, readExprLoop_step pf _ true false _ _ _ (hn pf), hd, h3]
          rfl
        simp only [parseExpr, key]
      · simp only [exprPrint, Frag.printL, (hpl false (f.isDescent && !br)).1]
      · simp [sameExpr, Frag.normL, (hpl false false).2]
    · have hall : ∀ g ∈ f :: r, g.clean = true ∨ ∃ e : Eqn, e.okC = true ∧ g = .filter e.build := by
        intro g hg
        rcases List.mem_cons.1 hg with hg | hg
        · subst hg; rcases hf with h | h
          · exact absurd h hra
          · exact h
        · exact hr g hg
      obtain ⟨y, hy⟩ := fragsImg_exists br (f :: r) hall
      have hpl := fun fl aD => fragsImg_printL hy fl aD
      refine ⟨y, ?_, (hpl true false).1, by simp [sameExpr, (hpl false false).2]⟩
      have hrt := fragsRT_of_img hy ((exprPrint br (f :: r)).length + 1) true false (by simp [exprPrint])
      have h3 := readExprLoop_gen _ br [] rfl _ _ hrt true false ((exprPrint br (f :: r)).length + 1)
        (by rw [exprPrint_eq_restText]; omega)
      simp only [List.append_nil] at h3
      have key : readExpr (readFilter (readEq ((exprPrint br (f :: r)).length + 1))) (exprPrint br (f :: r)) =
          some (y, []) := by
        generalize readFilter (readEq ((exprPrint br (f :: r)).length + 1)) = pf at h3 ⊢
        unfold readExpr
        rw [exprPrint_eq_restText] at h3 ⊢
        exact h3
      simp only [parseExpr, key]

/-! ## in the words of Spec.lean -/

theorem okL_mem : ∀ (r : List Frag) (g : Frag), Frag.okL r = true → g ∈ r → g.ok = true := by
  intro r
  induction r with
  | nil => intro g _ hg; simp at hg
  | cons f r ih =>
    intro g h hg
    simp only [Frag.okL, Bool.and_eq_true] at h
    rcases List.mem_cons.1 hg with e | e
    · subst e; exact h.1
    · exact ih g h.2 e

theorem devsL_mem : ∀ (r : List Frag) (g : Frag), Frag.devsL r = [] → g ∈ r → g.devs = [] := by
  intro r
  induction r with
  | nil => intro g _ hg; simp at hg
  | cons f r ih =>
    intro g h hg
    simp only [Frag.devsL, List.append_eq_nil_iff] at h
    rcases List.mem_cons.1 hg with e | e
    · subst e; exact h.1
    · exact ih g h.2 e

/-- a fragment that is not Root/At is clean, or a filter -/
theorem clean_or_filter (g : Frag) (hok : g.ok = true) (hdev : g.devs = []) (hra : g.isRootAt = false) :
    g.clean = true ∨ ∃ t, g = .filter t := by
  cases g with
  | filter t => exact Or.inr ⟨t, rfl⟩
  | root => simp [Frag.isRootAt] at hra
  | «at» => simp [Frag.isRootAt] at hra
  | child k => exact Or.inl (clean_of_spec _ hok hdev hra rfl)
  | nth i => exact Or.inl (clean_of_spec _ hok hdev hra rfl)
  | wild h => exact Or.inl (clean_of_spec _ hok hdev hra rfl)
  | descent => exact Or.inl (clean_of_spec _ hok hdev hra rfl)
  | union ms => exact Or.inl (clean_of_spec _ hok hdev hra rfl)
  | slice ns => exact Or.inl (clean_of_spec _ hok hdev hra rfl)

/-- **C14 for expressions with filters, in the words of Spec.lean**: constructible, no named deviation, and
every filter fragment is `Filter(e)` of a constructible, deviation-free, shallow equation -/
theorem roundTripsExpr_filter_spec (br : Bool) (x : List Frag) (hok : Frag.okL x = true) (hdev : devsExpr br x = [])
    (hf : ∀ t, Frag.filter t ∈ x → ∃ e : Eqn, e.ok = true ∧ devsEqn e = [] ∧ e.shallow = true ∧ t = e.build) :
    roundTripsExpr br x = true := by
  have hx : ExprOKF x := by
    simp only [devsExpr] at hdev
    obtain ⟨hra, hdl⟩ := addIf_nil hdev
    have hgen : ∀ g ∈ x, g.isRootAt = false → g.clean = true ∨ ∃ e : Eqn, e.okC = true ∧ g = .filter e.build := by
      intro g hg hr
      rcases clean_or_filter g (okL_mem x g hok hg) (devsL_mem x g hdl hg) hr with h | ⟨t, ht⟩
      · exact Or.inl h
      · subst ht
        obtain ⟨e, h1, h2, h3, h4⟩ := hf t hg
        exact Or.inr ⟨e, okC_of_spec e h1 h2 h3, by rw [h4]⟩
    cases x with
    | nil => trivial
    | cons f r =>
      simp only [devRootAtL] at hra
      refine ⟨?_, fun g hg => ?_⟩
      · cases hfr : f.isRootAt
        · exact Or.inr (hgen f (by simp) hfr)
        · exact Or.inl rfl
      · have : g.isRootAt = false := by
          have := List.any_eq_false.1 hra g hg
          simpa using this
        exact hgen g (by simp [hg]) this
  obtain ⟨y, h1, h2, h3⟩ := parseExpr_filter br x hx
  simp [roundTripsExpr, h1, h2, h3]

end OjgVerif.JPText
