import OjgVerif.JPText.Trees
/-! C14: kernel evaluation of the model round trip of EXPRESSIONS whose filter is nested TWO levels:
`$.a[?(@.b[?(@.c o2 1)].d o1 2)]` and the same with `!` around the inner and/or the outer equation, for every
ordered pair (o1, o2) of the 19 binary constructors, both text forms. (The general theorems stop at one level of
filters; this box is finite evidence for the next one.) -/
namespace OjgVerif.JPText
open OjgVerif

def notIf (b : Bool) (e : Eqn) : Eqn := if b then .un Gen.JpOps.op_not e else e

/-- `R().Child("a").Filter(n1? (Get(@.b[?(n2? (@.c o2 1))].d) o1 2))` -/
def nested2 (n1 n2 : Bool) (o1 o2 : Op) : Expr :=
  [.root, .child [97], (notIf n1 (.bin o1
      (.un Gen.JpOps.op_get (.val (.expr [.at, .child [98],
        (notIf n2 (.bin o2 (.un Gen.JpOps.op_get (.val (.expr [.at, .child [99]]))) (.val (.int 1)))).filter,
        .child [100]])))
      (.val (.int 2)))).filter]

def nested2A : List Expr := (binOps.take 10).flatMap fun o1 => binOps.map fun o2 => nested2 false false o1 o2

set_option maxRecDepth 100000 in
theorem nested2A_all :
    (nested2A.all fun x => roundTripsExpr false x && roundTripsExpr true x &&
      (devsExpr false x).isEmpty && (devsExpr true x).isEmpty) = true := by
  decide +kernel

end OjgVerif.JPText
