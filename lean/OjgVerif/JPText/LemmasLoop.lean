import OjgVerif.JPText.LemmasPath
/-! # C14 lemmas: the fragment loop over clean fragments AND filter fragments

`readExprLoop_tail` with one more kind of fragment: a filter `[?(…)]` whose text the filter reader `pf` is
known to read back (to a template `t'`) whatever follows. `FragsRT pf br r r'`: `r'` is what the parser builds
for the printed fragments `r`. -/
namespace OjgVerif.JPText
open OjgVerif

/-- the filter reader `pf` reads the text of the filter fragment with template `t` to the template `t'` -/
def FilterRT (pf : P (List Item)) (t t' : List Item) : Prop :=
  ∃ body : Bytes, (∀ br fl, Frag.print br fl (.filter t) = 91 :: 63 :: (body ++ [93])) ∧
    (∀ br fl, Frag.print br fl (.filter t') = 91 :: 63 :: (body ++ [93])) ∧
    ∀ T : Bytes, pf (body ++ 93 :: T) = some (t', T) ∧ body ≠ []

inductive FragsRT (pf : P (List Item)) (br : Bool) : List Frag → List Frag → Prop
  | nil : FragsRT pf br [] []
  | clean (f : Frag) (r r' : List Frag) : f.clean = true → FragsRT pf br r r' → FragsRT pf br (f :: r) (f.img br :: r')
  | filt (t t' : List Item) (r r' : List Frag) : FilterRT pf t t' → FragsRT pf br r r' →
      FragsRT pf br (.filter t :: r) (.filter t' :: r')

theorem follower_restText_gen (pf : P (List Item)) (br : Bool) (r r' : List Frag) (h : FragsRT pf br r r') :
    followerOK (restText br false false r) = true := by
  cases h with
  | nil => rfl
  | clean f r r' hc hr =>
    have : cleanTail [f] = true := by simp [cleanTail, hc]
    have h1 := follower_restText br [f] this
    simp only [restText, Bool.false_and, Bool.or_false] at h1 ⊢
    cases hp : f.print br false with
    | nil => have := Frag.print_ne_nil br false f hc; rw [hp] at this; simp at this
    | cons b t => rw [hp] at h1; simpa [followerOK] using h1
  | filt t t' r r' hf hr =>
    obtain ⟨body, h1, _, _⟩ := hf
    simp [restText, h1, followerOK]

theorem nextFrag_filter (pf : P (List Item)) (fl lastD : Bool) (body : Bytes) (t' : List Item) (T : Bytes)
    (h : pf (body ++ 93 :: T) = some (t', T)) (_hb : body ≠ []) :
    nextFrag pf fl lastD (91 :: 63 :: (body ++ [93]) ++ T) = some (some (.filter t'), T) := by
  have e : 91 :: 63 :: (body ++ [93]) ++ T = 91 :: (63 :: (body ++ 93 :: T)) := by simp
  rw [e]
  apply nextFrag_bracket
  have hs : skipSpace (63 :: (body ++ 93 :: T)) = (63, body ++ 93 :: T) := skipSpace_cons _ (by decide)
  simp [afterBracket, hs, h]

/-- the fragment loop over clean fragments and filter fragments, followed by `tail` -/
theorem readExprLoop_gen (pf : P (List Item)) (br : Bool) (tail : Bytes) (ht : pathEnd tail = true) :
    ∀ (x x' : List Frag), FragsRT pf br x x' → ∀ (fl lastD : Bool) (n : Nat),
    (restText br fl lastD x).length < n →
    readExprLoop pf n fl lastD (restText br fl lastD x ++ tail) = some (x', tail) := by
  intro x x' hx
  induction hx with
  | nil =>
    intro fl lastD n hn
    cases n with
    | zero => simp at hn
    | succ n => simp [restText, readExprLoop, nextFrag_pathEnd pf fl lastD tail ht]
  | clean f r r' hc hr ih =>
    intro fl lastD n hn
    cases n with
    | zero => simp at hn
    | succ n =>
    by_cases hd : f.isDescent = true
    · cases f <;> simp [Frag.isDescent] at hd
      cases br with
      | false =>
        have e : restText false fl lastD (.descent :: r) = 46 :: 46 :: restText false false true r := by
          simp [restText, Frag.print, Frag.isDescent, printL_afterDot]
        rw [e] at hn ⊢
        have h1 : nextFrag pf fl lastD (46 :: 46 :: restText false false true r ++ tail) =
            some (some .descent, restText false false true r ++ tail) := by
          simp [nextFrag, afterDot]
        rw [readExprLoop_step pf n fl lastD _ _ _ h1]
        have h3 := ih false true n (by simp only [List.length_cons] at hn; omega)
        simp only [Frag.isDescent]
        rw [h3]; rfl
      | true =>
        have e : restText true fl lastD (.descent :: r) = 91 :: (46 :: 46 :: 93 :: restText true false true r) := by
          rw [restText_br false true r, ← printL_noDescent]
          rfl
        rw [e] at hn ⊢
        have h1 := nextFrag_bracket pf fl lastD _ _ _ (afterBracket_descent pf (restText true false true r ++ tail))
        simp only [List.cons_append] at h1 ⊢
        rw [readExprLoop_step pf n fl lastD _ _ _ h1]
        have h3 := ih false true n (by simp only [List.length_cons] at hn; omega)
        simp only [Frag.isDescent]
        rw [h3]; rfl
    · have hd' : f.isDescent = false := by simpa using hd
      have hT := followerOK_append (follower_restText_gen pf br r r' hr) (followerOK_of_pathEnd ht)
      have e : restText br fl lastD (f :: r) = f.print br (fl || (lastD && !br)) ++ restText br false false r := by
        simp [restText, hd', printL_noDescent]
      rw [e] at hn ⊢
      have h1 := nextFrag_clean pf br fl lastD f _ hc hd' hT
      have hl := Frag.print_ne_nil br (fl || (lastD && !br)) f hc
      rw [List.append_assoc, readExprLoop_step pf n fl lastD _ _ _ h1, img_isDescent_eq, hd']
      have h3 := ih false false n (by simp only [List.length_append] at hn; omega)
      rw [h3]
      rfl
  | filt t t' r r' hf hr ih =>
    intro fl lastD n hn
    cases n with
    | zero => simp at hn
    | succ n =>
      obtain ⟨body, hp1, _, hpf⟩ := hf
      have e : restText br fl lastD (.filter t :: r) = 91 :: 63 :: (body ++ [93]) ++ restText br false false r := by
        simp [restText, hp1, Frag.isDescent, printL_noDescent]
      rw [e] at hn ⊢
      have h1 := nextFrag_filter pf fl lastD body t' (restText br false false r ++ tail) (hpf _).1 (hpf []).2
      rw [List.append_assoc, readExprLoop_step pf n fl lastD _ _ _ h1]
      have h3 := ih false false n (by simp only [List.length_append, List.length_cons] at hn ⊢; omega)
      simp only [Frag.isDescent]
      rw [h3]
      rfl

end OjgVerif.JPText
