import OjgVerif.JPText.Print
import OjgVerif.JPText.Parse
import OjgVerif.Gen.JpParens
/-! # JSONPath text family (C14): the parenthesisation and precedence RULES tied to the source

`Gen/JpOps.lean` ties the operator TABLE (name, code, prec, cnt) to jp/script.go. The RULES that use the
table — which comparison decides about parentheses, which op codes are written prefix / call form / infix,
when `precedentCorrect` rotates and `reduceGroups` drops a group — are written by hand in `Print.lean` and
`Parse.lean`. `Gen/JpParens.lean` (tools/extract/jptext.go, `extractJpParens`) reads them from the syntax
trees of jp/script.go, jp/equation.go and jp/filter.go: comparisons as `⟨lhs text, token, rhs text⟩`,
`switch` clauses as `⟨labels, codes, statements⟩`, statements as go/printer text.

Two kinds of theorem here:
* `…_pinned` (by `rfl`/`decide`): the generated fact is literally the source the model was written for; any
  edit of that comparison / clause / statement changes `Gen/JpParens.lean` and breaks the theorem.
* `…_generated` (for all arguments): the model definition computes what the generated comparison token /
  clause list says (`cmpEval`, `inClauses`, `clauseIndex` interpret the generated data), so `<` turned into
  `<=`, or an op code moved to another clause, contradicts the model even before the text is compared.
-/
namespace OjgVerif.JPText
open OjgVerif Gen

/-! ## interpretation of the generated data -/

/-- the Go comparison token on two precedences -/
def cmpEval : JpParens.CmpOp → Nat → Nat → Bool
  | .lt, a, b => decide (a < b)
  | .le, a, b => decide (a ≤ b)
  | .eq, a, b => decide (a = b)
  | .ne, a, b => decide (a ≠ b)
  | .gt, a, b => decide (a > b)
  | .ge, a, b => decide (a ≥ b)

/-- is the code a label of some clause -/
def inClauses (cs : List JpParens.Clause) (c : UInt8) : Bool := cs.any (fun cl => cl.codes.contains c)

def clauseFind : List JpParens.Clause → UInt8 → Nat → Option Nat
  | [], _, _ => none
  | cl :: r, c, i => if cl.codes.contains c then some i else clauseFind r c (i + 1)

def clauseDefault : List JpParens.Clause → Nat → Option Nat
  | [], _ => none
  | cl :: r, i => if cl.labels.isEmpty then some i else clauseDefault r (i + 1)

/-- the clause a Go `switch` takes: the first one with a matching label, else `default`, else none
(`cs.length`) -/
def clauseIndex (cs : List JpParens.Clause) (c : UInt8) : Nat :=
  match clauseFind cs c 0 with
  | some i => i
  | none => (clauseDefault cs 0).getD cs.length

/-! ## (a) `Script.appendValue` / `Script.appendOp` -/

/-- pins `SItem.app` (the `.pb` branch): `case *precBuf:` of `Script.appendValue` is
`if prec < tv.prec { '(' buf ')' } else { buf }`. -/
theorem parens_rule_pinned :
    JpParens.appendValueParenCond = ⟨"prec", .lt, "tv.prec"⟩ ∧
    JpParens.appendValueParenThen =
      ["buf = append(buf, '(')", "buf = append(buf, tv.buf...)", "buf = append(buf, ')')"] ∧
    JpParens.appendValueParenElse = ["buf = append(buf, tv.buf...)"] :=
  ⟨rfl, rfl, rfl⟩

/-- `SItem.app` parenthesises a `precBuf` exactly when the comparison token read from `appendValue` holds of
(`prec` argument, `tv.prec`). -/
theorem app_parens_generated (prec p : Nat) (b : Bytes) :
    SItem.app prec (some (.pb p b)) =
      if cmpEval JpParens.appendValueParenCond.op prec p then 40 :: (b ++ [41]) else b := by
  simp [SItem.app, JpParens.appendValueParenCond, cmpEval]

/-- pins `SItem.appRight`: in the infix default of `Script.appendOp` the right operand is tested with
`if rb, ok := right.(*precBuf); ok && rb.prec == o.prec` and then keeps its parentheses, else goes through
`appendValue(…, right, o.prec)`. -/
theorem right_parens_rule_pinned :
    JpParens.appendOpRightInit = "rb, ok := right.(*precBuf)" ∧
    JpParens.appendOpRightCond = "ok && rb.prec == o.prec" ∧
    JpParens.appendOpRightCmp = ⟨"rb.prec", .eq, "o.prec"⟩ ∧
    JpParens.appendOpRightThen =
      ["pb.buf = append(pb.buf, '(')", "pb.buf = append(pb.buf, rb.buf...)", "pb.buf = append(pb.buf, ')')"] ∧
    JpParens.appendOpRightElse = ["pb.buf = s.appendValue(pb.buf, right, o.prec)"] :=
  ⟨rfl, rfl, rfl, rfl, rfl⟩

/-- `SItem.appRight` keeps the parentheses of a `precBuf` exactly when the comparison token read from
`appendOp` holds of (`rb.prec`, `o.prec`), and is `SItem.app` otherwise. -/
theorem appRight_parens_generated (prec p : Nat) (b : Bytes) :
    SItem.appRight prec (some (.pb p b)) =
      if cmpEval JpParens.appendOpRightCmp.op p prec then 40 :: (b ++ [41])
      else SItem.app prec (some (.pb p b)) := by
  simp [SItem.appRight, JpParens.appendOpRightCmp, cmpEval]

/-- pins `appendOp` and `stepOp` (`.pb o.prec …`): the produced buffer carries `o.prec`, the switch is over
`o.code`, and its clauses are, in this order: `not` (name, operand), `group` (operand), `length`/`count`
(`name(operand)`), `match`/`search` (`name(left, right)`), `userOpCode` (call with one or two arguments),
default (infix `left name right`). -/
theorem appendOp_clauses_pinned :
    JpParens.appendOpInit = "pb = &precBuf{prec: o.prec}" ∧
    JpParens.appendOpSwitchTag = "o.code" ∧
    JpParens.appendOpLast = "return" ∧
    JpParens.appendOpClauses = [
      { labels := ["not.code"], codes := [JpOps.op_not.code],
        body := ["pb.buf = append(pb.buf, o.name...)", "pb.buf = s.appendValue(pb.buf, left, o.prec)"] },
      { labels := ["group.code"], codes := [JpOps.op_group.code],
        body := ["pb.buf = s.appendValue(pb.buf, left, o.prec)"] },
      { labels := ["length.code", "count.code"], codes := [JpOps.op_length.code, JpOps.op_count.code],
        body := ["pb.buf = append(pb.buf, o.name...)", "pb.buf = append(pb.buf, '(')",
          "pb.buf = s.appendValue(pb.buf, left, o.prec)", "pb.buf = append(pb.buf, ')')"] },
      { labels := ["match.code", "search.code"], codes := [JpOps.op_match.code, JpOps.op_search.code],
        body := ["pb.buf = append(pb.buf, o.name...)", "pb.buf = append(pb.buf, '(')",
          "pb.buf = s.appendValue(pb.buf, left, o.prec)", "pb.buf = append(pb.buf, ',', ' ')",
          "pb.buf = s.appendValue(pb.buf, right, o.prec)", "pb.buf = append(pb.buf, ')')"] },
      { labels := ["userOpCode"], codes := [Jp.userOpCode],
        body := ["pb.buf = append(pb.buf, o.name...)", "pb.buf = append(pb.buf, '(')",
          "pb.buf = s.appendValue(pb.buf, left, o.prec)",
          "if 1 < o.cnt { pb.buf = append(pb.buf, ',', ' ') pb.buf = s.appendValue(pb.buf, right, o.prec) }",
          "pb.buf = append(pb.buf, ')')"] },
      { labels := [], codes := [],
        body := ["pb.buf = s.appendValue(pb.buf, left, o.prec)", "pb.buf = append(pb.buf, ' ')",
          "pb.buf = append(pb.buf, o.name...)", "pb.buf = append(pb.buf, ' ')",
          "if rb, ok := right.(*precBuf); ok && rb.prec == o.prec { pb.buf = append(pb.buf, '(') pb.buf = append(pb.buf, rb.buf...) pb.buf = append(pb.buf, ')') } else { pb.buf = s.appendValue(pb.buf, right, o.prec) }"] }] :=
  ⟨rfl, rfl, rfl, rfl⟩

set_option linter.unusedSimpArgs false in
/-- `appendOp` takes, for every op, the form of the clause that the generated clause list of
`Script.appendOp` selects for its code (Go `switch` semantics: first matching label, else `default`). -/
theorem appendOp_dispatch_generated (o : Op) (l r : Option SItem) :
    appendOp o l r =
      match clauseIndex JpParens.appendOpClauses o.code with
      | 0 => o.name ++ SItem.app o.prec l
      | 1 => SItem.app o.prec l
      | 2 => o.name ++ 40 :: (SItem.app o.prec l ++ [41])
      | 3 => o.name ++ 40 :: (SItem.app o.prec l ++ 44 :: 32 :: (SItem.app o.prec r ++ [41]))
      | 4 => o.name ++ 40 :: (SItem.app o.prec l ++
              ((if 1 < o.cnt then 44 :: 32 :: SItem.app o.prec r else []) ++ [41]))
      | _ => SItem.app o.prec l ++ 32 :: (o.name ++ 32 :: SItem.appRight o.prec r) := by
  unfold appendOp
  simp only [isCode, clauseIndex, clauseFind, clauseDefault, JpParens.appendOpClauses, Bool.beq_eq_decide_eq,
    List.contains_cons, List.contains_nil, Bool.or_false, Bool.or_eq_true, decide_eq_true_eq]
  by_cases h1 : o.code = JpOps.op_not.code
  · simp [h1, JpOps.op_not, JpOps.op_group, JpOps.op_length, JpOps.op_count, JpOps.op_match, JpOps.op_search, Jp.userOpCode]
  by_cases h2 : o.code = JpOps.op_group.code
  · simp [h2, JpOps.op_not, JpOps.op_group, JpOps.op_length, JpOps.op_count, JpOps.op_match, JpOps.op_search, Jp.userOpCode]
  by_cases h3 : o.code = JpOps.op_length.code
  · simp [h3, JpOps.op_not, JpOps.op_group, JpOps.op_length, JpOps.op_count, JpOps.op_match, JpOps.op_search, Jp.userOpCode]
  by_cases h4 : o.code = JpOps.op_count.code
  · simp [h4, JpOps.op_not, JpOps.op_group, JpOps.op_length, JpOps.op_count, JpOps.op_match, JpOps.op_search, Jp.userOpCode]
  by_cases h5 : o.code = JpOps.op_match.code
  · simp [h5, JpOps.op_not, JpOps.op_group, JpOps.op_length, JpOps.op_count, JpOps.op_match, JpOps.op_search, Jp.userOpCode]
  by_cases h6 : o.code = JpOps.op_search.code
  · simp [h6, JpOps.op_not, JpOps.op_group, JpOps.op_length, JpOps.op_count, JpOps.op_match, JpOps.op_search, Jp.userOpCode]
  by_cases h7 : o.code = Jp.userOpCode
  · simp [h7, JpOps.op_not, JpOps.op_group, JpOps.op_length, JpOps.op_count, JpOps.op_match, JpOps.op_search, Jp.userOpCode]
  simp [h1, h2, h3, h4, h5, h6, h7]

/-- pins `Item.run` / `scriptPrint` / `filterPrint` / `Frag.print (.filter …)`: the scan of `Script.Append`
(right to left, `appendOp` on the next one or two live slots, the `cnt` operands removed, the surviving
`precBuf` written between `(` and `)` without a further test), `Script.String`, `Filter.Append`
(`[?` script `]`) and `Filter.String`. -/
theorem script_append_pinned :
    JpParens.scriptAppendBody = ["buf = append(buf, '(')",
      "if 0 < len(s.template) { bstack := make([]any, len(s.template)) copy(bstack, s.template) for i := len(bstack) - 1; 0 <= i; i-- { o, _ := bstack[i].(*op) if o == nil { if i == 0 { buf = s.appendValue(buf, bstack[i], 0) } continue } var ( left any right any ) if 1 < len(bstack)-i { left = bstack[i+1] } if 2 < len(bstack)-i { right = bstack[i+2] } bstack[i] = s.appendOp(o, left, right) if i+int(o.cnt)+1 <= len(bstack) { copy(bstack[i+1:], bstack[i+int(o.cnt)+1:]) } } if pb, _ := bstack[0].(*precBuf); pb != nil { buf = append(buf, pb.buf...) } }",
      "buf = append(buf, ')')", "return buf"] ∧
    JpParens.scriptStringBody = ["return string(s.Append([]byte{}))"] ∧
    JpParens.filterAppendBody =
      ["buf = append(buf, \"[?\"...)", "buf = f.Script.Append(buf)", "buf = append(buf, ']')", "return buf"] ∧
    JpParens.filterStringBody = ["return string(f.Append([]byte{}, true, false))"] :=
  ⟨rfl, rfl, rfl, rfl⟩

/-! ## (b) `Equation.Append` -/

/-- pins `noParensCode`, `Eqn.infixPrec?`, `eqnString`: the clause of `Equation.Append` that switches `parens`
off lists `not, length, count, match, search, group`; `Equation.infix` answers `false` for those and `get`,
`true` otherwise (and `false` for a nil equation or a value); `Equation.String` is `Append([]byte{}, true)`. -/
theorem eqn_parens_forms_pinned :
    JpParens.eqAppendNoParens = [
      { labels := ["not.code", "length.code", "count.code", "match.code", "search.code", "group.code"],
        codes := [JpOps.op_not.code, JpOps.op_length.code, JpOps.op_count.code, JpOps.op_match.code,
          JpOps.op_search.code, JpOps.op_group.code],
        body := ["parens = false"] }] ∧
    JpParens.eqInfixBody = ["if e == nil || e.o == nil { return false }",
      "switch e.o.code { case not.code, get.code, length.code, count.code, match.code, search.code, group.code: return false }",
      "return true"] ∧
    JpParens.eqInfixClauses = [
      { labels := ["not.code", "get.code", "length.code", "count.code", "match.code", "search.code", "group.code"],
        codes := [JpOps.op_not.code, JpOps.op_get.code, JpOps.op_length.code, JpOps.op_count.code,
          JpOps.op_match.code, JpOps.op_search.code, JpOps.op_group.code],
        body := ["return false"] }] ∧
    JpParens.eqStringBody = ["return string(e.Append([]byte{}, true))"] :=
  ⟨rfl, rfl, rfl, rfl⟩

/-- `noParensCode o` holds exactly for the codes listed in the first switch of `Equation.Append`. -/
theorem noParensCode_generated (o : Op) : noParensCode o = inClauses JpParens.eqAppendNoParens o.code := by
  simp [noParensCode, isCode, inClauses, JpParens.eqAppendNoParens, Bool.or_assoc, Bool.beq_eq_decide_eq]

/-- the test of `Eqn.infixPrec?` (`noParensCode o || isCode o get`) holds exactly for the codes for which
`Equation.infix` returns false. -/
theorem notInfix_generated (o : Op) :
    (noParensCode o || isCode o JpOps.op_get) = inClauses JpParens.eqInfixClauses o.code := by
  simp [noParensCode, isCode, inClauses, JpParens.eqInfixClauses, Bool.or_assoc, Bool.beq_eq_decide_eq]
  ac_rfl

/-- pins `Eqn.print`: the statements of `Equation.Append` around the main switch (`(` … `)` under `parens`,
values through `appendValue`) and the clauses of the switch over `e.o.code`, in this order: `not` (`!` and
the operand with `infix()` as `parens`), `get` (the path), `length`/`count` (`name(path)`), `match`/`search`
(`name(left, right)`, operands without parentheses), `group` (the operand with `infix()`), default (infix,
operands with the two `parens` arguments of `eqn_operand_parens_pinned`). -/
theorem eqn_append_clauses_pinned :
    JpParens.eqAppendClauses = [
      { labels := ["not.code"], codes := [JpOps.op_not.code],
        body := ["buf = append(buf, '!')", "if e.left != nil { buf = e.left.Append(buf, e.left.infix()) }"] },
      { labels := ["get.code"], codes := [JpOps.op_get.code],
        body := ["if e.left != nil { buf = e.appendValue(buf, e.left.result) }"] },
      { labels := ["length.code", "count.code"], codes := [JpOps.op_length.code, JpOps.op_count.code],
        body := ["buf = append(buf, e.o.name...)", "buf = append(buf, '(')",
          "buf = e.appendValue(buf, e.left.result)", "buf = append(buf, ')')"] },
      { labels := ["match.code", "search.code"], codes := [JpOps.op_match.code, JpOps.op_search.code],
        body := ["buf = append(buf, e.o.name...)", "buf = append(buf, '(')", "buf = e.left.Append(buf, false)",
          "buf = append(buf, ',', ' ')", "buf = e.right.Append(buf, false)", "buf = append(buf, ')')"] },
      { labels := ["group.code"], codes := [JpOps.op_group.code],
        body := ["if e.left != nil { buf = e.left.Append(buf, e.left.infix()) }"] },
      { labels := [], codes := [],
        body := ["if e.left != nil { buf = e.left.Append(buf, e.left.infix() && e.o.prec < e.left.o.prec) }",
          "buf = append(buf, ' ')", "buf = append(buf, e.o.name...)", "buf = append(buf, ' ')",
          "if e.right != nil { buf = e.right.Append(buf, e.right.infix() && e.o.prec <= e.right.o.prec) }"] }] ∧
    JpParens.eqAppendBody.length = 5 ∧
    JpParens.eqAppendBody.getD 1 "" = "if parens { buf = append(buf, '(') }" ∧
    JpParens.eqAppendBody.getD 3 "" = "if parens { buf = append(buf, ')') }" ∧
    JpParens.eqAppendBody.getD 4 "" = "return buf" :=
  ⟨rfl, rfl, rfl, rfl, rfl⟩

set_option linter.unusedSimpArgs false in
/-- the `if` chain of `Eqn.print` (not, get, length/count, match/search, group, else infix) selects, for every
op, the clause that the generated clause list of `Equation.Append` selects for its code. -/
theorem eqn_append_dispatch_generated (o : Op) :
    clauseIndex JpParens.eqAppendClauses o.code =
      if isCode o JpOps.op_not then 0
      else if isCode o JpOps.op_get then 1
      else if isCode o JpOps.op_length || isCode o JpOps.op_count then 2
      else if isCode o JpOps.op_match || isCode o JpOps.op_search then 3
      else if isCode o JpOps.op_group then 4
      else 5 := by
  simp only [isCode, clauseIndex, clauseFind, clauseDefault, JpParens.eqAppendClauses, Bool.beq_eq_decide_eq,
    List.contains_cons, List.contains_nil, Bool.or_false, Bool.or_eq_true, decide_eq_true_eq]
  by_cases h1 : o.code = JpOps.op_not.code
  · simp [h1, JpOps.op_not, JpOps.op_get, JpOps.op_group, JpOps.op_length, JpOps.op_count, JpOps.op_match, JpOps.op_search]
  by_cases h2 : o.code = JpOps.op_get.code
  · simp [h2, JpOps.op_not, JpOps.op_get, JpOps.op_group, JpOps.op_length, JpOps.op_count, JpOps.op_match, JpOps.op_search]
  by_cases h3 : o.code = JpOps.op_length.code
  · simp [h3, JpOps.op_not, JpOps.op_get, JpOps.op_group, JpOps.op_length, JpOps.op_count, JpOps.op_match, JpOps.op_search]
  by_cases h4 : o.code = JpOps.op_count.code
  · simp [h4, JpOps.op_not, JpOps.op_get, JpOps.op_group, JpOps.op_length, JpOps.op_count, JpOps.op_match, JpOps.op_search]
  by_cases h5 : o.code = JpOps.op_match.code
  · simp [h5, JpOps.op_not, JpOps.op_get, JpOps.op_group, JpOps.op_length, JpOps.op_count, JpOps.op_match, JpOps.op_search]
  by_cases h6 : o.code = JpOps.op_search.code
  · simp [h6, JpOps.op_not, JpOps.op_get, JpOps.op_group, JpOps.op_length, JpOps.op_count, JpOps.op_match, JpOps.op_search]
  by_cases h7 : o.code = JpOps.op_group.code
  · simp [h7, JpOps.op_not, JpOps.op_get, JpOps.op_group, JpOps.op_length, JpOps.op_count, JpOps.op_match, JpOps.op_search]
  simp [h1, h2, h3, h4, h5, h6, h7]

/-- pins `leftParens` / `rightParens`: in the infix default of `Equation.Append` the left operand gets
`e.left.infix() && e.o.prec < e.left.o.prec`, the right one `e.right.infix() && e.o.prec <= e.right.o.prec`. -/
theorem eqn_operand_parens_pinned :
    JpParens.eqAppendLeftParens = "e.left.infix() && e.o.prec < e.left.o.prec" ∧
    JpParens.eqAppendLeftCmp = ⟨"e.o.prec", .lt, "e.left.o.prec"⟩ ∧
    JpParens.eqAppendRightParens = "e.right.infix() && e.o.prec <= e.right.o.prec" ∧
    JpParens.eqAppendRightCmp = ⟨"e.o.prec", .le, "e.right.o.prec"⟩ :=
  ⟨rfl, rfl, rfl, rfl⟩

/-- `leftParens o l`: `l` is infix and the comparison token read from the source holds of (`o.prec`, its prec). -/
theorem leftParens_generated (o : Op) (l : Eqn) :
    leftParens o l =
      match l.infixPrec? with
      | none => false
      | some p => cmpEval JpParens.eqAppendLeftCmp.op o.prec p := by
  unfold leftParens
  cases l.infixPrec? <;> simp [JpParens.eqAppendLeftCmp, cmpEval]

/-- `rightParens o r`: `r` is infix and the comparison token read from the source holds of (`o.prec`, its prec). -/
theorem rightParens_generated (o : Op) (r : Eqn) :
    rightParens o r =
      match r.infixPrec? with
      | none => false
      | some p => cmpEval JpParens.eqAppendRightCmp.op o.prec p := by
  unfold rightParens
  cases r.infixPrec? <;> simp [JpParens.eqAppendRightCmp, cmpEval]

/-! ## (c) `precedentCorrect`, `reduceGroups`, `MustParseEquation` -/

/-- pins `precCorrect` and `isCall`: the statements of `precedentCorrect` — value or nil: unchanged; the left
side is corrected first; a right side that is a value ends it; `match`/`search`/user calls correct their second
argument in place; `e.o.prec <= e.right.o.prec` rotates (`r := e.right; e.right = r.left; r.left = e`) and
corrects the new top; otherwise the right side is corrected and, if `e.o.prec <= e.right.o.prec` holds of the
corrected right side, the node is corrected again. -/
theorem precCorrect_pinned :
    JpParens.precCorrectBody = ["if e == nil || e.o == nil { return e }",
      "if e.left != nil { e.left = precedentCorrect(e.left) }",
      "if e.right == nil || e.right.o == nil { return e }",
      "switch e.o.code { case match.code, search.code, userOpCode: e.right = precedentCorrect(e.right) return e }",
      "if e.o.prec <= e.right.o.prec { r := e.right e.right = r.left r.left = e return precedentCorrect(r) }",
      "e.right = precedentCorrect(e.right)",
      "if e.right.o != nil && e.o.prec <= e.right.o.prec { e = precedentCorrect(e) }",
      "return e"] ∧
    JpParens.precCorrectConds = ["e == nil || e.o == nil", "e.left != nil", "e.right == nil || e.right.o == nil",
      "e.o.prec <= e.right.o.prec", "e.right.o != nil && e.o.prec <= e.right.o.prec"] ∧
    JpParens.precCorrectCmps = [⟨"e.o.prec", .le, "e.right.o.prec"⟩, ⟨"e.o.prec", .le, "e.right.o.prec"⟩] ∧
    JpParens.precCorrectClauses = [
      { labels := ["match.code", "search.code", "userOpCode"],
        codes := [JpOps.op_match.code, JpOps.op_search.code, Jp.userOpCode],
        body := ["e.right = precedentCorrect(e.right)", "return e"] }] ∧
    JpParens.precCorrectRotate = ["r := e.right", "e.right = r.left", "r.left = e", "return precedentCorrect(r)"] :=
  ⟨rfl, rfl, rfl, rfl, rfl⟩

/-- `isCall o` holds exactly for the codes of the in-place clause of `precedentCorrect`. -/
theorem isCall_generated (o : Op) : isCall o = inClauses JpParens.precCorrectClauses o.code := by
  simp [isCall, isCode, inClauses, JpParens.precCorrectClauses, Bool.or_assoc, Bool.beq_eq_decide_eq]

/-- the rotation step of `precCorrect` (binary right side) is taken exactly under the FIRST comparison read
from `precedentCorrect`, on (`e.o.prec`, `e.right.o.prec`). -/
theorem precCorrect_rotate_generated (f : Nat) (o ro : Op) (l l' rl rr : Eqn)
    (hl : precCorrect f l = some l') (hc : isCall o = false)
    (h : cmpEval (JpParens.precCorrectCmps.getD 0 default).op o.prec ro.prec = true) :
    precCorrect (f + 1) (.bin o l (.bin ro rl rr)) = precCorrect f (.bin ro (.bin o l' rl) rr) := by
  have h' : o.prec ≤ ro.prec := by simpa [JpParens.precCorrectCmps, cmpEval] using h
  simp [precCorrect, hl, hc, h']

/-- … and when that comparison fails and the SECOND one fails of the corrected right side, the node stays. -/
theorem precCorrect_stay_generated (f : Nat) (o ro ro2 : Op) (l l' rl rr r' : Eqn)
    (hl : precCorrect f l = some l') (hc : isCall o = false)
    (h : cmpEval (JpParens.precCorrectCmps.getD 0 default).op o.prec ro.prec = false)
    (hr : precCorrect f (.bin ro rl rr) = some r') (ho : r'.op? = some ro2)
    (h2 : cmpEval (JpParens.precCorrectCmps.getD 1 default).op o.prec ro2.prec = false) :
    precCorrect (f + 1) (.bin o l (.bin ro rl rr)) = some (.bin o l' r') := by
  have h' : ¬ o.prec ≤ ro.prec := by simpa [JpParens.precCorrectCmps, cmpEval] using h
  have h2' : ¬ o.prec ≤ ro2.prec := by simpa [JpParens.precCorrectCmps, cmpEval] using h2
  simp [precCorrect, hl, hc, h', hr, ho, h2']

example : ∃ f o ro l l' rl rr, precCorrect f l = some l' ∧ isCall o = false ∧
    cmpEval (JpParens.precCorrectCmps.getD 0 default).op o.prec ro.prec = true ∧
    precCorrect (f + 1) (.bin o l (.bin ro rl rr)) = precCorrect f (.bin ro (.bin o l' rl) rr) :=
  ⟨1, JpOps.op_add, JpOps.op_add, .val (.int 1), .val (.int 1), .val (.int 2), .val (.int 3),
    rfl, by decide, by decide, precCorrect_rotate_generated _ _ _ _ _ _ _ rfl (by decide) (by decide)⟩

/-- the hypotheses of `precCorrect_stay_generated` hold for `1 + 2 * 3` (`+` binds more loosely than `*`) -/
example : precCorrect 2 (.val (.int 1)) = some (.val (.int 1)) ∧ isCall JpOps.op_add = false ∧
    cmpEval (JpParens.precCorrectCmps.getD 0 default).op JpOps.op_add.prec JpOps.op_mult.prec = false ∧
    precCorrect 2 (.bin JpOps.op_mult (.val (.int 2)) (.val (.int 3))) =
      some (.bin JpOps.op_mult (.val (.int 2)) (.val (.int 3))) ∧
    cmpEval (JpParens.precCorrectCmps.getD 1 default).op JpOps.op_add.prec JpOps.op_mult.prec = false := by
  refine ⟨rfl, by decide, by decide, by simp [precCorrect], by decide⟩

/-- pins `dropGroup` / `reduceGroups` / the pipeline of `parseEquation`: `reduceGroups` drops a group node iff
`e.o.code == group.code && (po == nil || (e.left != nil && e.left.o != nil && e.left.o.prec < po.prec))`, then
descends with `e.o` as the parent op; `MustParseEquation` is `reduceGroups(precedentCorrect(p.readEq()), nil)`. -/
theorem reduceGroups_pinned :
    JpParens.reduceGroupsBody = ["if e == nil || e.o == nil { return e }",
      "if e.o.code == group.code && (po == nil || (e.left != nil && e.left.o != nil && e.left.o.prec < po.prec)) { return reduceGroups(e.left, po) }",
      "e.left = reduceGroups(e.left, e.o)", "e.right = reduceGroups(e.right, e.o)", "return e"] ∧
    JpParens.reduceGroupsConds = ["e == nil || e.o == nil",
      "e.o.code == group.code && (po == nil || (e.left != nil && e.left.o != nil && e.left.o.prec < po.prec))"] ∧
    JpParens.reduceGroupsCmp = ⟨"e.left.o.prec", .lt, "po.prec"⟩ ∧
    JpParens.mustParseEquationBody = ["p := &parser{buf: []byte(str)}", "eq = precedentCorrect(p.readEq())",
      "return reduceGroups(eq, nil)"] :=
  ⟨rfl, rfl, rfl, rfl⟩

/-- `dropGroup o l po`: a group node, and no parent op or the comparison token read from `reduceGroups` holds
of (`e.left.o.prec`, `po.prec`). -/
theorem dropGroup_generated (o : Op) (l : Eqn) (po : Option Op) :
    dropGroup o l po =
      (isCode o JpOps.op_group &&
        match po with
        | none => true
        | some p =>
          match l.op? with
          | none => false
          | some lo => cmpEval JpParens.reduceGroupsCmp.op lo.prec p.prec) := by
  unfold dropGroup
  cases po <;> cases l.op? <;> simp [JpParens.reduceGroupsCmp, cmpEval]

/-! ## (d) `Expr.Append` and the fragments it dispatches to -/

/-- pins `Frag.printL` (Print.lean) and `bprintL` (Bracket.lean), and the `.descent`, `.wild`, `.child`
branches of `Frag.print` / `childPrint`: `Expr.Append` starts in bracket notation iff asked to; in the loop a
`Bracket` flag only switches `bracket` on (`continue`: `afterDescent` stays as it is), the second dot of a
descent is written under `afterDescent` alone, a fragment is "first" when `i == 0 || afterDescent`, and
`afterDescent` is set from the fragment just written and the notation it was written in
(`afterDescent && !bracket`); a last descent gets its second dot after the loop. `Descent.Append` writes `[..]`
or one `.`, `Bracket.Append` nothing, `Wildcard.Append` `[*]` (bracket notation or `'#'`) or `*` after a dot
unless first, `Child.Append` the quoted form (bracket notation or not a token) or the key after a dot unless
first. (Site of the seeded change C14-m7.) -/
theorem expr_append_pinned :
    JpParens.exprAppendBody = ["bracket := 0 < len(brackets) && brackets[0]", "afterDescent := false",
      "for i, frag := range x { if _, ok := frag.(Bracket); ok { bracket = true continue } if afterDescent { buf = append(buf, '.') } buf = frag.Append(buf, bracket, i == 0 || afterDescent) _, afterDescent = frag.(Descent) afterDescent = afterDescent && !bracket }",
      "if afterDescent { buf = append(buf, '.') }", "return buf"] ∧
    JpParens.exprAppendLoopHead = "for i, frag := range x" ∧
    JpParens.exprAppendLoop = ["if _, ok := frag.(Bracket); ok { bracket = true continue }",
      "if afterDescent { buf = append(buf, '.') }",
      "buf = frag.Append(buf, bracket, i == 0 || afterDescent)",
      "_, afterDescent = frag.(Descent)",
      "afterDescent = afterDescent && !bracket"] ∧
    JpParens.descentAppendBody =
      ["if bracket { buf = append(buf, \"[..]\"...) } else { buf = append(buf, '.') }", "return buf"] ∧
    JpParens.bracketAppendBody = ["return buf"] ∧
    JpParens.wildcardAppendBody =
      ["if bracket || f == '#' { buf = append(buf, \"[*]\"...) } else { if !first { buf = append(buf, '.') } buf = append(buf, '*') }",
       "return buf"] ∧
    JpParens.childAppendBody =
      ["if bracket || !f.tokenOk() { buf = append(buf, '[') buf = AppendString(buf, string(f), '\\'') buf = append(buf, ']') } else { if !first { buf = append(buf, '.') } buf = append(buf, string(f)...) }",
       "return buf"] :=
  ⟨rfl, rfl, rfl, rfl, rfl, rfl, rfl⟩

end OjgVerif.JPText
