import OjgVerif.JPText.Spec
/-! # C14 lemmas: `readStr` reads back what `AppendString` writes

`readStr_appendString`: for EVERY byte string `s` (valid UTF-8 or not, since c107b3b), the parser's
quoted-string reader applied to `AppendString(s, '\'')` followed by anything returns `s` and the rest of
the input. The proof reads the generated `jMap` and `hex` tables (`byteOK_all`, `hexOK_all`: 256 cells by
kernel evaluation): an escape letter without a matching case in `readEscStr`, a class change of a quote
or of the backslash, a wrong hex digit break it. -/
namespace OjgVerif.JPText
open OjgVerif

/-- lifting a decidable per-byte check from `Fin 256` to `UInt8` -/
theorem forall_byte {p : UInt8 → Bool} (h : ∀ i : Fin 256, p (UInt8.ofNat i.val) = true) (b : UInt8) :
    p b = true := by
  have := h ⟨b.toNat, b.toNat_lt⟩
  simpa using this

/-- what the round trip needs from `jMap`, `hex` and the escape cases of `readEscStr`, for one byte -/
def byteOK (b : UInt8) : Bool :=
  (jCls b != 111 || (b != 39 && b != 92)) &&
  (jCls b != 46 || (hexVal (hexDigit (b >>> 4 &&& 15)) == some (b >>> 4 &&& 15) &&
      hexVal (hexDigit (b &&& 15)) == some (b &&& 15) &&
      encodeRune ((0 : UInt8).toNat * 4096 + (0 : UInt8).toNat * 256 + (b >>> 4 &&& 15).toNat * 16 + (b &&& 15).toNat) == [b])) &&
  (jCls b != 56 || decide (0x80 ≤ b)) &&
  (jCls b == 111 || jCls b == 46 || jCls b == 56 || unescLetter (jCls b) == some b)

theorem byteOK_all (b : UInt8) : byteOK b = true :=
  forall_byte (p := byteOK) (by decide +kernel) b

theorem lo2_ge (b : UInt8) : 0x80 ≤ lo2 b := by
  unfold lo2; split
  · decide
  · split <;> decide

theorem isCont_ge {b : UInt8} (h : isCont b = true) : 0x80 ≤ b := by
  simp only [isCont, Bool.and_eq_true, decide_eq_true_eq] at h
  exact h.1

theorem isCont_toNat {b : UInt8} (h : isCont b = true) : 128 ≤ b.toNat ∧ b.toNat ≤ 191 := by
  simp only [isCont, Bool.and_eq_true, decide_eq_true_eq, UInt8.le_iff_toNat_le] at h
  exact ⟨by simpa using h.1, by simpa using h.2⟩

theorem lo2_toNat {b0 b1 : UInt8} (h : lo2 b0 ≤ b1) :
    128 ≤ b1.toNat ∧ (b0.toNat = 240 → 144 ≤ b1.toNat) ∧ (b0.toNat = 224 → 160 ≤ b1.toNat) := by
  unfold lo2 at h
  split at h
  · rename_i e; subst e
    have := UInt8.le_iff_toNat_le.mp h
    simp at this
    refine ⟨by omega, by intro h2; simp at h2, fun _ => this⟩
  · split at h
    · rename_i e; subst e
      have := UInt8.le_iff_toNat_le.mp h
      simp at this
      refine ⟨by omega, fun _ => this, by intro h2; simp at h2⟩
    · rename_i e1 e2
      have := UInt8.le_iff_toNat_le.mp h
      simp at this
      refine ⟨this, ?_, ?_⟩
      · intro h2; exfalso; apply e2; apply UInt8.toNat_inj.mp; simpa using h2
      · intro h2; exfalso; apply e1; apply UInt8.toNat_inj.mp; simpa using h2

theorem hi2_toNat {b0 b1 : UInt8} (h : b1 ≤ hi2 b0) : b1.toNat ≤ 191 := by
  unfold hi2 at h
  split at h
  · have := UInt8.le_iff_toNat_le.mp h; simp at this; omega
  · split at h
    · have := UInt8.le_iff_toNat_le.mp h; simp at this; omega
    · have := UInt8.le_iff_toNat_le.mp h; simpa using this

theorem ofToNat {b : UInt8} {n : Nat} (h : b.toNat = n) (hn : n < 256) : b = UInt8.ofNat n := by
  apply UInt8.toNat_inj.mp
  simp [h, Nat.mod_eq_of_lt hn]

theorem decodeRune_cons (b0 : UInt8) (r : Bytes) : decodeRune (b0 :: r) =
    if b0 < 0x80 then (b0.toNat, 1)
    else if b0 < 0xC2 then (runeError, 1)
    else if b0 < 0xE0 then
      match r with
      | b1 :: _ =>
        if isCont b1 then ((b0.toNat - 0xC0) * 64 + (b1.toNat - 0x80), 2) else (runeError, 1)
      | [] => (runeError, 1)
    else if b0 < 0xF0 then
      match r with
      | b1 :: b2 :: _ =>
        if decide (lo2 b0 ≤ b1) && decide (b1 ≤ hi2 b0) && isCont b2 then
          ((b0.toNat - 0xE0) * 4096 + (b1.toNat - 0x80) * 64 + (b2.toNat - 0x80), 3)
        else (runeError, 1)
      | _ => (runeError, 1)
    else if b0 < 0xF5 then
      match r with
      | b1 :: b2 :: b3 :: _ =>
        if decide (lo2 b0 ≤ b1) && decide (b1 ≤ hi2 b0) && isCont b2 && isCont b3 then
          ((b0.toNat - 0xF0) * 262144 + (b1.toNat - 0x80) * 4096 + (b2.toNat - 0x80) * 64 + (b3.toNat - 0x80), 4)
        else (runeError, 1)
      | _ => (runeError, 1)
    else (runeError, 1) := by
  rfl

/-- a three-byte rune value determines its bytes -/
theorem decodeRune_three (b : UInt8) (r : Bytes) (v : Nat) (x y z : Nat)
    (hv : v = (x - 224) * 4096 + (y - 128) * 64 + (z - 128)) (hx : 224 ≤ x ∧ x < 240) (hy : 128 ≤ y ∧ y ≤ 191)
    (hz : 128 ≤ z ∧ z ≤ 191) (h2k : 2048 ≤ v) (h64 : v < 65536)
    (h : (decodeRune (b :: r)).1 = v) (hw : 2 ≤ (decodeRune (b :: r)).2) :
    (decodeRune (b :: r)).2 = 3 ∧ b :: r.take 2 = [UInt8.ofNat x, UInt8.ofNat y, UInt8.ofNat z] := by
  rw [decodeRune_cons] at h hw ⊢
  have hb := b.toNat_lt
  by_cases c1 : b < 0x80
  · simp [c1] at hw
  by_cases c2 : b < 0xC2
  · simp [c1, c2] at hw
  by_cases c3 : b < 0xE0
  · simp only [c1, c2, c3, ↓reduceIte] at h hw ⊢
    cases r with
    | nil => simp at hw
    | cons b1 t =>
      simp only [] at h hw ⊢
      by_cases hc : isCont b1 = true
      · simp only [hc, ↓reduceIte] at h hw ⊢
        have := isCont_toNat hc
        have h3' := UInt8.lt_iff_toNat_lt.mp c3
        simp at h3' h
        omega
      · simp [hc] at hw
  by_cases c4 : b < 0xF0
  · simp only [c1, c2, c3, c4, ↓reduceIte] at h hw ⊢
    match r with
    | [] => simp at hw
    | [_] => simp at hw
    | b1 :: b2 :: t =>
      simp only [] at h hw ⊢
      by_cases hc : (decide (lo2 b ≤ b1) && decide (b1 ≤ hi2 b) && isCont b2) = true
      · simp only [hc, ↓reduceIte] at h hw ⊢
        simp only [Bool.and_eq_true, decide_eq_true_eq] at hc
        have c2' := isCont_toNat hc.2
        have l := lo2_toNat hc.1.1
        have u := hi2_toNat hc.1.2
        have h3' := Nat.not_lt.mp (fun q => c3 (UInt8.lt_iff_toNat_lt.mpr q))
        have h4' := UInt8.lt_iff_toNat_lt.mp c4
        simp at h3' h4' h
        have e0 : b.toNat = x := by omega
        have e1 : b1.toNat = y := by omega
        have e2 : b2.toNat = z := by omega
        simp [ofToNat e0 (by omega), ofToNat e1 (by omega), ofToNat e2 (by omega)]
      · simp [hc] at hw
  by_cases c5 : b < 0xF5
  · simp only [c1, c2, c3, c4, c5, ↓reduceIte] at h hw ⊢
    match r with
    | [] => simp at hw
    | [_] => simp at hw
    | [_, _] => simp at hw
    | b1 :: b2 :: b3 :: t =>
      simp only [] at h hw ⊢
      by_cases hc : (decide (lo2 b ≤ b1) && decide (b1 ≤ hi2 b) && isCont b2 && isCont b3) = true
      · simp only [hc, ↓reduceIte] at h hw ⊢
        simp only [Bool.and_eq_true, decide_eq_true_eq] at hc
        have l := lo2_toNat hc.1.1.1
        have h4' := Nat.not_lt.mp (fun q => c4 (UInt8.lt_iff_toNat_lt.mpr q))
        simp at h4' h
        omega
      · simp [hc] at hw
  · simp [c1, c2, c3, c4, c5] at hw

/-- the bytes a decoded rune takes after its first one exist and are all ≥ 0x80 -/
theorem decodeRune_tail (b : UInt8) (r : Bytes) :
    (decodeRune (b :: r)).2 - 1 ≤ r.length ∧ ∀ c ∈ r.take ((decodeRune (b :: r)).2 - 1), 0x80 ≤ c := by
  rw [decodeRune_cons]
  split
  · simp
  split
  · simp
  split
  · cases r with
    | nil => simp
    | cons b1 t =>
      simp only []
      split
      · rename_i h
        simp
        exact isCont_ge h
      · simp
  split
  · match r with
    | [] => simp
    | [_] => simp
    | b1 :: b2 :: t =>
      simp only []
      split
      · rename_i h
        simp only [Bool.and_eq_true, decide_eq_true_eq] at h
        simp
        exact ⟨UInt8.le_trans (lo2_ge b) h.1.1, isCont_ge h.2⟩
      · simp
  split
  · match r with
    | [] => simp
    | [_] => simp
    | [_, _] => simp
    | b1 :: b2 :: b3 :: t =>
      simp only []
      split
      · rename_i h
        simp only [Bool.and_eq_true, decide_eq_true_eq] at h
        simp
        exact ⟨UInt8.le_trans (lo2_ge b) h.1.1.1, isCont_ge h.1.2, isCont_ge h.2⟩
      · simp
  · simp

/-- `s` cut into the pieces `AppendString` handles one by one (it is `s`: `rebuild_id`) -/
def rebuild : Nat → Bytes → Bytes
  | 0, _ => []
  | _, [] => []
  | f+1, b :: r =>
    if jCls b = 56 then
      b :: (r.take ((decodeRune (b :: r)).2 - 1) ++ rebuild f (r.drop ((decodeRune (b :: r)).2 - 1)))
    else b :: rebuild f r

def hexOK (b : UInt8) : Bool :=
  hexVal (hexDigit (b >>> 4 &&& 15)) == some (b >>> 4 &&& 15) && hexVal (hexDigit (b &&& 15)) == some (b &&& 15) &&
    ((b >>> 4 &&& 15) <<< 4 ||| (b &&& 15)) == b

theorem hexOK_all (b : UInt8) : hexOK b = true := forall_byte (p := hexOK) (by decide +kernel) b

theorem byte_hex (b : UInt8) :
    hexVal (hexDigit (b >>> 4 &&& 15)) = some (b >>> 4 &&& 15) ∧ hexVal (hexDigit (b &&& 15)) = some (b &&& 15) ∧
      ((b >>> 4 &&& 15) <<< 4 ||| (b &&& 15)) = b := by
  have := hexOK_all b
  simp only [hexOK, Bool.and_eq_true, beq_iff_eq] at this
  exact ⟨this.1.1, this.1.2, this.2⟩

theorem appFst_nil {β : Type} (x : Option (List UInt8 × β)) : appFst [] x = x := by
  cases x <;> simp [appFst]

theorem consFst_appFst {β : Type} (c : UInt8) (pre : List UInt8) (x : Option (List UInt8 × β)) :
    consFst c (appFst pre x) = appFst (c :: pre) x := by
  cases x <;> simp [appFst, consFst]

theorem appFst_some {β : Type} (pre s : List UInt8) (r : β) : appFst pre (some (s, r)) = some (pre ++ s, r) := rfl
theorem consFst_some {β : Type} (c : UInt8) (s : List UInt8) (r : β) : consFst c (some (s, r)) = some (c :: s, r) := rfl

theorem readEsc_plain (pre tail : Bytes) (F : Nat) (hp : ∀ c ∈ pre, c ≠ 39 ∧ c ≠ 92) :
    readEsc 39 (F + pre.length) (pre ++ tail) = appFst pre (readEsc 39 F tail) := by
  induction pre with
  | nil => simp [appFst_nil]
  | cons c pre ih =>
    have hc := hp c (by simp)
    have ih' := ih (fun d hd => hp d (by simp [hd]))
    have : F + (c :: pre).length = (F + pre.length) + 1 := by simp; omega
    rw [this]
    simp only [List.cons_append, readEsc, hc.1, hc.2, ↓reduceIte]
    rw [ih', consFst_appFst]

theorem readStr_plain (pre tail : Bytes) (hp : ∀ c ∈ pre, c ≠ 39 ∧ c ≠ 92) (ht : tail ≠ []) :
    readStr 39 (pre ++ tail) = appFst pre (readStr 39 tail) := by
  induction pre with
  | nil => simp [appFst_nil]
  | cons c pre ih =>
    have hc := hp c (by simp)
    have ih' := ih (fun d hd => hp d (by simp [hd]))
    simp only [List.cons_append, readStr, hc.1, hc.2, ↓reduceIte]
    cases hpt : pre ++ tail with
    | nil => simp at hpt; exact absurd hpt.2 ht
    | cons x y =>
      simp only []
      rw [← hpt, ih', consFst_appFst]


theorem byte_o {b : UInt8} (h : jCls b = 111) : b ≠ 39 ∧ b ≠ 92 := by
  have := byteOK_all b
  simp only [byteOK, h, Bool.and_eq_true, Bool.or_eq_true, bne_iff_ne, ne_eq, not_true_eq_false, false_or] at this
  simpa using this.1.1.1

theorem byte_dot {b : UInt8} (h : jCls b = 46) :
    hexVal (hexDigit (b >>> 4 &&& 15)) = some (b >>> 4 &&& 15) ∧ hexVal (hexDigit (b &&& 15)) = some (b &&& 15) ∧
      encodeRune ((0 : UInt8).toNat * 4096 + (0 : UInt8).toNat * 256 + (b >>> 4 &&& 15).toNat * 16 + (b &&& 15).toNat) = [b] := by
  have := byteOK_all b
  simp only [byteOK, h, Bool.and_eq_true, Bool.or_eq_true, bne_iff_ne, ne_eq, not_true_eq_false, false_or,
    beq_iff_eq] at this
  exact ⟨this.1.1.2.1.1, this.1.1.2.1.2, this.1.1.2.2⟩

theorem byte_8 {b : UInt8} (h : jCls b = 56) : 0x80 ≤ b := by
  have := byteOK_all b
  simp only [byteOK, h, Bool.and_eq_true, Bool.or_eq_true, bne_iff_ne, ne_eq, not_true_eq_false, false_or,
    decide_eq_true_eq] at this
  exact this.1.2

theorem byte_letter {b : UInt8} (h1 : jCls b ≠ 111) (h2 : jCls b ≠ 46) (h3 : jCls b ≠ 56) :
    unescLetter (jCls b) = some b := by
  have := byteOK_all b
  simp only [byteOK, Bool.and_eq_true, Bool.or_eq_true, beq_iff_eq, h1, h2, h3, false_or] at this
  exact this.2

theorem ge80_plain {c : UInt8} (h : 0x80 ≤ c) : c ≠ 39 ∧ c ≠ 92 := by
  have := UInt8.le_iff_toNat_le.mp h
  simp at this
  constructor <;> (intro e; subst e; simp at this)

theorem drop_length_le (r : Bytes) (n f : Nat) (h : r.length ≤ f) : (r.drop n).length ≤ f := by
  simp; omega

theorem decodeRune_width_one (b : UInt8) (r : Bytes) (h : (decodeRune (b :: r)).2 < 2) :
    (decodeRune (b :: r)).1 = runeError ∨ (decodeRune (b :: r)).1 < 128 := by
  rw [decodeRune_cons] at h ⊢
  by_cases c1 : b < 0x80
  · right
    have := UInt8.lt_iff_toNat_lt.mp c1
    simp only [c1, ↓reduceIte]
    simpa using this
  left
  by_cases c2 : b < 0xC2
  · simp [c1, c2]
  by_cases c3 : b < 0xE0
  · simp only [c1, c2, c3, ↓reduceIte] at h ⊢
    cases r with
    | nil => rfl
    | cons b1 t =>
      simp only [] at h ⊢
      by_cases hc : isCont b1 = true
      · simp [hc] at h
      · simp [hc]
  by_cases c4 : b < 0xF0
  · simp only [c1, c2, c3, c4, ↓reduceIte] at h ⊢
    match r with
    | [] => rfl
    | [_] => rfl
    | b1 :: b2 :: t =>
      simp only [] at h ⊢
      by_cases hc : (decide (lo2 b ≤ b1) && decide (b1 ≤ hi2 b) && isCont b2) = true
      · simp [hc] at h
      · simp [hc]
  by_cases c5 : b < 0xF5
  · simp only [c1, c2, c3, c4, c5, ↓reduceIte] at h ⊢
    match r with
    | [] => rfl
    | [_] => rfl
    | [_, _] => rfl
    | b1 :: b2 :: b3 :: t =>
      simp only [] at h ⊢
      by_cases hc : (decide (lo2 b ≤ b1) && decide (b1 ≤ hi2 b) && isCont b2 && isCont b3) = true
      · simp [hc] at h
      · simp [hc]
  · simp [c1, c2, c3, c4, c5]

theorem decodeRune_pos (b : UInt8) (r : Bytes) : 1 ≤ (decodeRune (b :: r)).2 := by
  rcases Nat.lt_or_ge (decodeRune (b :: r)).2 1 with h | h
  · exfalso
    have h0 : (decodeRune (b :: r)).2 = 0 := by omega
    rw [decodeRune_cons] at h0
    repeat' split at h0
    all_goals simp at h0
  · exact h

theorem enc2028 : encodeRune (UInt8.toNat 2 * 4096 + UInt8.toNat 0 * 256 + UInt8.toNat 2 * 16 + UInt8.toNat 8) =
    [UInt8.ofNat 226, UInt8.ofNat 128, UInt8.ofNat 168] := by decide +kernel
theorem enc2029 : encodeRune (UInt8.toNat 2 * 4096 + UInt8.toNat 0 * 256 + UInt8.toNat 2 * 16 + UInt8.toNat 9) =
    [UInt8.ofNat 226, UInt8.ofNat 128, UInt8.ofNat 169] := by decide +kernel
theorem encFFFD : encodeRune (UInt8.toNat 15 * 4096 + UInt8.toNat 15 * 256 + UInt8.toNat 15 * 16 + UInt8.toNat 13) =
    [0xEF, 0xBF, 0xBD] := by decide +kernel

/-- `readEscStr` reads back the body `AppendString` writes, whatever follows the closing quote -/
theorem readEsc_body (f : Nat) : ∀ (s rest : Bytes) (F : Nat), s.length ≤ f →
    (appendStrBody 39 f s).length + 1 ≤ F →
    readEsc 39 F (appendStrBody 39 f s ++ 39 :: rest) = some (rebuild f s, rest) := by
  induction f with
  | zero =>
    intro s rest F hs hF
    cases s with
    | nil =>
      cases F with
      | zero => simp [appendStrBody] at hF
      | succ F => simp [appendStrBody, readEsc, rebuild]
    | cons b r => simp at hs
  | succ f ih =>
    intro s rest F hs hF
    cases s with
    | nil =>
      cases F with
      | zero => simp [appendStrBody] at hF
      | succ F => simp [appendStrBody, readEsc, rebuild]
    | cons b r =>
      have hr : r.length ≤ f := by simp at hs; omega
      by_cases ho : jCls b = 111
      · -- copied
        have hb := byte_o ho
        have e : appendStrBody 39 (f + 1) (b :: r) = b :: appendStrBody 39 f r := by simp [appendStrBody, ho]
        rw [e] at hF ⊢
        cases F with
        | zero => simp at hF
        | succ F =>
          simp only [List.cons_append, readEsc, hb.1, hb.2, ↓reduceIte]
          rw [ih r rest F hr (by simp at hF; omega), consFst_some]
          have : jCls b ≠ 56 := by rw [ho]; decide
          simp [rebuild, this]
      by_cases hd : jCls b = 46
      · have hb := byte_dot hd
        have e : appendStrBody 39 (f + 1) (b :: r) =
            92 :: 117 :: 48 :: 48 :: hexDigit (b >>> 4 &&& 15) :: hexDigit (b &&& 15) :: appendStrBody 39 f r := by
          simp [appendStrBody, hd]
        rw [e] at hF ⊢
        cases F with
        | zero => simp at hF
        | succ F =>
          have h48 : hexVal 48 = some 0 := by decide
          have hu : unescLetter 117 = none := by decide
          simp only [List.cons_append, readEsc, ↓reduceIte, hu, h48, hb.1, hb.2.1]
          simp only [show ((117 : UInt8) = 120) = False by decide, ↓reduceIte, Bool.true_or, decide_true]
          rw [hb.2.2, ih r rest F hr (by simp at hF; omega), appFst_some]
          have : jCls b ≠ 56 := by rw [hd]; decide
          simp [rebuild, this]
      by_cases h8 : jCls b = 56
      · have hge := byte_8 h8
        have htail := decodeRune_tail b r
        have hdl : (r.drop ((decodeRune (b :: r)).2 - 1)).length ≤ f := drop_length_le r _ f hr
        have hu : unescLetter 117 = none := by decide
        by_cases r1 : (decodeRune (b :: r)).1 = 0x2028
        · have e : appendStrBody 39 (f + 1) (b :: r) =
              92 :: 117 :: 50 :: 48 :: 50 :: 56 :: appendStrBody 39 f (r.drop ((decodeRune (b :: r)).2 - 1)) := by
            simp [appendStrBody, h8, r1]
          rw [e] at hF ⊢
          have hw : 2 ≤ (decodeRune (b :: r)).2 := by
            rcases Nat.lt_or_ge (decodeRune (b :: r)).2 2 with h | h
            · rcases decodeRune_width_one b r h with h' | h'
              · rw [r1] at h'; simp [runeError] at h'
              · rw [r1] at h'; omega
            · exact h
          have h3 := decodeRune_three b r 0x2028 0xE2 0x80 0xA8 (by omega) (by omega) (by omega) (by omega)
            (by omega) (by omega) r1 hw
          cases F with
          | zero => simp at hF
          | succ F =>
            simp only [List.cons_append, readEsc, ↓reduceIte, hu, show hexVal 50 = some 2 by decide,
              show hexVal 48 = some 0 by decide, show hexVal 56 = some 8 by decide,
              show ((117 : UInt8) = 120) = False by decide, Bool.true_or, decide_true]
            rw [ih _ rest F hdl (by simp at hF; omega), appFst_some]
            simp only [rebuild, h8, ↓reduceIte]
            rw [h3.1] at *
            have : b :: (List.take (3 - 1) r ++ rebuild f (List.drop (3 - 1) r)) =
                (b :: List.take 2 r) ++ rebuild f (List.drop 2 r) := by simp
            rw [this, h3.2, enc2028]
        by_cases r2 : (decodeRune (b :: r)).1 = 0x2029
        · have e : appendStrBody 39 (f + 1) (b :: r) =
              92 :: 117 :: 50 :: 48 :: 50 :: 57 :: appendStrBody 39 f (r.drop ((decodeRune (b :: r)).2 - 1)) := by
            simp [appendStrBody, h8, r2]
          rw [e] at hF ⊢
          have hw : 2 ≤ (decodeRune (b :: r)).2 := by
            rcases Nat.lt_or_ge (decodeRune (b :: r)).2 2 with h | h
            · rcases decodeRune_width_one b r h with h' | h'
              · rw [r2] at h'; simp [runeError] at h'
              · rw [r2] at h'; omega
            · exact h
          have h3 := decodeRune_three b r 0x2029 0xE2 0x80 0xA9 (by omega) (by omega) (by omega) (by omega)
            (by omega) (by omega) r2 hw
          cases F with
          | zero => simp at hF
          | succ F =>
            simp only [List.cons_append, readEsc, ↓reduceIte, hu, show hexVal 50 = some 2 by decide,
              show hexVal 48 = some 0 by decide, show hexVal 57 = some 9 by decide,
              show ((117 : UInt8) = 120) = False by decide, Bool.true_or, decide_true]
            rw [ih _ rest F hdl (by simp at hF; omega), appFst_some]
            simp only [rebuild, h8, ↓reduceIte]
            rw [h3.1] at *
            have : b :: (List.take (3 - 1) r ++ rebuild f (List.drop (3 - 1) r)) =
                (b :: List.take 2 r) ++ rebuild f (List.drop 2 r) := by simp
            rw [this, h3.2, enc2029]
        by_cases r3 : (decodeRune (b :: r)).1 = runeError
        · by_cases hw1 : (decodeRune (b :: r)).2 = 1
          · -- not UTF-8: \xHH
            have hx := byte_hex b
            have e : appendStrBody 39 (f + 1) (b :: r) =
                92 :: 120 :: hexDigit (b >>> 4 &&& 15) :: hexDigit (b &&& 15) :: appendStrBody 39 f r := by
              simp [appendStrBody, h8, r3, hw1, runeError]
            rw [e] at hF ⊢
            cases F with
            | zero => simp at hF
            | succ F =>
              simp only [List.cons_append, readEsc, ↓reduceIte, show unescLetter 120 = none by decide, hx.1, hx.2.1]
              rw [hx.2.2, ih r rest F hr (by simp at hF; omega), consFst_some]
              simp [rebuild, h8, hw1]
          · have hw : 2 ≤ (decodeRune (b :: r)).2 := by
              have := decodeRune_pos b r
              omega
            have h3 := decodeRune_three b r 0xFFFD 0xEF 0xBF 0xBD (by omega) (by omega) (by omega) (by omega)
              (by omega) (by omega) r3 hw
            have e : appendStrBody 39 (f + 1) (b :: r) =
                92 :: 117 :: 102 :: 102 :: 102 :: 100 :: appendStrBody 39 f (r.drop ((decodeRune (b :: r)).2 - 1)) := by
              simp [appendStrBody, h8, r3, hw1, runeError]
            rw [e] at hF ⊢
            cases F with
            | zero => simp at hF
            | succ F =>
              simp only [List.cons_append, readEsc, ↓reduceIte, hu, show hexVal 102 = some 15 by decide,
                show hexVal 100 = some 13 by decide,
                show ((117 : UInt8) = 120) = False by decide, Bool.true_or, decide_true]
              rw [ih _ rest F hdl (by simp at hF; omega), appFst_some]
              simp only [rebuild, h8, ↓reduceIte]
              rw [h3.1] at *
              have : b :: (List.take (3 - 1) r ++ rebuild f (List.drop (3 - 1) r)) =
                  (b :: List.take 2 r) ++ rebuild f (List.drop 2 r) := by simp
              rw [this, h3.2, encFFFD]
              rfl
        · -- any other rune: its bytes are copied
          have e : appendStrBody 39 (f + 1) (b :: r) =
              (b :: r.take ((decodeRune (b :: r)).2 - 1)) ++ appendStrBody 39 f (r.drop ((decodeRune (b :: r)).2 - 1)) := by
            simp [appendStrBody, h8, r1, r2, r3]
          rw [e] at hF ⊢
          have hp : ∀ c ∈ b :: r.take ((decodeRune (b :: r)).2 - 1), c ≠ 39 ∧ c ≠ 92 := by
            intro c hc
            rcases List.mem_cons.mp hc with h | h
            · subst h; exact ge80_plain hge
            · exact ge80_plain (htail.2 c h)
          have hlen : (b :: r.take ((decodeRune (b :: r)).2 - 1)).length ≤ F := by
            simp only [List.length_append] at hF; omega
          have hFe : F = (F - (b :: r.take ((decodeRune (b :: r)).2 - 1)).length) +
              (b :: r.take ((decodeRune (b :: r)).2 - 1)).length := by omega
          rw [List.append_assoc, hFe, readEsc_plain _ _ _ hp,
            ih _ rest _ hdl (by simp only [List.length_append] at hF; omega), appFst_some]
          simp [rebuild, h8]
      · -- an escape letter
        have hb := byte_letter ho hd h8
        have e : appendStrBody 39 (f + 1) (b :: r) = 92 :: jCls b :: appendStrBody 39 f r := by
          simp [appendStrBody, ho, hd, h8]
        rw [e] at hF ⊢
        cases F with
        | zero => simp at hF
        | succ F =>
          simp only [List.cons_append, readEsc, ↓reduceIte, hb]
          rw [ih r rest F hr (by simp at hF; omega), consFst_some]
          simp [rebuild, h8]

theorem readStr_of_head_backslash (L tail : Bytes) (h : L.head? = some 92) :
    readStr 39 (L ++ tail) = readEsc 39 ((L ++ tail).length + 1) (L ++ tail) := by
  cases L with
  | nil => simp at h
  | cons c X =>
    simp at h
    subst h
    simp [readStr]

/-- `readStr` (which changes to `readEscStr` at the first backslash) reads back the body -/
theorem readStr_body (f : Nat) : ∀ (s rest : Bytes), s.length ≤ f →
    readStr 39 (appendStrBody 39 f s ++ 39 :: rest) = some (rebuild f s, rest) := by
  induction f with
  | zero =>
    intro s rest hs
    cases s with
    | nil => simp [appendStrBody, readStr, rebuild]
    | cons b r => simp at hs
  | succ f ih =>
    intro s rest hs
    cases s with
    | nil => simp [appendStrBody, readStr, rebuild]
    | cons b r =>
      have hr : r.length ≤ f := by simp at hs; omega
      -- escape at the head: the whole rest is read by readEscStr
      have viaEsc : (appendStrBody 39 (f + 1) (b :: r)).head? = some 92 →
          readStr 39 (appendStrBody 39 (f + 1) (b :: r) ++ 39 :: rest) = some (rebuild (f + 1) (b :: r), rest) := by
        intro hh
        rw [readStr_of_head_backslash _ _ hh]
        exact readEsc_body (f + 1) (b :: r) rest _ hs (by simp only [List.length_append]; omega)
      by_cases ho : jCls b = 111
      · have hb := byte_o ho
        have e : appendStrBody 39 (f + 1) (b :: r) = [b] ++ appendStrBody 39 f r := by simp [appendStrBody, ho]
        rw [e, List.append_assoc, readStr_plain [b] _ (by intro c hc; simp at hc; subst hc; exact hb) (by simp),
          ih r rest hr, appFst_some]
        have : jCls b ≠ 56 := by rw [ho]; decide
        simp [rebuild, this]
      by_cases hd : jCls b = 46
      · exact viaEsc (by simp [appendStrBody, hd])
      by_cases h8 : jCls b = 56
      · have hge := byte_8 h8
        have htail := decodeRune_tail b r
        have hdl : (r.drop ((decodeRune (b :: r)).2 - 1)).length ≤ f := drop_length_le r _ f hr
        by_cases r1 : (decodeRune (b :: r)).1 = 0x2028
        · exact viaEsc (by simp [appendStrBody, h8, r1])
        by_cases r2 : (decodeRune (b :: r)).1 = 0x2029
        · exact viaEsc (by simp [appendStrBody, h8, r2])
        by_cases r3 : (decodeRune (b :: r)).1 = runeError
        · exact viaEsc (by by_cases hw1 : (decodeRune (b :: r)).2 = 1 <;> simp [appendStrBody, h8, r3, hw1, runeError])
        · have e : appendStrBody 39 (f + 1) (b :: r) =
              (b :: r.take ((decodeRune (b :: r)).2 - 1)) ++ appendStrBody 39 f (r.drop ((decodeRune (b :: r)).2 - 1)) := by
            simp [appendStrBody, h8, r1, r2, r3]
          have hp : ∀ c ∈ b :: r.take ((decodeRune (b :: r)).2 - 1), c ≠ 39 ∧ c ≠ 92 := by
            intro c hc
            rcases List.mem_cons.mp hc with h | h
            · subst h; exact ge80_plain hge
            · exact ge80_plain (htail.2 c h)
          rw [e, List.append_assoc, readStr_plain _ _ hp (by simp), ih _ rest hdl, appFst_some]
          simp [rebuild, h8]
      · exact viaEsc (by simp [appendStrBody, ho, hd, h8])

theorem rebuild_id (f : Nat) : ∀ s : Bytes, s.length ≤ f → rebuild f s = s := by
  induction f with
  | zero => intro s hs; cases s with
    | nil => rfl
    | cons b r => simp at hs
  | succ f ih =>
    intro s hs
    cases s with
    | nil => rfl
    | cons b r =>
      have hr : r.length ≤ f := by simp at hs; omega
      simp only [rebuild]
      split
      · rw [ih _ (drop_length_le r _ f hr)]; simp
      · rw [ih r hr]

/-- **Quoted strings round-trip.** For every byte string `s` (a key, a union member, a string constant)
and whatever follows: the parser, having consumed the opening `'`, reads `AppendString(s, '\'')` back as
`s` and stops right after the closing quote. -/
theorem readStr_appendString (s rest : Bytes) :
    ∃ t, appendString s 39 ++ rest = 39 :: t ∧ readStr 39 t = some (s, rest) := by
  refine ⟨appendStrBody 39 s.length s ++ 39 :: rest, by simp [appendString], ?_⟩
  rw [readStr_body s.length s rest (Nat.le_refl _), rebuild_id s.length s (Nat.le_refl _)]

end OjgVerif.JPText
