import OjgVerif.JPText.Print
import OjgVerif.JPText.Parse
/-! # C14 lemmas: `readStr` reads back what `AppendString` writes

`readStr_appendString`: for EVERY byte string `s`, the parser's quoted-string reader applied to
`AppendString(s, '\'')` followed by anything returns `sanitize s` — `s` with every byte that is not
part of a valid UTF-8 sequence replaced by U+FFFD — and the rest of the input; `sanitize_valid`:
`sanitize s = s` for valid UTF-8. The proof reads the generated `jMap` and `hex` tables
(`byteOK_all`, 256 cells by kernel evaluation): an escape letter without a matching case in
`readEscStr`, a class change of a quote or of the backslash, a wrong hex digit break it. -/
namespace OjgVerif.JPText
open OjgVerif

/-- lifting a decidable per-byte check from `Fin 256` to `UInt8` -/
theorem forall_byte {p : UInt8 → Bool} (h : ∀ i : Fin 256, p (UInt8.ofNat i.val) = true) (b : UInt8) :
    p b = true := by
  have := h ⟨b.toNat, b.toNat_lt⟩
  simpa using this

/-- what the round trip needs from `jMap`, `hex` and the escape cases of `readEscStr`, for one byte -/
def byteOK (b : UInt8) : Bool :=
  (jCls b != 111 || (b != 39 && b != 92)) &&
  (jCls b != 46 || (hexVal (hexDigit (b >>> 4 &&& 15)) == some (b >>> 4 &&& 15) &&
      hexVal (hexDigit (b &&& 15)) == some (b &&& 15) &&
      encodeRune ((0 : UInt8).toNat * 4096 + (0 : UInt8).toNat * 256 + (b >>> 4 &&& 15).toNat * 16 + (b &&& 15).toNat) == [b])) &&
  (jCls b != 56 || decide (0x80 ≤ b)) &&
  (jCls b == 111 || jCls b == 46 || jCls b == 56 || unescLetter (jCls b) == some b)

theorem byteOK_all (b : UInt8) : byteOK b = true :=
  forall_byte (p := byteOK) (by decide +kernel) b

theorem lo2_ge (b : UInt8) : 0x80 ≤ lo2 b := by
  unfold lo2; split
  · decide
  · split <;> decide

theorem isCont_ge {b : UInt8} (h : isCont b = true) : 0x80 ≤ b := by
  simp only [isCont, Bool.and_eq_true, decide_eq_true_eq] at h
  exact h.1

theorem isCont_toNat {b : UInt8} (h : isCont b = true) : 128 ≤ b.toNat ∧ b.toNat ≤ 191 := by
  simp only [isCont, Bool.and_eq_true, decide_eq_true_eq, UInt8.le_iff_toNat_le] at h
  exact ⟨by simpa using h.1, by simpa using h.2⟩

theorem lo2_toNat {b0 b1 : UInt8} (h : lo2 b0 ≤ b1) :
    128 ≤ b1.toNat ∧ (b0.toNat = 240 → 144 ≤ b1.toNat) ∧ (b0.toNat = 224 → 160 ≤ b1.toNat) := by
  unfold lo2 at h
  split at h
  · rename_i e; subst e
    have := UInt8.le_iff_toNat_le.mp h
    simp at this
    refine ⟨by omega, by intro h2; simp at h2, fun _ => this⟩
  · split at h
    · rename_i e; subst e
      have := UInt8.le_iff_toNat_le.mp h
      simp at this
      refine ⟨by omega, fun _ => this, by intro h2; simp at h2⟩
    · rename_i e1 e2
      have := UInt8.le_iff_toNat_le.mp h
      simp at this
      refine ⟨this, ?_, ?_⟩
      · intro h2; exfalso; apply e2; apply UInt8.toNat_inj.mp; simpa using h2
      · intro h2; exfalso; apply e1; apply UInt8.toNat_inj.mp; simpa using h2

theorem hi2_toNat {b0 b1 : UInt8} (h : b1 ≤ hi2 b0) : b1.toNat ≤ 191 := by
  unfold hi2 at h
  split at h
  · have := UInt8.le_iff_toNat_le.mp h; simp at this; omega
  · split at h
    · have := UInt8.le_iff_toNat_le.mp h; simp at this; omega
    · have := UInt8.le_iff_toNat_le.mp h; simpa using this

theorem ofToNat {b : UInt8} {n : Nat} (h : b.toNat = n) (hn : n < 256) : b = UInt8.ofNat n := by
  apply UInt8.toNat_inj.mp
  simp [h, Nat.mod_eq_of_lt hn]

theorem decodeRune_cons (b0 : UInt8) (r : Bytes) : decodeRune (b0 :: r) =
    if b0 < 0x80 then (b0.toNat, 1)
    else if b0 < 0xC2 then (runeError, 1)
    else if b0 < 0xE0 then
      match r with
      | b1 :: _ =>
        if isCont b1 then ((b0.toNat - 0xC0) * 64 + (b1.toNat - 0x80), 2) else (runeError, 1)
      | [] => (runeError, 1)
    else if b0 < 0xF0 then
      match r with
      | b1 :: b2 :: _ =>
        if decide (lo2 b0 ≤ b1) && decide (b1 ≤ hi2 b0) && isCont b2 then
          ((b0.toNat - 0xE0) * 4096 + (b1.toNat - 0x80) * 64 + (b2.toNat - 0x80), 3)
        else (runeError, 1)
      | _ => (runeError, 1)
    else if b0 < 0xF5 then
      match r with
      | b1 :: b2 :: b3 :: _ =>
        if decide (lo2 b0 ≤ b1) && decide (b1 ≤ hi2 b0) && isCont b2 && isCont b3 then
          ((b0.toNat - 0xF0) * 262144 + (b1.toNat - 0x80) * 4096 + (b2.toNat - 0x80) * 64 + (b3.toNat - 0x80), 4)
        else (runeError, 1)
      | _ => (runeError, 1)
    else (runeError, 1) := by
  rfl

/-- a three-byte rune value determines its bytes -/
theorem decodeRune_three (b : UInt8) (r : Bytes) (v : Nat) (x y z : Nat)
    (hv : v = (x - 224) * 4096 + (y - 128) * 64 + (z - 128)) (hx : 224 ≤ x ∧ x < 240) (hy : 128 ≤ y ∧ y ≤ 191)
    (hz : 128 ≤ z ∧ z ≤ 191) (h2k : 2048 ≤ v) (h64 : v < 65536)
    (h : (decodeRune (b :: r)).1 = v) (hw : 2 ≤ (decodeRune (b :: r)).2) :
    (decodeRune (b :: r)).2 = 3 ∧ b :: r.take 2 = [UInt8.ofNat x, UInt8.ofNat y, UInt8.ofNat z] := by
  rw [decodeRune_cons] at h hw ⊢
  have hb := b.toNat_lt
  by_cases c1 : b < 0x80
  · simp [c1] at hw
  by_cases c2 : b < 0xC2
  · simp [c1, c2] at hw
  by_cases c3 : b < 0xE0
  · simp only [c1, c2, c3, ↓reduceIte] at h hw ⊢
    cases r with
    | nil => simp at hw
    | cons b1 t =>
      simp only [] at h hw ⊢
      by_cases hc : isCont b1 = true
      · simp only [hc, ↓reduceIte] at h hw ⊢
        have := isCont_toNat hc
        have h3' := UInt8.lt_iff_toNat_lt.mp c3
        simp at h3' h
        omega
      · simp [hc] at hw
  by_cases c4 : b < 0xF0
  · simp only [c1, c2, c3, c4, ↓reduceIte] at h hw ⊢
    match r with
    | [] => simp at hw
    | [_] => simp at hw
    | b1 :: b2 :: t =>
      simp only [] at h hw ⊢
      by_cases hc : (decide (lo2 b ≤ b1) && decide (b1 ≤ hi2 b) && isCont b2) = true
      · simp only [hc, ↓reduceIte] at h hw ⊢
        simp only [Bool.and_eq_true, decide_eq_true_eq] at hc
        have c2' := isCont_toNat hc.2
        have l := lo2_toNat hc.1.1
        have u := hi2_toNat hc.1.2
        have h3' := Nat.not_lt.mp (fun q => c3 (UInt8.lt_iff_toNat_lt.mpr q))
        have h4' := UInt8.lt_iff_toNat_lt.mp c4
        simp at h3' h4' h
        have e0 : b.toNat = x := by omega
        have e1 : b1.toNat = y := by omega
        have e2 : b2.toNat = z := by omega
        simp [ofToNat e0 (by omega), ofToNat e1 (by omega), ofToNat e2 (by omega)]
      · simp [hc] at hw
  by_cases c5 : b < 0xF5
  · simp only [c1, c2, c3, c4, c5, ↓reduceIte] at h hw ⊢
    match r with
    | [] => simp at hw
    | [_] => simp at hw
    | [_, _] => simp at hw
    | b1 :: b2 :: b3 :: t =>
      simp only [] at h hw ⊢
      by_cases hc : (decide (lo2 b ≤ b1) && decide (b1 ≤ hi2 b) && isCont b2 && isCont b3) = true
      · simp only [hc, ↓reduceIte] at h hw ⊢
        simp only [Bool.and_eq_true, decide_eq_true_eq] at hc
        have l := lo2_toNat hc.1.1.1
        have h4' := Nat.not_lt.mp (fun q => c4 (UInt8.lt_iff_toNat_lt.mpr q))
        simp at h4' h
        omega
      · simp [hc] at hw
  · simp [c1, c2, c3, c4, c5] at hw

/-- the bytes a decoded rune takes after its first one exist and are all ≥ 0x80 -/
theorem decodeRune_tail (b : UInt8) (r : Bytes) :
    (decodeRune (b :: r)).2 - 1 ≤ r.length ∧ ∀ c ∈ r.take ((decodeRune (b :: r)).2 - 1), 0x80 ≤ c := by
  rw [decodeRune_cons]
  split
  · simp
  split
  · simp
  split
  · cases r with
    | nil => simp
    | cons b1 t =>
      simp only []
      split
      · rename_i h
        simp
        exact isCont_ge h
      · simp
  split
  · match r with
    | [] => simp
    | [_] => simp
    | b1 :: b2 :: t =>
      simp only []
      split
      · rename_i h
        simp only [Bool.and_eq_true, decide_eq_true_eq] at h
        simp
        exact ⟨UInt8.le_trans (lo2_ge b) h.1.1, isCont_ge h.2⟩
      · simp
  split
  · match r with
    | [] => simp
    | [_] => simp
    | [_, _] => simp
    | b1 :: b2 :: b3 :: t =>
      simp only []
      split
      · rename_i h
        simp only [Bool.and_eq_true, decide_eq_true_eq] at h
        simp
        exact ⟨UInt8.le_trans (lo2_ge b) h.1.1.1, isCont_ge h.1.2, isCont_ge h.2⟩
      · simp
  · simp

end OjgVerif.JPText
