import OjgVerif.JPText.LemmasBracket
/-! # C14 lemmas: `String()` of filter-free expressions WITH `Bracket` flags — the general theorem

`LemmasBracket.lean` has a finite box for `String()` of expressions with the flag `jp.B()`. Here the same
statement for every length, by induction over the fragment loop of `readExpr`:

* `parseExpr_bprint` — the text `bexprPrint false x` of a flagged expression whose flag-free part is clean
  (`cleanExpr (stripB x)`: Root/At first only, any children, int64 indices, wildcards, descents anywhere,
  unions of two or more members, slices; no filter) is ACCEPTED and read as `imgB false x`: the fragments
  without the flags, a wildcard after the first flag as `Wildcard('#')`, a slice in its normal form;
* `sameExpr_imgB` — that is the flag-free expression up to the normal form;
* `exprPrint_imgB` — it prints as `stripBH false x` does;
* `roundTripsBExpr_false_iff` — hence the round trip of `String()` holds EXACTLY when `bracketReprint false x`
  is false (known finding C14-bracket-flag is the only way a flag breaks C14 for these expressions);
* `roundTripsBExpr_false_spec`, `bexact_of_spec` — the hypothesis in the words of Spec.lean (the statement of the
  finite box `bracketBox_exact3/4`, any length);
* `bracketReprint_false_eq` (no hypothesis), `roundTripsBExpr_false_eq` — `bracketReprint false x` is `flagMatters
  false x`: a token-like child or a descent stands somewhere after a flag.

The loop lemma `readExprLoop_b` is `readExprLoop_clean` with the notation `br` as a state that a flag switches
to bracket; `brest` is the mixed-notation analogue of `restText` (the second dot of a dot-form descent is
consumed with the first by `afterDot`, also when a flag stands between the descent and the next fragment:
`R().D().B().C("a b")` is `$..['a b']`). -/
namespace OjgVerif.JPText
open OjgVerif

/-- what the parser builds for the text of a flagged expression (`br`: bracket notation is on) -/
def imgB (br : Bool) : BExpr → List Frag
  | [] => []
  | none :: r => imgB true r
  | some f :: r => f.img br :: imgB br r

/-- the text the parser still has to read (`restText` with flags): `bprintL` without the second dot of a
dot-form descent -/
def brest (br fl lastD : Bool) : BExpr → Bytes
  | [] => []
  | none :: r => brest true fl lastD r
  | some f :: r => f.print br (fl || (lastD && !br)) ++ bprintL br false (f.isDescent && !br) r

/-- in bracket notation neither `first` nor a descent before matters -/
theorem brest_true : ∀ (x : BExpr) (fl fl' lastD lastD' : Bool), brest true fl lastD x = brest true fl' lastD' x := by
  intro x
  induction x with
  | nil => intros; rfl
  | cons f r ih =>
    intro fl fl' lastD lastD'
    cases f with
    | none => exact ih fl fl' lastD lastD'
    | some f =>
      simp only [brest, Bool.not_true, Bool.and_false, Bool.or_false]
      rw [print_true_first f fl fl']

theorem bprintL_eq : ∀ (x : BExpr) (br fl aD : Bool),
    bprintL br fl aD x = (if aD then [46] else []) ++ brest br fl aD x := by
  intro x
  induction x with
  | nil => intro br fl aD; cases aD <;> simp [bprintL, brest]
  | cons f r ih =>
    intro br fl aD
    cases f with
    | none =>
      simp only [bprintL, brest]
      rw [ih true false aD, brest_true r false fl aD aD]
    | some f =>
      simp only [bprintL, brest]
      cases br with
      | true => rw [print_true_first f (fl || aD) (fl || (aD && !true))]
      | false => simp

theorem bprintL_noDescent (br : Bool) (x : BExpr) : bprintL br false false x = brest br false false x := by
  rw [bprintL_eq]; simp

theorem bprintL_afterDot (br : Bool) (x : BExpr) : bprintL br false true x = 46 :: brest br false true x := by
  rw [bprintL_eq]; simp

theorem followerOK_append_ne {a : Bytes} (t t' : Bytes) (h : 1 ≤ a.length) :
    followerOK (a ++ t) = followerOK (a ++ t') := by
  cases a with
  | nil => simp at h
  | cons b r => rfl

/-- the text after a fragment starts with a dot or a bracket, or is empty -/
theorem follower_brest : ∀ (r : BExpr) (br : Bool), cleanTail (stripB r) = true →
    followerOK (brest br false false r) = true := by
  intro r
  induction r with
  | nil => intros; rfl
  | cons g r ih =>
    intro br h
    cases g with
    | none => exact ih true h
    | some g =>
      simp only [stripB, cleanTail, Bool.and_eq_true] at h
      have h1 := follower_restText br [g] (by simp [cleanTail, h.1])
      simp only [restText] at h1
      simp only [brest]
      rw [followerOK_append_ne _ _ (Frag.print_ne_nil br _ g h.1)]
      exact h1

/-- the fragment loop of `readExpr` over the text of clean fragments with flags between them -/
theorem readExprLoop_b (pf : P (List Item)) : ∀ (x : BExpr) (br fl lastD : Bool) (n : Nat),
    cleanTail (stripB x) = true → (brest br fl lastD x).length < n →
    readExprLoop pf n fl lastD (brest br fl lastD x) = some (imgB br x, []) := by
  intro x
  induction x with
  | nil =>
    intro br fl lastD n _ hn
    cases n with
    | zero => simp at hn
    | succ n => simp [brest, readExprLoop, nextFrag, imgB]
  | cons o r ih =>
    intro br fl lastD n hcl hn
    cases o with
    | none => exact ih true fl lastD n hcl hn
    | some f =>
    simp only [stripB, cleanTail, Bool.and_eq_true] at hcl
    cases n with
    | zero => simp at hn
    | succ n =>
    by_cases hd : f.isDescent = true
    · cases f <;> simp [Frag.isDescent] at hd
      cases br with
      | false =>
        -- `..`: both dots are read with the descent
        have e : brest false fl lastD (some .descent :: r) = 46 :: 46 :: brest false false true r := by
          simp [brest, Frag.print, Frag.isDescent, bprintL_afterDot]
        rw [e] at hn ⊢
        have h1 : nextFrag pf fl lastD (46 :: 46 :: brest false false true r) =
            some (some .descent, brest false false true r) := by
          simp [nextFrag, afterDot]
        rw [readExprLoop_step pf n fl lastD _ _ _ h1]
        have h3 := ih false false true n hcl.2 (by simp only [List.length_cons] at hn; omega)
        simp only [Frag.isDescent]
        rw [h3]; rfl
      | true =>
        have e : brest true fl lastD (some .descent :: r) = 91 :: (46 :: 46 :: 93 :: brest true false true r) := by
          rw [brest_true r false false true false, ← bprintL_noDescent]
          rfl
        rw [e] at hn ⊢
        have h1 := nextFrag_bracket pf fl lastD _ _ _ (afterBracket_descent pf (brest true false true r))
        rw [readExprLoop_step pf n fl lastD _ _ _ h1]
        have h3 := ih true false true n hcl.2 (by simp only [List.length_cons] at hn; omega)
        simp only [Frag.isDescent]
        rw [h3]; rfl
    · have hd' : f.isDescent = false := by simpa using hd
      have hT := follower_brest r br hcl.2
      have e : brest br fl lastD (some f :: r) = f.print br (fl || (lastD && !br)) ++ brest br false false r := by
        simp [brest, hd', bprintL_noDescent]
      rw [e] at hn ⊢
      have h1 := nextFrag_clean pf br fl lastD f _ hcl.1 hd' hT
      have hl := Frag.print_ne_nil br (fl || (lastD && !br)) f hcl.1
      rw [readExprLoop_step pf n fl lastD _ _ _ h1, img_isDescent_eq, hd']
      have h3 := ih br false false n hcl.2 (by simp only [List.length_append] at hn; omega)
      rw [h3]; rfl

/-- the same from the start of the text: a Root/At may be the first fragment, flags before it or not -/
theorem readExprLoop_b_first (pf : P (List Item)) : ∀ (x : BExpr) (br : Bool) (n : Nat),
    cleanExpr (stripB x) = true → (brest br true false x).length < n →
    readExprLoop pf n true false (brest br true false x) = some (imgB br x, []) := by
  intro x
  induction x with
  | nil =>
    intro br n _ hn
    cases n with
    | zero => simp at hn
    | succ n => simp [brest, readExprLoop, nextFrag, imgB]
  | cons o r ih =>
    intro br n h hn
    cases o with
    | none => exact ih true n h hn
    | some f =>
      simp only [stripB, cleanExpr] at h
      by_cases hra : f.isRootAt = true
      · simp only [hra, ↓reduceIte] at h
        have hd : f.isDescent = false := by cases f <;> simp [Frag.isRootAt] at hra <;> rfl
        have e : brest br true false (some f :: r) = f.print br true ++ brest br false false r := by
          simp [brest, hd, bprintL_noDescent]
        rw [e] at hn ⊢
        have hnf : nextFrag pf true false (f.print br true ++ brest br false false r) =
            some (some (f.img br), brest br false false r) := by
          cases f <;> simp [Frag.isRootAt] at hra <;> simp [Frag.print, nextFrag, Frag.img]
        have hl : (f.print br true ++ brest br false false r).length = (brest br false false r).length + 1 := by
          cases f <;> simp [Frag.isRootAt] at hra <;> simp [Frag.print]
        cases n with
        | zero => simp at hn
        | succ n =>
          have h3 := readExprLoop_b pf r br false false n h (by omega)
          rw [readExprLoop_step pf _ true false _ _ _ hnf, img_isDescent_eq, hd, h3]
          rfl
      · simp only [hra, Bool.false_eq_true, ↓reduceIte] at h
        exact readExprLoop_b pf (some f :: r) br true false n (by simpa [stripB] using h) hn

theorem bexprPrint_eq_brest (br : Bool) (x : BExpr) : bexprPrint br x = brest br true false x := by
  unfold bexprPrint; rw [bprintL_eq]; simp

/-- **The text of a flagged filter-free expression is accepted and read as the fragments without the flags.** -/
theorem parseExpr_bprint (br : Bool) (x : BExpr) (h : cleanExpr (stripB x) = true) :
    parseExpr (bexprPrint br x) = some (imgB br x) := by
  have key : ∀ pf : P (List Item), readExpr pf (bexprPrint br x) = some (imgB br x, []) := by
    intro pf
    unfold readExpr
    rw [bexprPrint_eq_brest]
    exact readExprLoop_b_first pf x br _ h (by omega)
  simp only [parseExpr, key]

theorem imgB_normL : ∀ (x : BExpr) (br : Bool), Frag.normL (imgB br x) = Frag.normL (stripB x) := by
  intro x
  induction x with
  | nil => intro _; rfl
  | cons o r ih =>
    intro br
    cases o with
    | none => exact ih true
    | some f => simp [imgB, stripB, Frag.normL, img_norm, ih]

/-- the result is the flag-free expression up to the normal form -/
theorem sameExpr_imgB (br : Bool) (x : BExpr) : sameExpr (imgB br x) (stripB x) = true := by
  simp [sameExpr, imgB_normL]

/-- one fragment of `stripBH` -/
def Frag.bh (br : Bool) : Frag → Frag
  | .wild h => .wild (h || br)
  | f => f

theorem stripBH_some (br : Bool) (f : Frag) (r : BExpr) : stripBH br (some f :: r) = f.bh br :: stripBH br r := by
  cases f <;> rfl

theorem bh_isDescent_eq (br : Bool) (f : Frag) : (f.bh br).isDescent = f.isDescent := by
  cases f <;> rfl

/-- in dot notation the parser's fragment prints like the one `stripBH` keeps -/
theorem img_print_bh (br fl : Bool) (f : Frag) (hc : f.clean = true ∨ f.isRootAt = true) :
    (f.img br).print false fl = (f.bh br).print false fl := by
  cases f with
  | wild hh =>
    rcases hc with h | h
    · simp only [Frag.clean, Bool.not_eq_true'] at h
      subst h
      simp [Frag.img, Frag.bh]
    · simp [Frag.isRootAt] at h
  | slice ns => exact img_print false fl (.slice ns) hc
  | root => rfl
  | «at» => rfl
  | child k => rfl
  | nth i => rfl
  | descent => rfl
  | union ms => rfl
  | filter t => rfl

theorem imgB_printL : ∀ (x : BExpr) (br fl aD : Bool), cleanTail (stripB x) = true →
    Frag.printL false fl aD (imgB br x) = Frag.printL false fl aD (stripBH br x) := by
  intro x
  induction x with
  | nil => intros; rfl
  | cons o r ih =>
    intro br fl aD h
    cases o with
    | none => exact ih true fl aD h
    | some f =>
      simp only [stripB, cleanTail, Bool.and_eq_true] at h
      rw [stripBH_some]
      simp [imgB, Frag.printL, img_print_bh br _ f (Or.inl h.1), img_isDescent_eq, bh_isDescent_eq, ih _ _ _ h.2]

theorem imgB_printL_first : ∀ (x : BExpr) (br : Bool), cleanExpr (stripB x) = true →
    Frag.printL false true false (imgB br x) = Frag.printL false true false (stripBH br x) := by
  intro x
  induction x with
  | nil => intros; rfl
  | cons o r ih =>
    intro br h
    cases o with
    | none => exact ih true h
    | some f =>
      simp only [stripB, cleanExpr] at h
      by_cases hra : f.isRootAt = true
      · simp only [hra, ↓reduceIte] at h
        rw [stripBH_some]
        simp [imgB, Frag.printL, img_print_bh br _ f (Or.inr hra), img_isDescent_eq, bh_isDescent_eq,
          imgB_printL r br _ _ h]
      · simp only [hra, Bool.false_eq_true, ↓reduceIte] at h
        exact imgB_printL (some f :: r) br true false (by simpa [stripB] using h)

/-- what was read prints (with `String()`) as the flag-free expression the parser can remember -/
theorem exprPrint_imgB (br : Bool) (x : BExpr) (h : cleanExpr (stripB x) = true) :
    exprPrint false (imgB br x) = exprPrint false (stripBH br x) :=
  imgB_printL_first x br h

/-- **C14 for `String()` of filter-free expressions with `Bracket` flags, any length.** The text is accepted
and read as the flag-free expression; the round trip holds exactly when the flags did not change the text in a
way the grammar cannot express (C14-bracket-flag). -/
theorem roundTripsBExpr_false_iff (x : BExpr) (h : cleanExpr (stripB x) = true) :
    roundTripsBExpr false x = !bracketReprint false x := by
  simp only [roundTripsBExpr, parseExpr_bprint false x h, exprPrint_imgB false x h, sameExpr_imgB,
    Bool.and_true, bracketReprint, bne, Bool.not_not]
  exact Bool.beq_comm

/-- in the words of Spec.lean: constructible, no filter fragment, no named deviation of the flag-free part -/
theorem roundTripsBExpr_false_spec (x : BExpr) (hok : Frag.okL (stripB x) = true)
    (hnf : noFilter (stripB x) = true) (hdev : devsExpr false (stripB x) = []) :
    roundTripsBExpr false x = !bracketReprint false x :=
  roundTripsBExpr_false_iff x (cleanExpr_of_spec false (stripB x) hok hnf hdev)

/-- both text forms (`BracketString()` does not see the flags: `bracketReprint true x = false`) -/
theorem roundTripsBExpr_iff (br : Bool) (x : BExpr) (h : cleanExpr (stripB x) = true) :
    roundTripsBExpr br x = !bracketReprint br x := by
  cases br with
  | false => exact roundTripsBExpr_false_iff x h
  | true => rw [roundTripsBExpr_true, roundTripsExpr_clean true _ h, bracketReprint_true]; rfl

/-- the statement of the finite box `bracketBox_exact3/4` (`bexact`) for every flagged expression, of any
length, whose flag-free part is constructible, filter-free and without a named deviation -/
theorem bexact_of_spec (x : BExpr) (hok : Frag.okL (stripB x) = true)
    (hnf : noFilter (stripB x) = true) (hdev : devsExpr false (stripB x) = []) : bexact x = true := by
  simp [bexact, roundTripsBExpr_false_spec x hok hnf hdev, hdev]

/-! ## the deviation C14-bracket-flag as a predicate on the fragments -/

/-- the fragment has a dot form, other than a wildcard's (which the parser remembers as `'#'`) -/
def Frag.dotForm : Frag → Bool
  | .child k => tokenOk k
  | .descent => true
  | _ => false

/-- a fragment with a dot form stands after a flag -/
def flagMatters (br : Bool) : BExpr → Bool
  | [] => false
  | none :: r => flagMatters true r
  | some f :: r => (br && f.dotForm) || flagMatters br r

theorem print_bh_noDot (f : Frag) (h : f.dotForm = false) (a b : Bool) :
    f.print true a = (f.bh true).print false b ∧ f.isDescent = false := by
  cases f with
  | child k => simp only [Frag.dotForm] at h; simp [Frag.print, childPrint, Frag.bh, h, Frag.isDescent]
  | wild hh => simp [Frag.print, Frag.bh, Frag.isDescent]
  | descent => simp [Frag.dotForm] at h
  | root => exact ⟨rfl, rfl⟩
  | «at» => exact ⟨rfl, rfl⟩
  | nth i => exact ⟨rfl, rfl⟩
  | union ms => exact ⟨rfl, rfl⟩
  | slice ns => exact ⟨rfl, rfl⟩
  | filter t => exact ⟨rfl, rfl⟩

theorem print_bh_dot (f : Frag) (h : f.dotForm = true) (a b : Bool) (A B : Bytes) :
    f.print true a ++ A ≠ (f.bh true).print false b ++ B := by
  cases f with
  | child k =>
    simp only [Frag.dotForm] at h
    obtain ⟨hall, hne⟩ := (tokenOk_iff k).mp h
    cases k with
    | nil => exact absurd rfl hne
    | cons c k =>
      have hc := hall c (by simp)
      have h91 : tokCls 91 = 46 := by decide +kernel
      have : c ≠ 91 := fun e => hc (e ▸ h91)
      cases b <;> simp [Frag.print, childPrint, Frag.bh, h, Ne.symm this]
  | descent => simp [Frag.print, Frag.bh]
  | wild hh => simp [Frag.dotForm] at h
  | root => simp [Frag.dotForm] at h
  | «at» => simp [Frag.dotForm] at h
  | nth i => simp [Frag.dotForm] at h
  | union ms => simp [Frag.dotForm] at h
  | slice ns => simp [Frag.dotForm] at h
  | filter t => simp [Frag.dotForm] at h

theorem bprintL_true_eq_iff : ∀ (x : BExpr) (fl fl' aD : Bool),
    bprintL true fl aD x = Frag.printL false fl' aD (stripBH true x) ↔ flagMatters true x = false := by
  intro x
  induction x with
  | nil => intro fl fl' aD; simp [bprintL, stripBH, Frag.printL, flagMatters]
  | cons o r ih =>
    intro fl fl' aD
    cases o with
    | none => simpa [bprintL, stripBH, flagMatters] using ih false fl' aD
    | some f =>
      rw [stripBH_some]
      simp only [bprintL, Frag.printL, flagMatters, Bool.true_and, Bool.not_true, Bool.and_false,
        List.append_cancel_left_eq, bh_isDescent_eq, Bool.or_eq_false_iff]
      cases hdf : f.dotForm with
      | false =>
        obtain ⟨h1, h2⟩ := print_bh_noDot f hdf (fl || aD) (fl' || aD)
        rw [h1, h2]
        simp only [List.append_cancel_left_eq, true_and]
        exact ih false false false
      | true =>
        simp only [Bool.true_eq_false, false_and, iff_false]
        exact print_bh_dot f hdf _ _ _ _

theorem bh_false (f : Frag) : f.bh false = f := by
  cases f <;> simp [Frag.bh]

theorem bprintL_false_eq_iff : ∀ (x : BExpr) (fl aD : Bool),
    bprintL false fl aD x = Frag.printL false fl aD (stripBH false x) ↔ flagMatters false x = false := by
  intro x
  induction x with
  | nil => intro fl aD; simp [bprintL, stripBH, Frag.printL, flagMatters]
  | cons o r ih =>
    intro fl aD
    cases o with
    | none => simpa [bprintL, stripBH, flagMatters] using bprintL_true_eq_iff r false fl aD
    | some f =>
      rw [stripBH_some, bh_false]
      simp only [bprintL, Frag.printL, flagMatters, Bool.false_and, Bool.false_or, Bool.not_false, Bool.and_true,
        List.append_cancel_left_eq]
      exact ih false f.isDescent

/-- **C14-bracket-flag, structurally**: `String()` of an expression with flags is not the text of what the parser
reads back exactly when a fragment with a dot form (a token-like child, a descent) stands after a flag -/
theorem bracketReprint_false_eq (x : BExpr) : bracketReprint false x = flagMatters false x := by
  have h := bprintL_false_eq_iff x true false
  simp only [bracketReprint, bexprPrint, exprPrint]
  cases hf : flagMatters false x with
  | false => simp [h.mpr hf]
  | true =>
    have : ¬ (bprintL false true false x = Frag.printL false true false (stripBH false x)) := by
      intro e; rw [h.mp e] at hf; cases hf
    simpa using this

theorem roundTripsBExpr_false_eq (x : BExpr) (h : cleanExpr (stripB x) = true) :
    roundTripsBExpr false x = !flagMatters false x := by
  rw [roundTripsBExpr_false_iff x h, bracketReprint_false_eq]

end OjgVerif.JPText
