import OjgVerif.JPText.Spec
/-! # C14 lemmas: `readInt` reads back what `strconv.FormatInt` writes

`readInt_fmtInt`: for every int64 `i` and every non-digit follower, the index reader of jp/parse.go
(digit loop with Go wrap-around arithmetic) applied to the decimal text of `i` returns `i`. Used for
`Nth`, `Slice` and integer `Union` members. -/
namespace OjgVerif.JPText
open OjgVerif

/-! digits -/

theorem digitsAux_acc (f : Nat) : ∀ (n : Nat) (acc : Bytes), digitsAux f n acc = digitsAux f n [] ++ acc := by
  induction f with
  | zero => intro n acc; simp [digitsAux]
  | succ f ih =>
    intro n acc
    simp only [digitsAux]
    split
    · simp
    · rw [ih (n / 10) (_ :: acc), ih (n / 10) [_]]
      simp

theorem digitsAux_fuel (f : Nat) : ∀ (f' n : Nat) (acc : Bytes), n < f → n < f' →
    digitsAux f n acc = digitsAux f' n acc := by
  induction f with
  | zero => intro f' n acc h; omega
  | succ f ih =>
    intro f' n acc h h'
    cases f' with
    | zero => omega
    | succ f' =>
      simp only [digitsAux]
      split
      · rfl
      · rename_i hne
        exact ih f' (n / 10) _ (by omega) (by omega)

def digitByte (n : Nat) : UInt8 := UInt8.ofNat (48 + n % 10)

theorem digits_small (n : Nat) (h : n < 10) : digits n = [digitByte n] := by
  have : n / 10 = 0 := by omega
  simp [digits, digitsAux, this, digitByte]

theorem digits_big (n : Nat) (h : 10 ≤ n) : digits n = digits (n / 10) ++ [digitByte n] := by
  have hne : ¬ n / 10 = 0 := by omega
  unfold digits
  rw [digitsAux]
  simp only [hne, ↓reduceIte]
  rw [digitsAux_acc, digitsAux_fuel n (n / 10 + 1) (n / 10) [] (by omega) (by omega)]
  rfl

theorem isDigit_digitByte (n : Nat) : isDigit (digitByte n) = true := by
  have h : n % 10 < 10 := Nat.mod_lt _ (by decide)
  have : ∀ k, k < 10 → isDigit (UInt8.ofNat (48 + k)) = true := by decide
  exact this _ h

theorem digitByte_toNat (n : Nat) : (digitByte n).toNat = 48 + n % 10 := by
  have h : n % 10 < 10 := Nat.mod_lt _ (by decide)
  simp [digitByte]
  omega

/-- mathematical value of a digit string read after `a` -/
def valDigits : Bytes → Int → Int
  | [], a => a
  | d :: ds, a => valDigits ds (a * 10 + ((d.toNat - 48 : Nat) : Int))

theorem valDigits_append (xs ys : Bytes) (a : Int) : valDigits (xs ++ ys) a = valDigits ys (valDigits xs a) := by
  induction xs generalizing a with
  | nil => rfl
  | cons x xs ih => simp [valDigits, ih]

theorem digits_spec (n : Nat) : (digits n ≠ []) ∧ (∀ d ∈ digits n, isDigit d = true) ∧ valDigits (digits n) 0 = n := by
  induction n using Nat.strongRecOn with
  | _ n ih =>
    by_cases h : n < 10
    · rw [digits_small n h]
      refine ⟨by simp, ?_, ?_⟩
      · intro d hd; simp at hd; subst hd; exact isDigit_digitByte n
      · simp [valDigits, digitByte_toNat]; omega
    · have hb : 10 ≤ n := by omega
      rw [digits_big n hb]
      obtain ⟨_, h2, h3⟩ := ih (n / 10) (by omega)
      refine ⟨by simp, ?_, ?_⟩
      · intro d hd
        rcases List.mem_append.mp hd with hd | hd
        · exact h2 d hd
        · simp at hd; subst hd; exact isDigit_digitByte n
      · rw [valDigits_append, h3]
        simp [valDigits, digitByte_toNat]
        omega


/-! reader -/

theorem wrap64_congr (y y' : Int) (d : Int) (h : wrap64 y = wrap64 y') :
    wrap64 (y * 10 + d) = wrap64 (y' * 10 + d) := by
  unfold wrap64 two63 two64 at *
  omega

theorem wrap64_idem (x : Int) : wrap64 (wrap64 x) = wrap64 x := by
  unfold wrap64
  have h0 : 0 ≤ (x + two63) % two64 := Int.emod_nonneg _ (by decide)
  have h1 : (x + two63) % two64 < two64 := Int.emod_lt_of_pos _ (by decide)
  have : (x + two63) % two64 - two63 + two63 = (x + two63) % two64 := by omega
  rw [this, Int.emod_eq_of_lt h0 h1]

theorem inInt64_iff (x : Int) :
    inInt64 x = true ↔ (-9223372036854775808 ≤ x ∧ x ≤ 9223372036854775807) := by
  simp only [inInt64, minInt, maxInt, Bool.and_eq_true]
  constructor
  · intro h; exact ⟨of_decide_eq_true h.1, of_decide_eq_true h.2⟩
  · intro h; exact ⟨decide_eq_true h.1, decide_eq_true h.2⟩

theorem wrap64_of_range (x : Int) (h : inInt64 x = true) : wrap64 x = x := by
  have := (inInt64_iff x).mp h
  unfold wrap64 two63 two64
  omega

theorem valDigits_congr (ds : Bytes) : ∀ (y y' : Int), wrap64 y = wrap64 y' →
    wrap64 (valDigits ds y) = wrap64 (valDigits ds y') := by
  induction ds with
  | nil => intro y y' h; exact h
  | cons d ds ih => intro y y' h; exact ih _ _ (wrap64_congr y y' _ h)

/-- the digit loop of `readInt` over digits `b :: ds` followed by a non-digit `c` -/
theorem readIntLoop_spec (ds : Bytes) : ∀ (a : Int) (b c : UInt8) (rest : Bytes),
    (∀ d ∈ ds, isDigit d = true) → isDigit c = false →
    readIntLoop (ds ++ c :: rest) a b = (wrap64 (valDigits (b :: ds) a), c, rest) := by
  induction ds with
  | nil =>
    intro a b c rest _ hc
    simp [readIntLoop, hc, valDigits]
  | cons d ds ih =>
    intro a b c rest hds hc
    have hd : isDigit d = true := hds d (by simp)
    simp only [List.cons_append, readIntLoop, hd, ↓reduceIte]
    rw [ih _ d c rest (fun x hx => hds x (by simp [hx])) hc]
    have : wrap64 (valDigits (d :: ds) (wrap64 (a * 10 + ((b.toNat - 48 : Nat) : Int)))) =
        wrap64 (valDigits (d :: ds) (a * 10 + ((b.toNat - 48 : Nat) : Int))) :=
      valDigits_congr _ _ _ (wrap64_idem _)
    rw [this]
    rfl

theorem fmtInt_nonneg (i : Int) (h : 0 ≤ i) : fmtInt i = digits i.toNat := by
  simp [fmtInt, Int.not_lt.mpr h]

theorem fmtInt_neg (i : Int) (h : i < 0) : fmtInt i = 45 :: digits (-i).toNat := by
  simp [fmtInt, h]

theorem not_digit_45 : isDigit 45 = false := by decide

theorem isDigit_ne_45 {d : UInt8} (h : isDigit d = true) : d ≠ 45 := by
  intro e; subst e; simp [not_digit_45] at h

/-- **Integers round-trip.** `readInt` reads `strconv.FormatInt(i, 10)` back as `i`, for every int64
`i`, when a non-digit `c` follows; it consumes `c` and hands it to the caller. -/
theorem readInt_fmtInt (i : Int) (hi : inInt64 i = true) (c : UInt8) (rest : Bytes) (hc : isDigit c = false) :
    ∃ d ds, fmtInt i = d :: ds ∧ (d = 45 ∨ isDigit d = true) ∧ readInt d (ds ++ c :: rest) = some (i, c, rest) := by
  by_cases hneg : i < 0
  · obtain ⟨hne, hall, hval⟩ := digits_spec (-i).toNat
    cases hds : digits (-i).toNat with
    | nil => exact absurd hds hne
    | cons d ds =>
      rw [hds] at hall hval
      have hd : isDigit d = true := hall d (by simp)
      refine ⟨45, d :: ds, by rw [fmtInt_neg i hneg, hds], Or.inl rfl, ?_⟩
      have hloop := readIntLoop_spec ds 0 d c rest (fun x hx => hall x (by simp [hx])) hc
      have hne2 : ds ++ c :: rest ≠ [] := by simp
      simp only [readInt, ↓reduceIte, List.cons_append, hd]
      cases hr : ds ++ c :: rest with
      | nil => exact absurd hr hne2
      | cons x y =>
        rw [← hr, hloop, hval]
        have hi' := (inInt64_iff i).mp hi
        have : wrap64 (-(wrap64 (((-i).toNat : Nat) : Int))) = i := by
          have e : (((-i).toNat : Nat) : Int) = -i := by omega
          rw [e]
          unfold wrap64 two63 two64
          omega
        rw [this]
  · have hnn : 0 ≤ i := by omega
    obtain ⟨hne, hall, hval⟩ := digits_spec i.toNat
    cases hds : digits i.toNat with
    | nil => exact absurd hds hne
    | cons d ds =>
      rw [hds] at hall hval
      have hd : isDigit d = true := hall d (by simp)
      refine ⟨d, ds, by rw [fmtInt_nonneg i hnn, hds], Or.inr hd, ?_⟩
      have hloop := readIntLoop_spec ds 0 d c rest (fun x hx => hall x (by simp [hx])) hc
      have hne2 : ds ++ c :: rest ≠ [] := by simp
      simp only [readInt, isDigit_ne_45 hd, ↓reduceIte, hd]
      cases hr : ds ++ c :: rest with
      | nil => exact absurd hr hne2
      | cons x y =>
        rw [← hr, hloop, hval]
        have e : ((i.toNat : Nat) : Int) = i := by omega
        rw [e, wrap64_of_range i hi]
end OjgVerif.JPText
