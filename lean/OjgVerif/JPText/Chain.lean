import OjgVerif.JPText.Spec
import OjgVerif.JPText.LemmasPath
/-! # C14: the shape of what the equation reader builds, and of what the printers mean

`readEq` (jp/parse.go) reads `a0 o1 a1 o2 a2 …` into the RIGHT-nested chain
`o1(a0, o2(a1, o3(a2, …)))` whatever the operators are, where every `ai` is an *atom* (a constant, a
path, `!atom`, a parenthesised equation — a `group` node —, a call `name(x, y)`), and leaves the
grouping by precedence to `precedentCorrect`. `chainify` is that flattening as a function on trees;
`Eqn.pd` ("properly parenthesised, deeply") says that a tree is the one the precedences and the
left-to-right rule give to its own in-order text: every infix node binds at least as loosely as its
left operand and strictly more loosely than its right operand, parentheses being `group` nodes.
`Eqn.text` is the text of a tree whose parentheses are exactly its `group` nodes; `Eqn.paren` puts the
`group` nodes where `Equation.Append` writes parentheses. -/
namespace OjgVerif.JPText
open OjgVerif

/-- written between its operands: precedence number at least 1 and not a call -/
def Op.isInfix (o : Op) : Bool := decide (1 ≤ o.prec) && !isCall o

/-- precedence number of the top operator; 0 for a constant -/
def topPrec (t : Eqn) : Nat :=
  match t.op? with
  | none => 0
  | some o => o.prec

/-- properly parenthesised, at every depth -/
def Eqn.pd : Eqn → Bool
  | .val _ => true
  | .un o l => o.prec == 0 && l.pd
  | .bin o l r =>
    if isCall o then o.prec == 0 && (l.pd && r.pd)
    else decide (1 ≤ o.prec) && (decide (topPrec l ≤ o.prec) && (decide (topPrec r < o.prec) && (l.pd && r.pd)))

/-- `c o d` where `c` is a right-nested chain: `o d` goes to the end of the chain -/
def appendChain : Eqn → Op → Eqn → Eqn
  | .bin co cl cr, o, d => if co.isInfix then .bin co cl (appendChain cr o d) else .bin o (.bin co cl cr) d
  | c, o, d => .bin o c d

/-- what `readEq` builds for the text of a tree: infix operators in one right-nested chain, at every
depth -/
def chainify : Eqn → Eqn
  | .val v => .val v
  | .un o l => .un o (chainify l)
  | .bin o l r =>
    if o.isInfix then appendChain (chainify l) o (chainify r) else .bin o (chainify l) (chainify r)

/-! ## text of a tree with explicit `group` nodes -/

/-- the text of an equation tree whose parentheses are its `group` nodes (`Equation.Append` and
`Script.Append` write exactly this for `paren e`, see `LemmasEqn`): `!x`, `(x)`, `l op r`,
`name(l, r)`; `none` for node kinds that are not written this way -/
def Eqn.text : Eqn → Bytes
  | .val v => v.print
  | .un o l =>
    if isCode o Gen.JpOps.op_group then 40 :: (l.text ++ [41])
    else if isCode o Gen.JpOps.op_length || isCode o Gen.JpOps.op_count then o.name ++ 40 :: (l.text ++ [41])
    else o.name ++ l.text
  | .bin o l r =>
    if isCall o then o.name ++ 40 :: (l.text ++ 44 :: 32 :: (r.text ++ [41]))
    else l.text ++ 32 :: (o.name ++ 32 :: r.text)

/-- a `group` node around `t` if `p` -/
def grp (p : Bool) (t : Eqn) : Eqn := if p then .un Gen.JpOps.op_group t else t

/-! ## the trees the general reader lemma (`LemmasReadEq`) covers -/

/-- a fragment the parser builds as it is written: `Wildcard('*')` read from `.*`, a slice of two or three
numbers -/
def Frag.selfImg : Frag → Bool
  | .wild h => !h
  | .slice ns => ns.length == 2 || ns.length == 3
  | _ => true

/-- a path operand as the parser builds it: Root or At, then clean fragments (no filter), each in the form
the parser gives it (`imgL false x = x`) -/
def pathLeaf (x : List Frag) : Bool := cleanPath x && x.all Frag.selfImg

/-- a float constant in the text form the reader keeps: the `FormatFloat` grammar, finite, with a `.` or
an exponent (what `appendFloat` writes) -/
def floatLeaf (t : Bytes) : Bool := floatTextOk t && (!floatNoForm t && floatPrint t == t)

/-- constants of a list constant that the reader lemma covers -/
def Val.scalar : Val → Bool
  | .int i => inInt64 i
  | .bool _ => true
  | .null => true
  | .nothing => true
  | .str _ => true
  | .flt t => floatLeaf t
  | _ => false

/-- constants whose text the reader lemma covers, in the form the reader builds them: int64, booleans, null,
Nothing, strings (any bytes), finite floats, regexes whose source `AppendString` leaves alone, flat lists of
scalars, filter-free paths -/
def Val.simple : Val → Bool
  | .list vs => vs.all Val.scalar
  | .expr x => pathLeaf x
  | .regex s => !regexDev s
  | v => v.scalar

/-- read by `readEqValue` as ONE operand: anything but an infix node -/
def Eqn.isAtom : Eqn → Bool
  | .bin o _ _ => !o.isInfix
  | _ => true

/-- the operand of `length(…)`/`count(…)`: a path -/
def Eqn.isPathVal : Eqn → Bool
  | .val (.expr x) => pathLeaf x
  | _ => false

/-- a tree as `readEq` builds it (before `precedentCorrect`) for a text made of simple constants, `!`,
parentheses, the 19 binary operators, `match`/`search` calls and `length`/`count` of a path: the left operand of every infix node
is an atom (the chain is right-nested), the operand of `!` is an atom -/
def Eqn.raw : Eqn → Bool
  | .val v => v.simple
  | .un o l => (o == Gen.JpOps.op_not && (l.isAtom && l.raw)) || (o == Gen.JpOps.op_group && l.raw) ||
      ((o == Gen.JpOps.op_length || o == Gen.JpOps.op_count) && l.isPathVal)
  | .bin o l r =>
    if o.isInfix then binOps.contains o && (l.isAtom && (l.raw && r.raw))
    else (o == Gen.JpOps.op_match || o == Gen.JpOps.op_search) && (l.raw && r.raw)

/-- what may follow the text of an equation: nothing, or (after spaces) `,` `)` `]` -/
def eqFollow (rest : Bytes) : Bool :=
  peek (dropSpaces rest) == 44 || peek (dropSpaces rest) == 41 || peek (dropSpaces rest) == 93 ||
    (dropSpaces rest).isEmpty

end OjgVerif.JPText
