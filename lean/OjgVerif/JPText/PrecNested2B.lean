import OjgVerif.JPText.PrecNested2
/-! C14: second part of the two-level nested filter box: the remaining outer operators, and `!` around the inner
and/or outer equation for one operator per precedence level. -/
namespace OjgVerif.JPText
open OjgVerif

def nested2B : List Expr :=
  ((binOps.drop 10).flatMap fun o1 => binOps.map fun o2 => nested2 false false o1 o2) ++
  ([(true, false), (false, true), (true, true)].flatMap fun n =>
    levelOps.flatMap fun o1 => levelOps.map fun o2 => nested2 n.1 n.2 o1 o2)

set_option maxRecDepth 100000 in
theorem nested2B_all :
    (nested2B.all fun x => roundTripsExpr false x && roundTripsExpr true x &&
      (devsExpr false x).isEmpty && (devsExpr true x).isEmpty) = true := by
  decide +kernel

end OjgVerif.JPText
