import OjgVerif.Common.Driver
import OjgVerif.JPText.Spec
import OjgVerif.JPText.Bracket
/-! Driver ops of the JSONPath text family.

Objects travel as space-separated prefix tokens:

    expr  ::= X <n> frag*n
    frag  ::= R | A | C <hex> | N <int> | W | H | D | U <n> mem*n | S <n> <int>*n | F eqn
    mem   ::= K <hex> | I <int>
    eqn   ::= V val | U1 <op> eqn | B2 <op> eqn eqn          (<op> is the Go variable name: eq, neq, …)
    val   ::= n | 0 | t | f | i <int> | d <hex> | s <hex> | l <n> val*n | x expr | r <hex>

An API-built expression with `Bracket` flag fragments (ops `bxprint`, `bxjudge` only):

    bexpr ::= X <n> (frag | P)*n                              (P: the flag, top level only)

Text produced from a PARSED object has every float constant wrapped in two `01 7f 02` markers (the model
keeps the literal as written; the harness puts it through `strconv.ParseFloat`/`FormatFloat`).
-/
namespace OjgVerif.JPText
open OjgVerif

def opByName (n : String) : Option Op :=
  match Gen.JpOps.all.find? (fun p => p.1 == n) with
  | some p => some p.2
  | none => none

mutual
  partial def decExpr : List String → Option (Expr × List String)
    | "X" :: n :: r =>
      match n.toNat? with
      | some k => decFrags k r
      | none => none
    | _ => none
  partial def decFrags : Nat → List String → Option (List Frag × List String)
    | 0, r => some ([], r)
    | k+1, r =>
      match decFrag r with
      | some (f, r2) =>
        match decFrags k r2 with
        | some (fs, r3) => some (f :: fs, r3)
        | none => none
      | none => none
  partial def decFrag : List String → Option (Frag × List String)
    | "R" :: r => some (.root, r)
    | "A" :: r => some (.at, r)
    | "W" :: r => some (.wild false, r)
    | "H" :: r => some (.wild true, r)
    | "D" :: r => some (.descent, r)
    | "C" :: h :: r => (ofHex h).map fun k => (.child k, r)
    | "N" :: i :: r => i.toInt?.map fun n => (.nth n, r)
    | "U" :: n :: r =>
      match n.toNat? with
      | some k => (decMems k r).map fun p => (.union p.1, p.2)
      | none => none
    | "S" :: n :: r =>
      match n.toNat? with
      | some k => (decInts k r).map fun p => (.slice p.1, p.2)
      | none => none
    | "F" :: r => (decEqn r).map fun p => (p.1.filter, p.2)
    | _ => none
  partial def decMems : Nat → List String → Option (List UMem × List String)
    | 0, r => some ([], r)
    | k+1, "K" :: h :: r =>
      match ofHex h, decMems k r with
      | some s, some (ms, r2) => some (.key s :: ms, r2)
      | _, _ => none
    | k+1, "I" :: i :: r =>
      match i.toInt?, decMems k r with
      | some n, some (ms, r2) => some (.idx n :: ms, r2)
      | _, _ => none
    | _, _ => none
  partial def decInts : Nat → List String → Option (List Int × List String)
    | 0, r => some ([], r)
    | k+1, i :: r =>
      match i.toInt?, decInts k r with
      | some n, some (ns, r2) => some (n :: ns, r2)
      | _, _ => none
    | _, _ => none
  partial def decEqn : List String → Option (Eqn × List String)
    | "V" :: r => (decVal r).map fun p => (.val p.1, p.2)
    | "U1" :: o :: r =>
      match opByName o, decEqn r with
      | some op, some (l, r2) => some (.un op l, r2)
      | _, _ => none
    | "B2" :: o :: r =>
      match opByName o, decEqn r with
      | some op, some (l, r2) =>
        match decEqn r2 with
        | some (rt, r3) => some (.bin op l rt, r3)
        | none => none
      | _, _ => none
    | _ => none
  partial def decVal : List String → Option (Val × List String)
    | "n" :: r => some (.null, r)
    | "0" :: r => some (.nothing, r)
    | "t" :: r => some (.bool true, r)
    | "f" :: r => some (.bool false, r)
    | "i" :: i :: r => i.toInt?.map fun n => (.int n, r)
    | "d" :: h :: r => (ofHex h).map fun t => (.flt t, r)
    | "s" :: h :: r => (ofHex h).map fun t => (.str t, r)
    | "r" :: h :: r => (ofHex h).map fun t => (.regex t, r)
    | "x" :: r => (decExpr r).map fun p => (.expr p.1, p.2)
    | "l" :: n :: r =>
      match n.toNat? with
      | some k => (decVals k r).map fun p => (.list p.1, p.2)
      | none => none
    | _ => none
  partial def decVals : Nat → List String → Option (List Val × List String)
    | 0, r => some ([], r)
    | k+1, r =>
      match decVal r with
      | some (v, r2) =>
        match decVals k r2 with
        | some (vs, r3) => some (v :: vs, r3)
        | none => none
      | none => none
end

def toks (s : String) : List String := (s.splitOn " ").filter fun t => t ≠ ""

def decodeExpr (s : String) : Option Expr :=
  match decExpr (toks s) with
  | some (x, []) => some x
  | _ => none

def decodeEqn (s : String) : Option Eqn :=
  match decEqn (toks s) with
  | some (e, []) => some e
  | _ => none

/-- an expression with `Bracket` flags (token `P`) at the top level -/
partial def decBFrags : Nat → List String → Option (BExpr × List String)
  | 0, r => some ([], r)
  | k+1, "P" :: r =>
    match decBFrags k r with
    | some (fs, r2) => some (none :: fs, r2)
    | none => none
  | k+1, r =>
    match decFrag r with
    | some (f, r2) =>
      match decBFrags k r2 with
      | some (fs, r3) => some (some f :: fs, r3)
      | none => none
    | none => none

def decodeBExpr (s : String) : Option BExpr :=
  match toks s with
  | "X" :: n :: r =>
    match n.toNat? with
    | some k =>
      match decBFrags k r with
      | some (x, []) => some x
      | _ => none
    | none => none
  | _ => none

/-! float tagging of parsed objects -/
mutual
  def Frag.tag : Frag → Frag
    | .filter t => .filter (Item.tagL t)
    | f => f
  def Frag.tagL : List Frag → List Frag
    | [] => []
    | f :: r => f.tag :: Frag.tagL r
  def Item.tagL : List Item → List Item
    | [] => []
    | .op o :: r => .op o :: Item.tagL r
    | .val v :: r => .val v.tag :: Item.tagL r
  def Val.tag : Val → Val
    | .flt t => .flt (1 :: 127 :: 2 :: (t ++ [1, 127, 2]))
    | .list vs => .list (Val.tagL vs)
    | .expr x => .expr (Frag.tagL x)
    | v => v
  def Val.tagL : List Val → List Val
    | [] => []
    | v :: r => v.tag :: Val.tagL r
end

def Eqn.tag : Eqn → Eqn
  | .val v => .val v.tag
  | .un o l => .un o l.tag
  | .bin o l r => .bin o l.tag r.tag

def optHex : Option Bytes → String
  | some b => toHexF b
  | none => "panic"

def b01 (b : Bool) : String := if b then "1" else "0"

def devList (ds : List Dev) : String :=
  if ds.isEmpty then "-" else String.intercalate "," (ds.eraseDups.map Dev.name)

def parseBr (s : String) : Option Bool :=
  if s = "0" then some false else if s = "1" then some true else none

def handle : List String → String
  | ["xprint", br, ast] =>
    match parseBr br, decodeExpr ast with
    | some b, some x => toHexF (exprPrint b x)
    | _, _ => "bad-op"
  | ["xparse", hx] =>
    match ofHex hx with
    | none => "bad-op"
    | some bs =>
      match parseExpr bs with
      | none => "err"
      | some x => "ok " ++ toHexF (exprPrint false (Frag.tagL x)) ++ " " ++ toHexF (exprPrint true (Frag.tagL x))
  | ["xjudge", br, ast] =>
    match parseBr br, decodeExpr ast with
    | some b, some x => b01 (roundTripsExpr b x) ++ " " ++ b01 (Frag.okL x) ++ " " ++ devList (devsExpr b x)
    | _, _ => "bad-op"
  | ["bxprint", br, ast] =>
    match parseBr br, decodeBExpr ast with
    | some b, some x => toHexF (bexprPrint b x)
    | _, _ => "bad-op"
  | ["bxjudge", br, ast] =>
    -- round trip with flags, constructible, deviations of the flag-free expression, the two flag deviations
    match parseBr br, decodeBExpr ast with
    | some b, some x =>
      b01 (roundTripsBExpr b x) ++ " " ++ b01 (Frag.okL (stripB x)) ++ " " ++ devList (devsExpr b (stripB x)) ++ " " ++
        b01 (bracketReprint b x) ++ " " ++ b01 (bracketLast x)
    | _, _ => "bad-op"
  | ["eprint", ast] =>
    match decodeEqn ast with
    | some e => optHex (eqnString e) ++ " " ++ toHexF (scriptPrint e.script) ++ " " ++ toHexF (filterPrint e.build)
    | none => "bad-op"
  | ["eparse", hx] =>
    match ofHex hx with
    | none => "bad-op"
    | some bs =>
      match parseEquation bs with
      | none => "err"
      | some e =>
        "ok " ++ optHex (eqnString e.tag) ++ " " ++ toHexF (scriptPrint e.tag.script) ++ " " ++
          toHexF (filterPrint e.tag.build)
  | ["fparse", hx] =>
    match ofHex hx with
    | none => "bad-op"
    | some bs =>
      match parseFilter bs with
      | none => "err"
      | some t => "ok " ++ toHexF (filterPrint (Item.tagL t))
  | ["ejudge", ast] =>
    match decodeEqn ast with
    | some e =>
      b01 (roundTripsEqn e) ++ b01 (roundTripsScript e) ++ b01 (roundTripsFilter e) ++ " " ++ b01 e.ok ++ " " ++
        devList (devsEqn e) ++ " " ++ devList (devsScript e) ++ " " ++ devList (devsFilter e)
    | none => "bad-op"
  | ["fltok", hx] =>
    match ofHex hx with
    | some t => b01 (floatTextOk t)
    | none => "bad-op"
  | _ => "bad-op"

end OjgVerif.JPText
