import OjgVerif.JPText.Expr
/-! # JSONPath text family (C14): the parser of jp/parse.go

Total functions over the remaining input (`p.buf[p.pos:]`); a `raise`, a run-time panic (index out of
range, nil dereference — `Parse`, `NewScript`, `NewFilter` recover them) and a `regexp.Compile`
error are all the result `none`. Error positions and messages are not modelled (C14 is about the
round trip). Recursion between `readEq` and `readExpr` is by an explicit parameter (the equation
parser of the next lower fuel), loops have their own fuel; fuel never runs out when it is at least
the length of the input (+1), which is how the entry points at the end call them.

Deviation carried here (marked `DEVIATION (C14-…)`): Root/At after the first position are swallowed
(no-text-form). Repaired in /repo and followed here: `!` takes ONE operand (9a26786), `precedentCorrect`
leaves the second argument of a function call in place (cd355fe), `readEqList` reads `[]` (32b7b46).

Not modelled: `regexp.Compile` (every regex source is taken to compile), `[(…)]` procedures
(`jp.CompileScript` is nil, `MustNewProc` panics).
-/
namespace OjgVerif.JPText
open OjgVerif

abbrev P (α : Type) := Bytes → Option (α × Bytes)

def isDigit (b : UInt8) : Bool := decide (48 ≤ b) && decide (b ≤ 57)

def consFst {α β : Type} (a : α) : Option (List α × β) → Option (List α × β)
  | none => none
  | some p => some (a :: p.1, p.2)

def appFst {α β : Type} (a : List α) : Option (List α × β) → Option (List α × β)
  | none => none
  | some p => some (a ++ p.1, p.2)

/-! ## spaces -/

def skipSpaceAux (last : UInt8) : Bytes → UInt8 × Bytes
  | [] => (last, [])
  | b :: r => if b = 32 then skipSpaceAux 32 r else (b, r)

/-- `p.skipSpace()`: the first byte that is not a space, consumed; at the end of the input the last
byte read (a space) or 0 -/
def skipSpace (bs : Bytes) : UInt8 × Bytes := skipSpaceAux 0 bs

/-- `p.nextNonSpace()` moves over spaces; the byte it returns is `peek` of the result -/
def dropSpaces : Bytes → Bytes
  | [] => []
  | b :: r => if b = 32 then dropSpaces r else b :: r

def peek : Bytes → UInt8
  | [] => 0
  | b :: _ => b

/-! ## integers (`readInt`) -/

/-- the digit loop of `readInt`; `b` is a digit already consumed. Result: value, the last byte read
(consumed), rest. -/
def readIntLoop : Bytes → Int → UInt8 → Int × UInt8 × Bytes
  | [], i, b => (wrap64 (i * 10 + (b.toNat - 48 : Nat)), b, [])
  | c :: r, i, b =>
    if isDigit c then readIntLoop r (wrap64 (i * 10 + (b.toNat - 48 : Nat))) c
    else (wrap64 (i * 10 + (b.toNat - 48 : Nat)), c, r)

/-- `p.readInt(b)`; `b` has been consumed -/
def readInt (b : UInt8) (rest : Bytes) : Option (Int × UInt8 × Bytes) :=
  if b = 45 then
    match rest with
    | [] => none
    | c :: r =>
      if isDigit c then
        match r with
        | [] => none                       -- `p.pos == start`
        | _ => some (wrap64 (-(readIntLoop r 0 c).1), (readIntLoop r 0 c).2.1, (readIntLoop r 0 c).2.2)
      else none
  else if isDigit b then
    match rest with
    | [] => none
    | _ => some (readIntLoop rest 0 b)
  else none

/-! ## strings (`readStr`, `readEscStr`, `readHex`) -/

def hexVal (b : UInt8) : Option UInt8 :=
  if decide (48 ≤ b) && decide (b ≤ 57) then some (b - 48)
  else if decide (97 ≤ b) && decide (b ≤ 102) then some (b - 97 + 10)
  else if decide (65 ≤ b) && decide (b ≤ 70) then some (b - 65 + 10)
  else none

/-- value of the letter after a backslash, for the one-letter escapes -/
def unescLetter (e : UInt8) : Option UInt8 :=
  if e = 98 then some 8 else if e = 116 then some 9 else if e = 110 then some 10
  else if e = 102 then some 12 else if e = 114 then some 13 else if e = 34 then some 34
  else if e = 39 then some 39 else if e = 92 then some 92 else none

/-- the loop of `readEscStr`, from the first backslash on -/
def readEsc (term : UInt8) : Nat → Bytes → Option (Bytes × Bytes)
  | 0, _ => none
  | _, [] => some ([], [])                 -- not terminated: what was read is the string
  | f+1, b :: r =>
    if b = 92 then
      match r with
      | [] => none
      | e :: r2 =>
        match unescLetter e with
        | some v => consFst v (readEsc term f r2)
        | none =>
          if e = 120 then
            match r2 with
            | h1 :: h2 :: r3 =>
              match hexVal h1, hexVal h2 with
              | some a, some c => consFst (a <<< 4 ||| c) (readEsc term f r3)
              | _, _ => none
            | _ => none
          else if e = 117 || e = 85 then
            match r2 with
            | h1 :: h2 :: h3 :: h4 :: r3 =>
              match hexVal h1, hexVal h2, hexVal h3, hexVal h4 with
              | some a, some c, some d, some g =>
                appFst (encodeRune (a.toNat * 4096 + c.toNat * 256 + d.toNat * 16 + g.toNat)) (readEsc term f r3)
              | _, _, _, _ => none
            | _ => none
          else none
    else if b = term then some ([], r)
    else consFst b (readEsc term f r)

/-- `p.readStr(term)`; the opening quote has been consumed. A string that is not terminated and has
no escape loses its last byte (`p.buf[start : p.pos-1]`). -/
def readStr (term : UInt8) : Bytes → Option (Bytes × Bytes)
  | [] => none
  | b :: r =>
    if b = term then some ([], r)
    else if b = 92 then readEsc term (r.length + 2) (b :: r)
    else
      match r with
      | [] => some ([], [])
      | _ => consFst b (readStr term r)

/-! ## slices and unions -/

/-- third part of `readSlice`: after the second `:` -/
def readSliceStep (pre : List Int) (bs : Bytes) : Option (Frag × Bytes) :=
  match bs with
  | [] => none
  | b :: r =>
    if b = 93 then some (.slice pre, r)
    else
      match readInt b r with
      | none => none
      | some (i, c, r2) => if c = 93 then some (.slice (pre ++ [i]), r2) else none

/-- `p.readSlice(i)` -/
def readSlice (i : Int) (bs : Bytes) : Option (Frag × Bytes) :=
  match bs with
  | [] => none
  | b :: r =>
    if b = 93 then some (.slice [i, maxEnd], r)
    else if (skipSpace bs).1 = 58 then readSliceStep [i, maxEnd] (skipSpace bs).2
    else
      match readInt (skipSpace bs).1 (skipSpace bs).2 with
      | none => none
      | some (e, c, r2) =>
        if c = 58 then readSliceStep [i, e] r2
        else if c = 93 then some (.slice [i, e], r2)
        else none

/-- the loop of `readUnion` after the first member; `b` is the byte read last -/
def readUnionRest : Nat → UInt8 → Bytes → Option (List UMem × Bytes)
  | 0, _, _ => none
  | f+1, b, bs =>
    if b = 93 then some ([], bs)
    else if b = 44 then
      if (skipSpace bs).1 = 39 || (skipSpace bs).1 = 34 then
        match readStr (skipSpace bs).1 (skipSpace bs).2 with
        | none => none
        | some (s, r2) => consFst (.key s) (readUnionRest f (skipSpace r2).1 (skipSpace r2).2)
      else if (skipSpace bs).1 = 45 || isDigit (skipSpace bs).1 then
        match readInt (skipSpace bs).1 (skipSpace bs).2 with
        | none => none
        | some (i, c, r2) =>
          if c = 32 then consFst (.idx i) (readUnionRest f (skipSpace r2).1 (skipSpace r2).2)
          else consFst (.idx i) (readUnionRest f c r2)
      else none
    else none

/-- `p.readUnion(v, b)` with `b = ','` -/
def readUnion (m : UMem) (bs : Bytes) : Option (Frag × Bytes) :=
  match bs with
  | [] => none
  | _ =>
    match readUnionRest (bs.length + 2) 44 bs with
    | none => none
    | some (ms, r) => some (.union (m :: ms), r)

/-! ## fragments -/

/-- bytes up to the first one with `tokenMap[b] == '.'` -/
def takeTok : Bytes → Bytes × Bytes
  | [] => ([], [])
  | b :: r => if tokCls b = 46 then ([], b :: r) else (b :: (takeTok r).1, (takeTok r).2)

/-- `p.afterDot()` -/
def afterDot (bs : Bytes) : Option (Frag × Bytes) :=
  match bs with
  | [] => none
  | b :: r =>
    if b = 42 then some (.wild false, r)
    else if b = 46 then some (.descent, r)
    else if tokCls b = 46 then none
    else some (.child (b :: (takeTok r).1), (takeTok r).2)

/-- `p.afterDotDot()`; the first byte is taken whatever it is -/
def afterDotDot (bs : Bytes) : Option (Frag × Bytes) :=
  match bs with
  | [] => none
  | b :: r => some (.child (b :: (takeTok r).1), (takeTok r).2)

def afterIntB (i : Int) (c : UInt8) (r : Bytes) : Option (Frag × Bytes) :=
  if c = 93 then some (.nth i, r)
  else if c = 44 then readUnion (.idx i) r
  else if c = 58 then readSlice i r
  else none

def afterInt (i : Int) (c : UInt8) (r : Bytes) : Option (Frag × Bytes) :=
  if c = 32 then
    if (skipSpace r).1 = 32 then none else afterIntB i (skipSpace r).1 (skipSpace r).2
  else afterIntB i c r

/-- `p.afterBracket()`; `pf` reads a filter after `[?` -/
def afterBracket (pf : P (List Item)) (bs : Bytes) : Option (Frag × Bytes) :=
  match bs with
  | [] => none
  | _ =>
    if (skipSpace bs).1 = 42 then
      if (skipSpace (skipSpace bs).2).1 = 93 then some (.wild true, (skipSpace (skipSpace bs).2).2) else none
    else if (skipSpace bs).1 = 39 || (skipSpace bs).1 = 34 then
      match readStr (skipSpace bs).1 (skipSpace bs).2 with
      | none => none
      | some (s, r2) =>
        if (skipSpace r2).1 = 93 then some (.child s, (skipSpace r2).2)
        else if (skipSpace r2).1 = 44 then readUnion (.key s) (skipSpace r2).2
        else none
    else if (skipSpace bs).1 = 46 then                       -- `[..]` (since bc70af1)
      match (skipSpace bs).2 with
      | a :: b :: r => if a = 46 && b = 93 then some (.descent, r) else none
      | _ => none
    else if (skipSpace bs).1 = 58 then readSlice 0 (skipSpace bs).2
    else if (skipSpace bs).1 = 63 then
      match pf (skipSpace bs).2 with
      | none => none
      | some (t, r) => some (.filter t, r)
    else if (skipSpace bs).1 = 40 then none
    else if (skipSpace bs).1 = 45 || isDigit (skipSpace bs).1 then
      match readInt (skipSpace bs).1 (skipSpace bs).2 with
      | none => none
      | some (i, c, r2) => afterInt i c r2
    else none

/-- `p.nextFrag(first, lastDescent)`: `some (none, rest)` is "no fragment here" -/
def nextFrag (pf : P (List Item)) (first lastDescent : Bool) (bs : Bytes) : Option (Option Frag × Bytes) :=
  match bs with
  | [] => some (none, [])
  | b :: r =>
    -- DEVIATION (C14-no-text-form): a `$`/`@` that is not first is consumed and ends the expression
    if b = 36 then (if first then some (some .root, r) else some (none, r))
    else if b = 64 then (if first then some (some .at, r) else some (none, r))
    else if b = 46 then (afterDot r).map fun p => (some p.1, p.2)
    else if b = 42 then some (some (.wild false), r)
    else if b = 91 then (afterBracket pf r).map fun p => (some p.1, p.2)
    else if b = 93 then some (none, b :: r)
    else if tokCls b = 111 then
      if first then (afterDot (b :: r)).map fun p => (some p.1, p.2)
      else if lastDescent then (afterDotDot (b :: r)).map fun p => (some p.1, p.2)
      else some (none, b :: r)
    else some (none, b :: r)

/-- the loop of `p.readExpr()` -/
def readExprLoop (pf : P (List Item)) : Nat → Bool → Bool → Bytes → Option (Expr × Bytes)
  | 0, _, _, _ => none
  | n+1, first, lastD, bs =>
    match nextFrag pf first lastD bs with
    | none => none
    | some (none, rest) => some ([], rest)
    | some (some f, rest) => consFst f (readExprLoop pf n false f.isDescent rest)

/-- `p.readExpr()` -/
def readExpr (pf : P (List Item)) (bs : Bytes) : Option (Expr × Bytes) :=
  readExprLoop pf (bs.length + 1) true false bs

/-! ## equations -/

def eqnSize : Eqn → Nat
  | .val _ => 1
  | .un _ l => 1 + eqnSize l
  | .bin _ l r => 1 + eqnSize l + eqnSize r

/-- the call syntax `name(a, b)`: `match`, `search`, user functions (since cd355fe their second argument is
corrected in place, not rotated) -/
def isCall (o : Op) : Bool :=
  isCode o Gen.JpOps.op_match || isCode o Gen.JpOps.op_search || o.code == Gen.Jp.userOpCode

/-- `precedentCorrect` -/
def precCorrect : Nat → Eqn → Option Eqn
  | 0, _ => none
  | _+1, .val v => some (.val v)
  | f+1, .un o l =>
    match precCorrect f l with
    | none => none
    | some l' => some (.un o l')
  | f+1, .bin o l r =>
    match precCorrect f l with
    | none => none
    | some l' =>
      match r with
      | .val _ => some (.bin o l' r)
      | .un ro rl =>
        if isCall o then
          match precCorrect f r with
          | none => none
          | some r' => some (.bin o l' r')
        else if o.prec ≤ ro.prec then precCorrect f (.un ro (.bin o l' rl))
        else
          match precCorrect f r with
          | none => none
          | some r' =>
            match r'.op? with
            | none => some (.bin o l' r')
            | some ro2 => if o.prec ≤ ro2.prec then precCorrect f (.bin o l' r') else some (.bin o l' r')
      | .bin ro rl rr =>
        if isCall o then
          match precCorrect f r with
          | none => none
          | some r' => some (.bin o l' r')
        else if o.prec ≤ ro.prec then precCorrect f (.bin ro (.bin o l' rl) rr)
        else
          match precCorrect f r with
          | none => none
          | some r' =>
            match r'.op? with
            | none => some (.bin o l' r')
            | some ro2 => if o.prec ≤ ro2.prec then precCorrect f (.bin o l' r') else some (.bin o l' r')

def precFuel (e : Eqn) : Nat := eqnSize e * eqnSize e + 16

/-- the condition under which `reduceGroups` drops a group node -/
def dropGroup (o : Op) (l : Eqn) (po : Option Op) : Bool :=
  isCode o Gen.JpOps.op_group &&
    (match po with
     | none => true
     | some p =>
       match l.op? with
       | none => false
       | some lo => decide (lo.prec < p.prec))

/-- `reduceGroups` -/
def reduceGroups : Eqn → Option Op → Eqn
  | .val v, _ => .val v
  | .un o l, po =>
    if dropGroup o l po then reduceGroups l po else .un o (reduceGroups l (some o))
  | .bin o l r, po =>
    if dropGroup o l po then reduceGroups l po
    else .bin o (reduceGroups l (some o)) (reduceGroups r (some o))

def isLower (b : UInt8) : Bool := decide (97 ≤ b) && decide (b ≤ 122)

/-- `p.readToken()`: lower-case letters -/
def takeLower : Bytes → Bytes × Bytes
  | [] => ([], [])
  | b :: r => if isLower b then (b :: (takeLower r).1, (takeLower r).2) else ([], b :: r)

def takeDigits : Bytes → Bytes × Bytes
  | [] => ([], [])
  | b :: r => if isDigit b then (b :: (takeDigits r).1, (takeDigits r).2) else ([], b :: r)

def natOfDigits : Bytes → Nat → Nat
  | [], acc => acc
  | b :: r, acc => natOfDigits r (acc * 10 + (b.toNat - 48))

/-- `strconv.ParseInt(num, 10, 64)` on a sign-or-digit followed by digits -/
def parseInt64 (b : UInt8) (ds : Bytes) : Option Int :=
  if b = 45 then
    if ds.isEmpty then none
    else if natOfDigits ds 0 ≤ 9223372036854775808 then some (-(natOfDigits ds 0 : Int)) else none
  else if natOfDigits (b :: ds) 0 ≤ 9223372036854775807 then some (natOfDigits (b :: ds) 0 : Int) else none

/-- the exponent part of `readNum`: `num` so far ends with `e`/`E`, `bs` is not empty -/
def readNumExp (num : Bytes) (bs : Bytes) : Option (Val × Bytes) :=
  match bs with
  | [] => none
  | b :: r =>
    if b = 43 || b = 45 then
      match r with
      | [] => none
      | _ => some (.flt (num ++ b :: (takeDigits r).1), (takeDigits r).2)
    else some (.flt (num ++ (takeDigits bs).1), (takeDigits bs).2)

/-- `p.readNum(b)`; `b` (a digit or `-`) has been consumed -/
def readNum (b : UInt8) (bs : Bytes) : Option (Val × Bytes) :=
  match (takeDigits bs).2 with
  | [] => (parseInt64 b (takeDigits bs).1).map fun i => (.int i, [])
  | c :: r =>
    if c = 46 then
      match (takeDigits r).2 with
      | [] => some (.flt (b :: ((takeDigits bs).1 ++ 46 :: (takeDigits r).1)), [])
      | e :: r2 =>
        if e = 101 || e = 69 then
          readNumExp (b :: ((takeDigits bs).1 ++ 46 :: ((takeDigits r).1 ++ [e]))) r2
        else some (.flt (b :: ((takeDigits bs).1 ++ 46 :: (takeDigits r).1)), e :: r2)
    else if c = 101 || c = 69 then
      readNumExp (b :: ((takeDigits bs).1 ++ [c])) r
    else (parseInt64 b (takeDigits bs).1).map fun i => (.int i, c :: r)

/-- `p.readRegex()`; the opening `/` has been consumed. `none` also where `regexp.Compile` is sure to
fail (source ending in a lone backslash). -/
def readRegex : Nat → Bytes → Option (Bytes × Bytes)
  | 0, _ => none
  | _, [] => none
  | f+1, b :: r =>
    if b = 47 then some ([], r)
    else if b = 92 then
      match r with
      | [] => none
      | c :: r2 =>
        match r2 with
        | [] => none
        | _ => consFst 92 (consFst c (readRegex f r2))
    else
      match r with
      | [] => some ([], [])              -- not terminated: the last byte is dropped
      | _ => consFst b (readRegex f r)

/-- `partialOp(token, b)`: some key of `opMap` continues `token` with `b` -/
def partialOp (tok : Bytes) (b : UInt8) : Bool :=
  Gen.JpOps.opMap.any fun kv => (tok ++ [b]).isPrefixOf kv.1

def lookupOp (tok : Bytes) : Option Op :=
  match Gen.JpOps.opMap.find? (fun kv => kv.1 == tok) with
  | none => none
  | some kv => some kv.2

/-- the loop of `p.readEqOp()`; `bs` starts at the byte `b` being looked at -/
def readEqOpLoop : Nat → Bytes → Bytes → Option (Bytes × Bytes)
  | 0, _, _ => none
  | _, _, [] => none
  | f+1, tok, b :: r =>
    if eqCls b ≠ 111 && (tok.isEmpty || !partialOp tok b) then some (tok, b :: r)
    else if b = 45 && !tok.isEmpty then none
    else
      match r with
      | [] => none
      | _ => readEqOpLoop f (tok ++ [b]) r

/-- `p.readEqOp()` -/
def readEqOp (bs : Bytes) : Option (Op × Bytes) :=
  match readEqOpLoop ((dropSpaces bs).length + 1) [] (dropSpaces bs) with
  | none => none
  | some (tok, r) =>
    match lookupOp tok with
    | none => none
    | some o => some (o, r)

def matchPrefix : Bytes → Bytes → Option Bytes
  | [], bs => some bs
  | _ :: _, [] => none
  | t :: ts, b :: r => if b = t then matchPrefix ts r else none

/-- `p.readEqList()`'s loop; `rec` reads one equation -/
def readListLoop (rec : P Eqn) : Nat → Bytes → Option (List Val × Bytes)
  | 0, _ => none
  | _, [] => some ([], [])
  | f+1, b :: r =>
    match rec (b :: r) with
    | none => none
    | some (e, r2) =>
      if (skipSpace r2).1 = 44 then consFst e.resultOf (readListLoop rec f (skipSpace r2).2)
      else if (skipSpace r2).1 = 93 then some ([e.resultOf], (skipSpace r2).2)
      else none

/-- `p.readOpArgs(o)` -/
def readOpArgs (rec : P Eqn) (o : Op) (bs : Bytes) : Option (Eqn × Bytes) :=
  match bs with
  | [] => none
  | b :: r =>
    if b ≠ 40 then none
    else
      match rec r with
      | none => none
      | some (l, r2) =>
        if peek (dropSpaces r2) = 44 then
          match rec ((dropSpaces r2).drop 1) with
          | none => none
          | some (rt, r3) =>
            if peek (dropSpaces r3) = 41 then some (.bin o l rt, (dropSpaces r3).drop 1) else none
        else if peek (dropSpaces r2) = 41 then some (.un o l, (dropSpaces r2).drop 1)
        else none

/-- `p.readFilter()` after `[?` -/
def readFilter (rec : P Eqn) (bs : Bytes) : Option (List Item × Bytes) :=
  match bs with
  | [] => none
  | _ =>
    match rec bs with
    | none => none
    | some (e, r) =>
      match precCorrect (precFuel e) e with
      | none => none
      | some e1 =>
        match dropSpaces r with
        | [] => none
        | b :: r2 => if b = 93 then some ((reduceGroups e1 none).build, r2) else none

def bTrueTok : Bytes := [116, 114, 117, 101]
def bFalseTok : Bytes := [102, 97, 108, 115, 101]
def bNullTok : Bytes := [110, 117, 108, 108]
def bNothingTok : Bytes := [78, 111, 116, 104, 105, 110, 103]

/-- `p.readEqValue()`: one operand; `rec` reads a nested equation. The fuel counts the `!` in front. -/
def readEqValue (rec : P Eqn) : Nat → Bytes → Option (Eqn × Bytes)
  | 0, _ => none
  | f+1, bs0 =>
  match dropSpaces bs0 with
  | [] => none                                -- b = 0: `''` is not a value or function
  | b :: r =>
    if b = 33 then
      -- one operand (since 9a26786), not the rest of the equation
      match readEqValue rec f r with
      | none => none
      | some (e, r2) => some (.un Gen.JpOps.op_not e, r2)
    else if b = 45 || isDigit b then
      match readNum b r with
      | none => none
      | some (v, r2) => some (.val v, r2)
    else if b = 39 || b = 34 then
      match readStr b r with
      | none => none
      | some (s, r2) => some (.val (.str s), r2)
    else if b = 64 || b = 36 then
      match readExpr (readFilter rec) (b :: r) with
      | none => none
      | some (x, r2) => some (.val (.expr x), r2)
    else if b = 40 then
      match rec r with
      | none => none
      | some (e, r2) =>
        if peek (dropSpaces r2) = 41 then some (.un Gen.JpOps.op_group e, (dropSpaces r2).drop 1) else none
    else if b = 91 then
      if peek (dropSpaces r) = 93 then some (.val (.list []), (dropSpaces r).drop 1)   -- `[]` (since 32b7b46)
      else
        match readListLoop rec ((dropSpaces r).length + 1) (dropSpaces r) with
        | none => none
        | some (vs, r2) => some (.val (.list vs), r2)
    else if b = 47 then
      match readRegex (r.length + 1) r with
      | none => none
      | some (src, r2) => some (.val (.regex src), r2)
    else if b = 78 then
      match matchPrefix bNothingTok (b :: r) with
      | none => none
      | some r2 => some (.val .nothing, r2)
    else
      if (takeLower (b :: r)).1 = bTrueTok then some (.val (.bool true), (takeLower (b :: r)).2)
      else if (takeLower (b :: r)).1 = bFalseTok then some (.val (.bool false), (takeLower (b :: r)).2)
      else if (takeLower (b :: r)).1 = bNullTok then some (.val .null, (takeLower (b :: r)).2)
      else
        match lookupOp (takeLower (b :: r)).1 with
        | none => none
        | some o => readOpArgs rec o (takeLower (b :: r)).2

/-- the operator loop at the end of `p.readEq()` -/
def readEqLoop (rec : P Eqn) : Nat → Eqn → Bytes → Option (Eqn × Bytes)
  | 0, _, _ => none
  | _, e, [] => some (e, [])
  | f+1, e, b :: r =>
    if peek (dropSpaces (b :: r)) = 44 || peek (dropSpaces (b :: r)) = 41 || peek (dropSpaces (b :: r)) = 93
        || peek (dropSpaces (b :: r)) = 0 then some (e, dropSpaces (b :: r))
    else
      match readEqOp (b :: r) with
      | none => none
      | some (o, r2) =>
        match rec r2 with
        | none => none
        | some (rt, r3) => readEqLoop rec f (.bin o e rt) r3

/-- `p.readEq()` with the given parser for the nested equations -/
def readEqBody (rec : P Eqn) (bs : Bytes) : Option (Eqn × Bytes) :=
  match readEqValue rec (bs.length + 1) bs with
  | none => none
  | some (e, r) => readEqLoop rec (r.length + 1) e r

/-- `p.readEq()`; nesting deeper than the fuel is an error (it cannot be deeper than the input is long) -/
def readEq : Nat → P Eqn
  | 0 => fun _ => none
  | f+1 => readEqBody (readEq f)

/-! ## entry points -/

/-- `jp.MustParse` / `jp.ParseString` -/
def parseExpr (bs : Bytes) : Option Expr :=
  match readExpr (readFilter (readEq (bs.length + 1))) bs with
  | some (x, []) => some x
  | _ => none

/-- `jp.MustParseEquation` (what follows the equation is ignored, as in the Go code) -/
def parseEquation (bs : Bytes) : Option Eqn :=
  match readEq (bs.length + 1) bs with
  | none => none
  | some (e, _) =>
    match precCorrect (precFuel e) e with
    | none => none
    | some e1 => some (reduceGroups e1 none)

/-- `jp.MustNewScript` -/
def parseScript (bs : Bytes) : Option (List Item) := (parseEquation bs).map Eqn.script

/-- `jp.MustNewFilter` -/
def parseFilter (bs : Bytes) : Option (List Item) :=
  if bs.length ≤ 3 then none
  else
    match bs with
    | a :: b :: r =>
      if a = 91 && b = 63 && r.getLast? = some 93 then (parseEquation r.dropLast).map Eqn.build else none
    | _ => none

end OjgVerif.JPText
