import OjgVerif.JPText.LemmasExpr
/-! # C14 lemmas: a filter-free path as an OPERAND of an equation

`readExprLoop_clean` (LemmasExpr) reads the text of an expression to the end of the input. As an operand of
an equation the path is followed by more text: a space (before an operator), `)`, `,`, `]`. `readExpr_tail`:
the fragment loop stops exactly there. -/
namespace OjgVerif.JPText
open OjgVerif

/-- what follows a path operand: nothing, a space, `)`, `,`, `]` -/
def pathEnd : Bytes → Bool
  | [] => true
  | b :: _ => b == 32 || b == 41 || b == 44 || b == 93

theorem followerOK_of_pathEnd {t : Bytes} (h : pathEnd t = true) : followerOK t = true := by
  cases t with
  | nil => rfl
  | cons b r =>
    simp only [pathEnd, Bool.or_eq_true, beq_iff_eq] at h
    simp only [followerOK, Bool.or_eq_true, beq_iff_eq]
    rcases h with ((h | h) | h) | h <;> simp [h]

theorem followerOK_append {a t : Bytes} (ha : followerOK a = true) (ht : followerOK t = true) : followerOK (a ++ t) = true := by
  cases a with
  | nil => exact ht
  | cons b r => exact ha

theorem nextFrag_pathEnd (pf : P (List Item)) (fl lastD : Bool) (t : Bytes) (h : pathEnd t = true) :
    nextFrag pf fl lastD t = some (none, t) := by
  cases t with
  | nil => rfl
  | cons b r =>
    simp only [pathEnd, Bool.or_eq_true, beq_iff_eq] at h
    have facts : tokCls 32 = 46 ∧ tokCls 41 = 46 ∧ tokCls 44 = 46 := by decide +kernel
    rcases h with ((h | h) | h) | h <;> subst h <;> simp [nextFrag, facts]

/-- the fragment loop of `readExpr` over the text of clean fragments followed by `tail` -/
theorem readExprLoop_tail (pf : P (List Item)) (br : Bool) (tail : Bytes) (ht : pathEnd tail = true) :
    ∀ (x : List Frag) (fl lastD : Bool) (n : Nat),
    cleanTail x = true → (restText br fl lastD x).length < n →
    readExprLoop pf n fl lastD (restText br fl lastD x ++ tail) = some (imgL br x, tail) := by
  intro x
  induction x with
  | nil =>
    intro fl lastD n _ hn
    cases n with
    | zero => simp at hn
    | succ n => simp [restText, readExprLoop, nextFrag_pathEnd pf fl lastD tail ht, imgL]
  | cons f r ih =>
    intro fl lastD n hcl hn
    simp only [cleanTail, Bool.and_eq_true] at hcl
    cases n with
    | zero => simp at hn
    | succ n =>
    by_cases hd : f.isDescent = true
    · cases f <;> simp [Frag.isDescent] at hd
      cases br with
      | false =>
        have e : restText false fl lastD (.descent :: r) = 46 :: 46 :: restText false false true r := by
          simp [restText, Frag.print, Frag.isDescent, printL_afterDot]
        rw [e] at hn ⊢
        have h1 : nextFrag pf fl lastD (46 :: 46 :: restText false false true r ++ tail) =
            some (some .descent, restText false false true r ++ tail) := by
          simp [nextFrag, afterDot]
        rw [readExprLoop_step pf n fl lastD _ _ _ h1]
        have h3 := ih false true n hcl.2 (by simp only [List.length_cons] at hn; omega)
        simp only [Frag.isDescent]
        rw [h3]; rfl
      | true =>
        have e : restText true fl lastD (.descent :: r) = 91 :: (46 :: 46 :: 93 :: restText true false true r) := by
          rw [restText_br false true r, ← printL_noDescent]
          rfl
        rw [e] at hn ⊢
        have h1 := nextFrag_bracket pf fl lastD _ _ _ (afterBracket_descent pf (restText true false true r ++ tail))
        simp only [List.cons_append] at h1 ⊢
        rw [readExprLoop_step pf n fl lastD _ _ _ h1]
        have h3 := ih false true n hcl.2 (by simp only [List.length_cons] at hn; omega)
        simp only [Frag.isDescent]
        rw [h3]; rfl
    · have hd' : f.isDescent = false := by simpa using hd
      have hT := followerOK_append (follower_restText br r hcl.2) (followerOK_of_pathEnd ht)
      have e : restText br fl lastD (f :: r) = f.print br (fl || (lastD && !br)) ++ restText br false false r := by
        simp [restText, hd', printL_noDescent]
      rw [e] at hn ⊢
      have h1 := nextFrag_clean pf br fl lastD f _ hcl.1 hd' hT
      have hl := Frag.print_ne_nil br (fl || (lastD && !br)) f hcl.1
      rw [List.append_assoc, readExprLoop_step pf n fl lastD _ _ _ h1, img_isDescent_eq, hd']
      have h3 := ih false false n hcl.2 (by simp only [List.length_append] at hn; omega)
      rw [h3]; rfl

/-- a path operand: Root or At, then clean fragments -/
def cleanPath : List Frag → Bool
  | [] => false
  | f :: r => f.isRootAt && cleanTail r

/-- **a filter-free path operand is read back, whatever follows it in the equation** (`pf`: any filter
reader — there is no filter to read) -/
theorem readExpr_path (pf : P (List Item)) (x : List Frag) (h : cleanPath x = true) (tail : Bytes)
    (ht : pathEnd tail = true) :
    readExpr pf (Frag.printL false true false x ++ tail) = some (imgL false x, tail) ∧
    ∃ b t, Frag.printL false true false x = b :: t ∧ (b = 36 ∨ b = 64) := by
  cases x with
  | nil => simp [cleanPath] at h
  | cons f r =>
    simp only [cleanPath, Bool.and_eq_true] at h
    obtain ⟨hra, hcl⟩ := h
    have hd : f.isDescent = false := by cases f <;> simp [Frag.isRootAt] at hra <;> rfl
    have e : Frag.printL false true false (f :: r) = f.print false true ++ restText false false false r := by
      simp [Frag.printL, hd, printL_noDescent]
    rw [e]
    refine ⟨?_, by cases f <;> simp [Frag.isRootAt] at hra <;> simp [Frag.print]⟩
    unfold readExpr
    have h3 := readExprLoop_tail pf false tail ht r false false ((restText false false false r ++ tail).length + 1) hcl
      (by simp only [List.length_append]; omega)
    have hn : nextFrag pf true false ((f.print false true ++ restText false false false r) ++ tail) =
        some (some (f.img false), restText false false false r ++ tail) := by
      cases f <;> simp [Frag.isRootAt] at hra <;> simp [Frag.print, nextFrag, Frag.img]
    have hl : ((f.print false true ++ restText false false false r) ++ tail).length + 1 =
        ((restText false false false r ++ tail).length + 1) + 1 := by
      cases f <;> simp [Frag.isRootAt] at hra <;> simp [Frag.print]
    rw [hl, readExprLoop_step pf _ true false _ _ _ hn, img_isDescent_eq, hd, h3]
    rfl

end OjgVerif.JPText
