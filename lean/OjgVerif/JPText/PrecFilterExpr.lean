import OjgVerif.JPText.Trees
/-! C14: kernel evaluation of the model round trip of EXPRESSIONS that carry a filter, over every
equation tree with one or two operator nodes whose leaves alternate between a path (`@.a`, `@.c`, …) and
an integer constant: `$.list[?(…)].x` in both text forms. -/
namespace OjgVerif.JPText
open OjgVerif

/-- leaves alternate between `Get(@.<letter>)` and an integer constant -/
def Shape.instP : Shape → Nat → Eqn × Nat
  | .leaf, n =>
    (if n % 2 = 0 then .un Gen.JpOps.op_get (.val (.expr [.at, .child [UInt8.ofNat (97 + n)]]))
     else .val (.int (n + 1)), n + 1)
  | .un o s, n => (.un o (s.instP n).1, (s.instP n).2)
  | .bin o l r, n => (.bin o (l.instP n).1 (r.instP (l.instP n).2).1, (r.instP (l.instP n).2).2)

/-- `R().Child("list").Filter(e).Child("x")` -/
def Shape.filterExpr (s : Shape) : Expr :=
  [.root, .child [108, 105, 115, 116], (s.instP 0).1.filter, .child [120]]

/-- both text forms of the expression round-trip (in the model) exactly when Spec.lean names no
deviation for that form -/
def devsExactExpr (x : Expr) : Bool :=
  (devsExpr false x).isEmpty == roundTripsExpr false x && (devsExpr true x).isEmpty == roundTripsExpr true x

def filterExprTrees : List Shape := sh1 unOps binOps ++ sh2 unOps binOps

set_option maxRecDepth 100000 in
theorem filterExpr_exact : (filterExprTrees.all fun s => devsExactExpr s.filterExpr) = true := by decide +kernel

set_option maxRecDepth 100000 in
theorem filterExpr_all :
    (filterExprTrees.all fun s => roundTripsExpr false s.filterExpr && roundTripsExpr true s.filterExpr) = true := by
  decide +kernel

end OjgVerif.JPText
