import OjgVerif.JPText.Trees
/-! C14: kernel evaluation of the model round trip over one part of the small-tree space. -/
namespace OjgVerif.JPText
open OjgVerif

def triplesBTrees : List Shape := (Shape.bins levelOps sh0 (sh2 unOps levelOps))

set_option maxRecDepth 100000 in
theorem triplesB_exact : (triplesBTrees.all fun s => devsExact s.eqn) = true := by decide +kernel

end OjgVerif.JPText
