import OjgVerif.Common.Bytes
import OjgVerif.Gen.Jp
import OjgVerif.Gen.JpOps
/-! # JSONPath text family (C14): abstract syntax

The objects `jp.Expr`, `jp.Equation`, `jp.Script`/`jp.Filter` as the public constructors of
`jp/build.go` and `jp/equation.go` can build them, and as `jp/parse.go` builds them.

* `Frag` — one fragment. `Proc` (needs a compiled procedure) is left out: *formalisation choice*, the
  property lists root, current, child, index, wildcard, descent, union, slice and filter. `Bracket` (a
  display flag, not a selector, never built by the parser) is not a constructor here; expressions with
  flags are modelled in `Bracket.lean` as `Option Frag` lists.
* `Item`/template — a `Script` is its `template []any`: the equation in prefix form.
* `Val` — a constant of an equation. A `float64` is carried as the decimal TEXT
  `strconv.FormatFloat(f,'g',-1,64)` gives for it / the text the parser hands to `strconv.ParseFloat`
  (Lean never computes with floats); a `*regexp.Regexp` as its source text.
* `Eqn` — `*jp.Equation`: `val` is `o == nil`, `un` is `right == nil`, `bin` has both operands
  (`left == nil` is not constructible without passing nil to a constructor and the parser never builds it).
* `Op` — the generated record of one `&op{…}` (`Gen.JpOps`); the printers and the parser dispatch on
  `code`, compare `prec`, write `name`, exactly as the Go code does.
-/
namespace OjgVerif.JPText
open OjgVerif

abbrev Op := Gen.JpOps.Op

/-- member of a `jp.Union`: `string` or `int64` -/
inductive UMem where
  | key (s : Bytes)
  | idx (i : Int)
deriving DecidableEq, Repr, Inhabited

mutual
  inductive Frag where
    | root
    | at
    | child (k : Bytes)
    | nth (i : Int)
    | wild (hash : Bool)      -- `Wildcard('*')` = false, `Wildcard('#')` (parsed from `[*]`) = true
    | descent
    | union (ms : List UMem)
    | slice (ns : List Int)
    | filter (t : List Item)   -- `*Filter`: the script template
  inductive Item where
    | op (o : Op)
    | val (v : Val)
  inductive Val where
    | null
    | nothing
    | bool (b : Bool)
    | int (i : Int)
    | flt (t : Bytes)
    | str (s : Bytes)
    | list (vs : List Val)
    | expr (x : List Frag)
    | regex (src : Bytes)
end

instance : Inhabited Frag := ⟨.root⟩
instance : Inhabited Val := ⟨.null⟩
instance : Inhabited Item := ⟨.val .null⟩

abbrev Expr := List Frag

inductive Eqn where
  | val (v : Val)
  | un (o : Op) (l : Eqn)
  | bin (o : Op) (l r : Eqn)

instance : Inhabited Eqn := ⟨.val .null⟩

def Eqn.op? : Eqn → Option Op
  | .val _ => none
  | .un o _ => some o
  | .bin o _ _ => some o

def Frag.isDescent : Frag → Bool
  | .descent => true
  | _ => false

def lastIsDescent : List Frag → Bool
  | [] => false
  | [f] => f.isDescent
  | _ :: r => lastIsDescent r

/-! ## Go integers -/

def two63 : Int := 9223372036854775808
def two64 : Int := 18446744073709551616
def minInt : Int := -9223372036854775808
def maxInt : Int := 9223372036854775807

/-- the value a Go `int`/`int64` expression has after wrap-around -/
def wrap64 (x : Int) : Int := (x + two63) % two64 - two63

def inInt64 (x : Int) : Bool := decide (minInt ≤ x) && decide (x ≤ maxInt)

/-- decimal digits, most significant first -/
def digitsAux : Nat → Nat → Bytes → Bytes
  | 0, _, acc => acc
  | f+1, n, acc =>
    if n / 10 = 0 then UInt8.ofNat (48 + n % 10) :: acc
    else digitsAux f (n / 10) (UInt8.ofNat (48 + n % 10) :: acc)

def digits (n : Nat) : Bytes := digitsAux (n + 1) n []

/-- `strconv.FormatInt(i, 10)` -/
def fmtInt (i : Int) : Bytes :=
  if i < 0 then 45 :: digits (-i).toNat else digits i.toNat

/-! ## UTF-8 (`unicode/utf8`, modelled) -/

def isCont (b : UInt8) : Bool := decide (0x80 ≤ b) && decide (b ≤ 0xBF)

/-- lowest/highest second byte accepted after a three- or four-byte leader -/
def lo2 (b0 : UInt8) : UInt8 := if b0 = 0xE0 then 0xA0 else if b0 = 0xF0 then 0x90 else 0x80
def hi2 (b0 : UInt8) : UInt8 := if b0 = 0xED then 0x9F else if b0 = 0xF4 then 0x8F else 0xBF

def runeError : Nat := 0xFFFD

/-- `utf8.DecodeRuneInString`: the rune and the number of bytes it takes (RuneError, 1 for an
invalid or short sequence) -/
def decodeRune : Bytes → Nat × Nat
  | [] => (runeError, 0)
  | b0 :: r =>
    if b0 < 0x80 then (b0.toNat, 1)
    else if b0 < 0xC2 then (runeError, 1)
    else if b0 < 0xE0 then
      match r with
      | b1 :: _ =>
        if isCont b1 then ((b0.toNat - 0xC0) * 64 + (b1.toNat - 0x80), 2) else (runeError, 1)
      | [] => (runeError, 1)
    else if b0 < 0xF0 then
      match r with
      | b1 :: b2 :: _ =>
        if decide (lo2 b0 ≤ b1) && decide (b1 ≤ hi2 b0) && isCont b2 then
          ((b0.toNat - 0xE0) * 4096 + (b1.toNat - 0x80) * 64 + (b2.toNat - 0x80), 3)
        else (runeError, 1)
      | _ => (runeError, 1)
    else if b0 < 0xF5 then
      match r with
      | b1 :: b2 :: b3 :: _ =>
        if decide (lo2 b0 ≤ b1) && decide (b1 ≤ hi2 b0) && isCont b2 && isCont b3 then
          ((b0.toNat - 0xF0) * 262144 + (b1.toNat - 0x80) * 4096 + (b2.toNat - 0x80) * 64 + (b3.toNat - 0x80), 4)
        else (runeError, 1)
      | _ => (runeError, 1)
    else (runeError, 1)

/-- `utf8.AppendRune` for a rune below 0x10000 (what four hex digits can give) -/
def encodeRune (r : Nat) : Bytes :=
  if r < 0x80 then [UInt8.ofNat r]
  else if r < 0x800 then [UInt8.ofNat (0xC0 + r / 64), UInt8.ofNat (0x80 + r % 64)]
  else if 0xD800 ≤ r ∧ r < 0xE000 then [0xEF, 0xBF, 0xBD]
  else [UInt8.ofNat (0xE0 + r / 4096), UInt8.ofNat (0x80 + r / 64 % 64), UInt8.ofNat (0x80 + r % 64)]

/-! ## Tables (generated) -/

/-- `tokenMap[b]` of jp/parse.go -/
def tokCls (b : UInt8) : UInt8 := Gen.Jp.tokenMap.toList.getD b.toNat 46
/-- `jMap[b]` of jp/string.go -/
def jCls (b : UInt8) : UInt8 := Gen.Jp.jMap.toList.getD b.toNat 46
/-- `eqMap[b]` of jp/parse.go -/
def eqCls (b : UInt8) : UInt8 := Gen.Jp.eqMap.toList.getD b.toNat 46
/-- `hex[n]` of jp/string.go -/
def hexDigit (n : UInt8) : UInt8 := Gen.Jp.hex.toList.getD n.toNat 48

def maxEnd : Int := Gen.Jp.maxEnd_int

/-- `Child.tokenOk` -/
def tokenOk (k : Bytes) : Bool := k.all (fun b => tokCls b != 46) && !k.isEmpty

/-! ## Equations to script templates (`Equation.buildScript`, `Script`, `Filter`) -/

def isCode (o : Op) (c : Op) : Bool := o.code == c.code

def Eqn.resultOf : Eqn → Val
  | .val v => v
  | _ => .null          -- `e.left.result` of an operator node is nil

def Eqn.build : Eqn → List Item
  | .val v => [.val v]
  | .un o l =>
    if isCode o Gen.JpOps.op_get then [.val l.resultOf]
    else if isCode o Gen.JpOps.op_not || isCode o Gen.JpOps.op_length || isCode o Gen.JpOps.op_count
        || isCode o Gen.JpOps.op_group then .op o :: l.build
    else .op o :: (l.build ++ [.val .null])
  | .bin o l r =>
    if isCode o Gen.JpOps.op_get then [.val l.resultOf]
    else if isCode o Gen.JpOps.op_not || isCode o Gen.JpOps.op_length || isCode o Gen.JpOps.op_count
        || isCode o Gen.JpOps.op_group then .op o :: l.build
    else .op o :: (l.build ++ r.build)

/-- `Equation.Filter` -/
def Eqn.filter (e : Eqn) : Frag := .filter e.build

/-- `Equation.Script`: a bare path — parsed, or built with `Get` (since fe63c88) — becomes
`path exists true` -/
def Eqn.script : Eqn → List Item
  | .val (.expr x) => Eqn.build (.bin Gen.JpOps.op_exists (.val (.expr x)) (.val (.bool true)))
  | .un o (.val (.expr x)) =>
    if isCode o Gen.JpOps.op_get then Eqn.build (.bin Gen.JpOps.op_exists (.val (.expr x)) (.val (.bool true)))
    else Eqn.build (.un o (.val (.expr x)))
  | .bin o (.val (.expr x)) r =>
    if isCode o Gen.JpOps.op_get then Eqn.build (.bin Gen.JpOps.op_exists (.val (.expr x)) (.val (.bool true)))
    else Eqn.build (.bin o (.val (.expr x)) r)
  | e => e.build

end OjgVerif.JPText
