import OjgVerif.JPText.Chain
import OjgVerif.JPText.LemmasStr
import OjgVerif.JPText.LemmasInt
import OjgVerif.JPText.LemmasFrag
/-! # C14 lemmas: the equation reader reads the text of a raw chain back (any tree size)

`readEq_text`: for every tree `c` of the shape `Eqn.raw` (what `readEq` builds: right-nested chains of
the 17 infix operators over atoms; atoms are simple constants, `!atom`, `(equation)`, `match(x, y)`,
`search(x, y)`), every follower `rest` that ends an equation (`eqFollow`) and every fuel of at least
`eqnSize c`, `readEq` applied to `c.text ++ rest` — also after one leading space — returns `c` and
`dropSpaces rest`. By structural induction on `c`; no bound on the size. -/
namespace OjgVerif.JPText
open OjgVerif

/-! ## small facts -/

/-- what may follow an atom inside a printed equation: nothing, a space (before an operator), or a
terminator `,` `)` `]` -/
def atomFollow : Bytes → Bool
  | [] => true
  | b :: _ => b == 32 || b == 44 || b == 41 || b == 93

/-- `readEqBody` with the fuel of `readEqValue` as a parameter -/
def bodyK (rec : P Eqn) (K : Nat) (bs : Bytes) : Option (Eqn × Bytes) :=
  match readEqValue rec K bs with
  | none => none
  | some (e, r) => readEqLoop rec (r.length + 1) e r

theorem readEqBody_eq (rec : P Eqn) (bs : Bytes) : readEqBody rec bs = bodyK rec (bs.length + 1) bs := rfl

theorem dropSpaces_idem : ∀ bs : Bytes, dropSpaces (dropSpaces bs) = dropSpaces bs := by
  intro bs
  induction bs with
  | nil => rfl
  | cons b r ih =>
    by_cases h : b = 32
    · simp [dropSpaces, h, ih]
    · simp [dropSpaces, h]

theorem dropSpaces_cons_ne {b : UInt8} (r : Bytes) (h : b ≠ 32) : dropSpaces (b :: r) = b :: r := by
  simp [dropSpaces, h]

theorem dropSpaces_space (r : Bytes) : dropSpaces (32 :: r) = dropSpaces r := by
  simp [dropSpaces]

theorem readEqValue_space (rec : P Eqn) (K : Nat) (bs : Bytes) :
    readEqValue rec K (32 :: bs) = readEqValue rec K bs := by
  cases K with
  | zero => rfl
  | succ K => simp only [readEqValue, dropSpaces_space]

theorem bodyK_space (rec : P Eqn) (K : Nat) (bs : Bytes) : bodyK rec K (32 :: bs) = bodyK rec K bs := by
  simp only [bodyK, readEqValue_space]

theorem eqFollow_dropSpaces (rest : Bytes) : eqFollow (dropSpaces rest) = eqFollow rest := by
  simp only [eqFollow, dropSpaces_idem]

theorem atomFollow_of_eqFollow {rest : Bytes} (h : eqFollow rest = true) : atomFollow rest = true := by
  cases rest with
  | nil => rfl
  | cons b r =>
    by_cases hb : b = 32
    · simp [atomFollow, hb]
    · simp only [eqFollow, dropSpaces_cons_ne r hb, peek] at h
      simp only [atomFollow]
      simp only [Bool.or_eq_true, beq_iff_eq, List.isEmpty_cons, Bool.false_eq_true, or_false] at h ⊢
      rcases h with (h | h) | h <;> simp [h]

theorem eqnSize_pos (c : Eqn) : 1 ≤ eqnSize c := by
  cases c <;> simp [eqnSize] <;> omega

/-- the operator loop stops at the end of an equation -/
theorem readEqLoop_stop (rec : P Eqn) (K : Nat) (e : Eqn) (r : Bytes) (hK : 1 ≤ K) (h : eqFollow r = true) :
    readEqLoop rec K e r = some (e, dropSpaces r) := by
  obtain ⟨K, rfl⟩ : ∃ k, K = k + 1 := ⟨K - 1, by omega⟩
  cases r with
  | nil => simp [readEqLoop, dropSpaces]
  | cons b r =>
    simp only [readEqLoop]
    have : (peek (dropSpaces (b :: r)) = 44 || peek (dropSpaces (b :: r)) = 41 || peek (dropSpaces (b :: r)) = 93
        || peek (dropSpaces (b :: r)) = 0) = true := by
      simp only [eqFollow, Bool.or_eq_true, beq_iff_eq] at h
      rcases h with ((h | h) | h) | h
      · simp [h]
      · simp [h]
      · simp [h]
      · have : dropSpaces (b :: r) = [] := by simpa using h
        simp [this, peek]
    rw [if_pos this]

/-! ## operators -/

theorem readEqOpLoop_step (f : Nat) (tok : Bytes) (b c : UInt8) (r : Bytes)
    (h : (eqCls b ≠ 111 && (tok.isEmpty || !partialOp tok b)) = false) (h2 : (b = 45 && !tok.isEmpty) = false) :
    readEqOpLoop (f + 1) tok (b :: c :: r) = readEqOpLoop f (tok ++ [b]) (c :: r) := by
  simp only [readEqOpLoop, h, h2, Bool.false_eq_true, ↓reduceIte]

theorem readEqOpLoop_end (f : Nat) (tok : Bytes) (b : UInt8) (r : Bytes)
    (h : (eqCls b ≠ 111 && (tok.isEmpty || !partialOp tok b)) = true) :
    readEqOpLoop (f + 1) tok (b :: r) = some (tok, b :: r) := by
  simp only [readEqOpLoop, h, ↓reduceIte]

/-- every step of `readEqOp`'s loop over the name `nm` (already read: `tok`) followed by a space goes on,
and the space stops it -/
def opStepsOK : Bytes → Bytes → Bool
  | tok, [] => (eqCls 32 ≠ 111 && (tok.isEmpty || !partialOp tok 32))
  | tok, b :: r =>
    !(eqCls b ≠ 111 && (tok.isEmpty || !partialOp tok b)) && (!(b = 45 && !tok.isEmpty) && opStepsOK (tok ++ [b]) r)

theorem readEqOpLoop_ok : ∀ (nm tok : Bytes) (F : Nat) (tail : Bytes), opStepsOK tok nm = true → nm.length < F →
    readEqOpLoop F tok (nm ++ 32 :: tail) = some (tok ++ nm, 32 :: tail) := by
  intro nm
  induction nm with
  | nil =>
    intro tok F tail h hF
    obtain ⟨F, rfl⟩ : ∃ k, F = k + 1 := ⟨F - 1, by simp at hF; omega⟩
    simp only [opStepsOK] at h
    simp only [List.nil_append, List.append_nil]
    exact readEqOpLoop_end F tok 32 tail h
  | cons b nm ih =>
    intro tok F tail h hF
    obtain ⟨F, rfl⟩ : ∃ k, F = k + 1 := ⟨F - 1, by simp at hF; omega⟩
    simp only [opStepsOK, Bool.and_eq_true, Bool.not_eq_true'] at h
    obtain ⟨h1, h2, h3⟩ := h
    have hF' : nm.length < F := by simp at hF; omega
    cases hx : nm ++ 32 :: tail with
    | nil => simp at hx
    | cons x y =>
      rw [List.cons_append, hx, readEqOpLoop_step F tok b x y h1 h2, ← hx, ih (tok ++ [b]) F tail h3 hF']
      simp

/-- what the reader needs from the name of one infix operator -/
def opNameOK (o : Op) : Bool :=
  opStepsOK [] o.name && (lookupOp o.name == some o) &&
    (match o.name with
     | [] => false
     | h :: _ => h != 32 && h != 44 && h != 41 && h != 93 && h != 0) && !isCall o

theorem infix_all : binOps.all (fun o => !o.isInfix || opNameOK o) = true := by decide +kernel

theorem opNameOK_of {o : Op} (ho : binOps.contains o = true) (hi : o.isInfix = true) : opNameOK o = true := by
  have := List.all_eq_true.mp infix_all o (by simpa using ho)
  simpa [hi] using this

theorem readEqOp_name (o : Op) (ho : binOps.contains o = true) (hi : o.isInfix = true) (tail : Bytes) :
    readEqOp (32 :: (o.name ++ 32 :: tail)) = some (o, 32 :: tail) ∧
    ∃ h t, o.name = h :: t ∧ h ≠ 32 ∧ h ≠ 44 ∧ h ≠ 41 ∧ h ≠ 93 ∧ h ≠ 0 := by
  have hk := opNameOK_of ho hi
  simp only [opNameOK, Bool.and_eq_true, beq_iff_eq] at hk
  obtain ⟨⟨⟨h1, h2⟩, h3⟩, _⟩ := hk
  cases hn : o.name with
  | nil => rw [hn] at h3; simp at h3
  | cons h t =>
    rw [hn] at h3
    simp only [Bool.and_eq_true, bne_iff_ne, ne_eq] at h3
    obtain ⟨⟨⟨⟨a1, a2⟩, a3⟩, a4⟩, a5⟩ := h3
    refine ⟨?_, h, t, rfl, a1, a2, a3, a4, a5⟩
    rw [← hn]
    have hd : dropSpaces (32 :: (o.name ++ 32 :: tail)) = o.name ++ 32 :: tail := by
      rw [dropSpaces_space, hn, List.cons_append, dropSpaces_cons_ne _ a1]
    simp only [readEqOp, hd]
    rw [readEqOpLoop_ok o.name [] _ tail h1 (by simp; omega)]
    simp [h2]

/-- one turn of the operator loop: ` op rest-of-the-equation`, then the end -/
theorem readEqLoop_infix (rec : P Eqn) (o : Op) (ho : binOps.contains o = true) (hi : o.isInfix = true)
    (a rr : Eqn) (tail r3 : Bytes) (F : Nat) (hF : 2 ≤ F) (hrec : rec (32 :: tail) = some (rr, r3))
    (hfol : eqFollow r3 = true) :
    readEqLoop rec F a (32 :: (o.name ++ 32 :: tail)) = some (.bin o a rr, dropSpaces r3) := by
  obtain ⟨F, rfl⟩ : ∃ k, F = k + 2 := ⟨F - 2, by omega⟩
  obtain ⟨hop, h, t, hn, a1, a2, a3, a4, a5⟩ := readEqOp_name o ho hi tail
  have hd : dropSpaces (32 :: (o.name ++ 32 :: tail)) = h :: (t ++ 32 :: tail) := by
    rw [dropSpaces_space, hn, List.cons_append, dropSpaces_cons_ne _ a1]
  simp only [readEqLoop, hd, peek, a2, a3, a4, a5, hop, hrec, Bool.or_self, decide_false, Bool.false_eq_true,
    ↓reduceIte]
  exact readEqLoop_stop rec (F + 1) _ r3 (by omega) hfol

/-! ## integers -/

theorem natOfDigits_val (ds : Bytes) : ∀ acc : Nat, ((natOfDigits ds acc : Nat) : Int) = valDigits ds (acc : Int) := by
  induction ds with
  | nil => intro acc; rfl
  | cons d ds ih =>
    intro acc
    simp only [natOfDigits, valDigits]
    rw [ih]
    push_cast
    rfl

theorem natOfDigits_digits (n : Nat) : natOfDigits (digits n) 0 = n := by
  have h := natOfDigits_val (digits n) 0
  rw [show ((0 : Nat) : Int) = 0 from rfl, (digits_spec n).2.2] at h
  exact Int.ofNat.inj h

theorem takeDigits_append (ds rest : Bytes) (hds : ∀ d ∈ ds, isDigit d = true) (hr : takeDigits rest = ([], rest)) :
    takeDigits (ds ++ rest) = (ds, rest) := by
  induction ds with
  | nil => simpa using hr
  | cons d ds ih =>
    have hd : isDigit d = true := hds d (by simp)
    simp only [List.cons_append, takeDigits, hd, ↓reduceIte, ih (fun x hx => hds x (by simp [hx]))]

theorem atomFollow_cases {rest : Bytes} (h : atomFollow rest = true) :
    rest = [] ∨ ∃ c r, rest = c :: r ∧ (c = 32 ∨ c = 44 ∨ c = 41 ∨ c = 93) := by
  cases rest with
  | nil => exact Or.inl rfl
  | cons c r =>
    refine Or.inr ⟨c, r, rfl, ?_⟩
    simp only [atomFollow, Bool.or_eq_true, beq_iff_eq] at h
    rcases h with ((h | h) | h) | h <;> simp [h]

theorem takeDigits_follow {rest : Bytes} (h : atomFollow rest = true) : takeDigits rest = ([], rest) := by
  rcases atomFollow_cases h with rfl | ⟨c, r, rfl, hc⟩
  · rfl
  · have : isDigit c = false := by rcases hc with h | h | h | h <;> (subst h; decide)
    simp [takeDigits, this]

theorem readNum_digits (d : UInt8) (ds rest : Bytes) (hds : ∀ x ∈ ds, isDigit x = true)
    (hr : atomFollow rest = true) :
    readNum d (ds ++ rest) = (parseInt64 d ds).map fun i => (.int i, rest) := by
  simp only [readNum, takeDigits_append ds rest hds (takeDigits_follow hr)]
  rcases atomFollow_cases hr with rfl | ⟨c, r, rfl, hc⟩
  · rfl
  · have h1 : c ≠ 46 := by rcases hc with h | h | h | h <;> (subst h; decide)
    have h2 : c ≠ 101 := by rcases hc with h | h | h | h <;> (subst h; decide)
    have h3 : c ≠ 69 := by rcases hc with h | h | h | h <;> (subst h; decide)
    simp [h1, h2, h3]

/-- `readNum` reads `strconv.FormatInt(i, 10)` back as the int64 constant `i` -/
theorem readNum_fmtInt (i : Int) (hi : inInt64 i = true) (rest : Bytes) (hr : atomFollow rest = true) :
    ∃ d ds, fmtInt i = d :: ds ∧ (d = 45 ∨ isDigit d = true) ∧ readNum d (ds ++ rest) = some (.int i, rest) := by
  have hi' := (inInt64_iff i).mp hi
  by_cases hneg : i < 0
  · obtain ⟨hne, hall, _⟩ := digits_spec (-i).toNat
    have hnat := natOfDigits_digits (-i).toNat
    refine ⟨45, digits (-i).toNat, fmtInt_neg i hneg, Or.inl rfl, ?_⟩
    rw [readNum_digits 45 _ rest hall hr]
    have hemp : (digits (-i).toNat).isEmpty = false := by
      cases h : digits (-i).toNat with
      | nil => exact absurd h hne
      | cons _ _ => rfl
    have hle : (-i).toNat ≤ 9223372036854775808 := by omega
    simp only [parseInt64, ↓reduceIte, hemp, Bool.false_eq_true, hnat, hle, Option.map_some]
    have e : -(((-i).toNat : Nat) : Int) = i := by omega
    rw [e]
  · have hnn : 0 ≤ i := by omega
    obtain ⟨hne, hall, _⟩ := digits_spec i.toNat
    have hnat := natOfDigits_digits i.toNat
    cases hds : digits i.toNat with
    | nil => exact absurd hds hne
    | cons d ds =>
      rw [hds] at hall hnat
      have hd : isDigit d = true := hall d (by simp)
      refine ⟨d, ds, by rw [fmtInt_nonneg i hnn, hds], Or.inr hd, ?_⟩
      rw [readNum_digits d ds rest (fun x hx => hall x (by simp [hx])) hr]
      have hle : i.toNat ≤ 9223372036854775807 := by omega
      simp only [parseInt64, isDigit_ne_45 hd, ↓reduceIte, hnat, hle, Option.map_some]
      have e : ((i.toNat : Nat) : Int) = i := by omega
      rw [e]

/-! ## the branches of `readEqValue` -/

theorem numHead_ne' {d : UInt8} (h : d = 45 ∨ isDigit d = true) : d ≠ 32 ∧ d ≠ 33 := by
  rcases h with h | h
  · subst h; decide
  · have := isDigit_range h
    refine ⟨?_, ?_⟩ <;> (intro e; subst e; simp at this)

theorem readEqValue_num (rec : P Eqn) (K : Nat) (d : UInt8) (r : Bytes) (h : d = 45 ∨ isDigit d = true)
    (v : Val) (r2 : Bytes) (hn : readNum d r = some (v, r2)) :
    readEqValue rec (K + 1) (d :: r) = some (.val v, r2) := by
  obtain ⟨h1, h2⟩ := numHead_ne' h
  simp only [readEqValue, dropSpaces_cons_ne r h1, h2, ↓reduceIte, numHead_cond h, hn]

theorem readEqValue_not (rec : P Eqn) (K : Nat) (r : Bytes) (e : Eqn) (r2 : Bytes)
    (h : readEqValue rec K r = some (e, r2)) :
    readEqValue rec (K + 1) (33 :: r) = some (.un Gen.JpOps.op_not e, r2) := by
  simp [readEqValue, dropSpaces, h]

theorem readEqValue_group (rec : P Eqn) (K : Nat) (r : Bytes) (e : Eqn) (r2 : Bytes)
    (h : rec r = some (e, 41 :: r2)) :
    readEqValue rec (K + 1) (40 :: r) = some (.un Gen.JpOps.op_group e, r2) := by
  simp [readEqValue, dropSpaces, isDigit, h, peek]

theorem readOpArgs_two (rec : P Eqn) (o : Op) (l r : Eqn) (X Y rest : Bytes)
    (h1 : rec X = some (l, 44 :: 32 :: Y)) (h2 : rec (32 :: Y) = some (r, 41 :: rest)) :
    readOpArgs rec o (40 :: X) = some (.bin o l r, rest) := by
  simp [readOpArgs, h1, h2, dropSpaces, peek]

theorem readEqValue_match (rec : P Eqn) (K : Nat) (X : Bytes) :
    readEqValue rec (K + 1) (Gen.JpOps.op_match.name ++ 40 :: X) = readOpArgs rec Gen.JpOps.op_match (40 :: X) := by
  have htl : takeLower ([109, 97, 116, 99, 104] ++ 40 :: X) = ([109, 97, 116, 99, 104], 40 :: X) := by
    simp [takeLower, isLower]
  have hl : lookupOp [109, 97, 116, 99, 104] = some Gen.JpOps.op_match := by decide
  simp only [Gen.JpOps.op_match] at hl ⊢
  simp only [List.cons_append, List.nil_append] at htl ⊢
  simp [readEqValue, dropSpaces, isDigit, htl, hl, bTrueTok, bFalseTok, bNullTok]

theorem readEqValue_search (rec : P Eqn) (K : Nat) (X : Bytes) :
    readEqValue rec (K + 1) (Gen.JpOps.op_search.name ++ 40 :: X) = readOpArgs rec Gen.JpOps.op_search (40 :: X) := by
  have htl : takeLower ([115, 101, 97, 114, 99, 104] ++ 40 :: X) = ([115, 101, 97, 114, 99, 104], 40 :: X) := by
    simp [takeLower, isLower]
  have hl : lookupOp [115, 101, 97, 114, 99, 104] = some Gen.JpOps.op_search := by decide
  simp only [Gen.JpOps.op_search] at hl ⊢
  simp only [List.cons_append, List.nil_append] at htl ⊢
  simp [readEqValue, dropSpaces, isDigit, htl, hl, bTrueTok, bFalseTok, bNullTok]

/-! ## the shape `Eqn.raw` -/

theorem raw_un {o : Op} {l : Eqn} (h : (Eqn.un o l).raw = true) :
    (o = Gen.JpOps.op_not ∧ l.isAtom = true ∧ l.raw = true) ∨ (o = Gen.JpOps.op_group ∧ l.raw = true) := by
  simp only [Eqn.raw, Bool.or_eq_true, Bool.and_eq_true, beq_iff_eq] at h
  exact h

theorem raw_bin {o : Op} {l r : Eqn} (h : (Eqn.bin o l r).raw = true) :
    (o.isInfix = true ∧ binOps.contains o = true ∧ l.isAtom = true ∧ l.raw = true ∧ r.raw = true) ∨
    (o.isInfix = false ∧ (o = Gen.JpOps.op_match ∨ o = Gen.JpOps.op_search) ∧ l.raw = true ∧ r.raw = true) := by
  simp only [Eqn.raw] at h
  by_cases hi : o.isInfix = true
  · rw [if_pos hi] at h
    simp only [Bool.and_eq_true] at h
    exact Or.inl ⟨hi, h.1, h.2.1, h.2.2.1, h.2.2.2⟩
  · rw [if_neg hi] at h
    simp only [Bool.and_eq_true, Bool.or_eq_true, beq_iff_eq] at h
    exact Or.inr ⟨by simpa using hi, h.1, h.2.1, h.2.2⟩

theorem text_val (v : Val) : (Eqn.val v).text = v.print := rfl

theorem text_not (l : Eqn) : (Eqn.un Gen.JpOps.op_not l).text = 33 :: l.text := by
  simp [Eqn.text, isCode, Gen.JpOps.op_not, Gen.JpOps.op_group]

theorem text_group (l : Eqn) : (Eqn.un Gen.JpOps.op_group l).text = 40 :: (l.text ++ [41]) := by
  simp [Eqn.text, isCode]

theorem text_infix (o : Op) (l r : Eqn) (hi : o.isInfix = true) :
    (Eqn.bin o l r).text = l.text ++ 32 :: (o.name ++ 32 :: r.text) := by
  have : isCall o = false := by
    simp only [Op.isInfix, Bool.and_eq_true, Bool.not_eq_true'] at hi
    exact hi.2
  simp [Eqn.text, this]

theorem text_match (l r : Eqn) :
    (Eqn.bin Gen.JpOps.op_match l r).text =
      Gen.JpOps.op_match.name ++ 40 :: (l.text ++ 44 :: 32 :: (r.text ++ [41])) := by
  have : isCall Gen.JpOps.op_match = true := by decide
  simp [Eqn.text, this]

theorem text_search (l r : Eqn) :
    (Eqn.bin Gen.JpOps.op_search l r).text =
      Gen.JpOps.op_search.name ++ 40 :: (l.text ++ 44 :: 32 :: (r.text ++ [41])) := by
  have : isCall Gen.JpOps.op_search = true := by decide
  simp [Eqn.text, this]

/-! ## constants -/

theorem takeLower_follow {rest : Bytes} (h : atomFollow rest = true) : takeLower rest = ([], rest) := by
  rcases atomFollow_cases h with rfl | ⟨c, r, rfl, hc⟩
  · rfl
  · have : isLower c = false := by rcases hc with h | h | h | h <;> (subst h; decide)
    simp [takeLower, this]

theorem print_int (i : Int) : (Val.int i).print = fmtInt i := by simp [Val.print]
theorem print_null : Val.null.print = [110, 117, 108, 108] := by simp [Val.print, bNull]
theorem print_nothing : Val.nothing.print = [78, 111, 116, 104, 105, 110, 103] := by simp [Val.print, bNothing]
theorem print_true : (Val.bool true).print = [116, 114, 117, 101] := by simp [Val.print, bTrue]
theorem print_false : (Val.bool false).print = [102, 97, 108, 115, 101] := by simp [Val.print, bFalse]
theorem print_str (s : Bytes) : (Val.str s).print = appendString s 39 := by simp [Val.print]

/-- a simple constant is read back, whatever the reader of nested equations is -/
theorem readEqValue_val (v : Val) (hs : v.simple = true) (rec : P Eqn) (K : Nat) (rest : Bytes)
    (hr : atomFollow rest = true) :
    readEqValue rec (K + 1) (v.print ++ rest) = some (.val v, rest) := by
  cases v with
  | int i =>
    obtain ⟨d, ds, he, hd, hn⟩ := readNum_fmtInt i hs rest hr
    rw [print_int, he, List.cons_append]
    exact readEqValue_num rec K d _ hd _ _ hn
  | null =>
    have := takeLower_follow hr
    rw [print_null]
    simp [readEqValue, dropSpaces, isDigit, takeLower, isLower, this, bTrueTok, bFalseTok, bNullTok]
  | nothing =>
    rw [print_nothing]
    simp [readEqValue, dropSpaces, isDigit, matchPrefix, bNothingTok]
  | bool b =>
    have := takeLower_follow hr
    cases b
    · rw [print_false]
      simp [readEqValue, dropSpaces, isDigit, takeLower, isLower, this, bTrueTok, bFalseTok]
    · rw [print_true]
      simp [readEqValue, dropSpaces, isDigit, takeLower, isLower, this, bTrueTok]
  | str s =>
    obtain ⟨t, he, hn⟩ := readStr_appendString s rest
    rw [print_str, he]
    simp [readEqValue, dropSpaces, isDigit, hn]
  | flt t => simp [Val.simple] at hs
  | list vs => simp [Val.simple] at hs
  | expr x => simp [Val.simple] at hs
  | regex src => simp [Val.simple] at hs

theorem print_length (v : Val) (hs : v.simple = true) : 1 ≤ v.print.length := by
  cases v with
  | int i =>
    rw [print_int]
    have := fmtInt_ne_nil i
    cases h : fmtInt i with
    | nil => exact absurd h this
    | cons _ _ => simp
  | null => simp [print_null]
  | nothing => simp [print_nothing]
  | bool b => cases b <;> simp [print_true, print_false]
  | str s => simp [print_str, appendString]
  | flt t => simp [Val.simple] at hs
  | list vs => simp [Val.simple] at hs
  | expr x => simp [Val.simple] at hs
  | regex src => simp [Val.simple] at hs

/-- every node of a raw tree contributes at least one byte to its text -/
theorem eqnSize_le_text : ∀ c : Eqn, c.raw = true → eqnSize c ≤ c.text.length := by
  intro c
  induction c with
  | val v =>
    intro h
    simpa [eqnSize, text_val] using print_length v (by simpa [Eqn.raw] using h)
  | un o l ih =>
    intro h
    rcases raw_un h with ⟨rfl, _, hl⟩ | ⟨rfl, hl⟩
    · have := ih hl
      simp [text_not, eqnSize]; omega
    · have := ih hl
      simp [text_group, eqnSize]; omega
  | bin o l r ihl ihr =>
    intro h
    rcases raw_bin h with ⟨hi, _, _, hl, hr⟩ | ⟨_, ho, hl, hr⟩
    · have := ihl hl
      have := ihr hr
      simp [text_infix o l r hi, eqnSize]; omega
    · have := ihl hl
      have := ihr hr
      rcases ho with rfl | rfl
      · simp [text_match, eqnSize]; omega
      · simp [text_search, eqnSize]; omega

/-! ## the reader lemma -/

theorem bodyK_of_atom (rec : P Eqn) (c : Eqn) (bs rest : Bytes) (K : Nat)
    (h : readEqValue rec K bs = some (c, rest)) (hf : eqFollow rest = true) :
    bodyK rec K bs = some (c, dropSpaces rest) := by
  simp only [bodyK, h]
  exact readEqLoop_stop rec _ c rest (by omega) hf

theorem readEq_of_body (l : Eqn) (hlen : eqnSize l ≤ l.text.length)
    (hP : ∀ (f K : Nat) (rest : Bytes), eqnSize l ≤ f + 1 → eqnSize l ≤ K → eqFollow rest = true →
      bodyK (readEq f) K (l.text ++ rest) = some (l, dropSpaces rest))
    (f : Nat) (rest : Bytes) (hf : eqnSize l ≤ f) (hr : eqFollow rest = true) :
    readEq f (l.text ++ rest) = some (l, dropSpaces rest) ∧
    readEq f (32 :: (l.text ++ rest)) = some (l, dropSpaces rest) := by
  have := eqnSize_pos l
  obtain ⟨f, rfl⟩ : ∃ k, f = k + 1 := ⟨f - 1, by omega⟩
  simp only [readEq, readEqBody_eq]
  constructor
  · exact hP f _ rest hf (by simp; omega) hr
  · rw [bodyK_space]
    exact hP f _ rest hf (by simp; omega) hr

/-- the two statements proved together: an atom is read by `readEqValue`, a chain by `readEqBody` -/
theorem readEq_core (c : Eqn) : c.raw = true →
    (c.isAtom = true → ∀ (f K : Nat) (rest : Bytes), eqnSize c ≤ f + 1 → eqnSize c ≤ K → atomFollow rest = true →
      readEqValue (readEq f) K (c.text ++ rest) = some (c, rest)) ∧
    (∀ (f K : Nat) (rest : Bytes), eqnSize c ≤ f + 1 → eqnSize c ≤ K → eqFollow rest = true →
      bodyK (readEq f) K (c.text ++ rest) = some (c, dropSpaces rest)) := by
  induction c with
  | val v =>
    intro hraw
    have hs : v.simple = true := by simpa [Eqn.raw] using hraw
    have hQ : ∀ (f K : Nat) (rest : Bytes), eqnSize (Eqn.val v) ≤ f + 1 → eqnSize (Eqn.val v) ≤ K →
        atomFollow rest = true → readEqValue (readEq f) K ((Eqn.val v).text ++ rest) = some (Eqn.val v, rest) := by
      intro f K rest _ hK hr
      obtain ⟨K, rfl⟩ : ∃ k, K = k + 1 := ⟨K - 1, by simp [eqnSize] at hK; omega⟩
      rw [text_val]
      exact readEqValue_val v hs _ K rest hr
    exact ⟨fun _ => hQ, fun f K rest hf hK hr =>
      bodyK_of_atom _ _ _ rest K (hQ f K rest hf hK (atomFollow_of_eqFollow hr)) hr⟩
  | un o l ih =>
    intro hraw
    have hQ : ∀ (f K : Nat) (rest : Bytes), eqnSize (Eqn.un o l) ≤ f + 1 → eqnSize (Eqn.un o l) ≤ K →
        atomFollow rest = true → readEqValue (readEq f) K ((Eqn.un o l).text ++ rest) = some (Eqn.un o l, rest) := by
      intro f K rest hf hK hr
      obtain ⟨K, rfl⟩ : ∃ k, K = k + 1 := ⟨K - 1, by simp [eqnSize] at hK; omega⟩
      simp only [eqnSize] at hf hK
      rcases raw_un hraw with ⟨rfl, hla, hl⟩ | ⟨rfl, hl⟩
      · rw [text_not, List.cons_append]
        exact readEqValue_not _ K _ l rest ((ih hl).1 hla f K rest (by omega) (by omega) hr)
      · rw [text_group, List.cons_append, List.append_assoc, List.singleton_append]
        have hrd := (readEq_of_body l (eqnSize_le_text l hl) (ih hl).2 f (41 :: rest) (by omega) (by simp [eqFollow, dropSpaces, peek])).1
        rw [dropSpaces_cons_ne rest (by decide)] at hrd
        exact readEqValue_group _ K _ l rest hrd
    exact ⟨fun _ => hQ, fun f K rest hf hK hr =>
      bodyK_of_atom _ _ _ rest K (hQ f K rest hf hK (atomFollow_of_eqFollow hr)) hr⟩
  | bin o l r ihl ihr =>
    intro hraw
    rcases raw_bin hraw with ⟨hi, ho, hla, hl, hr⟩ | ⟨hi, ho, hl, hr⟩
    · -- an infix node: the atom `l`, the operator, the rest of the chain
      refine ⟨fun ha => by simp [Eqn.isAtom, hi] at ha, ?_⟩
      intro f K rest hf hK hfol
      simp only [eqnSize] at hf hK
      have h1 := eqnSize_pos l
      have h2 := eqnSize_pos r
      rw [text_infix o l r hi]
      have e : l.text ++ 32 :: (o.name ++ 32 :: r.text) ++ rest = l.text ++ (32 :: (o.name ++ 32 :: (r.text ++ rest))) := by
        simp [List.append_assoc]
      rw [e]
      have hv := (ihl hl).1 hla f K (32 :: (o.name ++ 32 :: (r.text ++ rest))) (by omega) (by omega) (by simp [atomFollow])
      have hrd := (readEq_of_body r (eqnSize_le_text r hr) (ihr hr).2 f rest (by omega) hfol).2
      simp only [bodyK, hv]
      rw [readEqLoop_infix (readEq f) o ho hi l r (r.text ++ rest) (dropSpaces rest) _ (by simp) hrd
        (by rw [eqFollow_dropSpaces]; exact hfol), dropSpaces_idem]
    · -- a call `match(l, r)` / `search(l, r)`
      have hQ : ∀ (f K : Nat) (rest : Bytes), eqnSize (Eqn.bin o l r) ≤ f + 1 → eqnSize (Eqn.bin o l r) ≤ K →
          atomFollow rest = true → readEqValue (readEq f) K ((Eqn.bin o l r).text ++ rest) = some (Eqn.bin o l r, rest) := by
        intro f K rest hf hK _
        obtain ⟨K, rfl⟩ : ∃ k, K = k + 1 := ⟨K - 1, by simp [eqnSize] at hK; omega⟩
        simp only [eqnSize] at hf hK
        have h1 := eqnSize_pos l
        have h2 := eqnSize_pos r
        have hrl := (readEq_of_body l (eqnSize_le_text l hl) (ihl hl).2 f (44 :: 32 :: (r.text ++ 41 :: rest)) (by omega)
          (by simp [eqFollow, dropSpaces, peek])).1
        rw [dropSpaces_cons_ne _ (by decide)] at hrl
        have hrr := (readEq_of_body r (eqnSize_le_text r hr) (ihr hr).2 f (41 :: rest) (by omega)
          (by simp [eqFollow, dropSpaces, peek])).2
        rw [dropSpaces_cons_ne _ (by decide)] at hrr
        have hargs := fun o' => readOpArgs_two (readEq f) o' l r _ _ rest hrl hrr
        rcases ho with rfl | rfl
        · rw [text_match]
          have e : Gen.JpOps.op_match.name ++ 40 :: (l.text ++ 44 :: 32 :: (r.text ++ [41])) ++ rest =
              Gen.JpOps.op_match.name ++ 40 :: (l.text ++ 44 :: 32 :: (r.text ++ 41 :: rest)) := by
            simp [List.append_assoc]
          rw [e, readEqValue_match, hargs]
        · rw [text_search]
          have e : Gen.JpOps.op_search.name ++ 40 :: (l.text ++ 44 :: 32 :: (r.text ++ [41])) ++ rest =
              Gen.JpOps.op_search.name ++ 40 :: (l.text ++ 44 :: 32 :: (r.text ++ 41 :: rest)) := by
            simp [List.append_assoc]
          rw [e, readEqValue_search, hargs]
      exact ⟨fun _ => hQ, fun f K rest hf hK hr =>
        bodyK_of_atom _ _ _ rest K (hQ f K rest hf hK (atomFollow_of_eqFollow hr)) hr⟩

/-- **The equation reader reads the text of every raw chain back**, whatever its size: with fuel of at
least the number of nodes, `readEq` applied to the text of `c` followed by an equation terminator (also
after one leading space) returns `c` and the terminator with its leading spaces removed. -/
theorem readEq_text : ∀ (c : Eqn), c.raw = true → ∀ (f : Nat) (rest : Bytes), eqnSize c ≤ f → eqFollow rest = true →
    readEq f (c.text ++ rest) = some (c, dropSpaces rest) ∧
    readEq f (32 :: (c.text ++ rest)) = some (c, dropSpaces rest) :=
  fun c hraw f rest hf hr => readEq_of_body c (eqnSize_le_text c hraw) (readEq_core c hraw).2 f rest hf hr

/-- the fuel `parseEquation` and `parseExpr` use (length of the input + 1) is enough -/
theorem readEq_text_len (c : Eqn) (hraw : c.raw = true) (rest : Bytes) (hr : eqFollow rest = true) :
    readEq ((c.text ++ rest).length + 1) (c.text ++ rest) = some (c, dropSpaces rest) :=
  (readEq_text c hraw _ rest (by have := eqnSize_le_text c hraw; simp; omega) hr).1

theorem bodyK_spaces (rec : P Eqn) (K n : Nat) (bs : Bytes) :
    bodyK rec K (List.replicate n 32 ++ bs) = bodyK rec K bs := by
  induction n with
  | zero => rfl
  | succ n ih => rw [List.replicate_succ, List.cons_append, bodyK_space, ih]

/-- `readEq_text` after any number of leading spaces -/
theorem readEq_text_spaces (c : Eqn) (hraw : c.raw = true) (f : Nat) (rest : Bytes) (hf : eqnSize c ≤ f)
    (hr : eqFollow rest = true) (n : Nat) :
    readEq f (List.replicate n 32 ++ (c.text ++ rest)) = some (c, dropSpaces rest) := by
  have := eqnSize_pos c
  have hlen := eqnSize_le_text c hraw
  obtain ⟨f, rfl⟩ : ∃ k, f = k + 1 := ⟨f - 1, by omega⟩
  simp only [readEq, readEqBody_eq]
  rw [bodyK_spaces]
  exact (readEq_core c hraw).2 f _ rest hf (by simp; omega) hr

end OjgVerif.JPText
