import OjgVerif.JPText.Chain
import OjgVerif.JPText.LemmasStr
import OjgVerif.JPText.LemmasInt
import OjgVerif.JPText.LemmasFrag
/-! # C14 lemmas: the equation reader reads the text of a raw chain back (any tree size)

`readEq_text`: for every tree `c` of the shape `Eqn.raw` (what `readEq` builds: right-nested chains of
the 17 infix operators over atoms; atoms are simple constants — int64, booleans, null, Nothing, strings,
finite floats, regexes `AppendString` leaves alone, flat lists of scalars, filter-free paths —, `!atom`,
`(equation)`, `match(x, y)`, `search(x, y)`, `length(path)`, `count(path)`), every follower `rest` that ends
an equation (`eqFollow`) and every fuel of more than `eqnSize c`, `readEq` applied to `c.text ++ rest` —
also after one leading space — returns `c` and `dropSpaces rest`. By structural induction on `c`; no
bound on the size. -/
namespace OjgVerif.JPText
open OjgVerif

/-! ## small facts -/

/-- what may follow an atom inside a printed equation: nothing, a space (before an operator), or a
terminator `,` `)` `]` -/
def atomFollow : Bytes → Bool
  | [] => true
  | b :: _ => b == 32 || b == 44 || b == 41 || b == 93

/-- `readEqBody` with the fuel of `readEqValue` as a parameter -/
def bodyK (rec : P Eqn) (K : Nat) (bs : Bytes) : Option (Eqn × Bytes) :=
  match readEqValue rec K bs with
  | none => none
  | some (e, r) => readEqLoop rec (r.length + 1) e r

theorem readEqBody_eq (rec : P Eqn) (bs : Bytes) : readEqBody rec bs = bodyK rec (bs.length + 1) bs := rfl

theorem dropSpaces_idem : ∀ bs : Bytes, dropSpaces (dropSpaces bs) = dropSpaces bs := by
  intro bs
  induction bs with
  | nil => rfl
  | cons b r ih =>
    by_cases h : b = 32
    · simp [dropSpaces, h, ih]
    · simp [dropSpaces, h]

theorem dropSpaces_cons_ne {b : UInt8} (r : Bytes) (h : b ≠ 32) : dropSpaces (b :: r) = b :: r := by
  simp [dropSpaces, h]

theorem dropSpaces_space (r : Bytes) : dropSpaces (32 :: r) = dropSpaces r := by
  simp [dropSpaces]

theorem readEqValue_space (rec : P Eqn) (K : Nat) (bs : Bytes) :
    readEqValue rec K (32 :: bs) = readEqValue rec K bs := by
  cases K with
  | zero => rfl
  | succ K => simp only [readEqValue, dropSpaces_space]

theorem bodyK_space (rec : P Eqn) (K : Nat) (bs : Bytes) : bodyK rec K (32 :: bs) = bodyK rec K bs := by
  simp only [bodyK, readEqValue_space]

theorem eqFollow_dropSpaces (rest : Bytes) : eqFollow (dropSpaces rest) = eqFollow rest := by
  simp only [eqFollow, dropSpaces_idem]

theorem atomFollow_of_eqFollow {rest : Bytes} (h : eqFollow rest = true) : atomFollow rest = true := by
  cases rest with
  | nil => rfl
  | cons b r =>
    by_cases hb : b = 32
    · simp [atomFollow, hb]
    · simp only [eqFollow, dropSpaces_cons_ne r hb, peek] at h
      simp only [atomFollow]
      simp only [Bool.or_eq_true, beq_iff_eq, List.isEmpty_cons, Bool.false_eq_true, or_false] at h ⊢
      rcases h with (h | h) | h <;> simp [h]

theorem eqnSize_pos (c : Eqn) : 1 ≤ eqnSize c := by
  cases c <;> simp [eqnSize] <;> omega

/-- the operator loop stops at the end of an equation -/
theorem readEqLoop_stop (rec : P Eqn) (K : Nat) (e : Eqn) (r : Bytes) (hK : 1 ≤ K) (h : eqFollow r = true) :
    readEqLoop rec K e r = some (e, dropSpaces r) := by
  obtain ⟨K, rfl⟩ : ∃ k, K = k + 1 := ⟨K - 1, by omega⟩
  cases r with
  | nil => simp [readEqLoop, dropSpaces]
  | cons b r =>
    simp only [readEqLoop]
    have : (peek (dropSpaces (b :: r)) = 44 || peek (dropSpaces (b :: r)) = 41 || peek (dropSpaces (b :: r)) = 93
        || peek (dropSpaces (b :: r)) = 0) = true := by
      simp only [eqFollow, Bool.or_eq_true, beq_iff_eq] at h
      rcases h with ((h | h) | h) | h
      · simp [h]
      · simp [h]
      · simp [h]
      · have : dropSpaces (b :: r) = [] := by simpa using h
        simp [this, peek]
    rw [if_pos this]

/-! ## operators -/

theorem readEqOpLoop_step (f : Nat) (tok : Bytes) (b c : UInt8) (r : Bytes)
    (h : (eqCls b ≠ 111 && (tok.isEmpty || !partialOp tok b)) = false) (h2 : (b = 45 && !tok.isEmpty) = false) :
    readEqOpLoop (f + 1) tok (b :: c :: r) = readEqOpLoop f (tok ++ [b]) (c :: r) := by
  simp only [readEqOpLoop, h, h2, Bool.false_eq_true, ↓reduceIte]

theorem readEqOpLoop_end (f : Nat) (tok : Bytes) (b : UInt8) (r : Bytes)
    (h : (eqCls b ≠ 111 && (tok.isEmpty || !partialOp tok b)) = true) :
    readEqOpLoop (f + 1) tok (b :: r) = some (tok, b :: r) := by
  simp only [readEqOpLoop, h, ↓reduceIte]

/-- every step of `readEqOp`'s loop over the name `nm` (already read: `tok`) followed by a space goes on,
and the space stops it -/
def opStepsOK : Bytes → Bytes → Bool
  | tok, [] => (eqCls 32 ≠ 111 && (tok.isEmpty || !partialOp tok 32))
  | tok, b :: r =>
    !(eqCls b ≠ 111 && (tok.isEmpty || !partialOp tok b)) && (!(b = 45 && !tok.isEmpty) && opStepsOK (tok ++ [b]) r)

theorem readEqOpLoop_ok : ∀ (nm tok : Bytes) (F : Nat) (tail : Bytes), opStepsOK tok nm = true → nm.length < F →
    readEqOpLoop F tok (nm ++ 32 :: tail) = some (tok ++ nm, 32 :: tail) := by
  intro nm
  induction nm with
  | nil =>
    intro tok F tail h hF
    obtain ⟨F, rfl⟩ : ∃ k, F = k + 1 := ⟨F - 1, by simp at hF; omega⟩
    simp only [opStepsOK] at h
    simp only [List.nil_append, List.append_nil]
    exact readEqOpLoop_end F tok 32 tail h
  | cons b nm ih =>
    intro tok F tail h hF
    obtain ⟨F, rfl⟩ : ∃ k, F = k + 1 := ⟨F - 1, by simp at hF; omega⟩
    simp only [opStepsOK, Bool.and_eq_true, Bool.not_eq_true'] at h
    obtain ⟨h1, h2, h3⟩ := h
    have hF' : nm.length < F := by simp at hF; omega
    cases hx : nm ++ 32 :: tail with
    | nil => simp at hx
    | cons x y =>
      rw [List.cons_append, hx, readEqOpLoop_step F tok b x y h1 h2, ← hx, ih (tok ++ [b]) F tail h3 hF']
      simp

/-- what the reader needs from the name of one infix operator -/
def opNameOK (o : Op) : Bool :=
  opStepsOK [] o.name && (lookupOp o.name == some o) &&
    (match o.name with
     | [] => false
     | h :: _ => h != 32 && h != 44 && h != 41 && h != 93 && h != 0) && !isCall o

theorem infix_all : binOps.all (fun o => !o.isInfix || opNameOK o) = true := by decide +kernel

theorem opNameOK_of {o : Op} (ho : binOps.contains o = true) (hi : o.isInfix = true) : opNameOK o = true := by
  have := List.all_eq_true.mp infix_all o (by simpa using ho)
  simpa [hi] using this

theorem readEqOp_name (o : Op) (ho : binOps.contains o = true) (hi : o.isInfix = true) (tail : Bytes) :
    readEqOp (32 :: (o.name ++ 32 :: tail)) = some (o, 32 :: tail) ∧
    ∃ h t, o.name = h :: t ∧ h ≠ 32 ∧ h ≠ 44 ∧ h ≠ 41 ∧ h ≠ 93 ∧ h ≠ 0 := by
  have hk := opNameOK_of ho hi
  simp only [opNameOK, Bool.and_eq_true, beq_iff_eq] at hk
  obtain ⟨⟨⟨h1, h2⟩, h3⟩, _⟩ := hk
  cases hn : o.name with
  | nil => rw [hn] at h3; simp at h3
  | cons h t =>
    rw [hn] at h3
    simp only [Bool.and_eq_true, bne_iff_ne, ne_eq] at h3
    obtain ⟨⟨⟨⟨a1, a2⟩, a3⟩, a4⟩, a5⟩ := h3
    refine ⟨?_, h, t, rfl, a1, a2, a3, a4, a5⟩
    rw [← hn]
    have hd : dropSpaces (32 :: (o.name ++ 32 :: tail)) = o.name ++ 32 :: tail := by
      rw [dropSpaces_space, hn, List.cons_append, dropSpaces_cons_ne _ a1]
    simp only [readEqOp, hd]
    rw [readEqOpLoop_ok o.name [] _ tail h1 (by simp; omega)]
    simp [h2]

/-- one turn of the operator loop: ` op rest-of-the-equation`, then the end -/
theorem readEqLoop_infix (rec : P Eqn) (o : Op) (ho : binOps.contains o = true) (hi : o.isInfix = true)
    (a rr : Eqn) (tail r3 : Bytes) (F : Nat) (hF : 2 ≤ F) (hrec : rec (32 :: tail) = some (rr, r3))
    (hfol : eqFollow r3 = true) :
    readEqLoop rec F a (32 :: (o.name ++ 32 :: tail)) = some (.bin o a rr, dropSpaces r3) := by
  obtain ⟨F, rfl⟩ : ∃ k, F = k + 2 := ⟨F - 2, by omega⟩
  obtain ⟨hop, h, t, hn, a1, a2, a3, a4, a5⟩ := readEqOp_name o ho hi tail
  have hd : dropSpaces (32 :: (o.name ++ 32 :: tail)) = h :: (t ++ 32 :: tail) := by
    rw [dropSpaces_space, hn, List.cons_append, dropSpaces_cons_ne _ a1]
  simp only [readEqLoop, hd, peek, a2, a3, a4, a5, hop, hrec, Bool.or_self, decide_false, Bool.false_eq_true,
    ↓reduceIte]
  exact readEqLoop_stop rec (F + 1) _ r3 (by omega) hfol

/-! ## integers -/

theorem natOfDigits_val (ds : Bytes) : ∀ acc : Nat, ((natOfDigits ds acc : Nat) : Int) = valDigits ds (acc : Int) := by
  induction ds with
  | nil => intro acc; rfl
  | cons d ds ih =>
    intro acc
    simp only [natOfDigits, valDigits]
    rw [ih]
    push_cast
    rfl

theorem natOfDigits_digits (n : Nat) : natOfDigits (digits n) 0 = n := by
  have h := natOfDigits_val (digits n) 0
  rw [show ((0 : Nat) : Int) = 0 from rfl, (digits_spec n).2.2] at h
  exact Int.ofNat.inj h

theorem takeDigits_append (ds rest : Bytes) (hds : ∀ d ∈ ds, isDigit d = true) (hr : takeDigits rest = ([], rest)) :
    takeDigits (ds ++ rest) = (ds, rest) := by
  induction ds with
  | nil => simpa using hr
  | cons d ds ih =>
    have hd : isDigit d = true := hds d (by simp)
    simp only [List.cons_append, takeDigits, hd, ↓reduceIte, ih (fun x hx => hds x (by simp [hx]))]

theorem atomFollow_cases {rest : Bytes} (h : atomFollow rest = true) :
    rest = [] ∨ ∃ c r, rest = c :: r ∧ (c = 32 ∨ c = 44 ∨ c = 41 ∨ c = 93) := by
  cases rest with
  | nil => exact Or.inl rfl
  | cons c r =>
    refine Or.inr ⟨c, r, rfl, ?_⟩
    simp only [atomFollow, Bool.or_eq_true, beq_iff_eq] at h
    rcases h with ((h | h) | h) | h <;> simp [h]

theorem takeDigits_follow {rest : Bytes} (h : atomFollow rest = true) : takeDigits rest = ([], rest) := by
  rcases atomFollow_cases h with rfl | ⟨c, r, rfl, hc⟩
  · rfl
  · have : isDigit c = false := by rcases hc with h | h | h | h <;> (subst h; decide)
    simp [takeDigits, this]

theorem readNum_digits (d : UInt8) (ds rest : Bytes) (hds : ∀ x ∈ ds, isDigit x = true)
    (hr : atomFollow rest = true) :
    readNum d (ds ++ rest) = (parseInt64 d ds).map fun i => (.int i, rest) := by
  simp only [readNum, takeDigits_append ds rest hds (takeDigits_follow hr)]
  rcases atomFollow_cases hr with rfl | ⟨c, r, rfl, hc⟩
  · rfl
  · have h1 : c ≠ 46 := by rcases hc with h | h | h | h <;> (subst h; decide)
    have h2 : c ≠ 101 := by rcases hc with h | h | h | h <;> (subst h; decide)
    have h3 : c ≠ 69 := by rcases hc with h | h | h | h <;> (subst h; decide)
    simp [h1, h2, h3]

/-- `readNum` reads `strconv.FormatInt(i, 10)` back as the int64 constant `i` -/
theorem readNum_fmtInt (i : Int) (hi : inInt64 i = true) (rest : Bytes) (hr : atomFollow rest = true) :
    ∃ d ds, fmtInt i = d :: ds ∧ (d = 45 ∨ isDigit d = true) ∧ readNum d (ds ++ rest) = some (.int i, rest) := by
  have hi' := (inInt64_iff i).mp hi
  by_cases hneg : i < 0
  · obtain ⟨hne, hall, _⟩ := digits_spec (-i).toNat
    have hnat := natOfDigits_digits (-i).toNat
    refine ⟨45, digits (-i).toNat, fmtInt_neg i hneg, Or.inl rfl, ?_⟩
    rw [readNum_digits 45 _ rest hall hr]
    have hemp : (digits (-i).toNat).isEmpty = false := by
      cases h : digits (-i).toNat with
      | nil => exact absurd h hne
      | cons _ _ => rfl
    have hle : (-i).toNat ≤ 9223372036854775808 := by omega
    simp only [parseInt64, ↓reduceIte, hemp, Bool.false_eq_true, hnat, hle, Option.map_some]
    have e : -(((-i).toNat : Nat) : Int) = i := by omega
    rw [e]
  · have hnn : 0 ≤ i := by omega
    obtain ⟨hne, hall, _⟩ := digits_spec i.toNat
    have hnat := natOfDigits_digits i.toNat
    cases hds : digits i.toNat with
    | nil => exact absurd hds hne
    | cons d ds =>
      rw [hds] at hall hnat
      have hd : isDigit d = true := hall d (by simp)
      refine ⟨d, ds, by rw [fmtInt_nonneg i hnn, hds], Or.inr hd, ?_⟩
      rw [readNum_digits d ds rest (fun x hx => hall x (by simp [hx])) hr]
      have hle : i.toNat ≤ 9223372036854775807 := by omega
      simp only [parseInt64, isDigit_ne_45 hd, ↓reduceIte, hnat, hle, Option.map_some]
      have e : ((i.toNat : Nat) : Int) = i := by omega
      rw [e]

/-! ## the branches of `readEqValue` -/

theorem numHead_ne' {d : UInt8} (h : d = 45 ∨ isDigit d = true) : d ≠ 32 ∧ d ≠ 33 := by
  rcases h with h | h
  · subst h; decide
  · have := isDigit_range h
    refine ⟨?_, ?_⟩ <;> (intro e; subst e; simp at this)

theorem readEqValue_num (rec : P Eqn) (K : Nat) (d : UInt8) (r : Bytes) (h : d = 45 ∨ isDigit d = true)
    (v : Val) (r2 : Bytes) (hn : readNum d r = some (v, r2)) :
    readEqValue rec (K + 1) (d :: r) = some (.val v, r2) := by
  obtain ⟨h1, h2⟩ := numHead_ne' h
  simp only [readEqValue, dropSpaces_cons_ne r h1, h2, ↓reduceIte, numHead_cond h, hn]

theorem readEqValue_not (rec : P Eqn) (K : Nat) (r : Bytes) (e : Eqn) (r2 : Bytes)
    (h : readEqValue rec K r = some (e, r2)) :
    readEqValue rec (K + 1) (33 :: r) = some (.un Gen.JpOps.op_not e, r2) := by
  simp [readEqValue, dropSpaces, h]

theorem readEqValue_group (rec : P Eqn) (K : Nat) (r : Bytes) (e : Eqn) (r2 : Bytes)
    (h : rec r = some (e, 41 :: r2)) :
    readEqValue rec (K + 1) (40 :: r) = some (.un Gen.JpOps.op_group e, r2) := by
  simp [readEqValue, dropSpaces, isDigit, h, peek]

theorem readOpArgs_two (rec : P Eqn) (o : Op) (l r : Eqn) (X Y rest : Bytes)
    (h1 : rec X = some (l, 44 :: 32 :: Y)) (h2 : rec (32 :: Y) = some (r, 41 :: rest)) :
    readOpArgs rec o (40 :: X) = some (.bin o l r, rest) := by
  simp [readOpArgs, h1, h2, dropSpaces, peek]

theorem readEqValue_match (rec : P Eqn) (K : Nat) (X : Bytes) :
    readEqValue rec (K + 1) (Gen.JpOps.op_match.name ++ 40 :: X) = readOpArgs rec Gen.JpOps.op_match (40 :: X) := by
  have htl : takeLower ([109, 97, 116, 99, 104] ++ 40 :: X) = ([109, 97, 116, 99, 104], 40 :: X) := by
    simp [takeLower, isLower]
  have hl : lookupOp [109, 97, 116, 99, 104] = some Gen.JpOps.op_match := by decide
  simp only [Gen.JpOps.op_match] at hl ⊢
  simp only [List.cons_append, List.nil_append] at htl ⊢
  simp [readEqValue, dropSpaces, isDigit, htl, hl, bTrueTok, bFalseTok, bNullTok]

theorem readEqValue_search (rec : P Eqn) (K : Nat) (X : Bytes) :
    readEqValue rec (K + 1) (Gen.JpOps.op_search.name ++ 40 :: X) = readOpArgs rec Gen.JpOps.op_search (40 :: X) := by
  have htl : takeLower ([115, 101, 97, 114, 99, 104] ++ 40 :: X) = ([115, 101, 97, 114, 99, 104], 40 :: X) := by
    simp [takeLower, isLower]
  have hl : lookupOp [115, 101, 97, 114, 99, 104] = some Gen.JpOps.op_search := by decide
  simp only [Gen.JpOps.op_search] at hl ⊢
  simp only [List.cons_append, List.nil_append] at htl ⊢
  simp [readEqValue, dropSpaces, isDigit, htl, hl, bTrueTok, bFalseTok, bNullTok]

theorem readOpArgs_one (rec : P Eqn) (o : Op) (l : Eqn) (X rest : Bytes)
    (h1 : rec X = some (l, 41 :: rest)) :
    readOpArgs rec o (40 :: X) = some (.un o l, rest) := by
  simp [readOpArgs, h1, dropSpaces, peek]

theorem readEqValue_length (rec : P Eqn) (K : Nat) (X : Bytes) :
    readEqValue rec (K + 1) (Gen.JpOps.op_length.name ++ 40 :: X) = readOpArgs rec Gen.JpOps.op_length (40 :: X) := by
  have htl : takeLower ([108, 101, 110, 103, 116, 104] ++ 40 :: X) = ([108, 101, 110, 103, 116, 104], 40 :: X) := by
    simp [takeLower, isLower]
  have hl : lookupOp [108, 101, 110, 103, 116, 104] = some Gen.JpOps.op_length := by decide
  simp only [Gen.JpOps.op_length] at hl ⊢
  simp only [List.cons_append, List.nil_append] at htl ⊢
  simp [readEqValue, dropSpaces, isDigit, htl, hl, bTrueTok, bFalseTok, bNullTok]

theorem readEqValue_count (rec : P Eqn) (K : Nat) (X : Bytes) :
    readEqValue rec (K + 1) (Gen.JpOps.op_count.name ++ 40 :: X) = readOpArgs rec Gen.JpOps.op_count (40 :: X) := by
  have htl : takeLower ([99, 111, 117, 110, 116] ++ 40 :: X) = ([99, 111, 117, 110, 116], 40 :: X) := by
    simp [takeLower, isLower]
  have hl : lookupOp [99, 111, 117, 110, 116] = some Gen.JpOps.op_count := by decide
  simp only [Gen.JpOps.op_count] at hl ⊢
  simp only [List.cons_append, List.nil_append] at htl ⊢
  simp [readEqValue, dropSpaces, isDigit, htl, hl, bTrueTok, bFalseTok, bNullTok]

/-! ## the shape `Eqn.raw` -/

theorem isPathVal_raw {l : Eqn} (h : l.isPathVal = true) : l.raw = true ∧ eqnSize l = 1 := by
  cases l with
  | val v =>
    cases v <;> simp [Eqn.isPathVal] at h
    simp [Eqn.raw, Val.simple, h, eqnSize]
  | un o l => simp [Eqn.isPathVal] at h
  | bin o l r => simp [Eqn.isPathVal] at h

theorem raw_un {o : Op} {l : Eqn} (h : (Eqn.un o l).raw = true) :
    (o = Gen.JpOps.op_not ∧ l.isAtom = true ∧ l.raw = true) ∨ (o = Gen.JpOps.op_group ∧ l.raw = true) ∨
    ((o = Gen.JpOps.op_length ∨ o = Gen.JpOps.op_count) ∧ l.isPathVal = true) := by
  simp only [Eqn.raw, Bool.or_eq_true, Bool.and_eq_true, beq_iff_eq] at h
  rcases h with (h | h) | h
  · exact Or.inl h
  · exact Or.inr (Or.inl h)
  · exact Or.inr (Or.inr h)

theorem raw_bin {o : Op} {l r : Eqn} (h : (Eqn.bin o l r).raw = true) :
    (o.isInfix = true ∧ binOps.contains o = true ∧ l.isAtom = true ∧ l.raw = true ∧ r.raw = true) ∨
    (o.isInfix = false ∧ (o = Gen.JpOps.op_match ∨ o = Gen.JpOps.op_search) ∧ l.raw = true ∧ r.raw = true) := by
  simp only [Eqn.raw] at h
  by_cases hi : o.isInfix = true
  · rw [if_pos hi] at h
    simp only [Bool.and_eq_true] at h
    exact Or.inl ⟨hi, h.1, h.2.1, h.2.2.1, h.2.2.2⟩
  · rw [if_neg hi] at h
    simp only [Bool.and_eq_true, Bool.or_eq_true, beq_iff_eq] at h
    exact Or.inr ⟨by simpa using hi, h.1, h.2.1, h.2.2⟩

theorem text_val (v : Val) : (Eqn.val v).text = v.print := rfl

theorem text_not (l : Eqn) : (Eqn.un Gen.JpOps.op_not l).text = 33 :: l.text := by
  have h1 : isCode Gen.JpOps.op_not Gen.JpOps.op_group = false := by decide
  have h2 : isCode Gen.JpOps.op_not Gen.JpOps.op_length = false := by decide
  have h3 : isCode Gen.JpOps.op_not Gen.JpOps.op_count = false := by decide
  simp only [Eqn.text, h1, h2, h3, Bool.false_eq_true, Bool.or_self, ↓reduceIte]
  rfl

theorem text_group (l : Eqn) : (Eqn.un Gen.JpOps.op_group l).text = 40 :: (l.text ++ [41]) := by
  simp [Eqn.text, isCode]

theorem text_length (l : Eqn) :
    (Eqn.un Gen.JpOps.op_length l).text = Gen.JpOps.op_length.name ++ 40 :: (l.text ++ [41]) := by
  have h1 : isCode Gen.JpOps.op_length Gen.JpOps.op_group = false := by decide
  have h2 : isCode Gen.JpOps.op_length Gen.JpOps.op_length = true := by decide
  simp [Eqn.text, h1, h2]

theorem text_count (l : Eqn) :
    (Eqn.un Gen.JpOps.op_count l).text = Gen.JpOps.op_count.name ++ 40 :: (l.text ++ [41]) := by
  have h1 : isCode Gen.JpOps.op_count Gen.JpOps.op_group = false := by decide
  have h2 : isCode Gen.JpOps.op_count Gen.JpOps.op_count = true := by decide
  simp [Eqn.text, h1, h2]

theorem text_infix (o : Op) (l r : Eqn) (hi : o.isInfix = true) :
    (Eqn.bin o l r).text = l.text ++ 32 :: (o.name ++ 32 :: r.text) := by
  have : isCall o = false := by
    simp only [Op.isInfix, Bool.and_eq_true, Bool.not_eq_true'] at hi
    exact hi.2
  simp [Eqn.text, this]

theorem text_match (l r : Eqn) :
    (Eqn.bin Gen.JpOps.op_match l r).text =
      Gen.JpOps.op_match.name ++ 40 :: (l.text ++ 44 :: 32 :: (r.text ++ [41])) := by
  have : isCall Gen.JpOps.op_match = true := by decide
  simp [Eqn.text, this]

theorem text_search (l r : Eqn) :
    (Eqn.bin Gen.JpOps.op_search l r).text =
      Gen.JpOps.op_search.name ++ 40 :: (l.text ++ 44 :: 32 :: (r.text ++ [41])) := by
  have : isCall Gen.JpOps.op_search = true := by decide
  simp [Eqn.text, this]

/-! ## constants -/

theorem takeLower_follow {rest : Bytes} (h : atomFollow rest = true) : takeLower rest = ([], rest) := by
  rcases atomFollow_cases h with rfl | ⟨c, r, rfl, hc⟩
  · rfl
  · have : isLower c = false := by rcases hc with h | h | h | h <;> (subst h; decide)
    simp [takeLower, this]

theorem print_int (i : Int) : (Val.int i).print = fmtInt i := by simp [Val.print]
theorem print_null : Val.null.print = [110, 117, 108, 108] := by simp [Val.print, bNull]
theorem print_nothing : Val.nothing.print = [78, 111, 116, 104, 105, 110, 103] := by simp [Val.print, bNothing]
theorem print_true : (Val.bool true).print = [116, 114, 117, 101] := by simp [Val.print, bTrue]
theorem print_false : (Val.bool false).print = [102, 97, 108, 115, 101] := by simp [Val.print, bFalse]
theorem print_str (s : Bytes) : (Val.str s).print = appendString s 39 := by simp [Val.print]
theorem print_flt (t : Bytes) : (Val.flt t).print = floatPrint t := by simp [Val.print]
theorem print_regex (s : Bytes) : (Val.regex s).print = appendString s 47 := by simp [Val.print]
theorem print_expr (x : List Frag) : (Val.expr x).print = Frag.printL false true false x := by simp [Val.print]
theorem print_list (vs : List Val) : (Val.list vs).print = 91 :: (Val.printL vs ++ [93]) := by simp [Val.print]

/-! ### floats -/

theorem takeDigits_spec : ∀ u : Bytes, u = (takeDigits u).1 ++ (takeDigits u).2 ∧ (∀ d ∈ (takeDigits u).1, isDigit d = true) ∧
    takeDigits (takeDigits u).2 = ([], (takeDigits u).2) := by
  intro u
  induction u with
  | nil => simp [takeDigits]
  | cons b r ih =>
    by_cases hb : isDigit b = true
    · simp only [takeDigits, hb, ↓reduceIte, List.cons_append]
      refine ⟨by rw [← ih.1], ?_, ih.2.2⟩
      intro d hd
      rcases List.mem_cons.mp hd with h | h
      · rw [h]; exact hb
      · exact ih.2.1 d h
    · simp [takeDigits, hb]

/-- the exponent of a `FormatFloat` text: sign and at least two digits -/
def expOK : Bytes → Bool
  | s :: ds => (s = 43 || s = 45) && decide (2 ≤ ds.length) && ds.all isDigit
  | [] => false

/-- `num` ends with `e`; the exponent follows -/
theorem readNumExp_ok (num r2 rest : Bytes) (h : expOK r2 = true) (hr : atomFollow rest = true) :
    readNumExp num (r2 ++ rest) = some (.flt (num ++ r2), rest) := by
  cases r2 with
  | nil => simp [expOK] at h
  | cons s ds =>
    simp only [expOK, Bool.and_eq_true, Bool.or_eq_true, decide_eq_true_eq, List.all_eq_true] at h
    obtain ⟨⟨hs, hlen⟩, hds⟩ := h
    have htd := takeDigits_append ds rest hds (takeDigits_follow hr)
    have hs' : (s = 43 || s = 45) = true := by simpa using hs
    cases hx : ds ++ rest with
    | nil =>
      have : (ds ++ rest).length = 0 := by rw [hx]; rfl
      rw [List.length_append] at this; omega
    | cons x y =>
      simp only [List.cons_append, readNumExp, hs', ↓reduceIte, hx]
      rw [← hx, htd]

/-- what follows the first digit run in a float text that has a `.` or an exponent -/
def floatTail : Bytes → Bool
  | [] => false
  | c :: r =>
    if c = 46 then
      (match (takeDigits r).1, (takeDigits r).2 with
       | [], _ => false
       | _ :: _, [] => true
       | _ :: _, e :: r2 => e = 101 && expOK r2)
    else c = 101 && expOK r

theorem readNum_float (b : UInt8) (ds1 R1 rest : Bytes) (hds1 : ∀ d ∈ ds1, isDigit d = true)
    (hR : floatTail R1 = true) (hr : atomFollow rest = true) :
    readNum b (ds1 ++ (R1 ++ rest)) = some (.flt (b :: (ds1 ++ R1)), rest) := by
  cases R1 with
  | nil => simp [floatTail] at hR
  | cons c r =>
    simp only [floatTail] at hR
    by_cases hc : c = 46
    · subst hc
      simp only [↓reduceIte] at hR
      obtain ⟨hsplit, hdig, hstop⟩ := takeDigits_spec r
      have h1 : takeDigits (ds1 ++ 46 :: (r ++ rest)) = (ds1, 46 :: (r ++ rest)) :=
        takeDigits_append ds1 _ hds1 (by simp [takeDigits, isDigit])
      rw [List.cons_append]
      cases hD : (takeDigits r).1 with
      | nil => simp [hD] at hR
      | cons d2 ds2 =>
        cases hR2 : (takeDigits r).2 with
        | nil =>
          rw [hD, hR2] at hsplit
          simp only [List.append_nil] at hsplit
          have h2 : takeDigits (r ++ rest) = (r, rest) :=
            takeDigits_append r rest (by rw [hsplit, ← hD]; exact hdig) (takeDigits_follow hr)
          simp only [readNum, h1, ↓reduceIte, h2]
          rcases atomFollow_cases hr with rfl | ⟨x, y, rfl, hx⟩
          · simp
          · have e1 : x ≠ 101 := by rcases hx with h | h | h | h <;> (subst h; decide)
            have e2 : x ≠ 69 := by rcases hx with h | h | h | h <;> (subst h; decide)
            simp [e1, e2]
        | cons e r2 =>
          simp only [hD, hR2, Bool.and_eq_true, decide_eq_true_eq] at hR
          obtain ⟨he, hexp⟩ := hR
          subst he
          rw [hD, hR2] at hsplit
          have h2 : takeDigits (r ++ rest) = (d2 :: ds2, 101 :: (r2 ++ rest)) := by
            rw [hsplit, List.append_assoc]
            exact takeDigits_append (d2 :: ds2) _ (by rw [← hD]; exact hdig) (by simp [takeDigits, isDigit])
          simp only [readNum, h1, List.cons_append, ↓reduceIte, h2, decide_true]
          rw [readNumExp_ok _ r2 rest hexp hr, hsplit]
          simp [List.append_assoc]
    · simp only [hc, ↓reduceIte, Bool.and_eq_true, decide_eq_true_eq] at hR
      obtain ⟨he, hexp⟩ := hR
      subst he
      have h1 : takeDigits (ds1 ++ 101 :: (r ++ rest)) = (ds1, 101 :: (r ++ rest)) :=
        takeDigits_append ds1 _ hds1 (by simp [takeDigits, isDigit])
      rw [List.cons_append]
      simp only [readNum, h1]
      simp only [show ¬ (101 : UInt8) = 46 by decide, ↓reduceIte, decide_true]
      rw [readNumExp_ok _ r rest hexp hr]
      simp [List.append_assoc]

theorem digits_noForm (u : Bytes) (h : ∀ d ∈ u, isDigit d = true) :
    u.any (fun b => b = 46 || b = 101 || b = 78 || b = 73) = false := by
  rw [List.any_eq_false]
  intro d hd
  have := isDigit_range (h d hd)
  have e1 : d ≠ 46 := by intro e; subst e; simp at this
  have e2 : d ≠ 101 := by intro e; subst e; simp at this
  have e3 : d ≠ 78 := by intro e; subst e; simp at this
  have e4 : d ≠ 73 := by intro e; subst e; simp at this
  simp [e1, e2, e3, e4]

theorem floatLeaf_split (t : Bytes) (h : floatLeaf t = true) :
    ∃ b ds1 R1, t = b :: (ds1 ++ R1) ∧ (b = 45 ∨ isDigit b = true) ∧ (∀ d ∈ ds1, isDigit d = true) ∧
      floatTail R1 = true ∧ floatPrint t = t := by
  simp only [floatLeaf, Bool.and_eq_true, Bool.not_eq_true', beq_iff_eq] at h
  obtain ⟨hok, hnf, hfp⟩ := h
  unfold floatTextOk at hok
  simp only [Bool.or_eq_true, decide_eq_true_eq] at hok
  rcases hok with ((e | e) | e) | hok
  · subst e; simp [floatNoForm] at hnf
  · subst e; simp [floatNoForm] at hnf
  · subst e; simp [floatNoForm] at hnf
  · generalize hu : (if List.head? t = some 45 then List.drop 1 t else t) = u at hok
    have core : ∃ d1 ds1 R1, u = d1 :: (ds1 ++ R1) ∧ isDigit d1 = true ∧ (∀ d ∈ ds1, isDigit d = true) ∧
        (R1 = [] ∨ floatTail R1 = true) := by
      obtain ⟨hsplit, hdig, _⟩ := takeDigits_spec u
      cases hD : (takeDigits u).1 with
      | nil => simp [hD] at hok
      | cons d1 ds1 =>
        rw [hD] at hsplit hdig
        refine ⟨d1, ds1, (takeDigits u).2, by simpa using hsplit, hdig d1 (by simp),
          fun x hx => hdig x (by simp [hx]), ?_⟩
        cases hR : (takeDigits u).2 with
        | nil => exact Or.inl rfl
        | cons c r =>
          right
          simp only [hD, hR] at hok
          simp only [floatTail]
          by_cases hc : c = 46
          · simp only [hc, ↓reduceIte] at hok ⊢
            cases hD2 : (takeDigits r).1 with
            | nil => simp [hD2] at hok
            | cons d2 ds2 =>
              cases hR2 : (takeDigits r).2 with
              | nil => rfl
              | cons e r2 =>
                simp only [hD2, hR2] at hok ⊢
                cases r2 with
                | nil => simp at hok
                | cons s ds => simpa [expOK] using hok
          · simp only [hc, ↓reduceIte] at hok ⊢
            cases r with
            | nil => simp at hok
            | cons s ds => simpa [expOK] using hok
    obtain ⟨d1, ds1, R1, hu', hd1, hds1, hR1⟩ := core
    have hprint : ∀ w : Bytes, (∀ d ∈ w, d = 45 ∨ isDigit d = true) → floatPrint w ≠ w := by
      intro w hw
      have : w.any (fun b => b = 46 || b = 101 || b = 78 || b = 73) = false := by
        rw [List.any_eq_false]
        intro d hd
        rcases hw d hd with h | h
        · subst h; decide
        · have := List.any_eq_false.mp (digits_noForm [d] (by simpa using h)) d (by simp)
          exact this
      intro e
      have := congrArg List.length e
      simp [floatPrint, ‹w.any _ = false›] at this
    by_cases h45 : List.head? t = some 45
    · rw [if_pos h45] at hu
      cases t with
      | nil => simp at h45
      | cons b t' =>
        have hb : b = 45 := by simpa using h45
        subst hb
        simp only [List.drop_succ_cons, List.drop_zero] at hu
        subst hu
        rcases hR1 with rfl | hR1
        · exfalso
          apply hprint _ _ hfp
          intro d hd
          rw [hu'] at hd
          simp only [List.append_nil, List.mem_cons] at hd
          rcases hd with h | h | h
          · exact Or.inl h
          · exact Or.inr (h ▸ hd1)
          · exact Or.inr (hds1 d h)
        · refine ⟨45, d1 :: ds1, R1, by rw [hu']; rfl, Or.inl rfl, ?_, hR1, hfp⟩
          intro d hd
          rcases List.mem_cons.mp hd with h | h
          · exact h ▸ hd1
          · exact hds1 d h
    · rw [if_neg h45] at hu
      subst hu
      rcases hR1 with rfl | hR1
      · exfalso
        apply hprint _ _ hfp
        intro d hd
        rw [hu'] at hd
        simp only [List.append_nil, List.mem_cons] at hd
        rcases hd with h | h
        · exact Or.inr (h ▸ hd1)
        · exact Or.inr (hds1 d h)
      · exact ⟨d1, ds1, R1, hu', Or.inr hd1, hds1, hR1, hfp⟩

/-! ### regular expressions -/

/-- `readRegex` does not look past the closing `/`: what it reads from `L/` it reads from `L/rest` -/
theorem readRegex_prefix : ∀ (F : Nat) (L x : Bytes), readRegex F (L ++ [47]) = some (x, []) →
    ∀ (F' : Nat) (rest : Bytes), F ≤ F' → readRegex F' (L ++ 47 :: rest) = some (x, rest) := by
  intro F
  induction F with
  | zero => intro L x h; simp [readRegex] at h
  | succ f ih =>
    intro L x h F' rest hF
    obtain ⟨F', rfl⟩ : ∃ k, F' = k + 1 := ⟨F' - 1, by omega⟩
    cases L with
    | nil =>
      simp only [List.nil_append, readRegex, ↓reduceIte, Option.some.injEq, Prod.mk.injEq, and_true] at h
      subst h
      simp [readRegex]
    | cons b L' =>
      simp only [List.cons_append, readRegex] at h ⊢
      by_cases hb : b = 47
      · simp [hb] at h
      · simp only [hb, ↓reduceIte] at h ⊢
        by_cases hb2 : b = 92
        · simp only [hb2, ↓reduceIte] at h ⊢
          cases L' with
          | nil => simp at h
          | cons c L'' =>
            simp only [List.cons_append] at h ⊢
            cases hx : L'' ++ [47] with
            | nil => simp at hx
            | cons y ys =>
              rw [hx] at h
              simp only [] at h
              rw [← hx] at h
              cases hy : L'' ++ 47 :: rest with
              | nil => simp at hy
              | cons z zs =>
                simp only []
                rw [← hy]
                cases hr : readRegex f (L'' ++ [47]) with
                | none => simp [hr, consFst] at h
                | some p =>
                  obtain ⟨x2, rem⟩ := p
                  rw [hr] at h
                  simp only [consFst, Option.some.injEq, Prod.mk.injEq] at h
                  obtain ⟨h1, h2⟩ := h
                  subst h2
                  rw [ih L'' x2 hr F' rest (by omega)]
                  simp [consFst, h1]
        · simp only [hb2, ↓reduceIte] at h ⊢
          cases hx : L' ++ [47] with
          | nil => simp at hx
          | cons y ys =>
            rw [hx] at h
            simp only [] at h
            rw [← hx] at h
            cases hy : L' ++ 47 :: rest with
            | nil => simp at hy
            | cons z zs =>
              simp only []
              rw [← hy]
              cases hr : readRegex f (L' ++ [47]) with
              | none => simp [hr, consFst] at h
              | some p =>
                obtain ⟨x2, rem⟩ := p
                rw [hr] at h
                simp only [consFst, Option.some.injEq, Prod.mk.injEq] at h
                obtain ⟨h1, h2⟩ := h
                subst h2
                rw [ih L' x2 hr F' rest (by omega)]
                simp [consFst, h1]

theorem regex_facts (s : Bytes) (h : regexDev s = false) :
    appendString s 47 = 47 :: (s ++ [47]) ∧ readRegex (s.length + 2) (s ++ [47]) = some (s, []) := by
  simp only [regexDev, Bool.or_eq_false_iff, bne_eq_false_iff_eq] at h
  obtain ⟨h1, h2⟩ := h
  refine ⟨by simp [appendString, h1], ?_⟩
  cases hr : readRegex (s.length + 2) (s ++ [47]) with
  | none => simp [hr] at h2
  | some p =>
    obtain ⟨x, rem⟩ := p
    rw [hr] at h2
    cases rem with
    | nil => simp at h2; rw [h2]
    | cons _ _ => simp at h2

theorem readEqValue_regex (s : Bytes) (h : regexDev s = false) (rec : P Eqn) (K : Nat) (rest : Bytes) :
    readEqValue rec (K + 1) ((Val.regex s).print ++ rest) = some (.val (.regex s), rest) := by
  obtain ⟨h1, h2⟩ := regex_facts s h
  have h3 := readRegex_prefix _ s s h2 ((s ++ 47 :: rest).length + 1) rest (by simp)
  rw [print_regex, h1]
  simp only [List.cons_append, List.append_assoc, List.nil_append]
  simp only [readEqValue, dropSpaces_cons_ne _ (show (47 : UInt8) ≠ 32 by decide), h3]
  simp [isDigit]

/-! ### paths -/

theorem img_self (f : Frag) (h : f.selfImg = true) : f.img false = f := by
  cases f with
  | wild hs => simp [Frag.selfImg] at h; simp [Frag.img, h]
  | slice ns =>
    simp only [Frag.selfImg, Bool.or_eq_true, beq_iff_eq] at h
    rcases h with h | h
    · match ns, h with
      | [a, b], _ => simp [Frag.img, normSlice]
    · match ns, h with
      | [a, b, c], _ => simp [Frag.img, normSlice]
  | _ => rfl

theorem imgL_self : ∀ x : List Frag, x.all Frag.selfImg = true → imgL false x = x := by
  intro x
  induction x with
  | nil => intro _; rfl
  | cons f r ih =>
    intro h
    simp only [List.all_cons, Bool.and_eq_true] at h
    simp [imgL, img_self f h.1, ih h.2]

theorem pathEnd_of_atomFollow {rest : Bytes} (h : atomFollow rest = true) : pathEnd rest = true := by
  rcases atomFollow_cases h with rfl | ⟨c, r, rfl, hc⟩
  · rfl
  · rcases hc with h | h | h | h <;> (subst h; rfl)

theorem readEqValue_path (x : List Frag) (h : pathLeaf x = true) (rec : P Eqn) (K : Nat) (rest : Bytes)
    (hr : atomFollow rest = true) :
    readEqValue rec (K + 1) ((Val.expr x).print ++ rest) = some (.val (.expr x), rest) ∧
    1 ≤ (Val.expr x).print.length := by
  simp only [pathLeaf, Bool.and_eq_true] at h
  obtain ⟨h1, b, t, he, hb⟩ := readExpr_path (readFilter rec) x h.1 rest (pathEnd_of_atomFollow hr)
  rw [imgL_self x h.2] at h1
  rw [print_expr]
  refine ⟨?_, by rw [he]; simp⟩
  rw [he] at h1 ⊢
  rcases hb with rfl | rfl
  · simp only [List.cons_append] at h1 ⊢
    simp [readEqValue, dropSpaces, isDigit, h1]
  · simp only [List.cons_append] at h1 ⊢
    simp [readEqValue, dropSpaces, isDigit, h1]

/-! ### scalars -/

/-- a scalar constant is read back, whatever the reader of nested equations is; its text starts with a
byte that is neither a space nor `]` -/
theorem readEqValue_scalar (v : Val) (hs : v.scalar = true) (rec : P Eqn) (K : Nat) (rest : Bytes)
    (hr : atomFollow rest = true) :
    readEqValue rec (K + 1) (v.print ++ rest) = some (.val v, rest) ∧
    ∃ b t, v.print = b :: t ∧ b ≠ 32 ∧ b ≠ 93 := by
  cases v with
  | int i =>
    obtain ⟨d, ds, he, hd, hn⟩ := readNum_fmtInt i hs rest hr
    rw [print_int, he, List.cons_append]
    exact ⟨readEqValue_num rec K d _ hd _ _ hn, d, ds, rfl, (numHead_ne hd).1, (numHead_ne hd).2.2.2.2.2.2.2.1⟩
  | null =>
    have := takeLower_follow hr
    rw [print_null]
    refine ⟨?_, _, _, rfl, by decide, by decide⟩
    simp [readEqValue, dropSpaces, isDigit, takeLower, isLower, this, bTrueTok, bFalseTok, bNullTok]
  | nothing =>
    rw [print_nothing]
    refine ⟨?_, _, _, rfl, by decide, by decide⟩
    simp [readEqValue, dropSpaces, isDigit, matchPrefix, bNothingTok]
  | bool b =>
    have := takeLower_follow hr
    cases b
    · rw [print_false]
      refine ⟨?_, _, _, rfl, by decide, by decide⟩
      simp [readEqValue, dropSpaces, isDigit, takeLower, isLower, this, bTrueTok, bFalseTok]
    · rw [print_true]
      refine ⟨?_, _, _, rfl, by decide, by decide⟩
      simp [readEqValue, dropSpaces, isDigit, takeLower, isLower, this, bTrueTok]
  | str s =>
    obtain ⟨t, he, hn⟩ := readStr_appendString s rest
    rw [print_str]
    refine ⟨?_, 39, appendStrBody 39 s.length s ++ [39], rfl, by decide, by decide⟩
    rw [he]
    simp [readEqValue, dropSpaces, isDigit, hn]
  | flt t =>
    obtain ⟨b, ds1, R1, he, hb, hds1, hR1, hfp⟩ := floatLeaf_split t (by simpa [Val.scalar] using hs)
    rw [print_flt, hfp]
    subst he
    refine ⟨?_, b, ds1 ++ R1, rfl, (numHead_ne hb).1, (numHead_ne hb).2.2.2.2.2.2.2.1⟩
    have hn := readNum_float b ds1 R1 rest hds1 hR1 hr
    rw [List.cons_append, List.append_assoc]
    exact readEqValue_num rec K b _ hb _ _ hn
  | list vs => simp [Val.scalar] at hs
  | expr x => simp [Val.scalar] at hs
  | regex src => simp [Val.scalar] at hs

theorem bodyK_of_atom (rec : P Eqn) (c : Eqn) (bs rest : Bytes) (K : Nat)
    (h : readEqValue rec K bs = some (c, rest)) (hf : eqFollow rest = true) :
    bodyK rec K bs = some (c, dropSpaces rest) := by
  simp only [bodyK, h]
  exact readEqLoop_stop rec _ c rest (by omega) hf

/-- a scalar constant as a whole equation (a list element) -/
theorem readEq_scalar (v : Val) (hs : v.scalar = true) (f : Nat) (hf : 1 ≤ f) (rest : Bytes)
    (hr : eqFollow rest = true) :
    readEq f (v.print ++ rest) = some (.val v, dropSpaces rest) := by
  obtain ⟨f, rfl⟩ : ∃ k, f = k + 1 := ⟨f - 1, by omega⟩
  simp only [readEq, readEqBody_eq]
  exact bodyK_of_atom _ _ _ rest _
    (readEqValue_scalar v hs (readEq f) _ rest (atomFollow_of_eqFollow hr)).1 hr

/-! ### lists -/

theorem printL_cons2 (v w : Val) (r : List Val) : Val.printL (v :: w :: r) = v.print ++ 44 :: Val.printL (w :: r) := by
  simp [Val.printL]

theorem printL_one (v : Val) : Val.printL [v] = v.print := by simp [Val.printL]

theorem readListLoop_scalars (rec : P Eqn)
    (hrec : ∀ (v : Val), v.scalar = true → ∀ rest, eqFollow rest = true →
      rec (v.print ++ rest) = some (.val v, dropSpaces rest)) (rest : Bytes) :
    ∀ (vs : List Val) (F : Nat), vs ≠ [] → vs.length ≤ F → (∀ v ∈ vs, v.scalar = true) →
    readListLoop rec F (Val.printL vs ++ 93 :: rest) = some (vs, rest) := by
  intro vs
  induction vs with
  | nil => intro F h; exact absurd rfl h
  | cons v r ih =>
    intro F _ hF hall
    obtain ⟨F, rfl⟩ : ∃ k, F = k + 1 := ⟨F - 1, by simp at hF; omega⟩
    have hv : v.scalar = true := hall v (by simp)
    obtain ⟨_, b, t, he, _, _⟩ := readEqValue_scalar v hv rec 0 [] rfl
    cases r with
    | nil =>
      have h1 := hrec v hv (93 :: rest) (by simp [eqFollow, dropSpaces, peek])
      rw [dropSpaces_cons_ne _ (by decide)] at h1
      rw [printL_one]
      rw [he, List.cons_append] at h1 ⊢
      simp [readListLoop, h1, skipSpace, skipSpaceAux, Eqn.resultOf]
    | cons w r' =>
      have h1 := hrec v hv (44 :: (Val.printL (w :: r') ++ 93 :: rest)) (by simp [eqFollow, dropSpaces, peek])
      rw [dropSpaces_cons_ne _ (by decide)] at h1
      have h2 := ih F (by simp) (by simp at hF ⊢; omega) (fun x hx => hall x (by simp [hx]))
      rw [printL_cons2, List.append_assoc, List.cons_append]
      rw [he, List.cons_append] at h1 ⊢
      simp [readListLoop, h1, skipSpace, skipSpaceAux, Eqn.resultOf, h2, consFst]

theorem printL_length : ∀ vs : List Val, (∀ v ∈ vs, v.scalar = true) → vs.length ≤ (Val.printL vs).length := by
  intro vs
  induction vs with
  | nil => intro _; simp
  | cons v r ih =>
    intro hall
    obtain ⟨_, b, t, he, _, _⟩ := readEqValue_scalar v (hall v (by simp)) (fun _ => none) 0 [] rfl
    have := ih (fun x hx => hall x (by simp [hx]))
    cases r with
    | nil => simp [printL_one, he]
    | cons w r' =>
      rw [printL_cons2, he]
      simp at this ⊢
      omega

theorem readEqValue_list (vs : List Val) (hs : vs.all Val.scalar = true) (f : Nat) (hf : 1 ≤ f) (K : Nat)
    (rest : Bytes) :
    readEqValue (readEq f) (K + 1) ((Val.list vs).print ++ rest) = some (.val (.list vs), rest) := by
  rw [print_list]
  simp only [List.cons_append, List.append_assoc, List.nil_append]
  have hall : ∀ v ∈ vs, v.scalar = true := by simpa using hs
  cases vs with
  | nil => simp [readEqValue, dropSpaces, isDigit, Val.printL, peek]
  | cons v r =>
    obtain ⟨_, b, t, he, hb1, hb2⟩ := readEqValue_scalar v (hall v (by simp)) (fun _ => none) 0 [] rfl
    have hloop := fun F hF => readListLoop_scalars (readEq f)
      (fun v hv rest hr => readEq_scalar v hv f hf rest hr) rest (v :: r) F (by simp) hF hall
    have hlen := printL_length (v :: r) hall
    have hhead : ∃ t', Val.printL (v :: r) = b :: t' := by
      cases r with
      | nil => exact ⟨t, by rw [printL_one, he]⟩
      | cons w r' => exact ⟨t ++ 44 :: Val.printL (w :: r'), by rw [printL_cons2, he]; rfl⟩
    obtain ⟨t', ht'⟩ := hhead
    have hl2 := hloop ((Val.printL (v :: r) ++ 93 :: rest).length + 1)
      (by simp only [List.length_cons, List.length_append] at hlen ⊢; omega)
    rw [ht'] at hl2 ⊢
    simp only [List.cons_append] at hl2 ⊢
    simp only [readEqValue, dropSpaces_cons_ne _ (show (91 : UInt8) ≠ 32 by decide), dropSpaces_cons_ne _ hb1, peek, hl2]
    simp [isDigit, hb2]

/-- a simple constant is read back by `readEqValue` (the elements of a list by `readEq f`, `1 ≤ f`) -/
theorem readEqValue_val (v : Val) (hs : v.simple = true) (f : Nat) (hf : 1 ≤ f) (K : Nat) (rest : Bytes)
    (hr : atomFollow rest = true) :
    readEqValue (readEq f) (K + 1) (v.print ++ rest) = some (.val v, rest) := by
  cases v with
  | list vs => exact readEqValue_list vs (by simpa [Val.simple] using hs) f hf K rest
  | expr x => exact (readEqValue_path x (by simpa [Val.simple] using hs) _ K rest hr).1
  | regex s => exact readEqValue_regex s (by simpa [Val.simple] using hs) _ K rest
  | int i => exact (readEqValue_scalar _ (by simpa [Val.simple] using hs) _ K rest hr).1
  | null => exact (readEqValue_scalar _ (by simp [Val.scalar]) _ K rest hr).1
  | nothing => exact (readEqValue_scalar _ (by simp [Val.scalar]) _ K rest hr).1
  | bool b => exact (readEqValue_scalar _ (by simp [Val.scalar]) _ K rest hr).1
  | str s => exact (readEqValue_scalar _ (by simp [Val.scalar]) _ K rest hr).1
  | flt t => exact (readEqValue_scalar _ (by simpa [Val.simple] using hs) _ K rest hr).1

theorem print_length (v : Val) (hs : v.simple = true) : 1 ≤ v.print.length := by
  have sc : ∀ w : Val, w.scalar = true → 1 ≤ w.print.length := by
    intro w hw
    obtain ⟨_, b, t, he, _, _⟩ := readEqValue_scalar w hw (fun _ => none) 0 [] rfl
    rw [he]; simp
  cases v with
  | list vs => simp [print_list]
  | expr x => exact (readEqValue_path x (by simpa [Val.simple] using hs) (fun _ => none) 0 [] rfl).2
  | regex s => simp [print_regex, appendString]
  | int i => exact sc _ (by simpa [Val.simple] using hs)
  | null => exact sc _ (by simp [Val.scalar])
  | nothing => exact sc _ (by simp [Val.scalar])
  | bool b => exact sc _ (by simp [Val.scalar])
  | str s => exact sc _ (by simp [Val.scalar])
  | flt t => exact sc _ (by simpa [Val.simple] using hs)

/-- every node of a raw tree contributes at least one byte to its text -/
theorem eqnSize_le_text : ∀ c : Eqn, c.raw = true → eqnSize c ≤ c.text.length := by
  intro c
  induction c with
  | val v =>
    intro h
    simpa [eqnSize, text_val] using print_length v (by simpa [Eqn.raw] using h)
  | un o l ih =>
    intro h
    rcases raw_un h with ⟨rfl, _, hl⟩ | ⟨rfl, hl⟩ | ⟨ho, hp⟩
    · have := ih hl
      simp [text_not, eqnSize]; omega
    · have := ih hl
      simp [text_group, eqnSize]; omega
    · have := ih (isPathVal_raw hp).1
      rcases ho with rfl | rfl
      · simp [text_length, eqnSize]; omega
      · simp [text_count, eqnSize]; omega
  | bin o l r ihl ihr =>
    intro h
    rcases raw_bin h with ⟨hi, _, _, hl, hr⟩ | ⟨_, ho, hl, hr⟩
    · have := ihl hl
      have := ihr hr
      simp [text_infix o l r hi, eqnSize]; omega
    · have := ihl hl
      have := ihr hr
      rcases ho with rfl | rfl
      · simp [text_match, eqnSize]; omega
      · simp [text_search, eqnSize]; omega

/-! ## the reader lemma -/

theorem readEq_of_body (l : Eqn) (hlen : eqnSize l ≤ l.text.length)
    (hP : ∀ (f K : Nat) (rest : Bytes), eqnSize l ≤ f → eqnSize l ≤ K → eqFollow rest = true →
      bodyK (readEq f) K (l.text ++ rest) = some (l, dropSpaces rest))
    (f : Nat) (rest : Bytes) (hf : eqnSize l + 1 ≤ f) (hr : eqFollow rest = true) :
    readEq f (l.text ++ rest) = some (l, dropSpaces rest) ∧
    readEq f (32 :: (l.text ++ rest)) = some (l, dropSpaces rest) := by
  obtain ⟨f, rfl⟩ : ∃ k, f = k + 1 := ⟨f - 1, by omega⟩
  simp only [readEq, readEqBody_eq]
  constructor
  · exact hP f _ rest (by omega) (by simp; omega) hr
  · rw [bodyK_space]
    exact hP f _ rest (by omega) (by simp; omega) hr

/-- the two statements proved together: an atom is read by `readEqValue`, a chain by `readEqBody`; the
reader of the nested equations is `readEq f` with `f` at least the number of nodes -/
theorem readEq_core (c : Eqn) : c.raw = true →
    (c.isAtom = true → ∀ (f K : Nat) (rest : Bytes), eqnSize c ≤ f → eqnSize c ≤ K → atomFollow rest = true →
      readEqValue (readEq f) K (c.text ++ rest) = some (c, rest)) ∧
    (∀ (f K : Nat) (rest : Bytes), eqnSize c ≤ f → eqnSize c ≤ K → eqFollow rest = true →
      bodyK (readEq f) K (c.text ++ rest) = some (c, dropSpaces rest)) := by
  induction c with
  | val v =>
    intro hraw
    have hs : v.simple = true := by simpa [Eqn.raw] using hraw
    have hQ : ∀ (f K : Nat) (rest : Bytes), eqnSize (Eqn.val v) ≤ f → eqnSize (Eqn.val v) ≤ K →
        atomFollow rest = true → readEqValue (readEq f) K ((Eqn.val v).text ++ rest) = some (Eqn.val v, rest) := by
      intro f K rest hf hK hr
      obtain ⟨K, rfl⟩ : ∃ k, K = k + 1 := ⟨K - 1, by simp [eqnSize] at hK; omega⟩
      rw [text_val]
      exact readEqValue_val v hs f (by simpa [eqnSize] using hf) K rest hr
    exact ⟨fun _ => hQ, fun f K rest hf hK hr =>
      bodyK_of_atom _ _ _ rest K (hQ f K rest hf hK (atomFollow_of_eqFollow hr)) hr⟩
  | un o l ih =>
    intro hraw
    have hQ : ∀ (f K : Nat) (rest : Bytes), eqnSize (Eqn.un o l) ≤ f → eqnSize (Eqn.un o l) ≤ K →
        atomFollow rest = true → readEqValue (readEq f) K ((Eqn.un o l).text ++ rest) = some (Eqn.un o l, rest) := by
      intro f K rest hf hK hr
      obtain ⟨K, rfl⟩ : ∃ k, K = k + 1 := ⟨K - 1, by simp [eqnSize] at hK; omega⟩
      simp only [eqnSize] at hf hK
      rcases raw_un hraw with ⟨rfl, hla, hl⟩ | ⟨rfl, hl⟩ | ⟨ho, hp⟩
      · rw [text_not, List.cons_append]
        exact readEqValue_not _ K _ l rest ((ih hl).1 hla f K rest (by omega) (by omega) hr)
      · rw [text_group, List.cons_append, List.append_assoc, List.singleton_append]
        have hrd := (readEq_of_body l (eqnSize_le_text l hl) (ih hl).2 f (41 :: rest) (by omega) (by simp [eqFollow, dropSpaces, peek])).1
        rw [dropSpaces_cons_ne rest (by decide)] at hrd
        exact readEqValue_group _ K _ l rest hrd
      · obtain ⟨hl, _⟩ := isPathVal_raw hp
        have hrd := (readEq_of_body l (eqnSize_le_text l hl) (ih hl).2 f (41 :: rest) (by omega) (by simp [eqFollow, dropSpaces, peek])).1
        rw [dropSpaces_cons_ne rest (by decide)] at hrd
        rcases ho with rfl | rfl
        · rw [text_length]
          have e : Gen.JpOps.op_length.name ++ 40 :: (l.text ++ [41]) ++ rest =
              Gen.JpOps.op_length.name ++ 40 :: (l.text ++ 41 :: rest) := by simp [List.append_assoc]
          rw [e, readEqValue_length, readOpArgs_one _ _ l _ rest hrd]
        · rw [text_count]
          have e : Gen.JpOps.op_count.name ++ 40 :: (l.text ++ [41]) ++ rest =
              Gen.JpOps.op_count.name ++ 40 :: (l.text ++ 41 :: rest) := by simp [List.append_assoc]
          rw [e, readEqValue_count, readOpArgs_one _ _ l _ rest hrd]
    exact ⟨fun _ => hQ, fun f K rest hf hK hr =>
      bodyK_of_atom _ _ _ rest K (hQ f K rest hf hK (atomFollow_of_eqFollow hr)) hr⟩
  | bin o l r ihl ihr =>
    intro hraw
    rcases raw_bin hraw with ⟨hi, ho, hla, hl, hr⟩ | ⟨hi, ho, hl, hr⟩
    · -- an infix node: the atom `l`, the operator, the rest of the chain
      refine ⟨fun ha => by simp [Eqn.isAtom, hi] at ha, ?_⟩
      intro f K rest hf hK hfol
      simp only [eqnSize] at hf hK
      have h1 := eqnSize_pos l
      have h2 := eqnSize_pos r
      rw [text_infix o l r hi]
      have e : l.text ++ 32 :: (o.name ++ 32 :: r.text) ++ rest = l.text ++ (32 :: (o.name ++ 32 :: (r.text ++ rest))) := by
        simp [List.append_assoc]
      rw [e]
      have hv := (ihl hl).1 hla f K (32 :: (o.name ++ 32 :: (r.text ++ rest))) (by omega) (by omega) (by simp [atomFollow])
      have hrd := (readEq_of_body r (eqnSize_le_text r hr) (ihr hr).2 f rest (by omega) hfol).2
      simp only [bodyK, hv]
      rw [readEqLoop_infix (readEq f) o ho hi l r (r.text ++ rest) (dropSpaces rest) _ (by simp) hrd
        (by rw [eqFollow_dropSpaces]; exact hfol), dropSpaces_idem]
    · -- a call `match(l, r)` / `search(l, r)`
      have hQ : ∀ (f K : Nat) (rest : Bytes), eqnSize (Eqn.bin o l r) ≤ f → eqnSize (Eqn.bin o l r) ≤ K →
          atomFollow rest = true → readEqValue (readEq f) K ((Eqn.bin o l r).text ++ rest) = some (Eqn.bin o l r, rest) := by
        intro f K rest hf hK _
        obtain ⟨K, rfl⟩ : ∃ k, K = k + 1 := ⟨K - 1, by simp [eqnSize] at hK; omega⟩
        simp only [eqnSize] at hf hK
        have h1 := eqnSize_pos l
        have h2 := eqnSize_pos r
        have hrl := (readEq_of_body l (eqnSize_le_text l hl) (ihl hl).2 f (44 :: 32 :: (r.text ++ 41 :: rest)) (by omega)
          (by simp [eqFollow, dropSpaces, peek])).1
        rw [dropSpaces_cons_ne _ (by decide)] at hrl
        have hrr := (readEq_of_body r (eqnSize_le_text r hr) (ihr hr).2 f (41 :: rest) (by omega)
          (by simp [eqFollow, dropSpaces, peek])).2
        rw [dropSpaces_cons_ne _ (by decide)] at hrr
        have hargs := fun o' => readOpArgs_two (readEq f) o' l r _ _ rest hrl hrr
        rcases ho with rfl | rfl
        · rw [text_match]
          have e : Gen.JpOps.op_match.name ++ 40 :: (l.text ++ 44 :: 32 :: (r.text ++ [41])) ++ rest =
              Gen.JpOps.op_match.name ++ 40 :: (l.text ++ 44 :: 32 :: (r.text ++ 41 :: rest)) := by
            simp [List.append_assoc]
          rw [e, readEqValue_match, hargs]
        · rw [text_search]
          have e : Gen.JpOps.op_search.name ++ 40 :: (l.text ++ 44 :: 32 :: (r.text ++ [41])) ++ rest =
              Gen.JpOps.op_search.name ++ 40 :: (l.text ++ 44 :: 32 :: (r.text ++ 41 :: rest)) := by
            simp [List.append_assoc]
          rw [e, readEqValue_search, hargs]
      exact ⟨fun _ => hQ, fun f K rest hf hK hr =>
        bodyK_of_atom _ _ _ rest K (hQ f K rest hf hK (atomFollow_of_eqFollow hr)) hr⟩

/-- **The equation reader reads the text of every raw chain back**, whatever its size: with fuel of more
than the number of nodes, `readEq` applied to the text of `c` followed by an equation terminator (also
after one leading space) returns `c` and the terminator with its leading spaces removed. (One more than
the number of nodes because the elements of a list constant are read as equations of their own.) -/
theorem readEq_text : ∀ (c : Eqn), c.raw = true → ∀ (f : Nat) (rest : Bytes), eqnSize c + 1 ≤ f → eqFollow rest = true →
    readEq f (c.text ++ rest) = some (c, dropSpaces rest) ∧
    readEq f (32 :: (c.text ++ rest)) = some (c, dropSpaces rest) :=
  fun c hraw f rest hf hr => readEq_of_body c (eqnSize_le_text c hraw) (readEq_core c hraw).2 f rest hf hr

/-- the fuel `parseEquation` and `parseExpr` use (length of the input + 1) is enough -/
theorem readEq_text_len (c : Eqn) (hraw : c.raw = true) (rest : Bytes) (hr : eqFollow rest = true) :
    readEq ((c.text ++ rest).length + 1) (c.text ++ rest) = some (c, dropSpaces rest) :=
  (readEq_text c hraw _ rest (by have := eqnSize_le_text c hraw; simp; omega) hr).1

theorem bodyK_spaces (rec : P Eqn) (K n : Nat) (bs : Bytes) :
    bodyK rec K (List.replicate n 32 ++ bs) = bodyK rec K bs := by
  induction n with
  | zero => rfl
  | succ n ih => rw [List.replicate_succ, List.cons_append, bodyK_space, ih]

/-- `readEq_text` after any number of leading spaces -/
theorem readEq_text_spaces (c : Eqn) (hraw : c.raw = true) (f : Nat) (rest : Bytes) (hf : eqnSize c + 1 ≤ f)
    (hr : eqFollow rest = true) (n : Nat) :
    readEq f (List.replicate n 32 ++ (c.text ++ rest)) = some (c, dropSpaces rest) := by
  have hlen := eqnSize_le_text c hraw
  obtain ⟨f, rfl⟩ : ∃ k, f = k + 1 := ⟨f - 1, by omega⟩
  simp only [readEq, readEqBody_eq]
  rw [bodyK_spaces]
  exact (readEq_core c hraw).2 f _ rest (by omega) (by simp; omega) hr

end OjgVerif.JPText
