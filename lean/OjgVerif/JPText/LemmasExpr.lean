import OjgVerif.JPText.LemmasFrag
/-! # C14 lemmas: filter-free expressions round-trip

`roundTripsExpr_clean`: the fragment loop of `readExpr` over `Expr.Append`'s text, for every
expression built from Root/At (first), children with any key, indexes, wildcards, descents (dot
form, before a token child, a wildcard or the end), unions and slices — `cleanExpr`;
`cleanExpr_of_spec`: that is implied by "constructible, no filter fragment, no deviation named by
Spec.lean". -/
namespace OjgVerif.JPText
open OjgVerif

/-- may follow a Descent in dot-form text: a token child or a wildcard -/
def Frag.dotStart : Frag → Bool
  | .child k => tokenOk k
  | .wild h => !h
  | _ => false

def UMem.goodB : UMem → Bool
  | .key s => s.all fun c => c != 39 && c != 92
  | .idx i => inInt64 i

/-- a fragment (other than Root, At, Descent, Filter) of a constructible expression without a named deviation -/
def Frag.clean (br : Bool) : Frag → Bool
  | .child k => (!br && tokenOk k) || utf8Ok k
  | .nth i => inInt64 i && decide (i ≠ minInt)
  | .wild h => !h
  | .union ms => decide (2 ≤ ms.length) && ms.all UMem.goodB
  | .slice ns => ns.all inInt64
  | _ => false

/-- the fragments after an optional leading Root/At -/
def cleanTail (br : Bool) : List Frag → Bool
  | [] => true
  | .descent :: r =>
    !br && (match r with
            | [] => true
            | g :: _ => g.dotStart) && cleanTail br r
  | f :: r => f.clean br && cleanTail br r

def cleanExpr (br : Bool) : List Frag → Bool
  | [] => true
  | f :: r => if f.isRootAt then cleanTail br r else cleanTail br (f :: r)

/-- what the parser builds for the printed fragment -/
def Frag.img (br : Bool) : Frag → Frag
  | .wild _ => .wild br
  | .slice ns => .slice (normSlice ns)
  | f => f

def imgL (br : Bool) : List Frag → List Frag
  | [] => []
  | f :: r => f.img br :: imgL br r

/-- the text of the fragments from some position on -/
def restText (br fl : Bool) (x : List Frag) : Bytes :=
  Frag.printL br fl x ++ (if lastIsDescent x then [46] else [])

theorem UMem.good_of_goodB {m : UMem} (h : m.goodB = true) : m.good := by
  cases m with
  | key s =>
    simp only [UMem.goodB, List.all_eq_true, Bool.and_eq_true, bne_iff_ne, ne_eq] at h
    exact h
  | idx i => exact h

theorem lastIsDescent_cons2 (f g : Frag) (r : List Frag) : lastIsDescent (f :: g :: r) = lastIsDescent (g :: r) := rfl

theorem restText_cons (br fl : Bool) (f : Frag) (r : List Frag) (hd : f.isDescent = false) :
    restText br fl (f :: r) = f.print br fl ++ restText br false r := by
  cases r with
  | nil => simp [restText, Frag.printL, lastIsDescent, hd]
  | cons g r => simp [restText, Frag.printL, lastIsDescent_cons2]; rfl

theorem restText_descent (fl : Bool) (r : List Frag) :
    restText false fl (.descent :: r) = 46 :: (if r = [] then [46] else restText false false r) := by
  cases r with
  | nil => simp [restText, Frag.printL, Frag.print, lastIsDescent, Frag.isDescent]
  | cons g r => simp [restText, Frag.printL, Frag.print, lastIsDescent_cons2]; rfl

theorem nthPrint_head (i : Int) : ∃ t, nthPrint i = 91 :: t := ⟨_, rfl⟩

/-- the text after a fragment starts with a dot or a bracket, or is empty -/
theorem follower_restText (br : Bool) (r : List Frag) (h : cleanTail br r = true) :
    followerOK (restText br false r) = true := by
  cases r with
  | nil => simp [restText, Frag.printL, lastIsDescent, followerOK]
  | cons g r =>
    cases g with
    | descent =>
      simp only [cleanTail, Bool.and_eq_true, Bool.not_eq_true'] at h
      have hb : br = false := h.1.1
      subst hb
      rw [restText_descent]; rfl
    | child k =>
      rw [restText_cons _ _ _ _ rfl]
      simp only [Frag.print, childPrint]
      split
      · rfl
      · simp [followerOK]
    | nth i => rw [restText_cons _ _ _ _ rfl]; rfl
    | wild hh =>
      rw [restText_cons _ _ _ _ rfl]
      simp only [Frag.print]
      split
      · rfl
      · simp [followerOK]
    | union ms => rw [restText_cons _ _ _ _ rfl]; rfl
    | slice ns =>
      rw [restText_cons _ _ _ _ rfl]
      simp only [Frag.print]
      match ns with
      | [] => rfl
      | [_] => rfl
      | [_, _] => rfl
      | _ :: _ :: _ :: _ => rfl
    | root => simp [cleanTail, Frag.clean] at h
    | «at» => simp [cleanTail, Frag.clean] at h
    | filter t => simp [cleanTail, Frag.clean] at h


theorem nextFrag_bracket (pf : P (List Item)) (fl lastD : Bool) (t : Bytes) (f : Frag) (T : Bytes)
    (h : afterBracket pf t = some (f, T)) : nextFrag pf fl lastD (91 :: t) = some (some f, T) := by
  simp [nextFrag, h]

/-- one clean fragment is read back -/
theorem nextFrag_clean (pf : P (List Item)) (br fl : Bool) (f : Frag) (T : Bytes) (hc : f.clean br = true)
    (hT : followerOK T = true) :
    nextFrag pf fl false (f.print br fl ++ T) = some (some (f.img br), T) := by
  cases f with
  | child k =>
    simp only [Frag.clean, Bool.or_eq_true, Bool.and_eq_true, Bool.not_eq_true'] at hc
    simp only [Frag.print, childPrint, Frag.img]
    by_cases hq : (br || !tokenOk k) = true
    · have hu : utf8Ok k = true := by
        rcases hc with h | h
        · simp [h.1, h.2] at hq
        · exact h
      simp only [hq, ↓reduceIte]
      have e : 91 :: (appendString k 39 ++ [93]) ++ T = 91 :: (appendString k 39 ++ 93 :: T) := by simp
      rw [e]
      exact nextFrag_bracket pf fl false _ _ _ (afterBracket_child pf k T hu)
    · simp only [hq, Bool.false_eq_true, ↓reduceIte]
      have htok : tokenOk k = true := by
        cases hb : br <;> cases ht : tokenOk k <;> simp [hb, ht] at hq ⊢
      cases fl with
      | true => simpa using nextFrag_child_bare pf true false k T htok hT (Or.inl rfl)
      | false => simpa using nextFrag_child_dot pf false false k T htok hT
  | nth i =>
    simp only [Frag.clean, Bool.and_eq_true, decide_eq_true_eq] at hc
    simp only [Frag.print, Frag.img, nthPrint_eq i hc.1 hc.2]
    have e : 91 :: (fmtInt i ++ [93]) ++ T = 91 :: (fmtInt i ++ 93 :: T) := by simp
    rw [e]
    exact nextFrag_bracket pf fl false _ _ _ (afterBracket_nth pf i hc.1 T)
  | wild hh =>
    simp only [Frag.clean, Bool.not_eq_true'] at hc
    subst hc
    cases br with
    | true =>
      simp only [Frag.print, Frag.img, Bool.or_false, ↓reduceIte]
      exact nextFrag_bracket pf fl false _ _ _ (afterBracket_wild pf T)
    | false =>
      cases fl <;> simp [Frag.print, Frag.img, nextFrag, afterDot]
  | union ms =>
    simp only [Frag.clean, Bool.and_eq_true, decide_eq_true_eq, List.all_eq_true] at hc
    obtain ⟨t, h1, h2⟩ := afterBracket_union pf ms hc.1 (fun m hm => UMem.good_of_goodB (hc.2 m hm)) T
    simp only [Frag.print, Frag.img, h1]
    exact nextFrag_bracket pf fl false _ _ _ h2
  | slice ns =>
    simp only [Frag.clean] at hc
    obtain ⟨t, h1, h2⟩ := afterBracket_slice pf ns hc T
    simp only [Frag.print, Frag.img, h1]
    exact nextFrag_bracket pf fl false _ _ _ h2
  | root => simp [Frag.clean] at hc
  | «at» => simp [Frag.clean] at hc
  | descent => simp [Frag.clean] at hc
  | filter t => simp [Frag.clean] at hc

theorem Frag.print_ne_nil (br fl : Bool) (f : Frag) (hc : f.clean br = true) : 1 ≤ (f.print br fl).length := by
  cases f with
  | child k =>
    simp only [Frag.clean, Bool.or_eq_true, Bool.and_eq_true, Bool.not_eq_true'] at hc
    simp only [Frag.print, childPrint]
    split
    · simp
    · rename_i hq
      have htok : tokenOk k = true := by
        cases hb : br <;> cases ht : tokenOk k <;> simp [hb, ht] at hq ⊢
      have := ((tokenOk_iff k).mp htok).2
      cases k with
      | nil => exact absurd rfl this
      | cons c k => split <;> simp
  | nth i => simp [Frag.print, nthPrint]
  | wild hh => simp only [Frag.print]; split <;> (try split) <;> simp
  | union ms => simp [Frag.print, unionPrint]
  | slice ns =>
    simp only [Frag.print]
    match ns with
    | [] => simp [slicePrint]
    | [_] => simp [slicePrint]
    | [_, _] => simp [slicePrint]
    | _ :: _ :: _ :: _ => simp [slicePrint]
  | root => simp [Frag.clean] at hc
  | «at» => simp [Frag.clean] at hc
  | descent => simp [Frag.clean] at hc
  | filter t => simp [Frag.clean] at hc

theorem img_isDescent (br : Bool) (f : Frag) (hc : f.clean br = true) : (f.img br).isDescent = false := by
  cases f <;> simp [Frag.clean] at hc <;> rfl

/-- the fragment loop of `readExpr` over the text of clean fragments -/
theorem readExprLoop_clean (pf : P (List Item)) (br : Bool) : ∀ (len : Nat) (x : List Frag), x.length = len →
    ∀ (fl : Bool) (n : Nat), cleanTail br x = true → (restText br fl x).length < n →
    readExprLoop pf n fl false (restText br fl x) = some (imgL br x, []) := by
  intro len
  induction len using Nat.strongRecOn with
  | _ len ih =>
    intro x hlen fl n hcl hn
    cases x with
    | nil =>
      cases n with
      | zero => simp at hn
      | succ n => simp [restText, Frag.printL, lastIsDescent, readExprLoop, nextFrag, imgL]
    | cons f r =>
      cases n with
      | zero => simp at hn
      | succ n =>
      by_cases hd : f.isDescent = true
      · -- a descent takes the dot of what follows
        cases f <;> simp [Frag.isDescent] at hd
        simp only [cleanTail, Bool.and_eq_true, Bool.not_eq_true'] at hcl
        have hb : br = false := hcl.1.1
        subst hb
        rw [restText_descent] at hn ⊢
        cases r with
        | nil =>
          simp only [↓reduceIte] at hn ⊢
          cases n with
          | zero => simp at hn
          | succ n =>
            simp [readExprLoop, nextFrag, afterDot, consFst, imgL, Frag.img]
        | cons g r' =>
          have hg : g.dotStart = true := hcl.1.2
          have hcl2 : cleanTail false (g :: r') = true := hcl.2
          simp only [reduceCtorEq, ↓reduceIte] at hn ⊢
          cases g with
          | child k =>
            have htok : tokenOk k = true := hg
            have hcl3 : cleanTail false r' = true := by
              simp only [cleanTail, Bool.and_eq_true] at hcl2; exact hcl2.2
            have hT := follower_restText false r' hcl3
            rw [restText_cons _ _ _ _ rfl] at hn ⊢
            have hp : Frag.print false false (.child k) = 46 :: k := by
              simp [Frag.print, childPrint, htok]
            rw [hp] at hn ⊢
            cases n with
            | zero => simp at hn
            | succ n =>
              have h1 : nextFrag pf fl false (46 :: (46 :: k ++ restText false false r')) =
                  some (some .descent, k ++ restText false false r') := by
                simp [nextFrag, afterDot]
              have h2 := nextFrag_child_bare pf false true k _ htok hT (Or.inr rfl)
              have h3 := ih r'.length (by simp at hlen; omega) r' rfl false n hcl3
                (by simp only [List.length_cons, List.length_append] at hn; omega)
              simp only [readExprLoop, h1, Frag.isDescent, h2, h3, consFst, imgL, Frag.img]
          | wild hh =>
            have hh' : hh = false := by simpa [Frag.dotStart] using hg
            subst hh'
            have hcl3 : cleanTail false r' = true := by
              simp only [cleanTail, Bool.and_eq_true] at hcl2; exact hcl2.2
            rw [restText_cons _ _ _ _ rfl] at hn ⊢
            have hp : Frag.print false false (.wild false) = [46, 42] := by simp [Frag.print]
            rw [hp] at hn ⊢
            cases n with
            | zero => simp at hn
            | succ n =>
              have h1 : nextFrag pf fl false (46 :: ([46, 42] ++ restText false false r')) =
                  some (some .descent, 42 :: restText false false r') := by
                simp [nextFrag, afterDot]
              have h2 : nextFrag pf false true (42 :: restText false false r') =
                  some (some (.wild false), restText false false r') := by
                simp [nextFrag]
              have h3 := ih r'.length (by simp at hlen; omega) r' rfl false n hcl3
                (by simp only [List.length_cons, List.length_append] at hn; omega)
              simp only [readExprLoop, h1, Frag.isDescent, h2, h3, consFst, imgL, Frag.img]
          | root => simp [Frag.dotStart] at hg
          | «at» => simp [Frag.dotStart] at hg
          | nth i => simp [Frag.dotStart] at hg
          | descent => simp [Frag.dotStart] at hg
          | union ms => simp [Frag.dotStart] at hg
          | slice ns => simp [Frag.dotStart] at hg
          | filter t => simp [Frag.dotStart] at hg
      · have hd' : f.isDescent = false := by simpa using hd
        have hcf : f.clean br = true ∧ cleanTail br r = true := by
          cases f <;> simp_all [cleanTail, Frag.isDescent]
        have hT := follower_restText br r hcf.2
        rw [restText_cons _ _ _ _ hd'] at hn ⊢
        have h1 := nextFrag_clean pf br fl f _ hcf.1 hT
        have hl := Frag.print_ne_nil br fl f hcf.1
        have h3 := ih r.length (by simp at hlen; omega) r rfl false n hcf.2
          (by simp only [List.length_append] at hn; omega)
        simp only [readExprLoop, h1, img_isDescent br f hcf.1, h3, consFst, imgL]


theorem restText_eq_exprPrint (br : Bool) (x : List Frag) : restText br true x = exprPrint br x := rfl

theorem img_isDescent_eq (br : Bool) (f : Frag) : (f.img br).isDescent = f.isDescent := by
  cases f <;> rfl

theorem readExprLoop_step (pf : P (List Item)) (n : Nat) (fl lastD : Bool) (bs : Bytes) (f : Frag) (rest : Bytes)
    (h : nextFrag pf fl lastD bs = some (some f, rest)) :
    readExprLoop pf (n + 1) fl lastD bs = consFst f (readExprLoop pf n false f.isDescent rest) := by
  simp [readExprLoop, h]

/-- **Filter-free expressions are read back.** -/
theorem parseExpr_print (br : Bool) (x : List Frag) (h : cleanExpr br x = true) :
    parseExpr (exprPrint br x) = some (imgL br x) := by
  have key : ∀ pf : P (List Item), readExpr pf (exprPrint br x) = some (imgL br x, []) := by
    intro pf
    unfold readExpr
    cases x with
    | nil => simp [exprPrint, Frag.printL, lastIsDescent, readExprLoop, nextFrag, imgL]
    | cons f r =>
      simp only [cleanExpr] at h
      by_cases hra : f.isRootAt = true
      · simp only [hra, ↓reduceIte] at h
        have hd : f.isDescent = false := by cases f <;> simp [Frag.isRootAt] at hra <;> rfl
        rw [← restText_eq_exprPrint, restText_cons _ _ _ _ hd]
        have h3 := readExprLoop_clean pf br r.length r rfl false ((restText br false r).length + 1) h (by omega)
        have hn : nextFrag pf true false (f.print br true ++ restText br false r) =
            some (some (f.img br), restText br false r) := by
          cases f <;> simp [Frag.isRootAt] at hra <;> simp [Frag.print, nextFrag, Frag.img]
        have hl : (f.print br true ++ restText br false r).length + 1 = ((restText br false r).length + 1) + 1 := by
          cases f <;> simp [Frag.isRootAt] at hra <;> simp [Frag.print]
        have hid : (f.img br).isDescent = false := by rw [img_isDescent_eq]; exact hd
        rw [hl, readExprLoop_step pf _ true false _ _ _ hn, hid, h3]
        rfl
      · simp only [hra, Bool.false_eq_true, ↓reduceIte] at h
        rw [← restText_eq_exprPrint]
        exact readExprLoop_clean pf br (f :: r).length (f :: r) rfl true _ h (by omega)
  simp only [parseExpr, key]

theorem img_print (br fl : Bool) (f : Frag) (hc : f.clean br = true ∨ f.isRootAt = true ∨ f.isDescent = true) :
    (f.img br).print br fl = f.print br fl := by
  cases f with
  | wild hh =>
    rcases hc with h | h | h
    · simp only [Frag.clean, Bool.not_eq_true'] at h
      subst h
      cases br <;> simp [Frag.img, Frag.print]
    · simp [Frag.isRootAt] at h
    · simp [Frag.isDescent] at h
  | slice ns =>
    simp only [Frag.img, Frag.print]
    match ns with
    | [] => simp [normSlice, slicePrint, sliceStart, sliceEnd]
    | [a] => simp [normSlice, slicePrint, sliceEnd]
    | [a, b] => simp [normSlice]
    | a :: b :: c :: r => simp [normSlice, slicePrint]
  | root => rfl
  | «at» => rfl
  | child k => rfl
  | nth i => rfl
  | descent => rfl
  | union ms => rfl
  | filter t => rfl

theorem img_norm (br : Bool) (f : Frag) : (f.img br).norm = f.norm := by
  cases f with
  | wild hh => simp [Frag.img, Frag.norm]
  | slice ns =>
    simp only [Frag.img, Frag.norm]
    match ns with
    | [] => rfl
    | [a] => rfl
    | [a, b] => rfl
    | a :: b :: c :: r => rfl
  | root => rfl
  | «at» => rfl
  | child k => rfl
  | nth i => rfl
  | descent => rfl
  | union ms => rfl
  | filter t => rfl

theorem imgL_normL (br : Bool) (x : List Frag) : Frag.normL (imgL br x) = Frag.normL x := by
  induction x with
  | nil => rfl
  | cons f r ih => simp [imgL, Frag.normL, img_norm, ih]

theorem imgL_lastIsDescent (br : Bool) (x : List Frag) : lastIsDescent (imgL br x) = lastIsDescent x := by
  induction x with
  | nil => rfl
  | cons f r ih =>
    cases r with
    | nil => simp [imgL, lastIsDescent, img_isDescent_eq]
    | cons g r' =>
      have : imgL br (f :: g :: r') = f.img br :: g.img br :: imgL br r' := rfl
      rw [this, lastIsDescent_cons2, lastIsDescent_cons2]
      exact ih

theorem cleanTail_frag (br : Bool) (f : Frag) (r : List Frag) (h : cleanTail br (f :: r) = true) :
    (f.clean br = true ∨ f.isRootAt = true ∨ f.isDescent = true) ∧ cleanTail br r = true := by
  cases f with
  | descent =>
    simp only [cleanTail, Bool.and_eq_true] at h
    exact ⟨Or.inr (Or.inr rfl), h.2⟩
  | root => simp [cleanTail, Frag.clean] at h
  | «at» => simp [cleanTail, Frag.clean] at h
  | filter t => simp [cleanTail, Frag.clean] at h
  | child k => simp only [cleanTail, Bool.and_eq_true] at h; exact ⟨Or.inl h.1, h.2⟩
  | nth i => simp only [cleanTail, Bool.and_eq_true] at h; exact ⟨Or.inl h.1, h.2⟩
  | wild hh => simp only [cleanTail, Bool.and_eq_true] at h; exact ⟨Or.inl h.1, h.2⟩
  | union ms => simp only [cleanTail, Bool.and_eq_true] at h; exact ⟨Or.inl h.1, h.2⟩
  | slice ns => simp only [cleanTail, Bool.and_eq_true] at h; exact ⟨Or.inl h.1, h.2⟩

theorem imgL_printL (br : Bool) : ∀ (x : List Frag) (fl : Bool), cleanTail br x = true →
    Frag.printL br fl (imgL br x) = Frag.printL br fl x := by
  intro x
  induction x with
  | nil => intro _ _; rfl
  | cons f r ih =>
    intro fl h
    obtain ⟨h1, h2⟩ := cleanTail_frag br f r h
    simp [imgL, Frag.printL, img_print br fl f h1, ih false h2]

theorem exprPrint_imgL (br : Bool) (x : List Frag) (h : cleanExpr br x = true) :
    exprPrint br (imgL br x) = exprPrint br x := by
  unfold exprPrint
  rw [imgL_lastIsDescent]
  cases x with
  | nil => rfl
  | cons f r =>
    simp only [cleanExpr] at h
    by_cases hra : f.isRootAt = true
    · simp only [hra, ↓reduceIte] at h
      simp [imgL, Frag.printL, img_print br true f (Or.inr (Or.inl hra)), imgL_printL br r false h]
    · simp only [hra, Bool.false_eq_true, ↓reduceIte] at h
      rw [imgL_printL br (f :: r) true h]

/-- **C14 for filter-free expressions, partial form.** A constructible expression without filter
fragments and without a named deviation round-trips in the text form `br`: the printed text is
accepted, the re-parsed expression prints identically, and it is the same expression up to the
normal form. -/
theorem roundTripsExpr_clean (br : Bool) (x : List Frag) (h : cleanExpr br x = true) :
    roundTripsExpr br x = true := by
  simp only [roundTripsExpr, parseExpr_print br x h, exprPrint_imgL br x h, beq_self_eq_true, Bool.true_and,
    sameExpr, imgL_normL]


/-! ## from the predicates of Spec.lean -/

def noFilter : List Frag → Bool
  | [] => true
  | .filter _ :: _ => false
  | _ :: r => noFilter r

theorem addIf_nil {c : Bool} {d : Dev} {l : List Dev} (h : addIf c d l = []) : c = false ∧ l = [] := by
  cases c <;> simp_all [addIf]

theorem goodB_of (m : UMem) (hok : m.ok = true) (hb : m.badKey = false) : m.goodB = true := by
  cases m with
  | key s =>
    simp only [UMem.badKey, List.any_eq_false, Bool.or_eq_true, decide_eq_true_eq, not_or] at hb
    simp only [UMem.goodB, List.all_eq_true, Bool.and_eq_true, bne_iff_ne, ne_eq]
    exact hb
  | idx i => exact hok

theorem clean_of_spec (br : Bool) (f : Frag) (hok : f.ok = true) (hdev : f.devs br = [])
    (h1 : f.isRootAt = false) (h2 : f.isDescent = false) (h3 : noFilter [f] = true) : f.clean br = true := by
  cases f with
  | child k =>
    simp only [Frag.devs] at hdev
    have := (addIf_nil hdev).1
    cases hb : br <;> cases ht : tokenOk k <;> cases hu : utf8Ok k <;> simp_all [Frag.clean]
  | nth i =>
    simp only [Frag.devs] at hdev
    have := (addIf_nil hdev).1
    simp only [Frag.ok] at hok
    simp only [Frag.clean, hok, Bool.true_and, decide_eq_true_eq]
    simpa using this
  | wild hh => simpa [Frag.ok, Frag.clean] using hok
  | union ms =>
    simp only [Frag.devs] at hdev
    obtain ⟨d1, d2⟩ := addIf_nil hdev
    have d3 := (addIf_nil d2).1
    simp only [Frag.ok, List.all_eq_true] at hok
    simp only [List.any_eq_false] at d3
    simp only [Frag.clean, Bool.and_eq_true, decide_eq_true_eq, List.all_eq_true]
    refine ⟨by simpa using d1, fun m hm => goodB_of m (hok m hm) ?_⟩
    have := d3 m hm
    simpa using this
  | slice ns => exact hok
  | root => simp [Frag.isRootAt] at h1
  | «at» => simp [Frag.isRootAt] at h1
  | descent => simp [Frag.isDescent] at h2
  | filter t => simp [noFilter] at h3

theorem devDescentL_cons (br : Bool) (f : Frag) (r : List Frag) (h : f.isDescent = false) :
    devDescentL br (f :: r) = devDescentL br r := by
  cases f <;> simp [Frag.isDescent] at h <;> rfl

theorem noFilter_cons (f : Frag) (r : List Frag) (h : noFilter (f :: r) = true) :
    noFilter [f] = true ∧ noFilter r = true := by
  cases f <;> simp_all [noFilter]

theorem dotStart_of (g : Frag) (h1 : g.bracketForm = false) (h2 : g.isDescent = false) (h3 : g.isRootAt = false) :
    g.dotStart = true := by
  cases g <;> simp_all [Frag.bracketForm, Frag.isDescent, Frag.isRootAt, Frag.dotStart]

theorem cleanTail_of_spec (br : Bool) : ∀ r : List Frag, Frag.okL r = true → noFilter r = true →
    r.any Frag.isRootAt = false → devDescentL br r = false → Frag.devsL br r = [] → cleanTail br r = true := by
  intro r
  induction r with
  | nil => intros; rfl
  | cons f r ih =>
    intro hok hnf hra hdd hdev
    simp only [Frag.okL, Bool.and_eq_true] at hok
    simp only [List.any_cons, Bool.or_eq_false_iff] at hra
    simp only [Frag.devsL, List.append_eq_nil_iff] at hdev
    obtain ⟨hnf1, hnf2⟩ := noFilter_cons f r hnf
    by_cases hd : f.isDescent = true
    · cases f <;> simp [Frag.isDescent] at hd
      simp only [devDescentL, Bool.or_eq_false_iff] at hdd
      have hb : br = false := hdd.1.1
      have ht := ih hok.2 hnf2 hra.2 hdd.2 hdev.2
      simp only [cleanTail, hb, Bool.not_false, Bool.true_and, Bool.and_eq_true]
      rw [hb] at ht
      refine ⟨?_, ht⟩
      cases r with
      | nil => rfl
      | cons g r' =>
        have hg := hdd.1.2
        simp only [Bool.or_eq_false_iff] at hg
        simp only [List.any_cons, Bool.or_eq_false_iff] at hra
        exact dotStart_of g hg.1 hg.2 hra.2.1
    · have hd' : f.isDescent = false := by simpa using hd
      rw [devDescentL_cons br f r hd'] at hdd
      have hc := clean_of_spec br f hok.1 hdev.1 hra.1 hd' hnf1
      have ht := ih hok.2 hnf2 hra.2 hdd hdev.2
      cases f <;> simp_all [cleanTail, Frag.isDescent]

/-- the hypotheses of the partial theorem in the words of Spec.lean: constructible, no filter
fragment, no named deviation -/
theorem cleanExpr_of_spec (br : Bool) (x : List Frag) (hok : Frag.okL x = true) (hnf : noFilter x = true)
    (hdev : devsExpr br x = []) : cleanExpr br x = true := by
  simp only [devsExpr] at hdev
  obtain ⟨hdd, h2⟩ := addIf_nil hdev
  obtain ⟨hra, hdl⟩ := addIf_nil h2
  cases x with
  | nil => rfl
  | cons f r =>
    simp only [devRootAtL] at hra
    simp only [cleanExpr]
    by_cases hf : f.isRootAt = true
    · simp only [hf, ↓reduceIte]
      have hd : f.isDescent = false := by cases f <;> simp [Frag.isRootAt] at hf <;> rfl
      rw [devDescentL_cons br f r hd] at hdd
      simp only [Frag.okL, Bool.and_eq_true] at hok
      simp only [Frag.devsL, List.append_eq_nil_iff] at hdl
      exact cleanTail_of_spec br r hok.2 (noFilter_cons f r hnf).2 hra hdd hdl.2
    · simp only [hf, Bool.false_eq_true, ↓reduceIte]
      have hf' : f.isRootAt = false := by simpa using hf
      exact cleanTail_of_spec br (f :: r) hok hnf (by simp [hf', hra]) hdd hdl

end OjgVerif.JPText
