import OjgVerif.JPText.LemmasFrag
/-! # C14 lemmas: filter-free expressions round-trip

`roundTripsExpr_clean`: the fragment loop of `readExpr` over `Expr.Append`'s text (as it is since
bc70af1, 4af356a, c107b3b), for every expression built from Root/At (first), children with ANY key, any
int64 index, wildcards, descents ANYWHERE and in both text forms, unions of two or more members with any
member bytes, slices of every shape — `cleanExpr`; `cleanExpr_of_spec`: that is implied by
"constructible, no filter fragment, no deviation named by Spec.lean" (what remains named: Root/At after
the first position, a union of fewer than two members). -/
namespace OjgVerif.JPText
open OjgVerif

def UMem.goodB : UMem → Bool
  | .key _ => true
  | .idx i => inInt64 i

/-- a fragment (other than Root, At, Filter) of a constructible expression without a named deviation -/
def Frag.clean : Frag → Bool
  | .child _ => true
  | .nth i => inInt64 i
  | .wild h => !h
  | .descent => true
  | .union ms => decide (2 ≤ ms.length) && ms.all UMem.goodB
  | .slice ns => ns.all inInt64
  | _ => false

/-- the fragments after an optional leading Root/At -/
def cleanTail : List Frag → Bool
  | [] => true
  | f :: r => f.clean && cleanTail r

def cleanExpr : List Frag → Bool
  | [] => true
  | f :: r => if f.isRootAt then cleanTail r else cleanTail (f :: r)

/-- what the parser builds for the printed fragment -/
def Frag.img (br : Bool) : Frag → Frag
  | .wild _ => .wild br
  | .slice ns => .slice (normSlice ns)
  | f => f

def imgL (br : Bool) : List Frag → List Frag
  | [] => []
  | f :: r => f.img br :: imgL br r

/-- the text the parser still has to read when it has just read a Descent (`lastD`) or not: `printL`
without the second dot of a dot-form descent, which `afterDot` has consumed with the first -/
def restText (br fl lastD : Bool) : List Frag → Bytes
  | [] => []
  | f :: r => f.print br (fl || (lastD && !br)) ++ Frag.printL br false (f.isDescent && !br) r

theorem UMem.good_of_goodB {m : UMem} (h : m.goodB = true) : m.good := by
  cases m with
  | key s => trivial
  | idx i => exact h

theorem printL_eq (br fl aD : Bool) (x : List Frag) :
    Frag.printL br fl aD x = (if aD then [46] else []) ++ restText br fl aD x ∨ br = true ∧ aD = true := by
  cases br with
  | true => cases aD with
    | true => exact Or.inr ⟨rfl, rfl⟩
    | false => left; cases x <;> simp [Frag.printL, restText]
  | false =>
    left
    cases x with
    | nil => cases aD <;> simp [Frag.printL, restText]
    | cons f r => cases aD <;> simp [Frag.printL, restText]

theorem printL_noDescent (br : Bool) (x : List Frag) : Frag.printL br false false x = restText br false false x := by
  cases x <;> simp [Frag.printL, restText]

theorem printL_afterDot (x : List Frag) : Frag.printL false false true x = 46 :: restText false false true x := by
  cases x <;> simp [Frag.printL, restText]

theorem restText_br (fl lastD : Bool) (x : List Frag) : restText true fl lastD x = restText true fl false x := by
  cases x with
  | nil => rfl
  | cons f r => simp only [restText, Bool.not_true, Bool.and_false]

/-- the text after a fragment starts with a dot or a bracket, or is empty -/
theorem follower_restText (br : Bool) (r : List Frag) (h : cleanTail r = true) :
    followerOK (restText br false false r) = true := by
  cases r with
  | nil => rfl
  | cons g r =>
    simp only [restText, Bool.false_and, Bool.or_false]
    cases g with
    | descent => cases br <;> rfl
    | child k =>
      simp only [Frag.print, childPrint]
      split
      · rfl
      · simp [followerOK]
    | nth i => rfl
    | wild hh =>
      simp only [Frag.print]
      split
      · rfl
      · simp [followerOK]
    | union ms => rfl
    | slice ns =>
      simp only [Frag.print]
      match ns with
      | [] => rfl
      | [_] => rfl
      | [_, _] => rfl
      | _ :: _ :: _ :: _ => rfl
    | root => simp [cleanTail, Frag.clean] at h
    | «at» => simp [cleanTail, Frag.clean] at h
    | filter t => simp [cleanTail, Frag.clean] at h

theorem nextFrag_bracket (pf : P (List Item)) (fl lastD : Bool) (t : Bytes) (f : Frag) (T : Bytes)
    (h : afterBracket pf t = some (f, T)) : nextFrag pf fl lastD (91 :: t) = some (some f, T) := by
  simp [nextFrag, h]

/-- one clean fragment other than a Descent is read back; `lastD`: a Descent has just been read -/
theorem nextFrag_clean (pf : P (List Item)) (br fl lastD : Bool) (f : Frag) (T : Bytes) (hc : f.clean = true)
    (hd : f.isDescent = false) (hT : followerOK T = true) :
    nextFrag pf fl lastD (f.print br (fl || (lastD && !br)) ++ T) = some (some (f.img br), T) := by
  cases f with
  | child k =>
    simp only [Frag.print, childPrint, Frag.img]
    by_cases hq : (br || !tokenOk k) = true
    · simp only [hq, ↓reduceIte]
      have e : 91 :: (appendString k 39 ++ [93]) ++ T = 91 :: (appendString k 39 ++ 93 :: T) := by simp
      rw [e]
      exact nextFrag_bracket pf fl lastD _ _ _ (afterBracket_child pf k T)
    · simp only [hq, Bool.false_eq_true, ↓reduceIte]
      have hbr : br = false := by cases hb : br <;> simp [hb] at hq ⊢
      have htok : tokenOk k = true := by
        cases ht : tokenOk k <;> simp [hbr, ht] at hq ⊢
      subst hbr
      by_cases hfl : (fl || (lastD && !false)) = true
      · simp only [hfl, ↓reduceIte]
        have : fl = true ∨ lastD = true := by
          cases fl <;> cases lastD <;> simp at hfl ⊢
        exact nextFrag_child_bare pf fl lastD k T htok hT this
      · simp only [hfl, Bool.false_eq_true, ↓reduceIte]
        simpa using nextFrag_child_dot pf fl lastD k T htok hT
  | nth i =>
    simp only [Frag.clean] at hc
    simp only [Frag.print, Frag.img, nthPrint_eq i]
    have e : 91 :: (fmtInt i ++ [93]) ++ T = 91 :: (fmtInt i ++ 93 :: T) := by simp
    rw [e]
    exact nextFrag_bracket pf fl lastD _ _ _ (afterBracket_nth pf i hc T)
  | wild hh =>
    simp only [Frag.clean, Bool.not_eq_true'] at hc
    subst hc
    cases br with
    | true =>
      simp only [Frag.print, Frag.img, Bool.or_false, ↓reduceIte]
      exact nextFrag_bracket pf fl lastD _ _ _ (afterBracket_wild pf T)
    | false =>
      cases fl <;> cases lastD <;> simp [Frag.print, Frag.img, nextFrag, afterDot]
  | union ms =>
    simp only [Frag.clean, Bool.and_eq_true, decide_eq_true_eq, List.all_eq_true] at hc
    obtain ⟨t, h1, h2⟩ := afterBracket_union pf ms hc.1 (fun m hm => UMem.good_of_goodB (hc.2 m hm)) T
    simp only [Frag.print, Frag.img, h1]
    exact nextFrag_bracket pf fl lastD _ _ _ h2
  | slice ns =>
    simp only [Frag.clean] at hc
    obtain ⟨t, h1, h2⟩ := afterBracket_slice pf ns hc T
    simp only [Frag.print, Frag.img, h1]
    exact nextFrag_bracket pf fl lastD _ _ _ h2
  | root => simp [Frag.clean] at hc
  | «at» => simp [Frag.clean] at hc
  | descent => simp [Frag.isDescent] at hd
  | filter t => simp [Frag.clean] at hc

theorem Frag.print_ne_nil (br fl : Bool) (f : Frag) (hc : f.clean = true) : 1 ≤ (f.print br fl).length := by
  cases f with
  | child k =>
    simp only [Frag.print, childPrint]
    split
    · simp
    · rename_i hq
      have htok : tokenOk k = true := by
        cases hb : br <;> cases ht : tokenOk k <;> simp [hb, ht] at hq ⊢
      have := ((tokenOk_iff k).mp htok).2
      cases k with
      | nil => exact absurd rfl this
      | cons c k => split <;> simp
  | nth i => simp [Frag.print, nthPrint]
  | wild hh => simp only [Frag.print]; split <;> (try split) <;> simp
  | union ms => simp [Frag.print, unionPrint]
  | slice ns =>
    simp only [Frag.print]
    match ns with
    | [] => simp [slicePrint]
    | [_] => simp [slicePrint]
    | [_, _] => simp [slicePrint]
    | _ :: _ :: _ :: _ => simp [slicePrint]
  | descent => simp only [Frag.print]; split <;> simp
  | root => simp [Frag.clean] at hc
  | «at» => simp [Frag.clean] at hc
  | filter t => simp [Frag.clean] at hc

theorem img_isDescent_eq (br : Bool) (f : Frag) : (f.img br).isDescent = f.isDescent := by
  cases f <;> rfl

theorem readExprLoop_step (pf : P (List Item)) (n : Nat) (fl lastD : Bool) (bs : Bytes) (f : Frag) (rest : Bytes)
    (h : nextFrag pf fl lastD bs = some (some f, rest)) :
    readExprLoop pf (n + 1) fl lastD bs = consFst f (readExprLoop pf n false f.isDescent rest) := by
  simp [readExprLoop, h]

/-- the fragment loop of `readExpr` over the text of clean fragments -/
theorem readExprLoop_clean (pf : P (List Item)) (br : Bool) : ∀ (x : List Frag) (fl lastD : Bool) (n : Nat),
    cleanTail x = true → (restText br fl lastD x).length < n →
    readExprLoop pf n fl lastD (restText br fl lastD x) = some (imgL br x, []) := by
  intro x
  induction x with
  | nil =>
    intro fl lastD n _ hn
    cases n with
    | zero => simp at hn
    | succ n => simp [restText, readExprLoop, nextFrag, imgL]
  | cons f r ih =>
    intro fl lastD n hcl hn
    simp only [cleanTail, Bool.and_eq_true] at hcl
    cases n with
    | zero => simp at hn
    | succ n =>
    by_cases hd : f.isDescent = true
    · cases f <;> simp [Frag.isDescent] at hd
      cases br with
      | false =>
        -- `..`: both dots are read with the descent
        have e : restText false fl lastD (.descent :: r) = 46 :: 46 :: restText false false true r := by
          simp [restText, Frag.print, Frag.isDescent, printL_afterDot]
        rw [e] at hn ⊢
        have h1 : nextFrag pf fl lastD (46 :: 46 :: restText false false true r) =
            some (some .descent, restText false false true r) := by
          simp [nextFrag, afterDot]
        rw [readExprLoop_step pf n fl lastD _ _ _ h1]
        have h3 := ih false true n hcl.2 (by simp only [List.length_cons] at hn; omega)
        simp only [Frag.isDescent]
        rw [h3]; rfl
      | true =>
        have e : restText true fl lastD (.descent :: r) = 91 :: (46 :: 46 :: 93 :: restText true false true r) := by
          rw [restText_br false true r, ← printL_noDescent]
          rfl
        rw [e] at hn ⊢
        have h1 := nextFrag_bracket pf fl lastD _ _ _ (afterBracket_descent pf (restText true false true r))
        rw [readExprLoop_step pf n fl lastD _ _ _ h1]
        have h3 := ih false true n hcl.2 (by simp only [List.length_cons] at hn; omega)
        simp only [Frag.isDescent]
        rw [h3]; rfl
    · have hd' : f.isDescent = false := by simpa using hd
      have hT := follower_restText br r hcl.2
      have e : restText br fl lastD (f :: r) = f.print br (fl || (lastD && !br)) ++ restText br false false r := by
        simp [restText, hd', printL_noDescent]
      rw [e] at hn ⊢
      have h1 := nextFrag_clean pf br fl lastD f _ hcl.1 hd' hT
      have hl := Frag.print_ne_nil br (fl || (lastD && !br)) f hcl.1
      rw [readExprLoop_step pf n fl lastD _ _ _ h1, img_isDescent_eq, hd']
      have h3 := ih false false n hcl.2 (by simp only [List.length_append] at hn; omega)
      rw [h3]; rfl

theorem exprPrint_eq_restText (br : Bool) (x : List Frag) : exprPrint br x = restText br true false x := by
  cases x <;> simp [exprPrint, Frag.printL, restText]

/-- **Filter-free expressions are read back.** -/
theorem parseExpr_print (br : Bool) (x : List Frag) (h : cleanExpr x = true) :
    parseExpr (exprPrint br x) = some (imgL br x) := by
  have key : ∀ pf : P (List Item), readExpr pf (exprPrint br x) = some (imgL br x, []) := by
    intro pf
    unfold readExpr
    rw [exprPrint_eq_restText]
    cases x with
    | nil => simp [restText, readExprLoop, nextFrag, imgL]
    | cons f r =>
      simp only [cleanExpr] at h
      by_cases hra : f.isRootAt = true
      · simp only [hra, ↓reduceIte] at h
        have hd : f.isDescent = false := by cases f <;> simp [Frag.isRootAt] at hra <;> rfl
        have e : restText br true false (f :: r) = f.print br true ++ restText br false false r := by
          simp [restText, hd, printL_noDescent]
        rw [e]
        have h3 := readExprLoop_clean pf br r false false ((restText br false false r).length + 1) h (by omega)
        have hn : nextFrag pf true false (f.print br true ++ restText br false false r) =
            some (some (f.img br), restText br false false r) := by
          cases f <;> simp [Frag.isRootAt] at hra <;> simp [Frag.print, nextFrag, Frag.img]
        have hl : (f.print br true ++ restText br false false r).length + 1 =
            ((restText br false false r).length + 1) + 1 := by
          cases f <;> simp [Frag.isRootAt] at hra <;> simp [Frag.print]
        rw [hl, readExprLoop_step pf _ true false _ _ _ hn, img_isDescent_eq, hd, h3]
        rfl
      · simp only [hra, Bool.false_eq_true, ↓reduceIte] at h
        exact readExprLoop_clean pf br (f :: r) true false _ h (by omega)
  simp only [parseExpr, key]

theorem img_print (br fl : Bool) (f : Frag) (hc : f.clean = true ∨ f.isRootAt = true) :
    (f.img br).print br fl = f.print br fl := by
  cases f with
  | wild hh =>
    rcases hc with h | h
    · simp only [Frag.clean, Bool.not_eq_true'] at h
      subst h
      cases br <;> simp [Frag.img, Frag.print]
    · simp [Frag.isRootAt] at h
  | slice ns =>
    simp only [Frag.img, Frag.print]
    match ns with
    | [] => simp [normSlice, slicePrint, sliceStart, sliceEnd]
    | [a] => simp [normSlice, slicePrint, sliceEnd]
    | [a, b] => simp [normSlice]
    | a :: b :: c :: r => simp [normSlice, slicePrint]
  | root => rfl
  | «at» => rfl
  | child k => rfl
  | nth i => rfl
  | descent => rfl
  | union ms => rfl
  | filter t => rfl

theorem img_norm (br : Bool) (f : Frag) : (f.img br).norm = f.norm := by
  cases f with
  | wild hh => simp [Frag.img, Frag.norm]
  | slice ns =>
    simp only [Frag.img, Frag.norm]
    match ns with
    | [] => rfl
    | [a] => rfl
    | [a, b] => rfl
    | a :: b :: c :: r => rfl
  | root => rfl
  | «at» => rfl
  | child k => rfl
  | nth i => rfl
  | descent => rfl
  | union ms => rfl
  | filter t => rfl

theorem imgL_normL (br : Bool) (x : List Frag) : Frag.normL (imgL br x) = Frag.normL x := by
  induction x with
  | nil => rfl
  | cons f r ih => simp [imgL, Frag.normL, img_norm, ih]

theorem imgL_printL (br : Bool) : ∀ (x : List Frag) (fl aD : Bool), cleanTail x = true →
    Frag.printL br fl aD (imgL br x) = Frag.printL br fl aD x := by
  intro x
  induction x with
  | nil => intro _ _ _; rfl
  | cons f r ih =>
    intro fl aD h
    simp only [cleanTail, Bool.and_eq_true] at h
    simp [imgL, Frag.printL, img_print br _ f (Or.inl h.1), img_isDescent_eq, ih _ _ h.2]

theorem exprPrint_imgL (br : Bool) (x : List Frag) (h : cleanExpr x = true) :
    exprPrint br (imgL br x) = exprPrint br x := by
  unfold exprPrint
  cases x with
  | nil => rfl
  | cons f r =>
    simp only [cleanExpr] at h
    by_cases hra : f.isRootAt = true
    · simp only [hra, ↓reduceIte] at h
      simp [imgL, Frag.printL, img_print br true f (Or.inr hra), img_isDescent_eq, imgL_printL br r _ _ h]
    · simp only [hra, Bool.false_eq_true, ↓reduceIte] at h
      exact imgL_printL br (f :: r) true false h

/-- **C14 for filter-free expressions.** A constructible expression without filter fragments and
without a named deviation round-trips in the text form `br`: the printed text is accepted, the re-parsed
expression prints identically, and it is the same expression up to the normal form. -/
theorem roundTripsExpr_clean (br : Bool) (x : List Frag) (h : cleanExpr x = true) :
    roundTripsExpr br x = true := by
  simp only [roundTripsExpr, parseExpr_print br x h, exprPrint_imgL br x h, beq_self_eq_true, Bool.true_and,
    sameExpr, imgL_normL]

/-! ## from the predicates of Spec.lean -/

def noFilter : List Frag → Bool
  | [] => true
  | .filter _ :: _ => false
  | _ :: r => noFilter r

theorem addIf_nil {c : Bool} {d : Dev} {l : List Dev} (h : addIf c d l = []) : c = false ∧ l = [] := by
  cases c <;> simp_all [addIf]

theorem clean_of_spec (f : Frag) (hok : f.ok = true) (hdev : f.devs = [])
    (h1 : f.isRootAt = false) (h3 : noFilter [f] = true) : f.clean = true := by
  cases f with
  | child k => rfl
  | nth i => exact hok
  | wild hh => simpa [Frag.ok, Frag.clean] using hok
  | descent => rfl
  | union ms =>
    simp only [Frag.devs] at hdev
    have d1 := (addIf_nil hdev).1
    simp only [Frag.ok, List.all_eq_true] at hok
    simp only [Frag.clean, Bool.and_eq_true, decide_eq_true_eq, List.all_eq_true]
    refine ⟨by simpa using d1, fun m hm => ?_⟩
    have := hok m hm
    cases m with
    | key s => rfl
    | idx i => exact this
  | slice ns => exact hok
  | root => simp [Frag.isRootAt] at h1
  | «at» => simp [Frag.isRootAt] at h1
  | filter t => simp [noFilter] at h3

theorem noFilter_cons (f : Frag) (r : List Frag) (h : noFilter (f :: r) = true) :
    noFilter [f] = true ∧ noFilter r = true := by
  cases f <;> simp_all [noFilter]

theorem cleanTail_of_spec : ∀ r : List Frag, Frag.okL r = true → noFilter r = true →
    r.any Frag.isRootAt = false → Frag.devsL r = [] → cleanTail r = true := by
  intro r
  induction r with
  | nil => intros; rfl
  | cons f r ih =>
    intro hok hnf hra hdev
    simp only [Frag.okL, Bool.and_eq_true] at hok
    simp only [List.any_cons, Bool.or_eq_false_iff] at hra
    simp only [Frag.devsL, List.append_eq_nil_iff] at hdev
    obtain ⟨hnf1, hnf2⟩ := noFilter_cons f r hnf
    simp only [cleanTail, Bool.and_eq_true]
    exact ⟨clean_of_spec f hok.1 hdev.1 hra.1 hnf1, ih hok.2 hnf2 hra.2 hdev.2⟩

/-- the hypotheses of the theorem in the words of Spec.lean: constructible, no filter fragment, no named
deviation -/
theorem cleanExpr_of_spec (br : Bool) (x : List Frag) (hok : Frag.okL x = true) (hnf : noFilter x = true)
    (hdev : devsExpr br x = []) : cleanExpr x = true := by
  simp only [devsExpr] at hdev
  obtain ⟨hra, hdl⟩ := addIf_nil hdev
  cases x with
  | nil => rfl
  | cons f r =>
    simp only [devRootAtL] at hra
    simp only [cleanExpr]
    by_cases hf : f.isRootAt = true
    · simp only [hf, ↓reduceIte]
      simp only [Frag.okL, Bool.and_eq_true] at hok
      simp only [Frag.devsL, List.append_eq_nil_iff] at hdl
      exact cleanTail_of_spec r hok.2 (noFilter_cons f r hnf).2 hra hdl.2
    · simp only [hf, Bool.false_eq_true, ↓reduceIte]
      have hf' : f.isRootAt = false := by simpa using hf
      exact cleanTail_of_spec (f :: r) hok hnf (by simp [hf', hra]) hdl

end OjgVerif.JPText
