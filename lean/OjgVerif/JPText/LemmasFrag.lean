import OjgVerif.JPText.LemmasInt
import OjgVerif.JPText.LemmasStr
/-! # C14 lemmas: every fragment kind is read back

`nextFrag`/`afterBracket`/`afterDot` of jp/parse.go applied to the text `Frag.Append` writes for a
token child (dot form, bare first form, after a descent), a quoted child with ANY key bytes, any index, a
wildcard, `[..]`, a slice of any shape, a union of two or more members (any member bytes) — followed by whatever may follow a fragment —
return the fragment (its normal form for slices, `Wildcard('#')` for `[*]`) and the rest. -/
namespace OjgVerif.JPText
open OjgVerif

/-- `Nth.Append` is `AppendInt` between brackets (since 4af356a, for every index) -/
theorem nthPrint_eq (i : Int) : nthPrint i = 91 :: (fmtInt i ++ [93]) := rfl

/-! ## what follows a fragment, and token children -/

/-- the text after a fragment inside a printed expression: nothing, a dot or a bracket — or, where the
expression is an operand of an equation, what follows it there: a space, `)`, `,`, `]` -/
def followerOK : Bytes → Bool
  | [] => true
  | b :: _ => b == 46 || b == 91 || b == 32 || b == 41 || b == 44 || b == 93

def tokTwo (b : UInt8) : Bool := tokCls b == 46 || tokCls b == 111
theorem tokCls_two (b : UInt8) : tokCls b = 46 ∨ tokCls b = 111 := by
  have := forall_byte (p := tokTwo) (by decide +kernel) b
  simpa [tokTwo] using this

theorem tokCls_specials : tokCls 36 = 46 ∧ tokCls 64 = 46 ∧ tokCls 46 = 46 ∧ tokCls 42 = 46 ∧ tokCls 91 = 46 ∧
    tokCls 93 = 46 := by decide +kernel

theorem tok_not_special {c : UInt8} (h : tokCls c ≠ 46) :
    c ≠ 36 ∧ c ≠ 64 ∧ c ≠ 46 ∧ c ≠ 42 ∧ c ≠ 91 ∧ c ≠ 93 := by
  obtain ⟨h1, h2, h3, h4, h5, h6⟩ := tokCls_specials
  refine ⟨?_, ?_, ?_, ?_, ?_, ?_⟩ <;> (intro e; subst e; contradiction)

theorem takeTok_token (k tail : Bytes) (hk : ∀ c ∈ k, tokCls c ≠ 46) (ht : followerOK tail = true) :
    takeTok (k ++ tail) = (k, tail) := by
  induction k with
  | nil =>
    cases tail with
    | nil => rfl
    | cons b t =>
      simp only [followerOK, Bool.or_eq_true, beq_iff_eq] at ht
      have : tokCls b = 46 := by
        rcases ht with ((((h | h) | h) | h) | h) | h <;> subst h <;> decide +kernel
      simp [takeTok, this]
  | cons c k ih =>
    have hc := hk c (by simp)
    have := ih (fun d hd => hk d (by simp [hd]))
    simp [takeTok, hc, this]

theorem tokenOk_iff (k : Bytes) : tokenOk k = true ↔ (∀ c ∈ k, tokCls c ≠ 46) ∧ k ≠ [] := by
  simp [tokenOk, List.all_eq_true]

theorem afterDot_token (k tail : Bytes) (hk : tokenOk k = true) (ht : followerOK tail = true) :
    afterDot (k ++ tail) = some (.child k, tail) := by
  obtain ⟨hall, hne⟩ := (tokenOk_iff k).mp hk
  cases k with
  | nil => exact absurd rfl hne
  | cons c k =>
    have hc := hall c (by simp)
    have hs := tok_not_special hc
    have := takeTok_token k tail (fun d hd => hall d (by simp [hd])) ht
    simp [afterDot, hs.2.2.1, hs.2.2.2.1, hc, this]

theorem afterDotDot_token (k tail : Bytes) (hk : tokenOk k = true) (ht : followerOK tail = true) :
    afterDotDot (k ++ tail) = some (.child k, tail) := by
  obtain ⟨hall, hne⟩ := (tokenOk_iff k).mp hk
  cases k with
  | nil => exact absurd rfl hne
  | cons c k =>
    have := takeTok_token k tail (fun d hd => hall d (by simp [hd])) ht
    simp [afterDotDot, this]

theorem nextFrag_child_dot (pf : P (List Item)) (first lastD : Bool) (k tail : Bytes) (hk : tokenOk k = true)
    (ht : followerOK tail = true) :
    nextFrag pf first lastD (46 :: (k ++ tail)) = some (some (.child k), tail) := by
  simp [nextFrag, afterDot_token k tail hk ht]

theorem nextFrag_child_bare (pf : P (List Item)) (first lastD : Bool) (k tail : Bytes) (hk : tokenOk k = true)
    (ht : followerOK tail = true) (hfl : first = true ∨ lastD = true) :
    nextFrag pf first lastD (k ++ tail) = some (some (.child k), tail) := by
  obtain ⟨hall, hne⟩ := (tokenOk_iff k).mp hk
  cases hk' : k with
  | nil => exact absurd hk' hne
  | cons c k' =>
    have hc := hall c (by simp [hk'])
    have hs := tok_not_special hc
    have h111 : tokCls c = 111 := by
      rcases tokCls_two c with h | h
      · exact absurd h hc
      · exact h
    have e1 := afterDot_token k tail hk ht
    have e2 := afterDotDot_token k tail hk ht
    rw [hk'] at e1 e2
    simp only [List.cons_append] at e1 e2 ⊢
    simp only [nextFrag, hs.1, hs.2.1, hs.2.2.1, hs.2.2.2.1, hs.2.2.2.2.1, hs.2.2.2.2.2, ↓reduceIte, h111]
    rcases hfl with h | h
    · simp [h, e1]
    · cases first <;> simp [h, e1, e2]

/-! ## bracket-form fragments -/

theorem skipSpace_cons {b : UInt8} (r : Bytes) (h : b ≠ 32) : skipSpace (b :: r) = (b, r) := by
  simp [skipSpace, skipSpaceAux, h]

theorem isDigit_range {d : UInt8} (h : isDigit d = true) : 48 ≤ d.toNat ∧ d.toNat ≤ 57 := by
  simp only [isDigit, Bool.and_eq_true, decide_eq_true_eq, UInt8.le_iff_toNat_le] at h
  exact ⟨by simpa using h.1, by simpa using h.2⟩

/-- the first byte of a decimal integer is none of the bytes `afterBracket` and `readSlice` test for first -/
theorem numHead_ne {d : UInt8} (h : d = 45 ∨ isDigit d = true) :
    d ≠ 32 ∧ d ≠ 42 ∧ d ≠ 39 ∧ d ≠ 34 ∧ d ≠ 58 ∧ d ≠ 63 ∧ d ≠ 40 ∧ d ≠ 93 ∧ d ≠ 44 ∧ d ≠ 46 := by
  rcases h with h | h
  · subst h; decide
  · have := isDigit_range h
    refine ⟨?_, ?_, ?_, ?_, ?_, ?_, ?_, ?_, ?_, ?_⟩ <;> (intro e; subst e; simp at this)

theorem numHead_cond {d : UInt8} (h : d = 45 ∨ isDigit d = true) : (d = 45 || isDigit d) = true := by
  rcases h with h | h <;> simp [h]

theorem afterBracket_int (pf : P (List Item)) (i : Int) (hi : inInt64 i = true) (c : UInt8)
    (hc : isDigit c = false) (rest : Bytes) :
    afterBracket pf (fmtInt i ++ c :: rest) = afterInt i c rest := by
  obtain ⟨d, ds, hf, hd, hread⟩ := readInt_fmtInt i hi c rest hc
  have hn := numHead_ne hd
  rw [hf]
  simp only [List.cons_append, afterBracket, skipSpace_cons _ hn.1, hn.2.1, hn.2.2.1, hn.2.2.2.1, hn.2.2.2.2.1,
    hn.2.2.2.2.2.1, hn.2.2.2.2.2.2.1, hn.2.2.2.2.2.2.2.2.2, ↓reduceIte, Bool.or_self, Bool.false_eq_true,
    numHead_cond hd, hread, decide_false]

theorem afterBracket_nth (pf : P (List Item)) (i : Int) (hi : inInt64 i = true) (tail : Bytes) :
    afterBracket pf (fmtInt i ++ 93 :: tail) = some (.nth i, tail) := by
  rw [afterBracket_int pf i hi 93 (by decide)]
  simp [afterInt, afterIntB]

theorem afterBracket_descent (pf : P (List Item)) (tail : Bytes) :
    afterBracket pf (46 :: 46 :: 93 :: tail) = some (.descent, tail) := by
  simp [afterBracket, skipSpace, skipSpaceAux]

theorem afterBracket_wild (pf : P (List Item)) (tail : Bytes) :
    afterBracket pf (42 :: 93 :: tail) = some (.wild true, tail) := by
  simp [afterBracket, skipSpace, skipSpaceAux]

theorem afterBracket_child (pf : P (List Item)) (k tail : Bytes) :
    afterBracket pf (appendString k 39 ++ 93 :: tail) = some (.child k, tail) := by
  have h := readStr_body k.length k (93 :: tail) (Nat.le_refl _)
  rw [rebuild_id k.length k (Nat.le_refl _)] at h
  have e : appendString k 39 ++ 93 :: tail = 39 :: (appendStrBody 39 k.length k ++ 39 :: 93 :: tail) := by
    simp [appendString]
  rw [e]
  simp [afterBracket, skipSpace, skipSpaceAux, h]

/-! slices -/

theorem readSliceStep_int (pre : List Int) (c : Int) (hc : inInt64 c = true) (tail : Bytes) :
    readSliceStep pre (fmtInt c ++ 93 :: tail) = some (.slice (pre ++ [c]), tail) := by
  obtain ⟨d, ds, hf, hd, hread⟩ := readInt_fmtInt c hc 93 tail (by decide)
  have hn := numHead_ne hd
  rw [hf]
  simp [readSliceStep, hn.2.2.2.2.2.2.2.1, hread]

theorem readSlice_close (a : Int) (tail : Bytes) : readSlice a (93 :: tail) = some (.slice [a, maxEnd], tail) := by
  simp [readSlice]

theorem readSlice_int_close (a b : Int) (hb : inInt64 b = true) (tail : Bytes) :
    readSlice a (fmtInt b ++ 93 :: tail) = some (.slice [a, b], tail) := by
  obtain ⟨d, ds, hf, hd, hread⟩ := readInt_fmtInt b hb 93 tail (by decide)
  have hn := numHead_ne hd
  rw [hf]
  simp [readSlice, hn.2.2.2.2.2.2.2.1, skipSpace_cons _ hn.1, hn.2.2.2.2.1, hread]

theorem readSlice_int_step (a b c : Int) (hb : inInt64 b = true) (hc : inInt64 c = true) (tail : Bytes) :
    readSlice a (fmtInt b ++ 58 :: (fmtInt c ++ 93 :: tail)) = some (.slice [a, b, c], tail) := by
  obtain ⟨d, ds, hf, hd, hread⟩ := readInt_fmtInt b hb 58 (fmtInt c ++ 93 :: tail) (by decide)
  have hn := numHead_ne hd
  rw [hf]
  simp [readSlice, hn.2.2.2.2.2.2.2.1, skipSpace_cons _ hn.1, hn.2.2.2.2.1, hread, readSliceStep_int [a, b] c hc tail]

theorem readSlice_colon_step (a c : Int) (hc : inInt64 c = true) (tail : Bytes) :
    readSlice a (58 :: (fmtInt c ++ 93 :: tail)) = some (.slice [a, maxEnd, c], tail) := by
  simp [readSlice, skipSpace, skipSpaceAux, readSliceStep_int [a, maxEnd] c hc tail]

/-- after `[`: the start of a slice up to and including the first colon -/
theorem afterBracket_sliceStart (pf : P (List Item)) (a : Int) (ha : inInt64 a = true) (X : Bytes) :
    afterBracket pf (sliceStart a ++ 58 :: X) = readSlice a X := by
  by_cases h0 : a = 0
  · subst h0
    simp [sliceStart, afterBracket, skipSpace, skipSpaceAux]
  · simp only [sliceStart, ne_eq, h0, not_false_eq_true, ↓reduceIte]
    rw [afterBracket_int pf a ha 58 (by decide)]
    simp [afterInt, afterIntB]

/-- the image of a slice under print-then-parse is its normal form -/
theorem afterBracket_slice (pf : P (List Item)) (ns : List Int) (hns : ns.all inInt64 = true) (tail : Bytes) :
    ∃ t, slicePrint ns ++ tail = 91 :: t ∧ afterBracket pf t = some (.slice (normSlice ns), tail) := by
  match ns, hns with
  | [], _ =>
    refine ⟨58 :: 93 :: tail, by simp [slicePrint], ?_⟩
    have := afterBracket_sliceStart pf 0 (by decide) (93 :: tail)
    simp only [sliceStart, ne_eq, not_true_eq_false, ↓reduceIte, List.nil_append] at this
    rw [this, readSlice_close]; rfl
  | [a], h =>
    simp only [List.all_cons, List.all_nil, Bool.and_true] at h
    refine ⟨sliceStart a ++ 58 :: 93 :: tail, by simp [slicePrint], ?_⟩
    rw [afterBracket_sliceStart pf a h, readSlice_close]; rfl
  | [a, b], h =>
    simp only [List.all_cons, List.all_nil, Bool.and_true, Bool.and_eq_true] at h
    refine ⟨sliceStart a ++ 58 :: (sliceEnd b ++ 93 :: tail), by simp [slicePrint], ?_⟩
    rw [afterBracket_sliceStart pf a h.1]
    by_cases hb : b = maxEnd
    · subst hb; simp [sliceEnd, readSlice_close, normSlice]
    · simp only [sliceEnd, ne_eq, hb, not_false_eq_true, ↓reduceIte]
      rw [readSlice_int_close a b h.2]; rfl
  | a :: b :: c :: r, h =>
    simp only [List.all_cons, Bool.and_eq_true] at h
    refine ⟨sliceStart a ++ 58 :: (sliceEnd b ++ 58 :: (fmtInt c ++ 93 :: tail)), by simp [slicePrint], ?_⟩
    rw [afterBracket_sliceStart pf a h.1]
    by_cases hb : b = maxEnd
    · subst hb
      simp only [sliceEnd, ne_eq, not_true_eq_false, ↓reduceIte, List.nil_append]
      rw [readSlice_colon_step a c h.2.2.1]; rfl
    · simp only [sliceEnd, ne_eq, hb, not_false_eq_true, ↓reduceIte]
      rw [readSlice_int_step a b c h.2.1 h.2.2.1]; rfl

/-! unions -/

def UMem.good : UMem → Prop
  | .key _ => True
  | .idx i => inInt64 i = true

/-- a union member is written like a child key (since 4af356a) and read back whatever its bytes -/
theorem readStr_key (s rest : Bytes) :
    ∃ t, appendString s 39 ++ rest = 39 :: t ∧ readStr 39 t = some (s, rest) := readStr_appendString s rest

theorem readUnionRest_close (F : Nat) (tail : Bytes) : readUnionRest (F + 1) 93 tail = some ([], tail) := by
  simp [readUnionRest]

theorem readUnionRest_step (m : UMem) (hm : m.good) (c : UInt8) (hc : c = 44 ∨ c = 93) (rest : Bytes) (F : Nat) :
    readUnionRest (F + 1) 44 (umemPrint m ++ c :: rest) = consFst m (readUnionRest F c rest) := by
  have hc32 : c ≠ 32 := by rcases hc with h | h <;> subst h <;> decide
  have hcd : isDigit c = false := by rcases hc with h | h <;> subst h <;> decide
  cases m with
  | key s =>
    obtain ⟨t, h1, h2⟩ := readStr_key s (c :: rest)
    simp only [umemPrint, h1]
    simp [readUnionRest, skipSpace, skipSpaceAux, h2, hc32]
  | idx i =>
    obtain ⟨d, ds, hf, hd, hread⟩ := readInt_fmtInt i hm c rest hcd
    have hn := numHead_ne hd
    simp only [umemPrint, hf, List.cons_append, readUnionRest, skipSpace_cons _ hn.1, hn.2.2.1, hn.2.2.2.1,
      ↓reduceIte, Bool.or_self, Bool.false_eq_true, numHead_cond hd, hread, hc32, decide_false,
      show ((44 : UInt8) = 93) = False by decide]

theorem readUnionRest_members : ∀ (ms : List UMem) (F : Nat) (tail : Bytes), ms ≠ [] → ms.length < F →
    (∀ m ∈ ms, m.good) → readUnionRest F 44 (umemsPrint ms ++ 93 :: tail) = some (ms, tail) := by
  intro ms
  induction ms with
  | nil => intro F tail h; exact absurd rfl h
  | cons m r ih =>
    intro F tail _ hF hg
    cases F with
    | zero => simp at hF
    | succ F =>
      cases r with
      | nil =>
        simp only [umemsPrint]
        rw [readUnionRest_step m (hg m (by simp)) 93 (Or.inr rfl)]
        cases F with
        | zero => simp at hF
        | succ F => simp [readUnionRest_close, consFst]
      | cons m2 r2 =>
        have e : umemsPrint (m :: m2 :: r2) = umemPrint m ++ 44 :: umemsPrint (m2 :: r2) := rfl
        rw [e, List.append_assoc, List.cons_append, readUnionRest_step m (hg m (by simp)) 44 (Or.inl rfl),
          ih F tail (by simp) (by simp at hF ⊢; omega) (fun x hx => hg x (by simp [hx]))]
        rfl

theorem fmtInt_ne_nil (i : Int) : fmtInt i ≠ [] := by
  by_cases h : i < 0
  · rw [fmtInt_neg i h]; simp
  · rw [fmtInt_nonneg i (by omega)]; exact (digits_spec _).1

theorem umemPrint_ne_nil (m : UMem) : umemPrint m ≠ [] := by
  cases m with
  | key s => simp [umemPrint, appendString]
  | idx i => exact fmtInt_ne_nil i

theorem umemsPrint_length : ∀ ms : List UMem, ms.length ≤ (umemsPrint ms).length := by
  intro ms
  induction ms with
  | nil => simp
  | cons m r ih =>
    have hm : 1 ≤ (umemPrint m).length := by
      have := umemPrint_ne_nil m
      cases h : umemPrint m with
      | nil => exact absurd h this
      | cons _ _ => simp
    cases r with
    | nil => simpa [umemsPrint] using hm
    | cons m2 r2 =>
      have e : umemsPrint (m :: m2 :: r2) = umemPrint m ++ 44 :: umemsPrint (m2 :: r2) := rfl
      rw [e]
      simp only [List.length_append, List.length_cons] at ih ⊢
      omega

theorem readUnion_members (m : UMem) (ms : List UMem) (hne : ms ≠ []) (hg : ∀ x ∈ ms, x.good) (tail : Bytes) :
    readUnion m (umemsPrint ms ++ 93 :: tail) = some (.union (m :: ms), tail) := by
  have hlen := umemsPrint_length ms
  have := readUnionRest_members ms ((umemsPrint ms ++ 93 :: tail).length + 2) tail hne
    (by simp only [List.length_append, List.length_cons]; omega) hg
  cases hb : umemsPrint ms ++ 93 :: tail with
  | nil => simp at hb
  | cons x y =>
    rw [hb] at this
    simp only [List.length_cons] at this
    simp only [readUnion, List.length_cons, this]

theorem afterBracket_union (pf : P (List Item)) (ms : List UMem) (h2 : 2 ≤ ms.length) (hg : ∀ m ∈ ms, m.good)
    (tail : Bytes) :
    ∃ t, unionPrint ms ++ tail = 91 :: t ∧ afterBracket pf t = some (.union ms, tail) := by
  match ms, h2, hg with
  | m :: m2 :: r, _, hg =>
    refine ⟨umemPrint m ++ 44 :: (umemsPrint (m2 :: r) ++ 93 :: tail), ?_, ?_⟩
    · have e : umemsPrint (m :: m2 :: r) = umemPrint m ++ 44 :: umemsPrint (m2 :: r) := rfl
      simp [unionPrint, e]
    · have hrest := readUnion_members m (m2 :: r) (by simp) (fun x hx => hg x (by simp [hx])) tail
      cases m with
      | key s =>
        obtain ⟨t, h1, h2⟩ := readStr_key s (44 :: (umemsPrint (m2 :: r) ++ 93 :: tail))
        simp only [umemPrint, h1]
        simp [afterBracket, skipSpace, skipSpaceAux, h2, hrest]
      | idx i =>
        have hi : inInt64 i = true := hg (.idx i) (by simp)
        simp only [umemPrint]
        rw [afterBracket_int pf i hi 44 (by decide)]
        simp [afterInt, afterIntB, hrest]
end OjgVerif.JPText
