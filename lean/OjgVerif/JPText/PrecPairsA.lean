import OjgVerif.JPText.Trees
/-! C14: kernel evaluation of the model round trip over one part of the small-tree space. -/
namespace OjgVerif.JPText
open OjgVerif

def pairsATrees : List Shape := (sh1 unOps binOps ++ Shape.uns unOps (sh1 unOps binOps) ++ Shape.bins binOps sh0 (sh1 unOps binOps))

set_option maxRecDepth 100000 in
theorem pairsA_exact : (pairsATrees.all fun s => devsExact s.eqn) = true := by decide +kernel

set_option maxRecDepth 100000 in
/-- every text form of every tree of this part round-trips -/
theorem pairsA_all : (pairsATrees.all fun s => roundTripsEqn s.eqn && roundTripsScript s.eqn && roundTripsFilter s.eqn) = true := by
  decide +kernel

end OjgVerif.JPText
