import OjgVerif.Script.Lemmas
/-! Program-level lemmas for C12: `evalStack` on the prefix program of a tree, the enumeration done by
`expandStack`, resolution of the program of a tree. -/
namespace OjgVerif.Script
open OjgVerif

/-! ## evalStack -/

theorem shift_length (c : Nat) (t : List Val) : (shift c t).length = t.length := by
  unfold shift
  split
  · simp only [List.length_append, List.length_drop]; omega
  · rfl

theorem evalStack_val (d : Dev) (rx : RxEngine) (v : Val) (X : List SItem) (t : List Val)
    (h : evalStack d rx X = .ok t) : evalStack d rx (.val v :: X) = .ok (v :: t) := by
  simp only [evalStack, h]

theorem evalStack_step_err (d : Dev) (rx : RxEngine) (o : Op) (X : List SItem) (t : List Val) (f : Fault)
    (h : evalStack d rx X = .ok t) (ho : evalOp d rx o (t.getD 0 .null) (t.getD 1 .null) = .error f) :
    evalStack d rx (.op o :: X) = .error f := by
  simp only [evalStack, h, ho]

theorem evalStack_step_ok (d : Dev) (rx : RxEngine) (o : Op) (X : List SItem) (t : List Val) (v : Val)
    (h : evalStack d rx X = .ok t) (ho : evalOp d rx o (t.getD 0 .null) (t.getD 1 .null) = .ok v) :
    evalStack d rx (.op o :: X) = .ok (v :: shift o.cnt t) := by
  simp only [evalStack, h, ho]

theorem evalStack_cons_err (d : Dev) (rx : RxEngine) (it : SItem) (X : List SItem) (f : Fault)
    (h : evalStack d rx X = .error f) : evalStack d rx (it :: X) = .error f := by
  cases it <;> simp only [evalStack, h]

theorem evalStack_length (d : Dev) (rx : RxEngine) (st : List SItem) :
    ∀ vs, evalStack d rx st = .ok vs → vs.length = st.length := by
  induction st with
  | nil => intro vs h; simp only [evalStack, Except.ok.injEq] at h; subst h; rfl
  | cons it rest ih =>
    intro vs h
    cases hr : evalStack d rx rest with
    | error f => rw [evalStack_cons_err d rx it rest f hr] at h; cases h
    | ok t =>
      cases it with
      | val v =>
        rw [evalStack_val d rx v rest t hr] at h
        simp only [Except.ok.injEq] at h
        subst h
        simp [ih t hr]
      | op o =>
        cases ho : evalOp d rx o (t.getD 0 .null) (t.getD 1 .null) with
        | error f => rw [evalStack_step_err d rx o rest t f hr ho] at h; cases h
        | ok v =>
          rw [evalStack_step_ok d rx o rest t v hr ho] at h
          simp only [Except.ok.injEq] at h
          subst h
          simp [shift_length, ih t hr]

/-- with the uncomparable-panic deviation repaired `evalStack` never faults, on ANY cell sequence -/
theorem evalStack_total (d : Dev) (h : d.uncmp = false) (h' : d.ifaceTrap = false) (rx : RxEngine) (st : List SItem) :
    ∃ vs, evalStack d rx st = .ok vs := by
  induction st with
  | nil => exact ⟨[], rfl⟩
  | cons it rest ih =>
    obtain ⟨t, ht⟩ := ih
    cases it with
    | val v => exact ⟨v :: t, evalStack_val d rx v rest t ht⟩
    | op o =>
      obtain ⟨v, hv⟩ := evalOp_ok_of_fixed d h h' rx o (t.getD 0 .null) (t.getD 1 .null)
      exact ⟨v :: shift o.cnt t, evalStack_step_ok d rx o rest t v ht hv⟩

theorem evalStack_append_error (d : Dev) (rx : RxEngine) (xs tail : List SItem) (f : Fault)
    (h : evalStack d rx tail = .error f) : evalStack d rx (xs ++ tail) = .error f := by
  induction xs with
  | nil => exact h
  | cons it xs ih => exact evalStack_cons_err d rx it _ f ih

/-! ## trees -/

theorem Op.cnt_cases (o : Op) : o.cnt = 1 ∨ o.cnt = 2 := by cases o <;> simp [Op.cnt]

theorem evalOp_unary (d : Dev) (rx : RxEngine) (o : Op) (h : o.cnt = 1) (l r r' : Val) :
    evalOp d rx o l r = evalOp d rx o l r' := by
  cases o <;> simp [Op.cnt] at h <;> rfl

theorem Spec.evalOp_unary (rx : RxEngine) (o : Op) (h : o.cnt = 1) (l r r' : Val) :
    Spec.evalOp rx o l r = Spec.evalOp rx o l r' := by
  cases o <;> simp [Op.cnt] at h <;> rfl

/-- the prefix program of a closed expression (no path left), as `Equation.buildScript` lays it out -/
def flattenS : Tm → List SItem
  | .const v => [.val v]
  | .path _ => [.val .nothing]
  | .app1 o a => if o.cnt = 1 then .op o :: flattenS a else .op o :: (flattenS a ++ [.val .null])
  | .app2 o a b => if o.cnt = 1 then .op o :: flattenS a else .op o :: (flattenS a ++ flattenS b)

/-- the model's operators applied along the tree (right operand first, as the stack loop does) -/
def evalTm (d : Dev) (rx : RxEngine) : Tm → Except Fault Val
  | .const v => .ok v
  | .path _ => .ok .nothing
  | .app1 o a =>
    match evalTm d rx a with
    | .error f => .error f
    | .ok va => evalOp d rx o va .null
  | .app2 o a b =>
    if o.cnt = 1 then
      match evalTm d rx a with
      | .error f => .error f
      | .ok va => evalOp d rx o va .null
    else
      match evalTm d rx b with
      | .error f => .error f
      | .ok vb =>
        match evalTm d rx a with
        | .error f => .error f
        | .ok va => evalOp d rx o va vb

theorem shift_one (a : Val) (R : List Val) : ∃ junk, shift 1 (a :: R) = R ++ junk := by
  refine ⟨(a :: R).drop ((a :: R).length - 1), ?_⟩
  simp [shift]

theorem shift_two (a b : Val) (R : List Val) : ∃ junk, shift 2 (a :: b :: R) = R ++ junk := by
  refine ⟨(a :: b :: R).drop ((a :: b :: R).length - 2), ?_⟩
  simp [shift]

/-- applying a one-operand operator on top of an evaluated argument -/
theorem evalStack_unary (d : Dev) (rx : RxEngine) (o : Op) (hc : o.cnt = 1) (X : List SItem) (va : Val) (T : List Val)
    (hX : evalStack d rx X = .ok (va :: T)) :
    (∀ f, evalOp d rx o va .null = .error f → evalStack d rx (.op o :: X) = .error f) ∧
    (∀ v, evalOp d rx o va .null = .ok v → ∃ junk, evalStack d rx (.op o :: X) = .ok (v :: (T ++ junk))) := by
  have hu : evalOp d rx o ((va :: T).getD 0 .null) ((va :: T).getD 1 .null) = evalOp d rx o va .null :=
    evalOp_unary d rx o hc va _ .null
  constructor
  · intro f hf
    exact evalStack_step_err d rx o X _ f hX (hu.trans hf)
  · intro v hv
    obtain ⟨j, hj⟩ := shift_one va T
    exact ⟨j, by rw [evalStack_step_ok d rx o X _ v hX (hu.trans hv), hc, hj]⟩

/-- applying a two-operand operator on top of two evaluated arguments -/
theorem evalStack_binary (d : Dev) (rx : RxEngine) (o : Op) (hc : o.cnt = 2) (X : List SItem) (va vb : Val) (T : List Val)
    (hX : evalStack d rx X = .ok (va :: vb :: T)) :
    (∀ f, evalOp d rx o va vb = .error f → evalStack d rx (.op o :: X) = .error f) ∧
    (∀ v, evalOp d rx o va vb = .ok v → ∃ junk, evalStack d rx (.op o :: X) = .ok (v :: (T ++ junk))) := by
  have hu : evalOp d rx o ((va :: vb :: T).getD 0 .null) ((va :: vb :: T).getD 1 .null) = evalOp d rx o va vb := rfl
  constructor
  · intro f hf
    exact evalStack_step_err d rx o X _ f hX (hu.trans hf)
  · intro v hv
    obtain ⟨j, hj⟩ := shift_two va vb T
    exact ⟨j, by rw [evalStack_step_ok d rx o X _ v hX (hu.trans hv), hc, hj]⟩

/-- evaluating the prefix program of a tree in front of already-evaluable cells leaves the tree's value
in the first cell and the evaluated rest right after it (followed by stale cells) -/
theorem evalStack_flattenS (d : Dev) (rx : RxEngine) (t : Tm) :
    ∀ (rest : List SItem) (R : List Val), evalStack d rx rest = .ok R →
      (∀ f, evalTm d rx t = .error f → evalStack d rx (flattenS t ++ rest) = .error f) ∧
      (∀ v, evalTm d rx t = .ok v → ∃ junk, evalStack d rx (flattenS t ++ rest) = .ok (v :: (R ++ junk))) := by
  induction t with
  | const v =>
    intro rest R h
    refine ⟨fun f hf => by simp [evalTm] at hf, fun w hw => ⟨[], ?_⟩⟩
    simp only [evalTm, Except.ok.injEq] at hw
    subst hw
    simpa [flattenS] using evalStack_val d rx _ rest R h
  | path p =>
    intro rest R h
    refine ⟨fun f hf => by simp [evalTm] at hf, fun w hw => ⟨[], ?_⟩⟩
    simp only [evalTm, Except.ok.injEq] at hw
    subst hw
    simpa [flattenS] using evalStack_val d rx _ rest R h
  | app1 o a iha =>
    intro rest R h
    rcases Op.cnt_cases o with hc | hc
    · -- unary operator
      have hf : flattenS (.app1 o a) ++ rest = .op o :: (flattenS a ++ rest) := by simp [flattenS, hc]
      rw [hf]
      obtain ⟨ihe, iho⟩ := iha rest R h
      cases ha : evalTm d rx a with
      | error f =>
        refine ⟨fun f' hf' => ?_, fun v hv => ?_⟩
        · simp only [evalTm, ha, Except.error.injEq] at hf'
          subst hf'
          exact evalStack_cons_err d rx _ _ f (ihe f ha)
        · simp [evalTm, ha] at hv
      | ok va =>
        obtain ⟨junk, hj⟩ := iho va ha
        obtain ⟨h1, h2⟩ := evalStack_unary d rx o hc _ va (R ++ junk) hj
        refine ⟨fun f' hf' => ?_, fun v hv => ?_⟩
        · simp only [evalTm, ha] at hf'
          exact h1 f' hf'
        · simp only [evalTm, ha] at hv
          obtain ⟨j2, hj2⟩ := h2 v hv
          exact ⟨junk ++ j2, by rw [hj2, List.append_assoc]⟩
    · -- binary operator with one argument: the right operand is nil
      have hne : ¬ o.cnt = 1 := by omega
      have hf : flattenS (.app1 o a) ++ rest = .op o :: (flattenS a ++ (.val .null :: rest)) := by
        simp [flattenS, hne]
      rw [hf]
      have hrest : evalStack d rx (.val .null :: rest) = .ok (.null :: R) := evalStack_val d rx _ rest R h
      obtain ⟨ihe, iho⟩ := iha (.val .null :: rest) (.null :: R) hrest
      cases ha : evalTm d rx a with
      | error f =>
        refine ⟨fun f' hf' => ?_, fun v hv => ?_⟩
        · simp only [evalTm, ha, Except.error.injEq] at hf'
          subst hf'
          exact evalStack_cons_err d rx _ _ f (ihe f ha)
        · simp [evalTm, ha] at hv
      | ok va =>
        obtain ⟨junk, hj⟩ := iho va ha
        obtain ⟨h1, h2⟩ := evalStack_binary d rx o hc _ va .null (R ++ junk) hj
        refine ⟨fun f' hf' => ?_, fun v hv => ?_⟩
        · simp only [evalTm, ha] at hf'
          exact h1 f' hf'
        · simp only [evalTm, ha] at hv
          obtain ⟨j2, hj2⟩ := h2 v hv
          exact ⟨junk ++ j2, by rw [hj2, List.append_assoc]⟩
  | app2 o a b iha ihb =>
    intro rest R h
    rcases Op.cnt_cases o with hc | hc
    · -- unary operator given two arguments: buildScript drops the second
      have hf : flattenS (.app2 o a b) ++ rest = .op o :: (flattenS a ++ rest) := by simp [flattenS, hc]
      rw [hf]
      obtain ⟨ihe, iho⟩ := iha rest R h
      cases ha : evalTm d rx a with
      | error f =>
        refine ⟨fun f' hf' => ?_, fun v hv => ?_⟩
        · simp only [evalTm, hc, ↓reduceIte, ha, Except.error.injEq] at hf'
          subst hf'
          exact evalStack_cons_err d rx _ _ f (ihe f ha)
        · simp [evalTm, hc, ha] at hv
      | ok va =>
        obtain ⟨junk, hj⟩ := iho va ha
        obtain ⟨h1, h2⟩ := evalStack_unary d rx o hc _ va (R ++ junk) hj
        refine ⟨fun f' hf' => ?_, fun v hv => ?_⟩
        · simp only [evalTm, hc, ↓reduceIte, ha] at hf'
          exact h1 f' hf'
        · simp only [evalTm, hc, ↓reduceIte, ha] at hv
          obtain ⟨j2, hj2⟩ := h2 v hv
          exact ⟨junk ++ j2, by rw [hj2, List.append_assoc]⟩
    · have hne : ¬ o.cnt = 1 := by omega
      have hf : flattenS (.app2 o a b) ++ rest = .op o :: (flattenS a ++ (flattenS b ++ rest)) := by
        simp [flattenS, hne]
      rw [hf]
      obtain ⟨ihbe, ihbo⟩ := ihb rest R h
      cases hvb : evalTm d rx b with
      | error f =>
        have hX := evalStack_append_error d rx (flattenS a) _ f (ihbe f hvb)
        refine ⟨fun f' hf' => ?_, fun v hv => ?_⟩
        · simp only [evalTm, hne, ↓reduceIte, hvb, Except.error.injEq] at hf'
          subst hf'
          exact evalStack_cons_err d rx _ _ f hX
        · simp [evalTm, hne, hvb] at hv
      | ok vb =>
        obtain ⟨jb, hjb⟩ := ihbo vb hvb
        obtain ⟨ihae, ihao⟩ := iha (flattenS b ++ rest) (vb :: (R ++ jb)) hjb
        cases hva : evalTm d rx a with
        | error f =>
          refine ⟨fun f' hf' => ?_, fun v hv => ?_⟩
          · simp only [evalTm, hne, ↓reduceIte, hvb, hva, Except.error.injEq] at hf'
            subst hf'
            exact evalStack_cons_err d rx _ _ f (ihae f hva)
          · simp [evalTm, hne, hvb, hva] at hv
        | ok va =>
          obtain ⟨ja, hja⟩ := ihao va hva
          have hja' : evalStack d rx (flattenS a ++ (flattenS b ++ rest)) = .ok (va :: vb :: (R ++ jb ++ ja)) := by
            rw [hja]; simp
          obtain ⟨h1, h2⟩ := evalStack_binary d rx o hc _ va vb (R ++ jb ++ ja) hja'
          refine ⟨fun f' hf' => ?_, fun v hv => ?_⟩
          · simp only [evalTm, hne, ↓reduceIte, hvb, hva] at hf'
            exact h1 f' hf'
          · simp only [evalTm, hne, ↓reduceIte, hvb, hva] at hv
            obtain ⟨j2, hj2⟩ := h2 v hv
            exact ⟨jb ++ ja ++ j2, by rw [hj2]; simp [List.append_assoc]⟩

/-- cell 0 after running the prefix program of a tree holds the value of the tree -/
theorem evalStack_flattenS_head (d : Dev) (rx : RxEngine) (t : Tm) :
    (evalStack d rx (flattenS t)).map (·.headD .null) = evalTm d rx t := by
  obtain ⟨he, ho⟩ := evalStack_flattenS d rx t [] [] rfl
  simp only [List.append_nil, List.nil_append] at he ho
  cases h : evalTm d rx t with
  | error f => rw [he f h]; rfl
  | ok v =>
    obtain ⟨junk, hj⟩ := ho v h
    rw [hj]; rfl

/-- the repaired model's tree value is the specified value -/
theorem evalTm_fixed (rx : RxEngine) (t : Tm) : evalTm Dev.fixed rx t = .ok (Spec.eval rx t) := by
  induction t with
  | const v => rfl
  | path p => rfl
  | app1 o a iha => simp [evalTm, iha, Spec.eval, evalOp_fixed_eq_spec]
  | app2 o a b iha ihb =>
    by_cases hc : o.cnt = 1
    · simp only [evalTm, hc, ↓reduceIte, iha, Spec.eval, evalOp_fixed_eq_spec]
      rw [Spec.evalOp_unary rx o hc]
    · simp [evalTm, hc, iha, ihb, Spec.eval, evalOp_fixed_eq_spec]

/-! ## expandStack enumerates exactly the combinations -/

/-- all stacks obtained by replacing every multi-valued cell by one of its values -/
def prod : List RItem → List (List SItem)
  | [] => [[]]
  | .op o :: r => (prod r).map (.op o :: ·)
  | .val v :: r => (prod r).map (.val v :: ·)
  | .multi vs :: r => vs.flatMap fun v => (prod r).map (.val v :: ·)

theorem combos_pos_of_lt (st : List RItem) (mi : Nat) (h : mi < combos st) : 0 < combos st := by omega

theorem expand_mem_prod (st : List RItem) : ∀ mi, mi < combos st → expand st mi ∈ prod st := by
  induction st with
  | nil => intro mi _; simp [expand, prod]
  | cons it r ih =>
    intro mi h
    cases it with
    | op o => simp only [expand, prod, List.mem_map]; exact ⟨_, ih mi (by simpa [combos] using h), rfl⟩
    | val v => simp only [expand, prod, List.mem_map]; exact ⟨_, ih mi (by simpa [combos] using h), rfl⟩
    | multi vs =>
      simp only [combos] at h
      have hlen : 0 < vs.length := by
        rcases Nat.eq_zero_or_pos vs.length with h0 | h0
        · rw [h0] at h; simp at h
        · exact h0
      have hmod : mi % vs.length < vs.length := Nat.mod_lt _ hlen
      have hdiv : mi / vs.length < combos r := by
        apply Nat.div_lt_of_lt_mul
        exact h
      simp only [expand, prod, List.mem_flatMap, List.mem_map]
      refine ⟨vs[mi % vs.length], List.getElem_mem hmod, expand r (mi / vs.length), ih _ hdiv, ?_⟩
      simp [List.getD_eq_getElem?_getD, hmod]

theorem prod_mem_expand (st : List RItem) : ∀ x, x ∈ prod st → ∃ mi, mi < combos st ∧ expand st mi = x := by
  induction st with
  | nil => intro x hx; simp [prod] at hx; subst hx; exact ⟨0, by simp [combos], rfl⟩
  | cons it r ih =>
    intro x hx
    cases it with
    | op o =>
      simp only [prod, List.mem_map] at hx
      obtain ⟨y, hy, rfl⟩ := hx
      obtain ⟨mi, h1, h2⟩ := ih y hy
      exact ⟨mi, by simpa [combos] using h1, by simp [expand, h2]⟩
    | val v =>
      simp only [prod, List.mem_map] at hx
      obtain ⟨y, hy, rfl⟩ := hx
      obtain ⟨mi, h1, h2⟩ := ih y hy
      exact ⟨mi, by simpa [combos] using h1, by simp [expand, h2]⟩
    | multi vs =>
      simp only [prod, List.mem_flatMap, List.mem_map] at hx
      obtain ⟨v, hv, y, hy, rfl⟩ := hx
      obtain ⟨mi', h1, h2⟩ := ih y hy
      obtain ⟨i, hi, hvi⟩ := List.getElem_of_mem hv
      refine ⟨i + vs.length * mi', ?_, ?_⟩
      · simp only [combos]
        calc i + vs.length * mi' < vs.length + vs.length * mi' := by omega
          _ = vs.length * (mi' + 1) := by rw [Nat.mul_add, Nat.mul_one, Nat.add_comm]
          _ ≤ vs.length * combos r := Nat.mul_le_mul_left _ h1
      · have hpos : 0 < vs.length := by omega
        have hm : (i + vs.length * mi') % vs.length = i := by
          rw [Nat.add_mul_mod_self_left]; exact Nat.mod_eq_of_lt hi
        have hd : (i + vs.length * mi') / vs.length = mi' := by
          rw [Nat.add_mul_div_left _ _ hpos, Nat.div_eq_of_lt hi, Nat.zero_add]
        simp only [expand, hm, hd, h2]
        simp [List.getD_eq_getElem?_getD, hi, hvi]

theorem prod_no_multi (st : List RItem) (h : hasMulti st = false) : prod st = [expand st 0] := by
  induction st with
  | nil => rfl
  | cons it r ih =>
    cases it with
    | op o => simp only [hasMulti] at h; simp [prod, expand, ih h]
    | val v => simp only [hasMulti] at h; simp [prod, expand, ih h]
    | multi vs => simp [hasMulti] at h

/-- the verdict on one expanded stack -/
def stackTrue (d : Dev) (rx : RxEngine) (x : List SItem) : Bool :=
  match evalStack d rx x with
  | .ok vs => Spec.isTrue (vs.headD .null)
  | .error _ => false

theorem expand_length (s : List RItem) : ∀ mi, (expand s mi).length = s.length := by
  induction s with
  | nil => intro mi; rfl
  | cons it r ih => intro mi; cases it <;> simp [expand, ih]

theorem tryCombos_any (d : Dev) (rx : RxEngine) (st : List RItem) :
    ∀ n mi, (∀ k, k < n → ∃ vs, evalStack d rx (expand st (mi + k)) = .ok vs) →
      tryCombos d rx st n mi = .ok ((List.range n).any fun k => stackTrue d rx (expand st (mi + k))) := by
  intro n
  induction n with
  | zero => intro mi _; rfl
  | succ n ih =>
    intro mi hok
    obtain ⟨vs, hvs⟩ := hok 0 (by omega)
    simp only [Nat.add_zero] at hvs
    simp only [tryCombos, hvs]
    rw [List.range_succ_eq_map, List.any_cons, List.any_map]
    have h0 : stackTrue d rx (expand st (mi + 0)) = Spec.isTrue (vs.headD .null) := by
      simp [stackTrue, hvs]
    rw [h0]
    cases Spec.isTrue (vs.headD .null)
    · simp only [Bool.false_eq_true, ↓reduceIte, Bool.false_or]
      rw [ih (mi + 1) (fun k hk => by
        have := hok (k + 1) (by omega)
        rwa [show mi + (k + 1) = mi + 1 + k by omega] at this)]
      congr 2
      funext k
      show stackTrue d rx (expand st (mi + 1 + k)) = stackTrue d rx (expand st (mi + (k + 1)))
      rw [show mi + 1 + k = mi + (k + 1) by omega]
    · simp

/-- the per-element verdict when no combination faults: SOME combination of the multi-valued operands
makes the script true -/
theorem matchResolved_any_of_ok (d : Dev) (rx : RxEngine) (st : List RItem) (hne : st ≠ [])
    (hok : ∀ x ∈ prod st, ∃ vs, evalStack d rx x = .ok vs) :
    matchResolved d rx st = .ok ((prod st).any (stackTrue d rx)) := by
  unfold matchResolved
  cases hm : hasMulti st
  · -- no multi-valued operand: one stack
    have hp := prod_no_multi st hm
    simp only [Bool.false_eq_true, ↓reduceIte, hp, List.any_cons, List.any_nil, Bool.or_false]
    obtain ⟨vs, hvs⟩ := hok (expand st 0) (by rw [hp]; simp)
    have hl := evalStack_length d rx _ vs hvs
    rw [expand_length] at hl
    cases vs with
    | nil =>
      simp at hl
      exact absurd (List.eq_nil_of_length_eq_zero hl.symm) hne
    | cons v vs' => simp [hvs, stackTrue]
  · simp only [↓reduceIte]
    rw [tryCombos_any d rx st _ 0 (fun k hk => by
      simp only [Nat.zero_add]
      exact hok _ (expand_mem_prod st k hk))]
    congr 1
    simp only [Nat.zero_add]
    rw [Bool.eq_iff_iff]
    simp only [List.any_eq_true, List.mem_range]
    constructor
    · rintro ⟨k, hk, ht⟩
      exact ⟨_, expand_mem_prod st k hk, ht⟩
    · rintro ⟨x, hx, ht⟩
      obtain ⟨mi, h1, h2⟩ := prod_mem_expand st x hx
      exact ⟨mi, h1, by rw [h2]; exact ht⟩

theorem matchResolved_any (d : Dev) (h : d.uncmp = false) (h' : d.ifaceTrap = false) (rx : RxEngine) (st : List RItem) (hne : st ≠ []) :
    matchResolved d rx st = .ok ((prod st).any (stackTrue d rx)) :=
  matchResolved_any_of_ok d rx st hne (fun x _ => evalStack_total d h h' rx x)

end OjgVerif.Script
