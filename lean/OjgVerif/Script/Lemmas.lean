import OjgVerif.Script.Model
/-! Helper lemmas for C12: exact-number facts, operator-level agreement of the model with the
specification, faults, `evalStack` on prefix programs, the mixed-radix enumeration of `expandStack`. -/
namespace OjgVerif.Script
open OjgVerif

/-! ## numbers -/

@[simp] theorem Flt.align_zero (m : Int) : Flt.align m 0 0 = m := by simp [Flt.align]
@[simp] theorem Flt.eq_int (a b : Int) : Flt.eq (.fin a 0) (.fin b 0) = decide (a = b) := by simp [Flt.eq]
@[simp] theorem Flt.lt_int (a b : Int) : Flt.lt (.fin a 0) (.fin b 0) = decide (a < b) := by simp [Flt.lt]
@[simp] theorem Flt.le_int (a b : Int) : Flt.le (.fin a 0) (.fin b 0) = decide (a ≤ b) := by
  simp only [Flt.le, Flt.lt_int, Flt.eq_int]
  by_cases h : a ≤ b
  · rcases Int.lt_or_eq_of_le h with h1 | h1 <;> simp [h, h1]
  · have h1 : ¬ a < b := by omega
    have h2 : ¬ a = b := by omega
    simp [h, h1, h2]

theorem Flt.bitLen_le (n k : Nat) (h : n < 2 ^ k) : Flt.bitLen n ≤ k := by
  unfold Flt.bitLen
  split
  · omega
  · rename_i hn
    have := (Nat.log2_lt hn).2 h
    omega

/-- `float64(i)` is exact below 2^53 -/
theorem Flt.ofInt_exact (i : Int) (h : i.natAbs < 2 ^ 53) : Flt.ofInt i = .fin i 0 := by
  unfold Flt.ofInt Flt.round
  by_cases h0 : i = 0
  · simp [h0]
  · have hb := Flt.bitLen_le _ _ h
    have hmag : Flt.roundMag i.natAbs 0 = (i.natAbs, 0) := by
      unfold Flt.roundMag
      have : max ((0 : Int) + (Flt.bitLen i.natAbs : Int) - 53) (-1074) ≤ 0 := by omega
      exact if_pos this
    simp only [h0, ↓reduceIte, hmag]
    have h1 : ¬ (1024 : Int) < (Flt.bitLen i.natAbs : Int) + 0 := by omega
    simp only [h1, ↓reduceIte]
    by_cases hneg : i < 0
    · simp only [hneg, ↓reduceIte]
      congr 1
      omega
    · simp only [hneg, ↓reduceIte]
      congr 1
      omega

/-! ## operators: the repaired model is the specification -/

theorem ifaceEq_ok (d : Dev) (h : d.uncmp = false) (h' : d.ifaceTrap = false) (l r : Val) : ∃ b, ifaceEq d l r = .ok b := by
  cases l <;> cases r <;> simp [ifaceEq, h, h']
  case ext.ext a b => by_cases h1 : a.ty = b.ty <;> cases h2 : a.cmp <;> simp [h1] <;> exact (Decidable.em _).symm

theorem ifaceEq_fixed (l r : Val) : ifaceEq Dev.fixed l r = .ok (Spec.same l r) := by
  cases l <;> cases r <;> simp [ifaceEq, Spec.same, Dev.fixed]
  case ext.ext a b => by_cases h1 : a.ty = b.ty <;> cases h2 : a.cmp <;> simp [h1, h2, Spec.sameExt]

theorem inLoop_fixed (l : Val) (xs : List Val) : inLoop Dev.fixed l xs = .ok (xs.any (Spec.same l)) := by
  induction xs with
  | nil => rfl
  | cons x xs ih =>
    simp only [inLoop, ifaceEq_fixed, List.any_cons]
    cases Spec.same l x <;> simp [ih]

theorem inLoop_ok (d : Dev) (h : d.uncmp = false) (h' : d.ifaceTrap = false) (l : Val) (xs : List Val) : ∃ b, inLoop d l xs = .ok b := by
  induction xs with
  | nil => exact ⟨false, rfl⟩
  | cons x xs ih =>
    obtain ⟨b, hb⟩ := ifaceEq_ok d h h' l x
    simp only [inLoop, hb]
    cases b
    · simpa using ih
    · exact ⟨true, rfl⟩

set_option maxHeartbeats 1000000 in
/-- every operator `case` of the model, with the three deviations repaired, computes the specified
value, for all operand kinds on both sides -/
theorem evalOp_fixed_eq_spec (rx : RxEngine) (o : Op) (l r : Val) :
    evalOp Dev.fixed rx o l r = .ok (Spec.evalOp rx o l r) := by
  cases o
  case eq =>
    cases l <;> cases r <;> simp [evalOp, ifaceEq, Spec.evalOp, Spec.eqv, Spec.num?, Dev.fixed, Dev.toF] <;> try (split <;> simp_all)
    case ext.ext a b => by_cases h1 : a.ty = b.ty <;> cases h2 : a.cmp <;> by_cases h3 : a.id = b.id <;> simp_all [Spec.sameExt]
  case neq =>
    cases l <;> cases r <;> simp [evalOp, ifaceEq, Spec.evalOp, Spec.eqv, Spec.num?, Dev.fixed, Dev.toF] <;> try (split <;> simp_all)
    case ext.ext a b => by_cases h1 : a.ty = b.ty <;> cases h2 : a.cmp <;> by_cases h3 : a.id = b.id <;> simp_all [Spec.sameExt]
  case lt => cases l <;> cases r <;> simp [evalOp, ordering, Spec.evalOp, Spec.ltv, Spec.num?, Dev.fixed, Dev.toF]
  case gt => cases l <;> cases r <;> simp [evalOp, ordering, Spec.evalOp, Spec.ltv, Spec.num?, Dev.fixed, Dev.toF]
  case lte => cases l <;> cases r <;> simp [evalOp, ordering, Spec.evalOp, Spec.lev, Spec.num?, Dev.fixed, Dev.toF]
  case gte => cases l <;> cases r <;> simp [evalOp, ordering, Spec.evalOp, Spec.lev, Spec.num?, Dev.fixed, Dev.toF]
  case or => cases l <;> cases r <;> simp [evalOp, asBool, Spec.evalOp, Spec.truth]
  case and => cases l <;> cases r <;> simp [evalOp, asBool, Spec.evalOp, Spec.truth]
  case not => cases l <;> simp [evalOp, asBool, Spec.evalOp, Spec.truth]
  case add => cases l <;> cases r <;> simp [evalOp, Spec.evalOp, Spec.arith, Spec.arithInt, Spec.arithFlt]
  case sub => cases l <;> cases r <;> simp [evalOp, Spec.evalOp, Spec.arith, Spec.arithInt, Spec.arithFlt]
  case mult => cases l <;> cases r <;> simp [evalOp, Spec.evalOp, Spec.arith, Spec.arithInt, Spec.arithFlt]
  case divide =>
    cases l <;> cases r <;> simp [evalOp, Spec.evalOp, Spec.arith, Spec.arithInt, Spec.arithFlt] <;> (split <;> simp_all)
  case «in» => cases r <;> simp [evalOp, Spec.evalOp, inLoop_fixed]
  case empty => cases r <;> cases l <;> simp [evalOp, Spec.evalOp, Spec.size?]
  case has => cases r <;> cases l <;> simp [evalOp, Spec.evalOp]
  case «exists» => cases r <;> cases l <;> simp [evalOp, Spec.evalOp]
  case rx => cases l <;> cases r <;> simp [evalOp, Spec.evalOp] <;> (split <;> simp_all)
  case length => cases l <;> simp [evalOp, Spec.evalOp, Spec.size?]
  case count => cases l <;> simp [evalOp, Spec.evalOp]
  case «match» => cases l <;> cases r <;> simp [evalOp, Spec.evalOp] <;> (repeat' split) <;> simp_all
  case search => cases l <;> cases r <;> simp [evalOp, Spec.evalOp] <;> (repeat' split) <;> simp_all
  case group => simp [evalOp, Spec.evalOp]

/-! ## faults -/

def isArr : Val → Bool | .arr _ => true | _ => false
def isObj : Val → Bool | .obj _ => true | _ => false
/-- a typed Go value of an uncomparable type (`[]int`, `map[string]int`, `gen.Array`, a struct with a slice field) -/
def isUExt : Val → Bool | .ext e => !e.cmp | _ => false
def isContainer (v : Val) : Bool := isArr v || isObj v || isUExt v

/-- two typed values of the same uncomparable type -/
def sameUExt : Val → Val → Bool
  | .ext a, .ext b => a.ty == b.ty && !a.cmp
  | _, _ => false

/-- both operands hold the same uncomparable Go type -/
def sameContainer (l r : Val) : Bool := (isArr l && isArr r) || (isObj l && isObj r) || sameUExt l r

/-- the operand pairs on which an operator `case` executes a Go `==` between two slices or two maps -/
def uncomparablePair (o : Op) (l r : Val) : Bool :=
  match o with
  | .eq | .neq => sameContainer l r
  | .in => match r with
    | .arr xs => xs.any (sameContainer l)
    | _ => false
  | _ => false

theorem ifaceEq_error_iff (d : Dev) (l r : Val) :
    (∃ f, ifaceEq d l r = .error f) ↔ (d.faultFlag l = true ∧ sameContainer l r = true) := by
  cases l <;> cases r <;> cases h : d.uncmp <;> cases h' : d.ifaceTrap <;>
    simp [ifaceEq, sameContainer, isArr, isObj, sameUExt, Dev.faultFlag, passesGuard, h, h']
  all_goals (rename_i a b; by_cases h1 : a.ty = b.ty <;> cases h2 : a.cmp <;> cases h3 : a.tcmp <;> simp [h1])

theorem ifaceEq_container_false (d : Dev) (l r : Val) (hl : isContainer l = true) :
    ifaceEq d l r ≠ .ok true := by
  cases l <;> cases r <;> cases h : d.uncmp <;> simp_all [ifaceEq, isContainer, isArr, isObj, isUExt]
  all_goals (rename_i a b; by_cases h1 : a.ty = b.ty <;> simp [h1] <;> split <;> simp)

theorem ifaceEq_noncontainer_ok (d : Dev) (l r : Val) (hl : isContainer l = false) :
    ∃ b, ifaceEq d l r = .ok b := by
  cases l <;> cases r <;> simp_all [ifaceEq, isContainer, isArr, isObj, isUExt]
  case ext.ext a b => by_cases h1 : a.ty = b.ty <;> simp [h1] <;> exact (Decidable.em _).symm

theorem sameContainer_noncontainer (l r : Val) (hl : isContainer l = false) : sameContainer l r = false := by
  cases l <;> cases r <;> simp_all [sameContainer, isContainer, isArr, isObj, isUExt, sameUExt]

theorem inLoop_error_iff (d : Dev) (l : Val) (xs : List Val) :
    (∃ f, inLoop d l xs = .error f) ↔ (d.faultFlag l = true ∧ xs.any (sameContainer l) = true) := by
  induction xs with
  | nil => simp [inLoop]
  | cons x xs ih =>
    cases hc : isContainer l
    · -- a scalar on the left never faults
      obtain ⟨b, hb⟩ := ifaceEq_noncontainer_ok d l x hc
      have hs : ∀ y, sameContainer l y = false := fun y => sameContainer_noncontainer l y hc
      simp only [inLoop, hb, List.any_cons, hs, Bool.false_or]
      cases b
      · simpa [hs] using ih
      · simp [hs]
    · -- a container on the left never compares equal, so the loop reaches every element
      have hne := ifaceEq_container_false d l x hc
      cases hx : ifaceEq d l x with
      | error f =>
        have := (ifaceEq_error_iff d l x).1 ⟨f, hx⟩
        simp [inLoop, hx, this.1, this.2]
      | ok b =>
        cases b
        · have hno : ¬ (d.faultFlag l = true ∧ sameContainer l x = true) := by
            intro h
            obtain ⟨f, hf⟩ := (ifaceEq_error_iff d l x).2 h
            rw [hx] at hf
            cases hf
          simp only [inLoop, hx, List.any_cons, Bool.or_eq_true]
          rw [show (if false = true then (Except.ok true : Except Fault Bool) else inLoop d l xs) = inLoop d l xs from rfl, ih]
          constructor
          · rintro ⟨h1, h2⟩
            exact ⟨h1, Or.inr h2⟩
          · rintro ⟨h1, h2 | h2⟩
            · exact absurd ⟨h1, h2⟩ hno
            · exact ⟨h1, h2⟩
        · exact absurd hx hne

set_option maxHeartbeats 1000000 in
/-- exact characterisation of the faulting operator applications -/
theorem evalOp_error_iff (d : Dev) (rx : RxEngine) (o : Op) (l r : Val) :
    (∃ f, evalOp d rx o l r = .error f) ↔ (d.faultFlag l = true ∧ uncomparablePair o l r = true) := by
  cases o
  case eq =>
    rw [show uncomparablePair .eq l r = sameContainer l r from rfl, ← ifaceEq_error_iff]
    simp only [evalOp]
    cases h : ifaceEq d l r with
    | error f => simp
    | ok b =>
      cases b <;> cases l <;> cases r <;> simp
  case neq =>
    rw [show uncomparablePair .neq l r = sameContainer l r from rfl, ← ifaceEq_error_iff]
    simp only [evalOp]
    cases h : ifaceEq d l r with
    | error f => simp
    | ok b =>
      cases b <;> cases l <;> cases r <;> simp
  case «in» =>
    cases r
    case arr xs =>
      rw [show uncomparablePair .in l (.arr xs) = xs.any (sameContainer l) from rfl, ← inLoop_error_iff]
      simp only [evalOp]
      cases h : inLoop d l xs <;> simp
    all_goals simp [evalOp, uncomparablePair]
  case divide => cases l <;> cases r <;> simp [evalOp, uncomparablePair] <;> (split <;> simp)
  case rx => cases l <;> cases r <;> simp [evalOp, uncomparablePair]
  case «match» => cases l <;> cases r <;> simp [evalOp, uncomparablePair] <;> (repeat' split) <;> simp
  case search => cases l <;> cases r <;> simp [evalOp, uncomparablePair] <;> (repeat' split) <;> simp
  case empty => cases r <;> cases l <;> simp [evalOp, uncomparablePair]
  case has => cases r <;> simp [evalOp, uncomparablePair]
  case «exists» => cases r <;> simp [evalOp, uncomparablePair]
  case length => cases l <;> simp [evalOp, uncomparablePair]
  case count => cases l <;> simp [evalOp, uncomparablePair]
  all_goals (cases l <;> cases r <;> simp [evalOp, uncomparablePair, ordering])

theorem faultFlag_false (d : Dev) (h : d.uncmp = false) (h' : d.ifaceTrap = false) (l : Val) : d.faultFlag l = false := by
  simp [Dev.faultFlag, h, h']

theorem evalOp_ok_of_fixed (d : Dev) (h : d.uncmp = false) (h' : d.ifaceTrap = false) (rx : RxEngine) (o : Op) (l r : Val) :
    ∃ v, evalOp d rx o l r = .ok v := by
  cases hv : evalOp d rx o l r with
  | ok v => exact ⟨v, rfl⟩
  | error f =>
    have := (evalOp_error_iff d rx o l r).1 ⟨f, hv⟩
    rw [faultFlag_false d h h'] at this
    exact absurd this.1 (by simp)

end OjgVerif.Script
