import OjgVerif.Common.Driver
import OjgVerif.Script.Model
/-! Driver ops of the script family.

Values and expression trees travel in postfix (RPN) token form, tokens separated by one space:

  values  `n` null · `t` `f` · `N` Nothing · `i<int>` · `d<m>:<e>` (m·2^e) `dinf` `d-inf` `dnan` ·
          `s<hex>` string · `r<hex>` regex pattern · `x<ty>,<cmp>,<id>,<core>,<tcmp>` typed Go value (`Val.ext`) · `a<k>` array of the k values below ·
          `o<k>` object of the k (string key, value) pairs below
  trees   `c` constant of the value below · `p<@|$>[:c<hex>|:n<int>|:w]*` path ·
          `u<op>` / `b<op>` application to the one / two trees below

Requests:
  `val <dev> <op> <l> <r>`                → model and specification value of one operator application
  `run <dev> <wrap> <root> <tree> <data>` → per-element verdicts; `<wrap>` is `1` (Script(): a bare path laid out as
          `path exists true`), `0` (Filter(): the path alone) or `o` (as `0`, evaluated as before 6b93c2a);
          `<root>` is `self` (Script.Match:
          `$` is the element), `doc` (Expr.Get: `$` is the filtered container) or `nil` (Script.Eval)

`<dev>` is the set of deviations the model carries: letters `u` (uncomparable panic), `q`
(float != x), `v` (int via float64), `i` (== on struct/array values holding a slice or map in an interface field
panics: the CURRENT tree), or `-`. Verdict letters: `t` `f`, `X` uncomparable fault,
`Y` index fault. -/
namespace OjgVerif.Script
open OjgVerif

inductive Cell where
  | v (x : Val)
  | t (x : Tm)
  | bad

def opOfName (s : String) : Option Op :=
  match s with
  | "eq" => some .eq | "neq" => some .neq | "lt" => some .lt | "gt" => some .gt
  | "lte" => some .lte | "gte" => some .gte | "or" => some .or | "and" => some .and
  | "not" => some .not | "add" => some .add | "sub" => some .sub | "mult" => some .mult
  | "divide" => some .divide | "in" => some .in | "empty" => some .empty | "rx" => some .rx
  | "has" => some .has | "exists" => some .exists | "length" => some .length
  | "count" => some .count | "match" => some .match | "search" => some .search
  | "group" => some .group
  | _ => none

def parseFlt (s : String) : Option Flt :=
  if s = "inf" then some (.inf false)
  else if s = "-inf" then some (.inf true)
  else if s = "nan" then some .nan
  else match s.splitOn ":" with
    | [m, e] => match m.toInt?, e.toInt? with
      | some m, some e => some (.fin m e)
      | _, _ => none
    | _ => none

/-- normalisation class of a typed value: `-` none, `si<int>` int…int32, `ui<int>` uint…uint64, `f<flt>` float32,
`gb0|gb1` gen.Bool, `gi<int>` gen.Int, `gd<flt>` gen.Float, `gs<hex>` gen.String -/
def parseCore (s : String) : Option Core :=
  if s = "-" then some .none
  else if s.startsWith "si" then ((s.drop 2).toString.toInt?).map .sint
  else if s.startsWith "ui" then ((s.drop 2).toString.toInt?).map .uint
  else if s = "gb0" then some (.gbool false)
  else if s = "gb1" then some (.gbool true)
  else if s.startsWith "gi" then ((s.drop 2).toString.toInt?).map .gint
  else if s.startsWith "gd" then (parseFlt (s.drop 2).toString).map .gflt
  else if s.startsWith "gs" then (ofHex (s.drop 2).toString).map .gstr
  else if s.startsWith "f" then (parseFlt (s.drop 1).toString).map .f32
  else none

def parseFrags : List String → Option (List Frag)
  | [] => some []
  | f :: r =>
    match parseFrags r with
    | none => none
    | some fs =>
      if f = "w" then some (.wild :: fs)
      else if f.startsWith "c" then (ofHex (f.drop 1).toString).map fun k => .child k :: fs
      else if f.startsWith "n" then ((f.drop 1).toString.toInt?).map fun i => .nth i :: fs
      else none

def popVals : Nat → List Cell → Option (List Val × List Cell)
  | 0, st => some ([], st)
  | n + 1, .v x :: st => (popVals n st).map fun p => (p.1 ++ [x], p.2)
  | _, _ => none

def popPairs : Nat → List Cell → Option (List (Bytes × Val) × List Cell)
  | 0, st => some ([], st)
  | n + 1, .v x :: .v (.str k) :: st => (popPairs n st).map fun p => (p.1 ++ [(k, x)], p.2)
  | _, _ => none

def stepTok (st : List Cell) (tok : String) : List Cell :=
  let rest := (tok.drop 1).toString
  if tok = "n" then .v .null :: st
  else if tok = "t" then .v (.bool true) :: st
  else if tok = "f" then .v (.bool false) :: st
  else if tok = "N" then .v .nothing :: st
  else if tok = "c" then
    match st with
    | .v x :: st' => .t (.const x) :: st'
    | _ => [.bad]
  else if tok.startsWith "i" then
    match rest.toInt? with
    | some i => .v (.int i) :: st
    | none => [.bad]
  else if tok.startsWith "d" then
    match parseFlt rest with
    | some f => .v (.flt f) :: st
    | none => [.bad]
  else if tok.startsWith "s" then
    match ofHex rest with
    | some b => .v (.str b) :: st
    | none => [.bad]
  else if tok.startsWith "r" then
    match ofHex rest with
    | some b => .v (.rx b) :: st
    | none => [.bad]
  else if tok.startsWith "a" then
    match rest.toNat? with
    | some k => match popVals k st with
      | some (xs, st') => .v (.arr xs) :: st'
      | none => [.bad]
    | none => [.bad]
  else if tok.startsWith "o" then
    match rest.toNat? with
    | some k => match popPairs k st with
      | some (kvs, st') => .v (.obj kvs) :: st'
      | none => [.bad]
    | none => [.bad]
  else if tok.startsWith "x" then
    match rest.splitOn "," with
    | [ty, cmp, id, core, tcmp] =>
      match ty.toNat?, id.toNat?, parseCore core with
      | some ty, some id, some c =>
        if (cmp = "0" || cmp = "1") && (tcmp = "0" || tcmp = "1") then .v (.ext ⟨ty, cmp = "1", id, c, tcmp = "1"⟩) :: st else [.bad]
      | _, _, _ => [.bad]
    | _ => [.bad]
  else if tok.startsWith "p" then
    match rest.splitOn ":" with
    | hd :: fr =>
      if hd ≠ "@" && hd ≠ "$" then [.bad]
      else match parseFrags fr with
        | some fs => .t (.path ⟨hd = "$", fs⟩) :: st
        | none => [.bad]
    | [] => [.bad]
  else if tok.startsWith "u" then
    match opOfName rest, st with
    | some o, .t a :: st' => .t (.app1 o a) :: st'
    | _, _ => [.bad]
  else if tok.startsWith "b" then
    match opOfName rest, st with
    | some o, .t b :: .t a :: st' => .t (.app2 o a b) :: st'
    | _, _ => [.bad]
  else [.bad]

def runToks (s : String) : List Cell :=
  (s.splitOn " ").foldl (fun st tok => match st with | [.bad] => [.bad] | _ => stepTok st tok) []

def parseVal (s : String) : Option Val :=
  match runToks s with
  | [.v x] => some x
  | _ => none

def parseTm (s : String) : Option Tm :=
  match runToks s with
  | [.t x] => some x
  | _ => none

def parseDev (s : String) : Option Dev :=
  if s.toList.all (fun c => c = 'u' || c = 'q' || c = 'v' || c = 'i' || c = '-') then
    some ⟨s.contains 'u', s.contains 'q', s.contains 'v', s.contains 'i'⟩
  else none

/-! literal-text regular expressions: optional `^`, then letters/digits/space/underscore and bytes of
multi-byte UTF-8 characters, optional `$`; anything else is reported as not compiling. The harness
sends only such patterns (valid UTF-8) or patterns Go rejects (`(`). -/
def isLit (b : UInt8) : Bool :=
  (48 ≤ b && b ≤ 57) || (65 ≤ b && b ≤ 90) || (97 ≤ b && b ≤ 122) || b = 32 || b = 95 || 128 ≤ b

def isPrefixOf (p s : Bytes) : Bool := p.length ≤ s.length && s.take p.length == p

def containsAt (p : Bytes) : Nat → Bytes → Bool
  | 0, s => isPrefixOf p s
  | n + 1, s => isPrefixOf p s || (match s with | [] => false | _ :: r => containsAt p n r)

def litRx : RxEngine := fun pat s =>
  let a := pat.head? = some 94
  let p1 := if a then pat.drop 1 else pat
  let z := p1.getLast? = some 36
  let p := if z then p1.dropLast else p1
  if !p.all isLit then none
  else if a && z then some (p == s)
  else if a then some (isPrefixOf p s)
  else if z then some (p.length ≤ s.length && s.drop (s.length - p.length) == p)
  else some (containsAt p s.length s)

/-! rendering -/
def renderFlt : Flt → String
  | .fin m e => toString m ++ ":" ++ toString e
  | .inf false => "inf"
  | .inf true => "-inf"
  | .nan => "nan"

def renderCore : Core → String
  | .none => "-"
  | .sint i => "si" ++ toString i
  | .uint i => "ui" ++ toString i
  | .f32 f => "f" ++ renderFlt f
  | .gbool b => if b then "gb1" else "gb0"
  | .gint i => "gi" ++ toString i
  | .gflt f => "gd" ++ renderFlt f
  | .gstr s => "gs" ++ toHexF s

mutual
  /-- the token form again (so that the harness can feed a model value back into a tree) -/
  def renderVal : Val → String
    | .null => "n"
    | .bool true => "t"
    | .bool false => "f"
    | .nothing => "N"
    | .int i => "i" ++ toString i
    | .flt f => "d" ++ renderFlt f
    | .str s => "s" ++ toHexF s
    | .rx s => "r" ++ toHexF s
    | .ext e => "x" ++ toString e.ty ++ "," ++ (if e.cmp then "1" else "0") ++ "," ++ toString e.id ++ "," ++ renderCore e.core
        ++ "," ++ (if e.tcmp then "1" else "0")
    | .arr xs => renderVals xs ++ "a" ++ toString xs.length
    | .obj kvs => renderKvs kvs ++ "o" ++ toString kvs.length
  def renderVals : List Val → String
    | [] => ""
    | x :: r => renderVal x ++ " " ++ renderVals r
  def renderKvs : List (Bytes × Val) → String
    | [] => ""
    | (k, v) :: r => "s" ++ toHexF k ++ " " ++ renderVal v ++ " " ++ renderKvs r
end

def renderRes : Except Fault Val → String
  | .ok v => renderVal v
  | .error .uncomparable => "X"
  | .error .index => "Y"

def verdict : Except Fault Bool → Char
  | .ok true => 't'
  | .ok false => 'f'
  | .error .uncomparable => 'X'
  | .error .index => 'Y'

def without (d : Dev) (c : Char) : Dev :=
  if c = 'u' then { d with uncmp := false }
  else if c = 'q' then { d with neqFlt := false }
  else if c = 'i' then { d with ifaceTrap := false }
  else { d with viaF64 := false }

def handle : List String → String
  | ["val", dv, opn, ls, rs] =>
    match parseDev dv, opOfName opn, parseVal ls, parseVal rs with
    | some d, some o, some l, some r =>
      "S:" ++ renderVal (Spec.evalOp litRx o l r) ++ "|M:" ++ renderRes (evalOp d litRx o l r)
        ++ "|F:" ++ renderRes (evalOp Dev.fixed litRx o l r)
    | _, _, _, _ => "bad-op"
  | ["run", dv, wrap, rootMode, ts, ds] =>
    match parseDev dv, parseTm ts, parseVal ds with
    | some d, some t, some data =>
      if wrap ≠ "0" && wrap ≠ "1" && wrap ≠ "o" then "bad-op"
      else if rootMode ≠ "self" && rootMode ≠ "doc" && rootMode ≠ "nil" then "bad-op"
      else
        let prog := compile (wrap = "1") t
        let els := elements data
        let rootOf := fun (e : Val) => if rootMode = "self" then e else if rootMode = "doc" then data else Val.null
        let run := if wrap = "o" then matchGeneral else matchElem
        let model := fun (d : Dev) => String.ofList (els.map fun e => verdict (run d litRx prog e (rootOf e)))
        let spec := String.ofList (els.map fun e => if Spec.matches litRx t e (rootOf e) then 't' else 'f')
        "S:" ++ spec ++ "|M:" ++ model d ++ "|F:" ++ model Dev.fixed
          ++ "|u:" ++ model (without d 'u') ++ "|q:" ++ model (without d 'q') ++ "|v:" ++ model (without d 'v')
          ++ "|i:" ++ model (without d 'i')
    | _, _, _ => "bad-op"
  | _ => "bad-op"

end OjgVerif.Script
