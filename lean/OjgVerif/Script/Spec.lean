import OjgVerif.Script.Num
/-! # Specification: truth value of a filter script (repo-independent)

A script is an expression tree over constants, paths, operators and functions. Its value on a data
element is defined by structural recursion; a script MATCHES an element when its value is the boolean
`true`. A path occurrence that selects several nodes makes the script match when SOME choice of one
node per occurrence does.

What the property's text fixes: numbers compare by exact value across int and float, strings
byte-lexically, `==`/`!=` are complements on all operand kinds (containers and mismatched kinds are
simply unequal), ordering between different kinds is false, a path selecting nothing is `Nothing` for
`exists`/`has`, `&& || !` are the boolean connectives.

Formalisation choices (the text is silent; the reading the code implements consistently):
* ordering operators are defined on numbers and on strings only: `null <= null`, `true >= true`,
  `[1] <= [1]` are false;
* a non-boolean operand of `&& || !` counts as false; `has/exists/empty` with a non-boolean right
  operand are false;
* `in` is membership by same-kind equality WITHOUT int/float conversion (`1 in [1.0]` is false), a
  container is never a member; two regular-expression values are never equal;
* arithmetic: int64 wraps, division truncates, `x / 0` is `Nothing`, mixed int/float operands are
  converted to binary64 first (the usual arithmetic conversion — rounding there is the defined result,
  unlike in comparisons), `+` concatenates two strings, anything else is `Nothing`;
* `length` counts bytes / elements / members; `count` applies to a path and counts the nodes it selects
  with the element under test as its root (also for a path written with `$`);
  `match` anchors the pattern at both ends, `search` does not; an empty or invalid pattern gives
  `Nothing` for the two functions and `false` for `=~`;
* a script that consists of a path only is an existence test (RFC 9535 §2.3.5; what `jp.NewScript`
  builds);
* a path without wildcard selects at most one node; each path occurrence chooses independently;
* `$` inside a script denotes whatever root the caller supplies;
* TYPED Go data (`Val.ext`): a value of a sized number type or a `gen` scalar node reached through a path
  denotes its number / boolean / string (`Val.norm`; `uint64` above MaxInt64 wraps, as `int64(x)` does);
  every other typed value — named scalar types, pointers, arrays, typed slices and maps, structs,
  `gen.Array`/`gen.Object` — is an opaque value: equal (`==`, `in`) exactly to the same value of the same
  comparable type, unequal to everything else (a typed container is "simply unequal", even to itself),
  never ordered, not a boolean, no size (`length`/`empty` are defined on strings, `[]any` and
  `map[string]any` only), present for `exists`/`has`. Members of a list operand of `in` are compared as
  stored (not normalised). -/
namespace OjgVerif.Script.Spec
open OjgVerif OjgVerif.Script

/-! ## Path selection (the JSONPath denotation, restricted to member / index / wildcard) -/

def lookup (k : Bytes) : List (Bytes × Val) → Option Val
  | [] => none
  | (k', v) :: r => if k' = k then some v else lookup k r

def selFrag (f : Frag) (v : Val) : List Val :=
  match f, v with
  | .child k, .obj kvs => (lookup k kvs).toList
  | .nth i, .arr xs =>
    let j := if i < 0 then i + xs.length else i
    if j < 0 then [] else (xs[j.toNat]?).toList
  | .wild, .arr xs => xs
  | .wild, .obj kvs => kvs.map (·.2)
  | _, _ => []

def selFrags : List Frag → List Val → List Val
  | [], vs => vs
  | f :: r, vs => selFrags r (vs.flatMap (selFrag f))

/-- nodes selected by a path; `elem` is `@`, `root` is `$` -/
def sel (p : Path) (elem root : Val) : List Val :=
  selFrags p.frags [if p.root then root else elem]

def Path.normal (p : Path) : Bool := p.frags.all fun f => f != .wild

/-- the values one occurrence of a path can take -/
def candidates (p : Path) (elem root : Val) : List Val :=
  match sel p elem root with
  | [] => [.nothing]
  | v :: r => if Path.normal p then [v.norm] else (v :: r).map Val.norm

/-! ## Operators on single values -/

/-- exact numeric value -/
def num? : Val → Option Flt
  | .int i => some (.fin i 0)
  | .flt f => some f
  | _ => none

/-- two typed values are equal when they have the same type, the type is comparable and they are the same
value of it; a typed container (uncomparable type) equals nothing, not even itself -/
def sameExt (x y : Ext) : Bool := x.ty == y.ty && x.cmp && x.id == y.id

def eqv (a b : Val) : Bool :=
  match num? a, num? b with
  | some x, some y => Flt.eq x y
  | _, _ =>
    match a, b with
    | .null, .null => true
    | .bool x, .bool y => x == y
    | .str x, .str y => x == y
    | .nothing, .nothing => true
    | .ext x, .ext y => sameExt x y
    | _, _ => false

def ltv (a b : Val) : Bool :=
  match num? a, num? b with
  | some x, some y => Flt.lt x y
  | _, _ =>
    match a, b with
    | .str x, .str y => bytesLt x y
    | _, _ => false

def lev (a b : Val) : Bool :=
  match num? a, num? b with
  | some x, some y => Flt.le x y
  | _, _ =>
    match a, b with
    | .str x, .str y => !bytesLt y x
    | _, _ => false

def truth : Val → Bool
  | .bool b => b
  | _ => false

/-- same-kind equality without numeric conversion, containers never equal (for `in`) -/
def same (a b : Val) : Bool :=
  match a, b with
  | .null, .null => true
  | .bool x, .bool y => x == y
  | .int x, .int y => x == y
  | .flt x, .flt y => Flt.eq x y
  | .str x, .str y => x == y
  | .nothing, .nothing => true
  | .ext x, .ext y => sameExt x y
  | _, _ => false

inductive Arith where | add | sub | mul | div

def arithInt : Arith → Int → Int → Val
  | .add, a, b => .int (wrap64 (a + b))
  | .sub, a, b => .int (wrap64 (a - b))
  | .mul, a, b => .int (wrap64 (a * b))
  | .div, a, b => if b = 0 then .nothing else .int (wrap64 (Int.tdiv a b))

def arithFlt : Arith → Flt → Flt → Val
  | .add, a, b => .flt (Flt.add a b)
  | .sub, a, b => .flt (Flt.sub a b)
  | .mul, a, b => .flt (Flt.mul a b)
  | .div, a, b => if Flt.eq b (.fin 0 0) then .nothing else .flt (Flt.div a b)

def arith (k : Arith) (a b : Val) : Val :=
  match a, b with
  | .int x, .int y => arithInt k x y
  | .int x, .flt y =>
    match k with
    | .div => if Flt.eq y (.fin 0 0) then .nothing else .flt (Flt.div (Flt.ofInt x) y)
    | _ => arithFlt k (Flt.ofInt x) y
  | .flt x, .int y =>
    match k with
    | .div => if y = 0 then .nothing else .flt (Flt.div x (Flt.ofInt y))
    | _ => arithFlt k x (Flt.ofInt y)
  | .flt x, .flt y => arithFlt k x y
  | .str x, .str y => match k with | .add => .str (x ++ y) | _ => .nothing
  | _, _ => .nothing

def size? : Val → Option Nat
  | .str s => some s.length
  | .arr xs => some xs.length
  | .obj kvs => some kvs.length
  | _ => none

/-- `^pattern$` unless the anchors are already there -/
def anchor (p : Bytes) : Bytes :=
  let q := if p.head? = some 94 then p else 94 :: p
  if q.getLast? = some 36 then q else q ++ [36]

def evalOp (rx : RxEngine) (o : Op) (l r : Val) : Val :=
  match o with
  | .eq => .bool (eqv l r)
  | .neq => .bool (!eqv l r)
  | .lt => .bool (ltv l r)
  | .gt => .bool (ltv r l)
  | .lte => .bool (lev l r)
  | .gte => .bool (lev r l)
  | .or => .bool (truth l || truth r)
  | .and => .bool (truth l && truth r)
  | .not => .bool (!truth l)
  | .add => arith .add l r
  | .sub => arith .sub l r
  | .mult => arith .mul l r
  | .divide => arith .div l r
  | .in => match r with
    | .arr xs => .bool (xs.any (same l))
    | _ => .bool false
  | .empty => match r, size? l with
    | .bool b, some n => .bool (b == (n == 0))
    | _, _ => .bool false
  | .has | .exists => match r with
    | .bool b => .bool (b == (match l with | .nothing => false | _ => true))
    | _ => .bool false
  | .rx => match l with
    | .str s => match r with
      | .str p => .bool ((rx p s).getD false)
      | .rx p => .bool ((rx p s).getD false)
      | _ => .bool false
    | _ => .bool false
  | .length => match size? l with
    | some n => .int n
    | none => .nothing
  | .count => match l with
    | .arr xs => .int xs.length
    | _ => .nothing
  | .match => match l, r with
    | .str s, .str p => if p.isEmpty then .nothing else
        match rx (anchor p) s with | some b => .bool b | none => .nothing
    | _, _ => .nothing
  | .search => match l, r with
    | .str s, .str p => if p.isEmpty then .nothing else
        match rx p s with | some b => .bool b | none => .nothing
    | _, _ => .nothing
  | .group => l

/-! ## Scripts -/

/-- value of a closed expression (every path occurrence already replaced by a chosen value) -/
def eval (rx : RxEngine) : Tm → Val
  | .const v => v
  | .path _ => .nothing
  | .app1 o a => evalOp rx o (eval rx a) .null
  | .app2 o a b => evalOp rx o (eval rx a) (eval rx b)

/-- all ways to replace the path occurrences of an expression by one of their candidate values
(`count` receives the array of all selected nodes of its path, `Nothing` for any other argument) -/
def choices (elem root : Val) : Tm → List Tm
  | .const v => [.const v]
  | .path p => (candidates p elem root).map .const
  | .app1 o a =>
    if o = .count then
      match a with
      | .path p => [.app1 .count (.const (.arr (sel p elem elem)))]
      | _ => [.const .nothing]
    else (choices elem root a).map (.app1 o)
  | .app2 o a b => (choices elem root a).flatMap fun a' => (choices elem root b).map fun b' => .app2 o a' b'

/-- a path alone is an existence test -/
def normalise : Tm → Tm
  | .path p => .app2 .exists (.path p) (.const (.bool true))
  | t => t

def isTrue : Val → Bool
  | .bool true => true
  | _ => false

/-- the script matches the element -/
def «matches» (rx : RxEngine) (t : Tm) (elem root : Val) : Bool :=
  (choices elem root (normalise t)).any fun t' => isTrue (eval rx t')

end OjgVerif.Script.Spec
