import OjgVerif.Script.LemmasTree
import OjgVerif.Script.LemmasDev
/-! Scripts whose evaluation stays outside the deviation classes the model carries. -/
namespace OjgVerif.Script
open OjgVerif

/-- the operator application falls into a deviation class that `d` carries -/
def devHit (d : Dev) (o : Op) (l r : Val) : Bool :=
  (d.faultFlag l && uncomparablePair o l r) || (d.neqFlt && neqFloatCase o l r) || (d.viaF64 && bigMixed o l r)

/-- no operator application of the closed tree (operands as the specification evaluates them) falls
into a deviation class that `d` carries -/
def Clean (d : Dev) (rx : RxEngine) : Tm → Bool
  | .const _ => true
  | .path _ => true
  | .app1 o a => Clean d rx a && !devHit d o (Spec.eval rx a) .null
  | .app2 o a b =>
    if o.cnt = 1 then Clean d rx a && !devHit d o (Spec.eval rx a) .null
    else Clean d rx a && Clean d rx b && !devHit d o (Spec.eval rx a) (Spec.eval rx b)

theorem evalOp_eq_spec_of_noHit (d : Dev) (rx : RxEngine) (o : Op) (l r : Val) (h : devHit d o l r = false) :
    evalOp d rx o l r = .ok (Spec.evalOp rx o l r) := by
  simp only [devHit, Bool.or_eq_false_iff, Bool.and_eq_false_iff] at h
  obtain ⟨⟨h1, h2⟩, h3⟩ := h
  apply evalOp_eq_spec_of
  · intro hu; rcases h1 with h1 | h1
    · rw [hu] at h1; cases h1
    · exact h1
  · intro hu; rcases h2 with h2 | h2
    · rw [hu] at h2; cases h2
    · exact h2
  · intro hu; rcases h3 with h3 | h3
    · rw [hu] at h3; cases h3
    · exact h3

theorem evalTm_clean (d : Dev) (rx : RxEngine) (t : Tm) :
    Clean d rx t = true → evalTm d rx t = .ok (Spec.eval rx t) := by
  induction t with
  | const v => intro _; rfl
  | path p => intro _; rfl
  | app1 o a iha =>
    intro h
    simp only [Clean, Bool.and_eq_true, Bool.not_eq_eq_eq_not, Bool.not_true] at h
    simp only [evalTm, iha h.1, Spec.eval]
    exact evalOp_eq_spec_of_noHit d rx o _ _ h.2
  | app2 o a b iha ihb =>
    intro h
    by_cases hc : o.cnt = 1
    · simp only [Clean, hc, ↓reduceIte, Bool.and_eq_true, Bool.not_eq_eq_eq_not, Bool.not_true] at h
      simp only [evalTm, hc, ↓reduceIte, iha h.1, Spec.eval]
      rw [Spec.evalOp_unary rx o hc _ (Spec.eval rx b) .null]
      exact evalOp_eq_spec_of_noHit d rx o _ _ h.2
    · simp only [Clean, hc, ↓reduceIte, Bool.and_eq_true, Bool.not_eq_eq_eq_not, Bool.not_true] at h
      simp only [evalTm, hc, ↓reduceIte, iha h.1.1, ihb h.1.2, Spec.eval]
      exact evalOp_eq_spec_of_noHit d rx o _ _ h.2

theorem stackTrue_flattenS_clean (d : Dev) (rx : RxEngine) (c : Tm) (hc : Clean d rx c = true) :
    (∃ vs, evalStack d rx (flattenS c) = .ok vs) ∧
      stackTrue d rx (flattenS c) = Spec.isTrue (Spec.eval rx c) := by
  have h := evalStack_flattenS_head d rx c
  rw [evalTm_clean d rx c hc] at h
  cases hs : evalStack d rx (flattenS c) with
  | error f => rw [hs] at h; cases h
  | ok vs =>
    rw [hs] at h
    have h' : vs.headD .null = Spec.eval rx c := Except.ok.inj h
    refine ⟨⟨vs, rfl⟩, ?_⟩
    unfold stackTrue
    rw [hs]
    show Spec.isTrue (vs.headD .null) = _
    rw [h']

/-- per-element verdict of the model (any deviations) on the program of a well-formed tree all of whose
operand combinations stay outside the deviation classes -/
theorem matchElem_flatten_clean (d : Dev) (rx : RxEngine) (t : Tm) (hwf : t.wf = true) (elem root : Val)
    (hclean : ∀ c ∈ Spec.choices elem root t, Clean d rx c = true) :
    matchGeneral d rx (flatten t) elem root =
      .ok ((Spec.choices elem root t).any fun c => Spec.isTrue (Spec.eval rx c)) := by
  unfold matchGeneral
  have hr := resolve_flatten elem root t hwf []
  simp only [List.append_nil, resolve] at hr
  have hp := prod_rflat elem root t hwf
  rw [hr, matchResolved_any_of_ok d rx _ (rflat_ne_nil elem root t hwf), hp, List.any_map]
  · congr 1
    rw [Bool.eq_iff_iff]
    simp only [List.any_eq_true, Function.comp]
    constructor
    · rintro ⟨c, hc, ht⟩
      exact ⟨c, hc, by rw [← (stackTrue_flattenS_clean d rx c (hclean c hc)).2]; exact ht⟩
    · rintro ⟨c, hc, ht⟩
      exact ⟨c, hc, by rw [(stackTrue_flattenS_clean d rx c (hclean c hc)).2]; exact ht⟩
  · intro x hx
    rw [hp, List.mem_map] at hx
    obtain ⟨c, hc, rfl⟩ := hx
    exact (stackTrue_flattenS_clean d rx c (hclean c hc)).1

end OjgVerif.Script
