import OjgVerif.Script.Lemmas
/-! The three operator-level deviations of the pinned code, as predicates on an operator application,
and agreement of the model with the specification outside them. -/
namespace OjgVerif.Script
open OjgVerif

def isCmp : Op → Bool
  | .eq | .neq | .lt | .gt | .lte | .gte => true
  | _ => false

/-- C12-neq-float: `!=` with a float on the left and anything but an int on the right (two equal floats
are still reported equal) -/
def neqFloatCase (o : Op) (l r : Val) : Bool :=
  match o, l, r with
  | .neq, .flt a, .flt b => !Flt.eq a b
  | .neq, .flt _, .int _ => false
  | .neq, .flt _, _ => true
  | _, _, _ => false

/-- C12-int-via-float64: a comparison between an int of magnitude ≥ 2^53 and a float -/
def bigMixed (o : Op) (l r : Val) : Bool :=
  isCmp o &&
    (match l, r with
     | .int a, .flt _ => decide (2 ^ 53 ≤ a.natAbs)
     | .flt _, .int b => decide (2 ^ 53 ≤ b.natAbs)
     | _, _ => false)

/-- the operator applications on which the pinned code may leave the specification -/
def deviates (o : Op) (l r : Val) : Bool :=
  uncomparablePair o l r || neqFloatCase o l r || bigMixed o l r

theorem toF_exact (d : Dev) (a : Int) (h : d.viaF64 = true → a.natAbs < 2 ^ 53) : d.toF a = .fin a 0 := by
  unfold Dev.toF
  cases hv : d.viaF64
  · rfl
  · simp only [↓reduceIte]
    exact Flt.ofInt_exact a (h hv)

theorem ifaceEq_eq_fixed (d : Dev) (l r : Val) (h : d.faultFlag l = true → sameContainer l r = false) :
    ifaceEq d l r = ifaceEq Dev.fixed l r := by
  cases hok : ifaceEq d l r with
  | error f =>
    have := (ifaceEq_error_iff d l r).1 ⟨f, hok⟩
    rw [h this.1] at this
    exact absurd this.2 (by simp)
  | ok b =>
    rw [← hok]
    cases l <;> cases r <;> try rfl
    case arr.arr => simp only [ifaceEq] at hok ⊢; split at hok <;> simp_all [Dev.fixed]
    case obj.obj => simp only [ifaceEq] at hok ⊢; split at hok <;> simp_all [Dev.fixed]
    case ext.ext a b =>
      simp only [ifaceEq] at hok ⊢
      by_cases h1 : a.ty = b.ty <;> cases h2 : a.cmp <;> simp_all [Dev.fixed]
      split at hok <;> simp_all

theorem inLoop_eq_fixed (d : Dev) (l : Val) (xs : List Val)
    (h : d.faultFlag l = true → xs.any (sameContainer l) = false) : inLoop d l xs = inLoop Dev.fixed l xs := by
  induction xs with
  | nil => rfl
  | cons x xs ih =>
    have h1 : d.faultFlag l = true → sameContainer l x = false := by
      intro hu
      have := h hu
      simp only [List.any_cons, Bool.or_eq_false_iff] at this
      exact this.1
    have h2 : d.faultFlag l = true → xs.any (sameContainer l) = false := by
      intro hu
      have := h hu
      simp only [List.any_cons, Bool.or_eq_false_iff] at this
      exact this.2
    simp only [inLoop, ifaceEq_eq_fixed d l x h1, ih h2]

theorem ordering_eq_fixed (d : Dev) (fi : Int → Int → Bool) (ff : Flt → Flt → Bool) (fs : Bytes → Bytes → Bool)
    (l r : Val)
    (h : d.viaF64 = true → (match l, r with
      | .int a, .flt _ => decide (2 ^ 53 ≤ a.natAbs)
      | .flt _, .int b => decide (2 ^ 53 ≤ b.natAbs)
      | _, _ => false) = false) :
    ordering d fi ff fs l r = ordering Dev.fixed fi ff fs l r := by
  cases l <;> cases r <;> try rfl
  case int.flt a b =>
    have : d.toF a = .fin a 0 := toF_exact d a (fun hv => by simpa using h hv)
    simp only [ordering, this]
    rfl
  case flt.int a b =>
    have : d.toF b = .fin b 0 := toF_exact d b (fun hv => by simpa using h hv)
    simp only [ordering, this]
    rfl

set_option maxHeartbeats 1000000 in
/-- outside the three named classes every operator `case` of the model — for ANY combination of
deviations, in particular for the pinned code — computes the specified value -/
theorem evalOp_eq_spec_of (d : Dev) (rx : RxEngine) (o : Op) (l r : Val)
    (hu : d.faultFlag l = true → uncomparablePair o l r = false)
    (hq : d.neqFlt = true → neqFloatCase o l r = false)
    (hv : d.viaF64 = true → bigMixed o l r = false) :
    evalOp d rx o l r = .ok (Spec.evalOp rx o l r) := by
  rw [← evalOp_fixed_eq_spec]
  cases o
  case eq =>
    have h1 := ifaceEq_eq_fixed d l r hu
    simp only [bigMixed, isCmp, Bool.true_and] at hv
    cases l <;> cases r <;> simp only [evalOp, h1] <;> try rfl
    case int.flt a b =>
      have : d.toF a = .fin a 0 := toF_exact d a (fun h => by simpa using hv h)
      rw [this]
      rfl
    case flt.int a b =>
      have : d.toF b = .fin b 0 := toF_exact d b (fun h => by simpa using hv h)
      rw [this]
      rfl
  case neq =>
    have h1 := ifaceEq_eq_fixed d l r hu
    simp only [bigMixed, isCmp, Bool.true_and] at hv
    cases l <;> cases r <;> simp only [evalOp, h1] <;> try rfl
    case int.flt a b =>
      have : d.toF a = .fin a 0 := toF_exact d a (fun h => by simpa using hv h)
      rw [this]
      rfl
    case flt.int a b =>
      have : d.toF b = .fin b 0 := toF_exact d b (fun h => by simpa using hv h)
      rw [this]
      rfl
    case flt.flt a b =>
      -- two different floats: the pinned code answers false
      cases hn : d.neqFlt
      · simp [Dev.fixed]
      · have := hq hn
        simp only [neqFloatCase, Bool.not_eq_false'] at this
        simp [ifaceEq, this]
    all_goals
      cases hn : d.neqFlt
      · simp [Dev.fixed]
      · have := hq hn
        simp [neqFloatCase] at this
  case lt => simp only [evalOp]; rw [ordering_eq_fixed d _ _ _ l r (fun h => by simpa [bigMixed, isCmp] using hv h)]
  case gt => simp only [evalOp]; rw [ordering_eq_fixed d _ _ _ l r (fun h => by simpa [bigMixed, isCmp] using hv h)]
  case lte => simp only [evalOp]; rw [ordering_eq_fixed d _ _ _ l r (fun h => by simpa [bigMixed, isCmp] using hv h)]
  case gte => simp only [evalOp]; rw [ordering_eq_fixed d _ _ _ l r (fun h => by simpa [bigMixed, isCmp] using hv h)]
  case «in» =>
    cases r <;> try rfl
    case arr xs =>
      simp only [evalOp]
      rw [inLoop_eq_fixed d l xs (fun h => by simpa [uncomparablePair] using hu h)]
  all_goals rfl

end OjgVerif.Script
