import OjgVerif.Common.Bytes
/-! # Numbers and values of filter scripts (shared by Spec and Model; repo-independent)

`int64` arithmetic wraps (`wrap64`). A `float64` is modelled EXACTLY as a dyadic rational
`m · 2^e` (`Flt.fin m e`, any integers), `±Inf` or `NaN`; Lean's native `Float` is not used anywhere.
Every finite binary64 is such a pair, so the harness can send any float. The sign of zero is not
represented: no script operation can observe it (division by a zero divisor is guarded in the code,
`0 == -0`, and no result is ever printed). Comparison is exact (cross-multiplication to a common
exponent); `round` is IEEE-754 round-to-nearest-even to 53 bits with gradual underflow and overflow to
infinity, so `add/sub/mul/div/ofInt` are the binary64 operations. -/
namespace OjgVerif.Script
open OjgVerif

/-- two's-complement wrap-around of a mathematical integer to int64 -/
def wrap64 (i : Int) : Int :=
  (i + 9223372036854775808) % 18446744073709551616 - 9223372036854775808

inductive Flt where
  | fin (m : Int) (e : Int)
  | inf (neg : Bool)
  | nan
  deriving DecidableEq, Inhabited

namespace Flt

def bitLen (n : Nat) : Nat := if n = 0 then 0 else n.log2 + 1

/-- mantissa of `m · 2^e` at the common exponent `min e e'` -/
def align (m e e' : Int) : Int := m * 2 ^ (e - min e e').toNat

/-- IEEE `<` (false when either side is NaN) -/
def lt : Flt → Flt → Bool
  | fin m1 e1, fin m2 e2 => decide (align m1 e1 e2 < align m2 e2 e1)
  | fin _ _, inf n => !n
  | inf n, fin _ _ => n
  | inf a, inf b => a && !b
  | nan, _ => false
  | fin _ _, nan => false
  | inf _, nan => false

/-- IEEE `==` (false when either side is NaN) -/
def eq : Flt → Flt → Bool
  | fin m1 e1, fin m2 e2 => decide (align m1 e1 e2 = align m2 e2 e1)
  | inf a, inf b => a == b
  | fin _ _, inf _ => false
  | inf _, fin _ _ => false
  | nan, _ => false
  | fin _ _, nan => false
  | inf _, nan => false

/-- IEEE `<=` -/
def le (a b : Flt) : Bool := lt a b || eq a b

/-- nearest multiple of `2^e'`, `e' = max (e + bitLen n − 53) (−1074)`, of `n · 2^e`; ties to even -/
def roundMag (n : Nat) (e : Int) : Nat × Int :=
  let e' := max (e + (bitLen n : Int) - 53) (-1074)
  if e' ≤ e then (n, e)
  else
    let s := (e' - e).toNat
    let q := n / 2 ^ s
    let r := n % 2 ^ s
    let half := 2 ^ (s - 1)
    (if half < r || (r == half && q % 2 == 1) then q + 1 else q, e')

/-- the binary64 nearest to `m · 2^e` -/
def round (m e : Int) : Flt :=
  if m = 0 then fin 0 0
  else
    let p := roundMag m.natAbs e
    if 1024 < (bitLen p.1 : Int) + p.2 then inf (decide (m < 0))
    else fin (if m < 0 then -(p.1 : Int) else (p.1 : Int)) p.2

/-- `float64(i)` -/
def ofInt (i : Int) : Flt := round i 0

def neg : Flt → Flt
  | fin m e => fin (-m) e
  | inf n => inf (!n)
  | nan => nan

def add : Flt → Flt → Flt
  | fin m1 e1, fin m2 e2 => round (align m1 e1 e2 + align m2 e2 e1) (min e1 e2)
  | fin _ _, inf b => inf b
  | inf a, fin _ _ => inf a
  | inf a, inf b => if a = b then inf a else nan
  | nan, _ => nan
  | fin _ _, nan => nan
  | inf _, nan => nan

def sub (a b : Flt) : Flt := add a (neg b)

def mul : Flt → Flt → Flt
  | fin m1 e1, fin m2 e2 => round (m1 * m2) (e1 + e2)
  | fin m _, inf b => if m = 0 then nan else inf (decide (m < 0) != b)
  | inf a, fin m _ => if m = 0 then nan else inf (a != decide (m < 0))
  | inf a, inf b => inf (a != b)
  | nan, _ => nan
  | fin _ _, nan => nan
  | inf _, nan => nan

/-- quotient with at least 56 significant bits and a sticky bit, then rounded once -/
def div : Flt → Flt → Flt
  | fin m1 e1, fin m2 e2 =>
    if m2 = 0 then (if m1 = 0 then nan else inf (decide (m1 < 0)))
    else if m1 = 0 then fin 0 0
    else
      let n1 := m1.natAbs
      let n2 := m2.natAbs
      let s := (bitLen n2 + 56 - bitLen n1 : Nat)
      let q := n1 * 2 ^ s / n2
      let r := n1 * 2 ^ s % n2
      let n : Nat := 2 * q + (if r = 0 then 0 else 1)
      round (if decide (m1 < 0) != decide (m2 < 0) then -(n : Int) else (n : Int)) (e1 - e2 - (s : Int) - 1)
  | fin _ _, inf _ => fin 0 0
  | inf a, fin m _ => inf (a != decide (m < 0))
  | inf _, inf _ => nan
  | nan, _ => nan
  | fin _ _, nan => nan
  | inf _, nan => nan

def isZero : Flt → Bool
  | fin m _ => m == 0
  | _ => false

end Flt

/-- What the `Normalize` switch of `evalWithRoot` / the function `normalize` (jp/script.go) turn a Go
value of a sized number type or a `gen` scalar node into; `none` for every other type (left as it is). -/
inductive Core where
  | none
  | sint (i : Int)      -- int, int8, int16, int32: `int64(x)`
  | uint (i : Int)      -- uint, uint8, uint16, uint32, uint64 (0 ≤ i < 2^64): `int64(x)`, which wraps
  | f32 (f : Flt)       -- float32: `float64(x)` (exact)
  | gbool (b : Bool)    -- gen.Bool
  | gint (i : Int)      -- gen.Int
  | gflt (f : Flt)      -- gen.Float
  | gstr (s : Bytes)    -- gen.String
  deriving DecidableEq, Inhabited

/-- A TYPED Go value: any value whose dynamic type is none of nil / bool / int64 / float64 / string /
[]any / map[string]any / the Nothing marker / *regexp.Regexp — as the script code sees it:
`ty` names the dynamic type, `cmp`/`tcmp` are `reflect.TypeOf(x).Comparable()` (false for `[]int`, `[]string`,
`map[string]int`, `gen.Array`, `gen.Object`, a struct with a slice field; true for named scalar types,
`[2]int`, pointers, `int8`…), `id` is the equality class of the value under Go `==` among the values of
its type (only meaningful when `cmp`), `core` is what normalisation turns it into.
`tcmp` is what reflection reports for the TYPE; `cmp` says whether Go `==` on two values of this `ty` is
safe. They differ for exactly one kind of value: a struct or array type with an interface-typed field or
element is comparable as a type (`tcmp = true`), but `==` on two values that hold the same uncomparable
dynamic type there (a slice, a map) panics (`cmp = false`; `ty` then also stands for what the field holds).
That is finding C12-iface-field-panic: `sameValue` tests the type only. -/
structure Ext where
  ty : Nat
  cmp : Bool
  id : Nat
  core : Core
  tcmp : Bool
  deriving DecidableEq, Inhabited

/-- Operand values of a script: JSON data, the `Nothing` marker for a path that selects no node,
a compiled regular expression (its pattern), and typed Go values (`ext`). Integers are int64 values. -/
inductive Val where
  | null
  | bool (b : Bool)
  | int (i : Int)
  | flt (f : Flt)
  | str (s : Bytes)
  | arr (xs : List Val)
  | obj (kvs : List (Bytes × Val))
  | nothing
  | rx (pat : Bytes)
  | ext (e : Ext)
  deriving Inhabited

/-- the number / boolean / string a typed scalar stands for (`normalize` in jp/script.go): sized integers
and `gen.Int` become int64 (`uint64` wraps), `float32`/`gen.Float` float64, `gen.Bool` bool, `gen.String`
string; everything else — in particular typed containers and named scalar types — stays what it is. -/
def Val.norm : Val → Val
  | .ext e =>
    match e.core with
    | .none => .ext e
    | .sint i => .int i
    | .uint i => .int (wrap64 i)
    | .f32 f => .flt f
    | .gbool b => .bool b
    | .gint i => .int i
    | .gflt f => .flt f
    | .gstr s => .str s
  | v => v

/-- a regular-expression engine: `rx pattern subject` is `none` when the pattern does not compile.
All theorems hold for every engine; the driver instantiates it with a literal-text matcher. -/
abbrev RxEngine := Bytes → Bytes → Option Bool

/-- operators and functions of the script language -/
inductive Op where
  | eq | neq | lt | gt | lte | gte | or | and | not | add | sub | mult | divide
  | «in» | empty | rx | has | «exists» | length | count | «match» | search | group
  deriving DecidableEq, Inhabited

/-- number of operands -/
def Op.cnt : Op → Nat
  | .not => 1 | .length => 1 | .count => 1 | .group => 1
  | _ => 2

/-- JSONPath operands: a start (`@` = the element under test, `$` = the document root) followed by
member names, indexes and wildcards -/
inductive Frag where
  | child (k : Bytes)
  | nth (i : Int)
  | wild
  deriving DecidableEq, Inhabited

structure Path where
  root : Bool
  frags : List Frag
  deriving DecidableEq, Inhabited

/-- script expressions as trees -/
inductive Tm where
  | const (v : Val)
  | path (p : Path)
  | app1 (o : Op) (a : Tm)
  | app2 (o : Op) (a b : Tm)
  deriving Inhabited

end OjgVerif.Script
